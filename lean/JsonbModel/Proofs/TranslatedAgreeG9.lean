/-
Agreement theorems, phase 6a, part 9: the scalar values of a frontier (`Sel.valuesOf`), `convert_expr_val` =
`Sel.exprVal`, the derived `PartialOrd` of `PathValue` = `Sel.pvCmp`, `compare_value` = `Sel.cmpOp`, `compare` =
`Sel.anyPair`.
-/
import JsonbModel.Proofs.TranslatedAgreeG8

set_option linter.unusedSimpArgs false
set_option linter.unusedVariables false

namespace Jsonb.TrAgree
open Jsonb.Rs

/-! ## decoded numbers are values of their Rust type -/

theorem num_dec_wf_g (bs : Bytes) (n : Num) (h : Num.dec bs = .ok n) : n.WF := by
  cases bs with
  | nil => simp [Num.dec] at h
  | cons t rest =>
    have hb := ofBe_lt rest
    simp only [Num.dec] at h
    split at h
    · split at h
      · cases h
      · split at h
        · cases h; simp [Num.WF]
        · split at h
          · cases h; simp [Num.WF, F64.canonNaN]
          · split at h
            · cases h; simp [Num.WF, F64.posInf]
            · cases h; simp [Num.WF, F64.negInf]
    · split at h
      · split at h
        · rename_i hl
          cases h
          simp only [Num.WF, Num.ofBeI]
          rcases hl with hl | hl | hl | hl <;> rw [hl] at hb ⊢ <;> split <;> omega
        · cases h
      · split at h
        · split at h
          · rename_i hl
            cases h
            simp only [Num.WF]
            rcases hl with hl | hl | hl | hl <;> rw [hl] at hb <;> omega
          · cases h
        · split at h
          · split at h
            · rename_i hl
              cases h
              simp only [Num.WF]
              rw [hl] at hb; omega
            · cases h
          · cases h

/-! ## the scalar value at a position -/

/-- the `PathValue` of a scalar position (the `match ty { … }` of `convert_expr_val`) -/
def scalarVal (root : Bytes) (ty off len : Nat) : Res PathValue :=
  if ty = C.NULL_TAG then .ok .null
  else if ty = C.TRUE_TAG then .ok (.bool true)
  else if ty = C.FALSE_TAG then .ok (.bool false)
  else if ty = C.NUMBER_TAG then (Jsonb.slice root off (off + len)).bind (fun p => (Num.dec p).map PathValue.num)
  else if ty = C.STRING_TAG then (Jsonb.slice root off (off + len)).map PathValue.str
  else .panic "unreachable"

theorem valuesOf_scalar (root : Bytes) (ty off len : Nat) (rest : List Sel.Pos) :
    Sel.valuesOf root (.scalar ty off len :: rest) =
      (scalarVal root ty off len).bind (fun v => (Sel.valuesOf root rest).map (v :: ·)) := by
  simp only [Sel.valuesOf, scalarVal]
  by_cases h1 : ty = C.NULL_TAG
  · simp only [if_pos h1]; rfl
  · by_cases h2 : ty = C.TRUE_TAG
    · simp only [if_neg h1, if_pos h2]; rfl
    · by_cases h3 : ty = C.FALSE_TAG
      · simp only [if_neg h1, if_neg h2, if_pos h3]; rfl
      · by_cases h4 : ty = C.NUMBER_TAG
        · simp only [if_neg h1, if_neg h2, if_neg h3, if_pos h4]
          cases Jsonb.slice root off (off + len) with
          | ok p => cases hd : Num.dec p <;> simp [Res.bind, Res.map, hd]
          | err e => rfl
          | panic s => rfl
          | fuel => rfl
        · by_cases h5 : ty = C.STRING_TAG
          · simp only [if_neg h1, if_neg h2, if_neg h3, if_neg h4, if_pos h5]
            cases Jsonb.slice root off (off + len) <;> rfl
          · simp only [if_neg h1, if_neg h2, if_neg h3, if_neg h4, if_neg h5]; rfl

theorem scalarVal_ok (root : Bytes) (ty off len : Nat) (v : PathValue) (h : scalarVal root ty off len = .ok v) : PVOK v := by
  unfold scalarVal at h
  split at h
  · cases h; trivial
  · split at h
    · cases h; trivial
    · split at h
      · cases h; trivial
      · split at h
        · cases hs : Jsonb.slice root off (off + len) with
          | ok p =>
            cases hd : Num.dec p with
            | ok n => simp only [hs, hd, Res.bind, Res.map, Res.ok.injEq] at h; subst h; exact num_dec_wf_g p n hd
            | err e => simp [hs, hd, Res.bind, Res.map] at h
            | panic s => simp [hs, hd, Res.bind, Res.map] at h
            | fuel => simp [hs, hd, Res.bind, Res.map] at h
          | err e => simp [hs, Res.bind] at h
          | panic s => simp [hs, Res.bind] at h
          | fuel => simp [hs, Res.bind] at h
        · split at h
          · cases hs : Jsonb.slice root off (off + len) with
            | ok p => simp only [hs, Res.map, Res.bind, Res.ok.injEq] at h; subst h; trivial
            | err e => simp [hs, Res.map, Res.bind] at h
            | panic s => simp [hs, Res.map, Res.bind] at h
            | fuel => simp [hs, Res.map, Res.bind] at h
          · cases h

/-- the value loop of `convert_expr_val` on a non-empty queue -/
theorem cev_loop3_cons (root : Bytes) (x : Tr.Position) (hlen : root.length < 9223372036854775808)
    (pos : Sel.Pos) (rest : List Sel.Pos) (vals : List PathValue) :
    match pos with
    | .container _ _ =>
      Tr.Selector.convert_expr_val.loop3 root x ((pos :: rest).map ofPos, vals.map ofPV) =
        Ctl.val (.next (rest.map ofPos, vals.map ofPV))
    | .scalar ty off len =>
      AgC (fun v => Step.next (rest.map ofPos, (vals ++ [v]).map ofPV))
        (Tr.Selector.convert_expr_val.loop3 root x ((pos :: rest).map ofPos, vals.map ofPV)) (scalarVal root ty off len) := by
  cases pos with
  | container off len =>
    simp only []
    unfold Tr.Selector.convert_expr_val.loop3
    simp [Rs.popFront, ofPos, Rs.loopStep]
  | scalar ty off len =>
    simp only []
    unfold Tr.Selector.convert_expr_val.loop3
    simp only [List.map_cons, Rs.popFront, ofPos, tag_decide_g]
    unfold scalarVal
    by_cases h1 : ty = C.NULL_TAG
    · right
      have d1 := decide_eq_true h1
      simp only [d1, if_pos h1, if_true]
      simp [Rs.vecPush, Rs.loopStep, ofPV]
    · have d1 := decide_eq_false h1
      by_cases h2 : ty = C.TRUE_TAG
      · right
        have d2 := decide_eq_true h2
        simp only [d1, d2, if_neg h1, if_pos h2, if_true, Bool.false_eq_true, if_false]
        simp [Rs.vecPush, Rs.loopStep, ofPV]
      · have d2 := decide_eq_false h2
        by_cases h3 : ty = C.FALSE_TAG
        · right
          have d3 := decide_eq_true h3
          simp only [d1, d2, d3, if_neg h1, if_neg h2, if_pos h3, if_true, Bool.false_eq_true, if_false]
          simp [Rs.vecPush, Rs.loopStep, ofPV]
        · have d3 := decide_eq_false h3
          by_cases h4 : ty = C.NUMBER_TAG
          · have d4 := decide_eq_true h4
            simp only [d1, d2, d3, d4, if_neg h1, if_neg h2, if_neg h3, if_pos h4, if_true, Bool.false_eq_true, if_false]
            by_cases ho : off + len < 18446744073709551616
            · rw [Rs.add_usize_nat off len ho]
              simp only [Ctl.ofRes_ok', Ctl.val_bind', slice_model]
              cases hs : Jsonb.slice root off (off + len) with
              | ok p =>
                have hpl := slice_len_le_g root _ _ p hs
                simp only [Ctl.ofRes_ok', Ctl.val_bind', Res.bind, decode_agrees p (by omega)]
                right
                cases hd : Num.dec p with
                | ok n => simp [Res.map, Res.bind, Ctl.ofRes, Rs.vecPush, Rs.loopStep, ofPV]
                | err e => simp [Res.map, Res.bind, Ctl.ofRes, Rs.loopStep]
                | panic s => simp [Res.map, Res.bind, Ctl.ofRes, Rs.loopStep]
                | fuel => simp [Res.map, Res.bind, Ctl.ofRes, Rs.loopStep]
              | err e => exact absurd hs (slice_not_err_g _ _ _ _)
              | panic s => right; simp [Res.bind, Ctl.ofRes, Rs.loopStep]
              | fuel => exact absurd hs (slice_not_fuel_g _ _ _)
            · rw [Rs.add_usize_overflow off len (by omega)]
              have : Jsonb.slice root off (off + len) = .panic "slice index out of range" := by
                unfold Jsonb.slice
                rw [if_neg (by omega)]
              rw [this]
              right; simp [Res.bind, Ctl.ofRes, Rs.loopStep]
          · have d4 := decide_eq_false h4
            by_cases h5 : ty = C.STRING_TAG
            · have d5 := decide_eq_true h5
              simp only [d1, d2, d3, d4, d5, if_neg h1, if_neg h2, if_neg h3, if_neg h4, if_pos h5, if_true, Bool.false_eq_true,
                if_false]
              by_cases ho : off + len < 18446744073709551616
              · rw [Rs.add_usize_nat off len ho]
                simp only [Ctl.ofRes_ok', Ctl.val_bind', slice_model]
                right
                cases hs : Jsonb.slice root off (off + len) with
                | ok p => simp [Res.map, Res.bind, Ctl.ofRes, Rs.vecPush, Rs.loopStep, ofPV]
                | err e => simp [Res.map, Res.bind, Ctl.ofRes, Rs.loopStep]
                | panic s => simp [Res.map, Res.bind, Ctl.ofRes, Rs.loopStep]
                | fuel => simp [Res.map, Res.bind, Ctl.ofRes, Rs.loopStep]
              · rw [Rs.add_usize_overflow off len (by omega)]
                have : Jsonb.slice root off (off + len) = .panic "slice index out of range" := by
                  unfold Jsonb.slice
                  rw [if_neg (by omega)]
                rw [this]
                right; simp [Res.map, Res.bind, Ctl.ofRes, Rs.loopStep]
            · have d5 := decide_eq_false h5
              simp only [d1, d2, d3, d4, d5, if_neg h1, if_neg h2, if_neg h3, if_neg h4, if_neg h5, Bool.false_eq_true, if_false]
              right; simp [Rs.loopStep]

end Jsonb.TrAgree
