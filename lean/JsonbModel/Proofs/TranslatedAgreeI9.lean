/-
Phase 6c, serde bridge.  I9: `containter_to_serde_json_object` / `to_serde_json_object` against
`Fn.toSerdeJsonObject`; the corollaries on the encodings of good documents (C19).
-/
import JsonbModel.Proofs.TranslatedAgreeI8
import JsonbModel.Proofs.SerdeRefine

set_option linter.unusedSimpArgs false
set_option linter.unusedVariables false

namespace Jsonb.TrAgree
open Jsonb.Rs
open Jsonb.Fn Jsonb.JV

theorem serde_object_loop1_step (fuel : Nat) (m : Bytes × JE × Bytes) (obj : List (Bytes × SJ)) :
    Tr.containter_to_serde_json_object.loop1 fuel (ofMember m) obj =
      match Tr.scalar_to_serde_json fuel (ofJE m.2.1) m.2.2 with
      | .ok x => Ctl.val (.next (SJ.insert m.1 x obj))
      | .err e => Ctl.ret (.err e)
      | .panic s => Ctl.ret (.panic s)
      | .fuel => Ctl.ret .fuel := by
  unfold Tr.containter_to_serde_json_object.loop1 ofMember
  dsimp only
  cases Tr.scalar_to_serde_json fuel (ofJE m.2.1) m.2.2 with
  | ok x => simp only [Ctl.ofRes_ok', Ctl.val_bind', Ctl.pure_eq', Rs.sjMapInsert, Rs.loopStep_val']
  | err e => simp only [Ctl.ofRes_err', Ctl.ret_bind', Rs.loopStep_err']
  | panic s => simp only [Ctl.ofRes_panic', Ctl.ret_bind', Rs.loopStep_panic']
  | fuel => rfl

/-- the model's `toSerdeJsonObject` is typed `Option SJ` (the object itself), the source returns the `Map` -/
def ofMapOpt (r : Res (Option (List (Bytes × SJ)))) : Res (Option SJ) := r.map (Option.map SJ.obj)

/-- **`containter_to_serde_json_object`** computes the model's `toSerdeJsonObject` -/
theorem containter_to_serde_json_object_agrees (fuel : Nat) (value : Bytes)
    (hf : 2 * value.length + 8 + 536870914 < fuel) (hlen : value.length < 9223372036854775808)
    (hne : Fn.toSerdeJsonObject value ≠ .fuel) (hnp : (Fn.toSerdeJsonObject value).isPanic = false) :
    ofMapOpt (Tr.containter_to_serde_json_object fuel value) = Fn.toSerdeJsonObject value := by
  rw [Tr.containter_to_serde_json_object]
  rw [Fn.toSerdeJsonObject] at hne hnp ⊢
  dsimp only at hne hnp ⊢
  generalize hh : (readU32At value 0).getD 0 = h at hne hnp ⊢
  have hL := hdrLen_lt h
  simp only [read_header_or_default, hh, Ctl.ofRes_ok', Ctl.val_bind', hdrType_eq, hdrLen_cast]
  simp only [decide_eq_true_eq, Bool.or_eq_true]
  by_cases c1 : hdrType h = C.OBJECT_CONTAINER_TAG
  · obtain ⟨F, hF⟩ : ∃ F, 2 * value.length + 8 = F + 1 := ⟨2 * value.length + 7, by omega⟩
    simp only [if_pos c1, iterate_object_entries_agrees, Ctl.ofRes_ok', Ctl.val_bind', Fn.toSerdeJson, hF] at hne hnp ⊢
    rw [Fn.toSerde] at hne hnp ⊢
    simp only [hh, if_pos c1] at hne hnp ⊢
    have hi : ∃ ms, iterObjEntries value h = .ok ms := by
      apply res_ok_of _ _ _ (iterObjEntries_ne_err value h)
      · intro c; rw [c] at hne; exact hne rfl
      · cases hia : iterObjEntries value h with
        | panic s => rw [hia] at hnp; simp [Res.map, Res.bind, Res.isPanic] at hnp
        | _ => rfl
    obtain ⟨ms, hms⟩ := hi
    rw [hms] at hne hnp ⊢
    dsimp only at hne hnp ⊢
    rw [forIter_of_drain _ _ fuel _ (ms.map ofMember) _ (drain_object_ok value h fuel ms (by omega) hms)]
    have hrec : SerdeRecOK F (Tr.scalar_to_serde_json fuel) := fun f' hf' je v hv hjl hne' hnp' =>
      scalar_to_serde_json_agrees f' fuel (by omega) je v hv hjl hne' hnp'
    have hrun := serde_members_generic (Tr.scalar_to_serde_json fuel) _ (serde_object_loop1_step fuel) ms F [] hrec
      (fun m hm => ⟨by have := iterObjEntries_item_le value h ms hms m hm; omega, (iterObjEntries_fits value h ms hms m hm).2⟩)
    simp only [Rs.sjMapWithCapacity]
    cases hm : Fn.serdeMembers F ms [] with
    | fuel => rw [hm] at hne; exact absurd rfl hne
    | panic s => rw [hm] at hnp; simp [Res.map, Res.bind, Res.isPanic] at hnp
    | err e =>
      rw [hm] at hrun
      simp only [LoopVal] at hrun
      simp only [hrun, Ctl.ret_bind', Ctl.run_ret', Res.map, Res.bind, ofMapOpt]
    | ok res =>
      rw [hm] at hrun
      simp only [LoopVal] at hrun
      simp only [hrun, Ctl.val_bind', Ctl.pure_eq', Ctl.run_ret', Res.map, Res.bind, ofMapOpt, Option.map]
  simp only [if_neg c1] at hne hnp ⊢
  by_cases c2 : hdrType h = C.ARRAY_CONTAINER_TAG ∨ hdrType h = C.SCALAR_CONTAINER_TAG
  · simp only [if_pos c2, Ctl.pure_eq', Ctl.val_bind', Ctl.run_ret', ofMapOpt, Res.map, Res.bind, Option.map]
  · simp only [if_neg c2, Ctl.ret_bind', Ctl.run_ret', ofMapOpt, Res.map, Res.bind]

theorem to_serde_json_object_text_agrees (fuel : Nat) (value : Bytes) (text : Res (Option (List (Bytes × SJ))))
    (hj : isJsonb value = false) : Tr.to_serde_json_object fuel value text = text := by
  simp only [Tr.to_serde_json_object, is_jsonb_agrees, hj, Ctl.ofRes_ok', Ctl.val_bind', Bool.not_false, if_true,
    Ctl.ret_bind', Ctl.run_ret']

/-- **`to_serde_json_object`** on JSONB input is the model's `toSerdeJsonObject` -/
theorem to_serde_json_object_jsonb_agrees (fuel : Nat) (value : Bytes) (text : Res (Option (List (Bytes × SJ))))
    (hj : isJsonb value = true) (hf : 2 * value.length + 8 + 536870914 < fuel) (hlen : value.length < 9223372036854775808)
    (hne : Fn.toSerdeJsonObject value ≠ .fuel) (hnp : (Fn.toSerdeJsonObject value).isPanic = false) :
    ofMapOpt (Tr.to_serde_json_object fuel value text) = Fn.toSerdeJsonObject value := by
  simp only [Tr.to_serde_json_object, is_jsonb_agrees, hj, Ctl.ofRes_ok', Ctl.val_bind', Bool.not_true, Bool.false_eq_true,
    if_false, Ctl.pure_eq', Ctl.run_ret']
  exact containter_to_serde_json_object_agrees fuel value hf hlen hne hnp

/-! ## on the encodings of good documents (C19) -/

theorem toSerdeJson_encodeSpec_total (v : JV) (hg : goodTop v = true) :
    Fn.toSerdeJson (encodeSpec v) ≠ .fuel ∧ (Fn.toSerdeJson (encodeSpec v)).isPanic = false := by
  have ht := toSerdeJson_total v hg
  cases hf : finiteJ v with
  | true => rw [ht.2.1 hf]; exact ⟨(fun c => by cases c), rfl⟩
  | false => rw [(ht.2.2 hf).1]; exact ⟨(fun c => by cases c), rfl⟩

/-- **C19, source-level corollary**: on the encoding of a good document (that `is_jsonb` recognises) the translated
`to_serde_json` IS the model's `toSerdeJson`, for every adequate fuel and whatever the text branch holds -/
theorem to_serde_json_encodeSpec_agrees (v : JV) (hg : goodTop v = true) (hj : isJsonb (encodeSpec v) = true)
    (fuel : Nat) (hf : 2 * (encodeSpec v).length + 8 + 536870914 < fuel) (text : Res SJ) :
    Tr.to_serde_json fuel (encodeSpec v) text = Fn.toSerdeJson (encodeSpec v) :=
  to_serde_json_jsonb_agrees fuel _ text hj hf (encodeSpec_length_lt v hg) (toSerdeJson_encodeSpec_total v hg).1
    (toSerdeJson_encodeSpec_total v hg).2

/-- the same, with the tree conversion on the right (finite numbers) -/
theorem to_serde_json_encodeSpec_spec (v : JV) (hg : goodTop v = true) (hfin : finiteJ v = true)
    (hj : isJsonb (encodeSpec v) = true)
    (fuel : Nat) (hf : 2 * (encodeSpec v).length + 8 + 536870914 < fuel) (text : Res SJ) :
    Tr.to_serde_json fuel (encodeSpec v) text = .ok (toSJT v) := by
  rw [to_serde_json_encodeSpec_agrees v hg hj fuel hf text, (toSerdeJson_total v hg).2.1 hfin]

/-- a NaN or an infinity anywhere in the document: `Err(InvalidJson)` -/
theorem to_serde_json_encodeSpec_nonfinite (v : JV) (hg : goodTop v = true) (hfin : finiteJ v = false)
    (hj : isJsonb (encodeSpec v) = true)
    (fuel : Nat) (hf : 2 * (encodeSpec v).length + 8 + 536870914 < fuel) (text : Res SJ) :
    Tr.to_serde_json fuel (encodeSpec v) text = .err "InvalidJson" := by
  rw [to_serde_json_encodeSpec_agrees v hg hj fuel hf text, ((toSerdeJson_total v hg).2.2 hfin).1]

theorem toSerdeJsonObject_encodeSpec_total (v : JV) (hg : goodTop v = true) :
    Fn.toSerdeJsonObject (encodeSpec v) ≠ .fuel ∧ (Fn.toSerdeJsonObject (encodeSpec v)).isPanic = false := by
  have hr := (toSerdeJsonObject_refines v hg).1
  have ht := toSerdeJson_encodeSpec_total v hg
  rw [hr]
  cases v with
  | obj kvs =>
    dsimp only
    cases hm : Fn.toSerdeJson (encodeSpec (JV.obj kvs)) with
    | ok x => exact ⟨(fun c => by cases c), rfl⟩
    | err e => exact ⟨(fun c => by cases c), rfl⟩
    | panic s => rw [hm] at ht; simp [Res.isPanic] at ht
    | fuel => exact absurd hm ht.1
  | _ => exact ⟨(fun c => by cases c), rfl⟩

/-- **C19**: `to_serde_json_object` on the encoding of a good document -/
theorem to_serde_json_object_encodeSpec_agrees (v : JV) (hg : goodTop v = true) (hj : isJsonb (encodeSpec v) = true)
    (fuel : Nat) (hf : 2 * (encodeSpec v).length + 8 + 536870914 < fuel) (text : Res (Option (List (Bytes × SJ)))) :
    ofMapOpt (Tr.to_serde_json_object fuel (encodeSpec v) text) = Fn.toSerdeJsonObject (encodeSpec v) :=
  to_serde_json_object_jsonb_agrees fuel _ text hj hf (encodeSpec_length_lt v hg) (toSerdeJsonObject_encodeSpec_total v hg).1
    (toSerdeJsonObject_encodeSpec_total v hg).2

/-! ## where the model panics: the recorded difference (forged buffers only) -/

/-- an array of two entries: the first carries an unknown type code, the payload of the second (a string of
100 bytes) is missing -/
def lazySerdeDoc : Bytes := [0x80, 0, 0, 2, 0x60, 0, 0, 0, 0x10, 0, 0, 100]

/-- the source walks `iterate_array` lazily and leaves at the first item with `Err(InvalidJsonb)`; the model collects the
items first and panics at the slice of the second -/
theorem to_serde_json_lazy_witness :
    (Fn.toSerdeJson lazySerdeDoc).map (fun _ => ()) = .panic "slice index out of range" ∧
      (Tr.to_serde_json 40 lazySerdeDoc (.err "text")).map (fun _ => ()) = .err "InvalidJsonb" := by
  refine ⟨?_, ?_⟩ <;> decide +kernel

end Jsonb.TrAgree
