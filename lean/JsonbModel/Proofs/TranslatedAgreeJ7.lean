/-
Agreement theorems, phase 6d, part 7 (property C09, printers): the `Display` impls of jsonpath/path.rs translated from
source (`Index`, `ArrayIndex`, `PathValue`, the operator enums, the mutually recursive `Path` / `Expr`, `JsonPath`) APPEND
the text the model's printers of `PathPrint.lean` compute, for every fuel above the size of the tree.
-/
import JsonbModel.Proofs.TranslatedAgreeJ6

set_option linter.unusedSimpArgs false
set_option linter.unusedVariables false

namespace Jsonb.TrAgree
open Jsonb.PathPrint

theorem int_compare_gt (x : Int) (h : x > 0) : compare x 0 = .gt := by
  have h1 : ¬ x < 0 := by omega
  have h2 : ¬ x = 0 := by omega
  simp [compare, compareOfLessAndEq, h1, h2]
theorem int_compare_lt (x : Int) (h : x < 0) : compare x 0 = .lt := by
  simp [compare, compareOfLessAndEq, h]
theorem int_compare_eq (x : Int) (h : x = 0) : compare x 0 = .eq := by
  subst h; rfl

theorem index_fmt_agrees (i : Index) (f : Bytes) :
    Tr.Display.Index.fmt (ofIdx i) f = .ok (f ++ printIndex i) := by
  cases i with
  | index n => unfold Tr.Display.Index.fmt ofIdx printIndex; disp_simp
  | last n =>
    unfold Tr.Display.Index.fmt ofIdx printIndex
    disp_simp
    by_cases h1 : n > 0
    · simp [int_compare_gt n h1, h1]
    · by_cases h2 : n < 0
      · simp [int_compare_lt n h2, h1, h2]
      · simp [int_compare_eq n (by omega), h1, h2]

theorem array_index_fmt_agrees (a : ArrayIndex) (f : Bytes) :
    Tr.Display.ArrayIndex.fmt (ofArrayIndex a) f = .ok (f ++ printArrayIndex a) := by
  cases a <;> (unfold Tr.Display.ArrayIndex.fmt ofArrayIndex printArrayIndex; disp_simp; simp [index_fmt_agrees])

theorem path_value_fmt_agrees (fmt : Nat → Bytes) (v : PathValue) (f : Bytes) :
    Tr.Display.PathValue.fmt fmt (ofPathValue v) f = .ok (f ++ printPathValue fmt v) := by
  cases v with
  | null => unfold Tr.Display.PathValue.fmt ofPathValue printPathValue; disp_simp
  | bool b => cases b <;> (unfold Tr.Display.PathValue.fmt ofPathValue printPathValue; disp_simp; simp)
  | num n => unfold Tr.Display.PathValue.fmt ofPathValue printPathValue; disp_simp
  | str s => unfold Tr.Display.PathValue.fmt ofPathValue printPathValue; disp_simp; simp

theorem binary_operator_fmt_agrees (o : BinOp) (f : Bytes) :
    Tr.Display.BinaryOperator.fmt (ofBinOp o) f = .ok (f ++ printBinOp o) := by
  cases o <;> (unfold Tr.Display.BinaryOperator.fmt ofBinOp printBinOp; disp_simp)

theorem unary_arith_operator_fmt_agrees (o : UnOp) (f : Bytes) :
    Tr.Display.UnaryArithmeticOperator.fmt (ofUnOp o) f = .ok (f ++ printUnOp o) := by
  cases o <;> (unfold Tr.Display.UnaryArithmeticOperator.fmt ofUnOp printUnOp; disp_simp)

theorem binary_arith_operator_fmt_agrees (o : ArithOp) (f : Bytes) :
    Tr.Display.BinaryArithmeticOperator.fmt (ofArithOp o) f = .ok (f ++ printArithOp o) := by
  cases o <;> (unfold Tr.Display.BinaryArithmeticOperator.fmt ofArithOp printArithOp; disp_simp)

/-! ## the recursive printers -/

mutual
/-- number of constructors of a path (the fuel the printer needs is above it) -/
def psize : Path → Nat
  | .arithmeticExpr e => esize e + 1
  | .filterExpr e => esize e + 1
  | .predicate e => esize e + 1
  | _ => 1
def esize : Expr → Nat
  | .paths ps => pssize ps + 1
  | .value _ => 1
  | .binaryOp _ l r => esize l + esize r + 1
  | .arithUnary _ e => esize e + 1
  | .arithBinary _ l r => esize l + esize r + 1
  | .existsFn ps => pssize ps + 1
def pssize : List Path → Nat
  | [] => 0
  | p :: ps => psize p + pssize ps
end

/-- an operand of `Expr::BinaryOp` as `impl Display for Expr` writes it -/
def operandFmt (fuel : Nat) (fmt : Nat → Bytes) (e : Tr.Expr) (f : Bytes) : Res Bytes :=
  match e with
  | .BinaryOp left_op _ _ => do
    let f ← (if ((decide (left_op = Tr.BinaryOperator.And)) || (decide (left_op = Tr.BinaryOperator.Or))) then do
        let f := Rs.pushStr f (Rs.strLit "(")
        let f ← Tr.Display.Expr.fmt fuel fmt e f
        let f := Rs.pushStr f (Rs.strLit ")")
        pure f
      else do
        let f ← Tr.Display.Expr.fmt fuel fmt e f
        pure f)
    pure f
  | _ => do
    let f ← Tr.Display.Expr.fmt fuel fmt e f
    pure f

theorem expr_fmt_binop (fuel : Nat) (fmt : Nat → Bytes) (o : Tr.BinaryOperator) (l r : Tr.Expr) (f : Bytes) :
    Tr.Display.Expr.fmt (fuel + 1) fmt (.BinaryOp o l r) f = (do
      let f ← operandFmt fuel fmt l f
      let f := Rs.pushStr f (Rs.strLit " ")
      let f ← Tr.Display.BinaryOperator.fmt o f
      let f := Rs.pushStr f (Rs.strLit " ")
      let f ← operandFmt fuel fmt r f
      pure f) := by
  unfold Tr.Display.Expr.fmt operandFmt
  cases l <;> cases r <;> rfl

theorem operand_fmt (fuel : Nat) (fmt : Nat → Bytes) (l : Expr) (f : Bytes)
    (hl : ∀ g, Tr.Display.Expr.fmt fuel fmt (ofExpr l) g = .ok (g ++ printExpr fmt l)) :
    operandFmt fuel fmt (ofExpr l) f = .ok (f ++ (if needsParens l then [40] ++ printExpr fmt l ++ [41] else printExpr fmt l)) := by
  cases l with
  | binaryOp o a b =>
    cases o <;> (simp only [ofExpr, ofBinOp, operandFmt] at hl ⊢; (try disp_simp); simp [hl, needsParens])
  | paths ps => simp only [ofExpr, operandFmt] at hl ⊢; simp [hl, needsParens, bind, Res.bind, pure]
  | value v => simp only [ofExpr, operandFmt] at hl ⊢; simp [hl, needsParens, bind, Res.bind, pure]
  | arithUnary o e => simp only [ofExpr, operandFmt] at hl ⊢; simp [hl, needsParens, bind, Res.bind, pure]
  | arithBinary o a b => simp only [ofExpr, operandFmt] at hl ⊢; simp [hl, needsParens, bind, Res.bind, pure]
  | existsFn ps => simp only [ofExpr, operandFmt] at hl ⊢; simp [hl, needsParens, bind, Res.bind, pure]

mutual
theorem path_fmt_agrees (fmt : Nat → Bytes) : ∀ (p : Path) (fuel : Nat) (f : Bytes), psize p < fuel →
    Tr.Display.Path.fmt fuel fmt (ofPath p) f = .ok (f ++ printPath fmt p)
  | p, 0, f, h => by omega
  | .root, fuel + 1, f, h => by unfold Tr.Display.Path.fmt; simp only [ofPath, printPath]; (try disp_simp)
  | .current, fuel + 1, f, h => by unfold Tr.Display.Path.fmt; simp only [ofPath, printPath]; (try disp_simp)
  | .dotWildcard, fuel + 1, f, h => by unfold Tr.Display.Path.fmt; simp only [ofPath, printPath]; (try disp_simp)
  | .bracketWildcard, fuel + 1, f, h => by unfold Tr.Display.Path.fmt; simp only [ofPath, printPath]; (try disp_simp)
  | .dotField s, fuel + 1, f, h => by unfold Tr.Display.Path.fmt; simp only [ofPath, printPath]; (try disp_simp); simp
  | .colonField s, fuel + 1, f, h => by unfold Tr.Display.Path.fmt; simp only [ofPath, printPath]; (try disp_simp); simp
  | .objectField s, fuel + 1, f, h => by unfold Tr.Display.Path.fmt; simp only [ofPath, printPath]; (try disp_simp); simp
  | .arrayIndices is, fuel + 1, f, h => by
    unfold Tr.Display.Path.fmt; simp only [ofPath, printPath]; (try disp_simp)
    rw [fold_sepList [44, 32] printArrayIndex ofArrayIndex _ (fun i x f => by
      simp only [array_index_fmt_agrees]
      by_cases hi : i > 0
      · have : ((i : Int) > 0) := by omega
        simp [hi, this]
      · have : ¬ ((i : Int) > 0) := by omega
        simp [hi, this])]
    simp [printArrayIndexList_eq]
  | .arithmeticExpr e, fuel + 1, f, h => by
    unfold Tr.Display.Path.fmt; simp only [ofPath, printPath]; (try disp_simp)
    rw [expr_fmt_agrees fmt e fuel _ (by simp only [psize] at h; omega)]; simp
  | .filterExpr e, fuel + 1, f, h => by
    unfold Tr.Display.Path.fmt; simp only [ofPath, printPath]; (try disp_simp)
    rw [expr_fmt_agrees fmt e fuel _ (by simp only [psize] at h; omega)]; simp
  | .predicate e, fuel + 1, f, h => by
    unfold Tr.Display.Path.fmt; simp only [ofPath, printPath]; (try disp_simp)
    rw [expr_fmt_agrees fmt e fuel _ (by simp only [psize] at h; omega)]
theorem expr_fmt_agrees (fmt : Nat → Bytes) : ∀ (e : Expr) (fuel : Nat) (f : Bytes), esize e < fuel →
    Tr.Display.Expr.fmt fuel fmt (ofExpr e) f = .ok (f ++ printExpr fmt e)
  | e, 0, f, h => by omega
  | .paths ps, fuel + 1, f, h => by
    unfold Tr.Display.Expr.fmt; simp only [ofExpr, printExpr]; (try disp_simp)
    rw [paths_fold_agrees fmt ps fuel f (by simp only [esize] at h; omega)]
  | .value v, fuel + 1, f, h => by
    unfold Tr.Display.Expr.fmt; simp only [ofExpr, printExpr]; (try disp_simp)
    rw [path_value_fmt_agrees]
  | .binaryOp o l r, fuel + 1, f, h => by
    simp only [ofExpr, printExpr]
    rw [expr_fmt_binop]
    have hl := operand_fmt fuel fmt l f (fun g => expr_fmt_agrees fmt l fuel g (by simp only [esize] at h; omega))
    have hr := fun g => operand_fmt fuel fmt r g (fun g' => expr_fmt_agrees fmt r fuel g' (by simp only [esize] at h; omega))
    disp_simp
    simp only [hl, hr, binary_operator_fmt_agrees, List.append_assoc]
  | .arithUnary o e, fuel + 1, f, h => by
    unfold Tr.Display.Expr.fmt; simp only [ofExpr, printExpr]; (try disp_simp)
    simp only [unary_arith_operator_fmt_agrees, expr_fmt_agrees fmt e fuel _ (by simp only [esize] at h; omega), List.append_assoc]
  | .arithBinary o l r, fuel + 1, f, h => by
    unfold Tr.Display.Expr.fmt; simp only [ofExpr, printExpr]; (try disp_simp)
    have hl := fun g => expr_fmt_agrees fmt l fuel g (by simp only [esize] at h; omega)
    have hr := fun g => expr_fmt_agrees fmt r fuel g (by simp only [esize] at h; omega)
    simp only [hl, hr, binary_arith_operator_fmt_agrees, List.append_assoc]
  | .existsFn ps, fuel + 1, f, h => by
    unfold Tr.Display.Expr.fmt; simp only [ofExpr, printExpr]; (try disp_simp)
    rw [paths_fold_agrees fmt ps fuel _ (by simp only [esize] at h; omega)]
    simp
theorem paths_fold_agrees (fmt : Nat → Bytes) : ∀ (ps : List Path) (fuel : Nat) (f : Bytes), pssize ps < fuel →
    Rs.foldRes (ofPaths ps) f (fun path f => do
      let f ← Tr.Display.Path.fmt fuel fmt path f
      pure f) = .ok (f ++ printPaths fmt ps)
  | [], fuel, f, h => by simp [ofPaths, Rs.foldRes, printPaths]
  | p :: ps, fuel, f, h => by
    simp only [ofPaths, Rs.foldRes, printPaths]
    (try disp_simp)
    rw [path_fmt_agrees fmt p fuel f (by simp only [pssize] at h; omega)]
    have := paths_fold_agrees fmt ps fuel (f ++ printPath fmt p) (by simp only [pssize] at h; omega)
    simp only [bind, Res.bind, pure, List.append_assoc] at this ⊢
    exact this
end

/-- **`impl Display for JsonPath`** (C09): for every fuel above the size of the tree the translated printer appends the
model's text -/
theorem json_path_fmt_agrees (fmt : Nat → Bytes) (jp : JsonPath) (fuel : Nat) (f : Bytes) (h : pssize jp < fuel) :
    Tr.Display.JsonPath.fmt fuel fmt (ofJsonPath jp) f = .ok (f ++ printJsonPath fmt jp) := by
  unfold Tr.Display.JsonPath.fmt ofJsonPath printJsonPath
  have := paths_fold_agrees fmt jp fuel f h
  rw [ofPaths_eq_map] at this
  simp only [bind, Res.bind, pure] at this ⊢
  rw [this]

/-- `path.to_string()` -/
theorem json_path_to_string (fmt : Nat → Bytes) (jp : JsonPath) (fuel : Nat) (h : pssize jp < fuel) :
    Tr.Display.JsonPath.fmt fuel fmt (ofJsonPath jp) [] = .ok (printJsonPath fmt jp) := by
  simpa using json_path_fmt_agrees fmt jp fuel [] h

/-- with no fuel the translated recursive printer answers `Res.fuel`, the model a text: the bound is necessary -/
theorem path_fmt_fuel_zero (fmt : Nat → Bytes) (p : Tr.Path) (f : Bytes) : Tr.Display.Path.fmt 0 fmt p f = .fuel := by
  unfold Tr.Display.Path.fmt; rfl

end Jsonb.TrAgree
