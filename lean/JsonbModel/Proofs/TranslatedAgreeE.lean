/-
Agreement theorems, phase 5a (root): the byte-level READ-ONLY ACCESSORS of functions.rs (property C05; the casts also
C11 / C18), translated from source by tools/rs2lean5a.py (Generated/Translated5a.lean), equal the hand-written model
functions of Functions/Access.lean (`Fn.*`) and, with the model's text outcomes, the whole public functions of
Functions/Text.lean / Text2.lean (`T.*`).  `lake build JsonbModel.Proofs.TranslatedAgreeE`.
  E1  `get_by_index`, `get_by_name` = `Fn.getByIndex`, `Fn.getByName`
  E2  `object_keys` = `Fn.objectKeys`
  E3  `array_values`, `object_each` = `Fn.arrayValues`, `Fn.objectEach`
  E4  `type_of`, `as_null`, `as_bool`, `as_number`, `as_str` = `Fn.typeOf`, `Fn.asNull`, `Fn.asBool`, `Fn.asNumber`, `Fn.asStr`
  E5  `as_i64` / `as_u64` / `as_f64`, the `is_*` wrappers, `to_bool` / `to_i64` / `to_u64` / `to_f64` / `to_str`
      = the model's cascades over the callees' answers; `Fn.toBool`, `Fn.toI64`, `Fn.toU64` on JSONB input
  E6  the whole functions `T.*` for E1 - E5
  E7  `get_by_keypath` = `Fn.getByKeypath`
  E8  `exists_jsonb_key`, `exists_all_keys`, `exists_any_keys`: the lazy walk; = `Fn.existsJsonbKey`, `Fn.existsAllKeys`,
      `Fn.existsAnyKeys` wherever the model answers; the difference stated and witnessed
  E9  `traverse_check_string` = `Fn.traverseCheckString` (modulo the text of the `unreachable!` panic)
-/
import JsonbModel.Proofs.TranslatedAgreeE1
import JsonbModel.Proofs.TranslatedAgreeE2
import JsonbModel.Proofs.TranslatedAgreeE3
import JsonbModel.Proofs.TranslatedAgreeE4
import JsonbModel.Proofs.TranslatedAgreeE5
import JsonbModel.Proofs.TranslatedAgreeE6
import JsonbModel.Proofs.TranslatedAgreeE7
import JsonbModel.Proofs.TranslatedAgreeE8
import JsonbModel.Proofs.TranslatedAgreeE9
