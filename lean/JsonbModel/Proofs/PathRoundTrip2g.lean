/-
A renderer with layout choices (`Style`: four whitespace runs, keyword case, name quoting,
`!=` vs `<>`) and the theorem that every rendering of a good JSONPath parses back to it
(`parse_render`).  The renderings are instances of the relation `R` of `PathRoundTrip2c`, which
allows a different whitespace run at every position.
-/
import JsonbModel.Proofs.PathRoundTrip2f

namespace Jsonb
namespace PathRT2
open Nom PathParser PathPrint PathRT

/-- layout choices of the renderer -/
structure Style where
  /-- around comparison operators, `&&` and `||` -/
  op : Bytes
  /-- after `(` `[` `?`, before `)` `]`, around `,`, between `exists` and `(` -/
  inner : Bytes
  /-- around the keyword `to` and around the sign after `last` -/
  kw : Bytes
  /-- before and after every step, and at both ends of the text -/
  step : Bytes
  /-- `LAST` / `TO` instead of `last` / `to` -/
  upper : Bool
  /-- `."name"` / `:"name"` instead of `.name` / `:name` -/
  quoted : Bool
  /-- `<>` instead of `!=` -/
  angleNe : Bool

/-- all four runs consist of whitespace -/
def Style.ok (st : Style) : Bool :=
  st.op.all isSpace && st.inner.all isSpace && st.kw.all isSpace && st.step.all isSpace

namespace Style
variable (st : Style)

def kwLast' : Bytes := if st.upper then [76, 65, 83, 84] else [108, 97, 115, 116]
def kwTo' : Bytes := if st.upper then [84, 79] else [116, 111]

def rIndex : Index → Bytes
  | .index n => intBytes n
  | .last n =>
    st.kwLast' ++
      (if n > 0 then st.kw ++ 43 :: (st.kw ++ intBytes n)
       else if n < 0 then st.kw ++ 45 :: (st.kw ++ intBytes (n.natAbs : Int))
       else [])

def rArrayIndex : ArrayIndex → Bytes
  | .index i => st.rIndex i
  | .slice s e => st.rIndex s ++ (st.kw ++ (st.kwTo' ++ (st.kw ++ st.rIndex e)))

def rAiList : List ArrayIndex → Bytes
  | [] => []
  | [a] => st.inner ++ (st.rArrayIndex a ++ st.inner)
  | a :: as => st.inner ++ (st.rArrayIndex a ++ (st.inner ++ 44 :: rAiList as))

def rName (s : Bytes) : Bytes := if st.quoted then 34 :: (s ++ [34]) else s

def rPlainStep : Path → Bytes
  | .dotWildcard => [46, 42]
  | .bracketWildcard => 91 :: (st.inner ++ 42 :: (st.inner ++ [93]))
  | .dotField s => 46 :: st.rName s
  | .colonField s => 58 :: st.rName s
  | .objectField s => 91 :: (st.inner ++ (34 :: (s ++ [34]) ++ (st.inner ++ [93])))
  | .arrayIndices is => 91 :: (st.rAiList is ++ [93])
  | _ => []

def rPlainSteps : List Path → Bytes
  | [] => []
  | p :: ps => st.step ++ (st.rPlainStep p ++ (st.step ++ rPlainSteps ps))

def rOp : BinOp → Bytes
  | .ne => if st.angleNe then [60, 62] else [33, 61]
  | o => printBinOp o

def rOperand (f : Nat → Bytes) : Expr → Bytes
  | .paths (.root :: ps) => 36 :: st.rPlainSteps ps
  | .paths (.current :: ps) => 64 :: st.rPlainSteps ps
  | .value v => printPathValue f v
  | _ => []

mutual
def rExpr (f : Nat → Bytes) : Expr → Bytes
  | .binaryOp o l r =>
    match o with
    | .and => rAtom f l ++ (st.op ++ 38 :: 38 :: (st.op ++ rAtom f r))
    | .or => rAtom f l ++ (st.op ++ 124 :: 124 :: (st.op ++ rAtom f r))
    | o => st.rOperand f l ++ (st.op ++ (st.rOp o ++ (st.op ++ st.rOperand f r)))
  | .existsFn ps => kwExists ++ (st.inner ++ 40 :: (st.inner ++ (rExists f ps ++ (st.inner ++ [41]))))
  | _ => []
/-- an operand of `&&` / `||`: parenthesised iff it is itself an `&&` / `||` (as `Display` does) -/
def rAtom (f : Nat → Bytes) : Expr → Bytes
  | .binaryOp o l r =>
    match o with
    | .and => 40 :: (st.inner ++ (rAtom f l ++ (st.op ++ 38 :: 38 :: (st.op ++ rAtom f r))) ++ (st.inner ++ [41]))
    | .or => 40 :: (st.inner ++ (rAtom f l ++ (st.op ++ 124 :: 124 :: (st.op ++ rAtom f r))) ++ (st.inner ++ [41]))
    | o => st.rOperand f l ++ (st.op ++ (st.rOp o ++ (st.op ++ st.rOperand f r)))
  | .existsFn ps => kwExists ++ (st.inner ++ 40 :: (st.inner ++ (rExists f ps ++ (st.inner ++ [41]))))
  | _ => []
def rExists (f : Nat → Bytes) : List Path → Bytes
  | .root :: ps => 36 :: rSteps f ps
  | .current :: ps => 64 :: rSteps f ps
  | _ => []
def rSteps (f : Nat → Bytes) : List Path → Bytes
  | [] => []
  | p :: ps => st.step ++ (rStepF f p ++ (st.step ++ rSteps f ps))
def rStepF (f : Nat → Bytes) : Path → Bytes
  | .filterExpr e => 63 :: (st.inner ++ 40 :: (st.inner ++ (rExpr f e ++ (st.inner ++ [41]))))
  | .dotWildcard => [46, 42]
  | .bracketWildcard => 91 :: (st.inner ++ 42 :: (st.inner ++ [93]))
  | .dotField s => 46 :: st.rName s
  | .colonField s => 58 :: st.rName s
  | .objectField s => 91 :: (st.inner ++ (34 :: (s ++ [34]) ++ (st.inner ++ [93])))
  | .arrayIndices is => 91 :: (st.rAiList is ++ [93])
  | _ => []
end

/-- the renderer: `$ steps…` or a top-level predicate, in the layout `st` -/
def render (f : Nat → Bytes) : JsonPath → Bytes
  | .root :: ps => st.step ++ 36 :: (st.rSteps f ps ++ st.step)
  | [.predicate e] => st.step ++ (st.rExpr f e ++ st.step)
  | _ => []

end Style

/-! ### the renderer produces renderings -/

section
variable (st : Style) (hst : st.ok = true)
include hst

theorem Style.ws : Ws st.op ∧ Ws st.inner ∧ Ws st.kw ∧ Ws st.step := by
  have : ((st.op.all isSpace = true ∧ st.inner.all isSpace = true) ∧ st.kw.all isSpace = true) ∧
      st.step.all isSpace = true := by simpa [Style.ok] using hst
  exact ⟨this.1.1.1, this.1.1.2, this.1.2, this.2⟩

omit hst in
theorem Style.kwLast_ok : KwOf kwLast st.kwLast' := by
  unfold Style.kwLast'; cases st.upper <;> decide

omit hst in
theorem Style.kwTo_ok : KwOf kwTo st.kwTo' := by
  unfold Style.kwTo'; cases st.upper <;> decide

theorem index_rend (x : Index) (hx : goodIndex x = true) : RIndex x (st.rIndex x) := by
  obtain ⟨_, _, hkw, _⟩ := st.ws hst
  cases x with
  | index n => exact .index n (by simpa [goodIndex] using hx)
  | last n =>
    have hn : inI32 n := by simpa [goodIndex] using hx
    by_cases hpos : n > 0
    · have e : st.rIndex (.last n) = st.kwLast' ++ (st.kw ++ 43 :: (st.kw ++ intBytes n)) := by
        simp [Style.rIndex, hpos]
      rw [e]
      exact .lastPlus _ _ _ n st.kwLast_ok hkw hkw hn
    · by_cases hneg : n < 0
      · have e : st.rIndex (.last n)
            = st.kwLast' ++ (st.kw ++ 45 :: (st.kw ++ intBytes (n.natAbs : Int))) := by
          simp [Style.rIndex, hpos, hneg]
        have hsat : lastMinus (n.natAbs : Int) = .last n := by
          have := hn.1
          unfold lastMinus saturatingNeg64 clampI32
          rw [if_neg (by omega), if_neg (by omega), if_neg (by omega)]
          congr 1; omega
        rw [e, ← hsat]
        exact .lastMinus _ _ _ _ st.kwLast_ok hkw hkw ⟨by have := hn.1; omega, by have := hn.1; omega⟩
      · have h0 : n = 0 := by omega
        subst h0
        have e : st.rIndex (.last 0) = st.kwLast' := by simp [Style.rIndex]
        rw [e]
        exact .last0 _ st.kwLast_ok

theorem arrayIndex_rend (a : ArrayIndex) (ha : goodArrayIndex a = true) :
    RArrayIndex a (st.rArrayIndex a) := by
  obtain ⟨_, _, hkw, _⟩ := st.ws hst
  cases a with
  | index i => exact .index i _ (index_rend st hst i (by simpa [goodArrayIndex] using ha))
  | slice s e =>
    have hg : goodIndex s = true ∧ goodIndex e = true := by simpa [goodArrayIndex] using ha
    exact .slice s e _ _ _ _ _ (index_rend st hst s hg.1) (index_rend st hst e hg.2) hkw st.kwTo_ok hkw

theorem aiList_rend (as : List ArrayIndex) :
    ∀ (a : ArrayIndex), (a :: as).all goodArrayIndex = true → RAiList (a :: as) (st.rAiList (a :: as)) := by
  obtain ⟨_, hin, _, _⟩ := st.ws hst
  induction as with
  | nil =>
    intro a h
    have ha : goodArrayIndex a = true := by simpa using h
    exact .one a _ _ _ hin (arrayIndex_rend st hst a ha) hin
  | cons b bs ih =>
    intro a h
    have ha : goodArrayIndex a = true ∧ (b :: bs).all goodArrayIndex = true := by simpa using h
    exact .cons a (b :: bs) _ _ _ _ hin (arrayIndex_rend st hst a ha.1) hin (ih b ha.2)

omit hst in
theorem goodField_goodQuoted (s : Bytes) (h : goodField s = true) : goodQuoted s = true := by
  have hg : (s ≠ [] ∧ s.all plainNameByte = true) ∧ validUtf8 s = true := by
    simpa [goodField] using h
  have hb : ∀ b, plainNameByte b = true → (b != 92 && b != 34) = true := by bytes_decide
  have : s.all (fun b => b != 92 && b != 34) = true := by
    rw [List.all_eq_true]
    intro b hb'
    exact hb b ((List.all_eq_true.mp hg.1.2) b hb')
  simp [goodQuoted, this, hg.2]

omit hst in
theorem name_rend (s : Bytes) (h : goodField s = true) : RName s (st.rName s) := by
  unfold Style.rName
  cases st.quoted with
  | false => exact .raw s h
  | true => exact .quoted s _ (RQuoted.of_good s (goodField_goodQuoted s h))

theorem plainStep_rend (p : Path) (hp : goodPlainStep p = true) : RStep p (st.rPlainStep p) := by
  obtain ⟨_, hin, _, _⟩ := st.ws hst
  cases p with
  | dotWildcard => exact .dotWildcard
  | bracketWildcard => exact .bracketWildcard _ _ hin hin
  | dotField s => exact .dotField s _ (name_rend st s (by simpa [goodPlainStep] using hp))
  | colonField s => exact .colonField s _ (name_rend st s (by simpa [goodPlainStep] using hp))
  | objectField s =>
    exact .objectField s _ _ _ (RQuoted.of_good s (by simpa [goodPlainStep] using hp)) hin hin
  | arrayIndices is =>
    cases is with
    | nil => simp [goodPlainStep] at hp
    | cons a as =>
      have hg : (a :: as).all goodArrayIndex = true := by simpa [goodPlainStep] using hp
      exact .arrayIndices _ _ (aiList_rend st hst as a hg)
  | root => simp [goodPlainStep] at hp
  | current => simp [goodPlainStep] at hp
  | arithmeticExpr e => simp [goodPlainStep] at hp
  | filterExpr e => simp [goodPlainStep] at hp
  | predicate e => simp [goodPlainStep] at hp

theorem plainSteps_rend (ps : List Path) (h : ps.all goodPlainStep = true) :
    RPlainSteps ps (st.rPlainSteps ps) := by
  obtain ⟨_, _, _, hs⟩ := st.ws hst
  induction ps with
  | nil => exact .nil
  | cons p ps ih =>
    have hp : goodPlainStep p = true ∧ ps.all goodPlainStep = true := by simpa using h
    exact .cons p ps _ _ _ _ hs (plainStep_rend st hst p hp.1) hs (ih hp.2)

theorem operand_rend (f : Nat → Bytes) (rp : Bool) (x : Expr) (hx : goodOperand f rp x = true) :
    ROperand rp x (st.rOperand f x) := by
  cases x with
  | paths ps =>
    cases ps with
    | nil => simp [goodOperand] at hx
    | cons hd ps =>
      cases hd with
      | root =>
        have h : ps.all goodPlainStep = true := by simpa [goodOperand] using hx
        have := ROperand.paths (rp := rp) .root ps 36 _ [] (.root rp) (plainSteps_rend st hst ps h) Ws.nil
        simpa [Style.rOperand] using this
      | current =>
        have h : rp = false ∧ ps.all goodPlainStep = true := by simpa [goodOperand] using hx
        obtain ⟨rfl, h⟩ := h
        have := ROperand.paths (rp := false) .current ps 64 _ [] .current (plainSteps_rend st hst ps h) Ws.nil
        simpa [Style.rOperand] using this
      | _ => simp [goodOperand] at hx
  | value v =>
    have h : goodValue f v = true := by simpa [goodOperand] using hx
    have := ROperand.value (rp := rp) v _ [] (value_print_rend f v h) Ws.nil
    simpa [Style.rOperand] using this
  | _ => simp [goodOperand] at hx

omit hst in
theorem op_rend (o : BinOp) (h1 : o ≠ .and) (h2 : o ≠ .or) : ROp o (st.rOp o) := by
  cases o with
  | and => exact absurd rfl h1
  | or => exact absurd rfl h2
  | eq => exact .eq
  | ne => unfold Style.rOp; cases st.angleNe; exact .ne; exact .ne'
  | lt => exact .lt
  | le => exact .le
  | gt => exact .gt
  | ge => exact .ge

omit hst in
theorem ROperand.append_ws {rp : Bool} {x : Expr} {s : Bytes} (h : ROperand rp x s) (w' : Bytes)
    (hw' : Ws w') : ROperand rp x (s ++ w') := by
  cases h with
  | paths hd ps c t w hh ht hw =>
    have := ROperand.paths (rp := rp) hd ps c t (w ++ w') hh ht (hw.append hw')
    simpa using this
  | value v s w hv hw =>
    have := ROperand.value (rp := rp) v s (w ++ w') hv (hw.append hw')
    simpa using this

theorem cmp_rend (f : Nat → Bytes) (rp : Bool) (o : BinOp) (l r : Expr) (h1 : o ≠ .and)
    (h2 : o ≠ .or) (hl : goodOperand f rp l = true) (hr : goodOperand f rp r = true) :
    R .atom rp (.binaryOp o l r)
      (st.rOperand f l ++ (st.op ++ (st.rOp o ++ (st.op ++ st.rOperand f r)))) := by
  obtain ⟨hop, _, _, _⟩ := st.ws hst
  have rl := operand_rend st hst f rp l hl
  have rr := operand_rend st hst f rp r hr
  -- the whitespace before the operator belongs to the left operand
  have rl' : ROperand rp l (st.rOperand f l ++ st.op) := rl.append_ws st.op hop
  have := R.cmp rp o l r [] _ _ st.op _ Ws.nil rl' (op_rend st o h1 h2) hop rr
  simpa using this

mutual
theorem expr_rend (f : Nat → Bytes) (rp : Bool) :
    (e : Expr) → goodExpr f rp e = true →
      R .atom rp e (st.rAtom f e) ∧ R .orL rp e (st.rExpr f e)
  | .binaryOp o l r, h => by
    obtain ⟨hop, hin, _, _⟩ := st.ws hst
    cases o with
    | and =>
      have hg : goodExpr f rp l = true ∧ goodExpr f rp r = true := by simpa [goodExpr] using h
      have il := (expr_rend f rp l hg.1).1
      have ir := (expr_rend f rp r hg.2).1
      have hand := R.andL rp l _ _ _ il
        (.andTailCons rp l r _ st.op st.op _ [] hop hop ir (.andTailNil rp _))
      have hor := R.orL rp _ _ _ [] hand (.orTailNil rp _)
      have e1 : st.rAtom f l ++ (st.op ++ 38 :: 38 :: (st.op ++ (st.rAtom f r ++ []))) ++ []
          = st.rExpr f (.binaryOp .and l r) := by simp [Style.rExpr]
      rw [e1] at hor
      refine ⟨?_, hor⟩
      have := R.paren rp _ st.inner _ st.inner hin hor hin
      simpa [Style.rAtom, Style.rExpr] using this
    | or =>
      have hg : goodExpr f rp l = true ∧ goodExpr f rp r = true := by simpa [goodExpr] using h
      have il := (expr_rend f rp l hg.1).1
      have ir := (expr_rend f rp r hg.2).1
      have hl := R.andL rp l _ _ [] il (.andTailNil rp _)
      have hr := R.andL rp r _ _ [] ir (.andTailNil rp _)
      have hor := R.orL rp l _ _ _ hl
        (.orTailCons rp l r _ st.op st.op _ [] hop hop hr (.orTailNil rp _))
      have e1 : st.rAtom f l ++ [] ++ (st.op ++ 124 :: 124 :: (st.op ++ (st.rAtom f r ++ [] ++ [])))
          = st.rExpr f (.binaryOp .or l r) := by simp [Style.rExpr]
      rw [e1] at hor
      refine ⟨?_, hor⟩
      have := R.paren rp _ st.inner _ st.inner hin hor hin
      simpa [Style.rAtom, Style.rExpr] using this
    | eq =>
      have hg : goodOperand f rp l = true ∧ goodOperand f rp r = true := by simpa [goodExpr] using h
      have := cmp_rend st hst f rp .eq l r (by decide) (by decide) hg.1 hg.2
      exact ⟨by simpa [Style.rAtom] using this, by simpa [Style.rExpr] using orL_of_atom this⟩
    | ne =>
      have hg : goodOperand f rp l = true ∧ goodOperand f rp r = true := by simpa [goodExpr] using h
      have := cmp_rend st hst f rp .ne l r (by decide) (by decide) hg.1 hg.2
      exact ⟨by simpa [Style.rAtom] using this, by simpa [Style.rExpr] using orL_of_atom this⟩
    | lt =>
      have hg : goodOperand f rp l = true ∧ goodOperand f rp r = true := by simpa [goodExpr] using h
      have := cmp_rend st hst f rp .lt l r (by decide) (by decide) hg.1 hg.2
      exact ⟨by simpa [Style.rAtom] using this, by simpa [Style.rExpr] using orL_of_atom this⟩
    | le =>
      have hg : goodOperand f rp l = true ∧ goodOperand f rp r = true := by simpa [goodExpr] using h
      have := cmp_rend st hst f rp .le l r (by decide) (by decide) hg.1 hg.2
      exact ⟨by simpa [Style.rAtom] using this, by simpa [Style.rExpr] using orL_of_atom this⟩
    | gt =>
      have hg : goodOperand f rp l = true ∧ goodOperand f rp r = true := by simpa [goodExpr] using h
      have := cmp_rend st hst f rp .gt l r (by decide) (by decide) hg.1 hg.2
      exact ⟨by simpa [Style.rAtom] using this, by simpa [Style.rExpr] using orL_of_atom this⟩
    | ge =>
      have hg : goodOperand f rp l = true ∧ goodOperand f rp r = true := by simpa [goodExpr] using h
      have := cmp_rend st hst f rp .ge l r (by decide) (by decide) hg.1 hg.2
      exact ⟨by simpa [Style.rAtom] using this, by simpa [Style.rExpr] using orL_of_atom this⟩
  | .existsFn ps, h => by
    have hg : goodExists f ps = true := by simpa [goodExpr] using h
    have hat := exists_rend f rp ps hg
    exact ⟨by simpa [Style.rAtom] using hat, by simpa [Style.rExpr] using orL_of_atom hat⟩
  | .paths _, h => by simp [goodExpr] at h
  | .value _, h => by simp [goodExpr] at h
  | .arithUnary _ _, h => by simp [goodExpr] at h
  | .arithBinary _ _ _, h => by simp [goodExpr] at h
theorem exists_rend (f : Nat → Bytes) (rp : Bool) :
    (ps : List Path) → goodExists f ps = true →
      R .atom rp (.existsFn ps)
        (kwExists ++ (st.inner ++ 40 :: (st.inner ++ (st.rExists f ps ++ (st.inner ++ [41])))))
  | [], h => by simp [goodExists] at h
  | hd :: ps, h => by
    obtain ⟨_, hin, _, _⟩ := st.ws hst
    cases hd with
    | root =>
      have hg : goodSteps f ps = true := by simpa [goodExists] using h
      have := R.exists_ rp .root ps 36 _ _ _ _ hin hin (.root false) (steps_rend f ps hg) hin
      simpa [Style.rExists] using this
    | current =>
      have hg : goodSteps f ps = true := by simpa [goodExists] using h
      have := R.exists_ rp .current ps 64 _ _ _ _ hin hin .current (steps_rend f ps hg) hin
      simpa [Style.rExists] using this
    | _ => simp [goodExists] at h
theorem steps_rend (f : Nat → Bytes) :
    (ps : List Path) → goodSteps f ps = true → R .steps false (.paths ps) (st.rSteps f ps)
  | [], _ => by simp [Style.rSteps]; exact .stepsNil
  | p :: ps, h => by
    obtain ⟨_, hin, _, hs⟩ := st.ws hst
    have hg : goodStepF f p = true ∧ goodSteps f ps = true := by simpa [goodSteps] using h
    have hrest := steps_rend f ps hg.2
    cases p with
    | filterExpr e =>
      have he : goodExpr f false e = true := by simpa [goodStepF] using hg.1
      have := R.stepsFilter e ps st.step st.inner st.inner _ st.inner st.step _ hs hin hin
        (expr_rend f false e he).2 hin hs hrest
      simpa [Style.rSteps, Style.rStepF] using this
    | dotWildcard =>
      have := R.stepsPlain _ ps _ _ _ _ hs (plainStep_rend st hst .dotWildcard rfl) hs hrest
      simpa [Style.rSteps, Style.rStepF, Style.rPlainStep] using this
    | bracketWildcard =>
      have := R.stepsPlain _ ps _ _ _ _ hs (plainStep_rend st hst .bracketWildcard rfl) hs hrest
      simpa [Style.rSteps, Style.rStepF, Style.rPlainStep] using this
    | dotField s =>
      have := R.stepsPlain _ ps _ _ _ _ hs
        (plainStep_rend st hst (.dotField s) (by simpa [goodStepF, goodPlainStep] using hg.1)) hs hrest
      simpa [Style.rSteps, Style.rStepF, Style.rPlainStep] using this
    | colonField s =>
      have := R.stepsPlain _ ps _ _ _ _ hs
        (plainStep_rend st hst (.colonField s) (by simpa [goodStepF, goodPlainStep] using hg.1)) hs hrest
      simpa [Style.rSteps, Style.rStepF, Style.rPlainStep] using this
    | objectField s =>
      have := R.stepsPlain _ ps _ _ _ _ hs
        (plainStep_rend st hst (.objectField s) (by simpa [goodStepF, goodPlainStep] using hg.1)) hs hrest
      simpa [Style.rSteps, Style.rStepF, Style.rPlainStep] using this
    | arrayIndices is =>
      have := R.stepsPlain _ ps _ _ _ _ hs
        (plainStep_rend st hst (.arrayIndices is) (by simpa [goodStepF, goodPlainStep] using hg.1)) hs hrest
      simpa [Style.rSteps, Style.rStepF, Style.rPlainStep] using this
    | root => simp [goodStepF] at hg
    | current => simp [goodStepF] at hg
    | arithmeticExpr e => simp [goodStepF] at hg
    | predicate e => simp [goodStepF] at hg
end

/-- Every rendering of a good JSONPath, in any layout style, parses back to it. -/
theorem parse_render (f : Nat → Bytes) (jp : JsonPath) (h : goodJsonPath f jp = true) :
    parseJsonPath (st.render f jp) = .ok jp := by
  obtain ⟨_, _, _, hs⟩ := st.ws hst
  cases jp with
  | nil => simp [goodJsonPath] at h
  | cons p ps =>
    cases p with
    | root =>
      have hg : goodSteps f ps = true := by simpa [goodJsonPath] using h
      exact parse_rooted (steps_rend st hst f ps hg) _ _ hs hs
    | predicate e =>
      cases ps with
      | nil =>
        have hg : goodExpr f true e = true := by simpa [goodJsonPath] using h
        exact parse_predicate (expr_rend st hst f true e hg).2 _ _ hs hs
      | cons q qs => simp [goodJsonPath] at h
    | _ => simp [goodJsonPath] at h

end

end PathRT2
end Jsonb
