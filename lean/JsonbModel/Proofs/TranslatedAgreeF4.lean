import JsonbModel.Proofs.TranslatedAgreeF3

set_option linter.unusedSimpArgs false
set_option linter.unusedVariables false

namespace Jsonb.TrAgree
open Jsonb.Rs

theorem run_bind_finish {σ : Type} (c : Ctl Ordering σ) (final : Ordering) :
    Ctl.run (c >>= fun _ => Ctl.ret (Res.ok final)) = finish c final := by
  cases c <;> rfl

theorem min_cast (a b : Nat) : (if decide (((a : Nat) : Int) ≤ ((b : Nat) : Int)) = true then ((a : Nat) : Int) else ((b : Nat) : Int)) = ((min a b : Nat) : Int) := by
  by_cases h : a ≤ b
  · have : ((a : Nat) : Int) ≤ ((b : Nat) : Int) := by omega
    simp [this, Nat.min_eq_left h]
  · have : ¬ ((a : Nat) : Int) ≤ ((b : Nat) : Int) := by omega
    simp [this, Nat.min_eq_right (by omega : b ≤ a)]

theorem compare_array_step (g f lh rh : Nat) (left right : Bytes) (kl kr : Nat)
    (hl : left.length < 9223372036854775808) (hr : right.length < 9223372036854775808)
    (hrec : CmpRecOK f (Tr.compare_scalar g))
    (hkl : kasItems kl left (hdrLen lh) 0 (4 * hdrLen lh) = true)
    (hkr : kasItems kr right (hdrLen rh) 0 (4 * hdrLen rh) = true)
    (hne : Fn.cmpArrayLoop f left right (min (hdrLen lh) (hdrLen rh)) 0 (4 * hdrLen lh) (4 * hdrLen rh)
      (compare (hdrLen lh) (hdrLen rh)) ≠ .fuel) :
    panicAny (Tr.compare_array (g + 1) (lh : Int) left (rh : Int) right) =
      panicAny (Fn.cmpArrayLoop f left right (min (hdrLen lh) (hdrLen rh)) 0 (4 * hdrLen lh) (4 * hdrLen rh)
        (compare (hdrLen lh) (hdrLen rh))) := by
  have hL := hdrLen_lt lh
  have hR := hdrLen_lt rh
  have h4 : ((4 : Nat) : Int) = 4 := rfl
  have h0 : ((0 : Nat) : Int) = 0 := rfl
  rw [Tr.compare_array]
  simp only [hdrLen_cast, ← h4, Rs.mul_usize_nat 4 (hdrLen lh) (by omega), Rs.mul_usize_nat 4 (hdrLen rh) (by omega),
    Rs.mul_usize_nat (hdrLen lh) 4 (by omega), Rs.mul_usize_nat (hdrLen rh) 4 (by omega), Nat.mul_comm (hdrLen lh) 4, Nat.mul_comm (hdrLen rh) 4,
    Ctl.ofRes_ok', Ctl.val_bind', min_cast, Rs.forRange_zero, compare_natCast]
  rw [← h0]
  have := ca_run (Tr.compare_scalar g) left right (compare (hdrLen lh) (hdrLen rh)) hl hr
    (min (hdrLen lh) (hdrLen rh)) f 0 0 (4 * hdrLen lh) (4 * hdrLen rh) (hdrLen lh) (hdrLen rh) kl kr hrec
    (Nat.min_le_left _ _) (Nat.min_le_right _ _) (by have := Nat.min_le_left (hdrLen lh) (hdrLen rh); omega) hkl hkr hne
  rw [← this]
  congr 1
  generalize Rs.forRangeAux (Tr.compare_array.loop1 (Tr.compare_scalar g) left right) (min (hdrLen lh) (hdrLen rh)) 0
    (((0 : Nat) : Int), ((4 * hdrLen lh : Nat) : Int), ((4 * hdrLen rh : Nat) : Int)) = c
  cases c <;> rfl

end Jsonb.TrAgree
