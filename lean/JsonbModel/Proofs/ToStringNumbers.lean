/-
C-text, part B: the decimal renderer of `to_string` (`itoa`) and the strict number reader.
`Strict.number` is first cut into its stages (`number_eq`), then shown insensitive to whatever
follows a complete token (`number_append`), then inverted on `natDigits` / `intDigits`.
-/
import JsonbModel.Functions.ToString
import JsonbModel.Spec.StrictJson

namespace Jsonb
open Fn Strict

/-! ### `Strict.number` in stages -/

def nSign (bs : Bytes) : Bool × Bytes :=
  match bs with
  | 0x2D :: r => (true, r)
  | _ => (false, bs)

def nFrac (r1 : Bytes) : Bytes × Bytes × Bool :=
  match r1 with
  | 0x2E :: t => let (d, r) := takeDigits t; (d, r, true)
  | _ => ([], r1, false)

def nExpo (r2 : Bytes) : Option (Int × Bytes × Bool) :=
  match r2 with
  | e :: t =>
    if e == 0x65 || e == 0x45 then
      let (eneg, t') := match t with
        | 0x2D :: u => (true, u)
        | 0x2B :: u => (false, u)
        | _ => (false, t)
      let (ed, r) := takeDigits t'
      if ed.isEmpty then none
      else some (if eneg then -(digitsVal ed : Int) else digitsVal ed, r, true)
    else some (0, r2, false)
  | [] => some (0, [], false)

/-- the value denoted once the token is cut -/
def nFin (neg : Bool) (ip fp : Bytes) (hasF : Bool) (ev : Int) (hasE : Bool) : Num :=
  if !hasF && !hasE then
    let v := digitsVal ip
    if !neg && v < 18446744073709551616 then .uint v
    else if neg && v ≤ 9223372036854775808 then .int (-(v : Int))
    else .float (F64.ofDecimal neg v 0)
  else .float (F64.ofDecimal neg (digitsVal (ip ++ fp)) (ev - fp.length))

def nRes (neg : Bool) (ip fp : Bytes) (hasF : Bool) (ev : Int) (r3 : Bytes) (hasE : Bool) : Option (Num × Bytes) :=
  if !hasF && !hasE then
    let v := digitsVal ip
    if !neg && v < 18446744073709551616 then some (.uint v, r3)
    else if neg && v ≤ 9223372036854775808 then some (.int (-(v : Int)), r3)
    else some (.float (F64.ofDecimal neg v 0), r3)
  else some (.float (F64.ofDecimal neg (digitsVal (ip ++ fp)) (ev - fp.length)), r3)

theorem nRes_eq (neg : Bool) (ip fp : Bytes) (hasF : Bool) (ev : Int) (r3 : Bytes) (hasE : Bool) :
    nRes neg ip fp hasF ev r3 hasE = some (nFin neg ip fp hasF ev hasE, r3) := by
  unfold nRes nFin
  split
  · simp only []
    split
    · rfl
    · split <;> rfl
  · rfl

def number' (bs : Bytes) : Option (Num × Bytes) :=
  let ip := (takeDigits (nSign bs).2).1
  let r1 := (takeDigits (nSign bs).2).2
  if ip.isEmpty then none
  else if ip.length > 1 && ip.head? == some 0x30 then none
  else
    if (nFrac r1).2.2 && (nFrac r1).1.isEmpty then none
    else
      match nExpo (nFrac r1).2.1 with
      | none => none
      | some (ev, r3, hasE) => nRes (nSign bs).1 ip (nFrac r1).1 (nFrac r1).2.2 ev r3 hasE

theorem number_eq (bs : Bytes) : number bs = number' bs := by
  unfold number number' nSign nFrac nExpo nRes
  simp only []
  rfl

/-- `Strict.number` as a composition of its stages -/
theorem number_stages (bs : Bytes) (neg : Bool) (r0 ip r1 fp r2 : Bytes) (hasF : Bool)
    (h1 : nSign bs = (neg, r0)) (h2 : takeDigits r0 = (ip, r1)) (h3 : nFrac r1 = (fp, r2, hasF)) :
    number bs =
      if ip.isEmpty then none
      else if ip.length > 1 && ip.head? == some 0x30 then none
      else if hasF && fp.isEmpty then none
      else match nExpo r2 with
        | none => none
        | some (ev, r3, hasE) => some (nFin neg ip fp hasF ev hasE, r3) := by
  rw [number_eq]; unfold number'
  simp only [h1, h2, h3, nRes_eq]

/-! ### what may follow a complete number token -/

/-- `rest` is empty or starts with a byte that cannot continue a number -/
def numEnd : Bytes → Bool
  | [] => true
  | b :: _ => !isDigit b && b != 0x2E && b != 0x65 && b != 0x45

theorem takeDigits_cons (b : UInt8) (bs : Bytes) :
    takeDigits (b :: bs) = if isDigit b then (b :: (takeDigits bs).1, (takeDigits bs).2) else ([], b :: bs) := by
  simp only [takeDigits]

theorem takeDigits_append (s d r rest : Bytes) (h : takeDigits s = (d, r))
    (hr : r = [] → numEnd rest = true) : takeDigits (s ++ rest) = (d, r ++ rest) := by
  induction s generalizing d r with
  | nil =>
    simp only [takeDigits, Prod.mk.injEq] at h
    obtain ⟨rfl, rfl⟩ := h
    cases rest with
    | nil => rfl
    | cons b t =>
      have := hr rfl
      simp only [numEnd, Bool.and_eq_true, Bool.not_eq_true'] at this
      simp [takeDigits_cons, this.1.1.1]
  | cons x xs ih =>
    rw [takeDigits_cons] at h
    rw [List.cons_append, takeDigits_cons]
    by_cases hx : isDigit x = true
    · simp only [hx, if_true, Prod.mk.injEq] at h ⊢
      obtain ⟨rfl, h2⟩ := h
      have := ih (takeDigits xs).1 r (by rw [← h2]) hr
      rw [this]; exact ⟨rfl, rfl⟩
    · simp only [hx, Bool.false_eq_true, if_false, Prod.mk.injEq] at h ⊢
      obtain ⟨rfl, rfl⟩ := h
      exact ⟨rfl, rfl⟩

theorem takeDigits_nil_snd (d r : Bytes) (h : takeDigits [] = (d, r)) : r = [] := by
  simp only [takeDigits, Prod.mk.injEq] at h; exact h.2.symm

theorem nSign_cons (b : UInt8) (t : Bytes) :
    nSign (b :: t) = if b = 0x2D then (true, t) else (false, b :: t) := by
  unfold nSign
  split
  · rename_i h; simp only [List.cons.injEq] at h; obtain ⟨rfl, rfl⟩ := h; rfl
  · rename_i h
    by_cases hb : b = 0x2D
    · subst hb; exact absurd rfl (h t)
    · rw [if_neg hb]

theorem nSign_append (s rest : Bytes) (hs : s ≠ []) :
    nSign (s ++ rest) = ((nSign s).1, (nSign s).2 ++ rest) := by
  cases s with
  | nil => exact absurd rfl hs
  | cons b t =>
    rw [List.cons_append, nSign_cons, nSign_cons]
    split <;> rfl

theorem nFrac_cons (b : UInt8) (t : Bytes) :
    nFrac (b :: t) = if b = 0x2E then ((takeDigits t).1, (takeDigits t).2, true) else ([], b :: t, false) := by
  unfold nFrac
  split
  · rename_i h; simp only [List.cons.injEq] at h; obtain ⟨rfl, rfl⟩ := h; rfl
  · rename_i h
    by_cases hb : b = 0x2E
    · subst hb; exact absurd rfl (h t)
    · rw [if_neg hb]

theorem nFrac_append (r1 fp r2 rest : Bytes) (hasF : Bool) (h : nFrac r1 = (fp, r2, hasF))
    (hr : r2 = [] → numEnd rest = true) : nFrac (r1 ++ rest) = (fp, r2 ++ rest, hasF) := by
  cases r1 with
  | nil =>
    simp only [nFrac, Prod.mk.injEq] at h
    obtain ⟨rfl, rfl, rfl⟩ := h
    cases rest with
    | nil => rfl
    | cons b t =>
      have := hr rfl
      simp only [numEnd, Bool.and_eq_true, Bool.not_eq_true', bne_iff_ne, ne_eq] at this
      simp [nFrac_cons, this.1.1.2]
  | cons b t =>
    rw [nFrac_cons] at h
    rw [List.cons_append, nFrac_cons]
    by_cases hb : b = 0x2E
    · simp only [hb, if_true, Prod.mk.injEq] at h ⊢
      obtain ⟨rfl, h2, rfl⟩ := h
      have := takeDigits_append t (takeDigits t).1 r2 rest (by rw [← h2]) hr
      rw [this]; exact ⟨rfl, rfl, rfl⟩
    · simp only [hb, if_false, Prod.mk.injEq] at h ⊢
      obtain ⟨rfl, rfl, rfl⟩ := h
      exact ⟨rfl, rfl, rfl⟩

def eSign (t : Bytes) : Bool × Bytes :=
  match t with
  | 0x2D :: u => (true, u)
  | 0x2B :: u => (false, u)
  | _ => (false, t)

theorem eSign_nil : eSign [] = (false, []) := rfl
theorem eSign_cons (c : UInt8) (u : Bytes) :
    eSign (c :: u) = if c = 0x2D then (true, u) else if c = 0x2B then (false, u) else (false, c :: u) := by
  unfold eSign
  split
  · rename_i h; simp only [List.cons.injEq] at h; obtain ⟨rfl, rfl⟩ := h; rfl
  · rename_i h; simp only [List.cons.injEq] at h; obtain ⟨rfl, rfl⟩ := h; rfl
  · rename_i h1 h2
    by_cases hb : c = 0x2D
    · subst hb; exact absurd rfl (h1 u)
    · by_cases hc : c = 0x2B
      · subst hc; exact absurd rfl (h2 u)
      · rw [if_neg hb, if_neg hc]

theorem nExpo_cons (e : UInt8) (t : Bytes) :
    nExpo (e :: t) =
      if e == 0x65 || e == 0x45 then
        (if (takeDigits (eSign t).2).1.isEmpty then none
         else some (if (eSign t).1 then -(digitsVal (takeDigits (eSign t).2).1 : Int)
                    else digitsVal (takeDigits (eSign t).2).1, (takeDigits (eSign t).2).2, true))
      else some (0, e :: t, false) := by
  unfold nExpo eSign
  simp only []
  rfl

theorem nExpo_append (r2 r3 rest : Bytes) (ev : Int) (hasE : Bool) (h : nExpo r2 = some (ev, r3, hasE))
    (hr : r3 = [] → numEnd rest = true) : nExpo (r2 ++ rest) = some (ev, r3 ++ rest, hasE) := by
  cases r2 with
  | nil =>
    simp only [nExpo, Option.some.injEq, Prod.mk.injEq] at h
    obtain ⟨rfl, rfl, rfl⟩ := h
    cases rest with
    | nil => rfl
    | cons b t =>
      have := hr rfl
      simp only [numEnd, Bool.and_eq_true, Bool.not_eq_true', bne_iff_ne, ne_eq] at this
      simp [nExpo_cons, this.1.2, this.2]
  | cons e t =>
    rw [nExpo_cons] at h
    rw [List.cons_append, nExpo_cons]
    by_cases he : (e == 0x65 || e == 0x45) = true
    · rw [if_pos he] at h ⊢
      -- the sign stage
      have hsign : (takeDigits (eSign t).2).1.isEmpty = false →
          eSign (t ++ rest) = ((eSign t).1, (eSign t).2 ++ rest) := by
        intro hne
        cases t with
        | nil => simp [eSign_nil, takeDigits] at hne
        | cons c u =>
          rw [List.cons_append, eSign_cons, eSign_cons]
          split
          · rfl
          · split <;> rfl
      by_cases hemp : (takeDigits (eSign t).2).1.isEmpty = true
      · rw [if_pos hemp] at h; exact absurd h (by simp)
      · rw [if_neg hemp] at h
        simp only [Option.some.injEq, Prod.mk.injEq] at h
        obtain ⟨h1, h2, h3⟩ := h
        have hs := hsign (by simpa using hemp)
        have htd := takeDigits_append (eSign t).2 (takeDigits (eSign t).2).1 r3 rest
          (by rw [← h2]) hr
        rw [hs]
        simp only [htd]
        rw [if_neg hemp, h1, h3]
    · rw [if_neg he] at h ⊢
      simp only [Option.some.injEq, Prod.mk.injEq] at h
      obtain ⟨rfl, rfl, rfl⟩ := h
      rfl

theorem nExpo_nil (ev : Int) (r3 : Bytes) (hasE : Bool) (h : nExpo [] = some (ev, r3, hasE)) : r3 = [] := by
  simp only [nExpo, Option.some.injEq, Prod.mk.injEq] at h; exact h.2.1.symm

theorem nFrac_nil (fp r2 : Bytes) (hasF : Bool) (h : nFrac [] = (fp, r2, hasF)) : r2 = [] := by
  simp only [nFrac, Prod.mk.injEq] at h; exact h.2.1.symm

/-- **B.4 core**: a number token is read the same way whatever follows it, as long as the
next byte is not a digit, `.`, `e` or `E` (needed only when the token ends the input) -/
theorem number_append (s rest r : Bytes) (n : Num) (h : number s = some (n, r))
    (hr : r = [] → numEnd rest = true) : number (s ++ rest) = some (n, r ++ rest) := by
  have hs : s ≠ [] := by
    intro e; subst e
    rw [number_stages [] false [] [] [] [] [] false rfl rfl rfl] at h
    simp at h
  rcases hsg : nSign s with ⟨neg, r0⟩
  rcases htd : takeDigits r0 with ⟨ip, r1⟩
  rcases hfr : nFrac r1 with ⟨fp, r2, hasF⟩
  rw [number_stages s neg r0 ip r1 fp r2 hasF hsg htd hfr] at h
  by_cases c1 : ip.isEmpty = true
  · rw [if_pos c1] at h; exact absurd h (by simp)
  rw [if_neg c1] at h
  by_cases c2 : (decide (ip.length > 1) && ip.head? == some 0x30) = true
  · rw [if_pos c2] at h; exact absurd h (by simp)
  rw [if_neg c2] at h
  by_cases c3 : (hasF && fp.isEmpty) = true
  · rw [if_pos c3] at h; exact absurd h (by simp)
  rw [if_neg c3] at h
  cases hex : nExpo r2 with
  | none => rw [hex] at h; exact absurd h (by simp)
  | some p =>
    obtain ⟨ev, r3, hasE⟩ := p
    rw [hex] at h
    simp only [Option.some.injEq, Prod.mk.injEq] at h
    obtain ⟨hn, rfl⟩ := h
    have hr2 : r2 = [] → numEnd rest = true := fun e => hr (by subst e; exact nExpo_nil _ _ _ hex)
    have hr1 : r1 = [] → numEnd rest = true := fun e => hr2 (by subst e; exact nFrac_nil _ _ _ hfr)
    have hr0 : r0 = [] → numEnd rest = true := fun e => hr1 (by subst e; exact takeDigits_nil_snd _ _ htd)
    have a1 : nSign (s ++ rest) = (neg, r0 ++ rest) := by rw [nSign_append s rest hs, hsg]
    have a2 := takeDigits_append r0 ip r1 rest htd hr1
    have a3 := nFrac_append r1 fp r2 rest hasF hfr hr2
    have a4 := nExpo_append r2 r3 rest ev hasE hex hr
    rw [number_stages (s ++ rest) neg (r0 ++ rest) ip (r1 ++ rest) fp (r2 ++ rest) hasF a1 a2 a3,
      if_neg c1, if_neg c2, if_neg c3, a4]
    simp only [hn]

/-- the special case that is used: a token that is a whole valid number -/
theorem number_append_nil (s rest : Bytes) (n : Num) (h : number s = some (n, []))
    (hr : numEnd rest = true) : number (s ++ rest) = some (n, rest) := by
  have := number_append s rest [] n h (fun _ => hr)
  simpa using this

/-- a number token starts with `-` or a digit -/
theorem number_head (s r : Bytes) (n : Num) (h : number s = some (n, r)) :
    ∃ b t, s = b :: t ∧ (b = 0x2D ∨ isDigit b = true) := by
  cases s with
  | nil =>
    rw [number_stages [] false [] [] [] [] [] false rfl rfl rfl] at h
    simp at h
  | cons b t =>
    refine ⟨b, t, rfl, ?_⟩
    by_cases hb : b = 0x2D
    · exact Or.inl hb
    · right
      have hsg : nSign (b :: t) = (false, b :: t) := by rw [nSign_cons, if_neg hb]
      rcases hfr : nFrac (takeDigits (b :: t)).2 with ⟨fp, r2, hasF⟩
      rw [number_stages (b :: t) false (b :: t) (takeDigits (b :: t)).1 (takeDigits (b :: t)).2 fp r2 hasF hsg rfl hfr] at h
      by_cases hd : isDigit b = true
      · exact hd
      · rw [takeDigits_cons] at h
        simp [hd] at h

/-! ### `itoa` -/

/-- the ASCII digit `d` -/
def dig (d : Nat) : UInt8 := UInt8.ofNat (48 + d)

theorem dig_isDigit : ∀ d, d < 10 → isDigit (dig d) = true := by decide
theorem dig_val : ∀ d, d < 10 → (dig d).toNat - 48 = d := by decide
theorem dig_ne_zero : ∀ d, d < 10 → 1 ≤ d → dig d ≠ 0x30 := by decide
theorem isDigit_ne_minus (b : UInt8) (h : isDigit b = true) : b ≠ 0x2D := by
  intro e; subst e; exact absurd h (by decide)

theorem natDigits_rec (n : Nat) :
    natDigits n = if n < 10 then [dig n] else natDigits (n / 10) ++ [dig (n % 10)] := by
  unfold natDigits
  rw [Nat.toDigits_eq_if (by decide : 1 < 10)]
  split
  · rename_i h
    simp [Nat.toNat_digitChar_of_lt_ten h, dig]
  · simp [Nat.toNat_digitChar_of_lt_ten (Nat.mod_lt n (by decide : 0 < 10)), dig]

theorem natDigits_all (n : Nat) : ∀ b ∈ natDigits n, isDigit b = true := by
  induction n using Nat.strongRecOn with
  | _ n ih =>
    rw [natDigits_rec]
    split
    · rename_i h
      intro b hb
      simp only [List.mem_cons, List.not_mem_nil, or_false] at hb
      subst hb; exact dig_isDigit n h
    · intro b hb
      rw [List.mem_append] at hb
      cases hb with
      | inl h1 => exact ih (n / 10) (by omega) b h1
      | inr h1 =>
        simp only [List.mem_cons, List.not_mem_nil, or_false] at h1
        subst h1; exact dig_isDigit _ (Nat.mod_lt n (by decide))

/-- no leading zero: a positive number starts with a digit `1..9` -/
theorem natDigits_head (n : Nat) (hn : 0 < n) : ∃ d t, 1 ≤ d ∧ d < 10 ∧ natDigits n = dig d :: t := by
  induction n using Nat.strongRecOn with
  | _ n ih =>
    rw [natDigits_rec]
    split
    · rename_i h; exact ⟨n, [], hn, h, rfl⟩
    · obtain ⟨d, t, h1, h2, h3⟩ := ih (n / 10) (by omega) (by omega)
      exact ⟨d, t ++ [dig (n % 10)], h1, h2, by rw [h3]; rfl⟩

theorem natDigits_zero : natDigits 0 = [dig 0] := by rw [natDigits_rec]; rfl

theorem natDigits_ne_nil (n : Nat) : natDigits n ≠ [] := by
  rw [natDigits_rec]; split <;> simp

theorem digitsVal_snoc (a : Bytes) (x : UInt8) : digitsVal (a ++ [x]) = digitsVal a * 10 + (x.toNat - 48) := by
  simp [digitsVal, List.foldl_append]

/-- the digits denote the number -/
theorem digitsVal_natDigits (n : Nat) : digitsVal (natDigits n) = n := by
  induction n using Nat.strongRecOn with
  | _ n ih =>
    rw [natDigits_rec]
    split
    · rename_i h
      simp [digitsVal, dig_val n h]
    · rw [digitsVal_snoc, ih (n / 10) (by omega), dig_val _ (Nat.mod_lt n (by decide))]
      omega

theorem takeDigits_all (ds : Bytes) (h : ∀ b ∈ ds, isDigit b = true) : takeDigits ds = (ds, []) := by
  induction ds with
  | nil => rfl
  | cons x xs ih =>
    rw [takeDigits_cons, if_pos (h x (by simp)), ih (fun b hb => h b (by simp [hb]))]

/-- the leading-zero test of the grammar never fires on `itoa` output -/
theorem natDigits_noLeadingZero (n : Nat) :
    (decide ((natDigits n).length > 1) && (natDigits n).head? == some 0x30) = false := by
  by_cases hn : n = 0
  · subst hn; rw [natDigits_zero]; rfl
  · obtain ⟨d, t, h1, h2, h3⟩ := natDigits_head n (by omega)
    rw [h3]
    have := dig_ne_zero d h2 h1
    simp [this]

/-- a bare run of `itoa` digits, optionally signed, through the stages -/
theorem number_itoa (neg : Bool) (n : Nat) :
    number ((if neg then [0x2D] else []) ++ natDigits n)
      = some (nFin neg (natDigits n) [] false 0 false, []) := by
  have hsg : nSign ((if neg then [0x2D] else []) ++ natDigits n) = (neg, natDigits n) := by
    cases neg with
    | true => simp [nSign_cons]
    | false =>
      have hne := natDigits_ne_nil n
      cases hd : natDigits n with
      | nil => exact absurd hd hne
      | cons b t =>
        have : isDigit b = true := natDigits_all n b (by rw [hd]; simp)
        simp [nSign_cons, isDigit_ne_minus b this]
  rw [number_stages _ neg (natDigits n) (natDigits n) [] [] [] false hsg
    (takeDigits_all _ (natDigits_all n)) rfl]
  have c1 : (natDigits n).isEmpty = false := by
    cases hd : natDigits n with
    | nil => exact absurd hd (natDigits_ne_nil n)
    | cons b t => rfl
  rw [if_neg (by simp [c1]), if_neg (by rw [natDigits_noLeadingZero]; simp), if_neg (by simp)]
  rfl

/-- **B.3a** unsigned integers -/
theorem number_natDigits (n : Nat) (h : n < 18446744073709551616) (rest : Bytes) (hr : numEnd rest = true) :
    number (natDigits n ++ rest) = some (.uint n, rest) := by
  apply number_append_nil _ _ _ _ hr
  have := number_itoa false n
  simp only [Bool.false_eq_true, if_false, List.nil_append] at this
  rw [this]
  simp [nFin, digitsVal_natDigits, h]

/-- **B.3b** negative integers -/
theorem number_intDigits_neg (i : Int) (h1 : -9223372036854775808 ≤ i) (h2 : i < 0) (rest : Bytes)
    (hr : numEnd rest = true) :
    number (intDigits i ++ rest) = some (.int i, rest) := by
  apply number_append_nil _ _ _ _ hr
  have := number_itoa true (-i).toNat
  simp only [if_true] at this
  unfold intDigits
  rw [if_pos h2]
  rw [show (0x2D : UInt8) :: natDigits (-i).toNat = [0x2D] ++ natDigits (-i).toNat from rfl, this]
  have hle : (-i).toNat ≤ 9223372036854775808 := by omega
  have hcast : -(((-i).toNat : Nat) : Int) = i := by omega
  simp [nFin, digitsVal_natDigits, hle]
  omega

/-- **B.3c** a non-negative `Int64` is printed like the unsigned number and read back unsigned -/
theorem number_intDigits_nonneg (i : Int) (h1 : 0 ≤ i) (h2 : i ≤ 9223372036854775807) (rest : Bytes)
    (hr : numEnd rest = true) :
    number (intDigits i ++ rest) = some (.uint i.toNat, rest) := by
  unfold intDigits
  rw [if_neg (by omega)]
  exact number_natDigits i.toNat (by omega) rest hr

/-- **B.4** floats: what `goodFmt` checks per instance lifts to any delimited context -/
theorem number_fmt (fmt : Nat → Bytes) (b : Nat) (hfmt : number (fmt b) = some (.float b, []))
    (rest : Bytes) (hr : numEnd rest = true) :
    number (fmt b ++ rest) = some (.float b, rest) :=
  number_append_nil _ _ _ hfmt hr

end Jsonb
