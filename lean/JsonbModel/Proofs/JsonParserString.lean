/-
JSON text parser model: the second pass over a string (`parse_string`) cannot panic on data
shaped by the first pass.
-/
import JsonbModel.Proofs.JsonParserLemmas

namespace Jsonb
namespace JP

theorem pairCombine_ok (n1 n2 : Nat) (h1 : 0xD800 ≤ n1 ∧ n1 ≤ 0xDBFF) (h2 : 0xDC00 ≤ n2 ∧ n2 ≤ 0xDFFF) :
    ∃ c, pairCombine n1 n2 = .ok c := by
  have s1 : subUsize "parse_escaped_string: n1 - 0xD800" n1 0xD800 = .ok (n1 - 0xD800) := by
    unfold subUsize; rw [if_neg (by omega)]
  have s2 : subUsize "parse_escaped_string: n2 - 0xDC00" n2 0xDC00 = .ok (n2 - 0xDC00) := by
    unfold subUsize; rw [if_neg (by omega)]
  have pb := pair_bound (n1 - 0xD800) (n2 - 0xDC00) (by omega) (by omega)
  unfold pairCombine
  rw [s1, bind_ok, s2, bind_ok]
  generalize ((n1 - 0xD800) <<< 10 % 4294967296 ||| (n2 - 0xDC00)) = m at pb
  show ∃ c, (if m + 0x10000 ≥ 4294967296 then _ else _) = _
  rw [if_neg (by omega), charFromU32_ok _ _ (by right; omega)]
  exact ⟨_, rfl⟩

/-- what the low-surrogate arm needs: after `\u` of a second escape, the data has the shape
the first pass saw -/
theorem pairLow_spec (numbers : Bytes) (hex : Nat) (data : Bytes)
    (hh : 0xD800 ≤ hex ∧ hex ≤ 0xDBFF) (hd : EscWF (0x5C :: 0x75 :: data)) :
    NP (pairLow numbers hex data) ∧
    ∀ d' out, pairLow numbers hex data = .ok (d', out) → EscWF d' ∧ d'.length ≤ data.length := by
  -- common tail once the second escape has been read
  have tail : ∀ (lower d : Bytes), lower.length = 4 → EscWF d → d.length ≤ data.length →
      (NP (do
          let n2 ← decodeHexEscape lower 0
          if !(0xDC00 ≤ n2 ∧ n2 ≤ 0xDFFF) then
            pure (d, encodeInvalidUnicode numbers ++ encodeInvalidUnicode lower)
          else do
            let c ← pairCombine hex n2
            pure (d, encodeUtf8 c) : Res (Bytes × Bytes))) ∧
      ∀ d' out, (do
          let n2 ← decodeHexEscape lower 0
          if !(0xDC00 ≤ n2 ∧ n2 ≤ 0xDFFF) then
            pure (d, encodeInvalidUnicode numbers ++ encodeInvalidUnicode lower)
          else do
            let c ← pairCombine hex n2
            pure (d, encodeUtf8 c) : Res (Bytes × Bytes)) = .ok (d', out) →
        EscWF d' ∧ d'.length ≤ data.length := by
    intro lower d hl hw hlen
    obtain ⟨np, hb⟩ := decodeHexEscape4 lower hl
    cases e : decodeHexEscape lower 0 with
    | ok n2 =>
      simp only [bind_ok]
      split
      · simp only [pure_eq, NP_ok, Res.ok.injEq, Prod.mk.injEq, true_and]
        rintro d' out ⟨rfl, -⟩
        exact ⟨hw, hlen⟩
      · rename_i hr
        simp at hr
        obtain ⟨c, hc⟩ := pairCombine_ok hex n2 hh hr
        simp only [hc, bind_ok, pure_eq, NP_ok, Res.ok.injEq, Prod.mk.injEq, true_and]
        rintro d' out ⟨rfl, -⟩
        exact ⟨hw, hlen⟩
    | err e => simp
    | panic s => exact absurd e (np s)
    | fuel => simp
  unfold pairLow
  cases hd with
  | plain c d hc _ => exact absurd rfl hc
  | esc c d hc _ => exact absurd rfl hc
  | escU x a b c d hx hw =>
    rw [readHex4_plain _ _ _ _ _ _ hx]
    simp only [bind_ok]
    exact tail [x, a, b, c] d rfl hw (by simp; omega)
  | escUB a b c e f d hw =>
    rw [readHex4_brace]
    split
    · simp
    · simp only [bind_ok]
      exact tail [a, b, c, e] d rfl hw (by simp; omega)

theorem afterHex_spec (numbers data : Bytes) (hn : numbers.length = 4) (hd : EscWF data) :
    NP (afterHex numbers data) ∧
    ∀ d' out, afterHex numbers data = .ok (d', out) → EscWF d' ∧ d'.length ≤ data.length := by
  unfold afterHex
  obtain ⟨np, hb⟩ := decodeHexEscape4 numbers hn
  cases e : decodeHexEscape numbers 0 with
  | ok hex =>
    have hlt := hb hex e
    simp only [bind_ok]
    have done : NP (Res.ok (data, encodeInvalidUnicode numbers)) ∧
        ∀ d' out, (Res.ok (data, encodeInvalidUnicode numbers) : Res (Bytes × Bytes)) = .ok (d', out) →
          EscWF d' ∧ d'.length ≤ data.length := by
      simp only [NP_ok, Res.ok.injEq, Prod.mk.injEq, true_and]
      rintro d' out ⟨rfl, -⟩
      exact ⟨hd, Nat.le_refl _⟩
    split
    · exact done
    · split
      · rename_i hs
        split
        · exact done
        · rename_i hlen
          match data, hd, hlen with
          | d0 :: d1 :: rest, hd, _ =>
            simp only [data0, bind_ok]
            by_cases h0 : d0 = 0x5C
            · subst h0
              simp only [beq_self_eq_true, if_true, bufIndex, List.getElem?_cons_succ,
                List.getElem?_cons_zero, bind_ok, pure_eq]
              by_cases h1 : d1 = 0x75
              · subst h1
                simp only [beq_self_eq_true, Bool.not_true, Bool.false_eq_true, if_false, dataFrom,
                  List.length_cons, List.drop_succ_cons, List.drop_zero]
                rw [if_pos (by omega)]
                obtain ⟨np2, h2⟩ := pairLow_spec numbers hex rest hs hd
                refine ⟨np2, ?_⟩
                intro d' out he
                obtain ⟨hw, hl⟩ := h2 d' out he
                exact ⟨hw, by (try simp only [List.length_cons]); omega⟩
              · have : (d1 == 0x75) = false := by simpa using h1
                simp only [this, Bool.not_false, if_true]
                exact done
            · have : (d0 == 0x5C) = false := by simpa using h0
              simp only [this, Bool.false_eq_true, if_false, pure_eq, bind_ok, Bool.not_false, if_true]
              exact done
          | [_], _, hlen => simp at hlen
          | [], _, hlen => simp at hlen
      · rename_i h1 h2
        rw [charFromU32_ok _ _ (by omega)]
        simp only [bind_ok, pure_eq, NP_ok, Res.ok.injEq, Prod.mk.injEq, true_and]
        rintro d' out ⟨rfl, -⟩
        exact ⟨hd, Nat.le_refl _⟩
  | err e => simp
  | panic s => exact absurd e (np s)
  | fuel => simp

/-- `parse_escaped_string` on data shaped by the first pass: no panic, and what remains has
the same shape and is strictly shorter than the data that started at the backslash -/
theorem parseEscaped_spec (rest : Bytes) (h : EscWF (0x5C :: rest)) :
    NP (parseEscaped rest) ∧
    ∀ d' out, parseEscaped rest = .ok (d', out) → EscWF d' ∧ d'.length < rest.length := by
  unfold parseEscaped
  cases h with
  | plain c d hc _ => exact absurd rfl hc
  | esc c d hc hw =>
    simp only [data0, dataFrom, bind_ok, List.length_cons, List.drop_succ_cons, List.drop_zero]
    rw [if_pos (by omega)]
    simp only [bind_ok]
    have hcu : (c == 0x75) = false := by simpa using hc
    simp only [hcu]
    repeat' split
    all_goals first
      | (simp only [pure_eq, NP_ok, Res.ok.injEq, Prod.mk.injEq, true_and]
         rintro d' out ⟨rfl, -⟩
         exact ⟨hw, by simp⟩)
      | simp
      | contradiction
  | escU x a b c d hx hw =>
    simp only [data0, dataFrom, bind_ok, List.length_cons, List.drop_succ_cons, List.drop_zero]
    rw [if_pos (by omega)]
    simp only [bind_ok]
    rw [readHex4_plain _ _ _ _ _ _ hx]
    simp only [bind_ok]
    have := afterHex_spec [x, a, b, c] d rfl hw
    simp only [u_beq_1, u_beq_2, u_beq_3, u_beq_4, u_beq_5, u_beq_6, u_beq_7, u_beq_8,
      beq_self_eq_true, Bool.false_eq_true, if_false, if_true]
    refine ⟨this.1, ?_⟩
    intro d' out he
    obtain ⟨h1, h2⟩ := this.2 d' out he
    exact ⟨h1, by (try simp only [List.length_cons]); omega⟩
  | escUB a b c e f d hw =>
    simp only [data0, dataFrom, bind_ok, List.length_cons, List.drop_succ_cons, List.drop_zero]
    rw [if_pos (by omega)]
    simp only [bind_ok]
    rw [readHex4_brace]
    simp only [u_beq_1, u_beq_2, u_beq_3, u_beq_4, u_beq_5, u_beq_6, u_beq_7, u_beq_8,
      beq_self_eq_true, Bool.false_eq_true, if_false, if_true]
    split
    · simp
    · simp only [bind_ok]
      have := afterHex_spec [a, b, c, e] d rfl hw
      refine ⟨this.1, ?_⟩
      intro d' out he
      obtain ⟨h1, h2⟩ := this.2 d' out he
      exact ⟨h1, by (try simp only [List.length_cons]); omega⟩

theorem EscWF_tail_of_ne {c : UInt8} {rest : Bytes} (h : EscWF (c :: rest)) (hc : c ≠ 0x5C) :
    EscWF rest := by
  cases h with
  | plain _ _ _ hw => exact hw
  | esc _ _ _ _ => exact absurd rfl hc
  | escU _ _ _ _ _ _ _ => exact absurd rfl hc
  | escUB _ _ _ _ _ _ _ => exact absurd rfl hc

/-- the loop of `parse_string` on first-pass-shaped data: no panic, and fuel `> data.len()` is
enough -/
theorem parseStringLoop_spec (fuel : Nat) (d acc : Bytes) (hw : EscWF d) :
    NP (parseStringLoop fuel d acc) ∧ (d.length < fuel → parseStringLoop fuel d acc ≠ .fuel) := by
  induction fuel generalizing d acc with
  | zero => simp [parseStringLoop]
  | succ fuel ih =>
    unfold parseStringLoop
    match d, hw with
    | [], _ => simp
    | c :: rest, hw =>
      simp only [List.isEmpty_cons, Bool.false_eq_true, if_false, data0, bind_ok, dataFrom,
        List.length_cons, List.drop_succ_cons, List.drop_zero]
      have h1 : 1 ≤ rest.length + 1 := by omega
      simp only [h1, if_true, bind_ok]
      by_cases hc : c = 0x5C
      · subst hc
        simp only [beq_self_eq_true, if_true]
        obtain ⟨np, h2⟩ := parseEscaped_spec rest hw
        cases e : parseEscaped rest with
        | ok p =>
          obtain ⟨d', out⟩ := p
          obtain ⟨hw', hl⟩ := h2 d' out e
          simp only [bind_ok]
          obtain ⟨i1, i2⟩ := ih d' (acc ++ out) hw'
          exact ⟨i1, fun hlt => i2 (by omega)⟩
        | err e => simp
        | panic s => exact absurd e (np s)
        | fuel => exact absurd e (by have := parseEscaped_NF rest; unfold NF at this; exact this)
      · have hcb : (c == 0x5C) = false := by simpa using hc
        simp only [hcb, Bool.false_eq_true, if_false]
        obtain ⟨i1, i2⟩ := ih rest (acc ++ [c]) (EscWF_tail_of_ne hw hc)
        exact ⟨i1, fun hlt => i2 (by omega)⟩

theorem parseString_spec (d : Bytes) (hw : EscWF d) :
    NP (parseString d) ∧ parseString d ≠ .fuel := by
  unfold parseString
  obtain ⟨np, nf⟩ := parseStringLoop_spec (d.length + 1) d [] hw
  cases e : parseStringLoop (d.length + 1) d [] with
  | ok out => simp only [bind_ok]; split <;> simp
  | err e => simp
  | panic s => exact absurd e (np s)
  | fuel => exact absurd e (nf (by omega))

/-! ### Strings, first pass (parser.rs) -/

theorem next_eq (buf : Bytes) (i : Nat) :
    next buf i = match buf[i]? with
      | some c => .ok c
      | none => .err "InvalidEOF" := rfl

theorem drop_cons_get {buf : Bytes} {i j : Nat} {c : UInt8} (h : buf[i]? = some c) (hj : j = i + 1) :
    buf.drop i = c :: buf.drop j := by
  subst hj
  obtain ⟨hlt, rfl⟩ := List.getElem?_eq_some_iff.mp h
  exact List.drop_eq_getElem_cons hlt

theorem exists_get {buf : Bytes} {i : Nat} (h : i < buf.length) : ∃ c, buf[i]? = some c :=
  ⟨buf[i], List.getElem?_eq_getElem h⟩

theorem lt_of_drop_eq {buf : Bytes} {i : Nat} {d r : Bytes} {q : UInt8}
    (h : buf.drop i = d ++ q :: r) : i + d.length < buf.length := by
  have := congrArg List.length h
  simp only [List.length_drop, List.length_append, List.length_cons] at this
  omega

/-- result of the first pass: the bytes between the cursor and the closing quote are
`EscWF`, the cursor ends just past the quote, and there are at most half as many escapes as
bytes -/
theorem scanString_spec (buf : Bytes) (i e : Nat) :
    NP (scanString buf i e) ∧
    ∀ j e', scanString buf i e = .ok (j, e') →
      ∃ d, buf.drop i = d ++ 0x22 :: buf.drop j ∧ j = i + d.length + 1 ∧ EscWF d ∧
        e ≤ e' ∧ 2 * (e' - e) ≤ d.length := by
  induction hn : buf.length - i using Nat.strongRecOn generalizing i e with
  | _ n ih =>
    rw [scanString]
    split
    · rename_i h
      have h0 : buf[i]? = some buf[i] := List.getElem?_eq_getElem h
      simp only
      split
      · -- backslash
        rename_i hbs
        have hbs : buf[i] = 0x5C := by simpa using hbs
        rw [hbs] at h0
        rw [next_eq]
        cases h1 : buf[i + 1]? with
        | none => simp
        | some nc =>
          simp only
          split
          · -- `u`
            rename_i hu
            have hu : nc = 0x75 := by simpa using hu
            subst hu
            rw [next_eq]
            cases h2 : buf[i + 2]? with
            | none => simp
            | some nc2 =>
              simp only
              split
              · -- `{`
                rename_i hb
                have hb : nc2 = 0x7B := by simpa using hb
                subst hb
                obtain ⟨np, hr⟩ := ih (buf.length - (i + 2 + (C.UNICODE_LEN + 2))) (by simp [C.UNICODE_LEN]; omega)
                  (i + 2 + (C.UNICODE_LEN + 2)) (e + 1) rfl
                refine ⟨np, ?_⟩
                intro j e' hs
                obtain ⟨d, hd, hj, hw, he, hl⟩ := hr j e' hs
                have hlt := lt_of_drop_eq hd
                simp only [C.UNICODE_LEN] at hd hj hlt
                obtain ⟨a3, g3⟩ := exists_get (buf := buf) (i := i + 3) (by omega)
                obtain ⟨a4, g4⟩ := exists_get (buf := buf) (i := i + 4) (by omega)
                obtain ⟨a5, g5⟩ := exists_get (buf := buf) (i := i + 5) (by omega)
                obtain ⟨a6, g6⟩ := exists_get (buf := buf) (i := i + 6) (by omega)
                obtain ⟨a7, g7⟩ := exists_get (buf := buf) (i := i + 7) (by omega)
                refine ⟨0x5C :: 0x75 :: 0x7B :: a3 :: a4 :: a5 :: a6 :: a7 :: d, ?_, ?_, ?_, ?_, ?_⟩
                · rw [drop_cons_get h0 rfl, drop_cons_get h1 rfl, drop_cons_get h2 rfl,
                    drop_cons_get g3 rfl, drop_cons_get g4 rfl, drop_cons_get g5 rfl,
                    drop_cons_get g6 rfl, drop_cons_get g7 rfl]
                  simp only [List.cons_append]
                  rw [← hd]
                · simp only [List.length_cons]; omega
                · exact EscWF.escUB _ _ _ _ _ _ hw
                · omega
                · simp only [List.length_cons]; omega
              · rename_i hb
                have hb : nc2 ≠ 0x7B := by simpa using hb
                obtain ⟨np, hr⟩ := ih (buf.length - (i + 2 + C.UNICODE_LEN)) (by simp [C.UNICODE_LEN]; omega)
                  (i + 2 + C.UNICODE_LEN) (e + 1) rfl
                refine ⟨np, ?_⟩
                intro j e' hs
                obtain ⟨d, hd, hj, hw, he, hl⟩ := hr j e' hs
                have hlt := lt_of_drop_eq hd
                simp only [C.UNICODE_LEN] at hd hj hlt
                obtain ⟨a3, g3⟩ := exists_get (buf := buf) (i := i + 3) (by omega)
                obtain ⟨a4, g4⟩ := exists_get (buf := buf) (i := i + 4) (by omega)
                obtain ⟨a5, g5⟩ := exists_get (buf := buf) (i := i + 5) (by omega)
                refine ⟨0x5C :: 0x75 :: nc2 :: a3 :: a4 :: a5 :: d, ?_, ?_, ?_, ?_, ?_⟩
                · rw [drop_cons_get h0 rfl, drop_cons_get h1 rfl, drop_cons_get h2 rfl,
                    drop_cons_get g3 rfl, drop_cons_get g4 rfl, drop_cons_get g5 rfl]
                  simp only [List.cons_append]
                  rw [← hd]
                · simp only [List.length_cons]; omega
                · exact EscWF.escU _ _ _ _ _ hb hw
                · omega
                · simp only [List.length_cons]; omega
          · rename_i hu
            have hu : nc ≠ 0x75 := by simpa using hu
            obtain ⟨np, hr⟩ := ih (buf.length - (i + 2)) (by omega) (i + 2) (e + 1) rfl
            refine ⟨np, ?_⟩
            intro j e' hs
            obtain ⟨d, hd, hj, hw, he, hl⟩ := hr j e' hs
            refine ⟨0x5C :: nc :: d, ?_, ?_, ?_, ?_, ?_⟩
            · rw [drop_cons_get h0 rfl, drop_cons_get h1 rfl]
              simp only [List.cons_append]
              rw [← hd]
            · simp only [List.length_cons]; omega
            · exact EscWF.esc _ _ hu hw
            · omega
            · simp only [List.length_cons]; omega
      · rename_i hbs
        have hbs : buf[i] ≠ 0x5C := by simpa using hbs
        split
        · -- closing quote
          rename_i hq
          have hq : buf[i] = 0x22 := by simpa using hq
          rw [hq] at h0
          refine ⟨by simp, ?_⟩
          intro j e' hs
          simp only [Res.ok.injEq, Prod.mk.injEq] at hs
          obtain ⟨rfl, rfl⟩ := hs
          exact ⟨[], by simpa using drop_cons_get h0 rfl, by simp, EscWF.nil, Nat.le_refl _, by simp⟩
        · obtain ⟨np, hr⟩ := ih (buf.length - (i + 1)) (by omega) (i + 1) e rfl
          refine ⟨np, ?_⟩
          intro j e' hs
          obtain ⟨d, hd, hj, hw, he, hl⟩ := hr j e' hs
          refine ⟨buf[i] :: d, ?_, ?_, ?_, ?_, ?_⟩
          · rw [drop_cons_get h0 rfl]
            simp only [List.cons_append]
            rw [← hd]
          · simp only [List.length_cons]; omega
          · exact EscWF.plain _ _ hbs hw
          · omega
          · simp only [List.length_cons]; omega
    · simp

theorem scanString_NF (buf : Bytes) (i e : Nat) : NF (scanString buf i e) := by
  induction hn : buf.length - i using Nat.strongRecOn generalizing i e with
  | _ n ih =>
    rw [scanString]
    split
    · rename_i h
      have r : ∀ j e', i < j → NF (scanString buf j e') := fun j e' hj =>
        ih (buf.length - j) (by omega) j e' rfl
      cases h1 : buf[i + 1]? <;> cases h2 : buf[i + 2]? <;> simp only [next, h1, h2] <;>
        repeat' split
      all_goals first
        | exact r _ _ (by first | omega | (simp only [C.UNICODE_LEN]; omega))
        | simp
    · simp

theorem take_drop_of_drop_eq {buf d r : Bytes} {i : Nat} {q : UInt8}
    (h : buf.drop i = d ++ q :: r) : (buf.take (i + d.length)).drop i = d := by
  rw [List.drop_take, h]
  simp

/-- `parse_json_string`: no panic, no fuel exhaustion, and the cursor advances inside the
buffer -/
theorem parseJsonString_spec (buf : Bytes) (i : Nat) :
    NP (parseJsonString buf i) ∧ NF (parseJsonString buf i) ∧
    ∀ v j, parseJsonString buf i = .ok (v, j) → i < j ∧ j ≤ buf.length := by
  unfold parseJsonString mustIs
  cases h0 : buf[i]? with
  | none => simp
  | some c =>
    simp only
    split
    · simp only [bind_ok]
      obtain ⟨np, hs⟩ := scanString_spec buf (i + 1) 0
      have nf := scanString_NF buf (i + 1) 0
      cases es : scanString buf (i + 1) 0 with
      | ok p =>
        obtain ⟨j, esc⟩ := p
        obtain ⟨d, hd, hj, hw, -, hl⟩ := hs j esc es
        have hlt := lt_of_drop_eq hd
        have hdata : (buf.take (j - 1)).drop (i + 1) = d := by
          have : j - 1 = i + 1 + d.length := by omega
          rw [this]; exact take_drop_of_drop_eq hd
        have s1 : subUsize "parse_json_string: self.idx - 1" j 1 = .ok (j - 1) := by
          unfold subUsize; rw [if_neg (by omega)]
        have s2 : slice "parse_json_string: buf[start_idx..idx-1]" buf (i + 1) (j - 1) = .ok d := by
          unfold slice; rw [if_neg (by omega), if_neg (by omega), hdata]
        have s3 : subUsize "parse_json_string: idx - 1 - start_idx" (j - 1) (i + 1) = .ok (j - 1 - (i + 1)) := by
          unfold subUsize; rw [if_neg (by omega)]
        have s4 : subUsize "parse_json_string: idx - 1 - start_idx - escapes" (j - 1 - (i + 1)) esc
            = .ok (j - 1 - (i + 1) - esc) := by
          unfold subUsize; rw [if_neg (by omega)]
        simp only [bind_ok, s1, s2]
        split
        · simp only [s3, s4, bind_ok]
          obtain ⟨np2, nf2⟩ := parseString_spec d hw
          cases ep : parseString d with
          | ok out =>
            simp only [bind_ok, pure_eq, NP_ok, NF_ok, Res.ok.injEq, Prod.mk.injEq, true_and]
            rintro v j' ⟨-, rfl⟩
            omega
          | err e => simp
          | panic s => exact absurd ep (np2 s)
          | fuel => exact absurd ep nf2
        · split
          · simp only [pure_eq, NP_ok, NF_ok, Res.ok.injEq, Prod.mk.injEq, true_and]
            rintro v j' ⟨-, rfl⟩
            omega
          · simp
      | err e => simp
      | panic s => exact absurd es (np s)
      | fuel => exact absurd es (by unfold NF at nf; exact nf)
    · simp

end JP
end Jsonb
