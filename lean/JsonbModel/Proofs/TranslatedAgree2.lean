/-
Agreement theorems, part 2: the translated `Number::compact_encode`, `Number::decode`,
`as_i64`, `as_u64` of number.rs EQUAL the model's `Num.enc`, `Num.dec`, `Num.asI64`, `Num.asU64`
(the functions C01/C10/C18 are about).
-/
import JsonbModel.Generated.Translated
import JsonbModel.Proofs.RustPreludeLemmas
import JsonbModel.Num

set_option linter.unusedSimpArgs false

namespace Jsonb.TrAgree
open Jsonb.Rs

/-- model `Num` ↦ translated `Number` (payloads as Rust integer values / `f64` bit patterns) -/
def ofNum : Num → Tr.Number
  | .int i => .Int64 i
  | .uint n => .UInt64 (n : Int)
  | .float b => .Float64 b

/-! ### primitives against the model's helpers -/

theorem toBeBytes_eq_beI (t : IntTy) (x : Int) : Rs.toBeBytes t x = Num.beI t.bytes x := by
  cases t <;> simp [Rs.toBeBytes, Num.beI, IntTy.bytes, IntTy.bits]

theorem toBeBytes_nat (t : IntTy) (n : Nat) (h : n < 2 ^ t.bits) : Rs.toBeBytes t (n : Int) = beN t.bytes n := by
  unfold Rs.toBeBytes
  have : ((n : Int) % ((2 ^ t.bits : Nat) : Int)).toNat = n := by
    have : (n : Int) % ((2 ^ t.bits : Nat) : Int) = ((n % 2 ^ t.bits : Nat) : Int) := by simp
    rw [this, Int.toNat_natCast, Nat.mod_eq_of_lt h]
  rw [this]

theorem bytesOf_const (c : Nat) : Rs.bytesOf [(c : Int)] = [UInt8.ofNat c] := by
  simp [Rs.bytesOf]

theorem f64Exp_eq (b : Nat) : Rs.f64Exp b = F64.expField b := by
  unfold Rs.f64Exp F64.expField
  rw [Nat.shiftRight_eq_div_pow]
  exact Nat.and_two_pow_sub_one_eq_mod _ 11

theorem f64Frac_eq (b : Nat) : Rs.f64Frac b = F64.mantField b := by
  unfold Rs.f64Frac F64.mantField
  exact Nat.and_two_pow_sub_one_eq_mod _ 52

theorem f64IsNan_eq (b : Nat) : Rs.f64IsNan b = F64.isNaN b := by
  simp [Rs.f64IsNan, F64.isNaN, f64Exp_eq, f64Frac_eq]

theorem f64Sign_eq (b : Nat) : Rs.f64IsSignNegative b = F64.signBit b := by
  unfold Rs.f64IsSignNegative F64.signBit
  rw [Nat.shiftRight_eq_div_pow, show (1 : Nat) = 2 ^ 1 - 1 from rfl, Nat.and_two_pow_sub_one_eq_mod]

theorem f64IsInfinite_iff (b : Nat) (h : b < 18446744073709551616) :
    Rs.f64IsInfinite b = true ↔ (b = F64.posInf ∨ b = F64.negInf) := by
  simp only [Rs.f64IsInfinite, f64Exp_eq, f64Frac_eq, F64.expField, F64.mantField, F64.posInf, F64.negInf,
    Bool.and_eq_true, beq_iff_eq]
  omega

theorem f64Sign_posInf : Rs.f64IsSignNegative F64.posInf = false := by decide
theorem f64Sign_negInf : Rs.f64IsSignNegative F64.negInf = true := by decide

/-! ### compact_encode -/

theorem compact_encode_agrees (n : Num) (h : n.WF) (w : Bytes) :
    Tr.Number.compact_encode (ofNum n) w = .ok (((Num.enc n).length : Int), w ++ Num.enc n) := by
  cases n with
  | int i =>
    simp only [Num.WF] at h
    simp only [ofNum, Tr.Number.compact_encode, Rs.toBeBytes_cast]
    simp only [Num.enc, Rs.writeAll_eq, Ctl.ofRes_ok, Ctl.val_bind,
      Ctl.pure_eq, bytesOf_const, toBeBytes_eq_beI, IntTy.bytes, IntTy.bits,
      Rs.minVal_i8, Rs.maxVal_i8, Rs.minVal_i16, Rs.maxVal_i16, Rs.minVal_i32, Rs.maxVal_i32]
    -- every comparison of the function is decided by these atoms, in whatever order it is written
    by_cases h0 : i = 0 <;> by_cases a1 : -128 ≤ i <;> by_cases a2 : i ≤ 127 <;>
      by_cases b1 : -32768 ≤ i <;> by_cases b2 : i ≤ 32767 <;>
      by_cases c1 : -2147483648 ≤ i <;> by_cases c2 : i ≤ 2147483647 <;>
      first
        | omega
        | simp [h0, a1, a2, b1, b2, c1, c2, Num.beI]
  | uint n =>
    simp only [Num.WF] at h
    simp only [ofNum, Tr.Number.compact_encode, Rs.toBeBytes_cast]
    have e1 : n ≤ 255 → Rs.toBeBytes .u8 (n : Int) = beN 1 n := fun hh =>
      toBeBytes_nat .u8 n (by simp [IntTy.bits]; omega)
    have e2 : n ≤ 65535 → Rs.toBeBytes .u16 (n : Int) = beN 2 n := fun hh =>
      toBeBytes_nat .u16 n (by simp [IntTy.bits]; omega)
    have e4 : n ≤ 4294967295 → Rs.toBeBytes .u32 (n : Int) = beN 4 n := fun hh =>
      toBeBytes_nat .u32 n (by simp [IntTy.bits]; omega)
    have e8 : Rs.toBeBytes .u64 (n : Int) = beN 8 n :=
      toBeBytes_nat .u64 n (by simp [IntTy.bits]; omega)
    simp only [Num.enc, Rs.writeAll_eq, Ctl.ofRes_ok, Ctl.val_bind, Ctl.pure_eq, bytesOf_const,
      Rs.maxVal_u8, Rs.maxVal_u16, Rs.maxVal_u32]
    by_cases h0 : n = 0
    · simp [h0]
    have h0' : ¬ ((n : Int) = 0) := by omega
    by_cases h1 : n ≤ 255
    · have h1' : (n : Int) ≤ 255 := by omega
      simp [h0, h0', h1, h1', e1 h1]
    have h1' : ¬ ((n : Int) ≤ 255) := by omega
    by_cases h2 : n ≤ 65535
    · have h2' : (n : Int) ≤ 65535 := by omega
      simp [h0, h0', h1, h1', h2, h2', e2 h2]
    have h2' : ¬ ((n : Int) ≤ 65535) := by omega
    by_cases h3 : n ≤ 4294967295
    · have h3' : (n : Int) ≤ 4294967295 := by omega
      simp [h0, h0', h1, h1', h2, h2', h3, h3', e4 h3]
    · have h3' : ¬ ((n : Int) ≤ 4294967295) := by omega
      simp [h0, h0', h1, h1', h2, h2', h3, h3', e8]
  | float b =>
    simp only [Num.WF] at h
    simp only [ofNum, Tr.Number.compact_encode, Num.enc, Rs.writeAll_eq, Ctl.ofRes_ok, Ctl.val_bind,
      Ctl.pure_eq, bytesOf_const, f64IsNan_eq, Rs.f64ToBeBytes]
    by_cases hn : F64.isNaN b = true
    · simp [hn]
    by_cases hp : b = F64.posInf
    · have hi : Rs.f64IsInfinite b = true := (f64IsInfinite_iff b h).mpr (Or.inl hp)
      have hs : Rs.f64IsSignNegative b = false := by rw [hp]; exact f64Sign_posInf
      simp [hn, hi, hs, ← hp]
    by_cases hm : b = F64.negInf
    · have hi : Rs.f64IsInfinite b = true := (f64IsInfinite_iff b h).mpr (Or.inr hm)
      have hs : Rs.f64IsSignNegative b = true := by rw [hm]; exact f64Sign_negInf
      simp [hn, hi, hs, hp, ← hm]
    · have hi : Rs.f64IsInfinite b = false := by
        cases hh : Rs.f64IsInfinite b
        · rfl
        · rcases (f64IsInfinite_iff b h).mp hh with h1 | h1
          · exact absurd h1 hp
          · exact absurd h1 hm
      simp [hn, hi, hp, hm]

/-! ### decode -/

theorem fromBe_i (t : IntTy) (rest : Bytes) (hs : t.signed = true) (hb : t.bits ≤ 64)
    (hl : rest.length = t.bytes) : Rs.cast .i64 (Rs.fromBeBytes t rest) = Num.ofBeI rest := by
  have hlt := ofBe_lt rest
  rw [hl] at hlt
  have hc : Rs.cast .i64 (Rs.fromBeBytes t rest) = Rs.fromBeBytes t rest := by
    apply Rs.cast_of_inRange
    have := Rs.wrap_inRange t (ofBe rest)
    rw [Rs.inRange_iff] at this ⊢
    unfold Rs.fromBeBytes
    cases t <;> simp [IntTy.signed, IntTy.bits] at hs hb this ⊢ <;> omega
  rw [hc]
  unfold Rs.fromBeBytes Rs.wrap Num.ofBeI
  simp only [hl]
  cases t <;> simp [IntTy.signed, IntTy.bits, IntTy.bytes] at hs hb hlt ⊢ <;> omega

theorem fromBe_u (t : IntTy) (rest : Bytes) (hs : t.signed = false) (hb : t.bits ≤ 64)
    (hl : rest.length = t.bytes) : Rs.cast .u64 (Rs.fromBeBytes t rest) = (ofBe rest : Int) := by
  have hlt := ofBe_lt rest
  rw [hl] at hlt
  have h1 : Rs.fromBeBytes t rest = (ofBe rest : Int) := by
    apply Rs.wrap_of_inRange
    rw [Rs.inRange_iff]
    cases t <;> simp [IntTy.signed, IntTy.bits, IntTy.bytes] at hs hb hlt ⊢ <;> omega
  rw [h1]
  apply Rs.cast_of_inRange
  rw [Rs.inRange_iff]
  cases t <;> simp [IntTy.signed, IntTy.bits, IntTy.bytes] at hs hb hlt ⊢ <;> omega

/-- `Number::decode` on every byte slice (a Rust slice has at most `isize::MAX` bytes) -/
theorem decode_agrees (bs : Bytes) (hlen : bs.length ≤ 9223372036854775807) :
    Tr.Number.decode bs = (Num.dec bs).map ofNum := by
  cases bs with
  | nil => simp [Tr.Number.decode, Rs.isEmpty, Num.dec, Res.map, Res.bind]
  | cons t rest =>
    have hsub : Rs.sub .usize (Rs.len (t :: rest)) 1 = .ok (rest.length : Int) := by
      simp only [Rs.len, List.length_cons] at hlen ⊢
      rw [Rs.sub_ok _ _ _ (by rw [Rs.inRange_iff]; simp; omega)]
      congr 1; omega
    have hidx : Rs.index (t :: rest) 0 = .ok (t.toNat : Int) := by simp [Rs.index]
    have hsl : Rs.sliceFrom (t :: rest) 1 = .ok rest := by simp [Rs.sliceFrom]; omega
    have hty := t.toNat_lt
    simp only [Tr.Number.decode, Rs.isEmpty, List.length_cons, hsub, hidx, hsl, Ctl.ofRes_ok,
      Ctl.val_bind, Ctl.pure_eq, Num.dec]
    generalize t.toNat = ty at *
    generalize hl : rest.length = len
    have hrest : ∀ k, len = k → Rs.tryIntoArray k rest = some rest := fun k hk =>
      Rs.tryIntoArray_of_length k rest (by omega)
    have hi8 := fun h => fromBe_i .i8 rest rfl (by decide) (show rest.length = IntTy.i8.bytes from h)
    have hi16 := fun h => fromBe_i .i16 rest rfl (by decide) (show rest.length = IntTy.i16.bytes from h)
    have hi32 := fun h => fromBe_i .i32 rest rfl (by decide) (show rest.length = IntTy.i32.bytes from h)
    have hi64 := fun h => fromBe_i .i64 rest rfl (by decide) (show rest.length = IntTy.i64.bytes from h)
    have hu8 := fun h => fromBe_u .u8 rest rfl (by decide) (show rest.length = IntTy.u8.bytes from h)
    have hu16 := fun h => fromBe_u .u16 rest rfl (by decide) (show rest.length = IntTy.u16.bytes from h)
    have hu32 := fun h => fromBe_u .u32 rest rfl (by decide) (show rest.length = IntTy.u32.bytes from h)
    have hu64 := fun h => fromBe_u .u64 rest rfl (by decide) (show rest.length = IntTy.u64.bytes from h)
    simp only [IntTy.bytes, IntTy.bits, hl, Nat.reduceDiv] at hi8 hi16 hi32 hi64 hu8 hu16 hu32 hu64
    have hi64' : len = 8 → Rs.fromBeBytes .i64 rest = Num.ofBeI rest := fun h => by
      rw [← hi64 h]; exact (Rs.cast_of_inRange _ _ (Rs.wrap_inRange _ _)).symm
    have hu64' : len = 8 → Rs.fromBeBytes .u64 rest = (ofBe rest : Int) := fun h => by
      rw [← hu64 h]; exact (Rs.cast_of_inRange _ _ (Rs.wrap_inRange _ _)).symm
    have c1 : ¬ len = 1 → ¬ ((len : Int) = 1) := fun h => by omega
    have c2 : ¬ len = 2 → ¬ ((len : Int) = 2) := fun h => by omega
    have c4 : ¬ len = 4 → ¬ ((len : Int) = 4) := fun h => by omega
    have c8 : ¬ len = 8 → ¬ ((len : Int) = 8) := fun h => by omega
    by_cases hZ : ty = C.NUMBER_ZERO
    · subst hZ
      by_cases l0 : len = 0 <;>
        simp [C.NUMBER_ZERO, C.NUMBER_NAN, C.NUMBER_INF, C.NUMBER_NEG_INF, C.NUMBER_INT, C.NUMBER_UINT,
          C.NUMBER_FLOAT, Res.map, Res.bind, ofNum, Int.natCast_inj, Rs.f64NAN, Rs.f64INFINITY,
          Rs.f64NEG_INFINITY, F64.canonNaN, F64.posInf, F64.negInf, Rs.f64FromBeBytes, l0]
    by_cases hN : ty = C.NUMBER_NAN
    · subst hN
      by_cases l0 : len = 0 <;>
        simp [C.NUMBER_ZERO, C.NUMBER_NAN, C.NUMBER_INF, C.NUMBER_NEG_INF, C.NUMBER_INT, C.NUMBER_UINT,
          C.NUMBER_FLOAT, Res.map, Res.bind, ofNum, Int.natCast_inj, Rs.f64NAN, Rs.f64INFINITY,
          Rs.f64NEG_INFINITY, F64.canonNaN, F64.posInf, F64.negInf, Rs.f64FromBeBytes, l0]
    by_cases hP : ty = C.NUMBER_INF
    · subst hP
      by_cases l0 : len = 0 <;>
        simp [C.NUMBER_ZERO, C.NUMBER_NAN, C.NUMBER_INF, C.NUMBER_NEG_INF, C.NUMBER_INT, C.NUMBER_UINT,
          C.NUMBER_FLOAT, Res.map, Res.bind, ofNum, Int.natCast_inj, Rs.f64NAN, Rs.f64INFINITY,
          Rs.f64NEG_INFINITY, F64.canonNaN, F64.posInf, F64.negInf, Rs.f64FromBeBytes, l0]
    by_cases hM : ty = C.NUMBER_NEG_INF
    · subst hM
      by_cases l0 : len = 0 <;>
        simp [C.NUMBER_ZERO, C.NUMBER_NAN, C.NUMBER_INF, C.NUMBER_NEG_INF, C.NUMBER_INT, C.NUMBER_UINT,
          C.NUMBER_FLOAT, Res.map, Res.bind, ofNum, Int.natCast_inj, Rs.f64NAN, Rs.f64INFINITY,
          Rs.f64NEG_INFINITY, F64.canonNaN, F64.posInf, F64.negInf, Rs.f64FromBeBytes, l0]
    by_cases hI : ty = C.NUMBER_INT
    · subst hI
      by_cases l1 : len = 1
      · simp [C.NUMBER_ZERO, C.NUMBER_NAN, C.NUMBER_INF, C.NUMBER_NEG_INF, C.NUMBER_INT, C.NUMBER_UINT,
          C.NUMBER_FLOAT, Res.map, Res.bind, ofNum, Int.natCast_inj, Rs.f64NAN, Rs.f64INFINITY,
          Rs.f64NEG_INFINITY, F64.canonNaN, F64.posInf, F64.negInf, Rs.f64FromBeBytes, l1, hrest 1 l1, hi8 l1]
      by_cases l2 : len = 2
      · simp [C.NUMBER_ZERO, C.NUMBER_NAN, C.NUMBER_INF, C.NUMBER_NEG_INF, C.NUMBER_INT, C.NUMBER_UINT,
          C.NUMBER_FLOAT, Res.map, Res.bind, ofNum, Int.natCast_inj, Rs.f64NAN, Rs.f64INFINITY,
          Rs.f64NEG_INFINITY, F64.canonNaN, F64.posInf, F64.negInf, Rs.f64FromBeBytes, l2, hrest 2 l2, hi16 l2]
      by_cases l4 : len = 4
      · simp [C.NUMBER_ZERO, C.NUMBER_NAN, C.NUMBER_INF, C.NUMBER_NEG_INF, C.NUMBER_INT, C.NUMBER_UINT,
          C.NUMBER_FLOAT, Res.map, Res.bind, ofNum, Int.natCast_inj, Rs.f64NAN, Rs.f64INFINITY,
          Rs.f64NEG_INFINITY, F64.canonNaN, F64.posInf, F64.negInf, Rs.f64FromBeBytes, l4, hrest 4 l4, hi32 l4]
      by_cases l8 : len = 8
      · simp [C.NUMBER_ZERO, C.NUMBER_NAN, C.NUMBER_INF, C.NUMBER_NEG_INF, C.NUMBER_INT, C.NUMBER_UINT,
          C.NUMBER_FLOAT, Res.map, Res.bind, ofNum, Int.natCast_inj, Rs.f64NAN, Rs.f64INFINITY,
          Rs.f64NEG_INFINITY, F64.canonNaN, F64.posInf, F64.negInf, Rs.f64FromBeBytes, l8, hrest 8 l8, hi64' l8]
      simp [C.NUMBER_ZERO, C.NUMBER_NAN, C.NUMBER_INF, C.NUMBER_NEG_INF, C.NUMBER_INT, C.NUMBER_UINT,
          C.NUMBER_FLOAT, Res.map, Res.bind, ofNum, Int.natCast_inj, Rs.f64NAN, Rs.f64INFINITY,
          Rs.f64NEG_INFINITY, F64.canonNaN, F64.posInf, F64.negInf, Rs.f64FromBeBytes, l1, l2, l4, l8, c1 l1, c2 l2, c4 l4, c8 l8]
    by_cases hU : ty = C.NUMBER_UINT
    · subst hU
      by_cases l1 : len = 1
      · simp [C.NUMBER_ZERO, C.NUMBER_NAN, C.NUMBER_INF, C.NUMBER_NEG_INF, C.NUMBER_INT, C.NUMBER_UINT,
          C.NUMBER_FLOAT, Res.map, Res.bind, ofNum, Int.natCast_inj, Rs.f64NAN, Rs.f64INFINITY,
          Rs.f64NEG_INFINITY, F64.canonNaN, F64.posInf, F64.negInf, Rs.f64FromBeBytes, l1, hrest 1 l1, hu8 l1]
      by_cases l2 : len = 2
      · simp [C.NUMBER_ZERO, C.NUMBER_NAN, C.NUMBER_INF, C.NUMBER_NEG_INF, C.NUMBER_INT, C.NUMBER_UINT,
          C.NUMBER_FLOAT, Res.map, Res.bind, ofNum, Int.natCast_inj, Rs.f64NAN, Rs.f64INFINITY,
          Rs.f64NEG_INFINITY, F64.canonNaN, F64.posInf, F64.negInf, Rs.f64FromBeBytes, l2, hrest 2 l2, hu16 l2]
      by_cases l4 : len = 4
      · simp [C.NUMBER_ZERO, C.NUMBER_NAN, C.NUMBER_INF, C.NUMBER_NEG_INF, C.NUMBER_INT, C.NUMBER_UINT,
          C.NUMBER_FLOAT, Res.map, Res.bind, ofNum, Int.natCast_inj, Rs.f64NAN, Rs.f64INFINITY,
          Rs.f64NEG_INFINITY, F64.canonNaN, F64.posInf, F64.negInf, Rs.f64FromBeBytes, l4, hrest 4 l4, hu32 l4]
      by_cases l8 : len = 8
      · simp [C.NUMBER_ZERO, C.NUMBER_NAN, C.NUMBER_INF, C.NUMBER_NEG_INF, C.NUMBER_INT, C.NUMBER_UINT,
          C.NUMBER_FLOAT, Res.map, Res.bind, ofNum, Int.natCast_inj, Rs.f64NAN, Rs.f64INFINITY,
          Rs.f64NEG_INFINITY, F64.canonNaN, F64.posInf, F64.negInf, Rs.f64FromBeBytes, l8, hrest 8 l8, hu64' l8]
      simp [C.NUMBER_ZERO, C.NUMBER_NAN, C.NUMBER_INF, C.NUMBER_NEG_INF, C.NUMBER_INT, C.NUMBER_UINT,
          C.NUMBER_FLOAT, Res.map, Res.bind, ofNum, Int.natCast_inj, Rs.f64NAN, Rs.f64INFINITY,
          Rs.f64NEG_INFINITY, F64.canonNaN, F64.posInf, F64.negInf, Rs.f64FromBeBytes, l1, l2, l4, l8, c1 l1, c2 l2, c4 l4, c8 l8]
    by_cases hF : ty = C.NUMBER_FLOAT
    · subst hF
      by_cases l8 : len = 8
      · simp [C.NUMBER_ZERO, C.NUMBER_NAN, C.NUMBER_INF, C.NUMBER_NEG_INF, C.NUMBER_INT, C.NUMBER_UINT,
          C.NUMBER_FLOAT, Res.map, Res.bind, ofNum, Int.natCast_inj, Rs.f64NAN, Rs.f64INFINITY,
          Rs.f64NEG_INFINITY, F64.canonNaN, F64.posInf, F64.negInf, Rs.f64FromBeBytes, l8, hrest 8 l8]
      simp [C.NUMBER_ZERO, C.NUMBER_NAN, C.NUMBER_INF, C.NUMBER_NEG_INF, C.NUMBER_INT, C.NUMBER_UINT,
          C.NUMBER_FLOAT, Res.map, Res.bind, ofNum, Int.natCast_inj, Rs.f64NAN, Rs.f64INFINITY,
          Rs.f64NEG_INFINITY, F64.canonNaN, F64.posInf, F64.negInf, Rs.f64FromBeBytes, l8, c8 l8]
    have hZ' : ¬ ((ty : Int) = (C.NUMBER_ZERO : Int)) := by rw [Int.natCast_inj]; exact hZ
    have hN' : ¬ ((ty : Int) = (C.NUMBER_NAN : Int)) := by rw [Int.natCast_inj]; exact hN
    have hP' : ¬ ((ty : Int) = (C.NUMBER_INF : Int)) := by rw [Int.natCast_inj]; exact hP
    have hM' : ¬ ((ty : Int) = (C.NUMBER_NEG_INF : Int)) := by rw [Int.natCast_inj]; exact hM
    have hI' : ¬ ((ty : Int) = (C.NUMBER_INT : Int)) := by rw [Int.natCast_inj]; exact hI
    have hU' : ¬ ((ty : Int) = (C.NUMBER_UINT : Int)) := by rw [Int.natCast_inj]; exact hU
    have hF' : ¬ ((ty : Int) = (C.NUMBER_FLOAT : Int)) := by rw [Int.natCast_inj]; exact hF
    simp [hZ, hN, hP, hM, hI, hU, hF, hZ', hN', hP', hM', hI', hU', hF', Res.map, Res.bind]

/-! ### integer views -/

theorem as_i64_agrees (n : Num) (h : n.WF) :
    Tr.Number.as_i64 (ofNum n) = .ok (Num.asI64 n) := by
  cases n with
  | int i => simp [ofNum, Tr.Number.as_i64, Num.asI64]
  | uint n =>
    simp only [Num.WF] at h
    have ht : Rs.tryInto .u64 IntTy.i64.maxVal = some 9223372036854775807 := by decide
    simp only [ofNum, Tr.Number.as_i64, Num.asI64, ht, Rs.unwrap_some, Ctl.ofRes_ok, Ctl.val_bind]
    by_cases hc : n ≤ 9223372036854775807
    · have hc' : (n : Int) ≤ 9223372036854775807 := by omega
      have hcast : Rs.cast .i64 (n : Int) = (n : Int) :=
        Rs.cast_of_inRange _ _ (by rw [Rs.inRange_iff]; simp; omega)
      simp [hc, hc', hcast]
    · have hc' : ¬ ((n : Int) ≤ 9223372036854775807) := by omega
      simp [hc, hc']
  | float b => simp [ofNum, Tr.Number.as_i64, Num.asI64]

/-- `as_u64` returns a `u64` value; the model returns the same number as a `Nat` -/
theorem as_u64_agrees (n : Num) (h : n.WF) :
    Tr.Number.as_u64 (ofNum n) = .ok ((Num.asU64 n).map Int.ofNat) := by
  cases n with
  | int i =>
    simp only [Num.WF] at h
    simp only [ofNum, Tr.Number.as_u64, Num.asU64]
    by_cases hc : i ≥ 0
    · have hcast : Rs.cast .u64 i = i := Rs.cast_of_inRange _ _ (by rw [Rs.inRange_iff]; simp; omega)
      simp [hc, hcast]; omega
    · simp [hc]
  | uint n => simp [ofNum, Tr.Number.as_u64, Num.asU64]
  | float b => simp [ofNum, Tr.Number.as_u64, Num.asU64]

end Jsonb.TrAgree
