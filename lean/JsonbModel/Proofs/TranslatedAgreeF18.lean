/-
Phase 5b: the containment family (`Number::eq`, `scalar_eq`, `array_contains`, `contains_jsonb`, `contains`).
F18: `==` on `Number`, `scalar_eq` = `Fn.scalarEq`; a `for` over an iterator whose items can be collected is the `for`
over the collected list (`forIter_of_drain`, also for bodies that `return` / `break`); `array_contains` =
`Fn.arrayContains`.
-/
import JsonbModel.Proofs.TranslatedAgreeF17

set_option linter.unusedSimpArgs false
set_option linter.unusedVariables false

namespace Jsonb.TrAgree
open Jsonb.Rs

theorem number_eq_agrees (a b : Num) (ha : a.WF) (hb : b.WF) :
    Tr.Number.eq (ofNum a) (ofNum b) = .ok (Num.cmp a b == .eq) := by
  unfold Tr.Number.eq
  simp only [cmp_agrees a b ha hb, Ctl.ofRes_ok', Ctl.val_bind', Ctl.run_ret']
  cases Num.cmp a b <;> rfl

/-- `scalar_eq` on two slices -/
theorem scalar_eq_agrees (ty : Nat) (l r : Bytes) (hl : l.length < 9223372036854775808)
    (hr : r.length < 9223372036854775808) :
    Tr.scalar_eq (ty : Int) l r = .ok (Fn.scalarEq ty l r) := by
  unfold Tr.scalar_eq Fn.scalarEq
  simp only [tag_eq]
  simp only [decide_eq_true_eq, Int.natCast_inj]
  by_cases h : ty = C.NUMBER_TAG
  · simp only [if_pos h]
    rw [decode_agrees l (by omega), decode_agrees r (by omega)]
    rcases dec_ok_or_err l with ⟨a, ha⟩ | ⟨e, ha⟩
    · rcases dec_ok_or_err r with ⟨b, hb⟩ | ⟨e, hb⟩
      · simp only [ha, hb, Res.map, Res.bind, Rs.resOpt, Ctl.val_bind',
          number_eq_agrees a b (dec_WF _ _ ha) (dec_WF _ _ hb), Ctl.ofRes_ok', Ctl.run_ret']
      · simp only [ha, hb, Res.map, Res.bind, Rs.resOpt, Ctl.val_bind', Ctl.run_ret']
    · rcases dec_ok_or_err r with ⟨b, hb⟩ | ⟨e', hb⟩
      · simp only [ha, hb, Res.map, Res.bind, Rs.resOpt, Ctl.val_bind', Ctl.run_ret']
      · simp only [ha, hb, Res.map, Res.bind, Rs.resOpt, Ctl.val_bind', Ctl.run_ret']
  · simp only [if_neg h, Ctl.run_ret']
    congr 1
    by_cases hlr : l = r
    · simp [hlr]
    · simp [hlr]

/-! ## iterating = iterating over the collected items -/

/-- a `for` over an iterator that can be drained (within the fuel) is the `for` over the drained list, whatever the
body does (`return`, `break`, `?`) -/
theorem forIter_of_drain {ρ σ ι α : Type} (next : ι → Res (Option α × ι)) (body : α → σ → Ctl ρ (Step σ)) :
    ∀ (n : Nat) (it : ι) (items : List α) (s : σ), drainIter next n it = .ok items →
      Rs.forIter n next it s body = Rs.forIn items s body := by
  intro n
  induction n with
  | zero => intro it items s h; simp [drainIter] at h
  | succ n ih =>
    intro it items s h
    simp only [drainIter] at h
    simp only [Rs.forIter]
    cases hn : next it with
    | ok p =>
      obtain ⟨o, it'⟩ := p
      rw [hn] at h
      cases o with
      | none =>
        simp only [Res.ok.injEq] at h
        subst h
        rfl
      | some x =>
        simp only [] at h ⊢
        cases hd : drainIter next n it' with
        | ok rest =>
          rw [hd] at h
          simp only [Res.ok.injEq] at h
          subst h
          simp only [Rs.forIn]
          cases body x s with
          | val st =>
            cases st with
            | next s' => exact ih it' rest s' hd
            | done s' => rfl
          | ret r => rfl
        | err e => rw [hd] at h; cases h
        | panic p => rw [hd] at h; cases h
        | fuel => rw [hd] at h; cases h
    | err e => rw [hn] at h; cases h
    | panic p => rw [hn] at h; cases h
    | fuel => rw [hn] at h; cases h

/-- collecting an iterator that can be drained -/
theorem collectIter_of_drain {ρ ι α : Type} (next : ι → Res (Option α × ι)) :
    ∀ (n : Nat) (it : ι) (items : List α), drainIter next n it = .ok items →
      (Rs.collectIter n next it : Ctl ρ (List α)) = .val items := by
  intro n
  induction n with
  | zero => intro it items h; simp [drainIter] at h
  | succ n ih =>
    intro it items h
    simp only [drainIter] at h
    simp only [Rs.collectIter]
    cases hn : next it with
    | ok p =>
      obtain ⟨o, it'⟩ := p
      rw [hn] at h
      cases o with
      | none =>
        simp only [Res.ok.injEq] at h
        subst h
        rfl
      | some x =>
        simp only [] at h ⊢
        cases hd : drainIter next n it' with
        | ok rest =>
          rw [hd] at h
          simp only [Res.ok.injEq] at h
          subst h
          rw [ih it' rest hd]
        | err e => rw [hd] at h; cases h
        | panic p => rw [hd] at h; cases h
        | fuel => rw [hd] at h; cases h
    | err e => rw [hn] at h; cases h
    | panic p => rw [hn] at h; cases h
    | fuel => rw [hn] at h; cases h

/-- the items of `iterate_array(value, header)`, when the model can collect them -/
theorem drain_array_ok (value : Bytes) (header fuel : Nat) (items : List (JE × Bytes)) (hf : hdrLen header < fuel)
    (h : iterArray value header = .ok items) :
    drainIter Tr.ArrayIterator.next fuel (arrIt value 4 (4 * hdrLen header + 4) (hdrLen header) 0) =
      .ok (items.map ofItem) := by
  rw [iterate_array_drain_fuel value header fuel hf, h]; rfl

/-- items are slices of the buffer -/
theorem slice_length_le (value : Bytes) (a b : Nat) (x : Bytes) (h : Jsonb.slice value a b = .ok x) :
    x.length ≤ value.length := by
  unfold Jsonb.slice at h
  split at h
  · simp only [Res.ok.injEq] at h; subst h; simp
  · cases h

theorem iterArrayLoop_item_le (value : Bytes) : ∀ (n jo vo : Nat) (items : List (JE × Bytes)),
    iterArrayLoop value n jo vo = .ok items → ∀ x ∈ items, x.2.length ≤ value.length := by
  intro n
  induction n with
  | zero => intro jo vo items h; simp only [iterArrayLoop, Res.ok.injEq] at h; subst h; simp
  | succ n ih =>
    intro jo vo items h
    simp only [iterArrayLoop] at h
    cases hw : readU32At value jo with
    | none => rw [hw] at h; simp only [Res.ok.injEq] at h; subst h; simp
    | some w =>
      rw [hw] at h
      simp only [] at h
      cases hs : Jsonb.slice value vo (vo + jeLen w) with
      | ok item =>
        rw [hs] at h
        simp only [] at h
        cases hr : iterArrayLoop value n (jo + 4) (vo + jeLen w) with
        | ok rest =>
          rw [hr] at h
          simp only [Res.ok.injEq] at h
          subst h
          intro x hx
          simp only [List.mem_cons] at hx
          rcases hx with rfl | hx
          · exact slice_length_le _ _ _ _ hs
          · exact ih _ _ _ hr x hx
        | err e => rw [hr] at h; cases h
        | panic p => rw [hr] at h; cases h
        | fuel => rw [hr] at h; cases h
      | err e => rw [hs] at h; cases h
      | panic p => rw [hs] at h; cases h
      | fuel => rw [hs] at h; cases h

theorem iterArray_item_le (value : Bytes) (header : Nat) (items : List (JE × Bytes))
    (h : iterArray value header = .ok items) : ∀ x ∈ items, x.2.length ≤ value.length :=
  iterArrayLoop_item_le value _ _ _ items h

/-! ## `array_contains` -/

theorem ac_loop1_step (val : Bytes) (vty vlen : Nat) (it : JE × Bytes) (hl : it.2.length < 9223372036854775808)
    (hv : val.length < 9223372036854775808) :
    Tr.array_contains.loop1 val ⟨(vty : Nat), (vlen : Nat)⟩ (ofItem it) () =
      if (it.1.ty == vty && Fn.scalarEq it.1.ty it.2 val) = true then Ctl.ret (.ok true) else Ctl.val (.next ()) := by
  unfold Tr.array_contains.loop1 ofItem ofJE
  dsimp only
  simp only [ne_dec]
  simp only [decide_eq_true_eq]
  by_cases h1 : it.1.ty = vty
  · have h1' : ¬ ¬ it.1.ty = vty := fun c => c h1
    have h1'' : ¬ ¬ vty = it.1.ty := fun c => c h1.symm
    simp only [ne_eq, if_neg h1', if_neg h1'', Ctl.pure_eq', Ctl.val_bind', scalar_eq_agrees it.1.ty it.2 val hl hv, Ctl.ofRes_ok']
    cases hs : Fn.scalarEq it.1.ty it.2 val
    · simp [h1, hs, Rs.loopStep_val']
    · simp [h1, hs, Ctl.ret_bind', Rs.loopStep_ret']
  · have hb : (it.1.ty == vty) = false := by simp [h1]
    have h1s : ¬ vty = it.1.ty := fun c => h1 c.symm
    simp only [ne_eq, if_pos h1, if_pos h1s, Ctl.ret_bind', Rs.loopStep_cont', hb, Bool.false_and, Bool.false_eq_true, if_false]

/-- how `array_contains` leaves its loop -/
def acExit (b : Bool) : Ctl Bool Unit :=
  match b with
  | true => .ret (.ok true)
  | false => .val ()

theorem ac_fold (val : Bytes) (vty vlen : Nat) (hv : val.length < 9223372036854775808) :
    ∀ (items : List (JE × Bytes)), (∀ x ∈ items, x.2.length < 9223372036854775808) →
      Rs.forIn (items.map ofItem) () (Tr.array_contains.loop1 val ⟨(vty : Nat), (vlen : Nat)⟩) =
        acExit (items.any (fun it => it.1.ty == vty && Fn.scalarEq it.1.ty it.2 val)) := by
  intro items
  induction items with
  | nil => intro _; rfl
  | cons it items ih =>
    intro hl
    have hstep := ac_loop1_step val vty vlen it (hl it (by simp)) hv
    rw [List.map_cons, List.any_cons]
    by_cases hc : (it.1.ty == vty && Fn.scalarEq it.1.ty it.2 val) = true
    · rw [if_pos hc] at hstep
      rw [Rs.forIn_ret _ _ _ _ _ hstep, hc]
      rfl
    · rw [if_neg hc] at hstep
      rw [Rs.forIn_next _ _ _ _ _ hstep, ih (fun x hx => hl x (by simp [hx]))]
      have hc' : (it.1.ty == vty && Fn.scalarEq it.1.ty it.2 val) = false := by simpa using hc
      rw [hc', Bool.false_or]

/-- `array_contains` where the model can collect the array -/
theorem array_contains_agrees (fuel : Nat) (arr : Bytes) (hdr : Nat) (val : Bytes) (vty vlen : Nat)
    (items : List (JE × Bytes)) (hi : iterArray arr hdr = .ok items) (hf : hdrLen hdr < fuel)
    (ha : arr.length < 9223372036854775808) (hv : val.length < 9223372036854775808) :
    Tr.array_contains fuel arr (hdr : Int) val ⟨(vty : Nat), (vlen : Nat)⟩ = Fn.arrayContains arr hdr val vty := by
  unfold Tr.array_contains Fn.arrayContains
  rw [iterate_array_agrees]
  simp only [Ctl.ofRes_ok', Ctl.val_bind']
  rw [forIter_of_drain _ _ fuel _ (items.map ofItem) () (drain_array_ok arr hdr fuel items hf hi),
    ac_fold val vty vlen hv items (fun x hx => by have := iterArray_item_le arr hdr items hi x hx; omega), hi]
  simp only [Res.map, Res.bind]
  cases items.any (fun it => it.1.ty == vty && Fn.scalarEq it.1.ty it.2 val) <;> rfl

end Jsonb.TrAgree
