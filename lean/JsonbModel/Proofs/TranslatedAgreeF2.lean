import JsonbModel.Proofs.TranslatedAgreeF1

set_option linter.unusedSimpArgs false
set_option linter.unusedVariables false

namespace Jsonb.TrAgree
open Jsonb.Rs

theorem ne_dec (a b : Nat) : decide (((a : Nat) : Int) ≠ ((b : Nat) : Int)) = decide (a ≠ b) := by
  by_cases h : a = b
  · simp [h]
  · have : ¬ ((a : Int) = (b : Int)) := by omega
    simp [h, this]

theorem compare_scalar_step (g f : Nat) (lj rj : JE) (l r : Bytes)
    (hl : l.length < 9223372036854775808) (hr : r.length < 9223372036854775808)
    (hll : lj.len < 4294967296) (hrl : rj.len < 4294967296)
    (hc : lj.ty = C.CONTAINER_TAG → rj.ty = C.CONTAINER_TAG →
      panicAny (Tr.compare_container g l r) = panicAny (Fn.cmpContainer f l r)) :
    panicAny (Tr.compare_scalar (g + 1) (ofJE lj) l (ofJE rj) r) = panicAny (Fn.cmpScalar (f + 1) lj l rj r) := by
  rw [Tr.compare_scalar, Fn.cmpScalar]
  have hcl : Rs.cast .usize ((lj.len : Nat) : Int) = (lj.len : Int) := Rs.usize_nat _ (by omega)
  have hcr : Rs.cast .usize ((rj.len : Nat) : Int) = (rj.len : Int) := Rs.usize_nat _ (by omega)
  simp only [ofJE, jentry_compare_level_agrees, Ctl.ofRes_ok', Ctl.val_bind', ne_dec, tag_eq, hcl, hcr,
    compare_natCast, decide_eq_true_eq, Bool.and_eq_true]
  simp only [decide_eq_true_eq, Int.natCast_inj, ne_eq]
  by_cases h0 : Fn.level lj.ty = Fn.level rj.ty
  swap
  · have h0s : ¬ Fn.level rj.ty = Fn.level lj.ty := fun c => h0 c.symm
    have hcs : compare (Fn.level rj.ty) (Fn.level lj.ty) = (compare (Fn.level lj.ty) (Fn.level rj.ty)).swap :=
      (Nat.compare_swap _ _).symm
    simp only [if_pos h0, if_pos h0s, Ctl.ret_bind', Ctl.run_ret', ne_eq, not_false_eq_true]
  have h0' : ¬ ¬ Fn.level lj.ty = Fn.level rj.ty := fun c => c h0
  have h0'' : ¬ ¬ Fn.level rj.ty = Fn.level lj.ty := fun c => c h0.symm
  simp only [if_neg h0', if_neg h0'', Ctl.pure_eq', Ctl.val_bind', ne_eq]
  by_cases h1 : lj.ty = C.NULL_TAG ∧ rj.ty = C.NULL_TAG
  · simp only [if_pos h1, Ctl.run_ret']
  simp only [if_neg h1]
  by_cases h2 : lj.ty = C.CONTAINER_TAG ∧ rj.ty = C.CONTAINER_TAG
  · simp only [if_pos h2, Ctl.run_ret']
    exact hc h2.1 h2.2
  simp only [if_neg h2]
  by_cases h3 : lj.ty = C.STRING_TAG ∧ rj.ty = C.STRING_TAG
  · simp only [if_pos h3, sliceTo_nat, slice_zero_model]
    by_cases hle : lj.len ≤ l.length
    · by_cases hre : rj.len ≤ r.length
      · simp only [if_pos hle, if_pos hre, Ctl.ofRes_ok', Ctl.val_bind', Ctl.run_ret', cmpBytes_eq_lexCmp]
      · simp only [if_pos hle, if_neg hre, Ctl.ofRes_ok', Ctl.ofRes_panic', Ctl.val_bind', Ctl.ret_bind', Ctl.run_ret']
        rfl
    · simp only [if_neg hle, Ctl.ofRes_panic', Ctl.ret_bind', Ctl.run_ret']
      rfl
  simp only [if_neg h3]
  by_cases h4 : lj.ty = C.NUMBER_TAG ∧ rj.ty = C.NUMBER_TAG
  · simp only [if_pos h4, sliceTo_nat, slice_zero_model]
    by_cases hle : lj.len ≤ l.length
    · simp only [if_pos hle, Ctl.ofRes_ok', Ctl.val_bind']
      rw [decode_agrees _ (by simp; omega)]
      cases hd : Num.dec (List.take lj.len l) with
      | err e => simp only [Res.map, Res.bind, Ctl.ofRes_err', Ctl.ret_bind', Ctl.run_ret']
      | panic s => simp only [Res.map, Res.bind, Ctl.ofRes_panic', Ctl.ret_bind', Ctl.run_ret']
      | fuel => rfl
      | ok ln =>
        simp only [Res.map, Res.bind, Ctl.ofRes_ok', Ctl.val_bind']
        by_cases hre : rj.len ≤ r.length
        · simp only [if_pos hre, Ctl.ofRes_ok', Ctl.val_bind']
          rw [decode_agrees _ (by simp; omega)]
          cases hd2 : Num.dec (List.take rj.len r) with
          | err e => simp only [Res.map, Res.bind, Ctl.ofRes_err', Ctl.ret_bind', Ctl.run_ret']
          | panic s => simp only [Res.map, Res.bind, Ctl.ofRes_panic', Ctl.ret_bind', Ctl.run_ret']
          | fuel => rfl
          | ok rn =>
            simp only [Res.map, Res.bind, Ctl.ofRes_ok', Ctl.val_bind', cmp_agrees ln rn (dec_WF _ _ hd) (dec_WF _ _ hd2),
              Ctl.run_ret']
        · simp only [if_neg hre, Ctl.ofRes_panic', Ctl.ret_bind', Ctl.run_ret']
          rfl
    · simp only [if_neg hle, Ctl.ofRes_panic', Ctl.ret_bind', Ctl.run_ret']
      rfl
  simp only [if_neg h4]
  by_cases h5 : lj.ty = C.TRUE_TAG ∧ rj.ty = C.TRUE_TAG
  · simp only [if_pos h5, Ctl.run_ret']
  simp only [if_neg h5]
  by_cases h6 : lj.ty = C.FALSE_TAG ∧ rj.ty = C.FALSE_TAG
  · simp only [if_pos h6, Ctl.run_ret']
  simp only [if_neg h6, Ctl.run_ret']

theorem compare_container_step (g f : Nat) (l r : Bytes)
    (ha : ∀ lh rh, readU32At l 0 = some lh → readU32At r 0 = some rh →
      hdrType lh = C.ARRAY_CONTAINER_TAG → hdrType rh = C.ARRAY_CONTAINER_TAG →
      panicAny (Tr.compare_array g (lh : Int) (l.drop 4) (rh : Int) (r.drop 4)) =
        panicAny (Fn.cmpArrayLoop f (l.drop 4) (r.drop 4) (min (hdrLen lh) (hdrLen rh)) 0 (4 * hdrLen lh) (4 * hdrLen rh)
          (compare (hdrLen lh) (hdrLen rh))))
    (ho : ∀ lh rh, readU32At l 0 = some lh → readU32At r 0 = some rh →
      hdrType lh = C.OBJECT_CONTAINER_TAG → hdrType rh = C.OBJECT_CONTAINER_TAG →
      panicAny (Tr.compare_object g (lh : Int) (l.drop 4) (rh : Int) (r.drop 4)) =
        panicAny (Fn.cmpObject f lh (l.drop 4) rh (r.drop 4))) :
    panicAny (Tr.compare_container (g + 1) l r) = panicAny (Fn.cmpContainer (f + 1) l r) := by
  rw [Tr.compare_container, Fn.cmpContainer]
  simp only [read_u32_zero]
  cases hlh : readU32At l 0 with
  | none => simp only [Ctl.ofRes_err', Ctl.ret_bind', Ctl.run_ret']
  | some lh =>
    cases hrh : readU32At r 0 with
    | none => simp only [Ctl.ofRes_ok', Ctl.ofRes_err', Ctl.val_bind', Ctl.ret_bind', Ctl.run_ret']
    | some rh =>
      have h4l := readU32At_some_len _ _ _ hlh
      have h4r := readU32At_some_len _ _ _ hrh
      have h4 : ((4 : Nat) : Int) = 4 := rfl
      simp only [Ctl.ofRes_ok', Ctl.val_bind', hdrType_eq, ← h4,
        sliceFrom_nat l 4 (by omega), sliceFrom_nat r 4 (by omega), sliceFrom_model_ok l 4 (by omega),
        sliceFrom_model_ok r 4 (by omega)]
      simp only [Bool.and_eq_true, decide_eq_true_eq]
      by_cases h1 : hdrType lh = C.ARRAY_CONTAINER_TAG ∧ hdrType rh = C.ARRAY_CONTAINER_TAG
      · simp only [if_pos h1, Ctl.run_ret']
        exact ha lh rh hlh hrh h1.1 h1.2
      simp only [if_neg h1]
      by_cases h2 : hdrType lh = C.OBJECT_CONTAINER_TAG ∧ hdrType rh = C.OBJECT_CONTAINER_TAG
      · simp only [if_pos h2, Ctl.run_ret']
        exact ho lh rh hlh hrh h2.1 h2.2
      simp only [if_neg h2]
      by_cases h3 : hdrType lh = C.ARRAY_CONTAINER_TAG ∧ hdrType rh = C.OBJECT_CONTAINER_TAG
      · simp only [if_pos h3, Ctl.run_ret']
      simp only [if_neg h3]
      by_cases h5 : hdrType lh = C.OBJECT_CONTAINER_TAG ∧ hdrType rh = C.ARRAY_CONTAINER_TAG
      · simp only [if_pos h5, Ctl.run_ret']
      simp only [if_neg h5, Ctl.run_ret']

end Jsonb.TrAgree
