/-
C06 refinement, part 4 (recursive editors): `strip_nulls` — the nested builders the byte-level
recursion assembles are exactly the builders of the stripped tree, and what they write is the
canonical encoding of `Spec.stripNulls`.
-/
import JsonbModel.Proofs.SetRefine2

namespace Jsonb
open JV

/-! ### `bInsert` on increasing keys appends -/

def BLt (m : List (Bytes × BEntry)) (k : Bytes) : Prop := ∀ kv ∈ m, lexCmp kv.1 k = .lt

theorem bInsert_append (m : List (Bytes × BEntry)) (k : Bytes) (e : BEntry) (h : BLt m k) :
    bInsert k e m = m ++ [(k, e)] := by
  induction m with
  | nil => rfl
  | cons kv m ih =>
    obtain ⟨k', e'⟩ := kv
    have h1 : lexCmp k' k = .lt := h (k', e') (by simp)
    have h2 := lexCmp_gt_of_lt h1
    simp only [bInsert, h2, List.cons_append]
    rw [ih (fun kv hkv => h kv (by simp [hkv]))]

def KeysInc (ks : List Bytes) : Prop := ks.Pairwise (fun a b => lexCmp a b = .lt)

theorem pushAll_inc (pre l : List (Bytes × BEntry)) (hs : KeysInc (l.map (·.1)))
    (hp : ∀ kv ∈ l, BLt pre kv.1) : Fn.pushAll pre l = pre ++ l := by
  induction l generalizing pre with
  | nil => simp [Fn.pushAll]
  | cons kv l ih =>
    obtain ⟨k, e⟩ := kv
    simp only [Fn.pushAll, List.foldl_cons]
    rw [bInsert_append pre k e (hp (k, e) (by simp))]
    simp only [KeysInc, List.map_cons, List.pairwise_cons] at hs
    have := ih (pre ++ [(k, e)]) hs.2 (by
      intro kv hkv kv' hkv'
      simp only [List.mem_append, List.mem_singleton] at hkv'
      rcases hkv' with h1 | h1
      · exact hp kv (by simp [hkv]) kv' h1
      · subst h1; exact hs.1 kv.1 (List.mem_map_of_mem hkv))
    simp only [Fn.pushAll] at this
    rw [this]; simp

theorem keysSorted_iff_inc (kvs : List (Bytes × JV)) : keysSorted kvs = true ↔ KeysInc (kvs.map (·.1)) := by
  rw [keysSorted_iff_pairwise, KeysInc, List.pairwise_map]; rfl

/-! ### the nested builder of a value under `strip_nulls` -/

def isNull : JV → Bool
  | null => true
  | _ => false

mutual
/-- the builder entry `strip_nulls` makes of a stored value -/
def sb : JV → BEntry
  | arr vs => .arr (sbL vs)
  | obj kvs => .obj (sbK kvs)
  | null => .raw C.NULL_TAG 0 []
  | .bool b => .raw (ety (.bool b)) (elen (.bool b)) (entry (.bool b)).2
  | num n => .raw (ety (num n)) (elen (num n)) (entry (num n)).2
  | str s => .raw (ety (str s)) (elen (str s)) (entry (str s)).2
def sbL : List JV → List BEntry
  | [] => []
  | v :: vs => sb v :: sbL vs
def sbK : List (Bytes × JV) → List (Bytes × BEntry)
  | [] => []
  | (k, v) :: kvs => if isNull v then sbK kvs else (k, sb v) :: sbK kvs
end

theorem sb_scalar (v : JV) (hs : Spec.isScalar v = true) : sb v = rawItem v := by
  cases v <;> first | rfl | simp [Spec.isScalar] at hs

theorem sbK_keys_sublist (kvs : List (Bytes × JV)) : ((sbK kvs).map (·.1)).Sublist (kvs.map (·.1)) := by
  induction kvs with
  | nil => simp [sbK]
  | cons kv kvs ih =>
    obtain ⟨k, v⟩ := kv
    simp only [sbK]
    split
    · exact List.Sublist.cons _ ih
    · simp only [List.map_cons]; exact List.Sublist.cons_cons _ ih

theorem pushAll_sbK (kvs : List (Bytes × JV)) (hs : keysSorted kvs = true) :
    Fn.pushAll [] (sbK kvs) = sbK kvs := by
  have h1 : KeysInc ((sbK kvs).map (·.1)) :=
    List.Pairwise.sublist (sbK_keys_sublist kvs) ((keysSorted_iff_inc kvs).mp hs)
  have := pushAll_inc [] (sbK kvs) h1 (by intro kv _ kv' h; simp at h)
  simpa using this

/-! ### the byte-level recursion computes `sb` -/

/-- what `strip_nulls_array` / `strip_nulls_object` do with one stored value -/
def stripVal (fuel : Nat) (v : JV) : Res BEntry :=
  match v with
  | arr vs => (Fn.stripArray fuel (C.ARRAY_CONTAINER_TAG + vs.length) (entry (arr vs)).2).map BEntry.arr
  | obj kvs => (Fn.stripObject fuel (C.OBJECT_CONTAINER_TAG + kvs.length) (entry (obj kvs)).2).map BEntry.obj
  | v => .ok (rawItem v)

theorem ety_container_iff (v : JV) : ety v = C.CONTAINER_TAG ↔ Spec.isScalar v = false := by
  cases v with
  | bool b => cases b <;> simp [ety, Spec.isScalar] <;> decide
  | null => simp [ety, Spec.isScalar]; decide
  | num n => simp [ety, Spec.isScalar]; decide
  | str s => simp [ety, Spec.isScalar]; decide
  | arr vs => simp [ety, Spec.isScalar]
  | obj kvs => simp [ety, Spec.isScalar]

theorem ety_null_iff (v : JV) : ety v = C.NULL_TAG ↔ isNull v = true := by
  cases v with
  | bool b => cases b <;> simp [ety, isNull] <;> decide
  | null => simp [ety, isNull]
  | num n => simp [ety, isNull]; decide
  | str s => simp [ety, isNull]; decide
  | arr vs => simp [ety, isNull]; decide
  | obj kvs => simp [ety, isNull]; decide

mutual
theorem stripVal_ok : (v : JV) → good v = true → (fuel : Nat) → szS v ≤ fuel + 1 →
    stripVal fuel v = .ok (sb v)
  | .null, _, _, _ => rfl
  | .bool _, _, _, _ => rfl
  | .num _, _, _, _ => rfl
  | .str _, _, _, _ => rfl
  | .arr vs, hg, fuel, hf => by
    simp only [good, Bool.and_eq_true, decide_eq_true_eq] at hg
    simp only [szS] at hf
    have := szL_pos vs
    match fuel, hf with
    | 0, hf => omega
    | f + 1, hf =>
      have ih := stripItems_ok vs hg.2 f (by omega)
      have hit := iterArray_doc vs hg.1.1 hg.2
      simp only [encodeSpec] at hit
      simp only [stripVal, Fn.stripArray, hit, ih, Res.map, Res.bind, sb]
  | .obj kvs, hg, fuel, hf => by
    simp only [good, Bool.and_eq_true, decide_eq_true_eq] at hg
    simp only [szS] at hf
    have := szK_pos kvs
    match fuel, hf with
    | 0, hf => omega
    | f + 1, hf =>
      have ih := stripMembers_ok kvs hg.2 f [] (by omega)
      have hit := iterObjEntries_doc kvs hg.1.1.1 hg.2
      simp only [encodeSpec] at hit
      simp only [stripVal, Fn.stripObject, hit, ih, Res.map, Res.bind, sb, pushAll_sbK kvs hg.1.2]
theorem stripItems_ok : (vs : List JV) → goodL vs = true → (fuel : Nat) → szL vs ≤ fuel →
    Fn.stripItems fuel (vs.map itemOf) = .ok (sbL vs)
  | [], _, fuel, hf => by
    simp only [szL] at hf
    match fuel, hf with
    | 0, hf => omega
    | f + 1, _ => simp [Fn.stripItems, sbL]
  | v :: vs, hg, fuel, hf => by
    simp only [goodL, Bool.and_eq_true] at hg
    simp only [szL] at hf
    match fuel, hf with
    | 0, hf => omega
    | f + 1, hf =>
      have h1 := stripVal_ok v hg.1 f (by omega)
      have h2 := stripItems_ok vs hg.2 f (by omega)
      have hgt := goodTop_of_good v hg.1
      cases hs : Spec.isScalar v with
      | true =>
        have hc : ¬ ety v = C.CONTAINER_TAG := by rw [ety_container_iff, hs]; simp
        simp only [List.map_cons, itemOf, Fn.stripItems, hc, if_false, h2, Res.map, Res.bind, sbL]
        rw [sb_scalar v hs]; rfl
      | false =>
        have hc : ety v = C.CONTAINER_TAG := (ety_container_iff v).mpr hs
        have hitem : (entry v).2 = encodeSpec v := by rw [encodeSpec_container v hs]
        simp only [List.map_cons, itemOf, Fn.stripItems, hc, if_true, hitem, readHdr v hgt,
          hdrType_hdrOf v hgt, h2, sbL]
        cases v with
        | arr ws =>
          simp only [stripVal, Res.map, Res.bind] at h1
          simp only [kindOf, hdrOf, encodeSpec, ne_arr_obj, if_false, if_true, Res.map, Res.bind]
          rw [h1]
        | obj ms =>
          simp only [stripVal, Res.map, Res.bind] at h1
          simp only [kindOf, hdrOf, encodeSpec, if_true, Res.map, Res.bind]
          rw [h1]
        | null => simp [Spec.isScalar] at hs
        | bool b => simp [Spec.isScalar] at hs
        | num n => simp [Spec.isScalar] at hs
        | str s => simp [Spec.isScalar] at hs
theorem stripMembers_ok : (kvs : List (Bytes × JV)) → goodK kvs = true → (fuel : Nat) →
    (acc : List (Bytes × BEntry)) → szK kvs ≤ fuel →
    Fn.stripMembers fuel (kvs.map memberOf) acc = .ok (Fn.pushAll acc (sbK kvs))
  | [], _, fuel, acc, hf => by
    simp only [szK] at hf
    match fuel, hf with
    | 0, hf => omega
    | f + 1, _ => simp [Fn.stripMembers, sbK, Fn.pushAll]
  | (k, v) :: kvs, hg, fuel, acc, hf => by
    simp only [goodK, Bool.and_eq_true] at hg
    simp only [szK] at hf
    match fuel, hf with
    | 0, hf => omega
    | f + 1, hf =>
      have h1 := stripVal_ok v hg.1.2 f (by omega)
      have hgt := goodTop_of_good v hg.1.2
      cases hs : Spec.isScalar v with
      | true =>
        have hc : ¬ ety v = C.CONTAINER_TAG := by rw [ety_container_iff, hs]; simp
        by_cases hn : isNull v = true
        · have hn' : ety v = C.NULL_TAG := (ety_null_iff v).mpr hn
          have h2 := stripMembers_ok kvs hg.2 f acc (by omega)
          have hc' : ¬ C.NULL_TAG = C.CONTAINER_TAG := by decide
          simp only [List.map_cons, memberOf, Fn.stripMembers, hn', hc', if_false, if_true, h2, sbK, hn]
        · have hn' : ¬ ety v = C.NULL_TAG := fun h => hn ((ety_null_iff v).mp h)
          have h2 := stripMembers_ok kvs hg.2 f (bInsert k (.raw (ety v) (elen v) (entry v).2) acc) (by omega)
          simp only [Bool.not_eq_true] at hn
          simp only [List.map_cons, memberOf, Fn.stripMembers, hc, if_false, hn', h2, sbK, hn,
            Bool.false_eq_true, Fn.pushAll, List.foldl_cons]
          rw [sb_scalar v hs]; rfl
      | false =>
        have hc : ety v = C.CONTAINER_TAG := (ety_container_iff v).mpr hs
        have hnn : isNull v = false := by
          cases v <;> first | rfl | simp [Spec.isScalar] at hs
        have hitem : (entry v).2 = encodeSpec v := by rw [encodeSpec_container v hs]
        simp only [List.map_cons, memberOf, Fn.stripMembers, hc, if_true, hitem, readHdr v hgt,
          hdrType_hdrOf v hgt, sbK, hnn, Bool.false_eq_true, if_false, Fn.pushAll, List.foldl_cons]
        cases v with
        | arr vs =>
          simp only [stripVal, Res.map, Res.bind] at h1
          simp only [kindOf, hdrOf, encodeSpec, ne_arr_obj, if_false, if_true]
          cases hr : Fn.stripArray f (C.ARRAY_CONTAINER_TAG + vs.length) (entry (arr vs)).2 with
          | ok es =>
            rw [hr] at h1
            simp only [Res.ok.injEq] at h1
            have h2 := stripMembers_ok kvs hg.2 f (bInsert k (.arr es) acc) (by omega)
            rw [← h1]; exact h2
          | err e => rw [hr] at h1; simp at h1
          | panic s => rw [hr] at h1; simp at h1
          | fuel => rw [hr] at h1; simp at h1
        | obj ms =>
          simp only [stripVal, Res.map, Res.bind] at h1
          simp only [kindOf, hdrOf, encodeSpec, if_true]
          cases hr : Fn.stripObject f (C.OBJECT_CONTAINER_TAG + ms.length) (entry (obj ms)).2 with
          | ok es =>
            rw [hr] at h1
            simp only [Res.ok.injEq] at h1
            have h2 := stripMembers_ok kvs hg.2 f (bInsert k (.obj es) acc) (by omega)
            rw [← h1]; exact h2
          | err e => rw [hr] at h1; simp at h1
          | panic s => rw [hr] at h1; simp at h1
          | fuel => rw [hr] at h1; simp at h1
        | null => simp [Spec.isScalar] at hs
        | bool b => simp [Spec.isScalar] at hs
        | num n => simp [Spec.isScalar] at hs
        | str s => simp [Spec.isScalar] at hs
end

/-! ### what the nested builders write: the canonical encoding of the stripped tree -/

theorem stripNullsK_cons (k : Bytes) (v : JV) (kvs : List (Bytes × JV)) :
    Spec.stripNullsK ((k, v) :: kvs)
      = if isNull v then Spec.stripNullsK kvs else (k, Spec.stripNulls v) :: Spec.stripNullsK kvs := by
  cases v <;> simp [Spec.stripNullsK, isNull]

theorem jentryWord_entry (v : JV) (hg : good v = true) : jentryWord (ety v) (elen v) = (entry v).1 := by
  have hl := elen_lt_of_good v hg
  have := lor_eq_add_entry v hl
  rwa [Nat.mod_eq_of_lt (by omega)] at this

mutual
theorem sb_bspec : (v : JV) → good (Spec.stripNulls v) = true →
    bspec (sb v) = (ety (Spec.stripNulls v), elen (Spec.stripNulls v), (entry (Spec.stripNulls v)).2)
  | .null, _ => rfl
  | .bool _, _ => rfl
  | .num _, _ => rfl
  | .str _, _ => rfl
  | .arr vs, hg => by
    simp only [Spec.stripNulls] at hg ⊢
    have hl := elen_lt_of_good _ hg
    simp only [good, Bool.and_eq_true, decide_eq_true_eq] at hg
    obtain ⟨h1, h2, h3, h4⟩ := sbL_bspec vs hg.2
    have hw : headerWord C.ARRAY_CONTAINER_TAG (Spec.stripNullsL vs).length
        = C.ARRAY_CONTAINER_TAG + (Spec.stripNullsL vs).length := by
      rw [tag_arr']; exact headerWord_eq 4 _ hg.1.1
    simp only [sb, bspec, h1, h2, h3, h4, hw, ety]
    have e : elen (arr (Spec.stripNullsL vs)) = 4 + (Spec.stripNullsL vs).length * 4 + (paysL (Spec.stripNullsL vs)).length := by
      simp only [elen, entry, List.length_append, u32be_length, wordsL_length']; omega
    rw [← e, Nat.mod_eq_of_lt (by omega)]
    simp only [entry]
  | .obj kvs, hg => by
    simp only [Spec.stripNulls] at hg ⊢
    have hl := elen_lt_of_good _ hg
    simp only [good, Bool.and_eq_true, decide_eq_true_eq] at hg
    obtain ⟨h1, h2, h3, h4, h5, h6⟩ := sbK_bspec kvs hg.2
    have hw : headerWord C.OBJECT_CONTAINER_TAG (Spec.stripNullsK kvs).length
        = C.OBJECT_CONTAINER_TAG + (Spec.stripNullsK kvs).length := by
      rw [tag_obj']; exact headerWord_eq 2 _ hg.1.1.1
    simp only [sb, bspec, h1, h2, h3, h4, h5, h6, hw, ety]
    have e : elen (obj (Spec.stripNullsK kvs)) = 4 + (Spec.stripNullsK kvs).length * 8
        + (keyBytes (Spec.stripNullsK kvs)).length + (paysK (Spec.stripNullsK kvs)).length := by
      simp only [elen, entry, List.length_append, u32be_length, wordsK_length', keyWords_length']; omega
    rw [← e, Nat.mod_eq_of_lt (by omega)]
    simp only [entry]
theorem sbL_bspec : (vs : List JV) → goodL (Spec.stripNullsL vs) = true →
    bwordsL (sbL vs) = wordsL (Spec.stripNullsL vs) ∧ bpaysL (sbL vs) = paysL (Spec.stripNullsL vs)
      ∧ bsizeL (sbL vs) = (paysL (Spec.stripNullsL vs)).length
      ∧ (sbL vs).length = (Spec.stripNullsL vs).length
  | [], _ => ⟨rfl, rfl, rfl, rfl⟩
  | v :: vs, hg => by
    simp only [Spec.stripNullsL, goodL, Bool.and_eq_true] at hg
    have hv := sb_bspec v hg.1
    obtain ⟨h1, h2, h3, h4⟩ := sbL_bspec vs hg.2
    have hl := elen_lt_of_good _ hg.1
    simp only [sbL, bwordsL, bpaysL, bsizeL, Spec.stripNullsL, wordsL, paysL, hv, h1, h2, h3, h4,
      jentryWord_entry _ hg.1, List.length_cons, List.length_append]
    refine ⟨trivial, trivial, ?_, trivial⟩
    rw [Nat.mod_eq_of_lt (by omega)]; rfl
theorem sbK_bspec : (kvs : List (Bytes × JV)) → goodK (Spec.stripNullsK kvs) = true →
    bkeyWords (sbK kvs) = keyWords (Spec.stripNullsK kvs) ∧ bwordsK (sbK kvs) = wordsK (Spec.stripNullsK kvs)
      ∧ bkeyBytes (sbK kvs) = keyBytes (Spec.stripNullsK kvs) ∧ bpaysK (sbK kvs) = paysK (Spec.stripNullsK kvs)
      ∧ bsizeK (sbK kvs) = (paysK (Spec.stripNullsK kvs)).length
      ∧ (sbK kvs).length = (Spec.stripNullsK kvs).length
  | [], _ => ⟨rfl, rfl, rfl, rfl, rfl, rfl⟩
  | (k, v) :: kvs, hg => by
    rw [stripNullsK_cons] at hg ⊢
    simp only [sbK]
    cases hn : isNull v with
    | true =>
      simp only [hn, if_true] at hg ⊢
      exact sbK_bspec kvs hg
    | false =>
      simp only [hn, Bool.false_eq_true, if_false, goodK, Bool.and_eq_true, decide_eq_true_eq] at hg ⊢
      have hv := sb_bspec v hg.1.2
      obtain ⟨h1, h2, h3, h4, h5, h6⟩ := sbK_bspec kvs hg.2
      have hl := elen_lt_of_good _ hg.1.2
      simp only [bkeyWords, bwordsK, bkeyBytes, bpaysK, bsizeK, keyWords, wordsK, keyBytes, paysK, hv,
        h1, h2, h3, h4, h5, h6, jentryWord_entry _ hg.1.2, jentryWord_key k hg.1.1.1, List.length_cons,
        List.length_append]
      refine ⟨trivial, trivial, trivial, trivial, ?_, trivial⟩
      rw [Nat.mod_eq_of_lt (by omega)]; rfl
end

/-! ### top level -/

theorem stripArray_top (vs : List JV) (hn : vs.length < 536870912) (hg : goodL vs = true)
    (fuel : Nat) (hf : 1 + szL vs ≤ fuel) :
    Fn.stripArray fuel (C.ARRAY_CONTAINER_TAG + vs.length) (encodeSpec (arr vs)) = .ok (sbL vs) := by
  match fuel, hf with
  | 0, hf => omega
  | f + 1, hf =>
    simp only [Fn.stripArray, iterArray_doc vs hn hg, stripItems_ok vs hg f (by omega)]

theorem stripObject_top (kvs : List (Bytes × JV)) (hn : kvs.length < 536870912) (hs : keysSorted kvs = true)
    (hg : goodK kvs = true) (fuel : Nat) (hf : 1 + szK kvs ≤ fuel) :
    Fn.stripObject fuel (C.OBJECT_CONTAINER_TAG + kvs.length) (encodeSpec (obj kvs)) = .ok (sbK kvs) := by
  match fuel, hf with
  | 0, hf => omega
  | f + 1, hf =>
    simp only [Fn.stripObject, iterObjEntries_doc kvs hn hg, stripMembers_ok kvs hg f [] (by omega),
      pushAll_sbK kvs hs]

/-- **strip_nulls** (recursive; nested builders), assuming the stripped document is within the
format's field widths (it is: see `goodTop_stripNulls`) -/
theorem stripNulls_refines' (v : JV) (hg : goodTop v = true) (hres : goodTop (Spec.stripNulls v) = true)
    (buf : Bytes) :
    Fn.stripNulls (encodeSpec v) buf = .ok (buf ++ encodeSpec (Spec.stripNulls v)) := by
  cases hs : Spec.isScalar v with
  | true =>
    have hk := hdrType_hdrOf v hg
    rw [kindOf_scalar v hs] at hk
    have hsp : Spec.stripNulls v = v := by
      cases v <;> first | rfl | simp [Spec.isScalar] at hs
    simp only [Fn.stripNulls, readHdr v hg, hk, hsp]
    rw [if_neg ne_sca_obj, if_neg ne_sca_arr]
  | false =>
    cases v with
    | arr vs =>
      simp only [goodTop, Bool.and_eq_true, decide_eq_true_eq] at hg
      simp only [Spec.stripNulls, goodTop, Bool.and_eq_true, decide_eq_true_eq] at hres
      have hdr := readHdr (arr vs) (by simp [goodTop, hg.1, hg.2])
      simp only [hdrOf] at hdr
      have hfuel : 1 + szL vs ≤ 2 * (encodeSpec (arr vs)).length + 4 := by
        have := szL_le vs
        simp only [encodeSpec, entry, List.length_append, u32be_length, wordsL_length']; omega
      simp only [Fn.stripNulls, hdr, hdrType_arr _ hg.1, ne_arr_obj, if_false, if_true,
        stripArray_top vs hg.1 hg.2 _ hfuel, buildArrayInto_spec, Spec.stripNulls]
      obtain ⟨h1, h2, h3, h4⟩ := sbL_bspec vs hres.2
      have hw : headerWord C.ARRAY_CONTAINER_TAG (Spec.stripNullsL vs).length
          = C.ARRAY_CONTAINER_TAG + (Spec.stripNullsL vs).length := by
        rw [tag_arr']; exact headerWord_eq 4 _ hres.1
      simp only [bspec, h1, h2, h4, hw, encodeSpec, entry]
    | obj kvs =>
      simp only [goodTop, Bool.and_eq_true, decide_eq_true_eq] at hg
      simp only [Spec.stripNulls, goodTop, Bool.and_eq_true, decide_eq_true_eq] at hres
      have hdr := readHdr (obj kvs) (by simp [goodTop, hg.1.1, hg.1.2, hg.2])
      simp only [hdrOf] at hdr
      have hfuel : 1 + szK kvs ≤ 2 * (encodeSpec (obj kvs)).length + 4 := by
        have := szK_le kvs
        simp only [encodeSpec, entry, List.length_append, u32be_length, wordsK_length', keyWords_length']; omega
      simp only [Fn.stripNulls, hdr, hdrType_obj _ hg.1.1, if_true,
        stripObject_top kvs hg.1.1 hg.1.2 hg.2 _ hfuel, buildObjectInto_spec, Spec.stripNulls]
      obtain ⟨h1, h2, h3, h4, h5, h6⟩ := sbK_bspec kvs hres.2
      have hw : headerWord C.OBJECT_CONTAINER_TAG (Spec.stripNullsK kvs).length
          = C.OBJECT_CONTAINER_TAG + (Spec.stripNullsK kvs).length := by
        rw [tag_obj']; exact headerWord_eq 2 _ hres.1.1
      simp only [bspec, h1, h2, h3, h4, h6, hw, encodeSpec, entry]
    | null => simp [Spec.isScalar] at hs
    | bool b => simp [Spec.isScalar] at hs
    | num n => simp [Spec.isScalar] at hs
    | str s => simp [Spec.isScalar] at hs

/-! ### stripping only shrinks: the result of `strip_nulls` on a good document is good -/

theorem elen_arr (vs : List JV) : elen (arr vs) = 4 + vs.length * 4 + (paysL vs).length := by
  simp only [elen, entry, List.length_append, u32be_length, wordsL_length']; omega
theorem elen_obj (kvs : List (Bytes × JV)) :
    elen (obj kvs) = 4 + kvs.length * 8 + (keyBytes kvs).length + (paysK kvs).length := by
  simp only [elen, entry, List.length_append, u32be_length, wordsK_length', keyWords_length']; omega

mutual
theorem strip_le : (v : JV) → elen (Spec.stripNulls v) ≤ elen v
  | .null => Nat.le_refl _
  | .bool _ => Nat.le_refl _
  | .num _ => Nat.le_refl _
  | .str _ => Nat.le_refl _
  | .arr vs => by
    have ⟨h1, h2⟩ := stripL_le vs
    simp only [Spec.stripNulls, elen_arr, h2]; omega
  | .obj kvs => by
    have ⟨h1, h2, h3⟩ := stripK_le kvs
    simp only [Spec.stripNulls, elen_obj]; omega
theorem stripL_le : (vs : List JV) →
    (paysL (Spec.stripNullsL vs)).length ≤ (paysL vs).length ∧ (Spec.stripNullsL vs).length = vs.length
  | [] => ⟨Nat.le_refl _, rfl⟩
  | v :: vs => by
    have h0 := strip_le v
    have ⟨h1, h2⟩ := stripL_le vs
    simp only [elen] at h0
    simp only [Spec.stripNullsL, paysL, List.length_append, List.length_cons, h2]
    exact ⟨by omega, trivial⟩
theorem stripK_le : (kvs : List (Bytes × JV)) →
    (paysK (Spec.stripNullsK kvs)).length ≤ (paysK kvs).length
      ∧ (keyBytes (Spec.stripNullsK kvs)).length ≤ (keyBytes kvs).length
      ∧ (Spec.stripNullsK kvs).length ≤ kvs.length
  | [] => ⟨Nat.le_refl _, Nat.le_refl _, Nat.le_refl _⟩
  | (k, v) :: kvs => by
    have h0 := strip_le v
    have ⟨h1, h2, h3⟩ := stripK_le kvs
    simp only [elen] at h0
    rw [stripNullsK_cons]
    cases hn : isNull v with
    | true =>
      simp only [if_true, paysK, keyBytes, List.length_append, List.length_cons]
      omega
    | false =>
      simp only [Bool.false_eq_true, if_false, paysK, keyBytes, List.length_append, List.length_cons]
      omega
end

theorem stripK_keys_sublist (kvs : List (Bytes × JV)) :
    ((Spec.stripNullsK kvs).map (·.1)).Sublist (kvs.map (·.1)) := by
  induction kvs with
  | nil => simp [Spec.stripNullsK]
  | cons kv kvs ih =>
    obtain ⟨k, v⟩ := kv
    rw [stripNullsK_cons]
    split
    · exact List.Sublist.cons _ ih
    · simp only [List.map_cons]; exact List.Sublist.cons_cons _ ih

theorem stripK_sorted (kvs : List (Bytes × JV)) (hs : keysSorted kvs = true) :
    keysSorted (Spec.stripNullsK kvs) = true :=
  (keysSorted_iff_inc _).mpr (List.Pairwise.sublist (stripK_keys_sublist kvs) ((keysSorted_iff_inc kvs).mp hs))

mutual
theorem good_strip : (v : JV) → good v = true → good (Spec.stripNulls v) = true
  | .null, h => h
  | .bool _, h => h
  | .num _, h => h
  | .str _, h => h
  | .arr vs, hg => by
    have hle := strip_le (arr vs)
    have ⟨_, h2⟩ := stripL_le vs
    simp only [good, Bool.and_eq_true, decide_eq_true_eq] at hg
    have ih := goodL_strip vs hg.2
    simp only [Spec.stripNulls, elen] at hle
    simp only [Spec.stripNulls, good, Bool.and_eq_true, decide_eq_true_eq, h2]
    exact ⟨⟨hg.1.1, by omega⟩, ih⟩
  | .obj kvs, hg => by
    have hle := strip_le (obj kvs)
    have ⟨_, _, h3⟩ := stripK_le kvs
    simp only [good, Bool.and_eq_true, decide_eq_true_eq] at hg
    have ih := goodK_strip kvs hg.2
    simp only [Spec.stripNulls, elen] at hle
    simp only [Spec.stripNulls, good, Bool.and_eq_true, decide_eq_true_eq]
    exact ⟨⟨⟨by omega, by omega⟩, stripK_sorted kvs hg.1.2⟩, ih⟩
theorem goodL_strip : (vs : List JV) → goodL vs = true → goodL (Spec.stripNullsL vs) = true
  | [], _ => rfl
  | v :: vs, hg => by
    simp only [goodL, Bool.and_eq_true] at hg
    simp only [Spec.stripNullsL, goodL, Bool.and_eq_true]
    exact ⟨good_strip v hg.1, goodL_strip vs hg.2⟩
theorem goodK_strip : (kvs : List (Bytes × JV)) → goodK kvs = true → goodK (Spec.stripNullsK kvs) = true
  | [], _ => rfl
  | (k, v) :: kvs, hg => by
    simp only [goodK, Bool.and_eq_true] at hg
    rw [stripNullsK_cons]
    cases hn : isNull v with
    | true => simp only [if_true]; exact goodK_strip kvs hg.2
    | false =>
      simp only [Bool.false_eq_true, if_false, goodK, Bool.and_eq_true]
      exact ⟨⟨hg.1.1, good_strip v hg.1.2⟩, goodK_strip kvs hg.2⟩
end

theorem goodTop_stripNulls (v : JV) (hg : goodTop v = true) : goodTop (Spec.stripNulls v) = true := by
  cases v with
  | arr vs =>
    simp only [goodTop, Bool.and_eq_true, decide_eq_true_eq] at hg
    simp only [Spec.stripNulls, goodTop, Bool.and_eq_true, decide_eq_true_eq, (stripL_le vs).2]
    exact ⟨hg.1, goodL_strip vs hg.2⟩
  | obj kvs =>
    simp only [goodTop, Bool.and_eq_true, decide_eq_true_eq] at hg
    have := (stripK_le kvs).2.2
    simp only [Spec.stripNulls, goodTop, Bool.and_eq_true, decide_eq_true_eq]
    exact ⟨⟨by omega, stripK_sorted kvs hg.1.2⟩, goodK_strip kvs hg.2⟩
  | null => exact hg
  | bool b => exact hg
  | num n => exact hg
  | str s => exact hg

/-- **strip_nulls**: for every good document and every prior buffer, the recursive byte-level
editor appends exactly the canonical encoding of the stripped tree -/
theorem stripNulls_refines (v : JV) (hg : goodTop v = true) (buf : Bytes) :
    Fn.stripNulls (encodeSpec v) buf = .ok (buf ++ encodeSpec (Spec.stripNulls v)) :=
  stripNulls_refines' v hg (goodTop_stripNulls v hg) buf

end Jsonb
