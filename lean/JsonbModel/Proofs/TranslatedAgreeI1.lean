/-
Phase 6c: the renderer of functions.rs (`PrettyOpts::generate_indent`, `container_to_string`, `scalar_to_string`,
`to_string`, `to_pretty_string`), translated from source by tools/rs2lean6c.py (Generated/Translated6c.lean), against
`Fn.containerToString` / `Fn.scalarToString` / `Fn.arrayItems` / `Fn.objectItems` / `Fn.toStringDoc` of
Functions/ToString.lean and `T.toStringFn` of Functions/Text2.lean.
I1: `generate_indent`, the precondition `StringsOK` (every string payload and every key the renderer visits lies
inside the buffer and is well-formed UTF-8: the source renders a string with `from_utf8_lossy` and never slices an
empty one, the model escapes the sliced bytes as they are), one unfolding of `scalar_to_string`.
-/
import JsonbModel.Generated.Translated6c
import JsonbModel.Functions.ToString
import JsonbModel.Functions.Text2
import JsonbModel.Proofs.TranslatedAgree
import JsonbModel.Proofs.TranslatedAgreeB
import JsonbModel.Proofs.TranslatedAgreeC
import JsonbModel.Proofs.TranslatedAgreeD
import JsonbModel.Proofs.TranslatedAgreeF

set_option linter.unusedSimpArgs false
set_option linter.unusedVariables false

namespace Jsonb.TrAgree
open Jsonb.Rs

/-! ## `PrettyOpts::generate_indent` -/

theorem validUtf8_spaces : ∀ n : Nat, validUtf8 (List.replicate n (0x20 : UInt8)) = true
  | 0 => by unfold validUtf8; rfl
  | n+1 => by
    have h : ((0x20 : UInt8) < 0x80) := by decide
    rw [List.replicate_succ]
    unfold validUtf8
    rw [if_pos h]
    exact validUtf8_spaces n

/-- `String::from_utf8(vec![0x20; self.indent]).unwrap()` is the model's `spaces indent` -/
theorem generate_indent_agrees (enabled : Bool) (indent : Nat) (h : indent < 9223372036854775808) :
    Tr.PrettyOpts.generate_indent ⟨enabled, (indent : Int)⟩ = .ok (Fn.spaces indent) := by
  have h1 : ((indent : Nat) : Int) ≤ IntTy.isize.maxVal := by
    have : IntTy.isize.maxVal = 9223372036854775807 := rfl
    omega
  have h2 : Rs.u8 (32 : Int) = (0x20 : UInt8) := by decide
  simp only [Tr.PrettyOpts.generate_indent, Rs.vecRepeat, if_pos h1, Int.toNat_natCast, h2, Ctl.ofRes_ok', Ctl.val_bind',
    Rs.stringFromUtf8, validUtf8_spaces, if_true, Rs.unwrapRes, Ctl.run_ret', Fn.spaces]

/-- beyond `isize::MAX` spaces the source panics (`capacity overflow`), the model — counting in naturals — answers -/
theorem generate_indent_overflow (enabled : Bool) (indent : Nat) (h : 9223372036854775808 ≤ indent) :
    Tr.PrettyOpts.generate_indent ⟨enabled, (indent : Int)⟩ = .panic "capacity overflow" := by
  have h1 : ¬ ((indent : Nat) : Int) ≤ IntTy.isize.maxVal := by
    have : IntTy.isize.maxVal = 9223372036854775807 := rfl
    omega
  simp only [Tr.PrettyOpts.generate_indent, Rs.vecRepeat, if_neg h1, Ctl.ofRes_panic', Ctl.ret_bind', Ctl.run_ret']

/-! ## the precondition: every string the renderer visits is inside the buffer and well-formed UTF-8 -/

/-- the bytes `value[s..e]` exist and are well-formed UTF-8 -/
def strOK (value : Bytes) (s e : Nat) : Bool := decide (e ≤ value.length) && validUtf8 ((value.drop s).take (e - s))

/-- the keys of an object: consecutive slices from `ko` with the lengths `ks` -/
def ruKeys (value : Bytes) : List Nat → Nat → Bool
  | [], _ => true
  | k :: ks, ko => strOK value ko (ko + k) && ruKeys value ks (ko + k)

mutual
/-- the container whose header word is at `offset` (fuel as in `Fn.containerToString`) -/
def ruContainer : Nat → Bytes → Nat → Bool
  | 0, _, _ => false
  | f+1, value, offset =>
    match readU32At value offset with
    | none => true
    | some h =>
      if hdrType h = C.SCALAR_CONTAINER_TAG then ruScalar f value (4 + offset) (8 + offset)
      else if hdrType h = C.ARRAY_CONTAINER_TAG then
        ruItems f value (hdrLen h) (4 + offset) (4 + offset + 4 * hdrLen h)
      else if hdrType h = C.OBJECT_CONTAINER_TAG then
        match fillKeys value (hdrLen h) (4 + offset) (4 + offset + 8 * hdrLen h) with
        | none => true
        | some (ks, jo, vo) => ruKeys value ks (4 + offset + 8 * hdrLen h) && ruItems f value ks.length jo vo
      else true
/-- the value whose entry word is at `jo` and whose payload starts at `vo` -/
def ruScalar : Nat → Bytes → Nat → Nat → Bool
  | 0, _, _, _ => false
  | f+1, value, jo, vo =>
    match readU32At value jo with
    | none => true
    | some w =>
      if jeType w = C.STRING_TAG then strOK value vo (vo + jeLen w)
      else if jeType w = C.CONTAINER_TAG then ruContainer f value vo
      else true
/-- `n` values, entry words from `jo`, payloads from `vo` -/
def ruItems : Nat → Bytes → Nat → Nat → Nat → Bool
  | 0, _, _, _, _ => false
  | _+1, _, 0, _, _ => true
  | f+1, value, n+1, jo, vo =>
    ruScalar f value jo vo &&
      (match readU32At value jo with
       | none => true
       | some w => ruItems f value n (jo + 4) (vo + jeLen w))
end

/-- The precondition of the agreement theorems of the renderer, a decidable property of one buffer: walking the
document as `container_to_string` does (header word, entry words, running offsets, with the fuel of
`Fn.toStringDoc`), every STRING payload and every object KEY lies inside the buffer and is well-formed UTF-8.
Where the walk cannot read a word there is nothing to check.  (`encodeSpec v` has it for every good `v`:
`stringsOK_encodeSpec`.)  Outside it the source and the model differ: the source renders ill-formed bytes through
`String::from_utf8_lossy` (U+FFFD), the model escapes them as they are; and for an EMPTY string whose offset lies
beyond the buffer the source pushes `""` without slicing where the model's slice panics
(`escape_scalar_string_empty_range`, phase 2). -/
def StringsOK (value : Bytes) : Bool := ruContainer (2 * value.length + 8) value 0

/-! ## results of the two translated functions in terms of the model's -/

/-- `scalar_to_string`: the advanced offsets and the extended text -/
def scalarOut (jo vo : Nat) (json : Bytes) (r : Res (Bytes × Nat)) : Res (Int × Int × Bytes) :=
  r.map (fun p => (((jo + 4 : Nat) : Int), ((vo + p.2 : Nat) : Int), json ++ p.1))

/-- `container_to_string`: `*offset` is not changed, the text is extended -/
def containerOut (offset : Nat) (json : Bytes) (r : Res Bytes) : Res (Int × Bytes) :=
  r.map (fun t => ((offset : Int), json ++ t))

theorem strLit_eq_lit (s : String) : Rs.strLit s = Fn.lit s := rfl

theorem pushStr_eq (a b : Bytes) : Rs.pushStr a b = a ++ b := rfl

theorem displayNumber_ofNum (fmt : Nat → Bytes) (n : Num) : Rs.displayNumber fmt (ofNum n) = Fn.numToString fmt n := by
  cases n <;> simp [Rs.displayNumber, ofNum, Rs.numberToNum]

theorem strOK_spec {value : Bytes} {s e : Nat} (h : strOK value s e = true) :
    e ≤ value.length ∧ validUtf8 ((value.drop s).take (e - s)) = true := by
  simpa [strOK] using h

/-- one unfolding of `scalar_to_string`, given the answer of `container_to_string` on a nested container -/
theorem scalar_to_string_step (fmt : Nat → Bytes) (g f : Nat) (value : Bytes) (jo vo : Nat) (json : Bytes)
    (pretty : Bool) (indent : Nat)
    (hlen : value.length < 4611686018427387904) (hjo : jo < 9223372036854775808) (hvo : vo < 9223372036854775808)
    (hru : ruScalar (f + 1) value jo vo = true)
    (hc : ∀ w, readU32At value jo = some w → jeType w = C.CONTAINER_TAG →
      Tr.container_to_string fmt g value (vo : Int) json ⟨pretty, (indent : Int)⟩ =
        containerOut vo json (Fn.containerToString fmt f value vo pretty indent)) :
    Tr.scalar_to_string fmt (g + 1) value (jo : Int) (vo : Int) json ⟨pretty, (indent : Int)⟩ =
      scalarOut jo vo json (Fn.scalarToString fmt (f + 1) value jo vo pretty indent) := by
  rw [Tr.scalar_to_string, Fn.scalarToString]
  rw [read_u32_agrees value jo (by omega)]
  cases hw : readU32At value jo with
  | none => simp only [Ctl.ofRes_err', Ctl.ret_bind', Ctl.run_ret', scalarOut, Res.map, Res.bind]
  | some w =>
    have hll := jeLen_lt w
    have hcl : Rs.cast .usize ((jeLen w : Nat) : Int) = (jeLen w : Int) := Rs.usize_nat _ (by omega)
    have h4 : ((4 : Nat) : Int) = 4 := rfl
    have hj4 := Rs.add_usize_nat jo 4 (by omega)
    have hvl := Rs.add_usize_nat vo (jeLen w) (by omega)
    rw [← h4]
    simp only [Ctl.ofRes_ok', Ctl.val_bind', decode_jentry_agrees, hcl, tag_eq]
    simp only [decide_eq_true_eq, Int.natCast_inj]
    simp only [ruScalar, hw] at hru
    by_cases h1 : jeType w = C.NULL_TAG
    · simp only [if_pos h1, Ctl.pure_eq', Ctl.val_bind', hj4, hvl, Ctl.ofRes_ok', Ctl.run_ret', scalarOut, Res.map,
        Res.bind, pushStr_eq, strLit_eq_lit]
    simp only [if_neg h1]
    by_cases h2 : jeType w = C.TRUE_TAG
    · simp only [if_pos h2, Ctl.pure_eq', Ctl.val_bind', hj4, hvl, Ctl.ofRes_ok', Ctl.run_ret', scalarOut, Res.map,
        Res.bind, pushStr_eq, strLit_eq_lit]
    simp only [if_neg h2]
    by_cases h3 : jeType w = C.FALSE_TAG
    · simp only [if_pos h3, Ctl.pure_eq', Ctl.val_bind', hj4, hvl, Ctl.ofRes_ok', Ctl.run_ret', scalarOut, Res.map,
        Res.bind, pushStr_eq, strLit_eq_lit]
    simp only [if_neg h3]
    by_cases h4n : jeType w = C.NUMBER_TAG
    · simp only [if_pos h4n, hvl, Ctl.ofRes_ok', Ctl.val_bind', slice_model]
      cases hs : Jsonb.slice value vo (vo + jeLen w) with
      | err e => simp only [Ctl.ofRes_err', Ctl.ret_bind', Ctl.run_ret', scalarOut, Res.map, Res.bind]
      | panic s => simp only [Ctl.ofRes_panic', Ctl.ret_bind', Ctl.run_ret', scalarOut, Res.map, Res.bind]
      | fuel => rfl
      | ok p =>
        have hpl := slice_length_le _ _ _ _ hs
        simp only [Ctl.ofRes_ok', Ctl.val_bind']
        rw [decode_agrees p (by omega)]
        cases hd : Num.dec p with
        | err e => simp only [Res.map, Res.bind, Ctl.ofRes_err', Ctl.ret_bind', Ctl.run_ret', scalarOut]
        | panic s => simp only [Res.map, Res.bind, Ctl.ofRes_panic', Ctl.ret_bind', Ctl.run_ret', scalarOut]
        | fuel => rfl
        | ok n =>
          simp only [Res.map, Res.bind, Ctl.ofRes_ok', Ctl.val_bind', Ctl.pure_eq', hj4, hvl, Ctl.run_ret', scalarOut,
            pushStr_eq, displayNumber_ofNum]
    simp only [if_neg h4n]
    by_cases h5 : jeType w = C.STRING_TAG
    · simp only [if_pos h5] at hru
      obtain ⟨hin, hutf⟩ := strOK_spec hru
      simp only [if_pos h5, hvl, Ctl.ofRes_ok', Ctl.val_bind']
      rw [escape_scalar_string_agrees value vo (vo + jeLen w) json (by omega) hin (by omega) hutf]
      cases he : Fn.escapeString value vo (vo + jeLen w) with
      | err e => simp only [Res.map, Res.bind, Ctl.ofRes_err', Ctl.ret_bind', Ctl.run_ret', scalarOut]
      | panic s => simp only [Res.map, Res.bind, Ctl.ofRes_panic', Ctl.ret_bind', Ctl.run_ret', scalarOut]
      | fuel => rfl
      | ok t =>
        simp only [Res.map, Res.bind, Ctl.ofRes_ok', Ctl.val_bind', Ctl.pure_eq', hj4, hvl, Ctl.run_ret', scalarOut]
    simp only [if_neg h5]
    by_cases h6 : jeType w = C.CONTAINER_TAG
    · simp only [if_pos h6]
      rw [hc w hw h6]
      cases hm : Fn.containerToString fmt f value vo pretty indent with
      | err e => simp only [containerOut, Res.map, Res.bind, Ctl.ofRes_err', Ctl.ret_bind', Ctl.run_ret', scalarOut]
      | panic s => simp only [containerOut, Res.map, Res.bind, Ctl.ofRes_panic', Ctl.ret_bind', Ctl.run_ret', scalarOut]
      | fuel => rfl
      | ok t =>
        simp only [containerOut, Res.map, Res.bind, Ctl.ofRes_ok', Ctl.val_bind', Ctl.pure_eq', hj4, hvl, Ctl.run_ret',
          scalarOut]
    simp only [if_neg h6, Ctl.pure_eq', Ctl.val_bind', hj4, hvl, Ctl.ofRes_ok', Ctl.run_ret', scalarOut, Res.map,
      Res.bind, List.append_nil]

end Jsonb.TrAgree
