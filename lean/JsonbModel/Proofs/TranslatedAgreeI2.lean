/-
Phase 6c, renderer.  I2: the three loops of `container_to_string` — the array items (= `Fn.arrayItems`), the key
offsets of an object (= `Walk.fillKeys`), the object members (= `Fn.objectItems`) — for ANY callee `rec` that agrees
with `Fn.scalarToString` below the fuel.
-/
import JsonbModel.Proofs.TranslatedAgreeI1
import JsonbModel.Proofs.ToStringDoc

set_option linter.unusedSimpArgs false
set_option linter.unusedVariables false

namespace Jsonb.TrAgree
open Jsonb.Rs

/-- the type of `scalar_to_string` once `fmt__` and `fuel` are given -/
abbrev RenderFn := Bytes → Int → Int → Bytes → Tr.PrettyOpts → Res (Int × Int × Bytes)

/-- what the loops assume about the function they call: it agrees with `scalarToString` below some fuel -/
def RenderRecOK (fmt : Nat → Bytes) (f : Nat) (value : Bytes) (rec : RenderFn) : Prop :=
  ∀ f', f' < f → ∀ (jo vo : Nat) (json : Bytes) (pretty : Bool) (indent : Nat),
    jo < 9223372036854775808 → vo < 9223372036854775808 → indent + 2 * f' < 9223372036854775808 →
    ruScalar f' value jo vo = true →
    Fn.scalarToString fmt f' value jo vo pretty indent ≠ .fuel →
    rec value (jo : Int) (vo : Int) json ⟨pretty, (indent : Int)⟩ =
      scalarOut jo vo json (Fn.scalarToString fmt f' value jo vo pretty indent)

theorem RenderRecOK.mono {fmt : Nat → Bytes} {f f' : Nat} {value : Bytes} {rec : RenderFn}
    (h : RenderRecOK fmt f value rec) (hf : f' ≤ f) : RenderRecOK fmt f' value rec :=
  fun f'' hlt => h f'' (by omega)

/-! ## the characters the renderer pushes -/

theorem encodeChar_comma : Rs.encodeChar 44 = Fn.lit "," := by rw [lit_comma]; rfl
theorem encodeChar_colon : Rs.encodeChar 58 = Fn.lit ":" := by rw [lit_colon]; rfl
theorem encodeChar_lb : Rs.encodeChar 91 = Fn.lit "[" := by rw [lit_lb]; rfl
theorem encodeChar_rb : Rs.encodeChar 93 = Fn.lit "]" := by rw [lit_rb]; rfl
theorem encodeChar_lc : Rs.encodeChar 123 = Fn.lit "{" := by rw [lit_lc]; rfl
theorem encodeChar_rc : Rs.encodeChar 125 = Fn.lit "}" := by rw [lit_rc]; rfl
theorem encodeChar_nl : Rs.encodeChar 10 = [0x0A] := rfl

theorem pushChar_eq (a : Bytes) (c : Nat) : Rs.pushChar a c = a ++ Rs.encodeChar c := rfl

/-- what precedes the text of item `k`: the separator and, in pretty mode, the indentation -/
def itemPre (pretty : Bool) (k indent : Nat) : Bytes :=
  (if k > 0 then (if pretty then Fn.lit ",\n" else Fn.lit ",") else []) ++ (if pretty then Fn.spaces indent else [])

/-- what a loop over the items answers, in terms of the model's text for them: the text is appended; the final
offsets are not used after the loop -/
def LoopRes {σ : Type} (c : Ctl (Int × Bytes) σ) (proj : σ → Bytes) (json : Bytes) (m : Res Bytes) : Prop :=
  match m with
  | .ok body => ∃ s, c = .val s ∧ proj s = json ++ body
  | .err e => c = .ret (.err e)
  | .panic s => c = .ret (.panic s)
  | .fuel => True

/-! ## the array items -/

theorem cts_loop1_step (rec : RenderFn) (value : Bytes) (offset : Int) (pretty : Bool) (ind0 : Int) (indent : Nat)
    (i : Int) (k : Nat) (hi : i = (k : Int)) (json : Bytes) (jo vo : Int) (hind : indent < 9223372036854775808) :
    Tr.container_to_string.loop1 rec value offset ⟨pretty, ind0⟩ ⟨pretty, (indent : Int)⟩ i (json, jo, vo) =
      match rec value jo vo (json ++ itemPre pretty k indent) ⟨pretty, (indent : Int)⟩ with
      | .ok r => Ctl.val (.next (r.2.2, r.1, r.2.1))
      | .err e => Ctl.ret (.err e)
      | .panic s => Ctl.ret (.panic s)
      | .fuel => Ctl.ret .fuel := by
  subst hi
  unfold Tr.container_to_string.loop1 itemPre
  dsimp only
  have hk : decide (((k : Nat) : Int) > 0) = decide (k > 0) := by
    by_cases h : k > 0
    · have : ((k : Nat) : Int) > 0 := by omega
      simp [h, this]
    · have : ¬ ((k : Nat) : Int) > 0 := by omega
      simp [h, this]
  rw [hk]
  cases pretty
  · by_cases h : k > 0
    · simp only [h, decide_true, if_true, Bool.false_eq_true, if_false, Ctl.pure_eq', Ctl.val_bind', pushChar_eq,
        encodeChar_comma, List.append_nil]
      cases rec value jo vo (json ++ Fn.lit ",") ⟨false, (indent : Int)⟩ with
      | ok r => simp only [Ctl.ofRes_ok', Ctl.val_bind', Rs.loopStep_val']
      | err e => simp only [Ctl.ofRes_err', Ctl.ret_bind', Rs.loopStep_err']
      | panic s => simp only [Ctl.ofRes_panic', Ctl.ret_bind', Rs.loopStep_panic']
      | fuel => rfl
    · simp only [h, decide_false, Bool.false_eq_true, if_false, Ctl.pure_eq', Ctl.val_bind', List.append_nil]
      cases rec value jo vo json ⟨false, (indent : Int)⟩ with
      | ok r => simp only [Ctl.ofRes_ok', Ctl.val_bind', Rs.loopStep_val']
      | err e => simp only [Ctl.ofRes_err', Ctl.ret_bind', Rs.loopStep_err']
      | panic s => simp only [Ctl.ofRes_panic', Ctl.ret_bind', Rs.loopStep_panic']
      | fuel => rfl
  · by_cases h : k > 0
    · simp only [h, decide_true, if_true, Ctl.pure_eq', Ctl.val_bind', pushStr_eq, strLit_eq_lit,
        generate_indent_agrees true indent hind, Ctl.ofRes_ok', List.append_assoc]
      cases rec value jo vo (json ++ (Fn.lit ",\n" ++ Fn.spaces indent)) ⟨true, (indent : Int)⟩ with
      | ok r => simp only [Ctl.ofRes_ok', Ctl.val_bind', Rs.loopStep_val']
      | err e => simp only [Ctl.ofRes_err', Ctl.ret_bind', Rs.loopStep_err']
      | panic s => simp only [Ctl.ofRes_panic', Ctl.ret_bind', Rs.loopStep_panic']
      | fuel => rfl
    · simp only [h, decide_false, Bool.false_eq_true, if_false, if_true, Ctl.pure_eq', Ctl.val_bind', pushStr_eq,
        generate_indent_agrees true indent hind, Ctl.ofRes_ok', List.nil_append]
      cases rec value jo vo (json ++ Fn.spaces indent) ⟨true, (indent : Int)⟩ with
      | ok r => simp only [Ctl.ofRes_ok', Ctl.val_bind', Rs.loopStep_val']
      | err e => simp only [Ctl.ofRes_err', Ctl.ret_bind', Rs.loopStep_err']
      | panic s => simp only [Ctl.ofRes_panic', Ctl.ret_bind', Rs.loopStep_panic']
      | fuel => rfl

/-- the length `scalarToString` answers is that of the entry word -/
theorem scalarToString_len (fmt : Nat → Bytes) (f : Nat) (value : Bytes) (jo vo : Nat) (p : Bool) (ind : Nat)
    (t : Bytes) (len : Nat) (h : Fn.scalarToString fmt f value jo vo p ind = .ok (t, len)) :
    ∃ w, readU32At value jo = some w ∧ len = jeLen w := by
  cases f with
  | zero => simp [Fn.scalarToString] at h
  | succ f =>
    rw [Fn.scalarToString] at h
    cases hw : readU32At value jo with
    | none => rw [hw] at h; cases h
    | some w =>
      rw [hw] at h
      refine ⟨w, rfl, ?_⟩
      dsimp only at h
      split at h
      · cases h; rfl
      split at h
      · cases h; rfl
      split at h
      · cases h; rfl
      split at h
      · cases hs : Jsonb.slice value vo (vo + jeLen w) with
        | ok p1 =>
          rw [hs] at h
          dsimp only at h
          cases hd : Num.dec p1 with
          | ok n => rw [hd] at h; cases h; rfl
          | err e => rw [hd] at h; cases h
          | panic s => rw [hd] at h; cases h
          | fuel => rw [hd] at h; cases h
        | err e => rw [hs] at h; cases h
        | panic s => rw [hs] at h; cases h
        | fuel => rw [hs] at h; cases h
      split at h
      · cases he : Fn.escapeString value vo (vo + jeLen w) with
        | ok t1 => rw [he] at h; simp only [Res.map, Res.bind, Res.ok.injEq, Prod.mk.injEq] at h; exact h.2.symm
        | err e => rw [he] at h; cases h
        | panic s => rw [he] at h; cases h
        | fuel => rw [he] at h; cases h
      split at h
      · cases hc : Fn.containerToString fmt f value vo p ind with
        | ok t1 => rw [hc] at h; simp only [Res.map, Res.bind, Res.ok.injEq, Prod.mk.injEq] at h; exact h.2.symm
        | err e => rw [hc] at h; cases h
        | panic s => rw [hc] at h; cases h
        | fuel => rw [hc] at h; cases h
      · cases h; rfl

theorem ruItems_succ (f : Nat) (value : Bytes) (n jo vo : Nat) (h : ruItems (f + 1) value (n + 1) jo vo = true) :
    ruScalar f value jo vo = true ∧ ∀ w, readU32At value jo = some w → ruItems f value n (jo + 4) (vo + jeLen w) = true := by
  rw [ruItems] at h
  simp only [Bool.and_eq_true] at h
  refine ⟨h.1, fun w hw => ?_⟩
  have h2 := h.2
  rw [hw] at h2
  exact h2

/-- the item loop of the array arm is the model's `arrayItems` -/
theorem cts_arr_run (fmt : Nat → Bytes) (rec : RenderFn) (value : Bytes) (offset : Int) (pretty : Bool) (ind0 : Int)
    (indent : Nat) :
    ∀ (n f : Nat) (i : Int) (k jo vo : Nat) (json : Bytes), i = (k : Int) → RenderRecOK fmt f value rec →
      jo + 4 * n < 9223372036854775808 → vo + n * 268435456 < 9223372036854775808 →
      indent + 2 * f < 9223372036854775808 → ruItems f value n jo vo = true →
      LoopRes (Rs.forRangeAux (Tr.container_to_string.loop1 rec value offset ⟨pretty, ind0⟩ ⟨pretty, (indent : Int)⟩) n i
          (json, (jo : Int), (vo : Int))) (fun s => s.1) json
        (Fn.arrayItems fmt f value n k jo vo pretty indent) := by
  intro n
  induction n with
  | zero =>
    intro f i k jo vo json hi hrec hjo hvo hind hru
    cases f with
    | zero => simp only [Fn.arrayItems, LoopRes]
    | succ f =>
      simp only [Fn.arrayItems, LoopRes, Rs.forRangeAux_zero]
      exact ⟨_, rfl, by simp⟩
  | succ n ih =>
    intro f i k jo vo json hi hrec hjo hvo hind hru
    cases f with
    | zero => simp only [Fn.arrayItems, LoopRes]
    | succ f =>
      obtain ⟨hru1, hru2⟩ := ruItems_succ f value n jo vo hru
      have hstep := cts_loop1_step rec value offset pretty ind0 indent i k hi json (jo : Int) (vo : Int) (by omega)
      rw [Fn.arrayItems]
      cases hm : Fn.scalarToString fmt f value jo vo pretty indent with
      | fuel => simp only [LoopRes]
      | err e =>
        have hcall := hrec f (by omega) jo vo (json ++ itemPre pretty k indent) pretty indent (by omega) (by omega) (by omega)
          hru1 (by rw [hm]; exact fun c => by cases c)
        rw [hm] at hcall
        simp only [scalarOut, Res.map, Res.bind] at hcall
        rw [hcall] at hstep
        simp only [LoopRes]
        exact Rs.forRangeAux_ret _ _ _ _ _ hstep
      | panic s =>
        have hcall := hrec f (by omega) jo vo (json ++ itemPre pretty k indent) pretty indent (by omega) (by omega) (by omega)
          hru1 (by rw [hm]; exact fun c => by cases c)
        rw [hm] at hcall
        simp only [scalarOut, Res.map, Res.bind] at hcall
        rw [hcall] at hstep
        simp only [LoopRes]
        exact Rs.forRangeAux_ret _ _ _ _ _ hstep
      | ok r =>
        obtain ⟨t, len⟩ := r
        obtain ⟨w, hw, hlen⟩ := scalarToString_len fmt f value jo vo pretty indent t len hm
        have hll := jeLen_lt w
        have hcall := hrec f (by omega) jo vo (json ++ itemPre pretty k indent) pretty indent (by omega) (by omega) (by omega)
          hru1 (by rw [hm]; exact fun c => by cases c)
        rw [hm] at hcall
        simp only [scalarOut, Res.map, Res.bind] at hcall
        rw [hcall] at hstep
        dsimp only at hstep
        rw [Rs.forRangeAux_next _ _ _ _ _ hstep]
        have hnext := ih f (i + 1) (k + 1) (jo + 4) (vo + len) (json ++ itemPre pretty k indent ++ t)
          (by omega) (hrec.mono (by omega)) (by omega) (by subst hlen; omega) (by omega) (by subst hlen; exact hru2 w hw)
        dsimp only
        cases hrest : Fn.arrayItems fmt f value n (k + 1) (jo + 4) (vo + len) pretty indent with
        | fuel => simp only [LoopRes]
        | err e => rw [hrest] at hnext; simpa only [LoopRes] using hnext
        | panic s => rw [hrest] at hnext; simpa only [LoopRes] using hnext
        | ok rest =>
          rw [hrest] at hnext
          simp only [LoopRes] at hnext ⊢
          obtain ⟨s, hs1, hs2⟩ := hnext
          refine ⟨s, hs1, ?_⟩
          rw [hs2]
          simp only [itemPre, List.append_assoc]

end Jsonb.TrAgree
