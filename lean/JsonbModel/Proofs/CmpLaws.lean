/-
The documented comparison of documents `Spec.cmpJV` is a total preorder on trees whose numbers
are well formed, its equivalence is `Spec.valEq`, different kinds compare by the documented
ranking, and arrays compare element by element and then by length.
-/
import JsonbModel.Spec.Order
import JsonbModel.Proofs.NumOrd
import JsonbModel.Proofs.Codec

namespace Jsonb

/-! ### Three-way comparisons: the composition law

For a three-way comparison `cmp`, all the transitivity laws are instances of one equation:
when `cmp a b ≠ .gt` and `cmp b c ≠ .gt` then `cmp a c = (cmp a b).then (cmp b c)`. -/

/-- the composition law follows from antisymmetry and `≤`-transitivity -/
theorem then_of_swap_trans {α : Type} (cmp : α → α → Ordering) (P : α → Prop)
    (swap : ∀ a b, P a → P b → cmp b a = (cmp a b).swap)
    (trans : ∀ a b c, P a → P b → P c → cmp a b ≠ .gt → cmp b c ≠ .gt → cmp a c ≠ .gt)
    (a b c : α) (ha : P a) (hb : P b) (hc : P c) (h1 : cmp a b ≠ .gt) (h2 : cmp b c ≠ .gt) :
    cmp a c = (cmp a b).then (cmp b c) := by
  have t1 := trans a b c ha hb hc
  have t2 := trans c a b hc ha hb
  have t3 := trans b c a hb hc ha
  have t4 := trans c b a hc hb ha
  have t5 := trans a c b ha hc hb
  have t6 := trans b a c hb ha hc
  rw [swap a c ha hc, swap b c hb hc, swap a b ha hb] at *
  revert h1 h2 t1 t2 t3 t4 t5 t6
  generalize cmp a b = x
  generalize cmp b c = y
  generalize cmp a c = z
  cases x <;> cases y <;> cases z <;> simp [Ordering.then, Ordering.swap]

theorem then_ne_gt {x y : Ordering} (h1 : x ≠ .gt) (h2 : y ≠ .gt) : x.then y ≠ .gt := by
  cases x <;> cases y <;> simp_all [Ordering.then]

/-! ### `lexCmp` -/

theorem lexCmp_swap (a b : Bytes) : lexCmp b a = (lexCmp a b).swap := by
  induction a generalizing b with
  | nil => cases b <;> simp [lexCmp]
  | cons x xs ih =>
    cases b with
    | nil => simp [lexCmp]
    | cons y ys =>
      simp only [lexCmp]
      by_cases hxy : x < y
      · have : ¬ y < x := fun h' => absurd (UInt8.lt_trans hxy h') (UInt8.lt_irrefl _)
        simp [hxy, this]
      · by_cases hyx : y < x
        · simp [hxy, hyx]
        · simp only [hxy, hyx, if_false]; exact ih ys

theorem lexCmp_then (a b c : Bytes) (h1 : lexCmp a b ≠ .gt) (h2 : lexCmp b c ≠ .gt) :
    lexCmp a c = (lexCmp a b).then (lexCmp b c) := by
  induction a generalizing b c with
  | nil => cases b <;> cases c <;> simp_all [lexCmp, Ordering.then]
  | cons x xs ih =>
    cases b with
    | nil => simp [lexCmp] at h1
    | cons y ys =>
      cases c with
      | nil => simp [lexCmp] at h2
      | cons z zs =>
        simp only [lexCmp, UInt8.lt_iff_toNat_lt] at h1 h2 ⊢
        by_cases hxy : x.toNat < y.toNat
        · have hyx : ¬ y.toNat < x.toNat := by omega
          by_cases hyz : y.toNat < z.toNat
          · have : x.toNat < z.toNat := by omega
            simp [hxy, this, Ordering.then]
          · by_cases hzy : z.toNat < y.toNat
            · simp [hyz, hzy] at h2
            · have : x.toNat < z.toNat := by omega
              simp [hxy, this, Ordering.then]
        · by_cases hyx : y.toNat < x.toNat
          · simp [hxy, hyx] at h1
          · simp only [hxy, hyx, if_false] at h1 ⊢
            by_cases hyz : y.toNat < z.toNat
            · have hxz : x.toNat < z.toNat := by omega
              simp only [hxz, hyz, if_true]
              revert h1
              cases lexCmp xs ys <;> simp [Ordering.then]
            · by_cases hzy : z.toNat < y.toNat
              · simp [hyz, hzy] at h2
              · have hxz : ¬ x.toNat < z.toNat := by omega
                have hzx : ¬ z.toNat < x.toNat := by omega
                simp only [hyz, hzy, hxz, hzx, if_false] at h2 ⊢
                exact ih ys zs h1 h2

theorem lexCmp_trans {a b c : Bytes} (h1 : lexCmp a b ≠ .gt) (h2 : lexCmp b c ≠ .gt) :
    lexCmp a c ≠ .gt := by
  rw [lexCmp_then a b c h1 h2]; exact then_ne_gt h1 h2

theorem lexCmp_eq_trans {a b c : Bytes} (h1 : lexCmp a b = .eq) (h2 : lexCmp b c = .eq) :
    lexCmp a c = .eq := by
  rw [lexCmp_then a b c (by simp [h1]) (by simp [h2]), h1, h2]; rfl

/-! ### `Num.cmp` -/

theorem Num.cmp_then (a b c : Num) (ha : a.WF) (hb : b.WF) (hc : c.WF)
    (h1 : Num.cmp a b ≠ .gt) (h2 : Num.cmp b c ≠ .gt) :
    Num.cmp a c = (Num.cmp a b).then (Num.cmp b c) :=
  then_of_swap_trans Num.cmp Num.WF Num.cmp_antisymm Num.cmp_trans a b c ha hb hc h1 h2

/-! ### Trees whose numbers are well formed -/

namespace JV
mutual
/-- every number in the tree satisfies `Num.WF` (fits its Rust type) -/
def numsWF : JV → Prop
  | num n => n.WF
  | arr vs => numsWFL vs
  | obj kvs => numsWFK kvs
  | _ => True
def numsWFL : List JV → Prop
  | [] => True
  | v :: vs => numsWF v ∧ numsWFL vs
def numsWFK : List (Bytes × JV) → Prop
  | [] => True
  | (_, v) :: kvs => numsWF v ∧ numsWFK kvs
end

mutual
theorem numsWF_of_good : (v : JV) → good v = true → numsWF v
  | null, _ => trivial
  | bool _, _ => trivial
  | str _, _ => trivial
  | num n, h => by simpa [good, numsWF] using h
  | arr vs, h => by
    simp only [good, Bool.and_eq_true] at h
    simpa [numsWF] using numsWFL_of_goodL vs h.2
  | obj kvs, h => by
    simp only [good, Bool.and_eq_true] at h
    simpa [numsWF] using numsWFK_of_goodK kvs h.2
theorem numsWFL_of_goodL : (vs : List JV) → goodL vs = true → numsWFL vs
  | [], _ => trivial
  | v :: vs, h => by
    simp only [goodL, Bool.and_eq_true] at h
    exact ⟨numsWF_of_good v h.1, numsWFL_of_goodL vs h.2⟩
theorem numsWFK_of_goodK : (kvs : List (Bytes × JV)) → goodK kvs = true → numsWFK kvs
  | [], _ => trivial
  | (k, v) :: kvs, h => by
    simp only [goodK, Bool.and_eq_true] at h
    exact ⟨numsWF_of_good v h.1.2, numsWFK_of_goodK kvs h.2⟩
end

theorem numsWF_of_goodTop (v : JV) (h : goodTop v = true) : numsWF v := by
  cases v with
  | arr vs =>
    simp only [goodTop, Bool.and_eq_true] at h
    simpa [numsWF] using numsWFL_of_goodL vs h.2
  | obj kvs =>
    simp only [goodTop, Bool.and_eq_true] at h
    simpa [numsWF] using numsWFK_of_goodK kvs h.2
  | _ => exact numsWF_of_good _ h

theorem numsWFL_append (xs ys : List JV) : numsWFL (xs ++ ys) ↔ numsWFL xs ∧ numsWFL ys := by
  induction xs with
  | nil => simp [numsWFL]
  | cons x xs ih => simp [numsWFL, ih, and_assoc]
end JV

namespace Spec
open JV

/-! ### Unfolding lemmas -/

theorem cmpL_cons (a : JV) (as : List JV) (b : JV) (bs : List JV) :
    cmpL (a :: as) (b :: bs) = (cmpJV a b).then (cmpL as bs) := by
  rw [cmpL]; cases cmpJV a b <;> rfl

theorem cmpK_cons (ka : Bytes) (a : JV) (as : List (Bytes × JV)) (kb : Bytes) (b : JV)
    (bs : List (Bytes × JV)) :
    cmpK ((ka, a) :: as) ((kb, b) :: bs) = (lexCmp ka kb).then ((cmpJV a b).then (cmpK as bs)) := by
  rw [cmpK]; cases lexCmp ka kb <;> cases cmpJV a b <;> rfl

theorem rank_bool (b : Bool) : rank (JV.bool b) = if b then 2 else 1 := by cases b <;> rfl

/-- **different kinds compare by the documented ranking** -/
theorem cmpJV_rank (a b : JV) (h : rank a ≠ rank b) : cmpJV a b = compare (rank a) (rank b) := by
  cases a <;> cases b <;> first | rfl | exact absurd rfl h

/-- the comparison of two values of the same rank is never decided by `rank` alone, and
comparing never contradicts the ranking -/
theorem rank_le_of_cmpJV (a b : JV) (h : cmpJV a b ≠ .gt) : rank a ≤ rank b := by
  by_cases hr : rank a = rank b
  · omega
  · rw [cmpJV_rank a b hr] at h
    rw [Ne, Nat.compare_eq_gt] at h
    omega

theorem cmpJV_lt_of_rank_lt (a b : JV) (h : rank a < rank b) : cmpJV a b = .lt := by
  rw [cmpJV_rank a b (by omega)]; exact Nat.compare_eq_lt.2 h

theorem cmpJV_gt_of_rank_gt (a b : JV) (h : rank b < rank a) : cmpJV a b = .gt := by
  rw [cmpJV_rank a b (by omega)]; exact Nat.compare_eq_gt.2 h

/-! the documented ranking: null > array > object > string > number > true > false -/
example (vs : List JV) : cmpJV null (arr vs) = .gt := rfl
example (vs : List JV) (kvs : List (Bytes × JV)) : cmpJV (arr vs) (obj kvs) = .gt := rfl
example (kvs : List (Bytes × JV)) (s : Bytes) : cmpJV (obj kvs) (str s) = .gt := rfl
example (s : Bytes) (n : Num) : cmpJV (str s) (num n) = .gt := rfl
example (n : Num) : cmpJV (num n) (JV.bool true) = .gt := rfl
example : cmpJV (JV.bool true) (JV.bool false) = .gt := by decide
example : cmpJV null (arr []) = .gt := by decide
example : cmpJV (arr []) (obj []) = .gt := by decide
example : cmpJV (obj []) (str []) = .gt := by decide
example : cmpJV (str []) (num (.uint 0)) = .gt := by decide
example : cmpJV (num (.uint 0)) (JV.bool true) = .gt := by decide
example : rank null > rank (arr []) ∧ rank (arr []) > rank (obj []) ∧ rank (obj []) > rank (str [])
    ∧ rank (str []) > rank (num (.uint 0)) ∧ rank (num (.uint 0)) > rank (JV.bool true)
    ∧ rank (JV.bool true) > rank (JV.bool false) := by decide

/-! ### Reflexivity -/

mutual
theorem cmpJV_refl : (a : JV) → numsWF a → cmpJV a a = .eq
  | null, _ => rfl
  | JV.bool b, _ => by simp [cmpJV]
  | num n, h => by simpa [cmpJV] using Num.cmp_refl n h
  | str s, _ => by simpa [cmpJV] using lexCmp_refl s
  | arr vs, h => by simpa [cmpJV] using cmpL_refl vs h
  | obj kvs, h => by simpa [cmpJV] using cmpK_refl kvs h
theorem cmpL_refl : (as : List JV) → numsWFL as → cmpL as as = .eq
  | [], _ => rfl
  | a :: as, h => by
    rw [cmpL_cons, cmpJV_refl a h.1, cmpL_refl as h.2]; rfl
theorem cmpK_refl : (as : List (Bytes × JV)) → numsWFK as → cmpK as as = .eq
  | [], _ => rfl
  | (k, a) :: as, h => by
    rw [cmpK_cons, lexCmp_refl, cmpJV_refl a h.1, cmpK_refl as h.2]; rfl
end

/-! ### Antisymmetry -/

theorem cmpJV_swap_of_rank_ne (a b : JV) (h : rank a ≠ rank b) : cmpJV b a = (cmpJV a b).swap := by
  rw [cmpJV_rank a b h, cmpJV_rank b a (Ne.symm h), Nat.compare_swap]

mutual
theorem cmpJV_swap : (a b : JV) → numsWF a → numsWF b → cmpJV b a = (cmpJV a b).swap
  | null, b, _, _ => by
    cases b with
    | null => rfl
    | bool x => exact cmpJV_swap_of_rank_ne _ _ (by cases x <;> simp [rank])
    | _ => exact cmpJV_swap_of_rank_ne _ _ (by simp [rank])
  | JV.bool x, b, _, _ => by
    cases b with
    | bool y => simp only [cmpJV]; rw [Nat.compare_swap]
    | _ => exact cmpJV_swap_of_rank_ne _ _ (by cases x <;> simp [rank])
  | num n, b, ha, hb => by
    cases b with
    | num m => simpa [cmpJV] using Num.cmp_antisymm n m ha hb
    | bool x => exact cmpJV_swap_of_rank_ne _ _ (by cases x <;> simp [rank])
    | _ => exact cmpJV_swap_of_rank_ne _ _ (by simp [rank])
  | str s, b, _, _ => by
    cases b with
    | str t => simpa [cmpJV] using lexCmp_swap s t
    | bool x => exact cmpJV_swap_of_rank_ne _ _ (by cases x <;> simp [rank])
    | _ => exact cmpJV_swap_of_rank_ne _ _ (by simp [rank])
  | arr as, b, ha, hb => by
    cases b with
    | arr bs => simpa [cmpJV] using cmpL_swap as bs ha hb
    | bool x => exact cmpJV_swap_of_rank_ne _ _ (by cases x <;> simp [rank])
    | _ => exact cmpJV_swap_of_rank_ne _ _ (by simp [rank])
  | obj as, b, ha, hb => by
    cases b with
    | obj bs => simpa [cmpJV] using cmpK_swap as bs ha hb
    | bool x => exact cmpJV_swap_of_rank_ne _ _ (by cases x <;> simp [rank])
    | _ => exact cmpJV_swap_of_rank_ne _ _ (by simp [rank])
theorem cmpL_swap : (as bs : List JV) → numsWFL as → numsWFL bs → cmpL bs as = (cmpL as bs).swap
  | [], [], _, _ => rfl
  | [], _ :: _, _, _ => rfl
  | _ :: _, [], _, _ => rfl
  | a :: as, b :: bs, ha, hb => by
    rw [cmpL_cons, cmpL_cons, Ordering.swap_then, cmpJV_swap a b ha.1 hb.1, cmpL_swap as bs ha.2 hb.2]
theorem cmpK_swap : (as bs : List (Bytes × JV)) → numsWFK as → numsWFK bs →
    cmpK bs as = (cmpK as bs).swap
  | [], [], _, _ => rfl
  | [], _ :: _, _, _ => rfl
  | _ :: _, [], _, _ => rfl
  | (ka, a) :: as, (kb, b) :: bs, ha, hb => by
    rw [cmpK_cons, cmpK_cons, Ordering.swap_then, Ordering.swap_then, lexCmp_swap ka kb,
      cmpJV_swap a b ha.1 hb.1, cmpK_swap as bs ha.2 hb.2]
end

/-! ### Transitivity, as the composition law -/

theorem cmpJV_then_of_rank_ne (a b c : JV) (h : rank a ≠ rank b ∨ rank b ≠ rank c)
    (h1 : cmpJV a b ≠ .gt) (h2 : cmpJV b c ≠ .gt) :
    cmpJV a c = (cmpJV a b).then (cmpJV b c) := by
  have r1 := rank_le_of_cmpJV a b h1
  have r2 := rank_le_of_cmpJV b c h2
  by_cases hab : rank a = rank b
  · have hbc : rank b < rank c := by omega
    rw [cmpJV_lt_of_rank_lt b c hbc, cmpJV_lt_of_rank_lt a c (by omega)]
    revert h1; cases cmpJV a b <;> simp [Ordering.then]
  · rw [cmpJV_lt_of_rank_lt a b (by omega), cmpJV_lt_of_rank_lt a c (by omega)]; rfl

theorem then_then_aux (x y z p q r : Ordering)
    (hz : x ≠ .gt → y ≠ .gt → z = x.then y) (hr : p ≠ .gt → q ≠ .gt → r = p.then q)
    (h1 : x.then p ≠ .gt) (h2 : y.then q ≠ .gt) :
    z.then r = (x.then p).then (y.then q) := by
  cases x <;> cases y <;> simp_all [Ordering.then]
  cases p <;> simp_all

mutual
theorem cmpJV_then : (a b c : JV) → numsWF a → numsWF b → numsWF c →
    cmpJV a b ≠ .gt → cmpJV b c ≠ .gt → cmpJV a c = (cmpJV a b).then (cmpJV b c)
  | null, b, c, _, _, _, h1, h2 => by
    cases b with
    | null =>
      cases c with
      | null => rfl
      | bool x => exact cmpJV_then_of_rank_ne _ _ _ (.inr (by cases x <;> simp [rank])) h1 h2
      | _ => exact cmpJV_then_of_rank_ne _ _ _ (.inr (by simp [rank])) h1 h2
    | bool x => exact cmpJV_then_of_rank_ne _ _ _ (.inl (by cases x <;> simp [rank])) h1 h2
    | _ => exact cmpJV_then_of_rank_ne _ _ _ (.inl (by simp [rank])) h1 h2
  | JV.bool x, b, c, _, _, _, h1, h2 => by
    cases b with
    | bool y =>
      cases c with
      | bool z => revert h1 h2; cases x <;> cases y <;> cases z <;> decide
      | _ => exact cmpJV_then_of_rank_ne _ _ _ (.inr (by cases y <;> simp [rank])) h1 h2
    | _ => exact cmpJV_then_of_rank_ne _ _ _ (.inl (by cases x <;> simp [rank])) h1 h2
  | num n, b, c, ha, hb, hc, h1, h2 => by
    cases b with
    | num m =>
      cases c with
      | num k => exact Num.cmp_then n m k ha hb hc h1 h2
      | bool x => exact cmpJV_then_of_rank_ne _ _ _ (.inr (by cases x <;> simp [rank])) h1 h2
      | _ => exact cmpJV_then_of_rank_ne _ _ _ (.inr (by simp [rank])) h1 h2
    | bool x => exact cmpJV_then_of_rank_ne _ _ _ (.inl (by cases x <;> simp [rank])) h1 h2
    | _ => exact cmpJV_then_of_rank_ne _ _ _ (.inl (by simp [rank])) h1 h2
  | str s, b, c, _, _, _, h1, h2 => by
    cases b with
    | str t =>
      cases c with
      | str u => exact lexCmp_then s t u h1 h2
      | bool x => exact cmpJV_then_of_rank_ne _ _ _ (.inr (by cases x <;> simp [rank])) h1 h2
      | _ => exact cmpJV_then_of_rank_ne _ _ _ (.inr (by simp [rank])) h1 h2
    | bool x => exact cmpJV_then_of_rank_ne _ _ _ (.inl (by cases x <;> simp [rank])) h1 h2
    | _ => exact cmpJV_then_of_rank_ne _ _ _ (.inl (by simp [rank])) h1 h2
  | arr as, b, c, ha, hb, hc, h1, h2 => by
    cases b with
    | arr bs =>
      cases c with
      | arr cs => exact cmpL_then as bs cs ha hb hc h1 h2
      | bool x => exact cmpJV_then_of_rank_ne _ _ _ (.inr (by cases x <;> simp [rank])) h1 h2
      | _ => exact cmpJV_then_of_rank_ne _ _ _ (.inr (by simp [rank])) h1 h2
    | bool x => exact cmpJV_then_of_rank_ne _ _ _ (.inl (by cases x <;> simp [rank])) h1 h2
    | _ => exact cmpJV_then_of_rank_ne _ _ _ (.inl (by simp [rank])) h1 h2
  | obj as, b, c, ha, hb, hc, h1, h2 => by
    cases b with
    | obj bs =>
      cases c with
      | obj cs => exact cmpK_then as bs cs ha hb hc h1 h2
      | bool x => exact cmpJV_then_of_rank_ne _ _ _ (.inr (by cases x <;> simp [rank])) h1 h2
      | _ => exact cmpJV_then_of_rank_ne _ _ _ (.inr (by simp [rank])) h1 h2
    | bool x => exact cmpJV_then_of_rank_ne _ _ _ (.inl (by cases x <;> simp [rank])) h1 h2
    | _ => exact cmpJV_then_of_rank_ne _ _ _ (.inl (by simp [rank])) h1 h2
theorem cmpL_then : (as bs cs : List JV) → numsWFL as → numsWFL bs → numsWFL cs →
    cmpL as bs ≠ .gt → cmpL bs cs ≠ .gt → cmpL as cs = (cmpL as bs).then (cmpL bs cs)
  | [], bs, cs, _, _, _, h1, h2 => by
    cases bs <;> cases cs <;> first | rfl | exact absurd rfl h2
  | a :: as, bs, cs, ha, hb, hc, h1, h2 => by
    cases bs with
    | nil => exact absurd rfl h1
    | cons b bs =>
      cases cs with
      | nil => exact absurd rfl h2
      | cons c cs =>
        rw [cmpL_cons] at h1 h2 ⊢
        rw [cmpL_cons, cmpL_cons]
        exact then_then_aux _ _ _ _ _ _ (cmpJV_then a b c ha.1 hb.1 hc.1)
          (cmpL_then as bs cs ha.2 hb.2 hc.2) h1 h2
theorem cmpK_then : (as bs cs : List (Bytes × JV)) → numsWFK as → numsWFK bs → numsWFK cs →
    cmpK as bs ≠ .gt → cmpK bs cs ≠ .gt → cmpK as cs = (cmpK as bs).then (cmpK bs cs)
  | [], bs, cs, _, _, _, h1, h2 => by
    cases bs <;> cases cs <;> first | rfl | exact absurd rfl h2
  | (ka, a) :: as, bs, cs, ha, hb, hc, h1, h2 => by
    cases bs with
    | nil => exact absurd rfl h1
    | cons b bs =>
      obtain ⟨kb, b⟩ := b
      cases cs with
      | nil => exact absurd rfl h2
      | cons c cs =>
        obtain ⟨kc, c⟩ := c
        rw [cmpK_cons] at h1 h2 ⊢
        rw [cmpK_cons, cmpK_cons]
        refine then_then_aux _ _ _ _ _ _ (lexCmp_then ka kb kc) ?_ h1 h2
        intro h1' h2'
        exact then_then_aux _ _ _ _ _ _ (cmpJV_then a b c ha.1 hb.1 hc.1)
          (cmpK_then as bs cs ha.2 hb.2 hc.2) h1' h2'
end

/-- **transitivity** (`≤` form) -/
theorem cmpJV_trans (a b c : JV) (ha : numsWF a) (hb : numsWF b) (hc : numsWF c)
    (h1 : cmpJV a b ≠ .gt) (h2 : cmpJV b c ≠ .gt) : cmpJV a c ≠ .gt := by
  rw [cmpJV_then a b c ha hb hc h1 h2]; exact then_ne_gt h1 h2

theorem cmpJV_lt_trans (a b c : JV) (ha : numsWF a) (hb : numsWF b) (hc : numsWF c)
    (h1 : cmpJV a b = .lt) (h2 : cmpJV b c = .lt) : cmpJV a c = .lt := by
  rw [cmpJV_then a b c ha hb hc (by simp [h1]) (by simp [h2]), h1, h2]; rfl

theorem cmpJV_eq_trans (a b c : JV) (ha : numsWF a) (hb : numsWF b) (hc : numsWF c)
    (h1 : cmpJV a b = .eq) (h2 : cmpJV b c = .eq) : cmpJV a c = .eq := by
  rw [cmpJV_then a b c ha hb hc (by simp [h1]) (by simp [h2]), h1, h2]; rfl

theorem cmpJV_lt_of_lt_of_le (a b c : JV) (ha : numsWF a) (hb : numsWF b) (hc : numsWF c)
    (h1 : cmpJV a b = .lt) (h2 : cmpJV b c ≠ .gt) : cmpJV a c = .lt := by
  rw [cmpJV_then a b c ha hb hc (by simp [h1]) h2, h1]; rfl

theorem cmpJV_lt_of_le_of_lt (a b c : JV) (ha : numsWF a) (hb : numsWF b) (hc : numsWF c)
    (h1 : cmpJV a b ≠ .gt) (h2 : cmpJV b c = .lt) : cmpJV a c = .lt := by
  rw [cmpJV_then a b c ha hb hc h1 (by simp [h2]), h2]
  revert h1; cases cmpJV a b <;> simp [Ordering.then]

theorem cmpJV_gt_trans (a b c : JV) (ha : numsWF a) (hb : numsWF b) (hc : numsWF c)
    (h1 : cmpJV a b = .gt) (h2 : cmpJV b c = .gt) : cmpJV a c = .gt := by
  have e1 : cmpJV b a = .lt := by rw [cmpJV_swap a b ha hb, h1]; rfl
  have e2 : cmpJV c b = .lt := by rw [cmpJV_swap b c hb hc, h2]; rfl
  rw [cmpJV_swap c a hc ha, cmpJV_lt_trans c b a hc hb ha e2 e1]; rfl

/-- equal values compare alike against anything (congruence of the induced equivalence) -/
theorem cmpJV_congr_left (a b c : JV) (ha : numsWF a) (hb : numsWF b) (hc : numsWF c)
    (h : cmpJV a b = .eq) : cmpJV a c = cmpJV b c := by
  have h' : cmpJV b a = .eq := by rw [cmpJV_swap a b ha hb, h]; rfl
  cases hbc : cmpJV b c with
  | lt => exact cmpJV_lt_of_le_of_lt a b c ha hb hc (by simp [h]) hbc
  | eq => exact cmpJV_eq_trans a b c ha hb hc h hbc
  | gt =>
    have e : cmpJV c b = .lt := by rw [cmpJV_swap b c hb hc, hbc]; rfl
    have := cmpJV_lt_of_lt_of_le c b a hc hb ha e (by simp [h'])
    rw [cmpJV_swap c a hc ha, this]; rfl

/-! ### The equivalence of the order is equality as JSON values -/

theorem valEq_false_of_rank_ne (a b : JV) (h : rank a ≠ rank b) : valEq a b = false := by
  cases a <;> cases b <;> first | rfl | exact absurd rfl h | skip
  rename_i x y
  cases x <;> cases y <;> first | rfl | exact absurd rfl h

theorem cmpJV_ne_eq_of_rank_ne (a b : JV) (h : rank a ≠ rank b) : cmpJV a b ≠ .eq := by
  rw [cmpJV_rank a b h, Ne, Nat.compare_eq_eq]; exact h

theorem eq_iff_of_rank_ne (a b : JV) (h : rank a ≠ rank b) :
    cmpJV a b = .eq ↔ valEq a b = true := by
  simp [cmpJV_ne_eq_of_rank_ne a b h, valEq_false_of_rank_ne a b h]

mutual
theorem cmpJV_eq_iff_valEq : (a b : JV) → (cmpJV a b = .eq ↔ valEq a b = true)
  | null, b => by
    cases b with
    | null => simp [cmpJV, valEq]
    | bool x => exact eq_iff_of_rank_ne _ _ (by cases x <;> simp [rank])
    | _ => exact eq_iff_of_rank_ne _ _ (by simp [rank])
  | JV.bool x, b => by
    cases b with
    | bool y => cases x <;> cases y <;> decide
    | _ => exact eq_iff_of_rank_ne _ _ (by cases x <;> simp [rank])
  | num n, b => by
    cases b with
    | num m => simp [cmpJV, valEq]
    | bool x => exact eq_iff_of_rank_ne _ _ (by cases x <;> simp [rank])
    | _ => exact eq_iff_of_rank_ne _ _ (by simp [rank])
  | str s, b => by
    cases b with
    | str t => simp [cmpJV, valEq, lexCmp_eq_iff]
    | bool x => exact eq_iff_of_rank_ne _ _ (by cases x <;> simp [rank])
    | _ => exact eq_iff_of_rank_ne _ _ (by simp [rank])
  | arr as, b => by
    cases b with
    | arr bs => simpa [cmpJV, valEq] using cmpL_eq_iff_valEqL as bs
    | bool x => exact eq_iff_of_rank_ne _ _ (by cases x <;> simp [rank])
    | _ => exact eq_iff_of_rank_ne _ _ (by simp [rank])
  | obj as, b => by
    cases b with
    | obj bs => simpa [cmpJV, valEq] using cmpK_eq_iff_valEqK as bs
    | bool x => exact eq_iff_of_rank_ne _ _ (by cases x <;> simp [rank])
    | _ => exact eq_iff_of_rank_ne _ _ (by simp [rank])
theorem cmpL_eq_iff_valEqL : (as bs : List JV) → (cmpL as bs = .eq ↔ valEqL as bs = true)
  | [], [] => by simp [cmpL, valEqL]
  | [], _ :: _ => by simp [cmpL, valEqL]
  | _ :: _, [] => by simp [cmpL, valEqL]
  | a :: as, b :: bs => by
    rw [cmpL_cons, Ordering.then_eq_eq, valEqL, Bool.and_eq_true, cmpJV_eq_iff_valEq a b,
      cmpL_eq_iff_valEqL as bs]
theorem cmpK_eq_iff_valEqK : (as bs : List (Bytes × JV)) → (cmpK as bs = .eq ↔ valEqK as bs = true)
  | [], [] => by simp [cmpK, valEqK]
  | [], _ :: _ => by simp [cmpK, valEqK]
  | _ :: _, [] => by simp [cmpK, valEqK]
  | (ka, a) :: as, (kb, b) :: bs => by
    rw [cmpK_cons, Ordering.then_eq_eq, Ordering.then_eq_eq, valEqK, Bool.and_eq_true,
      Bool.and_eq_true, cmpJV_eq_iff_valEq a b, cmpK_eq_iff_valEqK as bs, lexCmp_eq_iff,
      beq_iff_eq, and_assoc]
end

/-! ### Arrays: element by element, then by length -/

/-- a common (or pairwise-compared, equally long) prefix is compared first -/
theorem cmpL_append (xs xs' ys zs : List JV) (h : xs.length = xs'.length) :
    cmpL (xs ++ ys) (xs' ++ zs) = (cmpL xs xs').then (cmpL ys zs) := by
  induction xs generalizing xs' with
  | nil =>
    cases xs' with
    | nil => rfl
    | cons _ _ => simp at h
  | cons x xs ih =>
    cases xs' with
    | nil => simp at h
    | cons x' xs' =>
      simp only [List.length_cons, Nat.add_right_cancel_iff] at h
      simp only [List.cons_append, cmpL_cons, ih xs' h, Ordering.then_assoc]

theorem cmpL_prefix (xs ys zs : List JV) (h : numsWFL xs) :
    cmpL (xs ++ ys) (xs ++ zs) = cmpL ys zs := by
  rw [cmpL_append xs xs ys zs rfl, cmpL_refl xs h]; rfl

/-- a proper prefix is smaller -/
theorem cmpL_prefix_lt (xs : List JV) (y : JV) (ys : List JV) (h : numsWFL xs) :
    cmpL xs (xs ++ y :: ys) = .lt := by
  have := cmpL_prefix xs [] (y :: ys) h
  simpa [cmpL] using this

theorem cmpL_prefix_gt (xs : List JV) (y : JV) (ys : List JV) (h : numsWFL xs) :
    cmpL (xs ++ y :: ys) xs = .gt := by
  have := cmpL_prefix xs (y :: ys) [] h
  simpa [cmpL] using this

/-- the first differing element decides -/
theorem cmpL_first_diff (xs : List JV) (y z : JV) (ys zs : List JV) (h : numsWFL xs)
    (hne : cmpJV y z ≠ .eq) : cmpL (xs ++ y :: ys) (xs ++ z :: zs) = cmpJV y z := by
  rw [cmpL_prefix xs _ _ h, cmpL_cons]
  revert hne; cases cmpJV y z <;> simp [Ordering.then]

/-- element-wise equal arrays are ordered by length -/
theorem cmpL_eq_length (xs ys : List JV) (h : cmpL xs ys = .eq) : xs.length = ys.length := by
  induction xs generalizing ys with
  | nil => cases ys <;> simp_all [cmpL]
  | cons x xs ih =>
    cases ys with
    | nil => simp [cmpL] at h
    | cons y ys =>
      rw [cmpL_cons, Ordering.then_eq_eq] at h
      simp [ih ys h.2]

/-! ### Objects: (key, value) pairs in key order, then by size -/

theorem cmpK_append (xs xs' ys zs : List (Bytes × JV)) (h : xs.length = xs'.length) :
    cmpK (xs ++ ys) (xs' ++ zs) = (cmpK xs xs').then (cmpK ys zs) := by
  induction xs generalizing xs' with
  | nil =>
    cases xs' with
    | nil => rfl
    | cons _ _ => simp at h
  | cons x xs ih =>
    obtain ⟨k, x⟩ := x
    cases xs' with
    | nil => simp at h
    | cons x' xs' =>
      obtain ⟨k', x'⟩ := x'
      simp only [List.length_cons, Nat.add_right_cancel_iff] at h
      simp only [List.cons_append, cmpK_cons, ih xs' h, Ordering.then_assoc]

theorem cmpK_prefix (xs ys zs : List (Bytes × JV)) (h : numsWFK xs) :
    cmpK (xs ++ ys) (xs ++ zs) = cmpK ys zs := by
  rw [cmpK_append xs xs ys zs rfl, cmpK_refl xs h]; rfl

theorem cmpK_prefix_lt (xs : List (Bytes × JV)) (y : Bytes × JV) (ys : List (Bytes × JV))
    (h : numsWFK xs) : cmpK xs (xs ++ y :: ys) = .lt := by
  have := cmpK_prefix xs [] (y :: ys) h
  simpa [cmpK] using this

/-- at the first differing member the key decides before the value -/
theorem cmpK_first_key (xs : List (Bytes × JV)) (k k' : Bytes) (y z : JV)
    (ys zs : List (Bytes × JV)) (h : numsWFK xs) (hne : k ≠ k') :
    cmpK (xs ++ (k, y) :: ys) (xs ++ (k', z) :: zs) = lexCmp k k' := by
  rw [cmpK_prefix xs _ _ h, cmpK_cons]
  have : lexCmp k k' ≠ .eq := fun e => hne ((lexCmp_eq_iff k k').1 e)
  revert this; cases lexCmp k k' <;> simp [Ordering.then]

end Spec
end Jsonb
