/-
Agreement theorems, phase 6b, part 9: the recursive group agrees with the model's `parseJsonValue` (margin form of the
fuel, strong induction on the model's fuel), `Parser::parse` and **`parse_value` = the model's `parseValue` for EVERY
byte string**, and the corollary that plugs the translated text parser into phase 3's `from_slice`.
-/
import JsonbModel.Proofs.TranslatedAgreeH8
import JsonbModel.Proofs.TranslatedAgreeC4
import JsonbModel.Proofs.JsonParserFuel

set_option linter.unusedSimpArgs false
set_option linter.unusedVariables false

namespace Jsonb.TrAgree
open Jsonb.Rs

/-- `parse_json_array` with fuel `g + 1` against `must_is(b'[')` followed by the model's `arrLoop F`, for a callee
(`parse_json_value g`) that agrees with the model below `F` -/
theorem parse_json_array_succ (buf : Bytes) (hb : buf.length < 9223372036854775808) (g F idx : Nat)
    (hrec : PRecOK buf F (Tr.Parser.parse_json_value g))
    (hne : (JP.mustIs buf idx 0x5B >>= fun j => JP.arrLoop F buf j true []) ≠ .fuel) :
    Tr.Parser.parse_json_array (g + 1) (pz buf idx) =
      (JP.mustIs buf idx 0x5B >>= fun j => JP.arrLoop F buf j true []).map (ofVP buf) := by
  rw [Tr.Parser.parse_json_array]
  have h91 : ((91 : Int)) = (((0x5B : UInt8).toNat : Nat) : Int) := rfl
  rw [h91, parser_must_is_agrees buf idx 0x5B (by omega)]
  cases hm : JP.mustIs buf idx 0x5B with
  | ok j =>
    rw [hm] at hne
    simp only [rb_ok] at hne ⊢
    simp only [rm_ok, Ctl.ofRes_ok', Ctl.val_bind', pz_buf, tp_len, Int.toNat_natCast]
    have h0 : ([] : List Tr.Value) = ofJVs [] := rfl
    rw [h0]
    exact pa_run buf hb F _ j true [] (buf.length + 1) hrec hne (by omega)
  | err e => rfl
  | panic s => rfl
  | fuel => rfl

theorem parse_json_object_succ (buf : Bytes) (hb : buf.length < 9223372036854775808) (g F idx : Nat)
    (hrec : PRecOK buf F (Tr.Parser.parse_json_value g))
    (hne : (JP.mustIs buf idx 0x7B >>= fun j => JP.objLoop F buf j true []) ≠ .fuel) :
    Tr.Parser.parse_json_object (g + 1) (pz buf idx) =
      (JP.mustIs buf idx 0x7B >>= fun j => JP.objLoop F buf j true []).map (ofVP buf) := by
  rw [Tr.Parser.parse_json_object]
  have h123 : ((123 : Int)) = (((0x7B : UInt8).toNat : Nat) : Int) := rfl
  rw [h123, parser_must_is_agrees buf idx 0x7B (by omega)]
  cases hm : JP.mustIs buf idx 0x7B with
  | ok j =>
    rw [hm] at hne
    simp only [rb_ok] at hne ⊢
    simp only [rm_ok, Ctl.ofRes_ok', Ctl.val_bind', pz_buf, tp_len, Int.toNat_natCast, Rs.btreeNew]
    have h0 : ([] : List (Bytes × Tr.Value)) = ofKVs [] := rfl
    rw [h0]
    exact po_run buf hb F _ j true [] (buf.length + 1) hrec hne (by omega)
  | err e => rfl
  | panic s => rfl
  | fuel => rfl

theorem mustIs_of_next {buf : Bytes} {j : Nat} {c d : UInt8} (hn : JP.next buf j = .ok c) (hc : (c == d) = true) :
    JP.mustIs buf j d = .ok (j + 1) := by
  unfold JP.next at hn
  unfold JP.mustIs
  cases hg : buf[j]? with
  | none => rw [hg] at hn; cases hn
  | some v =>
    rw [hg] at hn
    cases hn
    simp only [hc, if_true]

/-- **the recursive group**: wherever the model with fuel `f` does not run out of fuel, the translation with any fuel
`g ≥ f` computes the model's result -/
theorem parse_json_value_agrees (buf : Bytes) (hb : buf.length < 9223372036854775808) :
    ∀ (f g idx : Nat), f ≤ g → JP.parseJsonValue f buf idx ≠ .fuel →
      Tr.Parser.parse_json_value g (pz buf idx) = (JP.parseJsonValue f buf idx).map (ofVP buf) := by
  intro f
  induction f using Nat.strongRecOn with
  | _ f ih =>
    intro g idx hfg hne
    cases f with
    | zero => exact absurd rfl hne
    | succ f =>
      obtain ⟨g, rfl⟩ : ∃ k, g = k + 1 := ⟨g - 1, by omega⟩
      rw [parse_json_value_succ buf hb g idx]
      rw [JP.parseJsonValue] at hne ⊢
      obtain ⟨j, hj, -, -⟩ := JP.skipUnused_spec buf idx
      simp only [hj, rb_ok] at hne ⊢
      cases hn : JP.next buf j with
      | err e => rfl
      | panic s => rfl
      | fuel => rfl
      | ok c =>
        rw [hn] at hne
        simp only [rb_ok] at hne ⊢
        cases h1 : (c == 0x6E) with
        | true =>
          simp only [h1, if_true]
          cases JP.mustAll buf j [0x6E, 0x75, 0x6C, 0x6C] <;> rfl
        | false =>
        simp only [h1, Bool.false_eq_true, if_false] at hne ⊢
        cases h2 : (c == 0x74) with
        | true =>
          simp only [h2, if_true]
          cases JP.mustAll buf j [0x74, 0x72, 0x75, 0x65] <;> rfl
        | false =>
        simp only [h2, Bool.false_eq_true, if_false] at hne ⊢
        cases h3 : (c == 0x66) with
        | true =>
          simp only [h3, if_true]
          cases JP.mustAll buf j [0x66, 0x61, 0x6C, 0x73, 0x65] <;> rfl
        | false =>
        simp only [h3, Bool.false_eq_true, if_false] at hne ⊢
        cases h4 : (JP.isDigit c || c == 0x2D) with
        | true => simp only [h4, if_true]
        | false =>
        simp only [h4, Bool.false_eq_true, if_false] at hne ⊢
        cases h5 : (c == 0x22) with
        | true => simp only [h5, if_true]
        | false =>
        simp only [h5, Bool.false_eq_true, if_false] at hne ⊢
        have hrec : PRecOK buf f (Tr.Parser.parse_json_value (g - 1)) := by
          intro f' i' hf' hne'
          exact ih f' (by omega) (g - 1) i' (by omega) hne'
        cases h6 : (c == 0x5B) with
        | true =>
          simp only [h6, if_true] at hne ⊢
          cases f with
          | zero =>
            exfalso; apply hne
            rw [mustIs_of_next hn h6]; rfl
          | succ f' =>
            obtain ⟨g', rfl⟩ : ∃ k, g = k + 1 := ⟨g - 1, by omega⟩
            exact parse_json_array_succ buf hb g' (f' + 1) j hrec hne
        | false =>
        simp only [h6, Bool.false_eq_true, if_false] at hne ⊢
        cases h7 : (c == 0x7B) with
        | true =>
          simp only [h7, if_true] at hne ⊢
          cases f with
          | zero =>
            exfalso; apply hne
            rw [mustIs_of_next hn h7]; rfl
          | succ f' =>
            obtain ⟨g', rfl⟩ : ∃ k, g = k + 1 := ⟨g - 1, by omega⟩
            exact parse_json_object_succ buf hb g' (f' + 1) j hrec hne
        | false =>
          simp only [h7, Bool.false_eq_true, if_false]
          rfl

/-- **`Parser::parse`** -/
theorem parser_parse_agrees (buf : Bytes) (hb : buf.length < 9223372036854775808) (f fuel idx : Nat) (hf : f ≤ fuel)
    (hne : JP.parseJsonValue f buf idx ≠ .fuel) :
    Tr.Parser.parse fuel (pz buf idx) =
      (JP.parseJsonValue f buf idx >>= fun p => JP.skipUnused buf p.2 >>= fun j =>
        if j < buf.length then .err "UnexpectedTrailingCharacters" else pure (p.1, j)).map (ofVP buf) := by
  unfold Tr.Parser.parse
  rw [parse_json_value_agrees buf hb f fuel idx hf hne]
  cases hv : JP.parseJsonValue f buf idx with
  | err e => rfl
  | panic s => rfl
  | fuel => rfl
  | ok p =>
    obtain ⟨v, i⟩ := p
    simp only [rm_ok, rb_ok, ofVP, Ctl.ofRes_ok', Ctl.val_bind', parser_skip_unused_agrees buf i hb]
    obtain ⟨j, hj, -, -⟩ := JP.skipUnused_spec buf i
    simp only [hj, rm_ok, rb_ok, Ctl.ofRes_ok', Ctl.val_bind', pz_buf, pz_idx, tp_len, tp_lt_len]
    by_cases hlt : j < buf.length
    · simp only [hlt, decide_true, if_true, parser_step_agrees buf j (by omega), Ctl.ofRes_ok', Ctl.val_bind', Ctl.ret_bind',
        Ctl.run_ret']
      rfl
    · simp only [hlt, decide_false, Bool.false_eq_true, if_false, Ctl.pure_eq', Ctl.val_bind', Ctl.run_ret']
      rfl

/-- **`parse_value`** EQUALS the model's `parseValue` for EVERY byte string (every Rust slice is shorter than `2^63`)
and every fuel from the model's own bound `JP.fuelFor buf = 2 * buf.len() + 2` on -/
theorem parse_value_agrees (buf : Bytes) (hb : buf.length < 9223372036854775808) (fuel : Nat)
    (hf : JP.fuelFor buf ≤ fuel) : Tr.parse_value fuel buf = (parseValue buf).map ofJV := by
  have hne : JP.parseJsonValue (JP.fuelFor buf) buf 0 ≠ .fuel := by
    have := (JP.parse_NF (JP.fuelFor buf) buf).1 0 (by unfold JP.fuelFor; omega)
    unfold JP.NF at this
    exact this
  unfold Tr.parse_value Tr.Parser.new parseValue
  simp only [Ctl.run_ret', Ctl.ofRes_ok', Ctl.val_bind']
  have hp : ({ buf := buf, idx := (0 : Int) } : Tr.Parser) = pz buf 0 := rfl
  rw [hp, parser_parse_agrees buf hb (JP.fuelFor buf) fuel 0 hf hne]
  cases hv : JP.parseJsonValue (JP.fuelFor buf) buf 0 with
  | err e => rfl
  | panic s => rfl
  | fuel => rfl
  | ok p =>
    obtain ⟨v, i⟩ := p
    simp only [rb_ok]
    obtain ⟨j, hj, -, -⟩ := JP.skipUnused_spec buf i
    simp only [hj, rb_ok]
    by_cases hlt : j < buf.length
    · simp only [hlt, if_true]; rfl
    · simp only [hlt, if_false]; rfl

/-- the translated fuel is never exhausted -/
theorem parse_value_ne_fuel (buf : Bytes) (hb : buf.length < 9223372036854775808) (fuel : Nat)
    (hf : JP.fuelFor buf ≤ fuel) : Tr.parse_value fuel buf ≠ .fuel := by
  rw [parse_value_agrees buf hb fuel hf]
  intro c
  have := parseValue_fuel buf
  cases hv : parseValue buf with
  | ok v => rw [hv] at c; cases c
  | err e => rw [hv] at c; cases c
  | panic s => rw [hv] at c; cases c
  | fuel => exact this hv

/-- **`from_slice` with its text fallback translated**: phase 3's `from_slice` (the fallback is a parameter, exactly
where the source calls `parse_value(buf)`) applied to the translated `parse_value` is the model's whole
`T.fromSlice`, for every byte string -/
theorem from_slice_text_whole (buf : Bytes) (hb : buf.length < 9223372036854775808) (fuel fuel' : Nat)
    (hf : decFuel buf < fuel) (hf' : JP.fuelFor buf ≤ fuel') :
    Tr.from_slice fuel buf (Tr.parse_value fuel' buf) = (T.fromSlice buf).map ofJV := by
  rw [parse_value_agrees buf hb fuel' hf']
  exact from_slice_whole buf fuel hf

end Jsonb.TrAgree
