/-
Round trip of the binary codec on the README layout:
`decJsonb (encodeSpec v ++ rest) = ok (norm v, rest)` for every good `v`, any trailing bytes.
-/
import JsonbModel.De
import JsonbModel.Proofs.NumCodec

namespace Jsonb
open JV

/-! ### field extraction from packed words -/

theorem p28 : (268435456 : Nat) = 2 ^ 28 := by simp
theorem p29 : (536870912 : Nat) = 2 ^ 29 := by simp
theorem mJT : C.JENTRY_TYPE_MASK = (2 ^ 3 - 1) * 2 ^ 28 := by simp [C.JENTRY_TYPE_MASK]
theorem mJL : C.JENTRY_OFF_LEN_MASK = 2 ^ 28 - 1 := by simp [C.JENTRY_OFF_LEN_MASK]
theorem mHT : C.CONTAINER_HEADER_TYPE_MASK = (2 ^ 3 - 1) * 2 ^ 29 := by simp [C.CONTAINER_HEADER_TYPE_MASK]
theorem mHL : C.CONTAINER_HEADER_LEN_MASK = 2 ^ 29 - 1 := by simp [C.CONTAINER_HEADER_LEN_MASK]

theorem jeType_def (x : Nat) : jeType x = x &&& C.JENTRY_TYPE_MASK := rfl
theorem jeLen_def (x : Nat) : jeLen x = x &&& C.JENTRY_OFF_LEN_MASK := rfl
theorem hdrType_def (x : Nat) : hdrType x = x &&& C.CONTAINER_HEADER_TYPE_MASK := rfl
theorem hdrLen_def (x : Nat) : hdrLen x = x &&& C.CONTAINER_HEADER_LEN_MASK := rfl

theorem jeType_add (t n : Nat) (ht : t < 8) (hn : n < 268435456) :
    jeType (t * 268435456 + n) = t * 268435456 := by
  have := add_hi t 28 3 n (by omega) ht
  rw [← p28, ← mJT] at this
  rw [jeType_def]; exact this

theorem jeLen_add (t n : Nat) (hn : n < 268435456) :
    jeLen (t * 268435456 + n) = n := by
  have := add_lo t 28 n (by omega)
  rw [← p28, ← mJL] at this
  rw [jeLen_def]; exact this

theorem hdrType_add (t n : Nat) (ht : t < 8) (hn : n < 536870912) :
    hdrType (t * 536870912 + n) = t * 536870912 := by
  have := add_hi t 29 3 n (by omega) ht
  rw [← p29, ← mHT] at this
  rw [hdrType_def]; exact this

theorem hdrLen_add (t n : Nat) (hn : n < 536870912) :
    hdrLen (t * 536870912 + n) = n := by
  have := add_lo t 29 n (by omega)
  rw [← p29, ← mHL] at this
  rw [hdrLen_def]; exact this

/-- every entry type code is `t * 2^28` with `t < 8` -/
def TagForm (x : Nat) : Prop := x = (x / 268435456) * 268435456 ∧ x / 268435456 < 8
theorem tf_null : TagForm C.NULL_TAG := by unfold TagForm; decide
theorem tf_true : TagForm C.TRUE_TAG := by unfold TagForm; decide
theorem tf_false : TagForm C.FALSE_TAG := by unfold TagForm; decide
theorem tf_number : TagForm C.NUMBER_TAG := by unfold TagForm; decide
theorem tf_string : TagForm C.STRING_TAG := by unfold TagForm; decide
theorem tf_container : TagForm C.CONTAINER_TAG := by unfold TagForm; decide

theorem ety_form (v : JV) : TagForm (ety v) := by
  cases v with
  | null => exact tf_null
  | bool b => cases b; exact tf_false; exact tf_true
  | num n => exact tf_number
  | str s => exact tf_string
  | arr vs => exact tf_container
  | obj kvs => exact tf_container

theorem entry_fst (v : JV) : (entry v).1 = ety v + elen v := by
  cases v with
  | bool b => cases b <;> simp [entry, ety, elen]
  | _ => simp [entry, ety, elen]

theorem jeType_entry (v : JV) (h : elen v < 268435456) : jeType (entry v).1 = ety v := by
  rw [entry_fst]
  have ⟨h1, h2⟩ := ety_form v
  rw [h1, jeType_add _ _ h2 h]

theorem jeLen_entry (v : JV) (h : elen v < 268435456) : jeLen (entry v).1 = elen v := by
  rw [entry_fst]
  have ⟨h1, _⟩ := ety_form v
  rw [h1, jeLen_add _ _ h]

theorem entry_lt (v : JV) (h : elen v < 268435456) : (entry v).1 < 4294967296 := by
  rw [entry_fst]
  have ⟨h1, h2⟩ := ety_form v
  omega

/-! ### sizes -/

theorem elen_lt_of_good (v : JV) (h : good v = true) : elen v < 268435456 := by
  cases v with
  | null => simp [elen, entry]
  | bool b => cases b <;> simp [elen, entry]
  | num n =>
    simp only [elen, entry, Num.enc_length]
    cases n <;> simp only [Num.minWidth] <;> (repeat' split) <;> omega
  | str s => simp [good] at h; simp [elen, entry]; exact h.1
  | arr vs => simp [good] at h; simp only [elen]; exact h.1.2
  | obj kvs => simp [good] at h; simp only [elen]; exact h.1.1.2

/-! ### entry lists -/

def entriesL (vs : List JV) : List (Nat × Nat) := vs.map (fun v => (ety v, elen v))
def entriesK (kvs : List (Bytes × JV)) : List (Nat × Nat) := kvs.map (fun kv => (ety kv.2, elen kv.2))
def keyEntries (kvs : List (Bytes × JV)) : List (Nat × Nat) := kvs.map (fun kv => (C.STRING_TAG, kv.1.length))

theorem readEntries_append (n : Nat) (bs : Bytes) (es : List (Nat × Nat)) (mid : Bytes)
    (h : readEntries n bs = some (es, mid)) (m : Nat) (es' : List (Nat × Nat)) (rest : Bytes)
    (h' : readEntries m mid = some (es', rest)) :
    readEntries (n + m) bs = some (es ++ es', rest) := by
  induction n generalizing bs es with
  | zero => simp [readEntries] at h; obtain ⟨rfl, rfl⟩ := h; simpa using h'
  | succ n ih =>
    rw [show n + 1 + m = (n + m) + 1 by omega]
    simp only [readEntries] at h ⊢
    cases hr : readU32 bs with
    | none => simp [hr] at h
    | some p =>
      obtain ⟨e, bs'⟩ := p
      simp only [hr] at h ⊢
      cases hr2 : readEntries n bs' with
      | none => simp [hr2] at h
      | some q =>
        obtain ⟨es0, mid0⟩ := q
        simp only [hr2, Option.some.injEq, Prod.mk.injEq] at h
        obtain ⟨rfl, rfl⟩ := h
        rw [ih bs' es0 hr2]
        simp

theorem readEntries_wordsL (vs : List JV) (h : goodL vs = true) (rest : Bytes) :
    readEntries vs.length (wordsL vs ++ rest) = some (entriesL vs, rest) := by
  induction vs with
  | nil => simp [readEntries, wordsL, entriesL]
  | cons v vs ih =>
    simp only [goodL, Bool.and_eq_true] at h
    have hl := elen_lt_of_good v h.1
    simp only [List.length_cons, readEntries, wordsL, List.append_assoc]
    rw [readU32_u32be _ _ (entry_lt v hl)]
    simp only [ih h.2, jeType_entry v hl, jeLen_entry v hl, entriesL, List.map_cons]

theorem goodK_goodL (kvs : List (Bytes × JV)) (h : goodK kvs = true) : goodL (kvs.map (·.2)) = true := by
  induction kvs with
  | nil => rfl
  | cons kv kvs ih =>
    obtain ⟨k, v⟩ := kv
    simp only [goodK, Bool.and_eq_true] at h
    simp [goodL, h.1.2, ih h.2]

theorem readEntries_wordsK (kvs : List (Bytes × JV)) (h : goodK kvs = true) (rest : Bytes) :
    readEntries kvs.length (wordsK kvs ++ rest) = some (entriesK kvs, rest) := by
  induction kvs with
  | nil => simp [readEntries, wordsK, entriesK]
  | cons kv kvs ih =>
    obtain ⟨k, v⟩ := kv
    simp only [goodK, Bool.and_eq_true] at h
    have hl := elen_lt_of_good v h.1.2
    simp only [List.length_cons, readEntries, wordsK, List.append_assoc]
    rw [readU32_u32be _ _ (entry_lt v hl)]
    simp only [ih h.2, jeType_entry v hl, jeLen_entry v hl, entriesK, List.map_cons]

theorem readEntries_keyWords (kvs : List (Bytes × JV)) (h : goodK kvs = true) (rest : Bytes) :
    readEntries kvs.length (keyWords kvs ++ rest) = some (keyEntries kvs, rest) := by
  induction kvs with
  | nil => simp [readEntries, keyWords, keyEntries]
  | cons kv kvs ih =>
    obtain ⟨k, v⟩ := kv
    simp only [goodK, Bool.and_eq_true, decide_eq_true_eq] at h
    have hl := h.1.1.1
    simp only [List.length_cons, readEntries, keyWords, List.append_assoc]
    have e1 : C.STRING_TAG = 1 * 268435456 := by simp [C.STRING_TAG]
    rw [readU32_u32be _ _ (by rw [e1]; omega)]
    simp only [ih h.2, keyEntries, List.map_cons]
    rw [e1, jeType_add 1 _ (by omega) hl, jeLen_add 1 _ hl]

/-! ### fuel measure (an upper bound on the number of nested calls) -/

mutual
def szS : JV → Nat
  | arr vs => 2 + szL vs
  | obj kvs => 4 + kvs.length + szK kvs
  | _ => 1
def szL : List JV → Nat
  | [] => 1
  | v :: vs => 1 + szS v + szL vs
def szK : List (Bytes × JV) → Nat
  | [] => 1
  | (_, v) :: kvs => 1 + szS v + szK kvs
end

/-! ### keys -/

theorem decItems_keys (kvs : List (Bytes × JV)) (h : goodK kvs = true) (fuel : Nat)
    (hf : kvs.length + 2 ≤ fuel) (rest : Bytes) :
    decItems fuel (keyEntries kvs) (keyBytes kvs ++ rest) = .ok (kvs.map (fun kv => JV.str kv.1), rest) := by
  induction kvs generalizing fuel with
  | nil =>
    cases fuel with
    | zero => omega
    | succ f => simp [decItems, keyEntries, keyBytes]
  | cons kv kvs ih =>
    obtain ⟨k, v⟩ := kv
    simp only [goodK, Bool.and_eq_true, decide_eq_true_eq] at h
    cases fuel with
    | zero => simp at hf
    | succ f =>
      cases f with
      | zero => simp at hf
      | succ f' =>
        simp only [keyEntries, List.map_cons, keyBytes, List.append_assoc, decItems, decScalar]
        have c1 : ¬ C.STRING_TAG = C.NULL_TAG := by decide
        have c2 : ¬ C.STRING_TAG = C.TRUE_TAG := by decide
        have c3 : ¬ C.STRING_TAG = C.FALSE_TAG := by decide
        simp only [c1, c2, c3, if_false, if_true, List.length_append, List.take_left', List.drop_left',
          Nat.le_add_right, h.1.1.2]
        have := ih h.2 (f' + 1) (by simp at hf ⊢; omega)
        simp only [keyEntries] at this
        rw [this]

/-! ### `mkObj` on strictly sorted input is the identity -/

theorem lexCmp_lt_trans {a b c : Bytes} (h1 : lexCmp a b = .lt) (h2 : lexCmp b c = .lt) :
    lexCmp a c = .lt := by
  induction a generalizing b c with
  | nil => cases b <;> cases c <;> simp_all [lexCmp]
  | cons x xs ih =>
    cases b with
    | nil => simp [lexCmp] at h1
    | cons y ys =>
      cases c with
      | nil => simp [lexCmp] at h2
      | cons z zs =>
        simp only [lexCmp] at h1 h2 ⊢
        by_cases hxy : x < y
        · by_cases hyz : y < z
          · have : x < z := UInt8.lt_trans hxy hyz
            simp [this]
          · by_cases hzy : z < y
            · simp [hyz, hzy] at h2
            · have : y = z := UInt8.le_antisymm (UInt8.not_lt.mp hzy) (UInt8.not_lt.mp hyz)
              subst this; simp [hxy]
        · by_cases hyx : y < x
          · simp [hxy, hyx] at h1
          · have : x = y := UInt8.le_antisymm (UInt8.not_lt.mp hyx) (UInt8.not_lt.mp hxy)
            subst this
            simp only [hxy, if_false] at h1
            by_cases hxz : x < z
            · simp [hxz]
            · by_cases hzx : z < x
              · simp [hxz, hzx] at h2
              · simp only [hxz, hzx, if_false] at h2 ⊢
                exact ih h1 h2

theorem lexCmp_gt_of_lt {a b : Bytes} (h : lexCmp a b = .lt) : lexCmp b a = .gt := by
  induction a generalizing b with
  | nil => cases b <;> simp_all [lexCmp]
  | cons x xs ih =>
    cases b with
    | nil => simp [lexCmp] at h
    | cons y ys =>
      simp only [lexCmp] at h ⊢
      by_cases hxy : x < y
      · have : ¬ y < x := fun h' => absurd (UInt8.lt_trans hxy h') (UInt8.lt_irrefl _)
        simp [hxy, this]
      · by_cases hyx : y < x
        · simp [hxy, hyx] at h
        · simp only [hxy, hyx, if_false] at h ⊢
          exact ih h

/-- all keys of `m` are strictly below `k` -/
def allLt (m : List (Bytes × JV)) (k : Bytes) : Prop := ∀ kv ∈ m, lexCmp kv.1 k = .lt

theorem insertKV_append (m : List (Bytes × JV)) (k : Bytes) (v : JV) (h : allLt m k) :
    insertKV k v m = m ++ [(k, v)] := by
  induction m with
  | nil => rfl
  | cons kv m ih =>
    obtain ⟨k', v'⟩ := kv
    have h1 : lexCmp k' k = .lt := h (k', v') (by simp)
    have h2 := lexCmp_gt_of_lt h1
    simp only [insertKV, h2, List.cons_append]
    rw [ih (fun kv hkv => h kv (by simp [hkv]))]

theorem keysSorted_cons {k : Bytes} {v : JV} {kvs : List (Bytes × JV)}
    (h : keysSorted ((k, v) :: kvs) = true) :
    keysSorted kvs = true ∧ ∀ kv ∈ kvs, lexCmp k kv.1 = .lt := by
  induction kvs generalizing k v with
  | nil => simp [keysSorted]
  | cons kv kvs ih =>
    obtain ⟨k2, v2⟩ := kv
    simp only [keysSorted, Bool.and_eq_true, beq_iff_eq] at h
    refine ⟨h.2, ?_⟩
    intro kv hkv
    simp only [List.mem_cons] at hkv
    cases hkv with
    | inl e => subst e; exact h.1
    | inr hm =>
      have := (ih h.2).2 kv hm
      exact lexCmp_lt_trans h.1 this

theorem foldl_insert_sorted (pre kvs : List (Bytes × JV))
    (hs : keysSorted kvs = true) (hp : ∀ kv ∈ kvs, allLt pre kv.1) :
    kvs.foldl (fun m kv => insertKV kv.1 kv.2 m) pre = pre ++ kvs := by
  induction kvs generalizing pre with
  | nil => simp
  | cons kv kvs ih =>
    obtain ⟨k, v⟩ := kv
    simp only [List.foldl_cons]
    rw [insertKV_append pre k v (hp (k, v) (by simp))]
    have ⟨hs', hlt⟩ := keysSorted_cons hs
    rw [ih (pre ++ [(k, v)]) hs']
    · simp
    · intro kv hkv kv' hkv'
      simp only [List.mem_append, List.mem_singleton] at hkv'
      cases hkv' with
      | inl h1 => exact hp kv (by simp [hkv]) kv' h1
      | inr h1 => subst h1; exact hlt kv hkv

theorem mkObj_sorted (kvs : List (Bytes × JV)) (hs : keysSorted kvs = true) : mkObj kvs = kvs := by
  have := foldl_insert_sorted [] kvs hs (by intro kv _ kv' h; simp at h)
  simpa [mkObj] using this

theorem keysSorted_normKvs (kvs : List (Bytes × JV)) : keysSorted (normKvs kvs) = keysSorted kvs := by
  induction kvs with
  | nil => rfl
  | cons kv kvs ih =>
    obtain ⟨k, v⟩ := kv
    cases kvs with
    | nil => simp [normKvs, keysSorted]
    | cons kv2 kvs2 =>
      obtain ⟨k2, v2⟩ := kv2
      simp only [normKvs, keysSorted] at ih ⊢
      rw [ih]


theorem tag_arr' : C.ARRAY_CONTAINER_TAG = 4 * 536870912 := by decide
theorem tag_obj' : C.OBJECT_CONTAINER_TAG = 2 * 536870912 := by decide
theorem wordsL_length' (vs : List JV) : (wordsL vs).length = vs.length * 4 := by
  induction vs with
  | nil => rfl
  | cons v vs ih => simp [wordsL, ih]; omega
theorem wordsK_length' (kvs : List (Bytes × JV)) : (wordsK kvs).length = kvs.length * 4 := by
  induction kvs with
  | nil => rfl
  | cons kv kvs ih => obtain ⟨k, v⟩ := kv; simp [wordsK, ih]; omega
theorem keyWords_length' (kvs : List (Bytes × JV)) : (keyWords kvs).length = kvs.length * 4 := by
  induction kvs with
  | nil => rfl
  | cons kv kvs ih => obtain ⟨k, v⟩ := kv; simp [keyWords, ih]; omega

end Jsonb
