/-
"Never runs out of fuel, never lengthens the input" lemmas for the nom combinators.
`Fine L p`: on every input shorter than `L`, `p` does not return `.fuel`, and on success the
remaining input is not longer than the input.  The bound `L` is what makes the fuel-indexed
recursion of `expr_or` go through (recursive calls happen on strictly shorter input).
-/
import JsonbModel.Nom

namespace Jsonb.Nom

/-- `r` is not `.fuel` and, if it is a success, leaves at most `n` bytes -/
def Post {α} (n : Nat) (r : PR α) : Prop := r ≠ .fuel ∧ ∀ a t, r = .ok a t → t.length ≤ n

def Fine {α} (L : Nat) (p : Parser α) : Prop := ∀ i : Bytes, i.length < L → Post i.length (p i)

theorem post_ok {α} {n : Nat} (a : α) (t : Bytes) (h : t.length ≤ n) : Post n (.ok a t) :=
  ⟨by simp, by intro a' t' e; simp at e; rw [← e.2]; exact h⟩
theorem post_error {α} {n : Nat} : Post n (.error : PR α) := ⟨by simp, by simp⟩
theorem post_failure {α} {n : Nat} : Post n (.failure : PR α) := ⟨by simp, by simp⟩
theorem post_panic {α} {n : Nat} (s : String) : Post n (.panic s : PR α) := ⟨by simp, by simp⟩

theorem post_mono {α} {m n : Nat} {r : PR α} (h : Post m r) (hmn : m ≤ n) : Post n r :=
  ⟨h.1, fun a t e => Nat.le_trans (h.2 a t e) hmn⟩

theorem post_bind {α β} {n : Nat} {r : PR α} {f : α → Bytes → PR β} (hr : r ≠ .fuel)
    (hf : ∀ a t, r = .ok a t → Post n (f a t)) : Post n (r.bind f) := by
  cases r with
  | ok a t => exact hf a t rfl
  | error => exact post_error
  | failure => exact post_failure
  | panic s => exact post_panic s
  | fuel => exact absurd rfl hr

/-- sequencing step used by all the sequence combinators: run `q` on what `p` left -/
theorem post_then {β} {L : Nat} {q : Parser β} (hq : Fine L q) {i : Bytes} (hi : i.length < L)
    {t : Bytes} (ht : t.length ≤ i.length) : Post i.length (q t) :=
  post_mono (hq t (by omega)) ht

theorem fine_map {α β} {L} {p : Parser α} (f : α → β) (hp : Fine L p) : Fine L (map p f) := by
  intro i hi; unfold map
  exact post_bind (hp i hi).1 (fun a t e => post_ok _ _ ((hp i hi).2 a t e))

theorem fine_value {α β} {L} {p : Parser α} (v : β) (hp : Fine L p) : Fine L (value v p) := by
  intro i hi; unfold value
  exact post_bind (hp i hi).1 (fun a t e => post_ok _ _ ((hp i hi).2 a t e))

theorem fine_pair {α β} {L} {p : Parser α} {q : Parser β} (hp : Fine L p) (hq : Fine L q) :
    Fine L (pair p q) := by
  intro i hi; unfold pair
  refine post_bind (hp i hi).1 (fun a t e => ?_)
  have h1 := post_then hq hi ((hp i hi).2 a t e)
  exact post_bind h1.1 (fun b u e' => post_ok _ _ (h1.2 b u e'))

theorem fine_preceded {α β} {L} {p : Parser α} {q : Parser β} (hp : Fine L p) (hq : Fine L q) :
    Fine L (preceded p q) := by
  intro i hi; unfold preceded
  exact post_bind (hp i hi).1 (fun a t e => post_then hq hi ((hp i hi).2 a t e))

theorem fine_terminated {α β} {L} {p : Parser α} {q : Parser β} (hp : Fine L p) (hq : Fine L q) :
    Fine L (terminated p q) := by
  intro i hi; unfold terminated
  refine post_bind (hp i hi).1 (fun a t e => ?_)
  have h1 := post_then hq hi ((hp i hi).2 a t e)
  exact post_bind h1.1 (fun b u e' => post_ok _ _ (h1.2 b u e'))

theorem fine_tuple3 {α β γ} {L} {p : Parser α} {q : Parser β} {s : Parser γ}
    (hp : Fine L p) (hq : Fine L q) (hs : Fine L s) : Fine L (tuple3 p q s) := by
  intro i hi; unfold tuple3
  refine post_bind (hp i hi).1 (fun a t e => ?_)
  have h1 := post_then hq hi ((hp i hi).2 a t e)
  refine post_bind h1.1 (fun b u e' => ?_)
  have h2 := post_then hs hi (h1.2 b u e')
  exact post_bind h2.1 (fun c w e'' => post_ok _ _ (h2.2 c w e''))

theorem fine_delimited {α β γ} {L} {p : Parser α} {q : Parser β} {s : Parser γ}
    (hp : Fine L p) (hq : Fine L q) (hs : Fine L s) : Fine L (delimited p q s) := by
  intro i hi; unfold delimited
  refine post_bind (hp i hi).1 (fun a t e => ?_)
  have h1 := post_then hq hi ((hp i hi).2 a t e)
  refine post_bind h1.1 (fun b u e' => ?_)
  have h2 := post_then hs hi (h1.2 b u e')
  exact post_bind h2.1 (fun c w e'' => post_ok _ _ (h2.2 c w e''))

/-- `delimited` whose opening parser consumes at least one byte: the middle parser only needs
to be fine on strictly shorter inputs (the recursive calls of `expr_or`) -/
theorem fine_delimited_strict {α β γ} {L} {p : Parser α} {q : Parser β} {s : Parser γ}
    (hp : Fine (L + 1) p) (hstrict : ∀ i a t, p i = .ok a t → t.length < i.length)
    (hq : Fine L q) (hs : Fine (L + 1) s) : Fine (L + 1) (delimited p q s) := by
  intro i hi; unfold delimited
  refine post_bind (hp i hi).1 (fun a t e => ?_)
  have hlt := hstrict i a t e
  have h1 : Post i.length (q t) := post_mono (hq t (by omega)) (by omega)
  refine post_bind h1.1 (fun b u e' => ?_)
  have h2 := post_then hs hi (h1.2 b u e')
  exact post_bind h2.1 (fun c w e'' => post_ok _ _ (h2.2 c w e''))

theorem fine_separatedPair {α β γ} {L} {p : Parser α} {q : Parser β} {s : Parser γ}
    (hp : Fine L p) (hq : Fine L q) (hs : Fine L s) : Fine L (separatedPair p q s) := by
  intro i hi; unfold separatedPair
  refine post_bind (hp i hi).1 (fun a t e => ?_)
  have h1 := post_then hq hi ((hp i hi).2 a t e)
  refine post_bind h1.1 (fun b u e' => ?_)
  have h2 := post_then hs hi (h1.2 b u e')
  exact post_bind h2.1 (fun c w e'' => post_ok _ _ (h2.2 c w e''))

theorem fine_tuple4 {α β γ δ} {L} {p : Parser α} {q : Parser β} {s : Parser γ} {u : Parser δ}
    (hp : Fine L p) (hq : Fine L q) (hs : Fine L s) (hu : Fine L u) : Fine L (tuple4 p q s u) := by
  intro i hi; unfold tuple4
  refine post_bind (hp i hi).1 (fun a t e => ?_)
  have h1 := post_then hq hi ((hp i hi).2 a t e)
  refine post_bind h1.1 (fun b t2 e' => ?_)
  have h2 := post_then hs hi (h1.2 b t2 e')
  refine post_bind h2.1 (fun c t3 e'' => ?_)
  have h3 := post_then hu hi (h2.2 c t3 e'')
  exact post_bind h3.1 (fun d t4 e''' => post_ok _ _ (h3.2 d t4 e'''))

theorem fine_alt {α} {L} {p q : Parser α} (hp : Fine L p) (hq : Fine L q) : Fine L (alt p q) := by
  intro i hi; unfold alt
  split
  · exact hq i hi
  · exact hp i hi

theorem fine_opt {α} {L} {p : Parser α} (hp : Fine L p) : Fine L (opt p) := by
  intro i hi; unfold opt
  have h := hp i hi
  split
  · rename_i a r e; exact post_ok _ _ (h.2 a r e)
  · exact post_ok _ _ (Nat.le_refl _)
  · exact post_failure
  · exact post_panic _
  · rename_i e; exact absurd e h.1

theorem fine_cond {α} {L} {p : Parser α} (b : Bool) (hp : Fine L p) : Fine L (cond b p) := by
  intro i hi; unfold cond
  split
  · exact post_bind (hp i hi).1 (fun a t e => post_ok _ _ ((hp i hi).2 a t e))
  · exact post_ok _ _ (Nat.le_refl _)

theorem fine_mapRes {α β} {L} {p : Parser α} (f : α → Option β) (hp : Fine L p) :
    Fine L (mapRes p f) := by
  intro i hi; unfold mapRes
  refine post_bind (hp i hi).1 (fun a t e => ?_)
  split
  · exact post_ok _ _ ((hp i hi).2 a t e)
  · exact post_error

theorem fine_not {α} {L} {p : Parser α} (hp : Fine L p) : Fine L (not p) := by
  intro i hi; unfold not
  have h := hp i hi
  split
  · exact post_error
  · exact post_ok _ _ (Nat.le_refl _)
  · exact post_failure
  · exact post_panic _
  · rename_i e; exact absurd e h.1

theorem fine_cut {α} {L} {p : Parser α} (hp : Fine L p) : Fine L (cut p) := by
  intro i hi; unfold cut
  split
  · exact post_failure
  · exact hp i hi

theorem many0Loop_post {α} {L} {p : Parser α} (hp : Fine L p) (n : Nat) :
    ∀ (i : Bytes) (acc : List α), i.length < L → i.length < n →
      Post i.length (many0Loop p n i acc) := by
  induction n with
  | zero => intro i acc _ h; omega
  | succ n ih =>
    intro i acc hi hn
    unfold many0Loop
    have h := hp i hi
    split
    · exact post_ok _ _ (Nat.le_refl _)
    · rename_i o i1 e
      have hle := h.2 o i1 e
      split
      · exact post_error
      · rename_i hne
        have : i1.length ≠ i.length := by simpa using hne
        exact post_mono (ih i1 _ (by omega) (by omega)) hle
    · exact post_failure
    · exact post_panic _
    · rename_i e; exact absurd e h.1

theorem fine_many0 {α} {L} {p : Parser α} (hp : Fine L p) : Fine L (many0 p) := by
  intro i hi; unfold many0
  exact many0Loop_post hp _ i [] hi (by omega)

theorem sepList1Loop_post {α β} {L} {sep : Parser β} {p : Parser α} (hs : Fine L sep)
    (hp : Fine L p) (n : Nat) :
    ∀ (i : Bytes) (acc : List α), i.length < L → i.length < n →
      Post i.length (sepList1Loop sep p n i acc) := by
  induction n with
  | zero => intro i acc _ h; omega
  | succ n ih =>
    intro i acc hi hn
    unfold sepList1Loop
    have h := hs i hi
    split
    · exact post_ok _ _ (Nat.le_refl _)
    · rename_i x i1 e
      have hle := h.2 x i1 e
      split
      · exact post_error
      · rename_i hne
        have hne' : i1.length ≠ i.length := by simpa using hne
        have h2 := hp i1 (by omega)
        split
        · exact post_ok _ _ (Nat.le_refl _)
        · rename_i o i2 e2
          have hle2 := h2.2 o i2 e2
          exact post_mono (ih i2 _ (by omega) (by omega)) (by omega)
        · exact post_failure
        · exact post_panic _
        · rename_i e2; exact absurd e2 h2.1
    · exact post_failure
    · exact post_panic _
    · rename_i e; exact absurd e h.1

theorem fine_separatedList1 {α β} {L} {sep : Parser β} {p : Parser α} (hs : Fine L sep)
    (hp : Fine L p) : Fine L (separatedList1 sep p) := by
  intro i hi; unfold separatedList1
  refine post_bind (hp i hi).1 (fun o i1 e => ?_)
  have hle := (hp i hi).2 o i1 e
  exact post_mono (sepList1Loop_post hs hp _ i1 [o] (by omega) (by omega)) hle

theorem char_strict (c : UInt8) (i : Bytes) (a : UInt8) (t : Bytes) (h : char c i = .ok a t) :
    t.length < i.length := by
  unfold char at h
  split at h
  · split at h
    · simp at h; rw [← h.2]; simp
    · simp at h
  · simp at h

theorem fine_char {L} (c : UInt8) : Fine L (char c) := by
  intro i _
  refine ⟨?_, fun a t e => Nat.le_of_lt (char_strict c i a t e)⟩
  unfold char; split
  · split <;> simp
  · simp

theorem fine_oneOf {L} (cs : List UInt8) : Fine L (oneOf cs) := by
  intro i _; unfold oneOf
  split
  · split
    · exact post_ok _ _ (by simp)
    · exact post_error
  · exact post_error

theorem fine_tag {L} (t : Bytes) : Fine L (tag t) := by
  intro i _; unfold tag
  split
  · exact post_ok _ _ (by simp)
  · exact post_error

theorem fine_tagNoCase {L} (t : Bytes) : Fine L (tagNoCase t) := by
  intro i _; unfold tagNoCase
  split
  · exact post_ok _ _ (by simp)
  · exact post_error

theorem dropSpaces_length (i : Bytes) : (dropSpaces i).length ≤ i.length := by
  induction i with
  | nil => simp [dropSpaces]
  | cons b r ih =>
    unfold dropSpaces
    split
    · simp; omega
    · simp

theorem fine_multispace0 {L} : Fine L multispace0 := by
  intro i _
  exact post_ok _ _ (dropSpaces_length i)

theorem intLoop_post (neg : Bool) (lo hi : Int) (bs : Bytes) :
    ∀ (v : Int) (first : Bool), Post bs.length (intLoop neg lo hi bs v first) := by
  induction bs with
  | nil => intro v f; simp [intLoop]; exact post_ok _ _ (by simp)
  | cons b r ih =>
    intro v f
    unfold intLoop
    split
    · split
      · exact post_error
      · split
        · exact post_error
        · exact post_mono (ih _ _) (by simp)
    · split
      · exact post_error
      · exact post_ok _ _ (Nat.le_refl _)

theorem splitSign_length (i : Bytes) : (splitSign i).2.length ≤ i.length := by
  unfold splitSign
  split <;> simp

theorem fine_signedInt {L} (lo hi : Int) : Fine L (signedInt lo hi) := by
  intro i _; unfold signedInt
  split
  · exact post_error
  · exact post_mono (intLoop_post _ _ _ _ _ _) (splitSign_length i)

theorem fine_unsignedInt {L} (hi : Int) : Fine L (unsignedInt hi) := by
  intro i _; unfold unsignedInt
  split
  · exact post_error
  · exact intLoop_post _ _ _ _ _ _

theorem fine_i32 {L} : Fine L i32 := fine_signedInt _ _
theorem fine_i64 {L} : Fine L i64 := fine_signedInt _ _
theorem fine_u64 {L} : Fine L u64 := fine_map _ (fine_unsignedInt _)

theorem spanDigits_length (i : Bytes) : (spanDigits i).2.length ≤ i.length := by
  induction i with
  | nil => simp [spanDigits]
  | cons b r ih =>
    unfold spanDigits
    split
    · simp only []; simp; omega
    · simp

theorem fine_digit1 {L} : Fine L digit1 := by
  intro i _; unfold digit1
  have := spanDigits_length i
  split
  · exact post_error
  · rename_i d r _ e; rw [e] at this; exact post_ok _ _ this

theorem fine_optSign {L} : Fine L optSign := by
  intro i _; unfold optSign
  split
  · exact post_ok _ _ (by simp)
  · exact post_ok _ _ (by simp)
  · exact post_ok _ _ (Nat.le_refl _)

theorem fine_recognizeFloat {L} : Fine L recognizeFloat := by
  intro i hi; unfold recognizeFloat
  have h0 := (fine_optSign (L := L)) i hi
  refine post_bind h0.1 (fun neg r0 e0 => ?_)
  have hr0 := h0.2 neg r0 e0
  simp only []
  have hmant : Fine L (alt
        (fun i => (digit1 i).bind fun ds r =>
          (opt (pair (char 46) (opt digit1)) r).bind fun o r' =>
            match o with
            | some (_, some fs) => PR.ok (ds, fs) r'
            | _ => PR.ok (ds, []) r')
        (fun i => (char 46 i).bind fun _ r => (digit1 r).bind fun fs r' => PR.ok (([] : Bytes), fs) r')) := by
    refine fine_alt ?_ ?_
    · intro j hj
      have h1 := (fine_digit1 (L := L)) j hj
      refine post_bind h1.1 (fun ds r e1 => ?_)
      have h2 := post_then (fine_opt (fine_pair (fine_char 46) (fine_opt fine_digit1))) hj (h1.2 ds r e1)
      refine post_bind h2.1 (fun o r' e2 => ?_)
      have hl := h2.2 o r' e2
      split <;> exact post_ok _ _ hl
    · intro j hj
      have h1 := (fine_char (L := L) 46) j hj
      refine post_bind h1.1 (fun x r e1 => ?_)
      have h2 := post_then (fine_digit1 (L := L)) hj (h1.2 x r e1)
      exact post_bind h2.1 (fun fs r' e2 => post_ok _ _ (h2.2 fs r' e2))
  have h1 := post_then hmant hi hr0
  refine post_bind h1.1 (fun dsfs r1 e1 => ?_)
  obtain ⟨ds, fs⟩ := dsfs
  simp only []
  have h2 := post_then (fine_opt (fine_tuple3 (fine_alt (fine_char 101) (fine_char 69)) fine_optSign
    (fine_cut fine_digit1))) hi (h1.2 _ r1 e1)
  refine post_bind h2.1 (fun o r2 e2 => ?_)
  have hl := h2.2 o r2 e2
  split <;> exact post_ok _ _ hl

theorem fine_double {L} : Fine L double :=
  fine_alt (fine_map _ fine_recognizeFloat)
    (fine_alt (fine_value _ (fine_tagNoCase _))
      (fine_alt (fine_value _ (fine_tagNoCase _)) (fine_value _ (fine_tagNoCase _))))

end Jsonb.Nom
