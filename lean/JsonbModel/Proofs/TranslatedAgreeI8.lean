/-
Phase 6c, serde bridge.  I8: one unfolding of `containter_to_serde_json`, the group against `Fn.toSerde` /
`Fn.serdeScalar` by strong induction on the model's fuel, `containter_to_serde_json_object`, the public
`to_serde_json` / `to_serde_json_object`.
-/
import JsonbModel.Proofs.TranslatedAgreeI7

set_option linter.unusedSimpArgs false
set_option linter.unusedVariables false

namespace Jsonb.TrAgree
open Jsonb.Rs

/-- `read_u32(value, 0).unwrap_or_default()` -/
theorem read_header_or_default (value : Bytes) :
    Rs.resUnwrapOr (Tr.read_u32 value 0) 0 = .ok ((((readU32At value 0).getD 0 : Nat)) : Int) := by
  rw [read_u32_zero]
  cases readU32At value 0 <;> rfl

theorem iterObjEntries_ne_err (value : Bytes) (h : Nat) (e : String) : iterObjEntries value h ≠ .err e := by
  intro c
  unfold iterObjEntries at c
  dsimp only at c
  cases hfk : fillKeys value (hdrLen h) 4 (4 + hdrLen h * 8) with
  | none => rw [hfk] at c; cases c
  | some q => obtain ⟨ks, jo, vo⟩ := q; rw [hfk] at c; exact iterObjLoop_ne_err value _ _ _ _ e c

theorem iterObjEntries_fits (value : Bytes) (h : Nat) (ms : List (Bytes × JE × Bytes))
    (hm : iterObjEntries value h = .ok ms) : ∀ m ∈ ms, JEFits m.2.1 := by
  unfold iterObjEntries at hm
  dsimp only at hm
  cases hfk : fillKeys value (hdrLen h) 4 (4 + hdrLen h * 8) with
  | none => rw [hfk] at hm; cases hm
  | some q => obtain ⟨ks, jo, vo⟩ := q; rw [hfk] at hm; exact (iterObjLoop_bounds value _ _ _ _ ms hm).2.1

/-- one unfolding of `containter_to_serde_json`, for any callee fuel that outlasts the iterators -/
theorem containter_to_serde_json_step (g f : Nat) (value : Bytes) (hlen : value.length < 9223372036854775808)
    (hg : 536870913 < g) (hrec : SerdeRecOK (f + 1) (Tr.scalar_to_serde_json g))
    (hne : Fn.toSerde (f + 1) value ≠ .fuel) (hnp : (Fn.toSerde (f + 1) value).isPanic = false) :
    Tr.containter_to_serde_json (g + 1) value = Fn.toSerde (f + 1) value := by
  rw [Tr.containter_to_serde_json]
  rw [Fn.toSerde] at hne hnp ⊢
  generalize hh : (readU32At value 0).getD 0 = h at hne hnp ⊢
  have hL := hdrLen_lt h
  have h4 : ((4 : Nat) : Int) = 4 := rfl
  have h8 : ((8 : Nat) : Int) = 8 := rfl
  simp only [read_header_or_default, hh, Ctl.ofRes_ok', Ctl.val_bind', hdrType_eq, hdrLen_cast]
  simp only [decide_eq_true_eq]
  by_cases c1 : hdrType h = C.OBJECT_CONTAINER_TAG
  · simp only [if_pos c1, iterate_object_entries_agrees, Ctl.ofRes_ok', Ctl.val_bind'] at hne hnp ⊢
    have hi : ∃ ms, iterObjEntries value h = .ok ms := by
      apply res_ok_of _ _ _ (iterObjEntries_ne_err value h)
      · intro c; rw [c] at hne; exact hne rfl
      · cases hia : iterObjEntries value h with
        | panic s => rw [hia] at hnp; simp [Res.isPanic] at hnp
        | _ => rfl
    obtain ⟨ms, hms⟩ := hi
    rw [hms] at hne hnp ⊢
    dsimp only at hne hnp ⊢
    rw [forIter_of_drain _ _ g _ (ms.map ofMember) _ (drain_object_ok value h g ms (by omega) hms)]
    have hrun := serde_members_run (Tr.scalar_to_serde_json g) ms f [] (hrec.mono (by omega))
      (fun m hm => ⟨by have := iterObjEntries_item_le value h ms hms m hm; omega, (iterObjEntries_fits value h ms hms m hm).2⟩)
    simp only [Rs.sjMapWithCapacity]
    cases hm : Fn.serdeMembers f ms [] with
    | fuel => rw [hm] at hne; exact absurd rfl hne
    | panic s => rw [hm] at hnp; simp [Res.map, Res.bind, Res.isPanic] at hnp
    | err e =>
      rw [hm] at hrun
      simp only [LoopVal] at hrun
      simp only [hrun, Ctl.ret_bind', Ctl.run_ret', Res.map, Res.bind]
    | ok res =>
      rw [hm] at hrun
      simp only [LoopVal] at hrun
      simp only [hrun, Ctl.val_bind', Ctl.pure_eq', Ctl.run_ret', Res.map, Res.bind, Rs.sjObject]
  simp only [if_neg c1] at hne hnp ⊢
  by_cases c2 : hdrType h = C.ARRAY_CONTAINER_TAG
  · have hcap : Rs.vecWithCapacity SJ 72 ((hdrLen h : Nat) : Int) = .ok [] := by
      unfold Rs.vecWithCapacity
      have : IntTy.isize.maxVal = 9223372036854775807 := rfl
      rw [if_pos (by rw [this]; omega)]
    simp only [if_pos c2, iterate_array_agrees, hcap, Ctl.ofRes_ok', Ctl.val_bind'] at hne hnp ⊢
    have hi : ∃ items, iterArray value h = .ok items := by
      apply res_ok_of _ (iterArray_ne_fuel value h) _ (iterArray_ne_err value h)
      cases hia : iterArray value h with
      | panic s => rw [hia] at hnp; simp [Res.isPanic] at hnp
      | _ => rfl
    obtain ⟨items, hit⟩ := hi
    rw [hit] at hne hnp ⊢
    dsimp only at hne hnp ⊢
    rw [forIter_of_drain _ _ g _ (items.map ofItem) _ (drain_array_ok value h g items (by omega) hit)]
    have hrun := serde_items_run (Tr.scalar_to_serde_json g) items f [] (hrec.mono (by omega))
      (fun x hx => ⟨by have := iterArray_item_le value h items hit x hx; omega, ((iterArray_bounds value h items hit).2.1 x hx).2⟩)
    cases hm : Fn.serdeItems f items with
    | fuel => rw [hm] at hne; exact absurd rfl hne
    | panic s => rw [hm] at hnp; simp [Res.map, Res.bind, Res.isPanic] at hnp
    | err e =>
      rw [hm] at hrun
      simp only [LoopVal, Res.map, Res.bind] at hrun
      simp only [hrun, Ctl.ret_bind', Ctl.run_ret', Res.map, Res.bind]
    | ok res =>
      rw [hm] at hrun
      simp only [LoopVal, Res.map, Res.bind, List.nil_append] at hrun
      simp only [hrun, Ctl.val_bind', Ctl.pure_eq', Ctl.run_ret', Res.map, Res.bind, Rs.sjArray]
  simp only [if_neg c2] at hne hnp ⊢
  by_cases c3 : hdrType h = C.SCALAR_CONTAINER_TAG
  · simp only [if_pos c3, read_u32_four] at hne hnp ⊢
    cases hw : readU32At value 4 with
    | none => simp only [Rs.resOpt, Ctl.val_bind', Ctl.ret_bind', Ctl.run_ret']
    | some w =>
      have h8v := readU32At_some_len _ _ _ hw
      rw [hw] at hne hnp
      simp only [sliceFrom_model_ok value 8 (by omega)] at hne hnp ⊢
      simp only [Rs.resOpt, Ctl.val_bind', Ctl.pure_eq', decode_jentry_agrees, Ctl.ofRes_ok', ← h8,
        sliceFrom_nat value 8 (by omega)]
      have hcall := hrec f (by omega) (JE.ofWord w) (value.drop 8) (by simp; omega)
        (by have := jeLen_lt w; simp only [JE.ofWord]; omega) hne hnp
      simp only [ofJE, JE.ofWord] at hcall
      rw [hcall]
      simp only [JE.ofWord]
      cases Fn.serdeScalar f ⟨jeType w, jeLen w, w⟩ (List.drop 8 value) with
      | ok x => simp only [Ctl.ofRes_ok', Ctl.val_bind', Ctl.pure_eq', Ctl.run_ret']
      | err e => simp only [Ctl.ofRes_err', Ctl.ret_bind', Ctl.run_ret']
      | panic s => simp only [Ctl.ofRes_panic', Ctl.ret_bind', Ctl.run_ret']
      | fuel => rfl
  simp only [if_neg c3, Ctl.ret_bind', Ctl.run_ret']

/-- what is proved of the pair (model fuel `f`, translation fuel `g`) -/
def SerdeAgree (f g : Nat) : Prop :=
  (∀ (je : JE) (value : Bytes), value.length < 9223372036854775808 → je.len < 4294967296 →
    Fn.serdeScalar f je value ≠ .fuel → (Fn.serdeScalar f je value).isPanic = false →
    Tr.scalar_to_serde_json g (ofJE je) value = Fn.serdeScalar f je value) ∧
  (∀ (value : Bytes), value.length < 9223372036854775808 →
    Fn.toSerde f value ≠ .fuel → (Fn.toSerde f value).isPanic = false →
    Tr.containter_to_serde_json g value = Fn.toSerde f value)

theorem serdeScalar_container (f : Nat) (je : JE) (value : Bytes) (ht : je.ty = C.CONTAINER_TAG) :
    Fn.serdeScalar (f + 1) je value = Fn.toSerde f value := by
  have c1 : ¬ C.CONTAINER_TAG = C.NULL_TAG := by decide
  have c2 : ¬ C.CONTAINER_TAG = C.TRUE_TAG := by decide
  have c3 : ¬ C.CONTAINER_TAG = C.FALSE_TAG := by decide
  have c4 : ¬ C.CONTAINER_TAG = C.NUMBER_TAG := by decide
  have c5 : ¬ C.CONTAINER_TAG = C.STRING_TAG := by decide
  rw [Fn.serdeScalar]
  simp only [ht, if_neg c1, if_neg c2, if_neg c3, if_neg c4, if_neg c5, if_true]

/-- the serde group: wherever the model with fuel `f` answers without panicking, the translation with fuel
`g > f + 2^29 + 1` (every `for` over an iterator is bounded by the fuel) computes the model's answer -/
theorem serde_all : ∀ f g : Nat, f + 536870914 < g → SerdeAgree f g := by
  intro f
  induction f using Nat.strong_induction_on with
  | _ f IH =>
    intro g hfg
    cases f with
    | zero =>
      constructor
      · intro je value _ _ hne _
        exact absurd (by rw [Fn.serdeScalar]) hne
      · intro value _ hne _
        exact absurd (by rw [Fn.toSerde]) hne
    | succ f =>
      obtain ⟨g', rfl⟩ : ∃ m, g = m + 1 := ⟨g - 1, by omega⟩
      constructor
      · intro je value hlen hjl hne hnp
        refine scalar_to_serde_json_step g' f je value hlen hjl ?_ hnp
        intro ht
        rw [serdeScalar_container f je value ht] at hne hnp
        exact (IH f (by omega) g' (by omega)).2 value hlen hne hnp
      · intro value hlen hne hnp
        refine containter_to_serde_json_step g' f value hlen (by omega) ?_ hne hnp
        intro f' hf' je v hv hjl hne' hnp'
        exact (IH f' (by omega) g' (by omega)).1 je v hv hjl hne' hnp'

/-- **`containter_to_serde_json`** computes the model's `toSerde` -/
theorem containter_to_serde_json_agrees (f g : Nat) (hfg : f + 536870914 < g) (value : Bytes)
    (hlen : value.length < 9223372036854775808)
    (hne : Fn.toSerde f value ≠ .fuel) (hnp : (Fn.toSerde f value).isPanic = false) :
    Tr.containter_to_serde_json g value = Fn.toSerde f value :=
  (serde_all f g hfg).2 value hlen hne hnp

/-- **`scalar_to_serde_json`** computes the model's `serdeScalar` -/
theorem scalar_to_serde_json_agrees (f g : Nat) (hfg : f + 536870914 < g) (je : JE) (value : Bytes)
    (hlen : value.length < 9223372036854775808) (hjl : je.len < 4294967296)
    (hne : Fn.serdeScalar f je value ≠ .fuel) (hnp : (Fn.serdeScalar f je value).isPanic = false) :
    Tr.scalar_to_serde_json g (ofJE je) value = Fn.serdeScalar f je value :=
  (serde_all f g hfg).1 je value hlen hjl hne hnp

/-! ## the public functions -/

theorem to_serde_json_text_agrees (fuel : Nat) (value : Bytes) (text : Res SJ) (hj : isJsonb value = false) :
    Tr.to_serde_json fuel value text = text := by
  simp only [Tr.to_serde_json, is_jsonb_agrees, hj, Ctl.ofRes_ok', Ctl.val_bind', Bool.not_false, if_true, Ctl.ret_bind',
    Ctl.run_ret']

/-- **`to_serde_json`** on JSONB input is the model's `toSerdeJson` -/
theorem to_serde_json_jsonb_agrees (fuel : Nat) (value : Bytes) (text : Res SJ) (hj : isJsonb value = true)
    (hf : 2 * value.length + 8 + 536870914 < fuel) (hlen : value.length < 9223372036854775808)
    (hne : Fn.toSerdeJson value ≠ .fuel) (hnp : (Fn.toSerdeJson value).isPanic = false) :
    Tr.to_serde_json fuel value text = Fn.toSerdeJson value := by
  simp only [Tr.to_serde_json, is_jsonb_agrees, hj, Ctl.ofRes_ok', Ctl.val_bind', Bool.not_true, Bool.false_eq_true, if_false,
    Ctl.pure_eq', Ctl.run_ret']
  exact containter_to_serde_json_agrees (2 * value.length + 8) fuel (by omega) value hlen hne hnp

/-- the whole `to_serde_json`, given the outcome `text` of its text branch -/
theorem to_serde_json_agrees (fuel : Nat) (value : Bytes) (text : Res SJ)
    (hf : 2 * value.length + 8 + 536870914 < fuel) (hlen : value.length < 9223372036854775808)
    (hne : isJsonb value = true → Fn.toSerdeJson value ≠ .fuel)
    (hnp : isJsonb value = true → (Fn.toSerdeJson value).isPanic = false) :
    Tr.to_serde_json fuel value text = if isJsonb value then Fn.toSerdeJson value else text := by
  cases hj : isJsonb value with
  | false => simp only [to_serde_json_text_agrees fuel value text hj, Bool.false_eq_true, if_false]
  | true => simp only [to_serde_json_jsonb_agrees fuel value text hj hf hlen (hne hj) (hnp hj), if_true]

end Jsonb.TrAgree
