/-
C05 refinement: the byte-level accessors applied to the README layout of a good document
return the encoding of what the same question gives on the tree.
-/
import JsonbModel.Functions.Access
import JsonbModel.Spec.Access
import JsonbModel.Proofs.WalkLemmas
import JsonbModel.Proofs.TopLevel

namespace Jsonb
open JV

/-- first word of a container image / document -/
theorem readU32At_zero (w : Nat) (rest : Bytes) (h : w < 4294967296) :
    readU32At (u32be w ++ rest) 0 = some w := by
  have := readU32At_append [] w rest h
  simpa using this

theorem arr_header_lt (n : Nat) (h : n < 536870912) : C.ARRAY_CONTAINER_TAG + n < 4294967296 := by
  rw [tag_arr']; omega
theorem obj_header_lt (n : Nat) (h : n < 536870912) : C.OBJECT_CONTAINER_TAG + n < 4294967296 := by
  rw [tag_obj']; omega

theorem hdrType_arr (n : Nat) (h : n < 536870912) : hdrType (C.ARRAY_CONTAINER_TAG + n) = C.ARRAY_CONTAINER_TAG := by
  rw [tag_arr']; exact hdrType_add 4 _ (by omega) h
theorem hdrLen_arr (n : Nat) (h : n < 536870912) : hdrLen (C.ARRAY_CONTAINER_TAG + n) = n := by
  rw [tag_arr']; exact hdrLen_add 4 _ h
theorem hdrType_obj (n : Nat) (h : n < 536870912) : hdrType (C.OBJECT_CONTAINER_TAG + n) = C.OBJECT_CONTAINER_TAG := by
  rw [tag_obj']; exact hdrType_add 2 _ (by omega) h
theorem hdrLen_obj (n : Nat) (h : n < 536870912) : hdrLen (C.OBJECT_CONTAINER_TAG + n) = n := by
  rw [tag_obj']; exact hdrLen_add 2 _ h
theorem hdrType_sca : hdrType C.SCALAR_CONTAINER_TAG = C.SCALAR_CONTAINER_TAG := by
  have := hdrType_add 1 0 (by omega) (by omega)
  rw [tag_sca]; simpa using this

theorem ne_arr_obj : C.ARRAY_CONTAINER_TAG ≠ C.OBJECT_CONTAINER_TAG := by decide
theorem ne_arr_sca : C.ARRAY_CONTAINER_TAG ≠ C.SCALAR_CONTAINER_TAG := by decide
theorem ne_obj_sca : C.OBJECT_CONTAINER_TAG ≠ C.SCALAR_CONTAINER_TAG := by decide
theorem ne_sca_arr : ¬ C.SCALAR_CONTAINER_TAG = C.ARRAY_CONTAINER_TAG := by decide
theorem ne_sca_obj : ¬ C.SCALAR_CONTAINER_TAG = C.OBJECT_CONTAINER_TAG := by decide
theorem ne_obj_arr : ¬ C.OBJECT_CONTAINER_TAG = C.ARRAY_CONTAINER_TAG := by decide

/-! ### array_length -/

theorem arrayLength_refines (v : JV) (hg : goodTop v = true) :
    Fn.arrayLength (encodeSpec v) = .ok (Spec.arrayLength v) := by
  cases v with
  | arr vs =>
    simp only [goodTop, Bool.and_eq_true, decide_eq_true_eq] at hg
    simp only [Fn.arrayLength, encodeSpec, entry, readU32At_zero _ _ (arr_header_lt _ hg.1),
      hdrType_arr _ hg.1, hdrLen_arr _ hg.1, if_true, Spec.arrayLength]
  | obj kvs =>
    simp only [goodTop, Bool.and_eq_true, decide_eq_true_eq] at hg
    simp only [Fn.arrayLength, encodeSpec, entry, readU32At_zero _ _ (obj_header_lt _ hg.1.1),
      hdrType_obj _ hg.1.1, Spec.arrayLength]
    rw [if_neg (fun h => ne_arr_obj h.symm)]
  | null => simp [Fn.arrayLength, encodeSpec, readU32At_zero _ _ (by decide : C.SCALAR_CONTAINER_TAG < 4294967296), hdrType_sca, Spec.arrayLength, ne_sca_arr]
  | bool b => simp [Fn.arrayLength, encodeSpec, readU32At_zero _ _ (by decide : C.SCALAR_CONTAINER_TAG < 4294967296), hdrType_sca, Spec.arrayLength, ne_sca_arr]
  | num n => simp [Fn.arrayLength, encodeSpec, readU32At_zero _ _ (by decide : C.SCALAR_CONTAINER_TAG < 4294967296), hdrType_sca, Spec.arrayLength, ne_sca_arr]
  | str s => simp [Fn.arrayLength, encodeSpec, readU32At_zero _ _ (by decide : C.SCALAR_CONTAINER_TAG < 4294967296), hdrType_sca, Spec.arrayLength, ne_sca_arr]

/-! ### get_by_index -/

theorem getJentryByIndexLoop_spec (vs : List JV) (hg : goodL vs = true) (pre rest : Bytes)
    (index i jo vo : Nat) (hjo : jo = pre.length) (hi : i ≤ index) (hlt : index - i < vs.length) :
    getJentryByIndexLoop (pre ++ (wordsL vs ++ rest)) index vs.length i jo vo
      = (vs[index - i]?).map (fun v => (⟨ety v, elen v, (entry v).1⟩, vo + (paysL (vs.take (index - i))).length)) := by
  induction vs generalizing pre i jo vo with
  | nil => simp at hlt
  | cons v vs ih =>
    simp only [goodL, Bool.and_eq_true] at hg
    have hl := elen_lt_of_good v hg.1
    simp only [List.length_cons, getJentryByIndexLoop, wordsL, List.append_assoc]
    rw [readU32At_mid pre _ _ jo hjo (entry_lt v hl)]
    simp only []
    by_cases hii : i < index
    · rw [if_pos hii]
      have e1 : pre ++ (u32be (entry v).1 ++ (wordsL vs ++ rest)) = (pre ++ u32be (entry v).1) ++ (wordsL vs ++ rest) := by simp
      rw [e1, jeLen_entry v hl]
      rw [ih hg.2 (pre ++ u32be (entry v).1) (i + 1) (jo + 4) (vo + elen v) (by simp; omega) (by omega)
        (by simp at hlt; omega)]
      have e2 : index - i = (index - (i + 1)) + 1 := by omega
      rw [e2]
      simp only [List.getElem?_cons_succ, List.take_succ_cons, paysL, List.length_append, elen]
      cases vs[index - (i + 1)]? with
      | none => rfl
      | some w => simp only [Option.map_some]; congr 2; omega
    · rw [if_neg hii]
      have : index - i = 0 := by omega
      rw [this]
      simp [JE_ofWord_entry v hl, paysL]

theorem paysL_split (vs : List JV) (k : Nat) (v : JV) (h : vs[k]? = some v) :
    paysL vs = paysL (vs.take k) ++ ((entry v).2 ++ paysL (vs.drop (k + 1))) := by
  induction vs generalizing k with
  | nil => simp at h
  | cons w ws ih =>
    cases k with
    | zero => simp at h; subst h; simp [paysL]
    | succ k =>
      simp only [List.getElem?_cons_succ] at h
      simp only [paysL, List.take_succ_cons, List.drop_succ_cons, List.append_assoc]
      rw [ih k h]

theorem goodL_get (vs : List JV) (hg : goodL vs = true) (k : Nat) (v : JV) (h : vs[k]? = some v) :
    good v = true := by
  induction vs generalizing k with
  | nil => simp at h
  | cons w ws ih =>
    simp only [goodL, Bool.and_eq_true] at hg
    cases k with
    | zero => simp at h; subst h; exact hg.1
    | succ k => simp only [List.getElem?_cons_succ] at h; exact ih hg.2 k h

/-- extracting a stored value gives its own complete document -/
theorem extract_entry (v : JV) (hg : good v = true) (a b : Bytes) :
    extractByJentry ⟨ety v, elen v, (entry v).1⟩ a.length (a ++ ((entry v).2 ++ b)) = .ok (encodeSpec v) := by
  have hs : slice (a ++ ((entry v).2 ++ b)) a.length (a.length + elen v) = .ok (entry v).2 := by
    simp only [elen]; exact slice_mid a _ b
  have c1 : ¬ C.NULL_TAG = C.CONTAINER_TAG := by decide
  have c2 : ¬ C.TRUE_TAG = C.CONTAINER_TAG := by decide
  have c3 : ¬ C.FALSE_TAG = C.CONTAINER_TAG := by decide
  have c4 : ¬ C.NUMBER_TAG = C.CONTAINER_TAG := by decide
  have c5 : ¬ C.STRING_TAG = C.CONTAINER_TAG := by decide
  cases v with
  | arr vs => simp only [extractByJentry, ety, if_true, hs, encodeSpec]
  | obj kvs => simp only [extractByJentry, ety, if_true, hs, encodeSpec]
  | null => simp [extractByJentry, ety, elen, entry, encodeSpec, c1]
  | bool b => cases b <;> simp [extractByJentry, ety, elen, entry, encodeSpec, c2, c3]
  | num n =>
    have hpos : elen (num n) > 0 := by
      simp only [elen, entry, Num.enc_length]
      cases n <;> simp only [Num.minWidth] <;> (repeat' split) <;> omega
    simp only [extractByJentry, ety, c4, if_false, hpos, if_true, hs]
    simp [encodeSpec, entry]
  | str s =>
    by_cases hpos : elen (str s) > 0
    · simp only [extractByJentry, ety, c5, if_false, hpos, if_true, hs]
      simp [encodeSpec, entry]
    · have : s = [] := by
        cases s with
        | nil => rfl
        | cons _ _ => simp [elen, entry] at hpos
      subst this
      simp [extractByJentry, ety, c5, elen, entry, encodeSpec]

theorem getByIndex_arr (vs : List JV) (hn : vs.length < 536870912) (hg : goodL vs = true) (i : Nat) :
    Fn.getByIndex (encodeSpec (arr vs)) i = .ok ((vs[i]?).map encodeSpec) := by
  simp only [Fn.getByIndex, encodeSpec, entry, readU32At_zero _ _ (arr_header_lt _ hn),
    hdrType_arr _ hn, if_true, getJentryByIndex, hdrLen_arr _ hn]
  by_cases hi : i ≥ vs.length
  · rw [if_pos hi]
    have : vs[i]? = none := by simp; omega
    simp [Fn.extractOpt, this]
  · rw [if_neg hi]
    have hl := getJentryByIndexLoop_spec vs hg (u32be (C.ARRAY_CONTAINER_TAG + vs.length)) (paysL vs)
      i 0 4 (0 + 4 * vs.length + 4) (by simp) (by omega) (by omega)
    simp only [Nat.sub_zero, Nat.zero_add] at hl ⊢
    rw [hl]
    cases hv : vs[i]? with
    | none => simp at hv; omega
    | some v =>
      simp only [Option.map_some, Fn.extractOpt]
      have hgv := goodL_get vs hg i v hv
      have hsplit := paysL_split vs i v hv
      have e1 : u32be (C.ARRAY_CONTAINER_TAG + vs.length) ++ (wordsL vs ++ paysL vs)
          = (u32be (C.ARRAY_CONTAINER_TAG + vs.length) ++ (wordsL vs ++ paysL (vs.take i)))
            ++ ((entry v).2 ++ paysL (vs.drop (i + 1))) := by
        rw [hsplit]; simp
      have e2 : 4 * vs.length + 4 + (paysL (vs.take i)).length
          = (u32be (C.ARRAY_CONTAINER_TAG + vs.length) ++ (wordsL vs ++ paysL (vs.take i))).length := by
        simp [wordsL_length']; omega
      rw [e1, e2, extract_entry v hgv]

theorem getByIndex_refines (v : JV) (hg : goodTop v = true) (i : Nat) :
    Fn.getByIndex (encodeSpec v) i = .ok ((Spec.getByIndex v i).map encodeSpec) := by
  cases v with
  | arr vs =>
    simp only [goodTop, Bool.and_eq_true, decide_eq_true_eq] at hg
    simp only [Spec.getByIndex]; exact getByIndex_arr vs hg.1 hg.2 i
  | obj kvs =>
    simp only [goodTop, Bool.and_eq_true, decide_eq_true_eq] at hg
    simp only [Fn.getByIndex, encodeSpec, entry, readU32At_zero _ _ (obj_header_lt _ hg.1.1),
      hdrType_obj _ hg.1.1, Spec.getByIndex]
    rw [if_neg (fun h => ne_arr_obj h.symm)]; rfl
  | null => simp [Fn.getByIndex, encodeSpec, readU32At_zero _ _ (by decide : C.SCALAR_CONTAINER_TAG < 4294967296), hdrType_sca, Spec.getByIndex, ne_sca_arr]
  | bool b => simp [Fn.getByIndex, encodeSpec, readU32At_zero _ _ (by decide : C.SCALAR_CONTAINER_TAG < 4294967296), hdrType_sca, Spec.getByIndex, ne_sca_arr]
  | num n => simp [Fn.getByIndex, encodeSpec, readU32At_zero _ _ (by decide : C.SCALAR_CONTAINER_TAG < 4294967296), hdrType_sca, Spec.getByIndex, ne_sca_arr]
  | str s => simp [Fn.getByIndex, encodeSpec, readU32At_zero _ _ (by decide : C.SCALAR_CONTAINER_TAG < 4294967296), hdrType_sca, Spec.getByIndex, ne_sca_arr]

end Jsonb
