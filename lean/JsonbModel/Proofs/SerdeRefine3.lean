/-
C19, part 3: the object-only variant `to_serde_json_object`, the outcome on documents with a
non-finite float, and the properties of the normal form `SJ.canon` (sorted, idempotent, a
permutation of the members when keys are unique).
-/
import JsonbModel.Proofs.SerdeRefine2

namespace Jsonb
open JV Fn Spec SJ

/-! ### `to_serde_json_object` -/

theorem toSerdeJsonObject_scalar (v : JV) (hs : isScalar v = true) :
    toSerdeJsonObject (encodeSpec v) = .ok none := by
  simp only [toSerdeJsonObject, hdr_scalar v hs, Option.getD_some, hdrType_sca,
    if_neg ne_sca_obj, or_true, if_true]

/-- `to_serde_json_object` answers exactly as `to_serde_json` on objects, `None` on arrays and
scalars -/
theorem toSerdeJsonObject_eq (v : JV) (hg : goodTop v = true) :
    toSerdeJsonObject (encodeSpec v) = (match v with
      | .obj _ => (toSerdeJson (encodeSpec v)).map some
      | _ => .ok none) := by
  cases v with
  | obj kvs =>
    simp only [goodTop, Bool.and_eq_true, decide_eq_true_eq] at hg
    simp only [toSerdeJsonObject, hdr_obj kvs hg.1.1, Option.getD_some, hdrType_obj _ hg.1.1, if_true]
  | arr vs =>
    simp only [goodTop, Bool.and_eq_true, decide_eq_true_eq] at hg
    simp only [toSerdeJsonObject, hdr_arr vs hg.1, Option.getD_some, hdrType_arr _ hg.1,
      if_neg ne_arr_obj, true_or, if_true]
  | null => exact toSerdeJsonObject_scalar JV.null rfl
  | bool b => exact toSerdeJsonObject_scalar (JV.bool b) rfl
  | num n => exact toSerdeJsonObject_scalar (JV.num n) rfl
  | str s => exact toSerdeJsonObject_scalar (JV.str s) rfl

/-! ### a non-finite float anywhere: the tree conversion panics, the walker returns an error -/

theorem res_map_panic {α β} (f : α → β) (s : String) : (Res.panic s : Res α).map f = .panic s := rfl

mutual
theorem toSJ_nonfinite : (v : JV) → finiteJ v = false → ∃ site, toSJ v = .panic site
  | .null, h => by simp [finiteJ] at h
  | .bool _, h => by simp [finiteJ] at h
  | .num (.int _), h => by simp [finiteJ] at h
  | .num (.uint _), h => by simp [finiteJ] at h
  | .num (.float b), h => by
    simp only [finiteJ] at h
    exact ⟨_, toSJ_float_nonfinite b h⟩
  | .str _, h => by simp [finiteJ] at h
  | .arr vs, h => by
    simp only [finiteJ] at h
    obtain ⟨site, hs⟩ := toSJL_nonfinite vs h
    exact ⟨site, by simp only [toSJ, hs, res_map_panic]⟩
  | .obj kvs, h => by
    simp only [finiteJ] at h
    obtain ⟨site, hs⟩ := toSJK_nonfinite kvs h []
    exact ⟨site, by simp only [toSJ, hs, res_map_panic]⟩
theorem toSJL_nonfinite : (vs : List JV) → finiteL vs = false → ∃ site, toSJL vs = .panic site
  | [], h => by simp [finiteL] at h
  | v :: vs, h => by
    cases hv : finiteJ v with
    | false =>
      obtain ⟨site, hs⟩ := toSJ_nonfinite v hv
      exact ⟨site, by simp only [toSJL, hs]⟩
    | true =>
      simp only [finiteL, hv, Bool.true_and] at h
      obtain ⟨site, hs⟩ := toSJL_nonfinite vs h
      exact ⟨site, by simp only [toSJL, toSJ_finite v hv, hs, res_map_panic]⟩
theorem toSJK_nonfinite : (kvs : List (Bytes × JV)) → finiteK kvs = false →
    (acc : List (Bytes × SJ)) → ∃ site, toSJK kvs acc = .panic site
  | [], h, _ => by simp [finiteK] at h
  | (k, v) :: kvs, h, acc => by
    cases hv : finiteJ v with
    | false =>
      obtain ⟨site, hs⟩ := toSJ_nonfinite v hv
      exact ⟨site, by simp only [toSJK, hs]⟩
    | true =>
      simp only [finiteK, hv, Bool.true_and] at h
      obtain ⟨site, hs⟩ := toSJK_nonfinite kvs h (SJ.insert k (toSJT v) acc)
      exact ⟨site, by simp only [toSJK, toSJ_finite v hv, hs]⟩
end

/-! ### order-sensitive Boolean equality on `SJ` (for kernel-checked examples) -/

namespace SJ
mutual
def eqB : SJ → SJ → Bool
  | .null, .null => true
  | .bool a, .bool b => a == b
  | .pos a, .pos b => a == b
  | .neg a, .neg b => a == b
  | .float a, .float b => a == b
  | .str a, .str b => a == b
  | .arr a, .arr b => eqBL a b
  | .obj a, .obj b => eqBK a b
  | _, _ => false
def eqBL : List SJ → List SJ → Bool
  | [], [] => true
  | a :: as, b :: bs => eqB a b && eqBL as bs
  | _, _ => false
def eqBK : List (Bytes × SJ) → List (Bytes × SJ) → Bool
  | [], [] => true
  | (ka, a) :: as, (kb, b) :: bs => ka == kb && eqB a b && eqBK as bs
  | _, _ => false
end

mutual
theorem eqB_refl : (s : SJ) → eqB s s = true
  | .null => rfl
  | .bool _ => by simp [eqB]
  | .pos _ => by simp [eqB]
  | .neg _ => by simp [eqB]
  | .float _ => by simp [eqB]
  | .str _ => by simp [eqB]
  | .arr vs => by simp only [eqB]; exact eqBL_refl vs
  | .obj kvs => by simp only [eqB]; exact eqBK_refl kvs
theorem eqBL_refl : (vs : List SJ) → eqBL vs vs = true
  | [] => rfl
  | v :: vs => by simp [eqBL, eqB_refl v, eqBL_refl vs]
theorem eqBK_refl : (kvs : List (Bytes × SJ)) → eqBK kvs kvs = true
  | [] => rfl
  | (k, v) :: kvs => by simp [eqBK, eqB_refl v, eqBK_refl kvs]
end

mutual
theorem eq_of_eqB : (a b : SJ) → eqB a b = true → a = b
  | .null, .null, _ => rfl
  | .bool a, .bool b, h => by simp only [eqB, beq_iff_eq] at h; rw [h]
  | .pos a, .pos b, h => by simp only [eqB, beq_iff_eq] at h; rw [h]
  | .neg a, .neg b, h => by simp only [eqB, beq_iff_eq] at h; rw [h]
  | .float a, .float b, h => by simp only [eqB, beq_iff_eq] at h; rw [h]
  | .str a, .str b, h => by simp only [eqB, beq_iff_eq] at h; rw [h]
  | .arr a, .arr b, h => by simp only [eqB] at h; rw [eq_of_eqBL a b h]
  | .obj a, .obj b, h => by simp only [eqB] at h; rw [eq_of_eqBK a b h]
  | .null, .bool _, h | .null, .pos _, h | .null, .neg _, h | .null, .float _, h
  | .null, .str _, h | .null, .arr _, h | .null, .obj _, h => by simp [eqB] at h
  | .bool _, .null, h | .bool _, .pos _, h | .bool _, .neg _, h | .bool _, .float _, h
  | .bool _, .str _, h | .bool _, .arr _, h | .bool _, .obj _, h => by simp [eqB] at h
  | .pos _, .null, h | .pos _, .bool _, h | .pos _, .neg _, h | .pos _, .float _, h
  | .pos _, .str _, h | .pos _, .arr _, h | .pos _, .obj _, h => by simp [eqB] at h
  | .neg _, .null, h | .neg _, .bool _, h | .neg _, .pos _, h | .neg _, .float _, h
  | .neg _, .str _, h | .neg _, .arr _, h | .neg _, .obj _, h => by simp [eqB] at h
  | .float _, .null, h | .float _, .bool _, h | .float _, .pos _, h | .float _, .neg _, h
  | .float _, .str _, h | .float _, .arr _, h | .float _, .obj _, h => by simp [eqB] at h
  | .str _, .null, h | .str _, .bool _, h | .str _, .pos _, h | .str _, .neg _, h
  | .str _, .float _, h | .str _, .arr _, h | .str _, .obj _, h => by simp [eqB] at h
  | .arr _, .null, h | .arr _, .bool _, h | .arr _, .pos _, h | .arr _, .neg _, h
  | .arr _, .float _, h | .arr _, .str _, h | .arr _, .obj _, h => by simp [eqB] at h
  | .obj _, .null, h | .obj _, .bool _, h | .obj _, .pos _, h | .obj _, .neg _, h
  | .obj _, .float _, h | .obj _, .str _, h | .obj _, .arr _, h => by simp [eqB] at h
theorem eq_of_eqBL : (a b : List SJ) → eqBL a b = true → a = b
  | [], [], _ => rfl
  | x :: xs, y :: ys, h => by
    simp only [eqBL, Bool.and_eq_true] at h
    rw [eq_of_eqB x y h.1, eq_of_eqBL xs ys h.2]
  | [], _ :: _, h => by simp [eqBL] at h
  | _ :: _, [], h => by simp [eqBL] at h
theorem eq_of_eqBK : (a b : List (Bytes × SJ)) → eqBK a b = true → a = b
  | [], [], _ => rfl
  | (kx, x) :: xs, (ky, y) :: ys, h => by
    simp only [eqBK, Bool.and_eq_true, beq_iff_eq] at h
    rw [h.1.1, eq_of_eqB x y h.1.2, eq_of_eqBK xs ys h.2]
  | [], _ :: _, h => by simp [eqBK] at h
  | _ :: _, [], h => by simp [eqBK] at h
end

theorem eqB_iff (a b : SJ) : eqB a b = true ↔ a = b :=
  ⟨eq_of_eqB a b, fun h => by rw [h]; exact eqB_refl b⟩
end SJ

/-! ### the image of `toSJT` -/

theorem keysSortedS_mapTK (kvs : List (Bytes × JV)) : keysSortedS (mapTK kvs) = keysSorted kvs := by
  induction kvs with
  | nil => rfl
  | cons kv kvs ih =>
    obtain ⟨k, v⟩ := kv
    cases kvs with
    | nil => simp [mapTK, keysSorted, keysSortedS]
    | cons kv2 kvs2 =>
      obtain ⟨k2, v2⟩ := kv2
      simp only [mapTK_cons, keysSorted, keysSortedS] at ih ⊢
      rw [ih]

theorem numsOK_sjOfInt (i : Int) : numsOK (sjOfInt i) = true := by
  by_cases hi : i ≥ 0
  · simp [sjOfInt, hi, numsOK]
  · simp only [sjOfInt, hi, if_false, numsOK, decide_eq_true_eq]; omega

mutual
/-- converting a document with finite numbers gives a legal serde_json value with sorted members -/
theorem toSJT_image : (v : JV) → finiteJ v = true → sortedJ v = true →
    numsOK (toSJT v) = true ∧ sortedS (toSJT v) = true
  | .null, _, _ => ⟨rfl, rfl⟩
  | .bool _, _, _ => ⟨rfl, rfl⟩
  | .num (.int i), _, _ => by
    refine ⟨numsOK_sjOfInt i, ?_⟩
    by_cases hi : i ≥ 0 <;> simp [toSJT, sjOfInt, hi, sortedS]
  | .num (.uint _), _, _ => ⟨rfl, rfl⟩
  | .num (.float b), h, _ => by
    simp only [finiteJ] at h
    exact ⟨by simp only [toSJT, numsOK, h], rfl⟩
  | .str _, _, _ => ⟨rfl, rfl⟩
  | .arr vs, h, hs => by
    simp only [finiteJ] at h
    simp only [sortedJ] at hs
    simpa only [toSJT, numsOK, sortedS] using toSJTL_image vs h hs
  | .obj kvs, h, hs => by
    simp only [finiteJ] at h
    simp only [sortedJ, Bool.and_eq_true] at hs
    have ih := mapTK_image kvs h hs.2
    rw [toSJT_obj_sorted kvs hs.1]
    simp only [numsOK, sortedS, Bool.and_eq_true, keysSortedS_mapTK]
    exact ⟨ih.1, hs.1, ih.2⟩
theorem toSJTL_image : (vs : List JV) → finiteL vs = true → sortedL vs = true →
    numsOKL (toSJTL vs) = true ∧ sortedSL (toSJTL vs) = true
  | [], _, _ => ⟨rfl, rfl⟩
  | v :: vs, h, hs => by
    simp only [finiteL, Bool.and_eq_true] at h
    simp only [sortedL, Bool.and_eq_true] at hs
    have h1 := toSJT_image v h.1 hs.1
    have h2 := toSJTL_image vs h.2 hs.2
    simp only [toSJTL, numsOKL, sortedSL, Bool.and_eq_true]
    exact ⟨⟨h1.1, h2.1⟩, ⟨h1.2, h2.2⟩⟩
theorem mapTK_image : (kvs : List (Bytes × JV)) → finiteK kvs = true → sortedK kvs = true →
    numsOKK (mapTK kvs) = true ∧ sortedSK (mapTK kvs) = true
  | [], _, _ => ⟨rfl, rfl⟩
  | (k, v) :: kvs, h, hs => by
    simp only [finiteK, Bool.and_eq_true] at h
    simp only [sortedK, Bool.and_eq_true] at hs
    have h1 := toSJT_image v h.1 hs.1
    have h2 := mapTK_image kvs h.2 hs.2
    simp only [mapTK_cons, numsOKK, sortedSK, Bool.and_eq_true]
    exact ⟨⟨h1.1, h2.1⟩, ⟨h1.2, h2.2⟩⟩
end

/-- the normal form is a legal value with sorted members -/
theorem canon_image (s : SJ) (h : numsOK s = true) :
    numsOK (canon s) = true ∧ sortedS (canon s) = true := by
  rw [← toSJT_fromSJ s h]
  exact toSJT_image _ (finiteJ_fromSJ s h) (sortedJ_fromSJ s)

/-- normalising twice is normalising once -/
theorem canon_idem (s : SJ) (h : numsOK s = true) : canon (canon s) = canon s :=
  canon_sorted _ (canon_image s h).1 (canon_image s h).2

/-! ### with unique keys, sorting the members drops nothing -/

theorem insSorted_perm (k : Bytes) (v : SJ) (m : List (Bytes × SJ)) (h : ∀ p ∈ m, p.1 ≠ k) :
    (insSorted k v m).Perm ((k, v) :: m) := by
  induction m with
  | nil => exact List.Perm.refl _
  | cons p m ih =>
    obtain ⟨k', v'⟩ := p
    simp only [insSorted]
    cases hc : lexCmp k k' with
    | lt => exact List.Perm.refl _
    | eq =>
      have : k = k' := (lexCmp_eq_iff k k').mp hc
      exact absurd this.symm (h (k', v') (by simp))
    | gt =>
      have ih' := ih (fun p hp => h p (by simp [hp]))
      exact ((List.Perm.cons (k', v') ih').trans (List.Perm.swap (k, v) (k', v') m))

theorem foldl_insSorted_perm (l acc : List (Bytes × SJ))
    (hn : ((acc ++ l).map (·.1)).Nodup) :
    (l.foldl (fun m kv => insSorted kv.1 kv.2 m) acc).Perm (acc ++ l) := by
  induction l generalizing acc with
  | nil => simp
  | cons kv l ih =>
    obtain ⟨k, v⟩ := kv
    simp only [List.foldl_cons]
    have hk : ∀ p ∈ acc, p.1 ≠ k := by
      intro p hp e
      simp only [List.map_append, List.map_cons] at hn
      have := (List.nodup_append.mp hn).2.2 p.1 (List.mem_map_of_mem hp) k (by simp)
      exact this e
    have hp1 := insSorted_perm k v acc hk
    have hp2 : (insSorted k v acc ++ l).Perm (acc ++ (k, v) :: l) := by
      refine (List.Perm.append_right l hp1).trans ?_
      simpa using (List.perm_middle (a := (k, v)) (l₁ := acc) (l₂ := l)).symm
    refine (ih (insSorted k v acc) ?_).trans hp2
    exact (List.Perm.nodup_iff (List.Perm.map (·.1) hp2)).mpr hn

/-- with unique keys the sorted members are a permutation of the members -/
theorem sortMembers_perm (kvs : List (Bytes × SJ)) (hn : (kvs.map (·.1)).Nodup) :
    (sortMembers kvs).Perm kvs := by
  have := foldl_insSorted_perm kvs [] (by simpa using hn)
  simpa [sortMembers] using this

theorem canonK_keys (kvs : List (Bytes × SJ)) : (canonK kvs).map (·.1) = kvs.map (·.1) := by
  induction kvs with
  | nil => rfl
  | cons kv kvs ih => obtain ⟨k, v⟩ := kv; simp [canonK, ih]

/-- the members of a normalised object: those of the original (each normalised), reordered -/
theorem canon_obj_perm (kvs : List (Bytes × SJ)) (hn : (kvs.map (·.1)).Nodup) :
    ∃ ms, canon (.obj kvs) = .obj ms ∧ ms.Perm (canonK kvs) :=
  ⟨sortMembers (canonK kvs), by simp only [canon], sortMembers_perm _ (by rw [canonK_keys]; exact hn)⟩

end Jsonb
