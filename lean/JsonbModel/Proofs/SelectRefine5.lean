/-
C08 refinement, part 5: completeness.  The spec evaluator is monotone in its fuel, and on the
ASTs the parser can produce (`suppPaths`) the implementation model succeeds whenever the spec
does — with the same fuel — and finds positions representing exactly the spec's items.
-/
import JsonbModel.Proofs.SelectRefine3

namespace Jsonb
open JV Sel

/-! ### the spec evaluator is monotone in its fuel -/

theorem evalSteps_nil (f : Nat) (v : JV) (items : List JV) : Spec.evalSteps (f + 1) v [] items = some items := by
  simp only [Spec.evalSteps]

theorem evalSteps_root (f : Nat) (v : JV) (rest : List Path) (items : List JV) :
    Spec.evalSteps (f + 1) v (.root :: rest) items = Spec.evalSteps f v rest items := by
  simp only [Spec.evalSteps]

theorem evalSteps_current (f : Nat) (v : JV) (rest : List Path) (items : List JV) :
    Spec.evalSteps (f + 1) v (.current :: rest) items = Spec.evalSteps f v rest items := by
  simp only [Spec.evalSteps]

theorem path_cases (p : Path) :
    isPlain p = true ∨ p = .root ∨ p = .current ∨ ∃ e, (p = .filterExpr e ∨ p = .predicate e) := by
  cases p <;> simp [isPlain]

theorem filterItems_nil (f : Nat) (v : JV) (e : Expr) : Spec.filterItems (f + 1) v e [] = some [] := by
  simp only [Spec.filterItems]

theorem filterItems_cons (f : Nat) (v : JV) (e : Expr) (w : JV) (rest : List JV) :
    Spec.filterItems (f + 1) v e (w :: rest)
      = match Spec.evalFilter f v w e, Spec.filterItems f v e rest with
        | some keep, some r => some (if keep then w :: r else r)
        | _, _ => none := by
  simp only [Spec.filterItems] <;> rfl

theorem evalFilter_or (f : Nat) (v item : JV) (l r : Expr) :
    Spec.evalFilter (f + 1) v item (.binaryOp .or l r)
      = match Spec.evalFilter f v item l, Spec.evalFilter f v item r with
        | some a, some b => some (a || b)
        | _, _ => none := by
  simp only [Spec.evalFilter] <;> rfl

theorem evalFilter_and (f : Nat) (v item : JV) (l r : Expr) :
    Spec.evalFilter (f + 1) v item (.binaryOp .and l r)
      = match Spec.evalFilter f v item l, Spec.evalFilter f v item r with
        | some a, some b => some (a && b)
        | _, _ => none := by
  simp only [Spec.evalFilter] <;> rfl

theorem evalFilter_exists (f : Nat) (v item : JV) (paths : List Path) :
    Spec.evalFilter (f + 1) v item (.existsFn paths)
      = (Spec.evalPaths f v (some item) paths).map (fun l => !l.isEmpty) := by
  simp only [Spec.evalFilter]

theorem operandValues_paths (f : Nat) (v item : JV) (paths : List Path) :
    Spec.operandValues (f + 1) v item (.paths paths)
      = (Spec.evalPaths f v (some item) paths).map (fun l => l.filterMap Spec.toPathValue) := by
  simp only [Spec.operandValues]

theorem operandValues_value (f : Nat) (v item : JV) (pv : PathValue) :
    Spec.operandValues (f + 1) v item (.value pv) = some [pv] := by
  simp only [Spec.operandValues]

/-- the five statements of monotonicity at one fuel level -/
def SpecMono (f : Nat) : Prop :=
  (∀ v cur paths r, Spec.evalPaths f v cur paths = some r → Spec.evalPaths (f + 1) v cur paths = some r) ∧
  (∀ v paths items r, Spec.evalSteps f v paths items = some r → Spec.evalSteps (f + 1) v paths items = some r) ∧
  (∀ v e items r, Spec.filterItems f v e items = some r → Spec.filterItems (f + 1) v e items = some r) ∧
  (∀ v item e r, Spec.evalFilter f v item e = some r → Spec.evalFilter (f + 1) v item e = some r) ∧
  (∀ v item e r, Spec.operandValues f v item e = some r → Spec.operandValues (f + 1) v item e = some r)

theorem spec_mono : ∀ f, SpecMono f
  | 0 => by
    refine ⟨?_, ?_, ?_, ?_, ?_⟩
    · intro v cur paths r h; simp [Spec.evalPaths] at h
    · intro v paths items r h; simp [Spec.evalSteps] at h
    · intro v e items r h; simp [Spec.filterItems] at h
    · intro v item e r h; simp [Spec.evalFilter] at h
    · intro v item e r h; simp [Spec.operandValues] at h
  | f + 1 => by
    obtain ⟨m1, m2, m3, m4, m5⟩ := spec_mono f
    refine ⟨?_, ?_, ?_, ?_, ?_⟩
    · intro v cur paths r h
      rw [evalPaths_succ] at h ⊢
      exact m2 _ _ _ _ h
    · intro v paths items r h
      cases paths with
      | nil => rw [evalSteps_nil] at h ⊢; exact h
      | cons p rest =>
        rcases path_cases p with hp | rfl | rfl | ⟨e, hpe⟩
        · rw [evalSteps_plain _ _ p hp] at h ⊢; exact m2 _ _ _ _ h
        · rw [evalSteps_root] at h ⊢; exact m2 _ _ _ _ h
        · rw [evalSteps_current] at h ⊢; exact m2 _ _ _ _ h
        · rw [evalSteps_filter _ _ p e hpe] at h ⊢
          cases hfi : Spec.filterItems f v e items with
          | none => rw [hfi] at h; simp at h
          | some items' =>
            rw [hfi] at h
            rw [m3 _ _ _ _ hfi]
            exact m2 _ _ _ _ h
    · intro v e items r h
      cases items with
      | nil => rw [filterItems_nil] at h ⊢; exact h
      | cons w rest =>
        rw [filterItems_cons] at h ⊢
        cases h1 : Spec.evalFilter f v w e with
        | none => rw [h1] at h; simp at h
        | some keep =>
          cases h2 : Spec.filterItems f v e rest with
          | none => rw [h1, h2] at h; simp at h
          | some r' =>
            rw [h1, h2] at h
            rw [m4 _ _ _ _ h1, m3 _ _ _ _ h2]; exact h
    · intro v item e r h
      cases e with
      | binaryOp op l r' =>
        by_cases hor : op = .or
        · subst hor
          rw [evalFilter_or] at h ⊢
          cases h1 : Spec.evalFilter f v item l with
          | none => rw [h1] at h; simp at h
          | some a =>
            cases h2 : Spec.evalFilter f v item r' with
            | none => rw [h1, h2] at h; simp at h
            | some b => rw [h1, h2] at h; rw [m4 _ _ _ _ h1, m4 _ _ _ _ h2]; exact h
        · by_cases hand : op = .and
          · subst hand
            rw [evalFilter_and] at h ⊢
            cases h1 : Spec.evalFilter f v item l with
            | none => rw [h1] at h; simp at h
            | some a =>
              cases h2 : Spec.evalFilter f v item r' with
              | none => rw [h1, h2] at h; simp at h
              | some b => rw [h1, h2] at h; rw [m4 _ _ _ _ h1, m4 _ _ _ _ h2]; exact h
          · rw [evalFilter_cmp _ _ _ op hand hor] at h ⊢
            cases h1 : Spec.operandValues f v item l with
            | none => rw [h1] at h; simp at h
            | some a =>
              cases h2 : Spec.operandValues f v item r' with
              | none => rw [h1, h2] at h; simp at h
              | some b => rw [h1, h2] at h; rw [m5 _ _ _ _ h1, m5 _ _ _ _ h2]; exact h
      | existsFn paths =>
        rw [evalFilter_exists] at h ⊢
        cases h1 : Spec.evalPaths f v (some item) paths with
        | none => rw [h1] at h; simp at h
        | some l => rw [h1] at h; rw [m1 _ _ _ _ h1]; exact h
      | paths ps => simp [Spec.evalFilter] at h
      | value pv => simp [Spec.evalFilter] at h
      | arithUnary op e => simp [Spec.evalFilter] at h
      | arithBinary op l r' => simp [Spec.evalFilter] at h
    · intro v item e r h
      cases e with
      | value pv => rw [operandValues_value] at h ⊢; exact h
      | paths ps =>
        rw [operandValues_paths] at h ⊢
        cases h1 : Spec.evalPaths f v (some item) ps with
        | none => rw [h1] at h; simp at h
        | some l => rw [h1] at h; rw [m1 _ _ _ _ h1]; exact h
      | binaryOp op l r' => simp [Spec.operandValues] at h
      | existsFn paths => simp [Spec.operandValues] at h
      | arithUnary op e => simp [Spec.operandValues] at h
      | arithBinary op l r' => simp [Spec.operandValues] at h

/-- a function that keeps its `some` answers as the fuel grows answers eventually -/
theorem Ev_of_some {α : Type} {g : Nat → Option α} (hm : ∀ f r, g f = some r → g (f + 1) = some r)
    {f : Nat} {r : α} (h : g f = some r) : Ev g r := by
  refine ⟨f, fun f' hf => ?_⟩
  induction f' with
  | zero => have : f = 0 := by omega
            subst this; exact h
  | succ n ih =>
    by_cases hn : f ≤ n
    · exact hm n r (ih hn)
    · have : f = n + 1 := by omega
      subst this; exact h

/-- any answer the spec gives is its eventual answer -/
theorem evalPaths_some_eq {v : JV} {cur : Option JV} {paths : List Path} {f : Nat} {r r' : List JV}
    (h : Spec.evalPaths f v cur paths = some r) (h' : Ev (fun f => Spec.evalPaths f v cur paths) r') : r = r' :=
  Ev_unique (Ev_of_some (fun f r => (spec_mono f).1 v cur paths r) h) h'

theorem evalSteps_some_eq {v : JV} {paths : List Path} {items : List JV} {f : Nat} {r r' : List JV}
    (h : Spec.evalSteps f v paths items = some r) (h' : Ev (fun f => Spec.evalSteps f v paths items) r') :
    r = r' :=
  Ev_unique (Ev_of_some (fun f r => (spec_mono f).2.1 v paths items r) h) h'

theorem filterItems_some_eq {v : JV} {e : Expr} {items : List JV} {f : Nat} {r r' : List JV}
    (h : Spec.filterItems f v e items = some r) (h' : Ev (fun f => Spec.filterItems f v e items) r') :
    r = r' :=
  Ev_unique (Ev_of_some (fun f r => (spec_mono f).2.2.1 v e items r) h) h'

/-! ### the supported ASTs (everything `parse_json_path` can produce) -/

/-- a comparison operand: a literal, or `$`/`@` followed by steps (`expr_paths`) -/
def suppOperand : Expr → Bool
  | .value _ => true
  | .paths ps => headOK ps && (ps.drop 1).all isStep
  | _ => false

mutual
def suppPath : Path → Bool
  | .arithmeticExpr _ => false
  | .filterExpr e | .predicate e => suppFilter e
  | _ => true
/-- an expression in filter position; arithmetic (and a bare operand) is a supported *error* -/
def suppFilter : Expr → Bool
  | .binaryOp op l r =>
    if isLogic op then suppFilter l && suppFilter r else suppOperand l && suppOperand r
  | .existsFn ps => suppPaths ps
  | _ => true
def suppPaths : List Path → Bool
  | [] => true
  | p :: ps => suppPath p && suppPaths ps
end

theorem suppOperand_ok (e : Expr) (h : suppOperand e = true) : okOperand e = true := by
  cases e <;> simp_all [suppOperand, okOperand]

mutual
theorem suppPath_ok : (p : Path) → suppPath p = true → okPath p = true
  | .filterExpr e, h => by simp only [suppPath] at h; simp only [okPath]; exact suppFilter_ok e h
  | .predicate e, h => by simp only [suppPath] at h; simp only [okPath]; exact suppFilter_ok e h
  | .arithmeticExpr _, h => by simp [suppPath] at h
  | .root, _ => rfl
  | .current, _ => rfl
  | .dotWildcard, _ => rfl
  | .bracketWildcard, _ => rfl
  | .dotField _, _ => rfl
  | .colonField _, _ => rfl
  | .objectField _, _ => rfl
  | .arrayIndices _, _ => rfl
theorem suppFilter_ok : (e : Expr) → suppFilter e = true → okExpr e = true
  | .binaryOp op l r, h => by
    simp only [suppFilter] at h
    simp only [okExpr]
    by_cases hl : isLogic op = true
    · rw [if_pos hl] at h ⊢
      simp only [Bool.and_eq_true] at h ⊢
      exact ⟨suppFilter_ok l h.1, suppFilter_ok r h.2⟩
    · rw [if_neg hl] at h ⊢
      simp only [Bool.and_eq_true] at h ⊢
      exact ⟨suppOperand_ok l h.1, suppOperand_ok r h.2⟩
  | .existsFn ps, h => by simp only [suppFilter] at h; simp only [okExpr]; exact suppPaths_ok ps h
  | .paths _, _ => rfl
  | .value _, _ => rfl
  | .arithUnary _ _, _ => rfl
  | .arithBinary _ _ _, _ => rfl
theorem suppPaths_ok : (ps : List Path) → suppPaths ps = true → okPaths ps = true
  | [], _ => rfl
  | p :: ps, h => by
    simp only [suppPaths, Bool.and_eq_true] at h
    simp only [okPaths, Bool.and_eq_true]
    exact ⟨suppPath_ok p h.1, suppPaths_ok ps h.2⟩
end

end Jsonb
