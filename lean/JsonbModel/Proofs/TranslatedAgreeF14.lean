import JsonbModel.Proofs.TranslatedAgreeF13

set_option linter.unusedSimpArgs false
set_option linter.unusedVariables false

namespace Jsonb.TrAgree
open Jsonb.Rs

theorem array_key_step (g f depth length : Nat) (value buf : Bytes) (k : Nat) (hd : depth ≤ 255)
    (hlen : length < 536870912) (hv : value.length < 9223372036854775808)
    (hrec : KeyRecOK f (Tr.scalar_convert_to_comparable g))
    (hk : kasItems k value length 0 (4 * length) = true)
    (hne : Fn.keyArray f depth length value 0 (4 * length) ≠ .fuel) :
    panicAny (Tr.array_convert_to_comparable (g + 1) (depth : Int) (length : Int) value buf) =
      panicAny ((Fn.keyArray f depth length value 0 (4 * length)).map (buf ++ ·)) := by
  have h4 : ((4 : Nat) : Int) = 4 := rfl
  have h0 : ((0 : Nat) : Int) = 0 := rfl
  rw [Tr.array_convert_to_comparable]
  simp only [← h4, Rs.mul_usize_nat 4 length (by omega), Rs.mul_usize_nat length 4 (by omega), Nat.mul_comm length 4,
    Ctl.ofRes_ok', Ctl.val_bind', Rs.forRange_zero]
  rw [← h0]
  have := ka_run (Tr.scalar_convert_to_comparable g) depth value hd hv length f ((0 : Nat) : Int) buf 0 (4 * length) length k hrec
    (Nat.le_refl _) (by omega) hk hne
  rw [← this]
  congr 1
  generalize Rs.forRangeAux (Tr.array_convert_to_comparable.loop1 (Tr.scalar_convert_to_comparable g) (depth : Int) value) length
    ((0 : Nat) : Int) (buf, ((0 : Nat) : Int), ((4 * length : Nat) : Int)) = c
  cases c with
  | val s => obtain ⟨b, x, y⟩ := s; rfl
  | ret r => rfl

/-! ## `object_convert_to_comparable` -/

theorem ko_loop1_step (value buf : Bytes) (i : Int) (jo vo : Nat) (acc : List Tr.JEntry)
    (hjo : jo + 4 < 18446744073709551616) (hvo : vo + 268435456 < 18446744073709551616) :
    Tr.object_convert_to_comparable.loop1 value buf i ((jo : Int), (vo : Int), acc) =
      match readU32At value jo with
      | none => Ctl.ret (.ok buf)
      | some w => Ctl.val (.next (((jo + 4 : Nat) : Int), ((vo + jeLen w : Nat) : Int), acc ++ [ofEntry (jeType w, jeLen w)])) := by
  unfold Tr.object_convert_to_comparable.loop1
  dsimp only
  rw [read_u32_agrees value jo (Rs.le_max_of_lt hjo)]
  cases hr : readU32At value jo with
  | none => simp only [Rs.resOpt, Ctl.val_bind', Ctl.ret_bind', Rs.loopStep_ret']
  | some w =>
    have hl := jeLen_lt w
    have h4 : ((4 : Nat) : Int) = 4 := rfl
    simp only [Rs.resOpt, Ctl.val_bind', Ctl.pure_eq', decode_jentry_agrees, Ctl.ofRes_ok', ← h4,
      Rs.add_usize_nat jo 4 hjo, Rs.usize_nat (jeLen w) (by omega), Rs.add_usize_nat vo (jeLen w) (by omega),
      Rs.pushBack, Rs.loopStep_val', ofEntry]

/-- a key loop that leaves the function with `exit` on a short read collects `fillKeyEntries` -/
theorem keys_run {ρ : Type} (buf : Bytes) (exit : Res ρ)
    (body : Int → (Int × Int × List Tr.JEntry) → Ctl ρ (Rs.Step (Int × Int × List Tr.JEntry)))
    (hbody : ∀ (i : Int) (jo vo : Nat) (acc : List Tr.JEntry), jo + 4 < 18446744073709551616 →
      vo + 268435456 < 18446744073709551616 →
      body i ((jo : Int), (vo : Int), acc) =
        match readU32At buf jo with
        | none => Ctl.ret exit
        | some w => Ctl.val (.next (((jo + 4 : Nat) : Int), ((vo + jeLen w : Nat) : Int), acc ++ [ofEntry (jeType w, jeLen w)]))) :
    ∀ (n : Nat) (i : Int) (jo vo : Nat) (acc : List Tr.JEntry),
      jo + n * 4 + 4 < 18446744073709551616 → vo + n * 268435456 + 268435456 < 18446744073709551616 →
      Rs.forRangeAux body n i ((jo : Int), (vo : Int), acc) =
        match fillKeyEntries buf n jo vo with
        | none => Ctl.ret exit
        | some (ks, jo', vo') => Ctl.val (((jo' : Nat) : Int), ((vo' : Nat) : Int), acc ++ ks.map ofEntry) := by
  intro n
  induction n with
  | zero =>
    intro i jo vo acc _ _
    simp only [fillKeyEntries, Rs.forRangeAux_zero, List.map_nil, List.append_nil]
  | succ n ih =>
    intro i jo vo acc hjo hvo
    have hs := hbody i jo vo acc (by omega) (by omega)
    simp only [fillKeyEntries]
    cases hr : readU32At buf jo with
    | none =>
      rw [hr] at hs
      rw [Rs.forRangeAux_ret _ _ _ _ _ hs]
    | some w =>
      rw [hr] at hs
      have hl := jeLen_lt w
      rw [Rs.forRangeAux_next _ _ _ _ _ hs, ih (i + 1) (jo + 4) (vo + jeLen w) _ (by omega) (by omega)]
      dsimp only
      cases fillKeyEntries buf n (jo + 4) (vo + jeLen w) with
      | none => rfl
      | some q =>
        obtain ⟨ks, jo', vo'⟩ := q
        simp only [List.map_cons, List.append_assoc, List.singleton_append]

theorem ko_loop2_step (rec : Int → Tr.JEntry → Bytes → Bytes → Res Bytes) (depth : Int) (value : Bytes)
    (i : Int) (k : Nat × Nat) (kjs : List Tr.JEntry) (buf : Bytes) (jo ko vo : Nat)
    (hk : k.2 < 4294967296) (hjo : jo + 4 < 18446744073709551616) (hv : value.length < 9223372036854775808) :
    Tr.object_convert_to_comparable.loop2 rec depth value i (ofEntry k :: kjs, buf, (jo : Int), (ko : Int), (vo : Int)) =
      if ko ≤ value.length then
        (Ctl.ofRes (rec depth (ofEntry k) (value.drop ko) buf) >>= fun b1 =>
          match readU32At value jo with
          | none => Ctl.ret (.ok b1)
          | some w =>
            if vo ≤ value.length then
              (Ctl.ofRes (rec depth ⟨(jeType w : Nat), (jeLen w : Nat)⟩ (value.drop vo) b1) >>= fun b2 =>
                Ctl.val (.next (kjs, b2, ((jo + 4 : Nat) : Int), ((ko + k.2 : Nat) : Int), ((vo + jeLen w : Nat) : Int))))
            else Ctl.ret (.panic "range start index out of range for slice"))
      else Ctl.ret (.panic "range start index out of range for slice") := by
  unfold Tr.object_convert_to_comparable.loop2
  dsimp only
  simp only [Rs.popFront, Rs.unwrap_some, Ctl.ofRes_ok', Ctl.val_bind', sliceFrom_model]
  by_cases h1 : ko ≤ value.length
  swap
  · simp only [if_neg h1, sliceFrom_model_panic _ _ h1, Ctl.ofRes_panic', Ctl.ret_bind', Rs.loopStep_panic']
  simp only [if_pos h1, sliceFrom_model_ok _ _ h1, Ctl.ofRes_ok', Ctl.val_bind']
  cases rec depth (ofEntry k) (value.drop ko) buf with
  | err e => simp only [Ctl.ofRes_err', Ctl.ret_bind', Rs.loopStep_err']
  | panic s => simp only [Ctl.ofRes_panic', Ctl.ret_bind', Rs.loopStep_panic']
  | fuel => rfl
  | ok b1 =>
    simp only [Ctl.ofRes_ok', Ctl.val_bind']
    rw [read_u32_agrees value jo (Rs.le_max_of_lt hjo)]
    cases hw : readU32At value jo with
    | none => simp only [Rs.resOpt, Ctl.val_bind', Ctl.ret_bind', Rs.loopStep_ret']
    | some w =>
      have hl := jeLen_lt w
      have h4 : ((4 : Nat) : Int) = 4 := rfl
      simp only [Rs.resOpt, Ctl.val_bind', Ctl.pure_eq', decode_jentry_agrees, Ctl.ofRes_ok']
      by_cases h2 : vo ≤ value.length
      swap
      · simp only [if_neg h2, sliceFrom_model_panic _ _ h2, Ctl.ofRes_panic', Ctl.ret_bind', Rs.loopStep_panic']
      simp only [if_pos h2, sliceFrom_model_ok _ _ h2, Ctl.ofRes_ok', Ctl.val_bind']
      cases rec depth ⟨(jeType w : Nat), (jeLen w : Nat)⟩ (value.drop vo) b1 with
      | err e => simp only [Ctl.ofRes_err', Ctl.ret_bind', Rs.loopStep_err']
      | panic s => simp only [Ctl.ofRes_panic', Ctl.ret_bind', Rs.loopStep_panic']
      | fuel => rfl
      | ok b2 =>
        simp only [Ctl.ofRes_ok', Ctl.val_bind', Ctl.pure_eq', ← h4, Rs.add_usize_nat jo 4 hjo, ofEntry,
          Rs.usize_nat k.2 (by omega), Rs.usize_nat (jeLen w) (by omega),
          Rs.add_usize_nat ko k.2 (by omega), Rs.add_usize_nat vo (jeLen w) (by omega), Rs.loopStep_val']

end Jsonb.TrAgree
