/-
C13 refinement: `array_distinct` on an array document computes `Spec.distinct` (byte identity
of (entry, payload) coincides with `same`).
-/
import JsonbModel.Proofs.SetLaws
import JsonbModel.Proofs.EditRefine

namespace Jsonb
open JV

def identOf (v : JV) : Nat × Nat × Bytes := Fn.ident (itemOf v)

theorem identOf_eq_iff (a b : JV) : identOf a = identOf b ↔ Spec.same a b = true := by
  simp only [identOf, Fn.ident, itemOf, Spec.same, beq_iff_eq, Prod.mk.injEq]
  constructor
  · intro ⟨h1, h2, h3⟩
    apply Prod.ext
    · rw [entry_fst, entry_fst, h1, h2]
    · exact h3
  · intro h
    have hp : (entry a).2 = (entry b).2 := congrArg Prod.snd h
    have hw : (entry a).1 = (entry b).1 := congrArg Prod.fst h
    have hl : elen a = elen b := by simp only [elen, hp]
    rw [entry_fst, entry_fst, hl] at hw
    exact ⟨by omega, hl, hp⟩

theorem contains_ident (x : JV) (seen : List JV) :
    (seen.map identOf).contains (identOf x) = seen.any (Spec.same x) := by
  induction seen with
  | nil => rfl
  | cons y ys ih =>
    simp only [List.map_cons, List.contains_cons, List.any_cons, ih]
    congr 1
    by_cases h : Spec.same x y = true
    · rw [h]; simpa using (identOf_eq_iff x y).mpr h
    · have : ¬ identOf x = identOf y := fun e => h ((identOf_eq_iff x y).mp e)
      simp only [Bool.not_eq_true] at h
      rw [h]; simpa using this

theorem distinctLoop_refines (vs seen : List JV) :
    Fn.distinctLoop (vs.map itemOf) (seen.map identOf) = (Spec.distinct vs seen).map itemOf := by
  induction vs generalizing seen with
  | nil => rfl
  | cons v vs ih =>
    simp only [List.map_cons, Fn.distinctLoop, Spec.distinct]
    have hc := contains_ident v seen
    simp only [identOf] at hc
    rw [hc]
    by_cases h : seen.any (Spec.same v) = true
    · simp only [h, if_true]; exact ih seen
    · simp only [h, Bool.false_eq_true, if_false, List.map_cons]
      have := ih (v :: seen)
      simp only [List.map_cons, identOf] at this
      rw [this]

theorem goodL_sublist {a b : List JV} (h : a.Sublist b) (hg : goodL b = true) : goodL a = true := by
  induction h with
  | slnil => rfl
  | cons x _ ih => simp only [goodL, Bool.and_eq_true] at hg; exact ih hg.2
  | cons_cons x _ ih => simp only [goodL, Bool.and_eq_true] at hg ⊢; exact ⟨hg.1, ih hg.2⟩

/-- **array_distinct** on an array document, into any prior buffer: first occurrences, in
order, as a canonical array -/
theorem arrayDistinct_arr (vs : List JV) (hn : vs.length < 536870912) (hg : goodL vs = true) (buf : Bytes) :
    Fn.arrayDistinct (encodeSpec (arr vs)) buf = .ok (buf ++ encodeSpec (Spec.arrayDistinct (arr vs))) := by
  have hdr : readU32At (encodeSpec (arr vs)) 0 = some (C.ARRAY_CONTAINER_TAG + vs.length) := by
    simp only [encodeSpec, entry]; exact readU32At_zero _ _ (arr_header_lt _ hn)
  simp only [Fn.arrayDistinct, hdr, hdrType_arr _ hn, if_true, iterArray_doc vs hn hg, Spec.arrayDistinct]
  have := distinctLoop_refines vs []
  simp only [List.map_nil] at this
  rw [this, map_rawOf_itemOf]
  have hsub := Spec.distinct_sublist vs []
  exact buildArrayInto_raw buf _ (Nat.lt_of_le_of_lt hsub.length_le hn) (goodL_sublist hsub hg)

end Jsonb
