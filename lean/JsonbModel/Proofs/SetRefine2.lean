/-
C13 refinement, part 2: `array_intersection` / `array_except` (the count-map loop against
`Spec.interExcept`) and `array_overlap`, for array, object and scalar operands.
-/
import JsonbModel.Proofs.EditRefine3

namespace Jsonb
open JV

abbrev Ident := Nat × Nat × Bytes
abbrev CMap := List (Ident × Nat)

/-- the count a map holds for an identity (absent = 0) -/
def cntOf (m : CMap) (i : Ident) : Nat := (Fn.countGet i m).getD 0

/-- every stored count is positive (true of a freshly built map) -/
def CPos (m : CMap) : Prop := ∀ i c, Fn.countGet i m = some c → c > 0

theorem countGet_countAdd (k i : Ident) (m : CMap) :
    Fn.countGet i (Fn.countAdd k m) = if i = k then some (cntOf m k + 1) else Fn.countGet i m := by
  induction m with
  | nil =>
    simp only [Fn.countAdd, Fn.countGet, cntOf, Option.getD_none]
    by_cases h : i = k
    · subst h; simp
    · have : ¬ k = i := fun e => h e.symm
      simp [h, this]
  | cons kc m ih =>
    obtain ⟨k', c⟩ := kc
    simp only [Fn.countAdd]
    by_cases hk : k' = k
    · subst hk
      simp only [if_true, Fn.countGet, cntOf]
      by_cases h : i = k'
      · subst h; simp
      · have : ¬ k' = i := fun e => h e.symm
        simp [h, this]
    · simp only [hk, if_false, Fn.countGet, ih]
      by_cases h : i = k
      · subst h
        simp only [hk, if_false, if_true, cntOf, Fn.countGet]
      · by_cases h2 : k' = i
        · simp [h, h2]
        · simp [h, h2]

theorem cntOf_countAdd (k i : Ident) (m : CMap) :
    cntOf (Fn.countAdd k m) i = cntOf m i + (if i = k then 1 else 0) := by
  unfold cntOf
  rw [countGet_countAdd]
  by_cases h : i = k
  · subst h; simp [cntOf]
  · simp [h]

theorem CPos_countAdd (k : Ident) (m : CMap) (h : CPos m) : CPos (Fn.countAdd k m) := by
  intro i c hc
  rw [countGet_countAdd] at hc
  by_cases hi : i = k
  · simp only [hi, if_true, Option.some.injEq] at hc; omega
  · simp only [hi, if_false] at hc; exact h i c hc

theorem countGet_countDec (k i : Ident) (m : CMap) :
    Fn.countGet i (Fn.countDec k m) = if i = k then (Fn.countGet k m).map (· - 1) else Fn.countGet i m := by
  induction m with
  | nil => simp [Fn.countDec, Fn.countGet]
  | cons kc m ih =>
    obtain ⟨k', c⟩ := kc
    simp only [Fn.countDec]
    by_cases hk : k' = k
    · subst hk
      simp only [if_true, Fn.countGet]
      by_cases h : i = k'
      · subst h; simp
      · have : ¬ k' = i := fun e => h e.symm
        simp [h, this]
    · simp only [hk, if_false, Fn.countGet, ih]
      by_cases h : i = k
      · subst h
        simp only [hk, if_false, if_true]
      · by_cases h2 : k' = i
        · simp [h, h2]
        · simp [h, h2]

theorem cntOf_countDec (k i : Ident) (m : CMap) :
    cntOf (Fn.countDec k m) i = cntOf m i - (if i = k then 1 else 0) := by
  unfold cntOf
  rw [countGet_countDec]
  by_cases h : i = k
  · subst h
    cases Fn.countGet i m <;> simp
  · simp [h]

/-- the map built from the second operand counts identities -/
theorem cntOf_foldl (ys : List JV) (m : CMap) (i : Ident) :
    cntOf ((ys.map itemOf).foldl (fun m x => Fn.countAdd (Fn.ident x) m) m) i
      = cntOf m i + (ys.map identOf).count i := by
  induction ys generalizing m with
  | nil => simp
  | cons y ys ih =>
    simp only [List.map_cons, List.foldl_cons, ih, cntOf_countAdd, List.count_cons, identOf]
    by_cases h : i = Fn.ident (itemOf y)
    · subst h; simp; omega
    · have : ¬ Fn.ident (itemOf y) = i := fun e => h e.symm
      simp [h, this]

theorem CPos_foldl (ys : List JV) (m : CMap) (h : CPos m) :
    CPos ((ys.map itemOf).foldl (fun m x => Fn.countAdd (Fn.ident x) m) m) := by
  induction ys generalizing m with
  | nil => exact h
  | cons y ys ih => exact ih _ (CPos_countAdd _ _ h)

/-- `m` represents the multiset of identities of `ys` -/
def Rep (m : CMap) (ys : List JV) : Prop := ∀ i, cntOf m i = (ys.map identOf).count i

theorem removeFirst_none_of_count (x : JV) (ys : List JV) (h : (ys.map identOf).count (identOf x) = 0) :
    Spec.removeFirst x ys = none := by
  induction ys with
  | nil => rfl
  | cons y ys ih =>
    simp only [List.map_cons, List.count_cons] at h
    have hne : ¬ identOf y = identOf x := by
      intro e; simp [e] at h
    have hs : Spec.same x y = false := by
      cases hh : Spec.same x y with
      | false => rfl
      | true => exact absurd ((identOf_eq_iff x y).mpr hh).symm hne
    have hc : (ys.map identOf).count (identOf x) = 0 := by
      have : (identOf y == identOf x) = false := by simpa using hne
      simp only [this, Bool.false_eq_true, if_false, Nat.add_zero] at h
      exact h
    simp only [Spec.removeFirst, hs, Bool.false_eq_true, if_false, ih hc, Option.map_none]

theorem removeFirst_some_of_count (x : JV) (ys : List JV) (h : (ys.map identOf).count (identOf x) > 0) :
    ∃ ys', Spec.removeFirst x ys = some ys' ∧
      ∀ i, (ys'.map identOf).count i = (ys.map identOf).count i - (if i = identOf x then 1 else 0) := by
  induction ys with
  | nil => simp at h
  | cons y ys ih =>
    by_cases hs : Spec.same x y = true
    · refine ⟨ys, by simp [Spec.removeFirst, hs], ?_⟩
      intro i
      have e := (identOf_eq_iff x y).mpr hs
      simp only [List.map_cons, List.count_cons, ← e]
      by_cases hi : i = identOf x
      · subst hi; simp
      · have : ¬ identOf x = i := fun e => hi e.symm
        simp [hi, this]
    · have hne : ¬ identOf y = identOf x := fun e => hs ((identOf_eq_iff x y).mp e.symm)
      have hb : (identOf y == identOf x) = false := by simpa using hne
      simp only [List.map_cons, List.count_cons, hb, Bool.false_eq_true, if_false, Nat.add_zero] at h
      obtain ⟨ys', h1, h2⟩ := ih h
      simp only [Bool.not_eq_true] at hs
      refine ⟨y :: ys', by simp [Spec.removeFirst, hs, h1], ?_⟩
      intro i
      simp only [List.map_cons, List.count_cons, h2 i]
      by_cases hi : i = identOf x
      · subst hi
        simp only [hb, Bool.false_eq_true, if_false, if_true, Nat.add_zero]
      · simp [hi]

/-- **the count-map loop computes `interExcept`** -/
theorem interLoop_refines (keep : Bool) (xs ys : List JV) (m : CMap) (hr : Rep m ys) :
    Fn.interLoop keep (xs.map itemOf) m = (Spec.interExcept keep xs ys).map itemOf := by
  induction xs generalizing ys m with
  | nil => rfl
  | cons x xs ih =>
    have hx : Fn.ident (itemOf x) = identOf x := rfl
    simp only [List.map_cons, Fn.interLoop, Spec.interExcept, hx]
    have hcnt := hr (identOf x)
    have present : ∀ c, Fn.countGet (identOf x) m = some c → c > 0 →
        ∃ ys', Spec.removeFirst x ys = some ys' ∧ Rep (Fn.countDec (identOf x) m) ys' := by
      intro c hc hpos
      have : (ys.map identOf).count (identOf x) > 0 := by
        rw [← hcnt]; simp [cntOf, hc]; exact hpos
      obtain ⟨ys', h1, h2⟩ := removeFirst_some_of_count x ys this
      refine ⟨ys', h1, ?_⟩
      intro i
      rw [cntOf_countDec, h2 i, hr i]
    cases hc : Fn.countGet (identOf x) m with
    | none =>
      have : (ys.map identOf).count (identOf x) = 0 := by rw [← hcnt]; simp [cntOf, hc]
      rw [removeFirst_none_of_count x ys this]
      cases keep with
      | true => simp only [if_true]; exact ih ys m hr
      | false => simp only [Bool.false_eq_true, if_false, List.map_cons]; rw [ih ys m hr]
    | some c =>
      by_cases hpos : c > 0
      · obtain ⟨ys', h1, h2⟩ := present c hc hpos
        simp only [hpos, if_true, h1]
        cases keep with
        | true => simp only [if_true, List.map_cons]; rw [ih ys' _ h2]
        | false => simp only [Bool.false_eq_true, if_false]; exact ih ys' _ h2
      · have : (ys.map identOf).count (identOf x) = 0 := by rw [← hcnt]; simp [cntOf, hc]; omega
        rw [removeFirst_none_of_count x ys this]
        simp only [hpos, if_false]
        cases keep with
        | true => simp only [if_true]; exact ih ys m hr
        | false => simp only [Bool.false_eq_true, if_false, List.map_cons]; rw [ih ys m hr]

/-! ### operands -/

theorem itemOf_container (v : JV) (hs : Spec.isScalar v = false) (hg : good v = true) :
    ((⟨C.CONTAINER_TAG, (encodeSpec v).length % 4294967296,
        C.CONTAINER_TAG ||| ((encodeSpec v).length % 4294967296)⟩ : JE), encodeSpec v) = itemOf v := by
  have hl := elen_lt_of_good v hg
  rw [encodeSpec_container v hs]
  have e : (entry v).2.length = elen v := rfl
  have h2 : ety v = C.CONTAINER_TAG := by
    cases v <;> first | rfl | simp [Spec.isScalar] at hs
  have hw : C.CONTAINER_TAG ||| (elen v % 4294967296) = (entry v).1 := by
    have h1 := lor_eq_add_entry v hl
    rw [h2] at h1
    simpa [jentryWord] using h1
  rw [e, hw, Nat.mod_eq_of_lt (by omega)]
  simp only [itemOf, h2]

/-- the operand list of the set functions: the elements of an array, otherwise the document
itself as a single element -/
theorem setOperand_spec (v : JV) (hg : goodTop v = true) (hge : goodL (Spec.elems v) = true) :
    Fn.setOperand (encodeSpec v) = .ok ((Spec.elems v).map itemOf) := by
  unfold Fn.setOperand
  rw [readHdr v hg]
  simp only [hdrType_hdrOf v hg]
  by_cases hva : ∃ vs, v = arr vs
  · obtain ⟨vs, rfl⟩ := hva
    simp only [goodTop, Bool.and_eq_true, decide_eq_true_eq] at hg
    simp only [kindOf, if_true, hdrOf, Spec.elems]
    exact iterArray_doc vs hg.1 hg.2
  · have hna : ∀ vs, v ≠ arr vs := fun vs h => hva ⟨vs, h⟩
    rw [elems_nonarr v hna] at hge ⊢
    have hgv : good v = true := by simpa [goodL] using hge
    have hl := elen_lt_of_good v hgv
    rw [if_neg (kindOf_ne_arr v hna)]
    cases hs : Spec.isScalar v with
    | false =>
      have hk : kindOf v = C.OBJECT_CONTAINER_TAG := by
        rcases kindOf_container v hs with h | h
        · exact absurd h (kindOf_ne_arr v hna)
        · exact h
      rw [if_pos hk, itemOf_container v hs hgv]; rfl
    | true =>
      rw [kindOf_scalar v hs, if_neg ne_sca_obj, encodeSpec_scalar v hs]
      rw [readU32At_mid (u32be C.SCALAR_CONTAINER_TAG) _ _ 4 (by simp) (entry_lt v hl)]
      have h2 : sliceFrom (u32be C.SCALAR_CONTAINER_TAG ++ (u32be (entry v).1 ++ (entry v).2)) 8 = .ok (entry v).2 := by
        unfold sliceFrom
        rw [if_pos (by simp; omega)]
        rw [← List.append_assoc, List.drop_left' (by simp)]
      simp only [h2, JE_ofWord_entry v hl]
      rfl

theorem interExcept_sublist (keep : Bool) (xs ys : List JV) : (Spec.interExcept keep xs ys).Sublist xs := by
  rw [Spec.interExcept_eq_pick]; exact Spec.pick_sublist keep xs _

theorem Rep_foldl (ys : List JV) :
    Rep ((ys.map itemOf).foldl (fun m x => Fn.countAdd (Fn.ident x) m) []) ys := by
  intro i
  rw [cntOf_foldl]
  simp [cntOf, Fn.countGet]

/-- **array_intersection (`keep = true`) / array_except (`keep = false`)**, array or non-array
operands, into any prior buffer -/
theorem arraySetOp_refines (keep : Bool) (a b : JV) (hga : goodTop a = true) (hgb : goodTop b = true)
    (hea : goodL (Spec.elems a) = true) (heb : goodL (Spec.elems b) = true) (buf : Bytes) :
    Fn.arraySetOp keep (encodeSpec a) (encodeSpec b) buf
      = .ok (buf ++ encodeSpec (arr (Spec.interExcept keep (Spec.elems a) (Spec.elems b)))) := by
  simp only [Fn.arraySetOp, readHdr a hga, readHdr b hgb, setOperand_spec a hga hea, setOperand_spec b hgb heb,
    hdrType_hdrOf a hga]
  have hsub := interExcept_sublist keep (Spec.elems a) (Spec.elems b)
  have hrep := Rep_foldl (Spec.elems b)
  by_cases hva : ∃ vs, a = arr vs
  · obtain ⟨vs, rfl⟩ := hva
    simp only [goodTop, Bool.and_eq_true, decide_eq_true_eq] at hga
    simp only [kindOf, if_true]
    rw [interLoop_refines keep _ _ _ hrep, map_rawOf_itemOf]
    exact buildArrayInto_raw buf _ (Nat.lt_of_le_of_lt hsub.length_le (by simpa [Spec.elems] using hga.1))
      (goodL_sublist hsub hea)
  · have hna : ∀ vs, a ≠ arr vs := fun vs h => hva ⟨vs, h⟩
    rw [if_neg (kindOf_ne_arr a hna)]
    rw [elems_nonarr a hna] at hsub hea ⊢
    have hpos := CPos_foldl (Spec.elems b) [] (by intro i c h; simp [Fn.countGet] at h)
    have hf : ([a].map itemOf).filter (fun x => (Fn.countGet (Fn.ident x)
          (((Spec.elems b).map itemOf).foldl (fun m x => Fn.countAdd (Fn.ident x) m) [])).isSome == keep)
        = (Spec.interExcept keep [a] (Spec.elems b)).map itemOf := by
      have hx : Fn.ident (itemOf a) = identOf a := rfl
      simp only [List.map_cons, List.map_nil, List.filter_cons, List.filter_nil, hx, Spec.interExcept]
      have hcnt := hrep (identOf a)
      cases hc : Fn.countGet (identOf a) (((Spec.elems b).map itemOf).foldl (fun m x => Fn.countAdd (Fn.ident x) m) []) with
      | none =>
        have : ((Spec.elems b).map identOf).count (identOf a) = 0 := by rw [← hcnt]; simp [cntOf, hc]
        rw [removeFirst_none_of_count a _ this]
        cases keep <;> simp
      | some c =>
        have hp := hpos _ _ hc
        have : ((Spec.elems b).map identOf).count (identOf a) > 0 := by rw [← hcnt]; simp [cntOf, hc]; exact hp
        obtain ⟨ys', h1, _⟩ := removeFirst_some_of_count a _ this
        rw [h1]
        cases keep <;> simp
    rw [hf, map_rawOf_itemOf]
    exact buildArrayInto_raw buf _ (Nat.lt_of_le_of_lt hsub.length_le (by simp)) (goodL_sublist hsub hea)

theorem arrayIntersection_refines (a b : JV) (hga : goodTop a = true) (hgb : goodTop b = true)
    (hea : goodL (Spec.elems a) = true) (heb : goodL (Spec.elems b) = true) (buf : Bytes) :
    Fn.arraySetOp true (encodeSpec a) (encodeSpec b) buf = .ok (buf ++ encodeSpec (Spec.arrayIntersection a b)) :=
  arraySetOp_refines true a b hga hgb hea heb buf

theorem arrayExcept_refines (a b : JV) (hga : goodTop a = true) (hgb : goodTop b = true)
    (hea : goodL (Spec.elems a) = true) (heb : goodL (Spec.elems b) = true) (buf : Bytes) :
    Fn.arraySetOp false (encodeSpec a) (encodeSpec b) buf = .ok (buf ++ encodeSpec (Spec.arrayExcept a b)) :=
  arraySetOp_refines false a b hga hgb hea heb buf

/-- **array_overlap** -/
theorem arrayOverlap_refines (a b : JV) (hga : goodTop a = true) (hgb : goodTop b = true)
    (hea : goodL (Spec.elems a) = true) (heb : goodL (Spec.elems b) = true) :
    Fn.arrayOverlap (encodeSpec a) (encodeSpec b) = .ok (Spec.arrayOverlap a b) := by
  simp only [Fn.arrayOverlap, readHdr a hga, readHdr b hgb, setOperand_spec a hga hea, setOperand_spec b hgb heb,
    Spec.arrayOverlap, List.any_map, List.map_map]
  congr 2
  funext x
  have := contains_ident x (Spec.elems b)
  simp only [identOf] at this
  exact this

end Jsonb
