import JsonbModel.Proofs.TranslatedAgreeF15
import JsonbModel.Proofs.KeyRefine

set_option linter.unusedSimpArgs false
set_option linter.unusedVariables false

namespace Jsonb.TrAgree
open Jsonb.Rs

theorem object_key_step (g f depth length : Nat) (value buf : Bytes) (k : Nat) (hd : depth ≤ 255)
    (hlen : length < 536870912) (hv : value.length < 9223372036854775808)
    (hrec : KeyRecOK f (Tr.scalar_convert_to_comparable g))
    (hk : kasObject k length value = true)
    (hne : Fn.keyObject (f + 1) depth length value ≠ .fuel) :
    panicAny (Tr.object_convert_to_comparable (g + 1) (depth : Int) (length : Int) value buf) =
      panicAny ((Fn.keyObject (f + 1) depth length value).map (buf ++ ·)) := by
  have h8 : ((8 : Nat) : Int) = 8 := rfl
  have h0 : ((0 : Nat) : Int) = 0 := rfl
  rw [Tr.object_convert_to_comparable]
  rw [Fn.keyObject] at hne ⊢
  simp only [← h8, Rs.mul_usize_nat 8 length (by omega), Rs.mul_usize_nat length 8 (by omega), Nat.mul_comm length 8,
    vecWithCapacity_ok Tr.JEntry 8 length (by omega),
    Ctl.ofRes_ok', Ctl.val_bind', Rs.forRange_zero]
  rw [← h0]
  rw [keys_run value (.ok buf) (Tr.object_convert_to_comparable.loop1 value buf)
    (fun i jo vo acc h1 h2 => ko_loop1_step value buf i jo vo acc h1 h2)
    length ((0 : Nat) : Int) 0 (8 * length) [] (by omega) (by omega)]
  simp only [fillKeys_eq] at hne ⊢
  cases hf : fillKeyEntries value length 0 (8 * length) with
  | none => simp only [Ctl.ret_bind', Ctl.run_ret', Option.map, Res.map, Res.bind, List.append_nil]
  | some q =>
    obtain ⟨ks, jo, vo⟩ := q
    rw [hf] at hne
    simp only [Ctl.val_bind', List.nil_append, Option.map] at hne ⊢
    obtain ⟨hlen1, hjo1⟩ := fillKeyEntries_length _ _ _ _ _ _ _ hf
    obtain ⟨hko, k', hki⟩ := kasObject_some k _ value ks jo vo hk hf
    have := ko_run2 (Tr.scalar_convert_to_comparable g) depth value hd hv ks f ((0 : Nat) : Int) buf jo (8 * length) vo length k'
      hrec (by omega) hko (by omega) hki hne
    rw [hlen1] at this
    rw [← this]
    congr 1
    generalize Rs.forRangeAux (Tr.object_convert_to_comparable.loop2 (Tr.scalar_convert_to_comparable g) (depth : Int) value) length
      ((0 : Nat) : Int) (ks.map ofEntry, buf, ((jo : Nat) : Int), ((8 * length : Nat) : Int), ((vo : Nat) : Int)) = c
    cases c with
    | val s => obtain ⟨a, b, x, y, z⟩ := s; rfl
    | ret r => rfl

/-! ## the group -/

/-- agreement of `scalar_convert_to_comparable` with the model at model fuel `f`, for every larger translation fuel -/
def KeyAgree (f : Nat) : Prop :=
  ∀ (g depth : Nat) (je : JE) (value buf : Bytes) (k : Nat), f < g → depth ≤ 255 →
    value.length < 9223372036854775808 → je.len < 4294967296 → kasScalar k je.ty value = true →
    Fn.keyScalar f depth je value ≠ .fuel →
    panicAny (Tr.scalar_convert_to_comparable g (depth : Int) (ofJE je) value buf) =
      panicAny ((Fn.keyScalar f depth je value).map (buf ++ ·))

theorem keyRecOK_of_IH (F g : Nat) (IH : ∀ f', f' < F → KeyAgree f') (hg : F ≤ g) :
    KeyRecOK F (Tr.scalar_convert_to_comparable g) :=
  fun f' hf' depth je value buf k h1 h2 h3 h4 h5 => IH f' hf' g depth je value buf k (by omega) h1 h2 h3 h4 h5

theorem map_ne_fuel {α β : Type} (r : Res α) (fn : α → β) (h : r.map fn ≠ .fuel) : r ≠ .fuel := by
  intro c; rw [c] at h; exact h rfl

theorem keyScalar_arr (f depth : Nat) (je : JE) (value : Bytes) (h : Nat) (hC : je.ty = C.CONTAINER_TAG)
    (hh : readU32At value 0 = some h) (h1 : hdrType h = C.ARRAY_CONTAINER_TAG) :
    Fn.keyScalar (f + 1) depth je value =
      (Fn.keyArray f (if depth + 1 ≤ 255 then depth + 1 else 255) (hdrLen h) (value.drop 4) 0 (4 * hdrLen h)).map
        (fun k => [UInt8.ofNat depth] ++ (UInt8.ofNat C.ARRAY_LEVEL :: k)) := by
  have h4l := readU32At_some_len _ _ _ hh
  rw [Fn.keyScalar]
  simp only [if_pos hC, hh, if_pos h1, Fn.incDepth, sliceFrom_model_ok value 4 (by omega)]

theorem keyScalar_obj (f depth : Nat) (je : JE) (value : Bytes) (h : Nat) (hC : je.ty = C.CONTAINER_TAG)
    (hh : readU32At value 0 = some h) (h1 : hdrType h = C.OBJECT_CONTAINER_TAG) :
    Fn.keyScalar (f + 1) depth je value =
      (Fn.keyObject f (if depth + 1 ≤ 255 then depth + 1 else 255) (hdrLen h) (value.drop 4)).map
        (fun k => [UInt8.ofNat depth] ++ (UInt8.ofNat C.OBJECT_LEVEL :: k)) := by
  have h4l := readU32At_some_len _ _ _ hh
  have hne : ¬ hdrType h = C.ARRAY_CONTAINER_TAG := by rw [h1]; decide
  rw [Fn.keyScalar]
  simp only [if_pos hC, hh, if_neg hne, if_pos h1, Fn.incDepth, sliceFrom_model_ok value 4 (by omega)]

/-- **the `convert_to_comparable` group**: wherever the model with fuel `f` answers, the translation of
`scalar_convert_to_comparable` with any larger fuel appends the model's key bytes to `buf` (up to the text of a panic
message), on buffers whose key entries are string-typed -/
theorem keyAgree_all : ∀ f, KeyAgree f := by
  intro f
  induction f using Nat.strongRecOn with
  | _ f IH =>
    intro g depth je value buf k hfg hd hv hlen hk hne
    cases f with
    | zero => simp [Fn.keyScalar] at hne
    | succ f =>
      obtain ⟨g, rfl⟩ : ∃ m, g = m + 1 := ⟨g - 1, by omega⟩
      have hd1 : (if depth + 1 ≤ 255 then depth + 1 else 255) ≤ 255 := by split <;> omega
      refine scalar_key_step g f depth je value buf hd hv hlen ?_ ?_
      · intro h hC hh h1 b
        rw [keyScalar_arr f depth je value h hC hh h1] at hne
        have hne' := map_ne_fuel _ _ hne
        obtain ⟨k1, hk1⟩ := kasScalar_container k _ value hk hC
        obtain ⟨k2, hk2⟩ := kasContainer_arr k1 value h hk1 hh h1
        cases f with
        | zero => simp [Fn.keyArray] at hne'
        | succ f =>
          obtain ⟨g, rfl⟩ : ∃ m, g = m + 1 := ⟨g - 1, by omega⟩
          exact array_key_step g (f + 1) _ (hdrLen h) (value.drop 4) b k2 hd1 (hdrLen_lt h) (by simp; omega)
            (keyRecOK_of_IH (f + 1) g (fun f' hf' => IH f' (by omega)) (by omega)) hk2 hne'
      · intro h hC hh h1 b
        rw [keyScalar_obj f depth je value h hC hh h1] at hne
        have hne' := map_ne_fuel _ _ hne
        obtain ⟨k1, hk1⟩ := kasScalar_container k _ value hk hC
        obtain ⟨k2, hk2⟩ := kasContainer_obj k1 value h hk1 hh h1
        cases f with
        | zero => simp [Fn.keyObject] at hne'
        | succ f =>
          obtain ⟨g, rfl⟩ : ∃ m, g = m + 1 := ⟨g - 1, by omega⟩
          exact object_key_step g f _ (hdrLen h) (value.drop 4) b k2 hd1 (hdrLen_lt h) (by simp; omega)
            (keyRecOK_of_IH f g (fun f' hf' => IH f' (by omega)) (by omega)) hk2 hne'

theorem scalar_convert_to_comparable_agrees (f g depth : Nat) (je : JE) (value buf : Bytes) (k : Nat) (hfg : f < g)
    (hd : depth ≤ 255) (hv : value.length < 9223372036854775808) (hlen : je.len < 4294967296)
    (hk : kasScalar k je.ty value = true) (hne : Fn.keyScalar f depth je value ≠ .fuel) :
    panicAny (Tr.scalar_convert_to_comparable g (depth : Int) (ofJE je) value buf) =
      panicAny ((Fn.keyScalar f depth je value).map (buf ++ ·)) :=
  keyAgree_all f g depth je value buf k hfg hd hv hlen hk hne

end Jsonb.TrAgree
