/-
Agreement theorems, phase 5a, part 3: `array_values` = `Fn.arrayValues`, `object_each` (three loops over a queue of
decoded entries and a queue of keys) = `Fn.objectEach`.
-/
import JsonbModel.Proofs.TranslatedAgreeE2

set_option linter.unusedSimpArgs false
set_option linter.unusedVariables false

namespace Jsonb.TrAgree
open Jsonb.Rs

/-! ## array_values -/

/-- `extract_by_jentry` on an entry decoded from a word that was read from the buffer -/
theorem extract_word (value : Bytes) (w vo : Nat) (hw : w < 4294967296) (hvo : vo ≤ 9223372036854775807) :
    Tr.extract_by_jentry ⟨(jeType w : Nat), (jeLen w : Nat)⟩ (w : Int) (vo : Int) value
      = extractByJentry (JE.ofWord w) vo value := by
  have hl := jeLen_lt w
  have := extract_by_jentry_agrees (JE.ofWord w) vo value (by simp only [JE.ofWord]; omega) (by simpa [JE.ofWord] using hw) hvo
  simpa only [ofJE, JE.ofWord] using this

theorem avals_loop1_step (value : Bytes) (i : Int) (items : List Bytes) (jo vo : Nat)
    (hjo : jo + 4 < 18446744073709551616) (hvo : vo + 268435456 ≤ 9223372036854775807) :
    Tr.array_values.loop1 value i (items, (jo : Int), (vo : Int)) =
      match readU32At value jo with
      | none => Ctl.ret (.ok none)
      | some w =>
        match extractByJentry (JE.ofWord w) vo value with
        | .ok item => Ctl.val (.next (items ++ [item], ((jo + 4 : Nat) : Int), ((vo + jeLen w : Nat) : Int)))
        | .err e => Ctl.ret (.err e)
        | .panic s => Ctl.ret (.panic s)
        | .fuel => Ctl.ret .fuel := by
  unfold Tr.array_values.loop1
  dsimp only
  rw [read_u32_agrees value jo (Rs.le_max_of_lt hjo)]
  cases hr : readU32At value jo with
  | none => simp
  | some w =>
    have hl := jeLen_lt w
    have hw := readU32At_lt _ _ _ hr
    simp only [Rs.okQ_ok', Ctl.val_bind', decode_jentry_agrees, Ctl.ofRes_ok', Rs.usize_nat (jeLen w) (by omega),
      extract_word value w vo hw (by omega)]
    cases extractByJentry (JE.ofWord w) vo value with
    | ok item =>
      simp (disch := omega) only [Ctl.ofRes_ok', Ctl.val_bind', Rs.add_usize_ok', Ctl.pure_eq', Rs.loopStep_val', Rs.vecPush]
      state_arith
    | err e => simp [Ctl.ofRes, Rs.loopStep]
    | panic e => simp [Ctl.ofRes, Rs.loopStep]
    | fuel => simp [Ctl.ofRes, Rs.loopStep]

/-- the `for _ in 0..length` loop of `array_values` followed by `Some(items)` -/
theorem avals_loop1_run (value : Bytes) : ∀ (n : Nat) (i : Int) (items : List Bytes) (jo vo : Nat),
    jo + n * 4 < 18446744073709551616 → vo + n * 268435456 ≤ 9223372036854775807 →
    (Rs.forRangeAux (Tr.array_values.loop1 value) n i (items, (jo : Int), (vo : Int))
        >>= fun st => (Ctl.ret (.ok (some st.1)) : Ctl (Option (List Bytes)) (Option (List Bytes))))
      = Ctl.ret (match Fn.arrayValuesLoop value n jo vo with
          | .ok (some r) => .ok (some (items ++ r))
          | .ok none => .ok none
          | .err e => .err e
          | .panic s => .panic s
          | .fuel => .fuel) := by
  intro n
  induction n with
  | zero => intro i items jo vo _ _; simp [Rs.forRangeAux, Fn.arrayValuesLoop]
  | succ n ih =>
    intro i items jo vo hjo hvo
    rw [Rs.forRangeAux, avals_loop1_step value i items jo vo (by omega) (by omega), Fn.arrayValuesLoop]
    cases hr : readU32At value jo with
    | none => rfl
    | some w =>
      have hl := jeLen_lt w
      simp only []
      cases extractByJentry (JE.ofWord w) vo value with
      | ok item =>
        simp only []
        rw [ih (i + 1) (items ++ [item]) (jo + 4) (vo + jeLen w) (by omega) (by omega)]
        cases Fn.arrayValuesLoop value n (jo + 4) (vo + jeLen w) with
        | ok o => cases o <;> simp
        | err e => rfl
        | panic e => rfl
        | fuel => rfl
      | err e => rfl
      | panic e => rfl
      | fuel => rfl

theorem avals_loop1_run_int (value : Bytes) (n : Nat) (i : Int) (joI voI : Int) (jo vo : Nat)
    (hj : joI = (jo : Int)) (hv : voI = (vo : Int))
    (hjo : jo + n * 4 < 18446744073709551616) (hvo : vo + n * 268435456 ≤ 9223372036854775807) :
    (Rs.forRangeAux (Tr.array_values.loop1 value) n i (([] : List Bytes), joI, voI)
        >>= fun st => (Ctl.ret (.ok (some st.1)) : Ctl (Option (List Bytes)) (Option (List Bytes))))
      = Ctl.ret (match Fn.arrayValuesLoop value n jo vo with
          | .ok (some r) => .ok (some r)
          | .ok none => .ok none
          | .err e => .err e
          | .panic s => .panic s
          | .fuel => .fuel) := by
  subst hj hv
  have := avals_loop1_run value n i [] jo vo hjo hvo
  simpa using this

theorem array_values_agrees (value : Bytes) (text : Res (Option (List Bytes))) :
    Tr.array_values value text = if isJsonb value then Fn.arrayValues value else text := by
  unfold Tr.array_values Fn.arrayValues
  rw [is_jsonb_agrees, read_u32_zero]
  cases hj : isJsonb value
  · simp [Ctl.ofRes, Ctl.run]
  · cases hr : readU32At value 0 with
    | none => simp [Ctl.ofRes, Ctl.run, Rs.okQ]
    | some w =>
      have ht := hdrType_eq w C.ARRAY_CONTAINER_TAG
      have hL := hdrLen_lt w
      simp only [Rs.okQ_ok', Ctl.ofRes_ok', Ctl.val_bind', Ctl.pure_eq', Bool.not_true, Bool.false_eq_true, if_false,
        if_true, ht]
      by_cases hh : hdrType w = C.ARRAY_CONTAINER_TAG
      · simp only [hh, decide_true, if_true]
        simp (disch := omega) only [hdrLen_cast, Rs.add_usize_ok', Rs.mul_usize_ok',
          Ctl.ofRes_ok', Ctl.val_bind', Ctl.pure_eq', vecWithCapacity_ok Bytes 24 (hdrLen w) (by omega), Rs.forRange_zero]
        -- whatever the two start offsets are spelled like, they are these numbers
        refine (congrArg Ctl.run (avals_loop1_run_int value (hdrLen w) 0 _ _ 4 (4 * hdrLen w + 4) ?h1 ?h2
          (by omega) (by omega))).trans ?h3
        case h1 => rfl
        case h2 => omega
        rw [Ctl.run_ret']
        cases Fn.arrayValuesLoop value (hdrLen w) 4 (4 * hdrLen w + 4) with
        | ok o => cases o <;> rfl
        | err e => rfl
        | panic e => rfl
        | fuel => rfl
      · simp [hh]


/-! ## object_each -/

/-- an entry word as the queue element `(JEntry::decode_jentry(encoded), encoded)` -/
def wordEntry (w : Nat) : Tr.JEntry × Int := (⟨(jeType w : Nat), (jeLen w : Nat)⟩, (w : Int))

theorem oeach_loop1_step (value : Bytes) (i : Int) (off : Nat) (js : List (Tr.JEntry × Int))
    (hoff : off + 4 < 18446744073709551616) :
    Tr.object_each.loop1 value i ((off : Int), js) =
      match readU32At value off with
      | none => Ctl.ret (.ok none)
      | some w => Ctl.val (.next (((off + 4 : Nat) : Int), js ++ [wordEntry w])) := by
  unfold Tr.object_each.loop1
  dsimp only
  rw [read_u32_agrees value off (Rs.le_max_of_lt hoff)]
  cases hr : readU32At value off with
  | none => simp
  | some w =>
    simp (disch := omega) only [Rs.okQ_ok', Ctl.val_bind', decode_jentry_agrees, Ctl.ofRes_ok', Rs.add_usize_ok', Ctl.pure_eq',
      Rs.loopStep_val', Rs.pushBack, wordEntry]
    state_arith

theorem oeach_loop1_run (value : Bytes) : ∀ (n : Nat) (i : Int) (off : Nat) (js : List (Tr.JEntry × Int)),
    off + n * 4 < 18446744073709551616 →
    Rs.forRangeAux (Tr.object_each.loop1 value) n i ((off : Int), js) =
      match Fn.readWords value n off with
      | none => Ctl.ret (.ok none)
      | some ws => Ctl.val (((off + n * 4 : Nat) : Int), js ++ ws.map wordEntry) := by
  intro n
  induction n with
  | zero => intro i off js _; simp [Rs.forRangeAux, Fn.readWords]
  | succ n ih =>
    intro i off js hoff
    rw [Rs.forRangeAux, oeach_loop1_step value i off js (by omega), Fn.readWords]
    cases hr : readU32At value off with
    | none => rfl
    | some w =>
      simp only []
      rw [ih (i + 1) (off + 4) (js ++ [wordEntry w]) (by omega)]
      cases Fn.readWords value n (off + 4) with
      | none => rfl
      | some ws =>
        simp only [Option.map_some, List.map_cons, List.append_assoc, List.singleton_append]
        congr 3
        omega

theorem readWords_length (value : Bytes) : ∀ (n off : Nat) (ws : List Nat), Fn.readWords value n off = some ws →
    ws.length = n ∧ ∀ w ∈ ws, w < 4294967296 := by
  intro n
  induction n with
  | zero => intro off ws h; simp only [Fn.readWords, Option.some.injEq] at h; subst h; simp
  | succ n ih =>
    intro off ws h
    rw [Fn.readWords] at h
    cases hr : readU32At value off with
    | none => simp [hr] at h
    | some w =>
      simp only [hr] at h
      cases hq : Fn.readWords value n (off + 4) with
      | none => simp [hq] at h
      | some ws1 =>
        simp only [hq, Option.map_some, Option.some.injEq] at h
        subst h
        obtain ⟨h1, h2⟩ := ih _ _ hq
        refine ⟨by simp [h1], ?_⟩
        intro x hx
        simp only [List.mem_cons] at hx
        cases hx with
        | inl hx => subst hx; exact readU32At_lt _ _ _ hr
        | inr hx => exact h2 x hx

/-- second loop: one key per popped key entry -/
theorem oeach_loop2_step (value : Bytes) (i : Int) (w : Nat) (rest : List (Tr.JEntry × Int)) (keys : List Bytes) (off : Nat)
    (hoff : off + 268435456 < 18446744073709551616) :
    Tr.object_each.loop2 value i (wordEntry w :: rest, keys, (off : Int)) =
      match Jsonb.slice value off (off + jeLen w) with
      | .ok k => Ctl.val (.next (rest, keys ++ [k], ((off + jeLen w : Nat) : Int)))
      | .err e => Ctl.ret (.err e)
      | .panic s => Ctl.ret (.panic s)
      | .fuel => Ctl.ret .fuel := by
  unfold Tr.object_each.loop2
  dsimp only
  have hl := jeLen_lt w
  simp (disch := omega) only [Rs.popFront, Rs.unwrap, wordEntry, Ctl.ofRes_ok', Ctl.val_bind', Rs.usize_nat (jeLen w) (by omega),
    Rs.add_usize_ok']
  rw [slice_int value _ _ off (off + jeLen w) rfl (by omega)]
  cases Jsonb.slice value off (off + jeLen w) with
  | ok k => simp only [Ctl.ofRes_ok', Ctl.val_bind', Ctl.pure_eq', Rs.loopStep_val', Rs.pushBack]; state_arith
  | err e => simp [Ctl.ofRes, Rs.loopStep]
  | panic e => simp [Ctl.ofRes, Rs.loopStep]
  | fuel => simp [Ctl.ofRes, Rs.loopStep]

theorem oeach_loop2_run (value : Bytes) : ∀ (ws : List Nat) (i : Int) (rest : List (Tr.JEntry × Int)) (keys : List Bytes) (off : Nat),
    off + ws.length * 268435456 < 18446744073709551616 →
    Rs.forRangeAux (Tr.object_each.loop2 value) ws.length i (ws.map wordEntry ++ rest, keys, (off : Int)) =
      match Fn.eachKeys value ws off with
      | .ok (ks, o) => Ctl.val (rest, keys ++ ks, (o : Int))
      | .err e => Ctl.ret (.err e)
      | .panic s => Ctl.ret (.panic s)
      | .fuel => Ctl.ret .fuel := by
  intro ws
  induction ws with
  | nil => intro i rest keys off _; simp [Rs.forRangeAux, Fn.eachKeys]
  | cons w ws ih =>
    intro i rest keys off hoff
    simp only [List.length_cons] at hoff
    have hl := jeLen_lt w
    simp only [List.length_cons, List.map_cons, List.cons_append]
    rw [Rs.forRangeAux, oeach_loop2_step value i w _ keys off (by omega), Fn.eachKeys]
    cases Jsonb.slice value off (off + jeLen w) with
    | ok k =>
      simp only []
      rw [ih (i + 1) rest (keys ++ [k]) (off + jeLen w) (by omega)]
      cases Fn.eachKeys value ws (off + jeLen w) with
      | ok p => obtain ⟨ks, o⟩ := p; simp
      | err e => rfl
      | panic e => rfl
      | fuel => rfl
    | err e => rfl
    | panic e => rfl
    | fuel => rfl

theorem eachKeys_facts (value : Bytes) : ∀ (ws : List Nat) (off : Nat) (ks : List Bytes) (o : Nat),
    Fn.eachKeys value ws off = .ok (ks, o) → ks.length = ws.length ∧ o ≤ off + ws.length * 268435456 := by
  intro ws
  induction ws with
  | nil => intro off ks o h; simp only [Fn.eachKeys, Res.ok.injEq, Prod.mk.injEq] at h; obtain ⟨rfl, rfl⟩ := h; simp
  | cons w ws ih =>
    intro off ks o h
    have hl := jeLen_lt w
    rw [Fn.eachKeys] at h
    cases hs : Jsonb.slice value off (off + jeLen w) with
    | ok k =>
      simp only [hs] at h
      cases hq : Fn.eachKeys value ws (off + jeLen w) with
      | ok p =>
        obtain ⟨ks1, o1⟩ := p
        simp only [hq, Res.ok.injEq, Prod.mk.injEq] at h
        obtain ⟨rfl, rfl⟩ := h
        obtain ⟨h1, h2⟩ := ih _ _ _ hq
        simp only [List.length_cons]
        omega
      | err e => simp [hq] at h
      | panic e => simp [hq] at h
      | fuel => simp [hq] at h
    | err e => simp [hs] at h
    | panic e => simp [hs] at h
    | fuel => simp [hs] at h

/-- third loop: one `(key, value)` pair per popped value entry and key -/
theorem oeach_loop3_step (value : Bytes) (i : Int) (w : Nat) (rest : List (Tr.JEntry × Int)) (k : Bytes) (keys : List Bytes)
    (off : Nat) (items : List (Bytes × Bytes)) (hw : w < 4294967296) (hoff : off + 268435456 ≤ 9223372036854775807) :
    Tr.object_each.loop3 value i (wordEntry w :: rest, k :: keys, (off : Int), items) =
      match extractByJentry (JE.ofWord w) off value with
      | .ok v => Ctl.val (.next (rest, keys, ((off + jeLen w : Nat) : Int), items ++ [(k, v)]))
      | .err e => Ctl.ret (.err e)
      | .panic s => Ctl.ret (.panic s)
      | .fuel => Ctl.ret .fuel := by
  unfold Tr.object_each.loop3
  dsimp only
  have hl := jeLen_lt w
  simp only [Rs.popFront, Rs.unwrap, wordEntry, Ctl.ofRes_ok', Ctl.val_bind', Rs.usize_nat (jeLen w) (by omega),
    extract_word value w off hw (by omega)]
  cases extractByJentry (JE.ofWord w) off value with
  | ok v =>
    simp (disch := omega) only [Ctl.ofRes_ok', Ctl.val_bind', Rs.add_usize_ok', Ctl.pure_eq', Rs.loopStep_val', Rs.vecPush]
    state_arith
  | err e => simp [Ctl.ofRes, Rs.loopStep]
  | panic e => simp [Ctl.ofRes, Rs.loopStep]
  | fuel => simp [Ctl.ofRes, Rs.loopStep]

theorem oeach_loop3_run (value : Bytes) : ∀ (ws : List Nat) (ks : List Bytes) (i : Int) (rest : List (Tr.JEntry × Int))
    (krest : List Bytes) (off : Nat) (items : List (Bytes × Bytes)),
    ks.length = ws.length → (∀ w ∈ ws, w < 4294967296) → off + ws.length * 268435456 ≤ 9223372036854775807 →
    (Rs.forRangeAux (Tr.object_each.loop3 value) ws.length i (ws.map wordEntry ++ rest, ks ++ krest, (off : Int), items)
        >>= fun st => (Ctl.ret (.ok (some st.2.2.2)) : Ctl (Option (List (Bytes × Bytes))) (Option (List (Bytes × Bytes)))))
      = Ctl.ret (match Fn.eachVals value ws off with
          | .ok vs => .ok (some (items ++ ks.zip vs))
          | .err e => .err e
          | .panic s => .panic s
          | .fuel => .fuel) := by
  intro ws
  induction ws with
  | nil =>
    intro ks i rest krest off items hk _ _
    cases ks with
    | nil => simp [Rs.forRangeAux, Fn.eachVals]
    | cons k ks => simp at hk
  | cons w ws ih =>
    intro ks i rest krest off items hk hws hoff
    cases ks with
    | nil => simp at hk
    | cons k ks =>
      simp only [List.length_cons] at hoff hk
      have hl := jeLen_lt w
      simp only [List.length_cons, List.map_cons, List.cons_append]
      rw [Rs.forRangeAux, oeach_loop3_step value i w _ k _ off items (hws w (by simp)) (by omega), Fn.eachVals]
      cases extractByJentry (JE.ofWord w) off value with
      | ok v =>
        simp only []
        rw [ih ks (i + 1) rest krest (off + jeLen w) (items ++ [(k, v)]) (by omega)
          (fun x hx => hws x (by simp [hx])) (by omega)]
        cases Fn.eachVals value ws (off + jeLen w) with
        | ok vs => simp
        | err e => rfl
        | panic e => rfl
        | fuel => rfl
      | err e => rfl
      | panic e => rfl
      | fuel => rfl

theorem object_each_agrees (value : Bytes) (text : Res (Option (List (Bytes × Bytes)))) :
    Tr.object_each value text = if isJsonb value then Fn.objectEach value else text := by
  unfold Tr.object_each Fn.objectEach
  rw [is_jsonb_agrees, read_u32_zero]
  cases hj : isJsonb value
  · simp [Ctl.ofRes, Ctl.run]
  · cases hr : readU32At value 0 with
    | none => simp [Ctl.ofRes, Ctl.run, Rs.okQ]
    | some w =>
      have ht := hdrType_eq w C.OBJECT_CONTAINER_TAG
      have hL := hdrLen_lt w
      simp only [Rs.okQ_ok', Ctl.ofRes_ok', Ctl.val_bind', Ctl.pure_eq', Bool.not_true, Bool.false_eq_true, if_false,
        if_true, ht]
      by_cases hh : hdrType w = C.OBJECT_CONTAINER_TAG
      · simp only [hh, decide_true, if_true]
        have hm : Rs.mul .usize ((hdrLen w : Nat) : Int) 2 = .ok ((hdrLen w * 2 : Nat) : Int) := by
          have := Rs.mul_usize_nat (hdrLen w) 2 (by omega); simpa using this
        simp (disch := omega) only [hdrLen_cast, hm, Ctl.ofRes_ok', Ctl.val_bind', Ctl.pure_eq',
          vecWithCapacity_ok (Bytes × Bytes) 48 (hdrLen w) (by omega), vecWithCapacity_ok Bytes 24 (hdrLen w) (by omega),
          vecWithCapacity_ok (Tr.JEntry × Int) 12 (hdrLen w * 2) (by omega), Rs.forRange_zero]
        have h1 := oeach_loop1_run value (hdrLen w * 2) 0 4 [] (by omega)
        simp only [Nat.cast_ofNat, List.nil_append] at h1
        rw [h1]
        cases hq : Fn.readWords value (hdrLen w * 2) 4 with
        | none => rfl
        | some ws =>
          obtain ⟨hlen, hws⟩ := readWords_length _ _ _ _ hq
          have hsplit : ws.map wordEntry = (ws.take (hdrLen w)).map wordEntry ++ (ws.drop (hdrLen w)).map wordEntry := by
            rw [← List.map_append, List.take_append_drop]
          have htl : (ws.take (hdrLen w)).length = hdrLen w := by simp; omega
          have hdl : (ws.drop (hdrLen w)).length = hdrLen w := by simp; omega
          have h2 := oeach_loop2_run value (ws.take (hdrLen w)) 0 ((ws.drop (hdrLen w)).map wordEntry) []
            (4 + hdrLen w * 2 * 4) (by rw [htl]; omega)
          rw [htl, ← hsplit] at h2
          simp only [Ctl.val_bind', h2, List.nil_append]
          cases hk : Fn.eachKeys value (List.take (hdrLen w) ws) (4 + hdrLen w * 2 * 4) with
          | ok p =>
            obtain ⟨ks, off⟩ := p
            obtain ⟨hkl, hko⟩ := eachKeys_facts _ _ _ _ _ hk
            rw [htl] at hkl hko
            have h3 := oeach_loop3_run value (ws.drop (hdrLen w)) ks 0 [] [] off [] (by rw [hdl]; exact hkl)
              (fun x hx => hws x (List.mem_of_mem_drop hx)) (by rw [hdl]; omega)
            simp only [List.append_nil, List.nil_append, hdl] at h3
            simp only [Ctl.val_bind']
            refine (congrArg Ctl.run h3).trans ?_
            rw [Ctl.run_ret']
            cases Fn.eachVals value (List.drop (hdrLen w) ws) off <;> rfl
          | err e => rfl
          | panic e => rfl
          | fuel => rfl
      · simp [hh]

end Jsonb.TrAgree
