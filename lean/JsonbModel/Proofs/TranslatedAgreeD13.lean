/-
Phase 4: `array_intersection_jsonb` / `array_except_jsonb` of functions.rs, translated from source (a
`BTreeMap<(JEntry, &[u8]), i32>` of occurrence counts, updated through `get_mut`), against `Fn.arraySetOp`
(`keep = true` / `false`) of Functions/Edit.lean.
-/
import JsonbModel.Proofs.TranslatedAgreeD12

set_option linter.unusedSimpArgs false
set_option linter.unusedVariables false

namespace Jsonb.TrAgree
open Jsonb.Rs

/-! ## a loop over `iterate_array` whose body is total as long as an invariant holds -/

theorem forIter_arr_inv_aux (value : Bytes) (length : Nat) (hL : length < 536870912) {ρ σ : Type}
    (f : (Tr.JEntry × Bytes) → σ → σ) (body : (Tr.JEntry × Bytes) → σ → Ctl ρ (Step σ)) (Q : Nat → σ → Prop)
    (hbody : ∀ i (x : JE × Bytes) s, Q i s → i < length →
      body (ofItem x) s = .val (.next (f (ofItem x) s)) ∧ Q (i + 1) (f (ofItem x) s)) :
    ∀ (fuel n jo vo idx : Nat) (s : σ), idx + n = length → n < fuel →
    jo + n * 4 + 4 < 18446744073709551616 → vo + n * 268435456 + 268435456 < 18446744073709551616 → Q idx s →
    Rs.forIter fuel Tr.ArrayIterator.next (arrIt value jo vo length idx) s body =
      match iterArrayLoop value n jo vo with
      | .ok items => .val ((items.map ofItem).foldl (fun s x => f x s) s)
      | .err e => .ret (.err e)
      | .panic p => .ret (.panic p)
      | .fuel => .ret .fuel := by
  intro fuel
  induction fuel with
  | zero => intro n jo vo idx s _ hn; omega
  | succ fuel ih =>
    intro n jo vo idx s h hn hjo hvo hq
    rw [Rs.forIter, array_iterator_next_agrees value jo vo length idx (by omega) (by omega) (by omega)]
    by_cases hi : idx ≥ length
    · have hn0 : n = 0 := by omega
      subst hn0
      rw [if_pos hi]
      simp [iterArrayLoop]
    · obtain ⟨n', rfl⟩ : ∃ n', n = n' + 1 := ⟨n - 1, by omega⟩
      rw [if_neg hi]
      simp only [iterArrayLoop]
      cases hr : readU32At value jo with
      | none => simp
      | some w =>
        have hl := jeLen_lt w
        simp only []
        cases hs : Jsonb.slice value vo (vo + jeLen w) with
        | ok item =>
          simp only []
          have hx : (ofJE (JE.ofWord w), item) = ofItem (JE.ofWord w, item) := rfl
          obtain ⟨hb, hq'⟩ := hbody idx (JE.ofWord w, item) s hq (by omega)
          rw [hx, hb]
          simp only []
          rw [ih n' (jo + 4) (vo + jeLen w) (idx + 1) _ (by omega) (by omega) (by omega) (by omega) hq']
          cases iterArrayLoop value n' (jo + 4) (vo + jeLen w) <;> simp
        | err e => simp
        | panic p => simp
        | fuel => simp

/-- `for x in iterate_array(value, header) { body }` with a body that is "state ↦ `f item state`" while an
invariant indexed by the number of items seen holds -/
theorem forIter_array_inv (value : Bytes) (header fuel : Nat) (hf : hdrLen header < fuel) {ρ σ : Type}
    (f : (Tr.JEntry × Bytes) → σ → σ) (body : (Tr.JEntry × Bytes) → σ → Ctl ρ (Step σ)) (Q : Nat → σ → Prop)
    (hbody : ∀ i (x : JE × Bytes) s, Q i s → i < hdrLen header →
      body (ofItem x) s = .val (.next (f (ofItem x) s)) ∧ Q (i + 1) (f (ofItem x) s))
    (s : σ) (hq : Q 0 s) :
    Rs.forIter fuel Tr.ArrayIterator.next (arrIt value 4 (4 * hdrLen header + 4) (hdrLen header) 0) s body =
      match iterArray value header with
      | .ok items => .val ((items.map ofItem).foldl (fun s x => f x s) s)
      | .err e => .ret (.err e)
      | .panic p => .ret (.panic p)
      | .fuel => .ret .fuel := by
  have hL := hdrLen_lt header
  exact forIter_arr_inv_aux value (hdrLen header) hL f body Q hbody fuel (hdrLen header) 4 (4 * hdrLen header + 4) 0 s
    (by omega) hf (by omega) (by omega) hq

/-! ## the loops -/

/-- the effect of counting one element of the second operand -/
def cntStep (x : Tr.JEntry × Bytes) (M : List ((Tr.JEntry × Bytes) × Int)) : List ((Tr.JEntry × Bytes) × Int) :=
  match Rs.mapGet keyCmp M x with
  | some cnt => Rs.mapInsert keyCmp M x (cnt + 1)
  | none => Rs.mapInsert keyCmp M x 1

theorem add_i32_small (c : Nat) (h : c < 2147483647) : Rs.add .i32 ((c : Nat) : Int) 1 = .ok (((c + 1 : Nat)) : Int) := by
  have := Rs.add_ok .i32 ((c : Nat) : Int) 1 (by
    rw [Rs.inRange_iff]; simp [IntTy.minVal, IntTy.maxVal, IntTy.signed, IntTy.bits]; omega)
  rw [this]; rfl

theorem add_i32_small' (c : Nat) (h : c < 2147483647) : Rs.add .i32 1 ((c : Nat) : Int) = .ok (((c + 1 : Nat)) : Int) := by
  have := Rs.add_ok .i32 1 ((c : Nat) : Int) (by
    rw [Rs.inRange_iff]; simp [IntTy.minVal, IntTy.maxVal, IntTy.signed, IntTy.bits]; omega)
  rw [this]; congr 1; omega

theorem sub_i32_small (c : Nat) (h0 : 0 < c) (h : c ≤ 2147483647) : Rs.sub .i32 ((c : Nat) : Int) 1 = .ok (((c - 1 : Nat)) : Int) := by
  have := Rs.sub_ok .i32 ((c : Nat) : Int) 1 (by
    rw [Rs.inRange_iff]; simp [IntTy.minVal, IntTy.maxVal, IntTy.signed, IntTy.bits]; omega)
  rw [this]; congr 1; omega

theorem cntStep_inv {M : List ((Tr.JEntry × Bytes) × Int)} {m : List ((Nat × Nat × Bytes) × Nat)} {b : Nat}
    (h : MapInv M m b) (x : JE × Bytes) :
    cntStep (ofItem x) M = Rs.mapInsert keyCmp M (ofItem x) (((Fn.countGet (Fn.ident x) m).getD 0 + 1 : Nat) : Int) := by
  unfold cntStep
  rw [mapInv_get h x]
  cases Fn.countGet (Fn.ident x) m with
  | none => rfl
  | some c => simp only [Option.map_some, Option.getD_some]; congr 1

theorem cnt_fold : ∀ (items : List (JE × Bytes)) (M : List ((Tr.JEntry × Bytes) × Int)) (m : List ((Nat × Nat × Bytes) × Nat))
    (b : Nat), MapInv M m b →
    MapInv ((items.map ofItem).foldl (fun s x => cntStep x s) M) (items.foldl (fun m x => Fn.countAdd (Fn.ident x) m) m)
      (b + items.length)
  | [], M, m, b, h => by simpa using h
  | x :: xs, M, m, b, h => by
    simp only [List.map_cons, List.foldl_cons, List.length_cons, cntStep_inv h x]
    have := cnt_fold xs _ _ _ (mapInv_add h x)
    have e : b + 1 + xs.length = b + (xs.length + 1) := by omega
    rw [e] at this
    exact this

/-- the state of the counting loop after `i` elements: some model count list with counts at most `i` -/
def CntQ (i : Nat) (M : List ((Tr.JEntry × Bytes) × Int)) : Prop := ∃ m, MapInv M m i

theorem cnt_hbody (N : Nat) (hN : N < 2147483647)
    (body : (Tr.JEntry × Bytes) → List ((Tr.JEntry × Bytes) × Int) → Ctl Bytes (Step (List ((Tr.JEntry × Bytes) × Int))))
    (hstep : ∀ (x : JE × Bytes) M m b, MapInv M m b → b < 2147483647 → body (ofItem x) M = .val (.next (cntStep (ofItem x) M))) :
    ∀ i (x : JE × Bytes) s, CntQ i s → i < N →
      body (ofItem x) s = .val (.next (cntStep (ofItem x) s)) ∧ CntQ (i + 1) (cntStep (ofItem x) s) := by
  intro i x M ⟨m, hm⟩ hi
  refine ⟨hstep x M m i hm (by omega), Fn.countAdd (Fn.ident x) m, ?_⟩
  rw [cntStep_inv hm x]
  exact mapInv_add hm x

/-- the effect of one element of the first operand on `(item_map, builder)`; `keep = true`: intersection,
`keep = false`: except -/
def isStep (keep : Bool) (x : Tr.JEntry × Bytes) (st : List ((Tr.JEntry × Bytes) × Int) × Tr.ArrayBuilder) :
    List ((Tr.JEntry × Bytes) × Int) × Tr.ArrayBuilder :=
  match Rs.mapGet keyCmp st.1 x with
  | some cnt =>
    if cnt > 0 then (Rs.mapInsert keyCmp st.1 x (cnt - 1), if keep then pushArr x st.2 else st.2)
    else (st.1, if keep then st.2 else pushArr x st.2)
  | none => (st.1, if keep then st.2 else pushArr x st.2)

/-- the state of the second loop: the map still mirrors some model count list with `i32` counts -/
def IsQ (_ : Nat) (st : List ((Tr.JEntry × Bytes) × Int) × Tr.ArrayBuilder) : Prop := ∃ m, MapInv st.1 m 1073741824

theorem isStep_inv (keep : Bool) {M : List ((Tr.JEntry × Bytes) × Int)} {m : List ((Nat × Nat × Bytes) × Nat)}
    (h : MapInv M m 1073741824) (x : JE × Bytes) (b : Tr.ArrayBuilder) :
    ∃ m', MapInv (isStep keep (ofItem x) (M, b)).1 m' 1073741824 := by
  unfold isStep
  simp only [mapInv_get h x]
  cases hc : Fn.countGet (Fn.ident x) m with
  | none => exact ⟨m, h⟩
  | some c =>
    simp only [Option.map_some]
    by_cases h0 : ((c : Nat) : Int) > 0
    · simp only [h0, if_true]
      have e : ((c : Nat) : Int) - 1 = ((c - 1 : Nat) : Int) := by omega
      rw [e]
      exact ⟨_, mapInv_dec h x c hc⟩
    · simp only [h0, if_false]
      exact ⟨m, h⟩

theorem is_hbody (keep : Bool) (N : Nat)
    (body : (Tr.JEntry × Bytes) → List ((Tr.JEntry × Bytes) × Int) × Tr.ArrayBuilder →
      Ctl Bytes (Step (List ((Tr.JEntry × Bytes) × Int) × Tr.ArrayBuilder)))
    (hstep : ∀ (x : JE × Bytes) M b m, MapInv M m 1073741824 → body (ofItem x) (M, b) = .val (.next (isStep keep (ofItem x) (M, b)))) :
    ∀ i (x : JE × Bytes) s, IsQ i s → i < N →
      body (ofItem x) s = .val (.next (isStep keep (ofItem x) s)) ∧ IsQ (i + 1) (isStep keep (ofItem x) s) := by
  intro i x ⟨M, b⟩ ⟨m, hm⟩ _
  exact ⟨hstep x M b m hm, isStep_inv keep hm x b⟩

theorem isStep_eval (keep : Bool) {M : List ((Tr.JEntry × Bytes) × Int)} {m : List ((Nat × Nat × Bytes) × Nat)}
    (h : MapInv M m 1073741824) (x : JE × Bytes) (b : Tr.ArrayBuilder) :
    isStep keep (ofItem x) (M, b) =
      match Fn.countGet (Fn.ident x) m with
      | some c =>
        if c > 0 then (Rs.mapInsert keyCmp M (ofItem x) ((c - 1 : Nat) : Int), if keep then pushArr (ofItem x) b else b)
        else (M, if keep then b else pushArr (ofItem x) b)
      | none => (M, if keep then b else pushArr (ofItem x) b) := by
  unfold isStep
  simp only [mapInv_get h x]
  cases hc : Fn.countGet (Fn.ident x) m with
  | none => rfl
  | some c =>
    simp only [Option.map_some]
    by_cases h0 : c > 0
    · have h0' : ((c : Nat) : Int) > 0 := by omega
      have e : ((c : Nat) : Int) - 1 = ((c - 1 : Nat) : Int) := by omega
      simp only [h0, h0', if_true, e]
    · have h0' : ¬ ((c : Nat) : Int) > 0 := by omega
      simp only [h0, h0', if_false]

theorem is_fold (keep : Bool) : ∀ (items : List (JE × Bytes)) (M : List ((Tr.JEntry × Bytes) × Int))
    (m : List ((Nat × Nat × Bytes) × Nat)) (acc : List BEntry), MapInv M m 1073741824 →
    ∃ M', (items.map ofItem).foldl (fun s x => isStep keep x s) (M, ⟨ofBEs acc⟩) =
      (M', ⟨ofBEs (acc ++ (Fn.interLoop keep items m).map Fn.rawOf)⟩)
  | [], M, m, acc, _ => ⟨M, by simp [Fn.interLoop]⟩
  | x :: xs, M, m, acc, h => by
    have hpush : pushArr (ofItem x) ⟨ofBEs acc⟩ = ⟨ofBEs (acc ++ [Fn.rawOf x])⟩ := by
      simp only [pushArr, ofBEs_append, ofBEs, ofBE_rawOf]
    have happ : ∀ l : List BEntry, acc ++ [Fn.rawOf x] ++ l = acc ++ Fn.rawOf x :: l := by intro l; simp
    simp only [List.map_cons, List.foldl_cons]
    rw [isStep_eval keep h x]
    simp only [Fn.interLoop]
    cases hc : Fn.countGet (Fn.ident x) m with
    | none =>
      simp only []
      cases keep
      · simp only [Bool.false_eq_true, if_false, hpush, List.map_cons]
        obtain ⟨M', hM'⟩ := is_fold false xs M m (acc ++ [Fn.rawOf x]) h
        exact ⟨M', by rw [hM', happ]⟩
      · simp only [if_true]
        exact is_fold true xs M m acc h
    | some c =>
      simp only []
      by_cases h0 : c > 0
      · simp only [h0, if_true]
        have hd := mapInv_dec h x c hc
        cases keep
        · simp only [Bool.false_eq_true, if_false]
          exact is_fold false xs _ _ acc hd
        · simp only [if_true, hpush, List.map_cons]
          obtain ⟨M', hM'⟩ := is_fold true xs _ _ (acc ++ [Fn.rawOf x]) hd
          exact ⟨M', by rw [hM', happ]⟩
      · simp only [h0, if_false]
        cases keep
        · simp only [Bool.false_eq_true, if_false, hpush, List.map_cons]
          obtain ⟨M', hM'⟩ := is_fold false xs M m (acc ++ [Fn.rawOf x]) h
          exact ⟨M', by rw [hM', happ]⟩
        · simp only [if_true]
          exact is_fold true xs M m acc h

/-- `interLoop` keeps a sub-list -/
theorem interLoop_bounds (keep : Bool) : ∀ (items : List (JE × Bytes)) (m : List ((Nat × Nat × Bytes) × Nat)),
    (Fn.interLoop keep items m).length ≤ items.length ∧ sumLen (Fn.interLoop keep items m) ≤ sumLen items ∧
      ∀ x ∈ Fn.interLoop keep items m, x ∈ items
  | [], m => by simp [Fn.interLoop]
  | x :: xs, m => by
    have keepIt : ∀ m', (x :: Fn.interLoop keep xs m').length ≤ (x :: xs).length ∧
        sumLen (x :: Fn.interLoop keep xs m') ≤ sumLen (x :: xs) ∧ ∀ y ∈ x :: Fn.interLoop keep xs m', y ∈ x :: xs := by
      intro m'
      obtain ⟨h1, h2, h3⟩ := interLoop_bounds keep xs m'
      simp only [List.length_cons, sumLen, List.mem_cons]
      refine ⟨by omega, by omega, ?_⟩
      rintro y (e | e)
      · exact Or.inl e
      · exact Or.inr (h3 y e)
    have dropIt : ∀ m', (Fn.interLoop keep xs m').length ≤ (x :: xs).length ∧
        sumLen (Fn.interLoop keep xs m') ≤ sumLen (x :: xs) ∧ ∀ y ∈ Fn.interLoop keep xs m', y ∈ x :: xs := by
      intro m'
      obtain ⟨h1, h2, h3⟩ := interLoop_bounds keep xs m'
      simp only [List.length_cons, sumLen, List.mem_cons]
      exact ⟨by omega, by omega, fun y e => Or.inr (h3 y e)⟩
    simp only [Fn.interLoop]
    cases Fn.countGet (Fn.ident x) m with
    | none => cases keep <;> simp only [Bool.false_eq_true, if_false, if_true] <;> first | exact keepIt _ | exact dropIt _
    | some c =>
      simp only []
      by_cases h0 : c > 0
      · simp only [h0, if_true]
        cases keep <;> simp only [Bool.false_eq_true, if_false, if_true] <;> first | exact keepIt _ | exact dropIt _
      · simp only [h0, if_false]
        cases keep <;> simp only [Bool.false_eq_true, if_false, if_true] <;> first | exact keepIt _ | exact dropIt _

theorem mapContains_inv {M : List ((Tr.JEntry × Bytes) × Int)} {m : List ((Nat × Nat × Bytes) × Nat)} {b : Nat}
    (h : MapInv M m b) (x : JE × Bytes) :
    Rs.mapContains keyCmp M (ofItem x) = (Fn.countGet (Fn.ident x) m).isSome := by
  unfold Rs.mapContains
  rw [mapInv_get h x]
  cases Fn.countGet (Fn.ident x) m <;> rfl

/-! ## the loop bodies -/

theorem array_intersection_jsonb_loop1_step (x : JE × Bytes) (M : List ((Tr.JEntry × Bytes) × Int)) (m : List ((Nat × Nat × Bytes) × Nat))
    (b : Nat) (h : MapInv M m b) (hb : b < 2147483647) :
    Tr.array_intersection_jsonb.loop1 (ofItem x) M =
      (Ctl.val (.next (cntStep (ofItem x) M)) : Ctl Bytes (Step (List ((Tr.JEntry × Bytes) × Int)))) := by
  obtain ⟨je, d⟩ := x
  unfold Tr.array_intersection_jsonb.loop1 cntStep
  simp only [ofItem]
  have hg := mapInv_get h (je, d)
  simp only [ofItem] at hg
  simp only [hg]
  cases hc : Fn.countGet (Fn.ident (je, d)) m with
  | none => simp only [Option.map_none, Ctl.pure_eq', Ctl.val_bind', Rs.loopStep_val']
  | some c =>
    have hcb := h.2.2 _ _ hc
    simp only [Option.map_some, add_i32_small c (by omega), add_i32_small' c (by omega), Ctl.ofRes_ok', Ctl.val_bind', Ctl.pure_eq',
      Rs.loopStep_val']
    rfl

theorem array_intersection_jsonb_loop2_step (x : JE × Bytes) (M : List ((Tr.JEntry × Bytes) × Int)) (b : Tr.ArrayBuilder)
    (m : List ((Nat × Nat × Bytes) × Nat)) (h : MapInv M m 1073741824) :
    Tr.array_intersection_jsonb.loop2 (ofItem x) (M, b) =
      (Ctl.val (.next (isStep true (ofItem x) (M, b))) : Ctl Bytes (Step (List ((Tr.JEntry × Bytes) × Int) × Tr.ArrayBuilder))) := by
  obtain ⟨je, d⟩ := x
  rw [isStep_eval true h (je, d) b]
  unfold Tr.array_intersection_jsonb.loop2
  simp only [ofItem]
  have hg := mapInv_get h (je, d)
  simp only [ofItem] at hg
  simp only [hg]
  cases hc : Fn.countGet (Fn.ident (je, d)) m with
  | none => simp only [Option.map_none, Ctl.pure_eq', Ctl.val_bind', Rs.loopStep_val', Bool.false_eq_true, if_false, if_true]
  | some c =>
    have hcb := h.2.2 _ _ hc
    simp only [Option.map_some]
    by_cases h0 : c > 0
    · have h0' : (((c : Nat) : Int) > 0) = True := eq_true (by omega)
      simp only [h0, h0', decide_true, if_true, sub_i32_small c h0 (by omega), Ctl.ofRes_ok', Ctl.val_bind', array_push_raw_any,
        Ctl.pure_eq', Rs.loopStep_val', pushArr]
    · have h0' : (((c : Nat) : Int) > 0) = False := eq_false (by omega)
      simp only [h0, h0', decide_false, Bool.false_eq_true, if_false, Ctl.pure_eq', Ctl.val_bind', Rs.loopStep_val', if_true]

theorem array_except_jsonb_loop1_step (x : JE × Bytes) (M : List ((Tr.JEntry × Bytes) × Int)) (m : List ((Nat × Nat × Bytes) × Nat))
    (b : Nat) (h : MapInv M m b) (hb : b < 2147483647) :
    Tr.array_except_jsonb.loop1 (ofItem x) M =
      (Ctl.val (.next (cntStep (ofItem x) M)) : Ctl Bytes (Step (List ((Tr.JEntry × Bytes) × Int)))) := by
  obtain ⟨je, d⟩ := x
  unfold Tr.array_except_jsonb.loop1 cntStep
  simp only [ofItem]
  have hg := mapInv_get h (je, d)
  simp only [ofItem] at hg
  simp only [hg]
  cases hc : Fn.countGet (Fn.ident (je, d)) m with
  | none => simp only [Option.map_none, Ctl.pure_eq', Ctl.val_bind', Rs.loopStep_val']
  | some c =>
    have hcb := h.2.2 _ _ hc
    simp only [Option.map_some, add_i32_small c (by omega), add_i32_small' c (by omega), Ctl.ofRes_ok', Ctl.val_bind', Ctl.pure_eq',
      Rs.loopStep_val']
    rfl

theorem array_except_jsonb_loop2_step (x : JE × Bytes) (M : List ((Tr.JEntry × Bytes) × Int)) (b : Tr.ArrayBuilder)
    (m : List ((Nat × Nat × Bytes) × Nat)) (h : MapInv M m 1073741824) :
    Tr.array_except_jsonb.loop2 (ofItem x) (M, b) =
      (Ctl.val (.next (isStep false (ofItem x) (M, b))) : Ctl Bytes (Step (List ((Tr.JEntry × Bytes) × Int) × Tr.ArrayBuilder))) := by
  obtain ⟨je, d⟩ := x
  rw [isStep_eval false h (je, d) b]
  unfold Tr.array_except_jsonb.loop2
  simp only [ofItem]
  have hg := mapInv_get h (je, d)
  simp only [ofItem] at hg
  simp only [hg]
  cases hc : Fn.countGet (Fn.ident (je, d)) m with
  | none =>
    simp only [Option.map_none, Ctl.pure_eq', Ctl.val_bind', array_push_raw_any, Ctl.ofRes_ok', Rs.loopStep_val',
      Bool.false_eq_true, if_false, pushArr]
  | some c =>
    have hcb := h.2.2 _ _ hc
    simp only [Option.map_some]
    by_cases h0 : c > 0
    · have h0' : (((c : Nat) : Int) > 0) = True := eq_true (by omega)
      simp only [h0, h0', decide_true, if_true, sub_i32_small c h0 (by omega), Ctl.ofRes_ok', Ctl.val_bind', Ctl.ret_bind',
        Rs.loopStep_cont', Bool.false_eq_true, if_false]
    · have h0' : (((c : Nat) : Int) > 0) = False := eq_false (by omega)
      simp only [h0, h0', decide_false, Bool.false_eq_true, if_false, Ctl.pure_eq', Ctl.val_bind', array_push_raw_any,
        Ctl.ofRes_ok', Rs.loopStep_val', pushArr]

/-! ## the functions -/

/-- **`array_intersection_jsonb`, translated from source, is the model's `Fn.arraySetOp true`** -/
theorem array_intersection_jsonb_agrees (v1 v2 buf : Bytes) (fuel : Nat) (hfuel : 536870913 < fuel)
    (hv1 : v1.length < 1152921504606846976) (hv2 : v2.length < 1152921504606846976)
    (hb : buf.length < 1152921504606846976) :
    Tr.array_intersection_jsonb fuel v1 v2 buf = Fn.arraySetOp true v1 v2 buf := by
  unfold Tr.array_intersection_jsonb Fn.arraySetOp
  simp only [read_u32_zero]
  cases hr1 : readU32At v1 0 with
  | none => simp only [Ctl.ofRes_err', Ctl.ret_bind', Ctl.run_ret']
  | some h1 =>
    cases hr2 : readU32At v2 0 with
    | none => simp only [Ctl.ofRes_ok', Ctl.val_bind', Ctl.ofRes_err', Ctl.ret_bind', Ctl.run_ret']
    | some h2 =>
      have hL1 := hdrLen_lt h1
      have hL2 := hdrLen_lt h2
      have h0 : ((0 : Nat) : Int) = 0 := rfl
      have h1' : ((1 : Nat) : Int) = 1 := rfl
      simp only [Ctl.ofRes_ok', Ctl.val_bind', hdrType_eq, ← h0, array_builder_new_agrees 0 (by omega), iterate_array_agrees,
        read_u32_four, make_container_jentry_agrees, Rs.len, array_push_raw_any, ofBEs, List.nil_append, Rs.mapNew,
        Fn.setOperand, hr1, hr2]
      simp only [decide_eq_true_eq]
      -- the count map of the second operand
      by_cases hA2 : hdrType h2 = C.ARRAY_CONTAINER_TAG
      case' pos =>
        simp only [eq_true hA2, if_true]
        rw [forIter_array_inv v2 h2 fuel (by omega) cntStep _ CntQ
          (cnt_hbody (hdrLen h2) (by omega) _ array_intersection_jsonb_loop1_step) [] ⟨[], mapInv_empty⟩]
        cases hit2 : iterArray v2 h2
        case' err e => exact absurd hit2 (iterArray_ne_err _ _ _)
        case' panic p => simp only [Ctl.ret_bind', Ctl.run_ret']
        case' fuel => exact absurd hit2 (iterArray_ne_fuel _ _)
        case' ok items2 =>
          obtain ⟨hc1, _, _⟩ := iterArray_bounds v2 h2 items2 hit2
          have hinv := cnt_fold items2 [] [] 0 mapInv_empty
          simp only [Nat.zero_add] at hinv
          have hinv' : MapInv ((items2.map ofItem).foldl (fun s x => cntStep x s) [])
              (items2.foldl (fun m x => Fn.countAdd (Fn.ident x) m) []) 1073741824 :=
            ⟨hinv.1, hinv.2.1, fun t c hc => by have := hinv.2.2 t c hc; omega⟩
          simp only [Ctl.val_bind', Ctl.pure_eq']
          generalize (items2.map ofItem).foldl (fun s x => cntStep x s) [] = M at hinv' ⊢
          generalize items2.foldl (fun m x => Fn.countAdd (Fn.ident x) m) [] = m at hinv' ⊢
          clear hinv hit2 hc1
          revert M m
      case' neg =>
        simp only [eq_false hA2, if_false]
        by_cases hO2 : hdrType h2 = C.OBJECT_CONTAINER_TAG
        case' pos =>
          have hinv := mapInv_add mapInv_empty
            ((⟨C.CONTAINER_TAG, v2.length % 4294967296, C.CONTAINER_TAG ||| (v2.length % 4294967296)⟩ : JE), v2)
          have hinv' : MapInv (Rs.mapInsert keyCmp [] ((⟨((C.CONTAINER_TAG : Nat) : Int), ((v2.length % 4294967296 : Nat) : Int)⟩ : Tr.JEntry), v2) (1 : Int))
              (([((⟨C.CONTAINER_TAG, v2.length % 4294967296, C.CONTAINER_TAG ||| (v2.length % 4294967296)⟩ : JE), v2)] :
                List (JE × Bytes)).foldl (fun m x => Fn.countAdd (Fn.ident x) m) []) 1073741824 :=
            ⟨hinv.1, hinv.2.1, fun t c hc => by have := hinv.2.2 t c hc; omega⟩
          simp only [eq_true hO2, if_true, Ctl.pure_eq', Ctl.val_bind']
          generalize Rs.mapInsert keyCmp [] ((⟨((C.CONTAINER_TAG : Nat) : Int), ((v2.length % 4294967296 : Nat) : Int)⟩ : Tr.JEntry), v2) (1 : Int) = M at hinv' ⊢
          generalize ([((⟨C.CONTAINER_TAG, v2.length % 4294967296, C.CONTAINER_TAG ||| (v2.length % 4294967296)⟩ : JE), v2)] :
            List (JE × Bytes)).foldl (fun m x => Fn.countAdd (Fn.ident x) m) [] = m at hinv' ⊢
          clear hinv
          revert M m
        case' neg =>
          simp only [eq_false hO2, if_false]
          cases hr42 : readU32At v2 4
          case' none => simp only [Ctl.ofRes_err', Ctl.ret_bind', Ctl.run_ret']
          case' some w2 =>
            have h82 := readU32At_some_len v2 4 w2 hr42
            have hinv := mapInv_add mapInv_empty (JE.ofWord w2, v2.drop 8)
            have hinv' : MapInv (Rs.mapInsert keyCmp [] ((⟨((jeType w2 : Nat) : Int), ((jeLen w2 : Nat) : Int)⟩ : Tr.JEntry), v2.drop 8) (1 : Int))
                (([(JE.ofWord w2, v2.drop 8)] : List (JE × Bytes)).foldl (fun m x => Fn.countAdd (Fn.ident x) m) []) 1073741824 :=
              ⟨hinv.1, hinv.2.1, fun t c hc => by have := hinv.2.2 t c hc; omega⟩
            simp only [Ctl.ofRes_ok', Ctl.val_bind', decode_jentry_agrees, (sliceFrom_eight v2 (by omega)).1,
              (sliceFrom_eight v2 (by omega)).2, Ctl.pure_eq']
            generalize Rs.mapInsert keyCmp [] ((⟨((jeType w2 : Nat) : Int), ((jeLen w2 : Nat) : Int)⟩ : Tr.JEntry), v2.drop 8) (1 : Int) = M at hinv' ⊢
            generalize ([(JE.ofWord w2, v2.drop 8)] : List (JE × Bytes)).foldl (fun m x => Fn.countAdd (Fn.ident x) m) [] = m at hinv' ⊢
            clear hinv hr42
            revert M m
      all_goals
        intro M m hinv
        -- the first operand
        by_cases hA1 : hdrType h1 = C.ARRAY_CONTAINER_TAG
        · simp only [eq_true hA1, if_true]
          rw [forIter_array_inv v1 h1 fuel (by omega) (isStep true) _ IsQ
            (is_hbody true (hdrLen h1) _ array_intersection_jsonb_loop2_step) (M, ⟨[]⟩) ⟨m, hinv⟩]
          cases hit1 : iterArray v1 h1 with
          | ok items1 =>
            obtain ⟨hb1, hb2, hb3⟩ := iterArray_bounds v1 h1 items1 hit1
            obtain ⟨M', hfold⟩ := is_fold true items1 M m [] hinv
            have hbe : ([] : List Tr.Entry) = ofBEs [] := rfl
            simp only [Ctl.val_bind', Ctl.pure_eq']
            rw [hbe, hfold]
            simp only [List.nil_append]
            obtain ⟨d1, d2, d3⟩ := interLoop_bounds true items1 m
            have hraw : RawFits ((Fn.interLoop true items1 m).map Fn.rawOf) :=
              rawFits_map_rawOf _ (fun x hx => hb2 x (d3 x hx))
            obtain ⟨n, hT, hM⟩ := array_build_raw _ hraw buf fuel (by omega) (by simp only [List.length_map]; omega)
              (by rw [bpaysL_map_rawOf]; simp only [List.length_map]; omega)
            rw [hT, hM]
            simp only [Ctl.ofRes_ok', Ctl.val_bind', Ctl.run_ret']
          | err e => exact absurd hit1 (iterArray_ne_err _ _ _)
          | panic p => simp only [Ctl.ret_bind', Ctl.run_ret']
          | fuel => exact absurd hit1 (iterArray_ne_fuel _ _)
        · simp only [eq_false hA1, if_false]
          by_cases hO1 : hdrType h1 = C.OBJECT_CONTAINER_TAG
          case' pos =>
            have hx : (((⟨((C.CONTAINER_TAG : Nat) : Int), ((v1.length % 4294967296 : Nat) : Int)⟩ : Tr.JEntry), v1) : Tr.JEntry × Bytes) =
                ofItem ((⟨C.CONTAINER_TAG, v1.length % 4294967296, C.CONTAINER_TAG ||| (v1.length % 4294967296)⟩ : JE), v1) := rfl
            have hf : RawFits [Fn.rawOf ((⟨C.CONTAINER_TAG, v1.length % 4294967296, C.CONTAINER_TAG ||| (v1.length % 4294967296)⟩ : JE), v1)] ∧
                (bpaysL [Fn.rawOf ((⟨C.CONTAINER_TAG, v1.length % 4294967296, C.CONTAINER_TAG ||| (v1.length % 4294967296)⟩ : JE), v1)]).length ≤ v1.length :=
              containerEntry_fits v1
            have hentry : ([Tr.Entry.Raw ⟨((C.CONTAINER_TAG : Nat) : Int), ((v1.length % 4294967296 : Nat) : Int)⟩ v1] : List Tr.Entry) =
                ofBEs [Fn.rawOf ((⟨C.CONTAINER_TAG, v1.length % 4294967296, C.CONTAINER_TAG ||| (v1.length % 4294967296)⟩ : JE), v1)] := rfl
            simp only [eq_true hO1, if_true, Ctl.pure_eq', Ctl.val_bind', hx, mapContains_inv hinv, hentry]
            generalize ((⟨C.CONTAINER_TAG, v1.length % 4294967296, C.CONTAINER_TAG ||| (v1.length % 4294967296)⟩ : JE), v1) = x1 at hf ⊢
            clear hx hentry
            revert x1
          case' neg =>
            simp only [eq_false hO1, if_false]
            cases hr41 : readU32At v1 4
            case' none => simp only [Ctl.ofRes_err', Ctl.ret_bind', Ctl.run_ret']
            case' some w1 =>
              have h81 := readU32At_some_len v1 4 w1 hr41
              have hw1 := readU32At_lt v1 4 w1 hr41
              have hx : (((⟨((jeType w1 : Nat) : Int), ((jeLen w1 : Nat) : Int)⟩ : Tr.JEntry), v1.drop 8) : Tr.JEntry × Bytes) =
                  ofItem (JE.ofWord w1, v1.drop 8) := rfl
              have hf : RawFits [Fn.rawOf (JE.ofWord w1, v1.drop 8)] ∧ (bpaysL [Fn.rawOf (JE.ofWord w1, v1.drop 8)]).length ≤ v1.length :=
                scalarRaw_fits v1 w1 hw1
              have hentry : ([Tr.Entry.Raw ⟨((jeType w1 : Nat) : Int), ((jeLen w1 : Nat) : Int)⟩ (v1.drop 8)] : List Tr.Entry) =
                  ofBEs [Fn.rawOf (JE.ofWord w1, v1.drop 8)] := rfl
              simp only [Ctl.ofRes_ok', Ctl.val_bind', decode_jentry_agrees, (sliceFrom_eight v1 (by omega)).1,
                (sliceFrom_eight v1 (by omega)).2, Ctl.pure_eq', hx, mapContains_inv hinv, hentry]
              generalize (JE.ofWord w1, v1.drop 8) = x1 at hf ⊢
              clear hx hentry hr41
              revert x1
          all_goals
            intro x1 hf
            have hempty : ([] : List Tr.Entry) = ofBEs [] := rfl
            cases hs : (Fn.countGet (Fn.ident x1) m).isSome
            all_goals
              simp only [hs, Bool.false_eq_true, if_false, if_true, Ctl.val_bind', List.filter_cons, List.filter_nil,
                List.map_cons, List.map_nil, hempty, beq_true, beq_false, Bool.not_true, Bool.not_false, BEq.rfl]
              first
              | (obtain ⟨n, hT, hM⟩ := array_build_raw [Fn.rawOf x1] hf.1 buf fuel (by omega) (by simp)
                  (by simp only [List.length_cons, List.length_nil]; omega)
                 rw [hT, hM]
                 simp only [Ctl.ofRes_ok', Ctl.val_bind', Ctl.run_ret'])
              | (obtain ⟨n, hT, hM⟩ := array_build_raw [] trivial buf fuel (by omega) (by simp)
                  (by simp [bpaysL]; omega)
                 rw [hT, hM]
                 simp only [Ctl.ofRes_ok', Ctl.val_bind', Ctl.run_ret'])

/-- **`array_except_jsonb`, translated from source, is the model's `Fn.arraySetOp false`** -/
theorem array_except_jsonb_agrees (v1 v2 buf : Bytes) (fuel : Nat) (hfuel : 536870913 < fuel)
    (hv1 : v1.length < 1152921504606846976) (hv2 : v2.length < 1152921504606846976)
    (hb : buf.length < 1152921504606846976) :
    Tr.array_except_jsonb fuel v1 v2 buf = Fn.arraySetOp false v1 v2 buf := by
  unfold Tr.array_except_jsonb Fn.arraySetOp
  simp only [read_u32_zero]
  cases hr1 : readU32At v1 0 with
  | none => simp only [Ctl.ofRes_err', Ctl.ret_bind', Ctl.run_ret']
  | some h1 =>
    cases hr2 : readU32At v2 0 with
    | none => simp only [Ctl.ofRes_ok', Ctl.val_bind', Ctl.ofRes_err', Ctl.ret_bind', Ctl.run_ret']
    | some h2 =>
      have hL1 := hdrLen_lt h1
      have hL2 := hdrLen_lt h2
      have h0 : ((0 : Nat) : Int) = 0 := rfl
      have h1' : ((1 : Nat) : Int) = 1 := rfl
      simp only [Ctl.ofRes_ok', Ctl.val_bind', hdrType_eq, ← h0, array_builder_new_agrees 0 (by omega), iterate_array_agrees,
        read_u32_four, make_container_jentry_agrees, Rs.len, array_push_raw_any, ofBEs, List.nil_append, Rs.mapNew,
        Fn.setOperand, hr1, hr2]
      simp only [decide_eq_true_eq]
      -- the count map of the second operand
      by_cases hA2 : hdrType h2 = C.ARRAY_CONTAINER_TAG
      case' pos =>
        simp only [eq_true hA2, if_true]
        rw [forIter_array_inv v2 h2 fuel (by omega) cntStep _ CntQ
          (cnt_hbody (hdrLen h2) (by omega) _ array_except_jsonb_loop1_step) [] ⟨[], mapInv_empty⟩]
        cases hit2 : iterArray v2 h2
        case' err e => exact absurd hit2 (iterArray_ne_err _ _ _)
        case' panic p => simp only [Ctl.ret_bind', Ctl.run_ret']
        case' fuel => exact absurd hit2 (iterArray_ne_fuel _ _)
        case' ok items2 =>
          obtain ⟨hc1, _, _⟩ := iterArray_bounds v2 h2 items2 hit2
          have hinv := cnt_fold items2 [] [] 0 mapInv_empty
          simp only [Nat.zero_add] at hinv
          have hinv' : MapInv ((items2.map ofItem).foldl (fun s x => cntStep x s) [])
              (items2.foldl (fun m x => Fn.countAdd (Fn.ident x) m) []) 1073741824 :=
            ⟨hinv.1, hinv.2.1, fun t c hc => by have := hinv.2.2 t c hc; omega⟩
          simp only [Ctl.val_bind', Ctl.pure_eq']
          generalize (items2.map ofItem).foldl (fun s x => cntStep x s) [] = M at hinv' ⊢
          generalize items2.foldl (fun m x => Fn.countAdd (Fn.ident x) m) [] = m at hinv' ⊢
          clear hinv hit2 hc1
          revert M m
      case' neg =>
        simp only [eq_false hA2, if_false]
        by_cases hO2 : hdrType h2 = C.OBJECT_CONTAINER_TAG
        case' pos =>
          have hinv := mapInv_add mapInv_empty
            ((⟨C.CONTAINER_TAG, v2.length % 4294967296, C.CONTAINER_TAG ||| (v2.length % 4294967296)⟩ : JE), v2)
          have hinv' : MapInv (Rs.mapInsert keyCmp [] ((⟨((C.CONTAINER_TAG : Nat) : Int), ((v2.length % 4294967296 : Nat) : Int)⟩ : Tr.JEntry), v2) (1 : Int))
              (([((⟨C.CONTAINER_TAG, v2.length % 4294967296, C.CONTAINER_TAG ||| (v2.length % 4294967296)⟩ : JE), v2)] :
                List (JE × Bytes)).foldl (fun m x => Fn.countAdd (Fn.ident x) m) []) 1073741824 :=
            ⟨hinv.1, hinv.2.1, fun t c hc => by have := hinv.2.2 t c hc; omega⟩
          simp only [eq_true hO2, if_true, Ctl.pure_eq', Ctl.val_bind']
          generalize Rs.mapInsert keyCmp [] ((⟨((C.CONTAINER_TAG : Nat) : Int), ((v2.length % 4294967296 : Nat) : Int)⟩ : Tr.JEntry), v2) (1 : Int) = M at hinv' ⊢
          generalize ([((⟨C.CONTAINER_TAG, v2.length % 4294967296, C.CONTAINER_TAG ||| (v2.length % 4294967296)⟩ : JE), v2)] :
            List (JE × Bytes)).foldl (fun m x => Fn.countAdd (Fn.ident x) m) [] = m at hinv' ⊢
          clear hinv
          revert M m
        case' neg =>
          simp only [eq_false hO2, if_false]
          cases hr42 : readU32At v2 4
          case' none => simp only [Ctl.ofRes_err', Ctl.ret_bind', Ctl.run_ret']
          case' some w2 =>
            have h82 := readU32At_some_len v2 4 w2 hr42
            have hinv := mapInv_add mapInv_empty (JE.ofWord w2, v2.drop 8)
            have hinv' : MapInv (Rs.mapInsert keyCmp [] ((⟨((jeType w2 : Nat) : Int), ((jeLen w2 : Nat) : Int)⟩ : Tr.JEntry), v2.drop 8) (1 : Int))
                (([(JE.ofWord w2, v2.drop 8)] : List (JE × Bytes)).foldl (fun m x => Fn.countAdd (Fn.ident x) m) []) 1073741824 :=
              ⟨hinv.1, hinv.2.1, fun t c hc => by have := hinv.2.2 t c hc; omega⟩
            simp only [Ctl.ofRes_ok', Ctl.val_bind', decode_jentry_agrees, (sliceFrom_eight v2 (by omega)).1,
              (sliceFrom_eight v2 (by omega)).2, Ctl.pure_eq']
            generalize Rs.mapInsert keyCmp [] ((⟨((jeType w2 : Nat) : Int), ((jeLen w2 : Nat) : Int)⟩ : Tr.JEntry), v2.drop 8) (1 : Int) = M at hinv' ⊢
            generalize ([(JE.ofWord w2, v2.drop 8)] : List (JE × Bytes)).foldl (fun m x => Fn.countAdd (Fn.ident x) m) [] = m at hinv' ⊢
            clear hinv hr42
            revert M m
      all_goals
        intro M m hinv
        -- the first operand
        by_cases hA1 : hdrType h1 = C.ARRAY_CONTAINER_TAG
        · simp only [eq_true hA1, if_true]
          rw [forIter_array_inv v1 h1 fuel (by omega) (isStep false) _ IsQ
            (is_hbody false (hdrLen h1) _ array_except_jsonb_loop2_step) (M, ⟨[]⟩) ⟨m, hinv⟩]
          cases hit1 : iterArray v1 h1 with
          | ok items1 =>
            obtain ⟨hb1, hb2, hb3⟩ := iterArray_bounds v1 h1 items1 hit1
            obtain ⟨M', hfold⟩ := is_fold false items1 M m [] hinv
            have hbe : ([] : List Tr.Entry) = ofBEs [] := rfl
            simp only [Ctl.val_bind', Ctl.pure_eq']
            rw [hbe, hfold]
            simp only [List.nil_append]
            obtain ⟨d1, d2, d3⟩ := interLoop_bounds false items1 m
            have hraw : RawFits ((Fn.interLoop false items1 m).map Fn.rawOf) :=
              rawFits_map_rawOf _ (fun x hx => hb2 x (d3 x hx))
            obtain ⟨n, hT, hM⟩ := array_build_raw _ hraw buf fuel (by omega) (by simp only [List.length_map]; omega)
              (by rw [bpaysL_map_rawOf]; simp only [List.length_map]; omega)
            rw [hT, hM]
            simp only [Ctl.ofRes_ok', Ctl.val_bind', Ctl.run_ret']
          | err e => exact absurd hit1 (iterArray_ne_err _ _ _)
          | panic p => simp only [Ctl.ret_bind', Ctl.run_ret']
          | fuel => exact absurd hit1 (iterArray_ne_fuel _ _)
        · simp only [eq_false hA1, if_false]
          by_cases hO1 : hdrType h1 = C.OBJECT_CONTAINER_TAG
          case' pos =>
            have hx : (((⟨((C.CONTAINER_TAG : Nat) : Int), ((v1.length % 4294967296 : Nat) : Int)⟩ : Tr.JEntry), v1) : Tr.JEntry × Bytes) =
                ofItem ((⟨C.CONTAINER_TAG, v1.length % 4294967296, C.CONTAINER_TAG ||| (v1.length % 4294967296)⟩ : JE), v1) := rfl
            have hf : RawFits [Fn.rawOf ((⟨C.CONTAINER_TAG, v1.length % 4294967296, C.CONTAINER_TAG ||| (v1.length % 4294967296)⟩ : JE), v1)] ∧
                (bpaysL [Fn.rawOf ((⟨C.CONTAINER_TAG, v1.length % 4294967296, C.CONTAINER_TAG ||| (v1.length % 4294967296)⟩ : JE), v1)]).length ≤ v1.length :=
              containerEntry_fits v1
            have hentry : ([Tr.Entry.Raw ⟨((C.CONTAINER_TAG : Nat) : Int), ((v1.length % 4294967296 : Nat) : Int)⟩ v1] : List Tr.Entry) =
                ofBEs [Fn.rawOf ((⟨C.CONTAINER_TAG, v1.length % 4294967296, C.CONTAINER_TAG ||| (v1.length % 4294967296)⟩ : JE), v1)] := rfl
            simp only [eq_true hO1, if_true, Ctl.pure_eq', Ctl.val_bind', hx, mapContains_inv hinv, hentry]
            generalize ((⟨C.CONTAINER_TAG, v1.length % 4294967296, C.CONTAINER_TAG ||| (v1.length % 4294967296)⟩ : JE), v1) = x1 at hf ⊢
            clear hx hentry
            revert x1
          case' neg =>
            simp only [eq_false hO1, if_false]
            cases hr41 : readU32At v1 4
            case' none => simp only [Ctl.ofRes_err', Ctl.ret_bind', Ctl.run_ret']
            case' some w1 =>
              have h81 := readU32At_some_len v1 4 w1 hr41
              have hw1 := readU32At_lt v1 4 w1 hr41
              have hx : (((⟨((jeType w1 : Nat) : Int), ((jeLen w1 : Nat) : Int)⟩ : Tr.JEntry), v1.drop 8) : Tr.JEntry × Bytes) =
                  ofItem (JE.ofWord w1, v1.drop 8) := rfl
              have hf : RawFits [Fn.rawOf (JE.ofWord w1, v1.drop 8)] ∧ (bpaysL [Fn.rawOf (JE.ofWord w1, v1.drop 8)]).length ≤ v1.length :=
                scalarRaw_fits v1 w1 hw1
              have hentry : ([Tr.Entry.Raw ⟨((jeType w1 : Nat) : Int), ((jeLen w1 : Nat) : Int)⟩ (v1.drop 8)] : List Tr.Entry) =
                  ofBEs [Fn.rawOf (JE.ofWord w1, v1.drop 8)] := rfl
              simp only [Ctl.ofRes_ok', Ctl.val_bind', decode_jentry_agrees, (sliceFrom_eight v1 (by omega)).1,
                (sliceFrom_eight v1 (by omega)).2, Ctl.pure_eq', hx, mapContains_inv hinv, hentry]
              generalize (JE.ofWord w1, v1.drop 8) = x1 at hf ⊢
              clear hx hentry hr41
              revert x1
          all_goals
            intro x1 hf
            have hempty : ([] : List Tr.Entry) = ofBEs [] := rfl
            cases hs : (Fn.countGet (Fn.ident x1) m).isSome
            all_goals
              simp only [hs, Bool.false_eq_true, if_false, if_true, Ctl.val_bind', List.filter_cons, List.filter_nil,
                List.map_cons, List.map_nil, hempty, beq_true, beq_false, Bool.not_true, Bool.not_false, BEq.rfl]
              first
              | (obtain ⟨n, hT, hM⟩ := array_build_raw [Fn.rawOf x1] hf.1 buf fuel (by omega) (by simp)
                  (by simp only [List.length_cons, List.length_nil]; omega)
                 rw [hT, hM]
                 simp only [Ctl.ofRes_ok', Ctl.val_bind', Ctl.run_ret'])
              | (obtain ⟨n, hT, hM⟩ := array_build_raw [] trivial buf fuel (by omega) (by simp)
                  (by simp [bpaysL]; omega)
                 rw [hT, hM]
                 simp only [Ctl.ofRes_ok', Ctl.val_bind', Ctl.run_ret'])

end Jsonb.TrAgree
