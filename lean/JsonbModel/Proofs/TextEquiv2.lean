/-
C11 continued: the remaining tree-implemented text branches.
-/
import JsonbModel.Proofs.TextEquiv
import JsonbModel.Proofs.AccessDocs
import JsonbModel.Proofs.CmpRefine

namespace Jsonb
open JV

theorem enc_good (w : JV) (h : good w = true) : T.enc w = .ok (encodeSpec w) := by
  simp [T.enc, toVec_eq_encodeSpec w (good_goodTop w h)]

theorem treeGetByName_eq (v : JV) (name : Bytes) (ic : Bool) :
    T.treeGetByName v name ic = Spec.getByName v name ic := by
  cases v <;> simp only [T.treeGetByName, Spec.getByName]
  rename_i kvs
  cases Spec.lookup name kvs <;> rfl

theorem treeGetByKeypath_eq : ∀ (path : List KeyPath) (v : JV),
    T.treeGetByKeypath v path = Spec.getByKeypath v path
  | [], v => by simp [T.treeGetByKeypath, Spec.getByKeypath]
  | p :: ps, v => by
    cases v with
    | arr vs =>
      cases p with
      | index i =>
        simp only [T.treeGetByKeypath, Spec.getByKeypath]
        split
        · rfl
        · cases hh : vs[(if i ≥ 0 then i else (vs.length : Int) + i).toNat]? with
          | none => rfl
          | some w => simp only []; exact treeGetByKeypath_eq ps w
      | name nm => simp [T.treeGetByKeypath, Spec.getByKeypath]
      | quoted nm => simp [T.treeGetByKeypath, Spec.getByKeypath]
    | obj kvs =>
      cases p with
      | index i => simp [T.treeGetByKeypath, Spec.getByKeypath]
      | name nm =>
        simp only [T.treeGetByKeypath, Spec.getByKeypath]
        cases hh : Spec.lookup nm kvs with
        | none => rfl
        | some w => simp only []; exact treeGetByKeypath_eq ps w
      | quoted nm =>
        simp only [T.treeGetByKeypath, Spec.getByKeypath]
        cases hh : Spec.lookup nm kvs with
        | none => rfl
        | some w => simp only []; exact treeGetByKeypath_eq ps w
    | null => simp [T.treeGetByKeypath, Spec.getByKeypath]
    | bool b => simp [T.treeGetByKeypath, Spec.getByKeypath]
    | num n => simp [T.treeGetByKeypath, Spec.getByKeypath]
    | str s => simp [T.treeGetByKeypath, Spec.getByKeypath]

section
variable {t : Bytes} {v : JV} (h : TextOf t v)
include h

theorem asNull_text : T.asNull t = T.asNull (encodeSpec v) := by
  simp [T.asNull, h.notJsonb, isJsonb_encodeSpec v h.small, h.parses, asNull_refines v h.good]
theorem asBool_text : T.asBool t = T.asBool (encodeSpec v) := by
  simp [T.asBool, h.notJsonb, isJsonb_encodeSpec v h.small, h.parses, asBool_refines v h.good]
/-- the text branch hands out the parsed number, the JSONB branch its stored form (`Int64(0)` is
stored as the shared zero); the two are the same number -/
theorem asNumber_text : (T.asNumber t).map (Option.map Num.norm) = T.asNumber (encodeSpec v) := by
  simp [T.asNumber, h.notJsonb, isJsonb_encodeSpec v h.small, h.parses, asNumber_refines v h.good, Res.map, Res.bind]
theorem asStr_text : T.asStr t = T.asStr (encodeSpec v) := by
  simp [T.asStr, h.notJsonb, isJsonb_encodeSpec v h.small, h.parses, asStr_refines v h.good]
theorem existsAllKeys_text (keys : List Bytes) : T.existsAllKeys t keys = T.existsAllKeys (encodeSpec v) keys := by
  simp [T.existsAllKeys, h.notJsonb, isJsonb_encodeSpec v h.small, h.parses, existsAllKeys_refines v h.good]

theorem getByIndex_text (i : Nat) : T.getByIndex t i = T.getByIndex (encodeSpec v) i := by
  have hj := isJsonb_encodeSpec v h.small
  simp only [T.getByIndex, h.notJsonb, hj, h.parses, Bool.not_false, Bool.not_true, if_true]
  rw [getByIndex_refines v h.good i]
  cases v with
  | arr vs =>
    simp only [Spec.getByIndex]
    cases hi : vs[i]? with
    | none => simp
    | some w =>
      have hw := spec_getByIndex_good (arr vs) h.good i w (by simpa [Spec.getByIndex] using hi)
      simp [enc_good w hw, Res.map, Res.bind]
  | _ => simp [Spec.getByIndex]

theorem getByName_text (name : Bytes) (ic : Bool) : T.getByName t name ic = T.getByName (encodeSpec v) name ic := by
  have hj := isJsonb_encodeSpec v h.small
  simp only [T.getByName, h.notJsonb, hj, h.parses, Bool.not_false, Bool.not_true, if_true]
  rw [getByName_refines v h.good name ic, treeGetByName_eq]
  cases hi : Spec.getByName v name ic with
  | none => simp
  | some w =>
    have hw := spec_getByName_good v h.good name ic w hi
    simp [enc_good w hw, Res.map, Res.bind]

theorem getByKeypath_text (path : List KeyPath) : T.getByKeypath t path = T.getByKeypath (encodeSpec v) path := by
  have hj := isJsonb_encodeSpec v h.small
  simp only [T.getByKeypath, h.notJsonb, hj, h.parses, Bool.not_false, Bool.not_true, if_true]
  rw [getByKeypath_refines v h.good path, treeGetByKeypath_eq]
  cases hi : Spec.getByKeypath v path with
  | none => simp
  | some w =>
    rcases spec_getByKeypath_good path v h.good w hi with ⟨_, rfl⟩ | hw
    · simp [T.enc, toVec_eq_encodeSpec w h.good, Res.map, Res.bind]
    · simp [enc_good w hw, Res.map, Res.bind]

theorem objectKeys_text : T.objectKeys t = T.objectKeys (encodeSpec v) := by
  have hj := isJsonb_encodeSpec v h.small
  simp only [T.objectKeys, h.notJsonb, hj, h.parses, Bool.not_false, Bool.not_true, if_true]
  rw [objectKeys_refines v h.good]
  cases v with
  | obj kvs =>
    have hg := h.good
    simp only [goodTop, Bool.and_eq_true, decide_eq_true_eq] at hg
    have hk : goodTop (arr (kvs.map (fun kv => str kv.1))) = true := by
      simp only [goodTop, Bool.and_eq_true, decide_eq_true_eq, List.length_map]
      exact ⟨hg.1.1, goodL_strs kvs hg.2⟩
    simp [Spec.objectKeys, T.enc, toVec_eq_encodeSpec _ hk, Res.map, Res.bind]
  | _ => simp [Spec.objectKeys]

theorem traverseCheckString_text (p : Bytes → Bool) :
    T.traverseCheckString t p = T.traverseCheckString (encodeSpec v) p := by
  simp [T.traverseCheckString, h.notJsonb, isJsonb_encodeSpec v h.small, h.parses, T.enc,
    toVec_eq_encodeSpec v h.good, Res.bind]

theorem convertToComparable_text (buf : Bytes) :
    T.convertToComparable t buf = T.convertToComparable (encodeSpec v) buf := by
  simp [T.convertToComparable, h.notJsonb, isJsonb_encodeSpec v h.small, h.parses, T.enc,
    toVec_eq_encodeSpec v h.good, Res.bind]

theorem pathExists_text (jp : JsonPath) : T.pathExists t jp = T.pathExists (encodeSpec v) jp := by
  simp [T.pathExists, h.notJsonb, isJsonb_encodeSpec v h.small, h.parses, T.enc,
    toVec_eq_encodeSpec v h.good, Res.bind]

theorem getByPathMode_text (mode : Sel.Mode) (jp : JsonPath) (data : Bytes) :
    T.getByPathMode mode t jp data = T.getByPathMode mode (encodeSpec v) jp data := by
  simp [T.getByPathMode, h.notJsonb, isJsonb_encodeSpec v h.small, h.parses, T.enc,
    toVec_eq_encodeSpec v h.good, Res.bind]

theorem compare_text_bin (b : Bytes) (hb : isJsonb b = true) : T.compare t b = T.compare (encodeSpec v) b := by
  simp [T.compare, h.notJsonb, hb, isJsonb_encodeSpec v h.small, h.parses, T.enc,
    toVec_eq_encodeSpec v h.good, Res.bind]
theorem compare_bin_text (b : Bytes) (hb : isJsonb b = true) : T.compare b t = T.compare b (encodeSpec v) := by
  simp [T.compare, h.notJsonb, hb, isJsonb_encodeSpec v h.small, h.parses, T.enc,
    toVec_eq_encodeSpec v h.good, Res.bind]
end

theorem compare_text_text {t1 t2 : Bytes} {v1 v2 : JV} (h1 : TextOf t1 v1) (h2 : TextOf t2 v2) :
    T.compare t1 t2 = T.compare (encodeSpec v1) (encodeSpec v2) := by
  simp [T.compare, h1.notJsonb, h2.notJsonb, isJsonb_encodeSpec v1 h1.small, isJsonb_encodeSpec v2 h2.small,
    h1.parses, h2.parses, T.enc, toVec_eq_encodeSpec v1 h1.good, toVec_eq_encodeSpec v2 h2.good]

end Jsonb
