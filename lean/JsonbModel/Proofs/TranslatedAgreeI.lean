/-
Phase 6c of the Rust → Lean translation (tools/rs2lean6c.py, Generated/Translated6c.lean): the agreement theorems of
the renderer (`to_string`, `to_pretty_string`, `container_to_string`, `scalar_to_string`,
`PrettyOpts::generate_indent`; I1–I6) and of the serde bridge (`to_serde_json`, `to_serde_json_object`,
`containter_to_serde_json`, `containter_to_serde_json_object`, `scalar_to_serde_json`; I7–I9) and of the two editors
phase 4 left over (`array_overlap_jsonb`, I10; `object_insert_jsonb`, I11–I12) and of the `strip_nulls` family
(`strip_nulls_array`, `strip_nulls_object`, `strip_nulls_jsonb`; I13–I15), `build_array` (I16), `build_object` (I17)
and of the `delete_by_keypath` family (`delete_jsonb_array_by_keypath`, `delete_jsonb_object_by_keypath`,
`delete_by_keypath_jsonb`; I18–I24).
See tools/RS2LEAN.md, section "Phase 6c".
-/
import JsonbModel.Proofs.TranslatedAgreeI1
import JsonbModel.Proofs.TranslatedAgreeI2
import JsonbModel.Proofs.TranslatedAgreeI3
import JsonbModel.Proofs.TranslatedAgreeI4
import JsonbModel.Proofs.TranslatedAgreeI5
import JsonbModel.Proofs.TranslatedAgreeI6
import JsonbModel.Proofs.TranslatedAgreeI7
import JsonbModel.Proofs.TranslatedAgreeI8
import JsonbModel.Proofs.TranslatedAgreeI9
import JsonbModel.Proofs.TranslatedAgreeI10
import JsonbModel.Proofs.TranslatedAgreeI11
import JsonbModel.Proofs.TranslatedAgreeI12
import JsonbModel.Proofs.TranslatedAgreeI13
import JsonbModel.Proofs.TranslatedAgreeI14
import JsonbModel.Proofs.TranslatedAgreeI15
import JsonbModel.Proofs.TranslatedAgreeI16
import JsonbModel.Proofs.TranslatedAgreeI17
import JsonbModel.Proofs.TranslatedAgreeI18
import JsonbModel.Proofs.TranslatedAgreeI19
import JsonbModel.Proofs.TranslatedAgreeI20
import JsonbModel.Proofs.TranslatedAgreeI21
import JsonbModel.Proofs.TranslatedAgreeI22
import JsonbModel.Proofs.TranslatedAgreeI23
import JsonbModel.Proofs.TranslatedAgreeI24
