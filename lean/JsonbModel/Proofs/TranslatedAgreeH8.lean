/-
Agreement theorems, phase 6b, part 8: the recursive group `parse_json_value / parse_json_array / parse_json_object`
(parser.rs), one unfolding of each member and the two `loop`s for ANY callee that agrees with the model's
`parseJsonValue` below the fuel.
-/
import JsonbModel.Proofs.TranslatedAgreeH7

set_option linter.unusedSimpArgs false
set_option linter.unusedVariables false

namespace Jsonb.TrAgree
open Jsonb.Rs

theorem tp_digit_range (b : UInt8) :
    (decide ((48 : Int) ≤ (b.toNat : Int)) && decide ((b.toNat : Int) ≤ (57 : Int))) = JP.isDigit b := tp_isDigit b

/-- `let (v, self) ← callee?; Ok(v)` is the callee's result -/
theorem run_bind_ret_pair' {α β : Type} (r : Res (α × β)) :
    Ctl.run (Ctl.ofRes r >>= fun p => Ctl.ret (Res.ok (p.1, p.2))) = r := by
  cases r <;> rfl

/-- one unfolding of `parse_json_value` -/
theorem parse_json_value_succ (buf : Bytes) (hb : buf.length < 9223372036854775808) (g idx : Nat) :
    Tr.Parser.parse_json_value (g + 1) (pz buf idx) =
      (JP.skipUnused buf idx >>= fun j => JP.next buf j >>= fun c =>
        if c == 0x6E then (JP.mustAll buf j [0x6E, 0x75, 0x6C, 0x6C]).map (fun k => (Tr.Value.Null, pz buf k))
        else if c == 0x74 then (JP.mustAll buf j [0x74, 0x72, 0x75, 0x65]).map (fun k => (Tr.Value.Bool true, pz buf k))
        else if c == 0x66 then
          (JP.mustAll buf j [0x66, 0x61, 0x6C, 0x73, 0x65]).map (fun k => (Tr.Value.Bool false, pz buf k))
        else if JP.isDigit c || c == 0x2D then (JP.parseNumber buf j).map (ofVP buf)
        else if c == 0x22 then (JP.parseJsonString buf j).map (ofVP buf)
        else if c == 0x5B then Tr.Parser.parse_json_array g (pz buf j)
        else if c == 0x7B then Tr.Parser.parse_json_object g (pz buf j)
        else .err "ExpectedSomeValue") := by
  rw [Tr.Parser.parse_json_value]
  simp only [parser_skip_unused_agrees buf idx hb]
  obtain ⟨j, hj, -, -⟩ := JP.skipUnused_spec buf idx
  simp only [hj, rm_ok, rb_ok, Ctl.ofRes_ok', Ctl.val_bind', parser_next_agrees]
  by_cases hlt : j < buf.length
  · simp only [tp_next_lt hlt, rm_ok, rb_ok, Ctl.ofRes_ok', Ctl.val_bind', tp_beq_lit _ 0x6E 110 rfl, tp_beq_lit _ 0x74 116 rfl,
      tp_beq_lit _ 0x66 102 rfl, tp_beq_lit _ 0x22 34 rfl, tp_beq_lit _ 0x5B 91 rfl, tp_beq_lit _ 0x7B 123 rfl,
      tp_beq_lit _ 0x2D 45 rfl, tp_digit_range]
    generalize buf[j] = c
    cases h1 : (c == 0x6E) with
    | true =>
      simp only [if_true, parser_parse_json_null_agrees buf j hb]
      exact run_bind_ret_pair' _
    | false =>
    simp only [Bool.false_eq_true, if_false]
    cases h2 : (c == 0x74) with
    | true =>
      simp only [if_true, parser_parse_json_true_agrees buf j hb]
      exact run_bind_ret_pair' _
    | false =>
    simp only [Bool.false_eq_true, if_false]
    cases h3 : (c == 0x66) with
    | true =>
      simp only [if_true, parser_parse_json_false_agrees buf j hb]
      exact run_bind_ret_pair' _
    | false =>
    simp only [Bool.false_eq_true, if_false]
    cases h4 : (JP.isDigit c || c == 0x2D) with
    | true =>
      simp only [if_true, parser_parse_json_number_agrees buf j hb (by omega)]
      exact run_bind_ret_pair' _
    | false =>
    simp only [Bool.false_eq_true, if_false]
    cases h5 : (c == 0x22) with
    | true =>
      simp only [if_true, parser_parse_json_string_agrees buf j hb]
      exact run_bind_ret_pair' _
    | false =>
    simp only [Bool.false_eq_true, if_false]
    cases h6 : (c == 0x5B) with
    | true =>
      simp only [if_true]
      exact run_bind_ret_pair' _
    | false =>
    simp only [Bool.false_eq_true, if_false]
    cases h7 : (c == 0x7B) with
    | true =>
      simp only [if_true]
      exact run_bind_ret_pair' _
    | false =>
      simp only [Bool.false_eq_true, if_false, parser_step_agrees buf j (by omega), Ctl.ofRes_ok', Ctl.val_bind', Ctl.run_ret']
  · simp only [tp_next_ge hlt, rm_err, rb_err, Ctl.ofRes_err', Ctl.ret_bind', Ctl.run_ret']

/-! ## the loops, for any callee `rec` that agrees with `parseJsonValue` below some fuel -/

/-- what the loops assume about the function they call -/
def PRecOK (buf : Bytes) (F : Nat) (rec : Tr.Parser → Res (Tr.Value × Tr.Parser)) : Prop :=
  ∀ f' idx, f' < F → JP.parseJsonValue f' buf idx ≠ .fuel →
    rec (pz buf idx) = (JP.parseJsonValue f' buf idx).map (ofVP buf)

/-- one iteration of the `loop` of `parse_json_array`, for ANY callee -/
theorem pa_loop1_step (buf : Bytes) (hb : buf.length < 9223372036854775808)
    (rec : Tr.Parser → Res (Tr.Value × Tr.Parser)) (idx : Nat) (first : Bool) (V : List Tr.Value) :
    Tr.Parser.parse_json_array.loop1 rec (pz buf idx, first, V) =
      (Ctl.ofRes (JP.skipUnused buf idx) >>= fun j => Ctl.ofRes (JP.next buf j) >>= fun c =>
        if c == 0x5D then Ctl.val (.done (pz buf (j + 1), first, V))
        else if (!first && c != 0x2C) then Ctl.ret (.err "ExpectedArrayCommaOrEnd")
        else Ctl.ofRes (rec (pz buf (if first then j else j + 1))) >>= fun r =>
          Ctl.val (.next (r.2, false, V ++ [r.1]))) := by
  unfold Tr.Parser.parse_json_array.loop1
  simp only [parser_skip_unused_agrees buf idx hb]
  obtain ⟨j, hj, -, -⟩ := JP.skipUnused_spec buf idx
  simp only [hj, rm_ok, Ctl.ofRes_ok', Ctl.val_bind', parser_next_agrees]
  by_cases hlt : j < buf.length
  · simp only [tp_next_lt hlt, rm_ok, Ctl.ofRes_ok', Ctl.val_bind', tp_beq_lit _ 0x5D 93 rfl, tp_bne_lit _ 0x2C 44 rfl,
      tp_beq_lit' _ 0x5D 93 rfl, tp_bne_lit' _ 0x2C 44 rfl]
    generalize buf[j] = c
    cases h1 : (c == 0x5D) with
    | true =>
      simp only [if_true, parser_step_agrees buf j (by omega), Ctl.ofRes_ok', Ctl.val_bind', Ctl.ret_bind', Rs.loopStep_brk']
    | false =>
      simp only [Bool.false_eq_true, if_false, Ctl.pure_eq', Ctl.val_bind']
      cases first with
      | true =>
        simp only [Bool.not_true, Bool.false_eq_true, if_false, Bool.false_and, Ctl.val_bind', if_true, Rs.vecPush]
        cases rec (pz buf j) with
        | ok r => simp only [Ctl.ofRes_ok', Ctl.val_bind', Rs.loopStep_val']
        | err e => simp only [Ctl.ofRes_err', Ctl.ret_bind', Rs.loopStep_err']
        | panic s => simp only [Ctl.ofRes_panic', Ctl.ret_bind', Rs.loopStep_panic']
        | fuel => rfl
      | false =>
        simp only [Bool.not_false, if_true, Bool.true_and]
        cases h2 : (c != 0x2C) with
        | true => simp only [if_true, Ctl.ret_bind', Rs.loopStep_err']
        | false =>
          simp only [Bool.false_eq_true, if_false, Ctl.pure_eq', Ctl.val_bind', parser_step_agrees buf j (by omega),
            Ctl.ofRes_ok', Rs.vecPush]
          cases rec (pz buf (j + 1)) with
          | ok r => simp only [Ctl.ofRes_ok', Ctl.val_bind', Rs.loopStep_val']
          | err e => simp only [Ctl.ofRes_err', Ctl.ret_bind', Rs.loopStep_err']
          | panic s => simp only [Ctl.ofRes_panic', Ctl.ret_bind', Rs.loopStep_panic']
          | fuel => rfl
  · simp only [tp_next_ge hlt, Ctl.ofRes_err', rm_err, Ctl.ret_bind', Rs.loopStep_err']

theorem PRecOK_mono {buf : Bytes} {F F' : Nat} {rec : Tr.Parser → Res (Tr.Value × Tr.Parser)} (h : PRecOK buf F rec)
    (hle : F' ≤ F) : PRecOK buf F' rec :=
  fun f' idx hf hne => h f' idx (by omega) hne

theorem ofJVs_snoc (vs : List JV) (v : JV) : ofJVs vs ++ [ofJV v] = ofJVs (vs ++ [v]) := by
  rw [ofJVs_append]; rfl

/-- the `loop` of `parse_json_array` is the model's `arrLoop`; the bound `n` is not exhausted (every element moves
the cursor forward) -/
theorem pa_run (buf : Bytes) (hb : buf.length < 9223372036854775808) :
    ∀ (F : Nat) (rec : Tr.Parser → Res (Tr.Value × Tr.Parser)) (idx : Nat) (first : Bool) (vals : List JV) (n : Nat),
      PRecOK buf F rec → JP.arrLoop F buf idx first vals ≠ .fuel → buf.length - idx < n →
      Ctl.run (Rs.whileFuel n (pz buf idx, first, ofJVs vals) (Tr.Parser.parse_json_array.loop1 rec) >>= fun st =>
          (Ctl.ret (Res.ok (Tr.Value.Array st.2.2, st.1)) : Ctl (Tr.Value × Tr.Parser) (Tr.Value × Tr.Parser)))
        = (JP.arrLoop F buf idx first vals).map (ofVP buf) := by
  intro F
  induction F with
  | zero => intro rec idx first vals n _ hne _; exact absurd rfl hne
  | succ F ih =>
    intro rec idx first vals n hrec hne hn
    obtain ⟨n, rfl⟩ : ∃ k, n = k + 1 := ⟨n - 1, by omega⟩
    have hstep := pa_loop1_step buf hb rec idx first (ofJVs vals)
    rw [JP.arrLoop] at hne ⊢
    obtain ⟨j, hj, hij, -⟩ := JP.skipUnused_spec buf idx
    simp only [hj, rb_ok, Ctl.ofRes_ok', Ctl.val_bind'] at hstep hne ⊢
    by_cases hlt : j < buf.length
    · simp only [tp_next_lt hlt, rb_ok, Ctl.ofRes_ok', Ctl.val_bind'] at hstep hne ⊢
      generalize buf[j] = c at hstep hne ⊢
      cases h1 : (c == 0x5D) with
      | true =>
        simp only [h1, if_true] at hstep hne ⊢
        rw [Rs.whileFuel_done _ _ _ _ hstep]
        rfl
      | false =>
        simp only [h1, Bool.false_eq_true, if_false] at hstep hne ⊢
        cases h2 : (!first && c != 0x2C) with
        | true =>
          simp only [h2, if_true] at hstep hne ⊢
          rw [Rs.whileFuel_ret _ _ _ _ hstep]
          rfl
        | false =>
          simp only [h2, Bool.false_eq_true, if_false] at hstep hne ⊢
          have hi' : j ≤ (if first = true then j else j + 1) := by split <;> omega
          generalize (if first = true then j else j + 1) = i' at hstep hne hi' ⊢
          have hvne : JP.parseJsonValue F buf i' ≠ .fuel := by
            intro c; rw [c] at hne; exact hne rfl
          rw [hrec F i' (by omega) hvne] at hstep
          have hadv := ((JP.parse_Spec F buf).1 i').2
          cases hv : JP.parseJsonValue F buf i' with
          | ok r =>
            obtain ⟨v, i''⟩ := r
            have ha : i' < i'' ∧ i'' ≤ buf.length := hadv (v, i'') hv
            rw [hv] at hstep hne
            simp only [rm_ok, rb_ok, Ctl.ofRes_ok', Ctl.val_bind', ofVP, ofJVs_snoc] at hstep hne ⊢
            rw [Rs.whileFuel_next _ _ _ _ hstep]
            exact ih rec i'' false (vals ++ [v]) n (PRecOK_mono hrec (by omega)) hne (by omega)
          | err e =>
            rw [hv] at hstep
            simp only [rm_err, Ctl.ofRes_err', Ctl.ret_bind'] at hstep ⊢
            rw [Rs.whileFuel_ret _ _ _ _ hstep]
            rfl
          | panic s =>
            rw [hv] at hstep
            simp only [rm_panic, Ctl.ofRes_panic', Ctl.ret_bind'] at hstep ⊢
            rw [Rs.whileFuel_ret _ _ _ _ hstep]
            rfl
          | fuel => exact absurd hv hvne
    · simp only [tp_next_ge hlt, rb_err, Ctl.ofRes_err', Ctl.ret_bind'] at hstep hne ⊢
      rw [Rs.whileFuel_ret _ _ _ _ hstep]
      rfl

theorem tp_is_string (k : JV) : Tr.Value.is_string (ofJV k) = .ok (JP.isString k) := by
  cases k <;> rfl

theorem tp_as_str_str (s : Bytes) : Tr.Value.as_str (ofJV (.str s)) = .ok (some s) := rfl

/-- the `loop` of `parse_json_object` is the model's `objLoop`; the bound `n` is not exhausted -/
theorem po_run (buf : Bytes) (hb : buf.length < 9223372036854775808) :
    ∀ (F : Nat) (rec : Tr.Parser → Res (Tr.Value × Tr.Parser)) (idx : Nat) (first : Bool) (obj : List (Bytes × JV)) (n : Nat),
      PRecOK buf F rec → JP.objLoop F buf idx first obj ≠ .fuel → buf.length - idx < n →
      Ctl.run (Rs.whileFuel n (pz buf idx, first, ofKVs obj) (Tr.Parser.parse_json_object.loop1 rec) >>= fun st =>
          (Ctl.ret (Res.ok (Tr.Value.Object st.2.2, st.1)) : Ctl (Tr.Value × Tr.Parser) (Tr.Value × Tr.Parser)))
        = (JP.objLoop F buf idx first obj).map (ofVP buf) := by
  intro F
  induction F with
  | zero => intro rec idx first obj n _ hne _; exact absurd rfl hne
  | succ F ih =>
    intro rec idx first obj n hrec hne hn
    obtain ⟨n, rfl⟩ : ∃ k, n = k + 1 := ⟨n - 1, by omega⟩
    have hstep : Tr.Parser.parse_json_object.loop1 rec (pz buf idx, first, ofKVs obj) =
        Tr.Parser.parse_json_object.loop1 rec (pz buf idx, first, ofKVs obj) := rfl
    conv at hstep => rhs; unfold Tr.Parser.parse_json_object.loop1
    rw [JP.objLoop] at hne ⊢
    obtain ⟨j, hj, hij, -⟩ := JP.skipUnused_spec buf idx
    simp only [parser_skip_unused_agrees buf idx hb, hj, rm_ok, rb_ok, Ctl.ofRes_ok', Ctl.val_bind', parser_next_agrees] at hstep hne ⊢
    by_cases hlt : j < buf.length
    · simp only [tp_next_lt hlt, rm_ok, rb_ok, Ctl.ofRes_ok', Ctl.val_bind', tp_beq_lit _ 0x7D 125 rfl, tp_bne_lit _ 0x2C 44 rfl,
        tp_beq_lit' _ 0x7D 125 rfl, tp_bne_lit' _ 0x2C 44 rfl]
        at hstep hne ⊢
      generalize buf[j] = c at hstep hne ⊢
      cases h1 : (c == 0x7D) with
      | true =>
        simp only [h1, if_true, parser_step_agrees buf j (by omega), Ctl.ofRes_ok', Ctl.val_bind', Ctl.ret_bind', Rs.loopStep_brk']
          at hstep hne ⊢
        rw [Rs.whileFuel_done _ _ _ _ hstep]
        rfl
      | false =>
        simp only [h1, Bool.false_eq_true, if_false, Ctl.pure_eq', Ctl.val_bind'] at hstep hne ⊢
        -- the comma
        have hcomma : (!first && c != 0x2C) = true ∨ ((!first && c != 0x2C) = false ∧
            (if (!first) = true then do
                (if (c != 0x2C) = true then (Ctl.ret (Res.err "ExpectedObjectCommaOrEnd") :
                    Ctl (Rs.LoopCtl (Tr.Value × Tr.Parser) (Tr.Parser × Bool × List (Bytes × Tr.Value))) Unit) else Ctl.val ())
                Ctl.ofRes (Tr.Parser.step (pz buf j))
              else Ctl.val (pz buf j)) = Ctl.val (pz buf (if first = true then j else j + 1))) := by
          cases first with
          | true => right; simp only [Bool.not_true, Bool.false_and, Bool.false_eq_true, if_false, if_true, and_self]
          | false =>
            cases h2 : (c != 0x2C) with
            | true => left; rfl
            | false =>
              right
              simp only [Bool.not_false, Bool.true_and, if_true, Bool.false_eq_true, if_false, Ctl.val_bind',
                parser_step_agrees buf j (by omega), Ctl.ofRes_ok', and_self]
        rcases hcomma with h2 | ⟨h2, hc2⟩
        · simp only [h2, if_true] at hne ⊢
          have : first = false ∧ (c != 0x2C) = true := by
            cases first <;> simp_all
          obtain ⟨rfl, h3⟩ := this
          simp only [Bool.not_false, if_true, h3, Ctl.ret_bind', Rs.loopStep_err'] at hstep
          rw [Rs.whileFuel_ret _ _ _ _ hstep]
          rfl
        · simp only [h2, Bool.false_eq_true, if_false] at hne ⊢
          simp only [hc2, Ctl.val_bind'] at hstep
          have hi' : j ≤ (if first = true then j else j + 1) := by split <;> omega
          generalize (if first = true then j else j + 1) = i' at hstep hne hi' ⊢
          -- the key
          have hkne : JP.parseJsonValue F buf i' ≠ .fuel := by
            intro c; rw [c] at hne; exact hne rfl
          rw [hrec F i' (by omega) hkne] at hstep
          have hadv := ((JP.parse_Spec F buf).1 i').2
          cases hk : JP.parseJsonValue F buf i' with
          | err e =>
            rw [hk] at hstep
            simp only [rm_err, Ctl.ofRes_err', Ctl.ret_bind', Rs.loopStep_err'] at hstep ⊢
            rw [Rs.whileFuel_ret _ _ _ _ hstep]; rfl
          | panic s =>
            rw [hk] at hstep
            simp only [rm_panic, Ctl.ofRes_panic', Ctl.ret_bind', Rs.loopStep_panic'] at hstep ⊢
            rw [Rs.whileFuel_ret _ _ _ _ hstep]; rfl
          | fuel => exact absurd hk hkne
          | ok r =>
            obtain ⟨key, i2⟩ := r
            have ha : i' < i2 ∧ i2 ≤ buf.length := hadv (key, i2) hk
            rw [hk] at hstep hne
            simp only [rm_ok, rb_ok, Ctl.ofRes_ok', Ctl.val_bind', ofVP, tp_is_string] at hstep hne ⊢
            cases hks : JP.isString key with
            | false =>
              simp only [hks, Bool.not_false, if_true, Ctl.ret_bind', Rs.loopStep_err'] at hstep hne ⊢
              rw [Rs.whileFuel_ret _ _ _ _ hstep]; rfl
            | true =>
              simp only [hks, Bool.not_true, Bool.false_eq_true, if_false, Ctl.pure_eq', Ctl.val_bind'] at hstep hne ⊢
              obtain ⟨j2, hj2, hij2, -⟩ := JP.skipUnused_spec buf i2
              simp only [parser_skip_unused_agrees buf i2 hb, hj2, rm_ok, rb_ok, Ctl.ofRes_ok', Ctl.val_bind', parser_next_agrees]
                at hstep hne ⊢
              by_cases hlt2 : j2 < buf.length
              · simp only [tp_next_lt hlt2, rm_ok, rb_ok, Ctl.ofRes_ok', Ctl.val_bind', tp_bne_lit _ 0x3A 58 rfl,
                  tp_bne_lit' _ 0x3A 58 rfl] at hstep hne ⊢
                generalize buf[j2] = c2 at hstep hne ⊢
                cases h3 : (c2 != 0x3A) with
                | true =>
                  simp only [h3, if_true, Ctl.ret_bind', Rs.loopStep_err'] at hstep hne ⊢
                  rw [Rs.whileFuel_ret _ _ _ _ hstep]; rfl
                | false =>
                  simp only [h3, Bool.false_eq_true, if_false, Ctl.pure_eq', Ctl.val_bind', parser_step_agrees buf j2 (by omega),
                    Ctl.ofRes_ok'] at hstep hne ⊢
                  have hvne : JP.parseJsonValue F buf (j2 + 1) ≠ .fuel := by
                    intro c; rw [c] at hne; exact hne rfl
                  rw [hrec F (j2 + 1) (by omega) hvne] at hstep
                  have hadv2 := ((JP.parse_Spec F buf).1 (j2 + 1)).2
                  cases hv : JP.parseJsonValue F buf (j2 + 1) with
                  | err e =>
                    rw [hv] at hstep
                    simp only [rm_err, Ctl.ofRes_err', Ctl.ret_bind', Rs.loopStep_err'] at hstep ⊢
                    rw [Rs.whileFuel_ret _ _ _ _ hstep]; rfl
                  | panic s =>
                    rw [hv] at hstep
                    simp only [rm_panic, Ctl.ofRes_panic', Ctl.ret_bind', Rs.loopStep_panic'] at hstep ⊢
                    rw [Rs.whileFuel_ret _ _ _ _ hstep]; rfl
                  | fuel => exact absurd hv hvne
                  | ok r2 =>
                    obtain ⟨v, i3⟩ := r2
                    have ha2 : j2 + 1 < i3 ∧ i3 ≤ buf.length := hadv2 (v, i3) hv
                    rw [hv] at hstep hne
                    cases key with
                    | str s =>
                      simp only [rm_ok, rb_ok, Ctl.ofRes_ok', Ctl.val_bind', ofVP, tp_as_str_str, Rs.unwrap_some,
                        btreeInsert_agrees, JP.asStrUnwrap, Ctl.pure_eq', Rs.loopStep_val'] at hstep hne ⊢
                      rw [Rs.whileFuel_next _ _ _ _ hstep]
                      exact ih rec i3 false (insertKV s v obj) n (PRecOK_mono hrec (by omega)) hne (by omega)
                    | null => cases hks
                    | bool b => cases hks
                    | num x => cases hks
                    | arr x => cases hks
                    | obj x => cases hks
              · simp only [tp_next_ge hlt2, rm_err, rb_err, Ctl.ofRes_err', Ctl.ret_bind', Rs.loopStep_err'] at hstep hne ⊢
                rw [Rs.whileFuel_ret _ _ _ _ hstep]; rfl
    · simp only [tp_next_ge hlt, rm_err, rb_err, Ctl.ofRes_err', Ctl.ret_bind', Rs.loopStep_err'] at hstep hne ⊢
      rw [Rs.whileFuel_ret _ _ _ _ hstep]
      rfl

end Jsonb.TrAgree
