/-
JSON text parser model: helper lemmas (cursor primitives, number lexer, hex decoding).
-/
import JsonbModel.JsonParser

namespace Jsonb
namespace JP

/-! ### `Res` monad plumbing -/

@[simp] theorem bind_ok {α β} (a : α) (f : α → Res β) : (Res.ok a >>= f) = f a := rfl
@[simp] theorem bind_err {α β} (e : String) (f : α → Res β) : (Res.err e >>= f) = .err e := rfl
@[simp] theorem bind_panic {α β} (e : String) (f : α → Res β) : (Res.panic e >>= f) = .panic e := rfl
@[simp] theorem bind_fuel {α β} (f : α → Res β) : ((Res.fuel : Res α) >>= f) = .fuel := rfl
@[simp] theorem pure_eq {α} (a : α) : (pure a : Res α) = .ok a := rfl

/-- never a panic -/
def NP {α} (r : Res α) : Prop := ∀ s, r ≠ .panic s

@[simp] theorem NP_ok {α} (a : α) : NP (Res.ok a) := by intro s; simp
@[simp] theorem NP_err {α} (e : String) : NP (Res.err e : Res α) := by intro s; simp
@[simp] theorem NP_fuel {α} : NP (Res.fuel : Res α) := by intro s; simp
@[simp] theorem NP_panic {α} (e : String) : NP (Res.panic e : Res α) ↔ False := by
  simp [NP]

theorem NP_bind {α β} {x : Res α} {f : α → Res β} (hx : NP x)
    (hf : ∀ a, x = .ok a → NP (f a)) : NP (x >>= f) := by
  cases x with
  | ok a => simpa using hf a rfl
  | err e => simp
  | panic s => exact absurd rfl (hx s)
  | fuel => simp

theorem NP_ite {α} {c : Prop} [Decidable c] {a b : Res α} (ha : c → NP a) (hb : ¬c → NP b) :
    NP (if c then a else b) := by
  split
  · exact ha ‹_›
  · exact hb ‹_›

/-! ### Primitive cursor operations -/

theorem getUnwrap_lt (site : String) (buf : Bytes) (i : Nat) (h : i < buf.length) :
    getUnwrap site buf i = .ok buf[i] := by
  simp [getUnwrap, h]

theorem bufIndex_lt (site : String) (buf : Bytes) (i : Nat) (h : i < buf.length) :
    bufIndex site buf i = .ok buf[i] := by
  simp [bufIndex, h]

theorem checkNext_eq (buf : Bytes) (i : Nat) (c : UInt8) :
    checkNext buf i c = .ok (buf[i]? == some c) := by
  unfold checkNext
  split
  · rename_i h; simp [getUnwrap_lt _ _ _ h, h]
  · rename_i h; simp [List.getElem?_eq_none (Nat.le_of_not_lt h)]

theorem checkNextEither_eq (buf : Bytes) (i : Nat) (c1 c2 : UInt8) :
    checkNextEither buf i c1 c2 = .ok (buf[i]? == some c1 || buf[i]? == some c2) := by
  unfold checkNextEither
  split
  · rename_i h; simp [getUnwrap_lt _ _ _ h, h]
  · rename_i h; simp [List.getElem?_eq_none (Nat.le_of_not_lt h)]

theorem checkDigit_eq (buf : Bytes) (i : Nat) :
    checkDigit buf i = .ok (buf[i]?.any isDigit) := by
  unfold checkDigit
  split
  · rename_i h; simp [getUnwrap_lt _ _ _ h, h]
  · rename_i h; simp [List.getElem?_eq_none (Nat.le_of_not_lt h)]

theorem escWs2_spec (buf : Bytes) (i : Nat) :
    ∃ b, escWs2 buf i = .ok b ∧ (b = true → i + 1 < buf.length) := by
  unfold escWs2
  split
  · rename_i h; simp [bufIndex_lt _ _ _ h, h]
  · simp

theorem escWs4_spec (buf : Bytes) (i : Nat) :
    ∃ b, escWs4 buf i = .ok b ∧ (b = true → i + 3 < buf.length) := by
  unfold escWs4
  split
  · rename_i h
    have h1 : i + 1 < buf.length := by omega
    have h2 : i + 2 < buf.length := by omega
    simp only [bufIndex_lt _ _ _ h1, bufIndex_lt _ _ _ h2, bufIndex_lt _ _ _ h, bind_ok]
    split
    · simp
    · split
      · simp
      · simp [h]
  · simp

/-- `skip_unused` always succeeds, moves forward, and stays inside the buffer -/
theorem skipUnused_spec (buf : Bytes) (i : Nat) :
    ∃ j, skipUnused buf i = .ok j ∧ i ≤ j ∧ (j ≤ buf.length ∨ j = i) := by
  induction hn : buf.length - i using Nat.strongRecOn generalizing i with
  | _ n ih =>
    rw [skipUnused]
    split
    · rename_i h
      have stp : ∀ k, 0 < k → i + k ≤ buf.length →
          ∃ j, skipUnused buf (i + k) = .ok j ∧ i ≤ j ∧ (j ≤ buf.length ∨ j = i) := by
        intro k hk hle
        obtain ⟨j, e, h1, h2⟩ := ih (buf.length - (i + k)) (by omega) (i + k) rfl
        exact ⟨j, e, by omega, by omega⟩
      simp only [getUnwrap_lt _ _ _ h, bind_ok]
      split
      · exact stp 1 (by omega) (by omega)
      · split
        · obtain ⟨b2, e2, hb2⟩ := escWs2_spec buf i
          obtain ⟨b4, e4, hb4⟩ := escWs4_spec buf i
          simp only [e2, e4, bind_ok]
          cases b2 with
          | true => simpa using stp 2 (by omega) (by have := hb2 rfl; omega)
          | false =>
            cases b4 with
            | true => simpa using stp 4 (by omega) (by have := hb4 rfl; omega)
            | false => exact ⟨i, by simp, by omega, by omega⟩
        · exact ⟨i, by simp, by omega, by omega⟩
    · exact ⟨i, by simp, by omega, by omega⟩

theorem stepDigitsLoop_spec (buf : Bytes) (i n : Nat) :
    ∃ j, stepDigitsLoop buf i n = .ok (n + (j - i), j) ∧ i ≤ j ∧ (j ≤ buf.length ∨ j = i) := by
  induction hn : buf.length - i using Nat.strongRecOn generalizing i n with
  | _ m ih =>
    rw [stepDigitsLoop]
    split
    · rename_i h
      simp only [getUnwrap_lt _ _ _ h, bind_ok]
      split
      · exact ⟨i, by simp, by omega, by omega⟩
      · obtain ⟨j, e, h1, h2⟩ := ih (buf.length - (i + 1)) (by omega) (i + 1) (n + 1) rfl
        refine ⟨j, ?_, by omega, by omega⟩
        rw [e]; congr 2; omega
    · exact ⟨i, by simp, by omega, by omega⟩

/-- `step_digits`: an error, or `(len, j)` with `j = i + len` inside the buffer -/
theorem stepDigits_spec (buf : Bytes) (i : Nat) :
    (∃ e, stepDigits buf i = .err e) ∨
    ∃ j, stepDigits buf i = .ok (j - i, j) ∧ i ≤ j ∧ (j ≤ buf.length ∨ j = i) := by
  unfold stepDigits
  split
  · exact .inl ⟨_, rfl⟩
  · obtain ⟨j, e, h1, h2⟩ := stepDigitsLoop_spec buf i 0
    exact .inr ⟨j, by simpa using e, h1, h2⟩

theorem lt_of_get_beq {buf : Bytes} {i : Nat} {c : UInt8} (h : (buf[i]? == some c) = true) :
    i < buf.length := by
  by_cases hc : i < buf.length
  · exact hc
  · simp [List.getElem?_eq_none (Nat.le_of_not_lt hc)] at h

theorem lt_of_get_beq2 {buf : Bytes} {i : Nat} {c d : UInt8}
    (h : (buf[i]? == some c || buf[i]? == some d) = true) : i < buf.length := by
  by_cases hc : i < buf.length
  · exact hc
  · simp [List.getElem?_eq_none (Nat.le_of_not_lt hc)] at h

/-! ### Number lexer -/

theorem lexSign_spec (buf : Bytes) (i : Nat) :
    ∃ b j, lexSign buf i = .ok (b, j) ∧ i ≤ j ∧ (j ≤ buf.length ∨ j = i) := by
  unfold lexSign
  rw [checkNext_eq]
  simp only [bind_ok, pure_eq]
  refine ⟨_, _, rfl, ?_, ?_⟩
  · split <;> omega
  · split
    · rename_i h
      left
      have : i < buf.length := by
        first | exact lt_of_get_beq h | exact lt_of_get_beq2 h
      omega
    · right; rfl

theorem lexInt_spec (buf : Bytes) (i : Nat) :
    NP (lexInt buf i) ∧ ∀ j, lexInt buf i = .ok j → i < j ∧ j ≤ buf.length := by
  unfold lexInt
  rw [checkNext_eq]
  simp only [bind_ok]
  split
  · rename_i h
    have hi : i < buf.length := by
      first | exact lt_of_get_beq h | exact lt_of_get_beq2 h
    rw [checkDigit_eq]
    simp only [bind_ok]
    split
    · simp
    · simp; omega
  · rcases stepDigits_spec buf i with ⟨e, he⟩ | ⟨j, he, h1, h2⟩
    · simp [he]
    · simp only [he, bind_ok]
      split
      · simp
      · rename_i hne
        simp only [pure_eq, NP_ok, Res.ok.injEq, true_and]
        intro j' hj'; subst hj'
        simp at hne
        omega

theorem lexFrac_spec (buf : Bytes) (i : Nat) :
    NP (lexFrac buf i) ∧
    ∀ b j, lexFrac buf i = .ok (b, j) → i ≤ j ∧ (j ≤ buf.length ∨ j = i) := by
  unfold lexFrac
  rw [checkNext_eq]
  simp only [bind_ok]
  split
  · rename_i h
    have hi : i < buf.length := by
      first | exact lt_of_get_beq h | exact lt_of_get_beq2 h
    rcases stepDigits_spec buf (i + 1) with ⟨e, he⟩ | ⟨j, he, h1, h2⟩
    · simp [he]
    · simp only [he, bind_ok]
      split
      · simp
      · simp only [pure_eq, NP_ok, Res.ok.injEq, Prod.mk.injEq, true_and]
        rintro b j' ⟨-, rfl⟩
        omega
  · simp

theorem lexExp_spec (buf : Bytes) (i : Nat) :
    NP (lexExp buf i) ∧
    ∀ b j, lexExp buf i = .ok (b, j) → i ≤ j ∧ (j ≤ buf.length ∨ j = i) := by
  unfold lexExp
  rw [checkNextEither_eq, checkNextEither_eq]
  simp only [bind_ok]
  split
  · rename_i h
    have hi : i < buf.length := by
      first | exact lt_of_get_beq h | exact lt_of_get_beq2 h
    split
    · rename_i h2
      have hi2 : i + 1 < buf.length := by
        first | exact lt_of_get_beq h2 | exact lt_of_get_beq2 h2
      rcases stepDigits_spec buf (i + 2) with ⟨e, he⟩ | ⟨j, he, h1, h2⟩
      · simp [he]
      · simp only [he, bind_ok]
        split
        · simp
        · simp only [pure_eq, NP_ok, Res.ok.injEq, Prod.mk.injEq, true_and]
          rintro b j' ⟨-, rfl⟩
          omega
    · rcases stepDigits_spec buf (i + 1) with ⟨e, he⟩ | ⟨j, he, h1, h2⟩
      · simp [he]
      · simp only [he, bind_ok]
        split
        · simp
        · simp only [pure_eq, NP_ok, Res.ok.injEq, Prod.mk.injEq, true_and]
          rintro b j' ⟨-, rfl⟩
          omega
  · simp

theorem lexNumber_spec (buf : Bytes) (i : Nat) :
    NP (lexNumber buf i) ∧
    ∀ a b c j, lexNumber buf i = .ok (a, b, c, j) → i < j ∧ j ≤ buf.length := by
  unfold lexNumber
  obtain ⟨neg, i1, e1, h1, h1'⟩ := lexSign_spec buf i
  simp only [e1, bind_ok]
  obtain ⟨np2, h2⟩ := lexInt_spec buf i1
  cases e2 : lexInt buf i1 with
  | ok i2 =>
    obtain ⟨h2a, h2b⟩ := h2 i2 e2
    simp only [bind_ok]
    obtain ⟨np3, h3⟩ := lexFrac_spec buf i2
    cases e3 : lexFrac buf i2 with
    | ok p3 =>
      obtain ⟨fr, i3⟩ := p3
      obtain ⟨h3a, h3b⟩ := h3 fr i3 e3
      simp only [bind_ok]
      obtain ⟨np4, h4⟩ := lexExp_spec buf i3
      cases e4 : lexExp buf i3 with
      | ok p4 =>
        obtain ⟨ex, i4⟩ := p4
        obtain ⟨h4a, h4b⟩ := h4 ex i4 e4
        simp only [bind_ok, pure_eq, NP_ok, Res.ok.injEq, Prod.mk.injEq, true_and]
        rintro a b c j ⟨-, -, -, rfl⟩
        omega
      | err e => simp
      | panic s => exact absurd e4 (np4 s)
      | fuel => simp
    | err e => simp
    | panic s => exact absurd e3 (np3 s)
    | fuel => simp
  | err e => simp
  | panic s => exact absurd e2 (np2 s)
  | fuel => simp

theorem classifyNumber_NP (s : Bytes) (a b c : Bool) : NP (classifyNumber s a b c) := by
  unfold classifyNumber
  simp only
  split
  · simp
  · split <;> simp

theorem parseNumber_spec (buf : Bytes) (i : Nat) :
    NP (parseNumber buf i) ∧ ∀ v j, parseNumber buf i = .ok (v, j) → i < j ∧ j ≤ buf.length := by
  unfold parseNumber
  obtain ⟨np, h⟩ := lexNumber_spec buf i
  cases e : lexNumber buf i with
  | ok p =>
    obtain ⟨a, b, c, j⟩ := p
    obtain ⟨h1, h2⟩ := h a b c j e
    have hs : slice "parse_json_number: buf[start_idx..idx]" buf i j = .ok ((buf.take j).drop i) := by
      unfold slice
      rw [if_neg (by omega), if_neg (by omega)]
    simp only [bind_ok, hs]
    have npc := classifyNumber_NP (List.drop i (List.take j buf)) a b c
    cases ec : classifyNumber (List.drop i (List.take j buf)) a b c with
    | ok v =>
      simp only [bind_ok, pure_eq, NP_ok, Res.ok.injEq, Prod.mk.injEq, true_and]
      rintro v' j' ⟨-, rfl⟩
      exact ⟨h1, h2⟩
    | err e => simp
    | panic s => exact absurd ec (npc s)
    | fuel => simp
  | err e => simp
  | panic s => exact absurd e (np s)
  | fuel => simp

/-! ### Strings, second pass (util.rs) -/

/-- Shape of the bytes between the quotes that the first pass of `parse_json_string`
guarantees: every backslash is followed by the bytes the first pass skipped with it. -/
inductive EscWF : Bytes → Prop where
  | nil : EscWF []
  | plain (c : UInt8) (d : Bytes) : c ≠ 0x5C → EscWF d → EscWF (c :: d)
  | esc (c : UInt8) (d : Bytes) : c ≠ 0x75 → EscWF d → EscWF (0x5C :: c :: d)
  | escU (x a b c : UInt8) (d : Bytes) : x ≠ 0x7B → EscWF d →
      EscWF (0x5C :: 0x75 :: x :: a :: b :: c :: d)
  | escUB (a b c e f : UInt8) (d : Bytes) : EscWF d →
      EscWF (0x5C :: 0x75 :: 0x7B :: a :: b :: c :: e :: f :: d)

set_option maxRecDepth 100000 in
theorem HEX_length : C.HEX.length = 256 := by decide

set_option maxRecDepth 100000 in
theorem HEX_all : ∀ x ∈ C.HEX, x = 255 ∨ x < 16 := by decide

theorem u_beq_1 : ((0x75 : UInt8) == 0x5C) = false := by decide
theorem u_beq_2 : ((0x75 : UInt8) == 0x22) = false := by decide
theorem u_beq_3 : ((0x75 : UInt8) == 0x2F) = false := by decide
theorem u_beq_4 : ((0x75 : UInt8) == 0x62) = false := by decide
theorem u_beq_5 : ((0x75 : UInt8) == 0x66) = false := by decide
theorem u_beq_6 : ((0x75 : UInt8) == 0x6E) = false := by decide
theorem u_beq_7 : ((0x75 : UInt8) == 0x72) = false := by decide
theorem u_beq_8 : ((0x75 : UInt8) == 0x74) = false := by decide

theorem decodeHexVal_spec (v : UInt8) :
    (decodeHexVal v = .ok none) ∨ ∃ n, decodeHexVal v = .ok (some n) ∧ n < 16 := by
  unfold decodeHexVal
  have hv : v.toNat < C.HEX.length := by rw [HEX_length]; exact v.toNat_lt
  have hall := HEX_all
  rw [List.getElem?_eq_getElem hv]
  have := hall _ (List.getElem_mem hv)
  simp only
  split
  · left; rfl
  · rename_i hne
    right
    refine ⟨_, rfl, ?_⟩
    rcases this with h | h
    · simp [h] at hne
    · exact h

theorem decodeHexEscape_spec (bs : Bytes) (n k : Nat) (hn : n < 16 ^ k) (hk : k + bs.length ≤ 4) :
    NP (decodeHexEscape bs n) ∧ ∀ m, decodeHexEscape bs n = .ok m → m < 16 ^ (k + bs.length) := by
  induction bs generalizing n k with
  | nil => simp [decodeHexEscape]; exact hn
  | cons b bs ih =>
    unfold decodeHexEscape
    rcases decodeHexVal_spec b with h | ⟨hex, h, hlt⟩
    · simp [h]
    · simp only [h, bind_ok]
      simp only [List.length_cons] at hk
      have hk4 : k + 1 ≤ 4 := by omega
      have h16 : n * 16 + hex < 16 ^ (k + 1) := by
        rw [Nat.pow_succ]; omega
      have hle : 16 ^ (k + 1) ≤ 16 ^ 4 := Nat.pow_le_pow_right (by decide) hk4
      have hmod : n * 16 % 65536 = n * 16 := Nat.mod_eq_of_lt (by omega)
      rw [hmod]
      rw [if_neg (by omega)]
      have := ih (n * 16 + hex) (k + 1) h16 (by omega)
      simpa [List.length_cons, Nat.add_assoc, Nat.add_comm 1] using this

theorem decodeHexEscape4 (bs : Bytes) (h : bs.length = 4) :
    NP (decodeHexEscape bs 0) ∧ ∀ m, decodeHexEscape bs 0 = .ok m → m < 65536 := by
  have := decodeHexEscape_spec bs 0 0 (by decide) (by omega)
  simpa [h] using this

theorem readHex4_plain (site : String) (x a b c : UInt8) (d : Bytes) (hx : x ≠ 0x7B) :
    readHex4 site (x :: a :: b :: c :: d) = .ok ([x, a, b, c], d) := by
  simp [readHex4, data0, hx, readExact, C.UNICODE_LEN]

theorem readHex4_brace (site : String) (a b c e f : UInt8) (d : Bytes) :
    readHex4 site (0x7B :: a :: b :: c :: e :: f :: d) =
      if f != 0x7D then .err "UnexpectedEndOfHexEscape" else .ok ([a, b, c, e], d) := by
  simp [readHex4, data0, dataFrom, readExact, C.UNICODE_LEN]

theorem charFromU32_ok (site : String) (n : Nat) (h : n < 0xD800 ∨ (0xE000 ≤ n ∧ n < 0x110000)) :
    charFromU32 site n = .ok n := by
  simp [charFromU32, h]

theorem pair_bound (a b : Nat) (ha : a < 1024) (hb : b < 1024) :
    ((a <<< 10) % 4294967296 ||| b) + 0x10000 < 0x110000 := by
  have h1 : a <<< 10 = a * 1024 := by rw [Nat.shiftLeft_eq]
  have h2 : a * 1024 < 2 ^ 20 := by omega
  have h3 : (a * 1024) % 4294967296 = a * 1024 := Nat.mod_eq_of_lt (by omega)
  have h4 : b < 2 ^ 20 := by omega
  have h5 := Nat.or_lt_two_pow h2 h4
  rw [h1, h3]
  omega

/-! ### `.fuel` is never produced by the non-recursive helpers -/

/-- never out of fuel -/
def NF {α} (r : Res α) : Prop := r ≠ .fuel

@[simp] theorem NF_ok {α} (a : α) : NF (Res.ok a) := by simp [NF]
@[simp] theorem NF_err {α} (e : String) : NF (Res.err e : Res α) := by simp [NF]
@[simp] theorem NF_panic {α} (e : String) : NF (Res.panic e : Res α) := by simp [NF]
@[simp] theorem NF_pure {α} (a : α) : NF (pure a : Res α) := by simp [NF]

theorem NF_bind {α β} {x : Res α} {f : α → Res β} (hx : NF x) (hf : ∀ a, NF (f a)) : NF (x >>= f) := by
  cases x with
  | ok a => simpa using hf a
  | err e => simp
  | panic s => simp
  | fuel => exact absurd rfl hx

attribute [irreducible] NF

macro "nf_tac" : tactic =>
  `(tactic| repeat (first
      | (with_reducible apply NF_bind)
      | (intro _)
      | split
      | (simp [*])))

theorem data0_NF (s : String) (d : Bytes) : NF (data0 s d) := by unfold data0; nf_tac
theorem dataFrom_NF (s : String) (d : Bytes) (n : Nat) : NF (dataFrom s d n) := by unfold dataFrom; nf_tac
theorem readExact_NF (d : Bytes) : NF (readExact d) := by unfold readExact; nf_tac
theorem subUsize_NF (s : String) (a b : Nat) : NF (subUsize s a b) := by unfold subUsize; nf_tac
theorem charFromU32_NF (s : String) (n : Nat) : NF (charFromU32 s n) := by unfold charFromU32; nf_tac
theorem bufIndex_NF (s : String) (d : Bytes) (n : Nat) : NF (bufIndex s d n) := by unfold bufIndex; nf_tac
theorem decodeHexVal_NF (v : UInt8) : NF (decodeHexVal v) := by unfold decodeHexVal; nf_tac
theorem decodeHexEscape_NF (bs : Bytes) (n : Nat) : NF (decodeHexEscape bs n) := by
  induction bs generalizing n with
  | nil => simp [decodeHexEscape]
  | cons b bs ih =>
    unfold decodeHexEscape
    have := decodeHexVal_NF b
    nf_tac
theorem readHex4_NF (s : String) (d : Bytes) : NF (readHex4 s d) := by
  unfold readHex4
  have := data0_NF; have := dataFrom_NF; have := readExact_NF
  nf_tac
theorem pairCombine_NF (a b : Nat) : NF (pairCombine a b) := by
  unfold pairCombine
  refine NF_bind (subUsize_NF _ _ _) fun a => NF_bind (subUsize_NF _ _ _) fun b => ?_
  show NF (if _ then _ else _)
  split
  · exact NF_panic _
  · exact charFromU32_NF _ _
theorem pairLow_NF (n : Bytes) (h : Nat) (d : Bytes) : NF (pairLow n h d) := by
  unfold pairLow
  have := readHex4_NF; have := decodeHexEscape_NF; have := pairCombine_NF
  nf_tac
theorem afterHex_NF (n d : Bytes) : NF (afterHex n d) := by
  unfold afterHex
  have := decodeHexEscape_NF; have := data0_NF; have := bufIndex_NF; have := dataFrom_NF
  have := pairLow_NF; have := charFromU32_NF
  nf_tac
theorem parseEscaped_NF (d : Bytes) : NF (parseEscaped d) := by
  unfold parseEscaped
  have := data0_NF; have := dataFrom_NF; have := readHex4_NF; have := afterHex_NF
  nf_tac
end JP
end Jsonb
