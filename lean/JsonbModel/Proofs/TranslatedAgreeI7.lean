/-
Phase 6c: the serde bridge of functions.rs (`containter_to_serde_json`, `scalar_to_serde_json`,
`containter_to_serde_json_object`, `to_serde_json`, `to_serde_json_object`), translated from source by
tools/rs2lean6c.py (Generated/Translated6c.lean), against `Fn.toSerde` / `Fn.serdeScalar` / `Fn.serdeItems` /
`Fn.serdeMembers` / `Fn.toSerdeJson` / `Fn.toSerdeJsonObject` of Functions/Serde.lean.
I7: one unfolding of `scalar_to_serde_json`, the two loops (= `serdeItems`, `serdeMembers`) for ANY callee that agrees
with `serdeScalar` below the fuel.  The model collects `iterate_array` / `iterate_object_entries` eagerly where the
source walks them lazily with `?` in the loop body: the theorems are equalities under the hypothesis that the model's
answer is not a panic (as for `contains_jsonb`, phase 5b).
-/
import JsonbModel.Proofs.TranslatedAgreeI6
import JsonbModel.Functions.Serde

set_option linter.unusedSimpArgs false
set_option linter.unusedVariables false

namespace Jsonb.TrAgree
open Jsonb.Rs

/-- what the loops assume about the function they call: it agrees with `serdeScalar` below some fuel -/
def SerdeRecOK (f : Nat) (rec : Tr.JEntry → Bytes → Res SJ) : Prop :=
  ∀ f', f' < f → ∀ (je : JE) (value : Bytes), value.length < 9223372036854775808 → je.len < 4294967296 →
    Fn.serdeScalar f' je value ≠ .fuel → (Fn.serdeScalar f' je value).isPanic = false →
    rec (ofJE je) value = Fn.serdeScalar f' je value

theorem SerdeRecOK.mono {f f' : Nat} {rec} (h : SerdeRecOK f rec) (hf : f' ≤ f) : SerdeRecOK f' rec :=
  fun f'' hlt => h f'' (by omega)

/-- the number arm: `Number::from(i64 | u64)`, `Number::from_f64` -/
theorem sjOfNum_agrees (n : Num) (hw : n.WF) :
    (match ofNum n with
      | .Int64 v => (Ctl.val (Rs.sjNumber (Rs.sjNumberFromI64 v)) : Ctl SJ SJ)
      | .UInt64 v => Ctl.val (Rs.sjNumber (Rs.sjNumberFromU64 v))
      | .Float64 v =>
        (match Rs.sjNumberFromF64 v with
          | some v => Ctl.val (Rs.sjNumber v)
          | none => Ctl.ret (.err "InvalidJson")) >>= fun t => Ctl.val t) =
      (match Fn.sjOfNum n with
        | .ok x => Ctl.val x
        | .err e => Ctl.ret (.err e)
        | .panic s => Ctl.ret (.panic s)
        | .fuel => Ctl.ret .fuel) := by
  cases n with
  | int i => simp only [ofNum, Fn.sjOfNum, Fn.sjOfInt, Rs.sjNumber, Rs.sjNumberFromI64]
  | uint u => simp only [ofNum, Fn.sjOfNum, Rs.sjNumber, Rs.sjNumberFromU64, Int.toNat_natCast]
  | float b =>
    simp only [ofNum, Fn.sjOfNum, Rs.sjNumber, Rs.sjNumberFromF64]
    cases F64.isFinite b <;> simp [Ctl.val_bind', Ctl.ret_bind']

/-- one unfolding of `scalar_to_serde_json`, given the answer of `containter_to_serde_json` on a nested container -/
theorem scalar_to_serde_json_step (g f : Nat) (je : JE) (value : Bytes)
    (hlen : value.length < 9223372036854775808) (hjl : je.len < 4294967296)
    (hc : je.ty = C.CONTAINER_TAG → Tr.containter_to_serde_json g value = Fn.toSerde f value)
    (hnp : (Fn.serdeScalar (f + 1) je value).isPanic = false) :
    Tr.scalar_to_serde_json (g + 1) (ofJE je) value = Fn.serdeScalar (f + 1) je value := by
  rw [Tr.scalar_to_serde_json]
  rw [Fn.serdeScalar] at hnp ⊢
  have hcl : Rs.cast .usize ((je.len : Nat) : Int) = (je.len : Int) := Rs.usize_nat _ (by omega)
  simp only [ofJE, tag_eq, hcl]
  simp only [decide_eq_true_eq, Int.natCast_inj]
  by_cases h1 : je.ty = C.NULL_TAG
  · simp only [if_pos h1, Ctl.pure_eq', Ctl.val_bind', Ctl.run_ret', Rs.sjNull]
  simp only [if_neg h1] at hnp ⊢
  by_cases h2 : je.ty = C.TRUE_TAG
  · simp only [if_pos h2, Ctl.pure_eq', Ctl.val_bind', Ctl.run_ret', Rs.sjBool]
  simp only [if_neg h2] at hnp ⊢
  by_cases h3 : je.ty = C.FALSE_TAG
  · simp only [if_pos h3, Ctl.pure_eq', Ctl.val_bind', Ctl.run_ret', Rs.sjBool]
  simp only [if_neg h3] at hnp ⊢
  by_cases h4 : je.ty = C.NUMBER_TAG
  · simp only [if_pos h4, sliceTo_nat, slice_zero_model] at hnp ⊢
    by_cases hle : je.len ≤ value.length
    · simp only [if_pos hle, Ctl.ofRes_ok', Ctl.val_bind'] at hnp ⊢
      rw [decode_agrees _ (by simp; omega)]
      cases hd : Num.dec (List.take je.len value) with
      | err e => simp only [Res.map, Res.bind, Ctl.ofRes_err', Ctl.ret_bind', Ctl.run_ret']
      | panic s => simp only [Res.map, Res.bind, Ctl.ofRes_panic', Ctl.ret_bind', Ctl.run_ret']
      | fuel => rfl
      | ok n =>
        simp only [Res.map, Res.bind, Ctl.ofRes_ok', Ctl.val_bind', Ctl.pure_eq']
        have hs := sjOfNum_agrees n (dec_WF _ _ hd)
        cases hn : ofNum n with
        | Int64 v =>
          rw [hn] at hs
          dsimp only at hs ⊢
          simp only [Ctl.pure_eq', Ctl.val_bind'] at hs ⊢
          cases hm : Fn.sjOfNum n with
          | ok x => rw [hm] at hs; cases hs; simp only [Ctl.val_bind', Ctl.run_ret']
          | err e => rw [hm] at hs; cases hs
          | panic s => rw [hm] at hs; cases hs
          | fuel => rw [hm] at hs; cases hs
        | UInt64 v =>
          rw [hn] at hs
          dsimp only at hs ⊢
          simp only [Ctl.pure_eq', Ctl.val_bind'] at hs ⊢
          cases hm : Fn.sjOfNum n with
          | ok x => rw [hm] at hs; cases hs; simp only [Ctl.val_bind', Ctl.run_ret']
          | err e => rw [hm] at hs; cases hs
          | panic s => rw [hm] at hs; cases hs
          | fuel => rw [hm] at hs; cases hs
        | Float64 v =>
          rw [hn] at hs
          dsimp only at hs ⊢
          simp only [Ctl.pure_eq'] at hs ⊢
          cases hm : Fn.sjOfNum n with
          | ok x =>
            rw [hm] at hs
            dsimp only at hs
            cases hq : Rs.sjNumberFromF64 v with
            | none => rw [hq] at hs; simp only [Ctl.ret_bind'] at hs; cases hs
            | some y =>
              rw [hq] at hs
              simp only [Ctl.val_bind', Ctl.val.injEq] at hs
              subst hs
              simp only [Ctl.val_bind', Ctl.run_ret']
          | err e =>
            rw [hm] at hs
            dsimp only at hs
            cases hq : Rs.sjNumberFromF64 v with
            | none => rw [hq] at hs; simp only [Ctl.ret_bind', Ctl.ret.injEq] at hs; simp only [Ctl.ret_bind', Ctl.run_ret', hs]
            | some y => rw [hq] at hs; simp only [Ctl.val_bind'] at hs; cases hs
          | panic s =>
            rw [hm] at hs
            dsimp only at hs
            cases hq : Rs.sjNumberFromF64 v with
            | none => rw [hq] at hs; simp only [Ctl.ret_bind', Ctl.ret.injEq] at hs; cases hs
            | some y => rw [hq] at hs; simp only [Ctl.val_bind'] at hs; cases hs
          | fuel =>
            rw [hm] at hs
            dsimp only at hs
            cases hq : Rs.sjNumberFromF64 v with
            | none => rw [hq] at hs; simp only [Ctl.ret_bind', Ctl.ret.injEq] at hs; cases hs
            | some y => rw [hq] at hs; simp only [Ctl.val_bind'] at hs; cases hs
    · simp only [if_neg hle, Res.isPanic] at hnp
      cases hnp
  simp only [if_neg h4] at hnp ⊢
  by_cases h5 : je.ty = C.STRING_TAG
  · simp only [if_pos h5, sliceTo_nat, slice_zero_model] at hnp ⊢
    by_cases hle : je.len ≤ value.length
    · simp only [if_pos hle, Ctl.ofRes_ok', Ctl.val_bind', Ctl.pure_eq', Ctl.run_ret', Rs.sjString, Res.map, Res.bind]
    · simp only [if_neg hle, Res.map, Res.bind, Res.isPanic] at hnp
      cases hnp
  simp only [if_neg h5] at hnp ⊢
  by_cases h6 : je.ty = C.CONTAINER_TAG
  · simp only [if_pos h6, hc h6]
    cases Fn.toSerde f value with
    | ok x => simp only [Ctl.ofRes_ok', Ctl.val_bind', Ctl.pure_eq', Ctl.run_ret']
    | err e => simp only [Ctl.ofRes_err', Ctl.ret_bind', Ctl.run_ret']
    | panic s => simp only [Ctl.ofRes_panic', Ctl.ret_bind', Ctl.run_ret']
    | fuel => rfl
  simp only [if_neg h6, Ctl.ret_bind', Ctl.run_ret']

/-! ## the loops -/

/-- what a loop answers in terms of the model's loop function (a model panic is excluded by hypothesis) -/
def LoopVal {ρ σ : Type} (c : Ctl ρ σ) (m : Res σ) : Prop :=
  match m with
  | .ok s => c = .val s
  | .err e => c = .ret (.err e)
  | .panic _ => True
  | .fuel => True

theorem serde_loop2_step (rec : Tr.JEntry → Bytes → Res SJ) (it : JE × Bytes) (arr : List SJ) :
    Tr.containter_to_serde_json.loop2 rec (ofItem it) arr =
      match rec (ofJE it.1) it.2 with
      | .ok x => Ctl.val (.next (arr ++ [x]))
      | .err e => Ctl.ret (.err e)
      | .panic s => Ctl.ret (.panic s)
      | .fuel => Ctl.ret .fuel := by
  unfold Tr.containter_to_serde_json.loop2 ofItem
  dsimp only
  cases rec (ofJE it.1) it.2 with
  | ok x => simp only [Ctl.ofRes_ok', Ctl.val_bind', Ctl.pure_eq', Rs.vecPush, Rs.loopStep_val']
  | err e => simp only [Ctl.ofRes_err', Ctl.ret_bind', Rs.loopStep_err']
  | panic s => simp only [Ctl.ofRes_panic', Ctl.ret_bind', Rs.loopStep_panic']
  | fuel => rfl

/-- the array loop is the model's `serdeItems` -/
theorem serde_items_run (rec : Tr.JEntry → Bytes → Res SJ) :
    ∀ (items : List (JE × Bytes)) (f : Nat) (arr : List SJ), SerdeRecOK f rec →
      (∀ x ∈ items, x.2.length < 9223372036854775808 ∧ x.1.len < 4294967296) →
      LoopVal (Rs.forIn (items.map ofItem) arr (Tr.containter_to_serde_json.loop2 rec) : Ctl SJ (List SJ))
        ((Fn.serdeItems f items).map (arr ++ ·)) := by
  intro items
  induction items with
  | nil =>
    intro f arr _ _
    cases f with
    | zero => simp only [Fn.serdeItems, Res.map, Res.bind, LoopVal]
    | succ f => simp only [Fn.serdeItems, Res.map, Res.bind, LoopVal, List.map_nil, Rs.forIn_nil, List.append_nil]
  | cons it items ih =>
    intro f arr hrec hb
    cases f with
    | zero => simp only [Fn.serdeItems, Res.map, Res.bind, LoopVal]
    | succ f =>
      have hstep := serde_loop2_step rec it arr
      have hb1 := hb it (List.mem_cons_self)
      rw [Fn.serdeItems, List.map_cons]
      cases hm : Fn.serdeScalar f it.1 it.2 with
      | fuel => simp only [Res.map, Res.bind, LoopVal]
      | panic s => simp only [Res.map, Res.bind, LoopVal]
      | err e =>
        have hcall := hrec f (by omega) it.1 it.2 hb1.1 hb1.2 (by rw [hm]; exact fun c => by cases c) (by rw [hm]; rfl)
        rw [hm] at hcall
        rw [hcall] at hstep
        simp only [Res.map, Res.bind, LoopVal]
        exact Rs.forIn_ret _ _ _ _ _ hstep
      | ok x =>
        have hcall := hrec f (by omega) it.1 it.2 hb1.1 hb1.2 (by rw [hm]; exact fun c => by cases c) (by rw [hm]; rfl)
        rw [hm] at hcall
        rw [hcall] at hstep
        rw [Rs.forIn_next _ _ _ _ _ hstep]
        have hnext := ih f (arr ++ [x]) (hrec.mono (by omega)) (fun y hy => hb y (List.mem_cons_of_mem _ hy))
        dsimp only
        cases hr : Fn.serdeItems f items with
        | fuel => simp only [Res.map, Res.bind, LoopVal]
        | panic s => simp only [Res.map, Res.bind, LoopVal]
        | err e => rw [hr] at hnext; simpa only [Res.map, Res.bind, LoopVal] using hnext
        | ok xs =>
          rw [hr] at hnext
          simp only [Res.map, Res.bind, LoopVal, List.append_assoc, List.singleton_append] at hnext ⊢
          exact hnext

theorem serde_loop1_step (rec : Tr.JEntry → Bytes → Res SJ) (m : Bytes × JE × Bytes) (obj : List (Bytes × SJ)) :
    Tr.containter_to_serde_json.loop1 rec (ofMember m) obj =
      match rec (ofJE m.2.1) m.2.2 with
      | .ok x => Ctl.val (.next (SJ.insert m.1 x obj))
      | .err e => Ctl.ret (.err e)
      | .panic s => Ctl.ret (.panic s)
      | .fuel => Ctl.ret .fuel := by
  unfold Tr.containter_to_serde_json.loop1 ofMember
  dsimp only
  cases rec (ofJE m.2.1) m.2.2 with
  | ok x => simp only [Ctl.ofRes_ok', Ctl.val_bind', Ctl.pure_eq', Rs.sjMapInsert, Rs.loopStep_val']
  | err e => simp only [Ctl.ofRes_err', Ctl.ret_bind', Rs.loopStep_err']
  | panic s => simp only [Ctl.ofRes_panic', Ctl.ret_bind', Rs.loopStep_panic']
  | fuel => rfl

/-- a loop body that inserts the callee's answer for a member is the model's `serdeMembers` (whatever the result
type `ρ` of the enclosing function) -/
theorem serde_members_generic {ρ : Type} (rec : Tr.JEntry → Bytes → Res SJ)
    (body : (Bytes × Tr.JEntry × Bytes) → List (Bytes × SJ) → Ctl ρ (Rs.Step (List (Bytes × SJ))))
    (hbody : ∀ (m : Bytes × JE × Bytes) (obj : List (Bytes × SJ)), body (ofMember m) obj =
      match rec (ofJE m.2.1) m.2.2 with
      | .ok x => Ctl.val (.next (SJ.insert m.1 x obj))
      | .err e => Ctl.ret (.err e)
      | .panic s => Ctl.ret (.panic s)
      | .fuel => Ctl.ret .fuel) :
    ∀ (ms : List (Bytes × JE × Bytes)) (f : Nat) (acc : List (Bytes × SJ)), SerdeRecOK f rec →
      (∀ x ∈ ms, x.2.2.length < 9223372036854775808 ∧ x.2.1.len < 4294967296) →
      LoopVal (Rs.forIn (ms.map ofMember) acc body) (Fn.serdeMembers f ms acc) := by
  intro ms
  induction ms with
  | nil =>
    intro f acc _ _
    cases f with
    | zero => simp only [Fn.serdeMembers, LoopVal]
    | succ f => simp only [Fn.serdeMembers, LoopVal, List.map_nil, Rs.forIn_nil]
  | cons m ms ih =>
    intro f acc hrec hb
    obtain ⟨k, je, item⟩ := m
    cases f with
    | zero => simp only [Fn.serdeMembers, LoopVal]
    | succ f =>
      have hstep := hbody (k, je, item) acc
      have hb1 := hb (k, je, item) (List.mem_cons_self)
      dsimp only at hstep hb1
      rw [Fn.serdeMembers, List.map_cons]
      cases hm : Fn.serdeScalar f je item with
      | fuel => simp only [LoopVal]
      | panic s => simp only [LoopVal]
      | err e =>
        have hcall := hrec f (by omega) je item hb1.1 hb1.2 (by rw [hm]; exact fun c => by cases c) (by rw [hm]; rfl)
        rw [hm] at hcall
        rw [hcall] at hstep
        simp only [LoopVal]
        exact Rs.forIn_ret _ _ _ _ _ hstep
      | ok x =>
        have hcall := hrec f (by omega) je item hb1.1 hb1.2 (by rw [hm]; exact fun c => by cases c) (by rw [hm]; rfl)
        rw [hm] at hcall
        rw [hcall] at hstep
        rw [Rs.forIn_next _ _ _ _ _ hstep]
        exact ih f (SJ.insert k x acc) (hrec.mono (by omega)) (fun y hy => hb y (List.mem_cons_of_mem _ hy))

/-- the object loop is the model's `serdeMembers` -/
theorem serde_members_run (rec : Tr.JEntry → Bytes → Res SJ) :
    ∀ (ms : List (Bytes × JE × Bytes)) (f : Nat) (acc : List (Bytes × SJ)), SerdeRecOK f rec →
      (∀ x ∈ ms, x.2.2.length < 9223372036854775808 ∧ x.2.1.len < 4294967296) →
      LoopVal (Rs.forIn (ms.map ofMember) acc (Tr.containter_to_serde_json.loop1 rec) : Ctl SJ (List (Bytes × SJ)))
        (Fn.serdeMembers f ms acc) :=
  serde_members_generic rec _ (serde_loop1_step rec)

end Jsonb.TrAgree
