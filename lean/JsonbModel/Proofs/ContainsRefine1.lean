/-
C12 refinement, part 1: scalar equality, the per-item test of `array_contains`, list
bookkeeping (container filter, pigeonhole on keys), fuel costs.
-/
import JsonbModel.Proofs.CmpRefine
import JsonbModel.Proofs.AccessRefine3
import JsonbModel.Proofs.ContainsLaws

namespace Jsonb
open JV

/-! ### numbers: the codec's normalisation is invisible to `Num.cmp` -/

theorem Num.cmp_norm_norm (n m : Num) (hn : n.WF) (hm : m.WF) :
    Num.cmp n.norm m.norm = Num.cmp n m := by
  have := Spec.cmpJV_norm (num n) (num m) (by simpa [JV.numsWF] using hn) (by simpa [JV.numsWF] using hm)
  simp only [Spec.cmpJV] at this
  exact this

namespace Fn

theorem scalarEq_num (l r : Bytes) (a b : Num) (ha : Num.dec l = .ok a) (hb : Num.dec r = .ok b) :
    scalarEq C.NUMBER_TAG l r = (Num.cmp a b == .eq) := by
  simp [scalarEq, ha, hb]

theorem scalarEq_other (ty : Nat) (l r : Bytes) (h : ty ≠ C.NUMBER_TAG) :
    scalarEq ty l r = (l == r) := by
  simp [scalarEq, h]

/-- **`scalar_eq` refines value equality**: on the payloads of two good scalars with the same
entry type code, `scalar_eq` is `Spec.valEq` (numbers by numeric value across encodings,
everything else bytewise). -/
theorem scalarEq_refines (x r : JV) (hx : good x = true) (hr : good r = true)
    (hsx : Spec.isScalarJ x = true) (hsr : Spec.isScalarJ r = true) (hty : ety x = ety r) :
    scalarEq (ety x) (entry x).2 (entry r).2 = Spec.valEq x r := by
  cases x with
  | arr _ => simp [Spec.isScalarJ] at hsx
  | obj _ => simp [Spec.isScalarJ] at hsx
  | null =>
    cases r with
    | null => rw [scalarEq_other _ _ _ (by simp only [ety]; decide)]; rfl
    | bool b => cases b <;> exact absurd hty (by simp only [ety]; decide)
    | _ => exact absurd hty (by simp only [ety]; decide)
  | bool a =>
    cases r with
    | bool b =>
      cases a <;> cases b <;>
        first
        | exact absurd hty (by simp only [ety]; decide)
        | (rw [scalarEq_other _ _ _ (by simp only [ety]; decide)]; rfl)
    | _ => cases a <;> exact absurd hty (by simp only [ety]; decide)
  | num n =>
    cases r with
    | num m =>
      have hn : n.WF := by simpa [good] using hx
      have hm : m.WF := by simpa [good] using hr
      simp only [ety, entry, scalarEq_num _ _ _ _ (Num.dec_enc n hn) (Num.dec_enc m hm), Spec.valEq,
        Num.cmp_norm_norm n m hn hm]
    | bool b => cases b <;> exact absurd hty (by simp only [ety]; decide)
    | _ => exact absurd hty (by simp only [ety]; decide)
  | str s =>
    cases r with
    | str t => rw [scalarEq_other _ _ _ (by simp only [ety]; decide)]; rfl
    | bool b => cases b <;> exact absurd hty (by simp only [ety]; decide)
    | _ => exact absurd hty (by simp only [ety]; decide)

/-- equal values have the same entry type code -/
theorem ety_eq_of_valEq {x r : JV} (h : Spec.valEq x r = true) : ety x = ety r := by
  cases x <;> cases r <;> simp [Spec.valEq] at h <;> try rfl
  subst h; rfl

theorem ety_container_iff (v : JV) : ety v = C.CONTAINER_TAG ↔ Spec.isScalarJ v = false := by
  cases v with
  | bool b => cases b <;> simp [ety, Spec.isScalarJ, tagDefs]
  | _ => simp [ety, Spec.isScalarJ, tagDefs]

/-- the per-element test of `array_contains` / the scalar branch of the array loop: type codes
equal and `scalar_eq` — exactly `valEq` against a good scalar -/
theorem itemTest_refines (x r : JV) (hx : good x = true) (hr : good r = true)
    (hsr : Spec.isScalarJ r = true) :
    ((itemOf x).1.ty == ety r && scalarEq (itemOf x).1.ty (itemOf x).2 (entry r).2)
      = Spec.valEq x r := by
  simp only [itemOf]
  by_cases hty : ety x = ety r
  · have hsx : Spec.isScalarJ x = true := by
      cases hs : Spec.isScalarJ x with
      | true => rfl
      | false =>
        have h1 := (ety_container_iff x).2 hs
        have h2 := (ety_container_iff r).1 (hty ▸ h1)
        rw [hsr] at h2; cases h2
    rw [scalarEq_refines x r hx hr hsx hsr hty]
    simp [hty]
  · have : Spec.valEq x r = false := by
      cases h : Spec.valEq x r with
      | false => rfl
      | true => exact absurd (ety_eq_of_valEq h) hty
    rw [this]
    simp [hty]

end Fn

/-! ### list bookkeeping -/

theorem filter_items (ls : List JV) :
    (ls.map itemOf).filter (fun it => it.1.ty == C.CONTAINER_TAG)
      = (ls.filter (fun x => !Spec.isScalarJ x)).map itemOf := by
  induction ls with
  | nil => rfl
  | cons x xs ih =>
    simp only [List.map_cons, List.filter_cons, ih]
    by_cases hs : Spec.isScalarJ x = false
    · have := (Fn.ety_container_iff x).2 hs
      simp [itemOf, this, hs]
    · have hne : ¬ ety x = C.CONTAINER_TAG := fun h => hs ((Fn.ety_container_iff x).1 h)
      simp only [Bool.not_eq_false] at hs
      simp [itemOf, hne, hs]

theorem goodL_filter (p : JV → Bool) (ls : List JV) (h : goodL ls = true) :
    goodL (ls.filter p) = true := by
  induction ls with
  | nil => rfl
  | cons x xs ih =>
    simp only [goodL, Bool.and_eq_true] at h
    simp only [List.filter_cons]
    split
    · simp only [goodL, Bool.and_eq_true]; exact ⟨h.1, ih h.2⟩
    · exact ih h.2

theorem goodL_mem {ls : List JV} (h : goodL ls = true) {x : JV} (hx : x ∈ ls) : good x = true := by
  induction ls with
  | nil => simp at hx
  | cons y ys ih =>
    simp only [goodL, Bool.and_eq_true] at h
    simp only [List.mem_cons] at hx
    rcases hx with rfl | hx
    · exact h.1
    · exact ih h.2 hx

theorem costL_filter (p : JV → Bool) (ls : List JV) : Fn.costL (ls.filter p) ≤ Fn.costL ls := by
  induction ls with
  | nil => exact Nat.le_refl _
  | cons x xs ih =>
    simp only [List.filter_cons]
    split
    · simp only [Fn.costL]; omega
    · simp only [Fn.costL]; omega

theorem goodTop_of_good' (v : JV) (hg : good v = true) : goodTop v = true := by
  cases v with
  | arr vs =>
    simp only [good, Bool.and_eq_true, decide_eq_true_eq] at hg
    simp only [goodTop, Bool.and_eq_true, decide_eq_true_eq]; exact ⟨hg.1.1, hg.2⟩
  | obj kvs =>
    simp only [good, Bool.and_eq_true, decide_eq_true_eq] at hg
    simp only [goodTop, Bool.and_eq_true, decide_eq_true_eq]; exact ⟨⟨hg.1.1.1, hg.1.2⟩, hg.2⟩
  | _ => exact hg

/-- pigeonhole: a duplicate-free list included in another is not longer -/
theorem nodup_subset_length {α : Type} [DecidableEq α] (l1 : List α) :
    ∀ (l2 : List α), l1.Nodup → (∀ x ∈ l1, x ∈ l2) → l1.length ≤ l2.length := by
  induction l1 with
  | nil => intro _ _ _; simp
  | cons a t ih =>
    intro l2 hn hs
    rw [List.nodup_cons] at hn
    have ha : a ∈ l2 := hs a (by simp)
    have h1 := ih (l2.erase a) hn.2 (fun x hx => by
      have hne : x ≠ a := fun e => hn.1 (e ▸ hx)
      exact (List.mem_erase_of_ne hne).2 (hs x (by simp [hx])))
    rw [List.length_erase_of_mem ha] at h1
    have : 0 < l2.length := List.length_pos_of_mem ha
    simp only [List.length_cons]; omega

theorem keys_nodup (kvs : List (Bytes × JV)) (hs : keysSorted kvs = true) :
    (kvs.map (·.1)).Nodup := by
  induction kvs with
  | nil => simp
  | cons kv kvs ih =>
    obtain ⟨k, v⟩ := kv
    obtain ⟨hs', hlt⟩ := keysSorted_cons hs
    simp only [List.map_cons, List.nodup_cons]
    refine ⟨?_, ih hs'⟩
    intro hmem
    obtain ⟨kv', hkv', e⟩ := List.mem_map.1 hmem
    have := hlt kv' hkv'
    rw [e, lexCmp_refl] at this
    cases this

/-- an object that contains all members of a key-sorted object has at least as many members
(the early `left_len < right_len → false` exit of `contains_jsonb` loses nothing) -/
theorem ContMem_length {lk rk : List (Bytes × JV)} (hs : keysSorted rk = true)
    (h : Spec.ContMem lk rk) : rk.length ≤ lk.length := by
  have h1 := nodup_subset_length (rk.map (·.1)) (lk.map (·.1)) (keys_nodup rk hs) (by
    intro k hk
    obtain ⟨kr, hkr, e⟩ := List.mem_map.1 hk
    obtain ⟨l, hl, _⟩ := (Spec.ContMem_iff lk rk).1 h kr hkr
    subst e
    exact List.mem_map.2 ⟨(kr.1, l), Spec.lookup_mem hl, rfl⟩)
  simpa using h1

/-! ### fuel -/

theorem cost_lookup {k : Bytes} {kvs : List (Bytes × JV)} {v : JV}
    (h : Spec.lookup k kvs = some v) : Fn.cost v ≤ Fn.costK kvs := by
  induction kvs with
  | nil => simp [Spec.lookup] at h
  | cons kv kvs ih =>
    obtain ⟨k', v'⟩ := kv
    simp only [Spec.lookup] at h
    split at h
    · simp only [Option.some.injEq] at h
      subst h; simp only [Fn.costK]; omega
    · have := ih h
      simp only [Fn.costK]; omega

end Jsonb
