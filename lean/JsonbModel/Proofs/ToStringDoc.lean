/-
C-text, part C (byte level): the walker `containerToString` over the README layout of a good
document prints exactly the tree rendering; hence `to_string` output is strict JSON denoting
the same document.
-/
import JsonbModel.Proofs.ToStringRender
import JsonbModel.Proofs.AccessRefine

namespace Jsonb
open Fn Strict JV

/-! ### `lit` computes -/

theorem toList_loop_eq (bs : ByteArray) (i : Nat) (r : List UInt8) :
    ByteArray.toList.loop bs i r = r.reverse ++ bs.data.toList.drop i := by
  fun_induction ByteArray.toList.loop bs i r with
  | case1 i r h ih =>
    rw [ih]
    have h' : i < bs.data.toList.length := by rw [Array.length_toList]; exact h
    have h'' : i < bs.data.size := h
    rw [List.drop_eq_getElem_cons h']
    have : bs.get! i = bs.data.toList[i] := by
      show bs.data[i]! = _
      rw [getElem!_pos bs.data i h'']
      simp
    simp [this]
  | case2 i r h =>
    have h' : bs.data.toList.length ≤ i := by rw [Array.length_toList]; exact Nat.le_of_not_lt h
    simp [List.drop_eq_nil_of_le h']

theorem byteArray_toList_eq (bs : ByteArray) : bs.toList = bs.data.toList := by
  simp [ByteArray.toList, toList_loop_eq]

theorem lit_eq (s : String) : lit s = s.toByteArray.data.toList := by
  simp [lit, byteArray_toList_eq]

theorem lit_null : lit "null" = [0x6E, 0x75, 0x6C, 0x6C] := by rw [lit_eq]; decide
theorem lit_true : lit "true" = [0x74, 0x72, 0x75, 0x65] := by rw [lit_eq]; decide
theorem lit_false : lit "false" = [0x66, 0x61, 0x6C, 0x73, 0x65] := by rw [lit_eq]; decide
theorem lit_lb : lit "[" = [0x5B] := by rw [lit_eq]; decide
theorem lit_lbn : lit "[\n" = [0x5B, 0x0A] := by rw [lit_eq]; decide
theorem lit_rb : lit "]" = [0x5D] := by rw [lit_eq]; decide
theorem lit_lc : lit "{" = [0x7B] := by rw [lit_eq]; decide
theorem lit_lcn : lit "{\n" = [0x7B, 0x0A] := by rw [lit_eq]; decide
theorem lit_rc : lit "}" = [0x7D] := by rw [lit_eq]; decide
theorem lit_comma : lit "," = [0x2C] := by rw [lit_eq]; decide
theorem lit_comman : lit ",\n" = [0x2C, 0x0A] := by rw [lit_eq]; decide
theorem lit_colon : lit ":" = [0x3A] := by rw [lit_eq]; decide
theorem lit_colons : lit ": " = [0x3A, 0x20] := by rw [lit_eq]; decide

/-! ### the text the walker prints, as a function of the tree (`p` = pretty) -/

mutual
def rd (fmt : Nat → Bytes) (p : Bool) : Nat → JV → Bytes
  | _, .null => [0x6E, 0x75, 0x6C, 0x6C]
  | _, .bool true => [0x74, 0x72, 0x75, 0x65]
  | _, .bool false => [0x66, 0x61, 0x6C, 0x73, 0x65]
  | _, .num n => numToString fmt n
  | _, .str s => quote s
  | ind, .arr vs =>
    (if p then [0x5B, 0x0A] else [0x5B]) ++ (rdL fmt p (ind + 2) 0 vs ++
      ((if p then 0x0A :: spaces ind else []) ++ [0x5D]))
  | ind, .obj kvs =>
    (if p then [0x7B, 0x0A] else [0x7B]) ++ (rdK fmt p (ind + 2) 0 kvs ++
      ((if p then 0x0A :: spaces ind else []) ++ [0x7D]))
def rdL (fmt : Nat → Bytes) (p : Bool) : Nat → Nat → List JV → Bytes
  | _, _, [] => []
  | ind, i, v :: vs =>
    (if i > 0 then (if p then [0x2C, 0x0A] else [0x2C]) else []) ++
      ((if p then spaces ind else []) ++ (rd fmt p ind v ++ rdL fmt p ind (i + 1) vs))
def rdK (fmt : Nat → Bytes) (p : Bool) : Nat → Nat → List (Bytes × JV) → Bytes
  | _, _, [] => []
  | ind, i, (k, v) :: kvs =>
    (if i > 0 then (if p then [0x2C, 0x0A] else [0x2C]) else []) ++
      ((if p then spaces ind else []) ++ (quote k ++ ((if p then [0x3A, 0x20] else [0x3A]) ++
        (rd fmt p ind v ++ rdK fmt p ind (i + 1) kvs))))
end

/-! ### the container arms, given their item loops -/

theorem container_arr (fmt : Nat → Bytes) (fuel : Nat) (a R : Bytes) (n : Nat) (p : Bool) (ind : Nat)
    (off : Nat) (hoff : off = a.length) (hn : n < 536870912) (body : Bytes)
    (h : arrayItems fmt fuel (a ++ (u32be (C.ARRAY_CONTAINER_TAG + n) ++ R)) n 0 (4 + off)
      (4 + off + 4 * n) p (ind + 2) = .ok body) :
    containerToString fmt (fuel + 1) (a ++ (u32be (C.ARRAY_CONTAINER_TAG + n) ++ R)) off p ind
      = .ok ((if p then [0x5B, 0x0A] else [0x5B]) ++ (body ++
          ((if p then 0x0A :: spaces ind else []) ++ [0x5D]))) := by
  simp only [containerToString, readU32At_mid a _ R off hoff (arr_header_lt n hn), hdrType_arr n hn,
    hdrLen_arr n hn, if_neg ne_arr_sca, if_true, h, lit_lb, lit_lbn, lit_rb, List.append_assoc]

theorem container_obj (fmt : Nat → Bytes) (fuel : Nat) (a post : Bytes) (kvs : List (Bytes × JV))
    (p : Bool) (ind : Nat) (off : Nat) (hoff : off = a.length) (hn : kvs.length < 536870912)
    (hg : goodK kvs = true) (body : Bytes)
    (h : objectItems fmt fuel (a ++ ((entry (obj kvs)).2 ++ post)) (kvs.map (fun kv => kv.1.length)) 0
      (4 + off + 8 * kvs.length) (4 + off + 4 * kvs.length) (4 + off + 8 * kvs.length + (keyBytes kvs).length)
      p (ind + 2) = .ok body) :
    containerToString fmt (fuel + 1) (a ++ ((entry (obj kvs)).2 ++ post)) off p ind
      = .ok ((if p then [0x7B, 0x0A] else [0x7B]) ++ (body ++
          ((if p then 0x0A :: spaces ind else []) ++ [0x7D]))) := by
  have hf := fillKeys_spec kvs hg (a ++ u32be (C.OBJECT_CONTAINER_TAG + kvs.length))
    (wordsK kvs ++ (keyBytes kvs ++ (paysK kvs ++ post))) (4 + off) (4 + off + 8 * kvs.length)
    (by simp; omega)
  have e1 : a ++ ((entry (obj kvs)).2 ++ post)
      = a ++ (u32be (C.OBJECT_CONTAINER_TAG + kvs.length) ++
          (keyWords kvs ++ (wordsK kvs ++ (keyBytes kvs ++ (paysK kvs ++ post))))) := by
    simp [entry]
  have e2 : a ++ (u32be (C.OBJECT_CONTAINER_TAG + kvs.length) ++
          (keyWords kvs ++ (wordsK kvs ++ (keyBytes kvs ++ (paysK kvs ++ post)))))
      = (a ++ u32be (C.OBJECT_CONTAINER_TAG + kvs.length)) ++
          (keyWords kvs ++ (wordsK kvs ++ (keyBytes kvs ++ (paysK kvs ++ post)))) := by simp
  rw [e1] at h ⊢
  simp only [containerToString, readU32At_mid a _ _ off hoff (obj_header_lt _ hn), hdrType_obj _ hn,
    hdrLen_obj _ hn, if_neg ne_obj_sca, if_neg ne_obj_arr, if_true]
  rw [e2, hf]
  simp only []
  rw [← e2, show 4 + off + 4 * kvs.length = 4 + off + 4 * kvs.length from rfl, h]
  simp only [lit_lc, lit_lcn, lit_rc, List.append_assoc]

/-! ### reading one stored value -/

theorem scalar_read (v : JV) (hl : elen v < 268435456) (pre mid post : Bytes) (jo : Nat)
    (hjo : jo = pre.length) :
    readU32At (pre ++ (u32be (entry v).1 ++ (mid ++ ((entry v).2 ++ post)))) jo = some (entry v).1 :=
  readU32At_mid pre _ _ jo hjo (entry_lt v hl)

theorem scalar_slice (v : JV) (pre mid post : Bytes) (vo : Nat) (hvo : vo = pre.length + 4 + mid.length) :
    slice (pre ++ (u32be (entry v).1 ++ (mid ++ ((entry v).2 ++ post)))) vo (vo + elen v)
      = .ok (entry v).2 := by
  have e : pre ++ (u32be (entry v).1 ++ (mid ++ ((entry v).2 ++ post)))
      = (pre ++ (u32be (entry v).1 ++ mid)) ++ ((entry v).2 ++ post) := by simp
  rw [e]
  exact slice_mid' _ _ _ vo (vo + elen v) (by simp; omega) (by simp [elen]; omega)

theorem numToString_norm (fmt : Nat → Bytes) (n : Num) (h : numOK fmt n) :
    numToString fmt (Num.norm n) = numToString fmt n := by
  cases n with
  | int i =>
    by_cases hi : i = 0
    · subst hi; simp [Num.norm, numToString, intDigits]
    · simp [Num.norm, hi]
  | uint n => rfl
  | float b => simp [Num.norm, h.1]

theorem res_map_ok {α β} (f : α → β) (a : α) : (Res.ok a).map f = .ok (f a) := rfl

/-! ### the walker prints `rd` -/

mutual
theorem scalar_spec (fmt : Nat → Bytes) (p : Bool) : (v : JV) → good v = true → fmtOK fmt v →
    (fuel : Nat) → szS v ≤ fuel → (pre mid post : Bytes) → (jo vo ind : Nat) →
    jo = pre.length → vo = pre.length + 4 + mid.length →
    scalarToString fmt fuel (pre ++ (u32be (entry v).1 ++ (mid ++ ((entry v).2 ++ post)))) jo vo p ind
      = .ok (rd fmt p ind v, elen v)
  | .null, hg, _, fuel, hf, pre, mid, post, jo, vo, ind, hjo, _ => by
    cases fuel with
    | zero => simp [szS] at hf
    | succ f =>
      have hl := elen_lt_of_good _ hg
      simp only [scalarToString, scalar_read _ hl pre mid post jo hjo, jeType_entry _ hl, jeLen_entry _ hl]
      simp [ety, lit_null, rd]
  | .bool b, hg, _, fuel, hf, pre, mid, post, jo, vo, ind, hjo, _ => by
    cases fuel with
    | zero => simp [szS] at hf
    | succ f =>
      have hl := elen_lt_of_good _ hg
      have c1 : ¬ C.TRUE_TAG = C.NULL_TAG := by decide
      have c2 : ¬ C.FALSE_TAG = C.NULL_TAG := by decide
      have c3 : ¬ C.FALSE_TAG = C.TRUE_TAG := by decide
      simp only [scalarToString, scalar_read _ hl pre mid post jo hjo, jeType_entry _ hl, jeLen_entry _ hl]
      cases b <;> simp [ety, lit_true, lit_false, rd, c1, c2, c3]
  | .num n, hg, hok, fuel, hf, pre, mid, post, jo, vo, ind, hjo, hvo => by
    cases fuel with
    | zero => simp [szS] at hf
    | succ f =>
      have hl := elen_lt_of_good _ hg
      have c1 : ¬ C.NUMBER_TAG = C.NULL_TAG := by decide
      have c2 : ¬ C.NUMBER_TAG = C.TRUE_TAG := by decide
      have c3 : ¬ C.NUMBER_TAG = C.FALSE_TAG := by decide
      simp only [good, decide_eq_true_eq] at hg
      simp only [fmtOK] at hok
      simp only [scalarToString, scalar_read _ hl pre mid post jo hjo, jeType_entry _ hl, jeLen_entry _ hl,
        scalar_slice _ pre mid post vo hvo]
      simp only [ety, c1, c2, c3, if_false, if_true, entry, Num.dec_enc n hg, numToString_norm fmt n hok, rd]
  | .str s, hg, _, fuel, hf, pre, mid, post, jo, vo, ind, hjo, hvo => by
    cases fuel with
    | zero => simp [szS] at hf
    | succ f =>
      have hl := elen_lt_of_good _ hg
      have c1 : ¬ C.STRING_TAG = C.NULL_TAG := by decide
      have c2 : ¬ C.STRING_TAG = C.TRUE_TAG := by decide
      have c3 : ¬ C.STRING_TAG = C.FALSE_TAG := by decide
      have c4 : ¬ C.STRING_TAG = C.NUMBER_TAG := by decide
      simp only [scalarToString, scalar_read _ hl pre mid post jo hjo, jeType_entry _ hl, jeLen_entry _ hl,
        escapeString, scalar_slice _ pre mid post vo hvo]
      simp only [ety, c1, c2, c3, c4, if_false, if_true, entry, rd, quote, res_map_ok]
  | .arr vs, hg, hok, fuel, hf, pre, mid, post, jo, vo, ind, hjo, hvo => by
    simp only [szS] at hf
    have hp := szL_pos vs
    match fuel, hf with
    | 0, hf => omega
    | 1, hf => omega
    | f + 2, hf =>
      have hl := elen_lt_of_good _ hg
      have c1 : ¬ C.CONTAINER_TAG = C.NULL_TAG := by decide
      have c2 : ¬ C.CONTAINER_TAG = C.TRUE_TAG := by decide
      have c3 : ¬ C.CONTAINER_TAG = C.FALSE_TAG := by decide
      have c4 : ¬ C.CONTAINER_TAG = C.NUMBER_TAG := by decide
      have c5 : ¬ C.CONTAINER_TAG = C.STRING_TAG := by decide
      simp only [scalarToString, scalar_read _ hl pre mid post jo hjo, jeType_entry _ hl, jeLen_entry _ hl]
      simp only [ety, c1, c2, c3, c4, c5, if_false, if_true]
      simp only [good, Bool.and_eq_true, decide_eq_true_eq] at hg
      simp only [fmtOK] at hok
      obtain ⟨⟨hn, _⟩, hgl⟩ := hg
      -- the nested container starts at `vo`
      have e1 : pre ++ (u32be (entry (arr vs)).1 ++ (mid ++ ((entry (arr vs)).2 ++ post)))
          = (pre ++ (u32be (entry (arr vs)).1 ++ mid)) ++
              (u32be (C.ARRAY_CONTAINER_TAG + vs.length) ++ (wordsL vs ++ (paysL vs ++ post))) := by
        simp [entry]
      have e2 : (pre ++ (u32be (entry (arr vs)).1 ++ mid)) ++
              (u32be (C.ARRAY_CONTAINER_TAG + vs.length) ++ (wordsL vs ++ (paysL vs ++ post)))
          = ((pre ++ (u32be (entry (arr vs)).1 ++ mid)) ++ u32be (C.ARRAY_CONTAINER_TAG + vs.length)) ++
              (wordsL vs ++ ([] ++ (paysL vs ++ post))) := by simp
      have hvo' : vo = (pre ++ (u32be (entry (arr vs)).1 ++ mid)).length := by simp; omega
      have ih := items_spec fmt p vs hgl hok f (by omega)
        ((pre ++ (u32be (entry (arr vs)).1 ++ mid)) ++ u32be (C.ARRAY_CONTAINER_TAG + vs.length)) [] post
        0 (4 + vo) (4 + vo + 4 * vs.length) (ind + 2) (by simp; omega) (by simp; omega)
      rw [← e2] at ih
      have hc := container_arr fmt f _ _ vs.length p ind vo hvo' hn _ ih
      rw [e1, hc]
      simp only [res_map_ok, rd]
  | .obj kvs, hg, hok, fuel, hf, pre, mid, post, jo, vo, ind, hjo, hvo => by
    simp only [szS] at hf
    have hp := szK_pos kvs
    match fuel, hf with
    | 0, hf => omega
    | 1, hf => omega
    | f + 2, hf =>
      have hl := elen_lt_of_good _ hg
      have c1 : ¬ C.CONTAINER_TAG = C.NULL_TAG := by decide
      have c2 : ¬ C.CONTAINER_TAG = C.TRUE_TAG := by decide
      have c3 : ¬ C.CONTAINER_TAG = C.FALSE_TAG := by decide
      have c4 : ¬ C.CONTAINER_TAG = C.NUMBER_TAG := by decide
      have c5 : ¬ C.CONTAINER_TAG = C.STRING_TAG := by decide
      simp only [scalarToString, scalar_read _ hl pre mid post jo hjo, jeType_entry _ hl, jeLen_entry _ hl]
      simp only [ety, c1, c2, c3, c4, c5, if_false, if_true]
      simp only [good, Bool.and_eq_true, decide_eq_true_eq] at hg
      simp only [fmtOK] at hok
      obtain ⟨⟨⟨hn, _⟩, _⟩, hgk⟩ := hg
      have e1 : pre ++ (u32be (entry (obj kvs)).1 ++ (mid ++ ((entry (obj kvs)).2 ++ post)))
          = (pre ++ (u32be (entry (obj kvs)).1 ++ mid)) ++ ((entry (obj kvs)).2 ++ post) := by simp
      have e2 : (pre ++ (u32be (entry (obj kvs)).1 ++ mid)) ++ ((entry (obj kvs)).2 ++ post)
          = (((pre ++ (u32be (entry (obj kvs)).1 ++ mid)) ++ u32be (C.OBJECT_CONTAINER_TAG + kvs.length)) ++ keyWords kvs) ++
              (wordsK kvs ++ ([] ++ (keyBytes kvs ++ ([] ++ (paysK kvs ++ post))))) := by
        simp [entry]
      have hvo' : vo = (pre ++ (u32be (entry (obj kvs)).1 ++ mid)).length := by simp; omega
      have ih := members_spec fmt p kvs hgk hok f (by omega)
        (((pre ++ (u32be (entry (obj kvs)).1 ++ mid)) ++ u32be (C.OBJECT_CONTAINER_TAG + kvs.length)) ++ keyWords kvs)
        [] [] post 0 (4 + vo + 8 * kvs.length) (4 + vo + 4 * kvs.length)
        (4 + vo + 8 * kvs.length + (keyBytes kvs).length) (ind + 2)
        (by simp [keyWords_length']; omega) (by simp [keyWords_length']; omega)
        (by simp [keyWords_length']; omega)
      rw [← e2] at ih
      have hc := container_obj fmt f _ post kvs p ind vo hvo' hn hgk _ ih
      rw [e1, hc]
      simp only [res_map_ok, rd]
theorem items_spec (fmt : Nat → Bytes) (p : Bool) : (vs : List JV) → goodL vs = true → fmtOKL fmt vs →
    (fuel : Nat) → szL vs ≤ fuel → (pre mid post : Bytes) → (i jo vo ind : Nat) →
    jo = pre.length → vo = pre.length + 4 * vs.length + mid.length →
    arrayItems fmt fuel (pre ++ (wordsL vs ++ (mid ++ (paysL vs ++ post)))) vs.length i jo vo p ind
      = .ok (rdL fmt p ind i vs)
  | [], _, _, fuel, hf, pre, mid, post, i, jo, vo, ind, _, _ => by
    cases fuel with
    | zero => simp [szL] at hf
    | succ f => simp [arrayItems, rdL]
  | v :: vs, hg, hok, fuel, hf, pre, mid, post, i, jo, vo, ind, hjo, hvo => by
    simp only [szL] at hf
    cases fuel with
    | zero => omega
    | succ f =>
      simp only [goodL, Bool.and_eq_true] at hg
      simp only [fmtOKL] at hok
      have hl := elen_lt_of_good v hg.1
      simp only [List.length_cons] at hvo
      have e1 : pre ++ (wordsL (v :: vs) ++ (mid ++ (paysL (v :: vs) ++ post)))
          = pre ++ (u32be (entry v).1 ++ ((wordsL vs ++ mid) ++ ((entry v).2 ++ (paysL vs ++ post)))) := by
        simp [wordsL, paysL]
      have e2 : pre ++ (u32be (entry v).1 ++ ((wordsL vs ++ mid) ++ ((entry v).2 ++ (paysL vs ++ post))))
          = (pre ++ u32be (entry v).1) ++ (wordsL vs ++ ((mid ++ (entry v).2) ++ (paysL vs ++ post))) := by
        simp
      have ih1 := scalar_spec fmt p v hg.1 hok.1 f (by omega) pre (wordsL vs ++ mid) (paysL vs ++ post)
        jo vo ind hjo (by simp [wordsL_length']; omega)
      have ih2 := items_spec fmt p vs hg.2 hok.2 f (by omega) (pre ++ u32be (entry v).1) (mid ++ (entry v).2)
        post (i + 1) (jo + 4) (vo + elen v) ind (by simp; omega) (by simp [elen]; omega)
      rw [← e2] at ih2
      rw [e1]
      simp only [List.length_cons, arrayItems, ih1, ih2]
      simp only [rdL, lit_comma, lit_comman, List.append_assoc]
theorem members_spec (fmt : Nat → Bytes) (p : Bool) : (kvs : List (Bytes × JV)) → goodK kvs = true →
    fmtOKK fmt kvs → (fuel : Nat) → szK kvs ≤ fuel → (pre kpre mid post : Bytes) →
    (i ko jo vo ind : Nat) → jo = pre.length → ko = pre.length + 4 * kvs.length + kpre.length →
    vo = pre.length + 4 * kvs.length + kpre.length + (keyBytes kvs).length + mid.length →
    objectItems fmt fuel (pre ++ (wordsK kvs ++ (kpre ++ (keyBytes kvs ++ (mid ++ (paysK kvs ++ post))))))
        (kvs.map (fun kv => kv.1.length)) i ko jo vo p ind
      = .ok (rdK fmt p ind i kvs)
  | [], _, _, fuel, hf, pre, kpre, mid, post, i, ko, jo, vo, ind, _, _, _ => by
    cases fuel with
    | zero => simp [szK] at hf
    | succ f => simp [objectItems, rdK]
  | (k, v) :: kvs, hg, hok, fuel, hf, pre, kpre, mid, post, i, ko, jo, vo, ind, hjo, hko, hvo => by
    simp only [szK] at hf
    cases fuel with
    | zero => omega
    | succ f =>
      simp only [goodK, Bool.and_eq_true, decide_eq_true_eq] at hg
      simp only [fmtOKK] at hok
      have hl := elen_lt_of_good v hg.1.2
      simp only [List.length_cons, keyBytes, List.length_append] at hko hvo
      have e0 : pre ++ (wordsK ((k, v) :: kvs) ++ (kpre ++ (keyBytes ((k, v) :: kvs) ++ (mid ++ (paysK ((k, v) :: kvs) ++ post)))))
          = (pre ++ (u32be (entry v).1 ++ (wordsK kvs ++ kpre))) ++ (k ++ (keyBytes kvs ++ (mid ++ ((entry v).2 ++ (paysK kvs ++ post))))) := by
        simp [wordsK, keyBytes, paysK]
      have e1 : (pre ++ (u32be (entry v).1 ++ (wordsK kvs ++ kpre))) ++ (k ++ (keyBytes kvs ++ (mid ++ ((entry v).2 ++ (paysK kvs ++ post)))))
          = pre ++ (u32be (entry v).1 ++ ((wordsK kvs ++ (kpre ++ (k ++ (keyBytes kvs ++ mid)))) ++ ((entry v).2 ++ (paysK kvs ++ post)))) := by
        simp
      have e2 : pre ++ (u32be (entry v).1 ++ ((wordsK kvs ++ (kpre ++ (k ++ (keyBytes kvs ++ mid)))) ++ ((entry v).2 ++ (paysK kvs ++ post))))
          = (pre ++ u32be (entry v).1) ++ (wordsK kvs ++ ((kpre ++ k) ++ (keyBytes kvs ++ ((mid ++ (entry v).2) ++ (paysK kvs ++ post))))) := by
        simp
      have hk : slice ((pre ++ (u32be (entry v).1 ++ (wordsK kvs ++ kpre))) ++ (k ++ (keyBytes kvs ++ (mid ++ ((entry v).2 ++ (paysK kvs ++ post))))))
          ko (ko + k.length) = .ok k :=
        slice_mid' _ _ _ ko (ko + k.length) (by simp [wordsK_length']; omega) (by simp [wordsK_length']; omega)
      have ih1 := scalar_spec fmt p v hg.1.2 hok.1 f (by omega) pre (wordsK kvs ++ (kpre ++ (k ++ (keyBytes kvs ++ mid))))
        (paysK kvs ++ post) jo vo ind hjo (by simp [wordsK_length']; omega)
      have ih2 := members_spec fmt p kvs hg.2 hok.2 f (by omega) (pre ++ u32be (entry v).1) (kpre ++ k)
        (mid ++ (entry v).2) post (i + 1) (ko + k.length) (jo + 4) (vo + elen v) ind
        (by simp; omega) (by simp; omega) (by simp [elen]; omega)
      rw [← e2, ← e1] at ih2
      rw [← e1] at ih1
      rw [e0]
      simp only [List.map_cons, objectItems, escapeString, hk, ih1, ih2]
      simp only [rdK, quote, lit_comma, lit_comman,
        lit_colon, lit_colons, List.append_assoc, List.cons_append, List.nil_append]
end

/-! ### whole documents -/

theorem containerToString_scalarDoc (fmt : Nat → Bytes) (p : Bool) (v : JV) (hg : good v = true)
    (hok : fmtOK fmt v) (fuel : Nat) (hf : szS v + 1 ≤ fuel) :
    containerToString fmt fuel (u32be C.SCALAR_CONTAINER_TAG ++ (u32be (entry v).1 ++ (entry v).2)) 0 p 0
      = .ok (rd fmt p 0 v) := by
  match fuel, hf with
  | f + 1, hf =>
    have ih := scalar_spec fmt p v hg hok f (by omega) (u32be C.SCALAR_CONTAINER_TAG) [] [] 4 8 0
      (by simp) (by simp)
    simp only [List.nil_append, List.append_nil] at ih
    simp only [containerToString, readU32At_zero _ _ (by decide : C.SCALAR_CONTAINER_TAG < 4294967296),
      hdrType_sca, if_true, Nat.add_zero, ih, res_map_ok]

/-- **C.5, second half**: on the README layout of a good document the walker prints the tree
rendering (compact for `p = false`, indented for `p = true`); no error, no panic, enough fuel -/
theorem toStringDoc_rd (fmt : Nat → Bytes) (p : Bool) (v : JV) (hg : goodTop v = true) (hok : fmtOK fmt v) :
    toStringDoc fmt p (encodeSpec v) = .ok (rd fmt p 0 v) := by
  have key : containerToString fmt (2 * (encodeSpec v).length + 8) (encodeSpec v) 0 p 0 = .ok (rd fmt p 0 v) := by
    cases v with
    | arr vs =>
      simp only [goodTop, Bool.and_eq_true, decide_eq_true_eq] at hg
      simp only [fmtOK] at hok
      have hsz := szL_le vs
      have hlen : (encodeSpec (arr vs)).length = 4 + 4 * vs.length + (paysL vs).length := by
        simp [encodeSpec, entry, wordsL_length]; omega
      rw [hlen, show 2 * (4 + 4 * vs.length + (paysL vs).length) + 8
        = (2 * (4 + 4 * vs.length + (paysL vs).length) + 7) + 1 by omega]
      have ih := items_spec fmt p vs hg.2 hok (2 * (4 + 4 * vs.length + (paysL vs).length) + 7) (by omega)
        (u32be (C.ARRAY_CONTAINER_TAG + vs.length)) [] [] 0 (4 + 0) (4 + 0 + 4 * vs.length) (0 + 2)
        (by simp) (by simp)
      have e : u32be (C.ARRAY_CONTAINER_TAG + vs.length) ++ (wordsL vs ++ ([] ++ (paysL vs ++ [])))
          = [] ++ (u32be (C.ARRAY_CONTAINER_TAG + vs.length) ++ (wordsL vs ++ paysL vs)) := by simp
      rw [e] at ih
      have hc := container_arr fmt _ [] _ vs.length p 0 0 rfl hg.1 _ ih
      simp only [List.nil_append] at hc
      simp only [encodeSpec, entry, hc, rd]
    | obj kvs =>
      simp only [goodTop, Bool.and_eq_true, decide_eq_true_eq] at hg
      simp only [fmtOK] at hok
      have hsz := szK_le kvs
      have hlen : (encodeSpec (obj kvs)).length
          = 4 + 8 * kvs.length + (keyBytes kvs).length + (paysK kvs).length := by
        simp [encodeSpec, entry, wordsK_length, keyWords_length]; omega
      rw [hlen, show 2 * (4 + 8 * kvs.length + (keyBytes kvs).length + (paysK kvs).length) + 8
        = (2 * (4 + 8 * kvs.length + (keyBytes kvs).length + (paysK kvs).length) + 7) + 1 by omega]
      have ih := members_spec fmt p kvs hg.2 hok
        (2 * (4 + 8 * kvs.length + (keyBytes kvs).length + (paysK kvs).length) + 7) (by omega)
        (u32be (C.OBJECT_CONTAINER_TAG + kvs.length) ++ keyWords kvs) [] [] [] 0
        (4 + 0 + 8 * kvs.length) (4 + 0 + 4 * kvs.length) (4 + 0 + 8 * kvs.length + (keyBytes kvs).length) (0 + 2)
        (by simp [keyWords_length']; omega) (by simp [keyWords_length']; omega)
        (by simp [keyWords_length']; omega)
      have e : (u32be (C.OBJECT_CONTAINER_TAG + kvs.length) ++ keyWords kvs) ++
            (wordsK kvs ++ ([] ++ (keyBytes kvs ++ ([] ++ (paysK kvs ++ [])))))
          = [] ++ ((entry (obj kvs)).2 ++ []) := by simp [entry]
      rw [e] at ih
      have hc := container_obj fmt _ [] [] kvs p 0 0 rfl hg.1.1 hg.2 _ ih
      simp only [List.nil_append, List.append_nil] at hc
      simp only [encodeSpec, hc, rd]
    | null =>
      exact containerToString_scalarDoc fmt p _ hg hok _ (by simp [szS])
    | bool b =>
      exact containerToString_scalarDoc fmt p _ hg hok _ (by simp [szS])
    | num n =>
      exact containerToString_scalarDoc fmt p _ hg hok _ (by simp [szS])
    | str s =>
      exact containerToString_scalarDoc fmt p _ hg hok _ (by simp [szS])
  simp only [toStringDoc, key]

/-! ### compact mode is `render` -/

/-- a separator followed by the remaining elements -/
def commaL (fmt : Nat → Bytes) : List JV → Bytes
  | [] => []
  | v :: vs => 0x2C :: renderL fmt (v :: vs)
def commaK (fmt : Nat → Bytes) : List (Bytes × JV) → Bytes
  | [] => []
  | kv :: kvs => 0x2C :: renderK fmt (kv :: kvs)

theorem renderL_cons (fmt : Nat → Bytes) (v : JV) (vs : List JV) :
    renderL fmt (v :: vs) = render fmt v ++ commaL fmt vs := by
  cases vs with
  | nil => simp [renderL, commaL]
  | cons v' vs => simp [renderL, commaL]

theorem renderK_cons (fmt : Nat → Bytes) (k : Bytes) (v : JV) (kvs : List (Bytes × JV)) :
    renderK fmt ((k, v) :: kvs) = quote k ++ 0x3A :: (render fmt v ++ commaK fmt kvs) := by
  cases kvs with
  | nil => simp [renderK, commaK]
  | cons kv' kvs => simp [renderK, commaK]

mutual
theorem rd_compact (fmt : Nat → Bytes) : (v : JV) → (ind : Nat) → rd fmt false ind v = render fmt v
  | .null, _ => by simp [rd, render]
  | .bool b, _ => by cases b <;> simp [rd, render]
  | .num n, _ => by simp [rd, render]
  | .str s, _ => by simp [rd, render]
  | .arr vs, ind => by
    cases vs with
    | nil => simp [rd, rdL, render, renderL]
    | cons v vs =>
      have h1 := rd_compact fmt v (ind + 2)
      have h2 := rdL_compact fmt vs (ind + 2) 0
      simp [rd, rdL, render, renderL_cons, h1, h2]
  | .obj kvs, ind => by
    cases kvs with
    | nil => simp [rd, rdK, render, renderK]
    | cons kv kvs =>
      obtain ⟨k, v⟩ := kv
      have h1 := rd_compact fmt v (ind + 2)
      have h2 := rdK_compact fmt kvs (ind + 2) 0
      simp [rd, rdK, render, renderK_cons, h1, h2]
theorem rdL_compact (fmt : Nat → Bytes) : (vs : List JV) → (ind i : Nat) →
    rdL fmt false ind (i + 1) vs = commaL fmt vs
  | [], _, _ => by simp [rdL, commaL]
  | v :: vs, ind, i => by
    have h1 := rd_compact fmt v ind
    have h2 := rdL_compact fmt vs ind (i + 1)
    rw [rdL, h1, h2, commaL, renderL_cons]
    simp
theorem rdK_compact (fmt : Nat → Bytes) : (kvs : List (Bytes × JV)) → (ind i : Nat) →
    rdK fmt false ind (i + 1) kvs = commaK fmt kvs
  | [], _, _ => by simp [rdK, commaK]
  | (k, v) :: kvs, ind, i => by
    have h1 := rd_compact fmt v ind
    have h2 := rdK_compact fmt kvs ind (i + 1)
    rw [rdK, h1, h2, commaK, renderK_cons]
    simp
end

/-- `to_string` on the encoding of a good document prints the canonical compact rendering -/
theorem toStringDoc_render (fmt : Nat → Bytes) (v : JV) (hg : goodTop v = true) (hok : fmtOK fmt v) :
    toStringDoc fmt false (encodeSpec v) = .ok (render fmt v) := by
  rw [toStringDoc_rd fmt false v hg hok, rd_compact]

/-- **C.5** `to_string` output is strict RFC 8259 JSON denoting the same document -/
theorem strict_toString (fmt : Nat → Bytes) (v : JV) (hg : goodTop v = true) (hok : fmtOK fmt v) :
    ∃ text v', toStringDoc fmt false (encodeSpec v) = .ok text ∧ Strict.parse text = some v' ∧
      Spec.valEq v' v = true ∧ (Driver.allUnsigned v = true → v' = v) :=
  ⟨render fmt v, reparse v, toStringDoc_render fmt v hg hok, parse_render fmt v hg hok,
    valEq_reparse v, reparse_allUnsigned v⟩

/-- **C.6** with non-negative integers stored unsigned, re-encoding the parsed text gives the
original bytes -/
theorem reencode_toString (fmt : Nat → Bytes) (v : JV) (hg : goodTop v = true) (hok : fmtOK fmt v)
    (hu : Driver.allUnsigned v = true) :
    ∃ text v', toStringDoc fmt false (encodeSpec v) = .ok text ∧ Strict.parse text = some v' ∧
      encodeSpec v' = encodeSpec v :=
  ⟨render fmt v, reparse v, toStringDoc_render fmt v hg hok, parse_render fmt v hg hok,
    by rw [reparse_allUnsigned v hu]⟩

/-! ### discharging `fmtOK` from the per-instance check of the driver -/

theorem isNaN_of_isFinite (b : Nat) (h : F64.isFinite b = true) : F64.isNaN b = false := by
  simp only [F64.isFinite, bne_iff_ne, ne_eq] at h
  simp [F64.isNaN, h]

/-- what `Driver.goodFmt` establishes for every float present in the table -/
theorem fmtOf_good (tbl : List (Nat × Bytes)) (hg : Driver.goodFmt tbl = true) (b : Nat)
    (hm : (tbl.find? (fun p => p.1 == b)).isSome = true) :
    number (Driver.fmtOf tbl b) = some (.float b, []) := by
  cases hf : tbl.find? (fun p => p.1 == b) with
  | none => simp [hf] at hm
  | some p =>
    have hmem := List.mem_of_find?_eq_some hf
    have hb : (p.1 == b) = true := List.find?_some (p := fun (p : Nat × Bytes) => p.1 == b) hf
    simp only [beq_iff_eq] at hb
    simp only [Driver.goodFmt, List.all_eq_true] at hg
    have := hg p hmem
    simp only [Driver.fmtOf, hf]
    split at this
    · rename_i b' heq
      simp only [beq_iff_eq] at this
      rw [heq, this, hb]
    · exact absurd this (by simp)

end Jsonb
