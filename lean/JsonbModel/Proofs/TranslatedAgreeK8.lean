/-
Agreement theorems, phase 7, part 8: `concat_values` (the `match (left, right)` on two `Value`s, `Vec::append`,
`BTreeMap::append`) = the tree function `Spec.concat`, and the whole public `concat` (`from_slice` of BOTH arguments with its
text fallback, `concat_values`, `write_to_vec`) = the model's `T.concat`.
-/
import JsonbModel.Proofs.TranslatedAgreeK5

set_option linter.unusedSimpArgs false
set_option linter.unusedVariables false
set_option linter.unreachableTactic false
set_option linter.unusedTactic false

namespace Jsonb.TrAgree
open Jsonb.Rs

/-- `a.append(&mut b)` on maps = the model's fold of `insertKV` -/
theorem btreeAppend_agrees : ∀ (r l : List (Bytes × JV)),
    Rs.btreeAppend (ofKVs l) (ofKVs r) = ofKVs (r.foldl (fun m kv => insertKV kv.1 kv.2 m) l)
  | [], l => rfl
  | (k, v) :: r, l => by
    have ih := btreeAppend_agrees r (insertKV k v l)
    unfold Rs.btreeAppend at ih ⊢
    simp only [ofKVs, List.foldl_cons, btreeInsert_agrees]
    exact ih

/-- `Vec::with_capacity(right.len() + 1)` of `Value`s (32 bytes each) -/
theorem concat_cap (rs : List JV) (h : (rs.length + 1) * 32 ≤ 9223372036854775807) :
    Rs.add .usize (Rs.len (ofJVs rs)) (1 : Int) = .ok ((rs.length + 1 : Nat) : Int) ∧
      Rs.vecWithCapacity Tr.Value 32 ((rs.length + 1 : Nat) : Int) = .ok [] := by
  refine ⟨?_, vecWithCapacity_ok _ _ _ h⟩
  rw [Rs.len, ofJVs_length]
  have hin : IntTy.usize.InRange ((rs.length : Int) + 1) := by
    rw [Rs.inRange_iff, Rs.minVal_usize, Rs.maxVal_usize]; omega
  rw [Rs.add_ok .usize (rs.length : Int) 1 hin]; push_cast; rfl

/-- **`concat_values`**; `hcap`: `Vec::with_capacity(right.len() + 1)` does not hit `capacity overflow` -/
theorem concat_values_agrees (l r : JV) (hcap : ∀ rs, r = .arr rs → (rs.length + 1) * 32 ≤ 9223372036854775807) :
    Tr.concat_values (ofJV l) (ofJV r) = .ok (ofJV (Spec.concat l r)) := by
  cases r with
  | arr rs =>
    obtain ⟨h1, h2⟩ := concat_cap rs (hcap rs rfl)
    cases l <;> simp only [ofJV] <;> unfold Tr.concat_values <;> dsimp only <;>
      simp only [h1, h2, Ctl.ofRes_ok', Ctl.val_bind', Ctl.run_ret', Rs.vecPush, Rs.vecAppend7, Spec.concat, ofJV, ofJVs,
        ofJVs_append, List.nil_append, List.cons_append, List.singleton_append]
  | obj rkvs =>
    cases l <;> simp only [ofJV] <;> unfold Tr.concat_values <;> dsimp only <;>
      simp only [Ctl.ofRes_ok', Ctl.val_bind', Ctl.run_ret', Rs.vecPush, btreeAppend_agrees, Spec.concat, ofJV, ofJVs, ofJVs_append]
  | null =>
    cases l <;> simp only [ofJV] <;> unfold Tr.concat_values <;> dsimp only <;>
      simp only [Ctl.ofRes_ok', Ctl.val_bind', Ctl.run_ret', Rs.vecPush, Spec.concat, ofJV, ofJVs, ofJVs_append]
  | bool b =>
    cases l <;> simp only [ofJV] <;> unfold Tr.concat_values <;> dsimp only <;>
      simp only [Ctl.ofRes_ok', Ctl.val_bind', Ctl.run_ret', Rs.vecPush, Spec.concat, ofJV, ofJVs, ofJVs_append]
  | num n =>
    cases l <;> simp only [ofJV] <;> unfold Tr.concat_values <;> dsimp only <;>
      simp only [Ctl.ofRes_ok', Ctl.val_bind', Ctl.run_ret', Rs.vecPush, Spec.concat, ofJV, ofJVs, ofJVs_append]
  | str s =>
    cases l <;> simp only [ofJV] <;> unfold Tr.concat_values <;> dsimp only <;>
      simp only [Ctl.ofRes_ok', Ctl.val_bind', Ctl.run_ret', Rs.vecPush, Spec.concat, ofJV, ofJVs, ofJVs_append]

/-- what the text branch of `concat` needs: the decoder / parser theorems' fuel for BOTH arguments (`from_slice` tries the
binary decoder first, on ANY error the text parser), and the concatenated value inside the domain of the encoder theorem -/
structure ConcatTextOK (fuel : Nat) (left right buf : Bytes) : Prop where
  llen : left.length < 9223372036854775808
  rlen : right.length < 9223372036854775808
  lfuel : decFuel left < fuel ∧ JP.fuelFor left ≤ fuel
  rfuel : decFuel right < fuel ∧ JP.fuelFor right ≤ fuel
  val : ∀ l r, T.fromSlice left = .ok l → T.fromSlice right = .ok r →
    (∀ rs, r = .arr rs → (rs.length + 1) * 32 ≤ 9223372036854775807) ∧ numsWF (Spec.concat l r) ∧
      2 * depth (Spec.concat l r) < fuel ∧ buf.length + 8 + encSize (Spec.concat l r) < 18446744073709551616

/-- **`concat`**, the whole public function; modulo the texts of panics, as the `_jsonb` half (phase 4) -/
theorem concat_whole (left right buf : Bytes) (fuel : Nat) (hfuel : 536870913 < fuel)
    (hl : left.length < 1152921504606846976) (hr : right.length < 1152921504606846976)
    (hb : buf.length < 1152921504606846976)
    (ht : (isJsonb left && isJsonb right) = false → ConcatTextOK fuel left right buf) :
    panicAny (Tr.Whole.concat fuel left right buf) = panicAny (T.concat left right buf) := by
  unfold Tr.Whole.concat T.concat
  simp only [is_jsonb_agrees, Ctl.ofRes_ok', Ctl.val_bind']
  have hcond : ∀ x : Ctl Bytes Bool,
      (x = if (!isJsonb left) = true then (pure true : Ctl Bytes Bool) else pure (!isJsonb right)) ∨
        (x = if (!isJsonb right) = true then (pure true : Ctl Bytes Bool) else pure (!isJsonb left)) →
      x = Ctl.val (!isJsonb left || !isJsonb right) := by
    intro x hx
    rcases hx with hx | hx <;> subst hx <;> cases isJsonb left <;> cases isJsonb right <;> rfl
  first
    | rw [hcond _ (Or.inl rfl)]
    | rw [hcond _ (Or.inr rfl)]
  simp only [Ctl.val_bind']
  cases hc : (!isJsonb left || !isJsonb right)
  · -- both JSONB
    simp only [Bool.false_eq_true, if_false, Ctl.pure_eq', Ctl.val_bind']
    have h := concat_jsonb_agrees left right buf fuel hfuel hl hr hb
    revert h
    cases Tr.concat_jsonb fuel left right buf <;> exact fun h => h
  · have hc' : (isJsonb left && isJsonb right) = false := by
      clear hcond ht
      revert hc
      cases isJsonb left <;> cases isJsonb right <;> simp
    obtain ⟨h1, h2, ⟨h3, h3'⟩, ⟨h4, h4'⟩, hval⟩ := ht hc'
    simp only [if_true]
    rw [from_slice_text_whole left h1 fuel fuel h3 h3', from_slice_text_whole right h2 fuel fuel h4 h4']
    cases hfl : T.fromSlice left with
    | ok l =>
      simp only [Res.map, Res.bind, Ctl.ofRes_ok', Ctl.val_bind']
      cases hfr : T.fromSlice right with
      | ok r =>
        obtain ⟨hcap, hwf, hdep, hsz⟩ := hval l r hfl hfr
        simp only [Res.map, Res.bind, Ctl.ofRes_ok', Ctl.val_bind']
        rw [concat_values_agrees l r hcap]
        simp only [Ctl.ofRes_ok', Ctl.val_bind']
        rw [write_to_vec_agrees (Spec.concat l r) buf fuel hdep hwf hsz]
        congr 1
        cases writeToVec buf (Spec.concat l r) <;> rfl
      | err e => rfl
      | panic s => rfl
      | fuel => rfl
    | err e => rfl
    | panic s => rfl
    | fuel => rfl

end Jsonb.TrAgree
