/-
Phase 6c, editors: the `strip_nulls` family.  I15: the builders the model returns are inside the Rust domain of
`build_into` (every raw entry fits a `JEntry`, no running length overflows, nesting bounded by the fuel);
`strip_nulls_jsonb` against `Fn.stripNulls`; the corollary on the encodings of good documents.
-/
import JsonbModel.Proofs.TranslatedAgreeI14
import JsonbModel.Proofs.StripRefine

set_option linter.unusedSimpArgs false
set_option linter.unusedVariables false

namespace Jsonb.TrAgree
open Jsonb.Rs

/-! ## bounds on the builders of the model -/

theorem bspec_len_lt (e : BEntry) (hf : fitsB e) : (bspec e).2.1 % 4294967296 < 4294967296 := Nat.mod_lt _ (by omega)

theorem bsizeL_le : ∀ (es : List BEntry), bsizeL es ≤ es.length * 4294967296
  | [] => by simp [bsizeL]
  | e :: es => by
    have := bsizeL_le es
    have h2 : (bspec e).2.1 % 4294967296 < 4294967296 := Nat.mod_lt _ (by omega)
    simp only [bsizeL, List.length_cons]
    omega

theorem bsizeK_le : ∀ (kvs : List (Bytes × BEntry)), bsizeK kvs ≤ kvs.length * 4294967296
  | [] => by simp [bsizeK]
  | (k, e) :: kvs => by
    have := bsizeK_le kvs
    have h2 : (bspec e).2.1 % 4294967296 < 4294967296 := Nat.mod_lt _ (by omega)
    simp only [bsizeK, List.length_cons]
    omega

theorem fitsBL_append (a b : List BEntry) : fitsBL (a ++ b) ↔ fitsBL a ∧ fitsBL b := by
  induction a with
  | nil => simp [fitsBL]
  | cons e es ih => simp only [List.cons_append, fitsBL, ih, and_assoc]

theorem bdepthL_cons_le (e : BEntry) (es : List BEntry) (d : Nat) (h1 : bdepth e ≤ d) (h2 : bdepthL es ≤ d) :
    bdepthL (e :: es) ≤ d := by
  simp only [bdepthL]; omega

/-- `insert` of any entry: the measures of the map grow by at most the inserted member -/
theorem bInsert_gen (k : Bytes) (e : BEntry) (d : Nat) (hf : fitsB e) (hd : bdepth e ≤ d) :
    ∀ (m : List (Bytes × BEntry)), fitsBK m → bdepthK m ≤ d →
    fitsBK (bInsert k e m) ∧ (bInsert k e m).length ≤ m.length + 1 ∧
      keySum (bInsert k e m) ≤ keySum m + k.length ∧ bdepthK (bInsert k e m) ≤ d
  | [], _, _ => by simp [bInsert, fitsBK, hf, keySum, bdepthK]; omega
  | (k', e') :: rest, h, hdm => by
    simp only [fitsBK] at h
    simp only [bdepthK] at hdm
    obtain ⟨i1, i2, i3, i4⟩ := bInsert_gen k e d hf hd rest h.2 (by omega)
    simp only [bInsert]
    cases lexCmp k k' with
    | lt => simp only [fitsBK, keySum, bdepthK, List.length_cons]; exact ⟨⟨hf, h.1, h.2⟩, by omega, by omega, by omega⟩
    | eq => simp only [fitsBK, keySum, bdepthK, List.length_cons]; exact ⟨⟨hf, h.2⟩, by omega, by omega, by omega⟩
    | gt =>
      simp only [fitsBK, keySum, bdepthK, List.length_cons]
      exact ⟨⟨h.1, i1⟩, by omega, by omega, by omega⟩

/-- what is known of the builders the model returns with fuel `f` -/
def StripBounds (f : Nat) : Prop :=
  ∀ (h : Nat) (value : Bytes), value.length < 1152921504606846976 →
    (∀ m, Fn.stripObject f h value = .ok m → fitsB (.obj m) ∧ bdepthK m ≤ f) ∧
    (∀ es, Fn.stripArray f h value = .ok es → fitsB (.arr es) ∧ bdepthL es ≤ f)

theorem stripHead_bounds (f : Nat) (IH : ∀ f', f' ≤ f → StripBounds f') (x : JE × Bytes) (hx : x.2.length < 1152921504606846976)
    (hj : JEFits x.1) (e : BEntry)
    (h : stripHeadOf (fun ih => Fn.stripObject f ih x.2) (fun ih => Fn.stripArray f ih x.2) x = .ok e) :
    fitsB e ∧ bdepth e ≤ f + 1 := by
  unfold stripHeadOf at h
  split at h
  · cases hr : readU32At x.2 0 with
    | none => rw [hr] at h; cases h
    | some ih =>
      rw [hr] at h
      dsimp only at h
      split at h
      · cases hm : Fn.stripObject f ih x.2 with
        | ok m =>
          rw [hm] at h
          simp only [Res.map, Res.bind, Res.ok.injEq] at h
          subst h
          obtain ⟨a, b⟩ := ((IH f (Nat.le_refl _)) ih x.2 hx).1 m hm
          exact ⟨a, by simp only [bdepth]; omega⟩
        | err e' => rw [hm] at h; cases h
        | panic s => rw [hm] at h; cases h
        | fuel => rw [hm] at h; cases h
      · split at h
        · cases hm : Fn.stripArray f ih x.2 with
          | ok es =>
            rw [hm] at h
            simp only [Res.map, Res.bind, Res.ok.injEq] at h
            subst h
            obtain ⟨a, b⟩ := ((IH f (Nat.le_refl _)) ih x.2 hx).2 es hm
            exact ⟨a, by simp only [bdepth]; omega⟩
          | err e' => rw [hm] at h; cases h
          | panic s => rw [hm] at h; cases h
          | fuel => rw [hm] at h; cases h
        · cases h
  · simp only [Res.ok.injEq] at h
    subst h
    exact ⟨hj, by simp [bdepth]⟩

theorem stripItems_bounds : ∀ (items : List (JE × Bytes)) (f : Nat), (∀ f', f' < f → StripBounds f') →
    (∀ x ∈ items, JEFits x.1 ∧ x.2.length < 1152921504606846976) →
    ∀ es, Fn.stripItems f items = .ok es → fitsBL es ∧ es.length = items.length ∧ bdepthL es ≤ f
  | [], f, _, _, es, h => by
    cases f with
    | zero => simp [Fn.stripItems] at h
    | succ f =>
      simp only [Fn.stripItems, Res.ok.injEq] at h
      subst h
      simp [fitsBL, bdepthL]
  | x :: items, f, IH, hb, es, h => by
    cases f with
    | zero => simp [Fn.stripItems] at h
    | succ f =>
      rw [stripItems_cons] at h
      have hx := hb x List.mem_cons_self
      cases hm : stripHeadOf (fun ih => Fn.stripObject f ih x.2) (fun ih => Fn.stripArray f ih x.2) x with
      | ok e =>
        rw [hm] at h
        dsimp only at h
        cases hr : Fn.stripItems f items with
        | ok rest =>
          rw [hr] at h
          simp only [Res.map, Res.bind, Res.ok.injEq] at h
          subst h
          obtain ⟨a1, a2⟩ := stripHead_bounds f (fun f' hf' => IH f' (by omega)) x hx.2 hx.1 e hm
          obtain ⟨b1, b2, b3⟩ := stripItems_bounds items f (fun f' hf' => IH f' (by omega))
            (fun y hy => hb y (List.mem_cons_of_mem _ hy)) rest hr
          exact ⟨⟨a1, b1⟩, by simp [b2], bdepthL_cons_le e rest (f + 1) a2 (by omega)⟩
        | err e' => rw [hr] at h; cases h
        | panic s => rw [hr] at h; cases h
        | fuel => rw [hr] at h; cases h
      | err e' => rw [hm] at h; cases h
      | panic s => rw [hm] at h; cases h
      | fuel => rw [hm] at h; cases h

theorem stripMember_bounds (f : Nat) (IH : ∀ f', f' ≤ f → StripBounds f') (m : Bytes × JE × Bytes)
    (hx : m.2.2.length < 1152921504606846976) (hj : JEFits m.2.1) (acc acc' : List (Bytes × BEntry))
    (hacc : fitsBK acc) (hd : bdepthK acc ≤ f + 1)
    (h : stripMemberOf (fun ih => Fn.stripObject f ih m.2.2) (fun ih => Fn.stripArray f ih m.2.2) m acc = .ok acc') :
    fitsBK acc' ∧ acc'.length ≤ acc.length + 1 ∧ keySum acc' ≤ keySum acc + m.1.length ∧ bdepthK acc' ≤ f + 1 := by
  unfold stripMemberOf at h
  split at h
  · cases hr : readU32At m.2.2 0 with
    | none => rw [hr] at h; cases h
    | some ih =>
      rw [hr] at h
      dsimp only at h
      split at h
      · cases hm : Fn.stripObject f ih m.2.2 with
        | ok s =>
          rw [hm] at h
          simp only [Res.map, Res.bind, Res.ok.injEq] at h
          subst h
          obtain ⟨a, b⟩ := ((IH f (Nat.le_refl _)) ih m.2.2 hx).1 s hm
          exact bInsert_gen m.1 (.obj s) (f + 1) a (by simp only [bdepth]; omega) acc hacc hd
        | err e' => rw [hm] at h; cases h
        | panic s => rw [hm] at h; cases h
        | fuel => rw [hm] at h; cases h
      · split at h
        · cases hm : Fn.stripArray f ih m.2.2 with
          | ok es =>
            rw [hm] at h
            simp only [Res.map, Res.bind, Res.ok.injEq] at h
            subst h
            obtain ⟨a, b⟩ := ((IH f (Nat.le_refl _)) ih m.2.2 hx).2 es hm
            exact bInsert_gen m.1 (.arr es) (f + 1) a (by simp only [bdepth]; omega) acc hacc hd
          | err e' => rw [hm] at h; cases h
          | panic s => rw [hm] at h; cases h
          | fuel => rw [hm] at h; cases h
        · cases h
  · split at h
    · simp only [Res.ok.injEq] at h
      subst h
      exact ⟨hacc, by omega, by omega, hd⟩
    · simp only [Res.ok.injEq] at h
      subst h
      exact bInsert_gen m.1 (.raw m.2.1.ty m.2.1.len m.2.2) (f + 1) hj (by simp [bdepth]) acc hacc hd

theorem stripMembers_bounds : ∀ (ms : List (Bytes × JE × Bytes)) (f : Nat), (∀ f', f' < f → StripBounds f') →
    (∀ x ∈ ms, JEFits x.2.1 ∧ x.2.2.length < 1152921504606846976) →
    ∀ (acc r : List (Bytes × BEntry)), fitsBK acc → bdepthK acc ≤ f → Fn.stripMembers f ms acc = .ok r →
    fitsBK r ∧ r.length ≤ acc.length + ms.length ∧ keySum r ≤ keySum acc + mKeySum ms ∧ bdepthK r ≤ f
  | [], f, _, _, acc, r, hacc, hd, h => by
    cases f with
    | zero => simp [Fn.stripMembers] at h
    | succ f =>
      simp only [Fn.stripMembers, Res.ok.injEq] at h
      subst h
      exact ⟨hacc, by simp, by simp [mKeySum], hd⟩
  | m :: ms, f, IH, hb, acc, r, hacc, hd, h => by
    cases f with
    | zero => simp [Fn.stripMembers] at h
    | succ f =>
      rw [stripMembers_cons] at h
      have hx := hb m List.mem_cons_self
      cases hm : stripMemberOf (fun ih => Fn.stripObject f ih m.2.2) (fun ih => Fn.stripArray f ih m.2.2) m acc with
      | ok acc' =>
        rw [hm] at h
        dsimp only at h
        obtain ⟨a1, a2, a3, a4⟩ := stripMember_bounds f (fun f' hf' => IH f' (by omega)) m hx.2 hx.1 acc acc' hacc hd hm
        -- the rest runs with fuel `f`; its accumulator may be one level deeper than `f`: use the bound at `f + 1`
        have key : ∀ (ms' : List (Bytes × JE × Bytes)) (g : Nat), g ≤ f → (∀ x ∈ ms', JEFits x.2.1 ∧ x.2.2.length < 1152921504606846976) →
            ∀ (a r' : List (Bytes × BEntry)), fitsBK a → bdepthK a ≤ f + 1 → Fn.stripMembers g ms' a = .ok r' →
            fitsBK r' ∧ r'.length ≤ a.length + ms'.length ∧ keySum r' ≤ keySum a + mKeySum ms' ∧ bdepthK r' ≤ f + 1 := by
          intro ms'
          induction ms' with
          | nil =>
            intro g _ _ a r' ha hda hr
            cases g with
            | zero => simp [Fn.stripMembers] at hr
            | succ g =>
              simp only [Fn.stripMembers, Res.ok.injEq] at hr
              subst hr
              exact ⟨ha, by simp, by simp [mKeySum], hda⟩
          | cons m' ms' ih' =>
            intro g hg hb' a r' ha hda hr
            cases g with
            | zero => simp [Fn.stripMembers] at hr
            | succ g =>
              rw [stripMembers_cons] at hr
              have hx' := hb' m' List.mem_cons_self
              cases hm' : stripMemberOf (fun ih => Fn.stripObject g ih m'.2.2) (fun ih => Fn.stripArray g ih m'.2.2) m' a with
              | ok a' =>
                rw [hm'] at hr
                dsimp only at hr
                -- one member with fuel `g ≤ f`: depth at most `g + 1 ≤ f + 1`
                have hmb : fitsBK a' ∧ a'.length ≤ a.length + 1 ∧ keySum a' ≤ keySum a + m'.1.length ∧ bdepthK a' ≤ f + 1 := by
                  unfold stripMemberOf at hm'
                  split at hm'
                  · cases hr0 : readU32At m'.2.2 0 with
                    | none => rw [hr0] at hm'; cases hm'
                    | some ih =>
                      rw [hr0] at hm'
                      dsimp only at hm'
                      split at hm'
                      · cases hs : Fn.stripObject g ih m'.2.2 with
                        | ok s =>
                          rw [hs] at hm'
                          simp only [Res.map, Res.bind, Res.ok.injEq] at hm'
                          subst hm'
                          obtain ⟨p, q⟩ := ((IH g (by omega)) ih m'.2.2 hx'.2).1 s hs
                          exact bInsert_gen m'.1 (.obj s) (f + 1) p (by simp only [bdepth]; omega) a ha hda
                        | err e' => rw [hs] at hm'; cases hm'
                        | panic s => rw [hs] at hm'; cases hm'
                        | fuel => rw [hs] at hm'; cases hm'
                      · split at hm'
                        · cases hs : Fn.stripArray g ih m'.2.2 with
                          | ok es =>
                            rw [hs] at hm'
                            simp only [Res.map, Res.bind, Res.ok.injEq] at hm'
                            subst hm'
                            obtain ⟨p, q⟩ := ((IH g (by omega)) ih m'.2.2 hx'.2).2 es hs
                            exact bInsert_gen m'.1 (.arr es) (f + 1) p (by simp only [bdepth]; omega) a ha hda
                          | err e' => rw [hs] at hm'; cases hm'
                          | panic s => rw [hs] at hm'; cases hm'
                          | fuel => rw [hs] at hm'; cases hm'
                        · cases hm'
                  · split at hm'
                    · simp only [Res.ok.injEq] at hm'
                      subst hm'
                      exact ⟨ha, by omega, by omega, hda⟩
                    · simp only [Res.ok.injEq] at hm'
                      subst hm'
                      exact bInsert_gen m'.1 (.raw m'.2.1.ty m'.2.1.len m'.2.2) (f + 1) hx'.1 (by simp [bdepth]) a ha hda
                obtain ⟨c1, c2, c3, c4⟩ := hmb
                obtain ⟨d1, d2, d3, d4⟩ := ih' g (by omega) (fun y hy => hb' y (List.mem_cons_of_mem _ hy)) a' r' c1 c4 hr
                simp only [List.length_cons, mKeySum]
                exact ⟨d1, by omega, by omega, d4⟩
              | err e' => rw [hm'] at hr; cases hr
              | panic s => rw [hm'] at hr; cases hr
              | fuel => rw [hm'] at hr; cases hr
        obtain ⟨b1, b2, b3, b4⟩ := key ms f (Nat.le_refl _) (fun y hy => hb y (List.mem_cons_of_mem _ hy)) acc' r a1 a4 h
        simp only [List.length_cons, mKeySum]
        exact ⟨b1, by omega, by omega, b4⟩
      | err e' => rw [hm] at h; cases h
      | panic s => rw [hm] at h; cases h
      | fuel => rw [hm] at h; cases h

/-- the builders of the model are inside the domain of `build_into` -/
theorem strip_bounds : ∀ f : Nat, StripBounds f := by
  intro f
  induction f using Nat.strong_induction_on with
  | _ f IH =>
    intro h value hlen
    have hL := hdrLen_lt h
    cases f with
    | zero =>
      exact ⟨fun m hm => by simp [Fn.stripObject] at hm, fun es hes => by simp [Fn.stripArray] at hes⟩
    | succ f =>
      constructor
      · intro m hm
        rw [Fn.stripObject] at hm
        cases hms : iterObjEntries value h with
        | ok ms =>
          rw [hms] at hm
          dsimp only at hm
          have hbounds : ms.length ≤ hdrLen h ∧ (∀ m ∈ ms, JEFits m.2.1) ∧ mKeySum ms ≤ value.length ∧ mPaySum ms ≤ value.length := by
            unfold iterObjEntries at hms
            dsimp only at hms
            cases hfk : fillKeys value (hdrLen h) 4 (4 + hdrLen h * 8) with
            | none => rw [hfk] at hms; cases hms
            | some q => obtain ⟨ks, jo, vo⟩ := q; rw [hfk] at hms; exact obj_members_bounds value h ks jo vo ms hfk hms
          obtain ⟨hb1, hb2, hb3, hb4⟩ := hbounds
          obtain ⟨a1, a2, a3, a4⟩ := stripMembers_bounds ms f (fun f' hf' => IH f' (by omega))
            (fun x hx => ⟨hb2 x hx, by have := iterObjEntries_item_le value h ms hms x hx; omega⟩) [] m
            (by simp [fitsBK]) (by simp [bdepthK]) hm
          simp only [List.length_nil, keySum, Nat.zero_add] at a2 a3
          have hs := bsizeK_le m
          refine ⟨?_, by omega⟩
          simp only [fitsB, bkeyBytes_length]
          exact ⟨a1, by omega⟩
        | err e => rw [hms] at hm; cases hm
        | panic s => rw [hms] at hm; cases hm
        | fuel => rw [hms] at hm; cases hm
      · intro es hes
        rw [Fn.stripArray] at hes
        cases hit : iterArray value h with
        | ok items =>
          rw [hit] at hes
          dsimp only at hes
          obtain ⟨hb1, hb2, hb3⟩ := iterArray_bounds value h items hit
          obtain ⟨a1, a2, a3⟩ := stripItems_bounds items f (fun f' hf' => IH f' (by omega))
            (fun x hx => ⟨hb2 x hx, by have := iterArray_item_le value h items hit x hx; omega⟩) es hes
          have hs := bsizeL_le es
          refine ⟨?_, by omega⟩
          simp only [fitsB]
          exact ⟨a1, by omega⟩
        | err e => rw [hit] at hes; cases hes
        | panic s => rw [hit] at hes; cases hes
        | fuel => rw [hit] at hes; cases hes

/-! ## `strip_nulls_jsonb` -/

/-- **`strip_nulls_jsonb`** computes the model's `stripNulls`, wherever the model does not panic and its output is a
byte string a `Vec<u8>` can hold (growing a `Vec` beyond `isize::MAX` bytes is outside the prelude's domain) -/
theorem strip_nulls_jsonb_agrees (value buf : Bytes) (fuel : Nat)
    (hfuel : 4 * value.length + 536870930 < fuel) (hv : value.length < 1152921504606846976)
    (hne : Fn.stripNulls value buf ≠ .fuel) (hnp : (Fn.stripNulls value buf).isPanic = false)
    (hout : ∀ out, Fn.stripNulls value buf = .ok out → out.length < 9223372036854775808) :
    Tr.strip_nulls_jsonb fuel value buf = Fn.stripNulls value buf := by
  unfold Tr.strip_nulls_jsonb
  unfold Fn.stripNulls at hne hnp hout ⊢
  simp only [read_u32_zero]
  cases hr : readU32At value 0 with
  | none => simp only [Ctl.ofRes_err', Ctl.ret_bind', Ctl.run_ret']
  | some h =>
    rw [hr] at hne hnp hout
    dsimp only at hne hnp hout ⊢
    simp only [Ctl.ofRes_ok', Ctl.val_bind', hdrType_eq]
    simp only [decide_eq_true_eq]
    by_cases hO : hdrType h = C.OBJECT_CONTAINER_TAG
    · simp only [if_pos hO] at hne hnp hout ⊢
      cases hm : Fn.stripObject (2 * value.length + 4) h value with
      | fuel => rw [hm] at hne; exact absurd rfl hne
      | panic s => rw [hm] at hnp; simp [Res.isPanic] at hnp
      | err e =>
        have hag := (strip_all (2 * value.length + 4) fuel (by omega) h value hv).1 (by rw [hm]; exact fun c => by cases c)
          (by rw [hm]; rfl)
        rw [hm] at hag
        simp only [hag, Res.map, Res.bind, Ctl.ofRes_err', Ctl.ret_bind', Ctl.run_ret']
      | ok m =>
        have hag := (strip_all (2 * value.length + 4) fuel (by omega) h value hv).1 (by rw [hm]; exact fun c => by cases c)
          (by rw [hm]; rfl)
        rw [hm] at hag hout
        obtain ⟨hfit, hdep⟩ := (strip_bounds (2 * value.length + 4) h value hv).1 m hm
        dsimp only at hout ⊢
        have hspec := buildObjectInto_spec buf m
        have hol := hout _ hspec
        simp only [List.length_append] at hol
        have hbi := object_build_into_agrees m buf fuel (by omega) hfit (by simp only [bpay]; omega)
        simp only [hag, Res.map, Res.bind, Ctl.ofRes_ok', Ctl.val_bind', objB] at hbi ⊢
        rw [hbi, hspec]
        simp only [Res.map, Res.bind, Ctl.ofRes_ok', Ctl.val_bind', Ctl.pure_eq', Ctl.run_ret']
    simp only [if_neg hO] at hne hnp hout ⊢
    by_cases hA : hdrType h = C.ARRAY_CONTAINER_TAG
    · simp only [if_pos hA] at hne hnp hout ⊢
      cases hm : Fn.stripArray (2 * value.length + 4) h value with
      | fuel => rw [hm] at hne; exact absurd rfl hne
      | panic s => rw [hm] at hnp; simp [Res.isPanic] at hnp
      | err e =>
        have hag := (strip_all (2 * value.length + 4) fuel (by omega) h value hv).2 (by rw [hm]; exact fun c => by cases c)
          (by rw [hm]; rfl)
        rw [hm] at hag
        simp only [hag, Res.map, Res.bind, Ctl.ofRes_err', Ctl.ret_bind', Ctl.run_ret']
      | ok es =>
        have hag := (strip_all (2 * value.length + 4) fuel (by omega) h value hv).2 (by rw [hm]; exact fun c => by cases c)
          (by rw [hm]; rfl)
        rw [hm] at hag hout
        obtain ⟨hfit, hdep⟩ := (strip_bounds (2 * value.length + 4) h value hv).2 es hm
        dsimp only at hout ⊢
        have hspec := buildArrayInto_spec buf es
        have hol := hout _ hspec
        simp only [List.length_append] at hol
        have hbi := array_build_into_agrees es buf fuel (by omega) hfit (by simp only [bpay]; omega)
        simp only [hag, Res.map, Res.bind, Ctl.ofRes_ok', Ctl.val_bind', arrB] at hbi ⊢
        rw [hbi, hspec]
        simp only [Res.map, Res.bind, Ctl.ofRes_ok', Ctl.val_bind', Ctl.pure_eq', Ctl.run_ret']
    · simp only [if_neg hA, Ctl.pure_eq', Ctl.val_bind', Ctl.run_ret', Rs.extendFromSlice]

open Jsonb.JV in
/-- **C06 / C07, source-level corollary**: on the encoding of a good document the translated `strip_nulls_jsonb` IS
the model's `stripNulls`, i.e. it appends the encoding of the stripped tree -/
theorem strip_nulls_encodeSpec_agrees (v : JV) (hg : goodTop v = true) (buf : Bytes)
    (hb : buf.length < 1152921504606846976) (fuel : Nat) (hfuel : 4 * (encodeSpec v).length + 536870930 < fuel) :
    Tr.strip_nulls_jsonb fuel (encodeSpec v) buf = .ok (buf ++ encodeSpec (Spec.stripNulls v)) := by
  have hr := stripNulls_refines v hg buf
  have hl := encodeSpec_length_lt60 (Spec.stripNulls v) (goodTop_stripNulls v hg)
  rw [strip_nulls_jsonb_agrees _ buf fuel hfuel (encodeSpec_length_lt60 v hg) (by rw [hr]; exact fun c => by cases c)
    (by rw [hr]; rfl) (fun out ho => by rw [hr] at ho; cases ho; simp only [List.length_append]; omega), hr]

end Jsonb.TrAgree
