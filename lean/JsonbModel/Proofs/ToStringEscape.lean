/-
C-text, part A: the string escaper of `to_string` and the strict string reader are inverse,
byte for byte, on EVERY byte string (no UTF-8 hypothesis needed).
-/
import JsonbModel.Functions.ToString
import JsonbModel.Spec.StrictJson

namespace Jsonb
open Fn Strict

/-! ### hex digits -/

theorem hexLower_ge : ∀ n, n < 16 → (0x20 : UInt8) ≤ hexLower n := by decide
theorem hexLower_ne_quote : ∀ n, n < 16 → hexLower n ≠ 0x22 := by decide
theorem hexLower_ne_bs : ∀ n, n < 16 → hexLower n ≠ 0x5C := by decide
theorem hexVal_hexLower : ∀ n, n < 16 → hexVal (hexLower n) = some n := by decide

theorem u8_lt_toNat {b : UInt8} (h : b < 0x20) : b.toNat < 32 := by
  have := UInt8.lt_iff_toNat_lt.mp h
  simpa using this

theorem hex4_ctl (b : UInt8) (h : b < 0x20) (tail : Bytes) :
    hex4 (0x30 :: 0x30 :: hexLower (b.toNat / 16) :: hexLower (b.toNat % 16) :: tail)
      = some (b.toNat, tail) := by
  have hb := u8_lt_toNat h
  have h0 : hexVal 0x30 = some 0 := by decide
  simp only [hex4, h0, hexVal_hexLower _ (show b.toNat / 16 < 16 by omega),
    hexVal_hexLower _ (show b.toNat % 16 < 16 by omega), Option.some.injEq, Prod.mk.injEq, and_true]
  omega

theorem encodeUtf8_ctl (b : UInt8) (h : b < 0x20) : encodeUtf8 b.toNat = [b] := by
  have hb := u8_lt_toNat h
  simp [encodeUtf8, show b.toNat < 128 by omega]

/-! ### the escaper, one input byte at a time -/

/-- text emitted for one input byte -/
def escOne (b : UInt8) : Bytes :=
  if b == 0x5C then [0x5C, 0x5C]
  else if b == 0x22 then [0x5C, 0x22]
  else if b == 0x08 then [0x5C, 0x62]
  else if b == 0x0C then [0x5C, 0x66]
  else if b == 0x0A then [0x5C, 0x6E]
  else if b == 0x0D then [0x5C, 0x72]
  else if b == 0x09 then [0x5C, 0x74]
  else if b < 0x20 then [0x5C, 0x75, 0x30, 0x30, hexLower (b.toNat / 16), hexLower (b.toNat % 16)]
  else [b]

theorem escapeBytes_cons (b : UInt8) (bs : Bytes) : escapeBytes (b :: bs) = escOne b ++ escapeBytes bs := rfl

theorem escapeBytes_append (a b : Bytes) : escapeBytes (a ++ b) = escapeBytes a ++ escapeBytes b := by
  induction a with
  | nil => rfl
  | cons x xs ih => simp only [List.cons_append, escapeBytes_cons, ih, List.append_assoc]

/-- the nine shapes of `escOne` -/
theorem escOne_cases (b : UInt8) :
    (b = 0x5C ∧ escOne b = [0x5C, 0x5C]) ∨ (b = 0x22 ∧ escOne b = [0x5C, 0x22]) ∨
    (b = 0x08 ∧ escOne b = [0x5C, 0x62]) ∨ (b = 0x0C ∧ escOne b = [0x5C, 0x66]) ∨
    (b = 0x0A ∧ escOne b = [0x5C, 0x6E]) ∨ (b = 0x0D ∧ escOne b = [0x5C, 0x72]) ∨
    (b = 0x09 ∧ escOne b = [0x5C, 0x74]) ∨
    (b < 0x20 ∧ escOne b = [0x5C, 0x75, 0x30, 0x30, hexLower (b.toNat / 16), hexLower (b.toNat % 16)]) ∨
    (b ≠ 0x5C ∧ b ≠ 0x22 ∧ ¬ b < 0x20 ∧ escOne b = [b]) := by
  unfold escOne
  by_cases h1 : b = 0x5C
  · subst h1; simp
  by_cases h2 : b = 0x22
  · subst h2; simp
  by_cases h3 : b = 0x08
  · subst h3; simp
  by_cases h4 : b = 0x0C
  · subst h4; simp
  by_cases h5 : b = 0x0A
  · subst h5; simp
  by_cases h6 : b = 0x0D
  · subst h6; simp
  by_cases h7 : b = 0x09
  · subst h7; simp
  by_cases h8 : b < 0x20
  · simp [h1, h2, h3, h4, h5, h6, h7, h8]
  · simp [h1, h2, h3, h4, h5, h6, h7, h8]

/-! ### A.1: nothing below 0x20 is emitted; every `"` emitted is the second byte of `\"` -/

theorem escOne_no_control (b : UInt8) : ∀ x ∈ escOne b, (0x20 : UInt8) ≤ x := by
  have hb : b.toNat < 256 := b.toNat_lt
  rcases escOne_cases b with h | h | h | h | h | h | h | h | h
  all_goals (try (obtain ⟨_, h⟩ := h; rw [h]; decide))
  · obtain ⟨hlt, h⟩ := h
    have := u8_lt_toNat hlt
    rw [h]
    intro x hx
    simp only [List.mem_cons, List.not_mem_nil, or_false] at hx
    rcases hx with rfl | rfl | rfl | rfl | rfl | rfl
    · decide
    · decide
    · decide
    · decide
    · exact hexLower_ge _ (by omega)
    · exact hexLower_ge _ (by omega)
  · obtain ⟨_, _, h3, h⟩ := h
    rw [h]
    intro x hx
    simp only [List.mem_cons, List.not_mem_nil, or_false] at hx
    subst hx
    exact UInt8.not_lt.mp h3

/-- A.1a: `escape_scalar_string` never emits a raw control character -/
theorem escapeBytes_no_control (s : Bytes) : ∀ b ∈ escapeBytes s, (0x20 : UInt8) ≤ b := by
  induction s with
  | nil => intro b hb; simp [escapeBytes] at hb
  | cons x xs ih =>
    intro b hb
    rw [escapeBytes_cons, List.mem_append] at hb
    cases hb with
    | inl h => exact escOne_no_control x b h
    | inr h => exact ih b h

/-- Reading left to right with a backslash consuming the byte after it, no unescaped `"` is met.
(`preceded by a backslash` alone would be the wrong notion: in `\\"` the quote is bare.) -/
def quoteGuarded : Bytes → Bool
  | [] => true
  | [b] => b != 0x22
  | b :: c :: r => if b == 0x5C then quoteGuarded r else b != 0x22 && quoteGuarded (c :: r)

theorem quoteGuarded_bs (c : UInt8) (r : Bytes) : quoteGuarded (0x5C :: c :: r) = quoteGuarded r := by
  simp [quoteGuarded]

theorem quoteGuarded_plain (b : UInt8) (r : Bytes) (h1 : b ≠ 0x5C) (h2 : b ≠ 0x22) :
    quoteGuarded (b :: r) = quoteGuarded r := by
  cases r with
  | nil => simp [quoteGuarded, h2]
  | cons c r => simp [quoteGuarded, h1, h2]

theorem quoteGuarded_escOne (b : UInt8) (t : Bytes) : quoteGuarded (escOne b ++ t) = quoteGuarded t := by
  rcases escOne_cases b with h | h | h | h | h | h | h | h | h
  all_goals (try (obtain ⟨_, h⟩ := h; rw [h]; exact quoteGuarded_bs _ _))
  · obtain ⟨hlt, h⟩ := h
    have := u8_lt_toNat hlt
    rw [h]
    simp only [List.cons_append, List.nil_append]
    rw [quoteGuarded_bs, quoteGuarded_plain _ _ (by decide) (by decide),
      quoteGuarded_plain _ _ (by decide) (by decide),
      quoteGuarded_plain _ _ (hexLower_ne_bs _ (by omega)) (hexLower_ne_quote _ (by omega)),
      quoteGuarded_plain _ _ (hexLower_ne_bs _ (by omega)) (hexLower_ne_quote _ (by omega))]
  · obtain ⟨h1, h2, _, h⟩ := h
    rw [h]
    exact quoteGuarded_plain _ _ h1 h2

/-- A.1b: every `"` in the escaped text is the second byte of a `\"` pair, also in context -/
theorem quoteGuarded_escape_append (s t : Bytes) : quoteGuarded (escapeBytes s ++ t) = quoteGuarded t := by
  induction s with
  | nil => rfl
  | cons x xs ih => rw [escapeBytes_cons, List.append_assoc, quoteGuarded_escOne, ih]

theorem escapeBytes_quoteGuarded (s : Bytes) : quoteGuarded (escapeBytes s) = true := by
  have := quoteGuarded_escape_append s []
  simpa [quoteGuarded] using this

/-! ### A.2: the strict string reader inverts the escaper -/

theorem escOne_length_pos (b : UInt8) : 1 ≤ (escOne b).length := by
  rcases escOne_cases b with h | h | h | h | h | h | h | h | h
  all_goals (first | (obtain ⟨_, h⟩ := h; rw [h]; simp; done) | (obtain ⟨_, _, _, h⟩ := h; rw [h]; simp))

/-- one escaped byte is read back as that byte, using one unit of fuel -/
theorem strBody_escOne (b : UInt8) (tail : Bytes) (fuel : Nat) :
    strBody (fuel + 1) (escOne b ++ tail) = (strBody fuel tail).map (fun p => (b :: p.1, p.2)) := by
  rcases escOne_cases b with h | h | h | h | h | h | h | h | h
  · obtain ⟨rfl, h⟩ := h; rw [h]; simp [strBody]
  · obtain ⟨rfl, h⟩ := h; rw [h]; simp [strBody]
  · obtain ⟨rfl, h⟩ := h; rw [h]; simp [strBody]
  · obtain ⟨rfl, h⟩ := h; rw [h]; simp [strBody]
  · obtain ⟨rfl, h⟩ := h; rw [h]; simp [strBody]
  · obtain ⟨rfl, h⟩ := h; rw [h]; simp [strBody]
  · obtain ⟨rfl, h⟩ := h; rw [h]; simp [strBody]
  · obtain ⟨hlt, h⟩ := h
    have hb := u8_lt_toNat hlt
    rw [h]
    simp only [List.cons_append, List.nil_append, strBody]
    rw [hex4_ctl b hlt tail]
    have n1 : ¬ (0xD800 ≤ b.toNat ∧ b.toNat ≤ 0xDBFF) := by omega
    have n2 : ¬ (0xDC00 ≤ b.toNat ∧ b.toNat ≤ 0xDFFF) := by omega
    simp [n1, n2, encodeUtf8_ctl b hlt]
  · obtain ⟨h1, h2, h3, h⟩ := h
    rw [h]
    simp [strBody, h1, h2, h3]

/-- **A.2** the strict reader inverts the escaper on every byte string; one unit of fuel per
input byte of `s` plus one for the closing quote suffices (in particular the length of the
text does) -/
theorem strBody_escape (s rest : Bytes) (fuel : Nat) (hf : s.length + 1 ≤ fuel) :
    strBody fuel (escapeBytes s ++ (0x22 :: rest)) = some (s, rest) := by
  induction s generalizing fuel with
  | nil =>
    cases fuel with
    | zero => simp at hf
    | succ f => simp [escapeBytes, strBody]
  | cons x xs ih =>
    cases fuel with
    | zero => simp at hf
    | succ f =>
      rw [escapeBytes_cons, List.append_assoc, strBody_escOne, ih f (by simp at hf; omega)]
      rfl

theorem escapeBytes_length_ge (s : Bytes) : s.length ≤ (escapeBytes s).length := by
  induction s with
  | nil => simp [escapeBytes]
  | cons x xs ih =>
    rw [escapeBytes_cons, List.length_append, List.length_cons]
    have := escOne_length_pos x
    omega

/-- the fuel `Strict.value` actually passes: length of the remaining text + 1 -/
theorem strBody_escape_len (s rest : Bytes) :
    strBody ((escapeBytes s ++ (0x22 :: rest)).length + 1) (escapeBytes s ++ (0x22 :: rest)) = some (s, rest) := by
  apply strBody_escape
  have := escapeBytes_length_ge s
  simp only [List.length_append, List.length_cons]
  omega

end Jsonb
