/-
Agreement theorems, phase 2, part 2: `decode_hex_escape` (util.rs; `for number in numbers` with the
`u16` accumulator) EQUALS the model's `JP.decodeHexEscape`, and `escape_scalar_string` (functions.rs;
the byte loop with the nine-way `match`, the pending run `last_start..i`, the `String` pushes) EQUALS
the model's `Fn.escapeString` on well-formed UTF-8 — and is characterised on every byte string.
-/
import JsonbModel.Proofs.TranslatedAgreeB1
import JsonbModel.Proofs.TranslatedAgreeBUtf8
import JsonbModel.JsonParser
import JsonbModel.Functions.ToString

set_option linter.unusedSimpArgs false
set_option linter.unusedVariables false

namespace Jsonb.TrAgree
open Jsonb.Rs

/-! ## decode_hex_escape (util.rs) -/

theorem hex_small : ∀ m ∈ C.HEX, m = 255 ∨ m < 16 := by
  have h : C.HEX.all (fun n => decide (n = 255 ∨ n < 16)) = true := by decide +kernel
  intro m hm
  have := List.all_eq_true.mp h m hm
  simpa using this

theorem shl_u16_4 (n : Nat) : Rs.shl .u16 (n : Int) 4 = .ok ((n * 16 % 65536 : Nat) : Int) := by
  have hs : (0 ≤ (4:Int) ∧ (4:Int) < ((IntTy.u16.bits : Nat) : Int)) := by simp [IntTy.bits]
  have hw : Rs.wrap .u16 ((n : Int) * ((2 ^ (4:Int).toNat : Nat) : Int)) = ((n * 16 % 65536 : Nat) : Int) := by
    simp [Rs.wrap, IntTy.bits, IntTy.signed]
  simp only [Rs.shl, hs, and_self, if_true, hw]

theorem add_u16_nat (a b : Nat) (h : a + b < 65536) : Rs.add .u16 (a : Int) (b : Int) = .ok ((a + b : Nat) : Int) := by
  rw [Rs.add_ok _ _ _ (by rw [Rs.inRange_iff]; simp; omega)]; simp

theorem decodeHexVal_some_lt (b : UInt8) (hex : Nat) (h : JP.decodeHexVal b = .ok (some hex)) : hex < 16 := by
  unfold JP.decodeHexVal at h
  cases hg : C.HEX[b.toNat]? with
  | none => rw [hg] at h; simp at h
  | some m =>
    rw [hg] at h
    have hm : m ∈ C.HEX := List.mem_of_getElem? hg
    by_cases h255 : m = 255
    · subst h255; simp at h
    · have hb : (m == 255) = false := by simp [h255]
      simp only [hb, Bool.false_eq_true, if_false, Res.ok.injEq, Option.some.injEq] at h
      subst h
      rcases hex_small m hm with h | h
      · exact absurd h h255
      · exact h

/-- one iteration of `for number in numbers` -/
theorem dhe_loop1_step (idx : Int) (b : UInt8) (n : Nat) :
    Tr.decode_hex_escape.loop1 idx (b.toNat : Int) (n : Int) =
      match JP.decodeHexVal b with
      | .ok (some hex) => Ctl.val (.next (((n * 16 % 65536 + hex : Nat)) : Int))
      | .ok none => Ctl.ret (.err "InvalidHex")
      | .err e => Ctl.ret (.err e)
      | .panic s => Ctl.ret (.panic s)
      | .fuel => Ctl.ret .fuel := by
  unfold Tr.decode_hex_escape.loop1
  rw [decode_hex_val_agrees]
  unfold JP.decodeHexVal
  cases hg : C.HEX[b.toNat]? with
  | none => simp [Res.map, Res.bind, Ctl.ofRes, Rs.loopStep]
  | some m =>
    have hm : m ∈ C.HEX := List.mem_of_getElem? hg
    by_cases h255 : m = 255
    · subst h255; simp [Res.map, Res.bind, optNat, Ctl.ofRes, Rs.loopStep]
    · have hlt : m < 16 := by
        rcases hex_small m hm with h | h
        · exact absurd h h255
        · exact h
      have hb : (m == 255) = false := by simp [h255]
      have hadd := add_u16_nat (n * 16 % 65536) m (by omega)
      have hadd2 : Rs.add .u16 (m : Int) ((n * 16 % 65536 : Nat) : Int) = .ok ((n * 16 % 65536 + m : Nat) : Int) := by
        rw [Nat.add_comm]; exact add_u16_nat m (n * 16 % 65536) (by omega)
      simp only [hb, Bool.false_eq_true, if_false, Res.map, Res.bind, optNat, Option.map_some, Ctl.ofRes_ok', Ctl.val_bind',
        shl_u16_4, Int.ofNat_eq_natCast, hadd, hadd2, Ctl.pure_eq', Rs.loopStep_val']

theorem dhe_run (idx : Int) : ∀ (bs : Bytes) (n : Nat),
    (Rs.forIn (Rs.iterBytes bs) (n : Int) (Tr.decode_hex_escape.loop1 idx) >>= fun n => (Ctl.ret (.ok n) : Ctl Int Int))
      = Ctl.ret ((JP.decodeHexEscape bs n).map Int.ofNat) := by
  intro bs
  induction bs with
  | nil => intro n; simp [Rs.iterBytes, Rs.forIn, JP.decodeHexEscape, Res.map, Res.bind]
  | cons b bs ih =>
    intro n
    have hstep := dhe_loop1_step idx b n
    simp only [Rs.iterBytes, List.map_cons] at ih ⊢
    rw [JP.decodeHexEscape]
    cases hv : JP.decodeHexVal b with
    | ok o =>
      cases o with
      | none =>
        rw [hv] at hstep
        rw [Rs.forIn_ret _ _ _ _ _ hstep]; simp [Res.map, Res.bind, Bind.bind, Ctl.bind]
      | some hex =>
        rw [hv] at hstep
        rw [Rs.forIn_next _ _ _ _ _ hstep, ih]
        have hlt := decodeHexVal_some_lt b hex hv
        have hno : ¬ (n * 16 % 65536 + hex ≥ 65536) := by omega
        simp [Bind.bind, Res.bind, hno]
    | err e => rw [hv] at hstep; rw [Rs.forIn_ret _ _ _ _ _ hstep]; simp [Res.map, Res.bind, Bind.bind, Ctl.bind]
    | panic s => rw [hv] at hstep; rw [Rs.forIn_ret _ _ _ _ _ hstep]; simp [Res.map, Res.bind, Bind.bind, Ctl.bind]
    | fuel => rw [hv] at hstep; rw [Rs.forIn_ret _ _ _ _ _ hstep]; simp [Res.map, Res.bind, Bind.bind, Ctl.bind]

/-- `decode_hex_escape(numbers, idx)` for every byte vector: the translated loop EQUALS the model's
`JP.decodeHexEscape` started at 0 (the `u16` addition never overflows: the shifted accumulator is a
multiple of 16 and a hex digit is below 16 — shown, not assumed) -/
theorem decode_hex_escape_agrees (numbers : Bytes) (idx : Int) :
    Tr.decode_hex_escape numbers idx = (JP.decodeHexEscape numbers 0).map Int.ofNat := by
  unfold Tr.decode_hex_escape
  have h := dhe_run idx numbers 0
  simp only [Ctl.pure_eq', Ctl.val_bind']
  have h0 : ((0 : Nat) : Int) = 0 := rfl
  rw [h0] at h
  rw [h, Ctl.run_ret']

/-! ## escape_scalar_string (functions.rs) -/

/-- the text pushed for a byte that is escaped; `none` for a byte that is copied -/
def escLit (b : UInt8) : Option Bytes :=
  if b == 0x5C then some [0x5C, 0x5C]
  else if b == 0x22 then some [0x5C, 0x22]
  else if b == 0x08 then some [0x5C, 0x62]
  else if b == 0x0C then some [0x5C, 0x66]
  else if b == 0x0A then some [0x5C, 0x6E]
  else if b == 0x0D then some [0x5C, 0x72]
  else if b == 0x09 then some [0x5C, 0x74]
  else if b < 0x20 then some [0x5C, 0x75, 0x30, 0x30, Fn.hexLower (b.toNat / 16), Fn.hexLower (b.toNat % 16)]
  else none

/-- what the loop of `escape_scalar_string` does to `(json, pending run)` over the bytes it visits -/
def escLoop (json pend : Bytes) : Bytes → Bytes × Bytes
  | [] => (json, pend)
  | b :: bs =>
    match escLit b with
    | some t => escLoop (json ++ Rs.fromUtf8Lossy pend ++ t) [] bs
    | none => escLoop json (pend ++ [b]) bs

theorem fromUtf8Lossy_nil : Rs.fromUtf8Lossy [] = [] := by
  unfold Rs.fromUtf8Lossy utf8Lossy; rfl

theorem ctl_text : ∀ n : Fin 32,
    Rs.strLit "\\u" ++ Rs.fmtLowerHexPad 4 ((n.val : Nat) : Int)
      = [0x5C, 0x75, 0x30, 0x30, Fn.hexLower (n.val / 16), Fn.hexLower (n.val % 16)] := by
  intro n
  rw [strLit_eq]
  revert n
  decide


theorem strLit_bs : Rs.strLit "\\\\" = [0x5C, 0x5C] := by rw [strLit_eq]; decide
theorem strLit_qt : Rs.strLit "\\\"" = [0x5C, 0x22] := by rw [strLit_eq]; decide
theorem strLit_b : Rs.strLit "\\b" = [0x5C, 0x62] := by rw [strLit_eq]; decide
theorem strLit_f : Rs.strLit "\\f" = [0x5C, 0x66] := by rw [strLit_eq]; decide
theorem strLit_n : Rs.strLit "\\n" = [0x5C, 0x6E] := by rw [strLit_eq]; decide
theorem strLit_r : Rs.strLit "\\r" = [0x5C, 0x72] := by rw [strLit_eq]; decide
theorem strLit_t : Rs.strLit "\\t" = [0x5C, 0x74] := by rw [strLit_eq]; decide

/-- `escLit` on the numeric value of the byte -/
def escLitN (m : Nat) : Option Bytes :=
  if m = 92 then some [0x5C, 0x5C]
  else if m = 34 then some [0x5C, 0x22]
  else if m = 8 then some [0x5C, 0x62]
  else if m = 12 then some [0x5C, 0x66]
  else if m = 10 then some [0x5C, 0x6E]
  else if m = 13 then some [0x5C, 0x72]
  else if m = 9 then some [0x5C, 0x74]
  else if m < 32 then some [0x5C, 0x75, 0x30, 0x30, Fn.hexLower (m / 16), Fn.hexLower (m % 16)]
  else none

theorem escLit_ofNat : ∀ n : Fin 256, escLit (UInt8.ofNat n.val) = escLitN n.val := by decide +kernel

theorem escLit_toNat (b : UInt8) : escLit b = escLitN b.toNat := by
  have := escLit_ofNat ⟨b.toNat, b.toNat_lt⟩
  simpa using this

/-- one iteration of `for i in start..end` at a position `i` holding the byte `b`, the pending run
`pend` starting at `last_start = |pre|` -/
theorem esc_loop1_step (value pre pend rest : Bytes) (b : UInt8) (json : Bytes)
    (hv : value = pre ++ (pend ++ b :: rest)) (hlen : value.length < 18446744073709551616) :
    Tr.escape_scalar_string.loop1 value ((pre.length + pend.length : Nat) : Int) (json, ((pre.length : Nat) : Int)) =
      match escLit b with
      | some t => Ctl.val (.next (json ++ Rs.fromUtf8Lossy pend ++ t, ((pre.length + pend.length + 1 : Nat) : Int)))
      | none => Ctl.val (.next (json, ((pre.length : Nat) : Int))) := by
  have hidx : Rs.index value ((pre.length + pend.length : Nat) : Int) = .ok ((b.toNat : Nat) : Int) := by
    have h0 : ¬ (((pre.length + pend.length : Nat) : Int) < 0) := by omega
    have hg : value[pre.length + pend.length]? = some b := by
      subst hv
      rw [List.getElem?_append_right (by omega)]
      rw [show pre.length + pend.length - pre.length = pend.length by omega]
      rw [List.getElem?_append_right (by omega)]
      simp
    simp only [Rs.index, h0, if_false, Int.toNat_natCast, hg]
  have hslice : Rs.slice value ((pre.length : Nat) : Int) ((pre.length + pend.length : Nat) : Int) = .ok pend := by
    rw [Rs.slice_nat, if_pos (by subst hv; simp)]
    subst hv
    simp
  have hvl : pre.length + pend.length + 1 ≤ value.length := by subst hv; simp; omega
  have hadd : Rs.add .usize ((pre.length + pend.length : Nat) : Int) 1 = .ok ((pre.length + pend.length + 1 : Nat) : Int) := by
    have := Rs.add_usize_nat (pre.length + pend.length) 1 (by omega); simpa using this
  have hm := b.toNat_lt
  rw [escLit_toNat]
  unfold Tr.escape_scalar_string.loop1
  dsimp only
  rw [hidx]
  generalize b.toNat = m at hm ⊢
  simp only [Ctl.ofRes_ok', Ctl.val_bind']
  have e1 : ((m : Int) = 92) = (m = 92) := by apply propext; omega
  have e2 : ((m : Int) = 34) = (m = 34) := by apply propext; omega
  have e3 : ((m : Int) = 8) = (m = 8) := by apply propext; omega
  have e4 : ((m : Int) = 12) = (m = 12) := by apply propext; omega
  have e5 : ((m : Int) = 10) = (m = 10) := by apply propext; omega
  have e6 : ((m : Int) = 13) = (m = 13) := by apply propext; omega
  have e7 : ((m : Int) = 9) = (m = 9) := by apply propext; omega
  have e8 : (0 ≤ (m : Int)) = True := eq_true (by omega)
  have e9 : ((m : Int) ≤ 31) = (m < 32) := by apply propext; omega
  have ctl : m < 32 → Rs.strLit "\\u" ++ Rs.fmtLowerHexPad 4 (m : Int) = [0x5C, 0x75, 0x30, 0x30, Fn.hexLower (m / 16), Fn.hexLower (m % 16)] :=
    fun h => ctl_text ⟨m, h⟩
  simp only [e1, e2, e3, e4, e5, e6, e7, e8, e9, decide_eq_true_eq, Bool.and_eq_true, true_and, escLitN]
  by_cases hp : pend = []
  · subst hp
    have hgt : ¬ (((pre.length + ([] : Bytes).length : Nat) : Int) > ((pre.length : Nat) : Int)) := by simp
    have hge : (((pre.length + ([] : Bytes).length : Nat) : Int) ≥ ((pre.length : Nat) : Int)) := by simp
    simp only [hgt, hge, decide_true, decide_false, Bool.false_eq_true, if_false, if_true, fromUtf8Lossy_nil, hslice,
      Ctl.ofRes_ok', Ctl.val_bind', Ctl.pure_eq', Rs.pushStr, List.append_nil]
    by_cases h1 : m = 92
    · subst h1; simp only [hslice, hadd, Ctl.ofRes_ok', Ctl.val_bind', Ctl.pure_eq', Rs.pushStr, Rs.loopStep_val', Rs.loopStep_cont', Ctl.ret_bind', strLit_bs, strLit_qt, strLit_b, strLit_f, strLit_n, strLit_r, strLit_t, if_true, if_false, List.append_assoc, List.append_nil, ctl, reduceCtorEq, Nat.reduceEqDiff, Nat.reduceLT] <;> rfl
    · simp only [h1, if_false]
      by_cases h2 : m = 34
      · subst h2; simp only [hslice, hadd, Ctl.ofRes_ok', Ctl.val_bind', Ctl.pure_eq', Rs.pushStr, Rs.loopStep_val', Rs.loopStep_cont', Ctl.ret_bind', strLit_bs, strLit_qt, strLit_b, strLit_f, strLit_n, strLit_r, strLit_t, if_true, if_false, List.append_assoc, List.append_nil, ctl, reduceCtorEq, Nat.reduceEqDiff, Nat.reduceLT] <;> rfl
      · simp only [h2, if_false]
        by_cases h3 : m = 8
        · subst h3; simp only [hslice, hadd, Ctl.ofRes_ok', Ctl.val_bind', Ctl.pure_eq', Rs.pushStr, Rs.loopStep_val', Rs.loopStep_cont', Ctl.ret_bind', strLit_bs, strLit_qt, strLit_b, strLit_f, strLit_n, strLit_r, strLit_t, if_true, if_false, List.append_assoc, List.append_nil, ctl, reduceCtorEq, Nat.reduceEqDiff, Nat.reduceLT] <;> rfl
        · simp only [h3, if_false]
          by_cases h4 : m = 12
          · subst h4; simp only [hslice, hadd, Ctl.ofRes_ok', Ctl.val_bind', Ctl.pure_eq', Rs.pushStr, Rs.loopStep_val', Rs.loopStep_cont', Ctl.ret_bind', strLit_bs, strLit_qt, strLit_b, strLit_f, strLit_n, strLit_r, strLit_t, if_true, if_false, List.append_assoc, List.append_nil, ctl, reduceCtorEq, Nat.reduceEqDiff, Nat.reduceLT] <;> rfl
          · simp only [h4, if_false]
            by_cases h5 : m = 10
            · subst h5; simp only [hslice, hadd, Ctl.ofRes_ok', Ctl.val_bind', Ctl.pure_eq', Rs.pushStr, Rs.loopStep_val', Rs.loopStep_cont', Ctl.ret_bind', strLit_bs, strLit_qt, strLit_b, strLit_f, strLit_n, strLit_r, strLit_t, if_true, if_false, List.append_assoc, List.append_nil, ctl, reduceCtorEq, Nat.reduceEqDiff, Nat.reduceLT] <;> rfl
            · simp only [h5, if_false]
              by_cases h6 : m = 13
              · subst h6; simp only [hslice, hadd, Ctl.ofRes_ok', Ctl.val_bind', Ctl.pure_eq', Rs.pushStr, Rs.loopStep_val', Rs.loopStep_cont', Ctl.ret_bind', strLit_bs, strLit_qt, strLit_b, strLit_f, strLit_n, strLit_r, strLit_t, if_true, if_false, List.append_assoc, List.append_nil, ctl, reduceCtorEq, Nat.reduceEqDiff, Nat.reduceLT] <;> rfl
              · simp only [h6, if_false]
                by_cases h7 : m = 9
                · subst h7; simp only [hslice, hadd, Ctl.ofRes_ok', Ctl.val_bind', Ctl.pure_eq', Rs.pushStr, Rs.loopStep_val', Rs.loopStep_cont', Ctl.ret_bind', strLit_bs, strLit_qt, strLit_b, strLit_f, strLit_n, strLit_r, strLit_t, if_true, if_false, List.append_assoc, List.append_nil, ctl, reduceCtorEq, Nat.reduceEqDiff, Nat.reduceLT] <;> rfl
                · simp only [h7, if_false]
                  by_cases h8 : m < 32
                  · simp only [h8, hslice, hadd, Ctl.ofRes_ok', Ctl.val_bind', Ctl.pure_eq', Rs.pushStr, Rs.loopStep_val', Rs.loopStep_cont', Ctl.ret_bind', strLit_bs, strLit_qt, strLit_b, strLit_f, strLit_n, strLit_r, strLit_t, if_true, if_false, List.append_assoc, List.append_nil, ctl]
                  · simp only [h8, hslice, hadd, Ctl.ofRes_ok', Ctl.val_bind', Ctl.pure_eq', Rs.pushStr, Rs.loopStep_val', Rs.loopStep_cont', Ctl.ret_bind', strLit_bs, strLit_qt, strLit_b, strLit_f, strLit_n, strLit_r, strLit_t, if_true, if_false, List.append_assoc, List.append_nil, ctl]
  · have hgt : (((pre.length + pend.length : Nat) : Int) > ((pre.length : Nat) : Int)) := by
      have : 0 < pend.length := List.length_pos_iff.mpr hp
      omega
    have hge : (((pre.length + pend.length : Nat) : Int) ≥ ((pre.length : Nat) : Int)) := by omega
    simp only [hgt, hge, decide_true, if_true]
    by_cases h1 : m = 92
    · subst h1; simp only [hslice, hadd, Ctl.ofRes_ok', Ctl.val_bind', Ctl.pure_eq', Rs.pushStr, Rs.loopStep_val', Rs.loopStep_cont', Ctl.ret_bind', strLit_bs, strLit_qt, strLit_b, strLit_f, strLit_n, strLit_r, strLit_t, if_true, if_false, List.append_assoc, List.append_nil, ctl, reduceCtorEq, Nat.reduceEqDiff, Nat.reduceLT] <;> rfl
    · simp only [h1, if_false]
      by_cases h2 : m = 34
      · subst h2; simp only [hslice, hadd, Ctl.ofRes_ok', Ctl.val_bind', Ctl.pure_eq', Rs.pushStr, Rs.loopStep_val', Rs.loopStep_cont', Ctl.ret_bind', strLit_bs, strLit_qt, strLit_b, strLit_f, strLit_n, strLit_r, strLit_t, if_true, if_false, List.append_assoc, List.append_nil, ctl, reduceCtorEq, Nat.reduceEqDiff, Nat.reduceLT] <;> rfl
      · simp only [h2, if_false]
        by_cases h3 : m = 8
        · subst h3; simp only [hslice, hadd, Ctl.ofRes_ok', Ctl.val_bind', Ctl.pure_eq', Rs.pushStr, Rs.loopStep_val', Rs.loopStep_cont', Ctl.ret_bind', strLit_bs, strLit_qt, strLit_b, strLit_f, strLit_n, strLit_r, strLit_t, if_true, if_false, List.append_assoc, List.append_nil, ctl, reduceCtorEq, Nat.reduceEqDiff, Nat.reduceLT] <;> rfl
        · simp only [h3, if_false]
          by_cases h4 : m = 12
          · subst h4; simp only [hslice, hadd, Ctl.ofRes_ok', Ctl.val_bind', Ctl.pure_eq', Rs.pushStr, Rs.loopStep_val', Rs.loopStep_cont', Ctl.ret_bind', strLit_bs, strLit_qt, strLit_b, strLit_f, strLit_n, strLit_r, strLit_t, if_true, if_false, List.append_assoc, List.append_nil, ctl, reduceCtorEq, Nat.reduceEqDiff, Nat.reduceLT] <;> rfl
          · simp only [h4, if_false]
            by_cases h5 : m = 10
            · subst h5; simp only [hslice, hadd, Ctl.ofRes_ok', Ctl.val_bind', Ctl.pure_eq', Rs.pushStr, Rs.loopStep_val', Rs.loopStep_cont', Ctl.ret_bind', strLit_bs, strLit_qt, strLit_b, strLit_f, strLit_n, strLit_r, strLit_t, if_true, if_false, List.append_assoc, List.append_nil, ctl, reduceCtorEq, Nat.reduceEqDiff, Nat.reduceLT] <;> rfl
            · simp only [h5, if_false]
              by_cases h6 : m = 13
              · subst h6; simp only [hslice, hadd, Ctl.ofRes_ok', Ctl.val_bind', Ctl.pure_eq', Rs.pushStr, Rs.loopStep_val', Rs.loopStep_cont', Ctl.ret_bind', strLit_bs, strLit_qt, strLit_b, strLit_f, strLit_n, strLit_r, strLit_t, if_true, if_false, List.append_assoc, List.append_nil, ctl, reduceCtorEq, Nat.reduceEqDiff, Nat.reduceLT] <;> rfl
              · simp only [h6, if_false]
                by_cases h7 : m = 9
                · subst h7; simp only [hslice, hadd, Ctl.ofRes_ok', Ctl.val_bind', Ctl.pure_eq', Rs.pushStr, Rs.loopStep_val', Rs.loopStep_cont', Ctl.ret_bind', strLit_bs, strLit_qt, strLit_b, strLit_f, strLit_n, strLit_r, strLit_t, if_true, if_false, List.append_assoc, List.append_nil, ctl, reduceCtorEq, Nat.reduceEqDiff, Nat.reduceLT] <;> rfl
                · simp only [h7, if_false]
                  by_cases h8 : m < 32
                  · simp only [h8, hslice, hadd, Ctl.ofRes_ok', Ctl.val_bind', Ctl.pure_eq', Rs.pushStr, Rs.loopStep_val', Rs.loopStep_cont', Ctl.ret_bind', strLit_bs, strLit_qt, strLit_b, strLit_f, strLit_n, strLit_r, strLit_t, if_true, if_false, List.append_assoc, List.append_nil, ctl]
                  · simp only [h8, hslice, hadd, Ctl.ofRes_ok', Ctl.val_bind', Ctl.pure_eq', Rs.pushStr, Rs.loopStep_val', Rs.loopStep_cont', Ctl.ret_bind', strLit_bs, strLit_qt, strLit_b, strLit_f, strLit_n, strLit_r, strLit_t, if_true, if_false, List.append_assoc, List.append_nil, ctl]


/-- the whole `for i in start..end` loop over the bytes `rest`, entered with the pending run `pend` -/
theorem esc_run (value post : Bytes) (hlen : value.length < 18446744073709551616) :
    ∀ (rest pre pend json : Bytes), value = pre ++ (pend ++ (rest ++ post)) →
      ∃ pre', value = pre' ++ ((escLoop json pend rest).2 ++ post) ∧
        Rs.forRangeAux (Tr.escape_scalar_string.loop1 value) rest.length ((pre.length + pend.length : Nat) : Int)
            (json, ((pre.length : Nat) : Int))
          = Ctl.val ((escLoop json pend rest).1, ((pre'.length : Nat) : Int)) := by
  intro rest
  induction rest with
  | nil => intro pre pend json hv; exact ⟨pre, by simpa [escLoop] using hv, by simp [escLoop, Rs.forRangeAux]⟩
  | cons b rest ih =>
    intro pre pend json hv
    have hstep := esc_loop1_step value pre pend (rest ++ post) b json (by simpa using hv) hlen
    cases he : escLit b with
    | some t =>
      rw [he] at hstep
      obtain ⟨pre', h1, h2⟩ := ih (pre ++ (pend ++ [b])) [] (json ++ Rs.fromUtf8Lossy pend ++ t) (by simp [hv])
      refine ⟨pre', by simpa [escLoop, he] using h1, ?_⟩
      rw [List.length_cons, Rs.forRangeAux_next _ _ _ _ _ hstep]
      simp only [escLoop, he]
      rw [← h2]
      congr 2 <;> simp <;> omega
    | none =>
      rw [he] at hstep
      obtain ⟨pre', h1, h2⟩ := ih pre (pend ++ [b]) json (by simp [hv])
      refine ⟨pre', by simpa [escLoop, he] using h1, ?_⟩
      rw [List.length_cons, Rs.forRangeAux_next _ _ _ _ _ hstep]
      simp only [escLoop, he]
      rw [← h2]
      congr 2 <;> simp <;> omega

/-- the string the function appends for the bytes `p`: opening quote, the loop, the last pending
run, closing quote -/
def escText (json p : Bytes) : Bytes :=
  (escLoop (json ++ [0x22]) [] p).1 ++ Rs.fromUtf8Lossy (escLoop (json ++ [0x22]) [] p).2 ++ [0x22]

/-- `escape_scalar_string(value, start, end, json)` for `start ≤ end ≤ value.len()`, every buffer
below `2^64` bytes, every byte content (well-formed UTF-8 or not): the translated function returns
`json` extended by `escText` of the slice — no panic, no fuel -/
theorem escape_scalar_string_run (value : Bytes) (s e : Nat) (json : Bytes)
    (hse : s ≤ e) (hel : e ≤ value.length) (hlen : value.length < 18446744073709551616) :
    Tr.escape_scalar_string value (s : Int) (e : Int) json =
      .ok (escText json ((value.drop s).take (e - s))) := by
  have hv : value = value.take s ++ ([] ++ ((value.drop s).take (e - s) ++ value.drop e)) := by
    have h1 : value.drop e = (value.drop s).drop (e - s) := by rw [List.drop_drop]; congr 1; omega
    rw [List.nil_append, h1, List.take_append_drop, List.take_append_drop]
  have hts : (value.take s).length = s := by simp; omega
  have hpl : ((value.drop s).take (e - s)).length = e - s := by simp; omega
  obtain ⟨pre', h1, h2⟩ := esc_run value (value.drop e) hlen ((value.drop s).take (e - s)) (value.take s) []
    (Rs.pushChar json 34) hv
  simp only [hts, hpl, List.length_nil, Nat.add_zero] at h2
  unfold Tr.escape_scalar_string
  simp only [Ctl.pure_eq', Ctl.val_bind', Rs.forRange_nat, h2]
  -- after the loop: `last_start = |pre'|`, the pending run ends at `end`
  generalize hr : escLoop (Rs.pushChar json 34) [] ((value.drop s).take (e - s)) = r at h1 h2 ⊢
  have hpush : Rs.pushChar json 34 = json ++ [0x22] := by simp [Rs.pushChar, Rs.encodeChar]
  have hlen2 : pre'.length + r.2.length = e := by
    have := congrArg List.length h1
    simp at this
    omega
  have hsl : Rs.slice value ((pre'.length : Nat) : Int) ((e : Nat) : Int) = .ok r.2 := by
    rw [Rs.slice_nat, if_pos (by omega)]
    rw [h1]
    simp [← hlen2]
  unfold escText
  rw [← hpush, hr]
  have hle' : ((pre'.length : Nat) : Int) ≤ (e : Int) := by omega
  by_cases hlt : pre'.length < e
  · have hlt' : ((pre'.length : Nat) : Int) < (e : Int) := by omega
    simp only [hlt', hle', decide_true, if_true, hsl, Ctl.ofRes_ok', Ctl.val_bind', Ctl.pure_eq', Rs.pushStr, Rs.pushChar,
      Ctl.run_ret']
    simp [Rs.encodeChar]
  · have hlt' : ¬ (((pre'.length : Nat) : Int) < (e : Int)) := by omega
    have hnil : r.2 = [] := List.eq_nil_of_length_eq_zero (by omega)
    rw [hnil] at hsl
    simp only [hlt', hle', decide_true, if_true, hsl, Ctl.ofRes_ok', Rs.pushStr, decide_false, Bool.false_eq_true, if_false,
      Ctl.val_bind', Ctl.pure_eq', Rs.pushChar, Ctl.run_ret', hnil, fromUtf8Lossy_nil, List.append_nil]
    simp [Rs.encodeChar]

/-! ### against the model's `escapeBytes` on well-formed UTF-8 -/

theorem escLitN_lt (m : Nat) (t : Bytes) (h : escLitN m = some t) : m < 128 := by
  unfold escLitN at h
  repeat' split at h
  all_goals first | omega | simp at h

theorem escLit_ascii (b : UInt8) (t : Bytes) (h : escLit b = some t) : b < 0x80 := by
  rw [escLit_toNat] at h
  have := escLitN_lt _ _ h
  exact UInt8.lt_iff_toNat_lt.mpr (by simpa using this)

/-- the model's escaper, one byte at a time, in terms of `escLit` -/
theorem escapeBytes_cons_lit (b : UInt8) (bs : Bytes) :
    Fn.escapeBytes (b :: bs) = (match escLit b with | some t => t | none => [b]) ++ Fn.escapeBytes bs := by
  rw [Fn.escapeBytes]
  congr 1
  unfold escLit
  repeat' split
  all_goals simp_all

theorem escLoop_valid : ∀ (rest json pend : Bytes), (∀ x ∈ pend, escLit x = none) →
    validUtf8 (pend ++ rest) = true →
    (escLoop json pend rest).1 ++ Rs.fromUtf8Lossy (escLoop json pend rest).2 = json ++ (pend ++ Fn.escapeBytes rest) := by
  intro rest
  induction rest with
  | nil =>
    intro json pend _ hv
    simp only [List.append_nil] at hv
    simp [escLoop, Rs.fromUtf8Lossy, utf8Lossy_valid' pend hv, Fn.escapeBytes]
  | cons b rest ih =>
    intro json pend hp hv
    rw [escapeBytes_cons_lit]
    cases he : escLit b with
    | some t =>
      have hb := escLit_ascii b t he
      obtain ⟨v1, v2⟩ := validUtf8_split pend b rest hb hv
      have := ih (json ++ Rs.fromUtf8Lossy pend ++ t) [] (by simp) (by simpa using v2)
      simp only [escLoop, he]
      rw [this]
      simp [Rs.fromUtf8Lossy, utf8Lossy_valid' pend v1]
    | none =>
      have := ih json (pend ++ [b]) (by
        intro x hx
        rcases List.mem_append.mp hx with h | h
        · exact hp x h
        · simp at h; subst h; exact he) (by simpa using hv)
      simp only [escLoop, he]
      rw [this]
      simp

/-- `escape_scalar_string` EQUALS the model's `Fn.escapeString` (appended to `json`) whenever the
slice is in range, `start ≤ end`, and its bytes are well-formed UTF-8 (what a JSONB string payload is;
on other bytes the Rust code substitutes U+FFFD through `from_utf8_lossy`, which the model's raw
copy does not do — `escape_scalar_string_run` covers that case) -/
theorem escape_scalar_string_agrees (value : Bytes) (s e : Nat) (json : Bytes)
    (hse : s ≤ e) (hel : e ≤ value.length) (hlen : value.length < 18446744073709551616)
    (hutf : validUtf8 ((value.drop s).take (e - s)) = true) :
    Tr.escape_scalar_string value (s : Int) (e : Int) json =
      (Fn.escapeString value s e).map (fun t => json ++ t) := by
  rw [escape_scalar_string_run value s e json hse hel hlen]
  unfold Fn.escapeString Jsonb.slice escText
  rw [if_pos ⟨hse, hel⟩]
  have := escLoop_valid ((value.drop s).take (e - s)) (json ++ [0x22]) [] (by simp) (by simpa using hutf)
  rw [this]
  simp [Res.map, Res.bind]

/-- Outside the domain: on an empty or reversed range the Rust code never looks at the buffer and
pushes `""`, also where the model's `&value[start..end]` panics (`start > end`, or `end` beyond the
buffer).  `scalar_to_string` and `container_to_string` call it with `end = start + length`. -/
theorem escape_scalar_string_empty_range (value : Bytes) (s e : Nat) (json : Bytes) (hse : e ≤ s) :
    Tr.escape_scalar_string value (s : Int) (e : Int) json = .ok (json ++ [0x22, 0x22]) := by
  have hlt : ¬ ((s : Int) < (e : Int)) := by omega
  have h0 : ((e : Int) - (s : Int)).toNat = 0 := by omega
  unfold Tr.escape_scalar_string
  simp only [Rs.forRange, h0, Rs.forRangeAux_zero, Ctl.pure_eq', Ctl.val_bind', hlt, decide_false, Bool.false_eq_true,
    if_false, Ctl.run_ret', Rs.pushChar]
  simp [Rs.encodeChar]

end Jsonb.TrAgree
