/-
C14, positive part: on the domain `D` (`Spec.inD`) the byte-level comparable keys produced by
`convert_to_comparable` sort bytewise exactly as the byte-level `compare` orders the documents.

  refinement (KeyRefine)  : convertToComparable (encodeSpec v) buf = ok (buf ++ keyOf 0 v)
  embedding  (KeyEmbed)   : lexCmp (keyOf 0 a) (keyOf 0 b) = cmpJV a b          on D
  compare    (CmpRefine)  : compareDocs (encodeSpec a) (encodeSpec b) = ok (cmpJV a b)
-/
import JsonbModel.Proofs.KeyRefine
import JsonbModel.Proofs.KeyEmbed
import JsonbModel.KeyOfDef

namespace Jsonb
open JV

/-- on `D` the walker does not overflow its `u8` depth and returns the tree-level key -/
theorem Fn.convertToComparable_inD (v : JV) (hg : goodTop v = true) (hd : Spec.inD v = true)
    (buf : Bytes) :
    Fn.convertToComparable (encodeSpec v) buf = .ok (buf ++ Spec.keyOf 0 v) :=
  Fn.convertToComparable_refines v hg (by have := Spec.cdepth_le_of_inD v hd; omega) buf

/-- `Props.keyOf` (the byte-level key of C14) is the tree-level key, for every good document
nested at most 255 deep -/
theorem Props.keyOf_eq (v : JV) (hg : goodTop v = true) (hd : Spec.cdepth v ≤ 255) :
    Props.keyOf v = Spec.keyOf 0 v := by
  unfold Props.keyOf
  rw [Fn.convertToComparable_refines v hg hd []]; rfl

/-- **C14 on `D`, against the documented order**: the byte-level keys of two good documents in
`D` compare bytewise as `Spec.cmpJV` orders the documents -/
theorem key_order_spec (a b : JV) (ga : goodTop a = true) (gb : goodTop b = true)
    (ha : Spec.inD a = true) (hb : Spec.inD b = true) (bufa bufb ka kb : Bytes)
    (hka : Fn.convertToComparable (encodeSpec a) bufa = .ok ka)
    (hkb : Fn.convertToComparable (encodeSpec b) bufb = .ok kb) :
    lexCmp (ka.drop bufa.length) (kb.drop bufb.length) = Spec.cmpJV a b := by
  rw [Fn.convertToComparable_inD a ga ha bufa] at hka
  rw [Fn.convertToComparable_inD b gb hb bufb] at hkb
  cases hka; cases hkb
  simp only [List.drop_left]
  exact Spec.key_embedding a b ha hb

/-- **C14 on `D`, byte level on both sides**: `convert_to_comparable` into empty buffers yields
keys whose bytewise order IS the result of `compare` on the two documents -/
theorem key_order_compare (a b : JV) (ga : goodTop a = true) (gb : goodTop b = true)
    (ha : Spec.inD a = true) (hb : Spec.inD b = true) :
    ∃ ka kb, Fn.convertToComparable (encodeSpec a) [] = .ok ka ∧
      Fn.convertToComparable (encodeSpec b) [] = .ok kb ∧
      Fn.compareDocs (encodeSpec a) (encodeSpec b) = .ok (lexCmp ka kb) := by
  refine ⟨_, _, Fn.convertToComparable_inD a ga ha [], Fn.convertToComparable_inD b gb hb [], ?_⟩
  rw [Fn.compareDocs_refines' a b ga gb]
  simp only [List.nil_append]
  rw [Spec.key_embedding a b ha hb]

/-- the same with the C14 key function -/
theorem C14_on_D (a b : JV) (ga : goodTop a = true) (gb : goodTop b = true)
    (ha : Spec.inD a = true) (hb : Spec.inD b = true) :
    Fn.compareDocs (encodeSpec a) (encodeSpec b) = .ok (lexCmp (Props.keyOf a) (Props.keyOf b)) ∧
    lexCmp (Props.keyOf a) (Props.keyOf b) = Spec.cmpJV a b := by
  have e1 := Props.keyOf_eq a ga (by have := Spec.cdepth_le_of_inD a ha; omega)
  have e2 := Props.keyOf_eq b gb (by have := Spec.cdepth_le_of_inD b hb; omega)
  rw [e1, e2, Spec.key_embedding a b ha hb, Fn.compareDocs_refines' a b ga gb]
  exact ⟨rfl, rfl⟩

/-- keys on `D` are injective up to `compare = Equal` -/
theorem C14_key_eq_iff (a b : JV) (ga : goodTop a = true) (gb : goodTop b = true)
    (ha : Spec.inD a = true) (hb : Spec.inD b = true) :
    Props.keyOf a = Props.keyOf b ↔ Fn.compareDocs (encodeSpec a) (encodeSpec b) = .ok .eq := by
  have h := C14_on_D a b ga gb ha hb
  rw [h.1, ← lexCmp_eq_iff]
  constructor
  · intro e; rw [e]
  · intro e; injection e

/-! ### the three known defect classes lie outside `D` (non-vacuity of the boundary) -/

-- (a) a string byte below 0x20
example : Spec.inD (arr [str [0x61, 0x01]]) = false := by decide
-- (b) an integer that is not exactly representable as a binary64
example : Spec.inD (num (.uint 9007199254740993)) = false := by decide
-- (c) the float -0.0
example : Spec.inD (num (.float 0x8000000000000000)) = false := by decide
-- ... while their harmless neighbours are inside
example : Spec.inD (arr [str [0x61], null]) = true := by decide
example : Spec.inD (num (.uint 9007199254740992)) = true := by decide
example : Spec.inD (num (.uint 0)) = true := by decide
example : Spec.inD (num (.float 0x7ff8000000000001)) = true := by decide          -- a NaN
example : Spec.inD (num (.int (-9007199254740992))) = true := by decide
example : Spec.inD (num (.uint 18446744073709549568)) = true := by decide          -- 2^64 - 2^11, exact
example : Spec.inD (obj [([0x61], arr [num (.float 0x3ff8000000000000), JV.bool true]),
    ([0x62], obj [])]) = true := by decide

/-! ### the depth bound of `D` is needed: beyond depth 0x20 printable bytes collide too

The mechanism of defect class (a) is "a string byte `≤` the depth byte of the record that follows
the string".  `Spec.keyable` states it exactly (a string met at depth `e` needs all bytes `> e`);
with 32 more levels of nesting the C14 witness works with the printable byte `'!'` = 0x21. -/

/-- `n` array wrappers around `v` -/
def nestArr : Nat → JV → JV
  | 0, v => v
  | n+1, v => arr [nestArr n v]

/-- `[[…["a", null]…]]` < `[[…["a!"]…]]` (strings at depth 33) by the documented order, but the
keys sort the other way: outside `D` only because of the nesting depth -/
theorem key_not_embedding_deep :
    Spec.cmpJV (nestArr 32 (arr [str [0x61], null])) (nestArr 32 (arr [str [0x61, 0x21]])) = .lt ∧
    lexCmp (Spec.keyOf 0 (nestArr 32 (arr [str [0x61], null])))
      (Spec.keyOf 0 (nestArr 32 (arr [str [0x61, 0x21]]))) = .gt ∧
    lexCmp (Props.keyOf (nestArr 32 (arr [str [0x61], null])))
      (Props.keyOf (nestArr 32 (arr [str [0x61, 0x21]]))) = .gt := by decide +kernel

/-- with 30 wrappers the strings sit at depth 31 (inside `D`); with 31 wrappers at depth 32
(outside `D`) -/
example : Spec.inD (nestArr 30 (arr [str [0x61, 0x21]])) = true := by decide +kernel
example : Spec.inD (nestArr 31 (arr [str [0x61, 0x21]])) = false := by decide +kernel

/-! ### the tree-level key agrees with the byte-level model on samples (replay of both models) -/

example : Props.keyOf (obj [([0x61], arr [num (.float 0x3ff8000000000000), JV.bool true, null]),
      ([0x62], obj [([0x63], str [0x64, 0x65])]), ([0x66], num (.int (-7)))])
    = Spec.keyOf 0 (obj [([0x61], arr [num (.float 0x3ff8000000000000), JV.bool true, null]),
      ([0x62], obj [([0x63], str [0x64, 0x65])]), ([0x66], num (.int (-7)))]) := by decide +kernel
example : Spec.keyOf 0 (arr [str [0x61], null]) = [0, 6, 1, 4, 0x61, 1, 7] := by decide +kernel
example : Spec.keyOf 0 (obj [([0x6b], JV.bool false)]) = [0, 5, 1, 4, 0x6b, 1, 1] := by decide +kernel
example : Spec.keyOf 0 (num (.uint 1)) = [0, 3, 0xbf, 0xf0, 0, 0, 0, 0, 0, 0] := by decide +kernel

end Jsonb
