/-
Phase 5b, containment.  F20: the array branch of `contains_jsonb`: the search among the nested containers of the left
array = `Fn.containsNested`, one iteration of the outer loop, the loop over the collected elements of the right
array = `Fn.containsItems`.
-/
import JsonbModel.Proofs.TranslatedAgreeF19

set_option linter.unusedSimpArgs false
set_option linter.unusedVariables false

namespace Jsonb.TrAgree
open Jsonb.Rs

theorem cj_loop2_step (rec : Bytes → Bytes → Res Bool) (rval lval : Bytes) (cn : Bool) :
    Tr.contains_jsonb.loop2 rec rval lval cn =
      (Ctl.ofRes (rec lval rval) >>= fun b => if b = true then Ctl.val (.done true) else Ctl.val (.next cn)) := by
  unfold Tr.contains_jsonb.loop2
  cases rec lval rval with
  | err e => simp only [Ctl.ofRes_err', Ctl.ret_bind', Rs.loopStep_err']
  | panic s => simp only [Ctl.ofRes_panic', Ctl.ret_bind', Rs.loopStep_panic']
  | fuel => rfl
  | ok b =>
    cases b
    · simp [Ctl.ofRes_ok', Ctl.val_bind', Ctl.pure_eq', Rs.loopStep_val']
    · simp [Ctl.ofRes_ok', Ctl.val_bind', Ctl.ret_bind', Rs.loopStep_brk']

/-- the result of the search loop as a `Ctl` value of the enclosing loop body -/
def nestedExit (r : Res Bool) : Ctl (Rs.LoopCtl Bool Unit) Bool :=
  match r with
  | .ok b => .val b
  | .err e => .ret (.err e)
  | .panic s => .ret (.panic s)
  | .fuel => .ret .fuel

/-- `for l_nested_val in l_nested { if contains_jsonb(l_nested_val, r_val)? { contains_nested = true; break; } }` is the
model's `containsNested` -/
theorem cj_nested (rec : Bytes → Bytes → Res Bool) (rval : Bytes) (hr : rval.length < 9223372036854775808) :
    ∀ (ls : List (JE × Bytes)) (f : Nat), ContRecOK f rec → (∀ x ∈ ls, x.2.length < 9223372036854775808) →
      Fn.containsNested f ls rval ≠ .fuel → (Fn.containsNested f ls rval).isPanic = false →
      Rs.forIn (ls.map Prod.snd) false (Tr.contains_jsonb.loop2 rec rval) = nestedExit (Fn.containsNested f ls rval) := by
  intro ls
  induction ls with
  | nil =>
    intro f _ _ hne _
    cases f with
    | zero => simp [Fn.containsNested] at hne
    | succ f => simp [Fn.containsNested, Rs.forIn_nil, nestedExit]
  | cons x ls ih =>
    intro f hrec hlen hne hnp
    cases f with
    | zero => simp [Fn.containsNested] at hne
    | succ f =>
      obtain ⟨lj, lval⟩ := x
      have hstep := cj_loop2_step rec rval lval false
      simp only [List.map_cons]
      rw [Fn.containsNested] at hne hnp ⊢
      have hs1 : Fn.containsJsonb f lval rval ≠ .fuel := by
        intro c; rw [c] at hne; exact hne rfl
      have hp1 : (Fn.containsJsonb f lval rval).isPanic = false := by
        cases hc : Fn.containsJsonb f lval rval with
        | panic s => rw [hc] at hnp; simp [Res.isPanic] at hnp
        | _ => rfl
      have hcall := hrec f (by omega) lval rval (hlen (lj, lval) (by simp)) hr hs1 hp1
      rw [hcall] at hstep
      cases hc : Fn.containsJsonb f lval rval with
      | fuel => exact absurd hc hs1
      | panic s => rw [hc] at hp1; simp [Res.isPanic] at hp1
      | err e =>
        rw [hc] at hstep
        simp only [Ctl.ofRes_err', Ctl.ret_bind'] at hstep
        rw [Rs.forIn_ret _ _ _ _ _ hstep]; rfl
      | ok b =>
        rw [hc] at hstep hne hnp
        simp only [Ctl.ofRes_ok', Ctl.val_bind'] at hstep
        cases b with
        | true =>
          simp only [if_true] at hstep
          rw [Rs.forIn_done _ _ _ _ _ hstep]; rfl
        | false =>
          simp only [Bool.false_eq_true, if_false] at hstep
          rw [Rs.forIn_next _ _ _ _ _ hstep]
          exact ih f (hrec.mono (by omega)) (fun y hy => hlen y (by simp [hy])) hne hnp

/-- the nested containers of the left array, as the source selects them -/
theorem nested_list (litems : List (JE × Bytes)) :
    List.map (fun (p : Tr.JEntry × Bytes) => p.2)
        (List.filter (fun (p : Tr.JEntry × Bytes) => decide (p.1.type_code = (C.CONTAINER_TAG : Int))) (litems.map ofItem)) =
      (litems.filter (fun it => it.1.ty == C.CONTAINER_TAG)).map Prod.snd := by
  induction litems with
  | nil => rfl
  | cons x xs ih =>
    obtain ⟨je, bs⟩ := x
    simp only [List.map_cons, List.filter_cons, ofItem, ofJE]
    by_cases h : je.ty = C.CONTAINER_TAG
    · have h1 : decide (((je.ty : Nat) : Int) = ((C.CONTAINER_TAG : Nat) : Int)) = true := by simp [h]
      have h2 : (je.ty == C.CONTAINER_TAG) = true := by simp [h]
      simp only [h1, h2, if_true, List.map_cons, ih, ofItem, ofJE]
    · have h1 : decide (((je.ty : Nat) : Int) = ((C.CONTAINER_TAG : Nat) : Int)) = false := by
        have : ¬ ((je.ty : Int) = (C.CONTAINER_TAG : Int)) := by omega
        simp [this]
      have h2 : (je.ty == C.CONTAINER_TAG) = false := by simp [h]
      simp only [h1, h2, Bool.false_eq_true, if_false, ih, ofItem, ofJE]

theorem cj_loop3_step (fuel : Nat) (rec : Bytes → Bytes → Res Bool) (left : Bytes) (lh : Nat) (it : JE × Bytes)
    (litems : List (JE × Bytes)) (hli : iterArray left lh = .ok litems) (hf : hdrLen lh < fuel)
    (hl : left.length < 9223372036854775808) (hv : it.2.length < 9223372036854775808) :
    Tr.contains_jsonb.loop3 fuel rec left (lh : Int) (ofItem it) () =
      if it.1.ty ≠ C.CONTAINER_TAG then
        (if litems.any (fun x => x.1.ty == it.1.ty && Fn.scalarEq x.1.ty x.2 it.2) = true then Ctl.val (.next ())
         else Ctl.ret (.ok false))
      else
        Rs.loopStep (Rs.forIn ((litems.filter (fun x => x.1.ty == C.CONTAINER_TAG)).map Prod.snd) false
            (Tr.contains_jsonb.loop2 rec it.2) >>= fun cn =>
          if cn = true then Ctl.val () else Ctl.ret (.ok (Rs.LoopCtl.ret false))) := by
  obtain ⟨rj, rval⟩ := it
  unfold Tr.contains_jsonb.loop3 ofItem ofJE
  dsimp only
  simp only [ne_dec, tag_eq]
  simp only [decide_eq_true_eq, ne_eq]
  by_cases h1 : rj.ty = C.CONTAINER_TAG
  · have h1' : ¬ ¬ rj.ty = C.CONTAINER_TAG := fun c => c h1
    have h1'' : ¬ ¬ C.CONTAINER_TAG = rj.ty := fun c => c h1.symm
    simp only [if_neg h1', if_neg h1'', iterate_array_agrees, Ctl.ofRes_ok', Ctl.val_bind',
      collectIter_of_drain _ fuel _ (litems.map ofItem) (drain_array_ok left lh fuel litems hf hli)]
    have hn := nested_list litems
    rw [hn]
    congr 1
    cases Rs.forIn ((litems.filter (fun x => x.1.ty == C.CONTAINER_TAG)).map Prod.snd) false
        (Tr.contains_jsonb.loop2 rec rval) with
    | ret r => rfl
    | val cn =>
      cases cn
      · simp [Ctl.val_bind', Ctl.ret_bind']
      · simp [Ctl.val_bind', Ctl.pure_eq']
  · have h1s : ¬ C.CONTAINER_TAG = rj.ty := fun c => h1 c.symm
    simp only [if_pos h1, if_pos h1s]
    rw [array_contains_agrees fuel left lh rval rj.ty rj.len litems hli hf hl hv]
    simp only [Fn.arrayContains, hli, Res.map, Res.bind, Ctl.ofRes_ok', Ctl.val_bind']
    cases litems.any (fun x => x.1.ty == rj.ty && Fn.scalarEq x.1.ty x.2 rval)
    · simp [Ctl.ret_bind', Rs.loopStep_ret']
    · simp [Ctl.pure_eq', Ctl.val_bind', Rs.loopStep_val']

/-- the loop over the elements of the right array is the model's `containsItems` -/
theorem cj_items (fuel : Nat) (rec : Bytes → Bytes → Res Bool) (left : Bytes) (lh : Nat)
    (litems : List (JE × Bytes)) (hli : iterArray left lh = .ok litems) (hf : hdrLen lh < fuel)
    (hl : left.length < 9223372036854775808) :
    ∀ (ritems : List (JE × Bytes)) (f : Nat), ContRecOK f rec →
      (∀ x ∈ ritems, x.2.length < 9223372036854775808) →
      Fn.containsItems f left lh litems ritems ≠ .fuel → (Fn.containsItems f left lh litems ritems).isPanic = false →
      finishT (Rs.forIn (ritems.map ofItem) () (Tr.contains_jsonb.loop3 fuel rec left (lh : Int))) =
        Fn.containsItems f left lh litems ritems := by
  have hll : ∀ x ∈ litems, x.2.length < 9223372036854775808 := fun x hx => by
    have := iterArray_item_le left lh litems hli x hx; omega
  intro ritems
  induction ritems with
  | nil =>
    intro f _ _ hne _
    cases f with
    | zero => simp [Fn.containsItems] at hne
    | succ f => simp [Fn.containsItems, Rs.forIn_nil, finishT]
  | cons it ritems ih =>
    intro f hrec hlen hne hnp
    cases f with
    | zero => simp [Fn.containsItems] at hne
    | succ f =>
      have hstep := cj_loop3_step fuel rec left lh it litems hli hf hl (hlen it (by simp))
      obtain ⟨rj, rval⟩ := it
      have hlen' : ∀ x ∈ ritems, x.2.length < 9223372036854775808 := fun x hx => hlen x (by simp [hx])
      simp only [List.map_cons]
      rw [Fn.containsItems] at hne hnp ⊢
      dsimp only at hstep
      by_cases h1 : rj.ty ≠ C.CONTAINER_TAG
      · rw [if_pos h1] at hstep hne hnp ⊢
        by_cases h2 : litems.any (fun x => x.1.ty == rj.ty && Fn.scalarEq x.1.ty x.2 rval) = true
        · rw [if_pos h2] at hstep hne hnp ⊢
          rw [Rs.forIn_next _ _ _ _ _ hstep]
          exact ih f (hrec.mono (by omega)) hlen' hne hnp
        · rw [if_neg h2] at hstep ⊢
          rw [Rs.forIn_ret _ _ _ _ _ hstep]; rfl
      · rw [if_neg h1] at hstep hne hnp ⊢
        have hs1 : Fn.containsNested f (litems.filter (fun x => x.1.ty == C.CONTAINER_TAG)) rval ≠ .fuel := by
          intro c; rw [c] at hne; exact hne rfl
        have hp1 : (Fn.containsNested f (litems.filter (fun x => x.1.ty == C.CONTAINER_TAG)) rval).isPanic = false := by
          cases hc : Fn.containsNested f (litems.filter (fun x => x.1.ty == C.CONTAINER_TAG)) rval with
          | panic s => rw [hc] at hnp; simp [Res.isPanic] at hnp
          | _ => rfl
        have hn := cj_nested rec rval (hlen (rj, rval) (by simp)) (litems.filter (fun x => x.1.ty == C.CONTAINER_TAG)) f
          (hrec.mono (by omega)) (fun x hx => hll x (List.mem_filter.1 hx).1) hs1 hp1
        rw [hn] at hstep
        cases hc : Fn.containsNested f (litems.filter (fun x => x.1.ty == C.CONTAINER_TAG)) rval with
        | fuel => exact absurd hc hs1
        | panic s => rw [hc] at hp1; simp [Res.isPanic] at hp1
        | err e =>
          rw [hc] at hstep
          simp only [nestedExit, Ctl.ret_bind', Rs.loopStep_err'] at hstep
          rw [Rs.forIn_ret _ _ _ _ _ hstep]; rfl
        | ok b =>
          rw [hc] at hstep hne hnp
          simp only [nestedExit, Ctl.val_bind'] at hstep
          cases b with
          | true =>
            simp only [if_true, Rs.loopStep_val'] at hstep
            rw [Rs.forIn_next _ _ _ _ _ hstep]
            exact ih f (hrec.mono (by omega)) hlen' hne hnp
          | false =>
            simp only [Bool.false_eq_true, if_false, Rs.loopStep_ret'] at hstep
            rw [Rs.forIn_ret _ _ _ _ _ hstep]; rfl

end Jsonb.TrAgree
