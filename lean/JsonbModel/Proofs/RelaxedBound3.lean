/-
Relaxed = crate, part 3: strings.

The crate reads a string in two passes (`parse_json_string` finds the closing quote and counts
escapes, `parse_string` + `parse_escaped_string` decode); the specification reads it in one
(`Relaxed.strBody` with `Relaxed.escape`).  `Scan d k` describes what the first pass steps over;
on such data the second pass and the specification's `escape` agree escape by escape
(`parseEscaped_agree`), hence on whole string bodies (`loop_agree`), and the specification only
accepts bodies of that shape (`strBody_shape`).  `string_agree` puts the passes together.
-/
import JsonbModel.Proofs.RelaxedBound2

namespace Jsonb
namespace RB
open Jsonb.JP Jsonb.SS

/-! ### Hex digits -/

theorem simpleEsc_eq (e : UInt8) : Relaxed.simpleEsc e = SS.simpleEsc e := rfl

theorem hex4_some {a b c e : UInt8} {u : Nat} (h : Relaxed.hex4 a b c e = some u) : Hex4 a b c e u := by
  unfold Relaxed.hex4 at h
  split at h
  · rename_i w x y z h1 h2 h3 h4
    simp only [Option.some.injEq] at h
    exact ⟨w, x, y, z, h1, h2, h3, h4, h.symm⟩
  · exact absurd h (by simp)

/-- `decode_hex_escape` on four bytes = the specification's `hex4` -/
theorem hexdec (a b c e : UInt8) :
    decodeHexEscape [a, b, c, e] 0 = match Relaxed.hex4 a b c e with
      | some u => .ok u
      | none => .err "InvalidHex" := by
  cases h1 : Strict.hexVal a with
  | none => simp [decodeHexEscape, decodeHexVal_eq, h1, Relaxed.hex4]
  | some w =>
    have := hexVal_lt h1
    cases h2 : Strict.hexVal b with
    | none =>
      simp only [decodeHexEscape, decodeHexVal_eq, bind_ok, h1, h2, Relaxed.hex4]
      rw [if_neg (by omega)]
    | some x =>
      have := hexVal_lt h2
      cases h3 : Strict.hexVal c with
      | none =>
        simp only [decodeHexEscape, decodeHexVal_eq, bind_ok, h1, h2, h3, Relaxed.hex4]
        rw [if_neg (by omega), if_neg (by omega)]
      | some y =>
        have := hexVal_lt h3
        cases h4 : Strict.hexVal e with
        | none =>
          simp only [decodeHexEscape, decodeHexVal_eq, bind_ok, h1, h2, h3, h4, Relaxed.hex4]
          rw [if_neg (by omega), if_neg (by omega), if_neg (by omega)]
        | some z =>
          rw [decodeHexEscape_Hex4 ⟨w, x, y, z, h1, h2, h3, h4, rfl⟩]
          simp only [Relaxed.hex4, h1, h2, h3, h4]

set_option maxRecDepth 100000 in
theorem hexVal_ascii_fin : ∀ k : Fin 256,
    (Strict.hexVal (UInt8.ofNat k.val)).isSome = true → k.val < 128 := by decide

theorem hexVal_ascii {v : UInt8} {n : Nat} (h : Strict.hexVal v = some n) : v.toNat < 128 := by
  have := hexVal_ascii_fin ⟨v.toNat, v.toNat_lt⟩
  simp only [UInt8.ofNat_toNat, h, Option.isSome_some, forall_const] at this
  exact this

theorem encodeUtf8_byte {v : UInt8} (h : v.toNat < 128) : encodeUtf8 v.toNat = [v] := by
  rw [encodeUtf8_ascii _ (by omega), UInt8.ofNat_toNat]

/-- `encode_invalid_unicode` of four hex digits = the six characters `\uXXXX` -/
theorem encodeInvalid_hex {a b c e : UInt8} {u : Nat} (h : Hex4 a b c e u) :
    encodeInvalidUnicode [a, b, c, e] = Relaxed.litEsc [a, b, c, e] := by
  obtain ⟨w, x, y, z, h1, h2, h3, h4, -⟩ := h
  simp only [encodeInvalidUnicode, List.map_cons, List.map_nil, List.flatten_cons, List.flatten_nil,
    encodeUtf8_byte (hexVal_ascii h1), encodeUtf8_byte (hexVal_ascii h2),
    encodeUtf8_byte (hexVal_ascii h3), encodeUtf8_byte (hexVal_ascii h4), Relaxed.litEsc]
  rfl

/-! ### What the first pass steps over -/

/-- `Scan d k`: the bytes `d` between the quotes, as the first pass of `parse_json_string` sees
them: plain bytes (neither quote nor backslash), two-byte escapes, `\u` + four bytes,
`\u{` + five bytes; `k` = number of escapes counted -/
inductive Scan : Bytes → Nat → Prop where
  | nil : Scan [] 0
  | plain (c : UInt8) (d : Bytes) (k : Nat) : c ≠ 0x5C → c ≠ 0x22 → Scan d k → Scan (c :: d) k
  | esc (c : UInt8) (d : Bytes) (k : Nat) : c ≠ 0x75 → Scan d k → Scan (0x5C :: c :: d) (k + 1)
  | escU (x a b c : UInt8) (d : Bytes) (k : Nat) : x ≠ 0x7B → Scan d k →
      Scan (0x5C :: 0x75 :: x :: a :: b :: c :: d) (k + 1)
  | escUB (a b c e f : UInt8) (d : Bytes) (k : Nat) : Scan d k →
      Scan (0x5C :: 0x75 :: 0x7B :: a :: b :: c :: e :: f :: d) (k + 1)

theorem Scan.escWF {d : Bytes} {k : Nat} (h : Scan d k) : EscWF d := by
  induction h with
  | nil => exact EscWF.nil
  | plain c d k h1 _ _ ih => exact EscWF.plain c d h1 ih
  | esc c d k h1 _ ih => exact EscWF.esc c d h1 ih
  | escU x a b c d k h1 _ ih => exact EscWF.escU x a b c d h1 ih
  | escUB a b c e f d k _ ih => exact EscWF.escUB a b c e f d ih

/-- without escapes there is no backslash -/
theorem Scan.plain_of_zero {d : Bytes} {k : Nat} (h : Scan d k) (hk : k = 0) : ∀ c ∈ d, c ≠ 0x5C := by
  induction h with
  | nil => intro c hc; simp at hc
  | plain c d k h1 _ _ ih =>
    intro x hx
    rcases List.mem_cons.mp hx with rfl | hx
    · exact h1
    · exact ih hk x hx
  | esc _ _ _ _ _ _ => omega
  | escU _ _ _ _ _ _ _ _ _ => omega
  | escUB _ _ _ _ _ _ _ _ _ => omega

theorem scanString_escUB {buf : Bytes} {i e : Nat} {s : Bytes}
    (h : buf.drop i = 0x5C :: 0x75 :: 0x7B :: s) :
    scanString buf i e = scanString buf (i + 8) (e + 1) := by
  have hlt := lt_of_drop_cons h
  rw [scanString, dif_pos hlt]
  simp [getElem_of_drop h hlt, next_view (drop_succ_of_drop h),
    next_view (drop_succ_of_drop (drop_succ_of_drop h)), C.UNICODE_LEN]

/-- first pass, forward: over `Scan` data followed by a quote the scanning loop ends just past
that quote with `k` more escapes -/
theorem scan_fwd {buf : Bytes} {d : Bytes} {k : Nat} (h : Scan d k) (r : Bytes) :
    ∀ (i e : Nat), buf.drop i = d ++ 0x22 :: r → scanString buf i e = .ok (i + d.length + 1, e + k) := by
  induction h with
  | nil => intro i e hd; simpa using scanString_quote (e := e) (by simpa using hd)
  | plain b d k h1 h2 _ ih =>
    intro i e hd
    have hd' : buf.drop i = b :: (d ++ 0x22 :: r) := by simpa using hd
    rw [scanString_plain hd' h1 h2, ih (i + 1) e (drop_succ_of_drop hd')]
    simp only [List.length_cons]; congr 2; omega
  | esc x d k h1 _ ih =>
    intro i e hd
    have hd' : buf.drop i = 0x5C :: x :: (d ++ 0x22 :: r) := by simpa using hd
    rw [scanString_esc2 hd' h1, ih (i + 2) (e + 1) (drop_succ_of_drop (drop_succ_of_drop hd'))]
    simp only [List.length_cons]; congr 2 <;> omega
  | escU x a b c d k h1 _ ih =>
    intro i e hd
    have hd' : buf.drop i = 0x5C :: 0x75 :: x :: ([a, b, c] ++ (d ++ 0x22 :: r)) := by simpa using hd
    have h6 : buf.drop (i + 6) = d ++ 0x22 :: r := by
      have := drop_add_of_drop (a := [0x5C, 0x75, x, a, b, c]) (b := d ++ 0x22 :: r) (by simpa using hd)
      simpa using this
    rw [scanString_escU hd' h1, ih (i + 6) (e + 1) h6]
    simp only [List.length_cons]; congr 2 <;> omega
  | escUB a b c x f d k _ ih =>
    intro i e hd
    have hd' : buf.drop i = 0x5C :: 0x75 :: 0x7B :: ([a, b, c, x, f] ++ (d ++ 0x22 :: r)) := by
      simpa using hd
    have h8 : buf.drop (i + 8) = d ++ 0x22 :: r := by
      have := drop_add_of_drop (a := [0x5C, 0x75, 0x7B, a, b, c, x, f]) (b := d ++ 0x22 :: r)
        (by simpa using hd)
      simpa using this
    rw [scanString_escUB hd', ih (i + 8) (e + 1) h8]
    simp only [List.length_cons]; congr 2 <;> omega

/-- first pass, backward: the `EscWF` data of `scanString_spec` is `Scan` data (no plain quote
inside) and the escape count is exact -/
theorem scan_upgrade {buf : Bytes} {d : Bytes} (hw : EscWF d) :
    ∀ (i e j e' : Nat) (r : Bytes), buf.drop i = d ++ 0x22 :: r → j = i + d.length + 1 →
      scanString buf i e = .ok (j, e') → ∃ k, Scan d k ∧ e' = e + k := by
  induction hw with
  | nil =>
    intro i e j e' r hd hj hs
    rw [scanString_quote (by simpa using hd)] at hs
    simp only [Res.ok.injEq, Prod.mk.injEq] at hs
    exact ⟨0, Scan.nil, by omega⟩
  | plain c d h1 _ ih =>
    intro i e j e' r hd hj hs
    have hd' : buf.drop i = c :: (d ++ 0x22 :: r) := by simpa using hd
    have h2 : c ≠ 0x22 := by
      intro hc; subst hc
      rw [scanString_quote hd'] at hs
      simp only [Res.ok.injEq, Prod.mk.injEq, List.length_cons] at hs hj
      omega
    rw [scanString_plain hd' h1 h2] at hs
    obtain ⟨k, hk, he⟩ := ih (i + 1) e j e' r (drop_succ_of_drop hd')
      (by simp only [List.length_cons] at hj; omega) hs
    exact ⟨k, Scan.plain c d k h1 h2 hk, he⟩
  | esc c d h1 _ ih =>
    intro i e j e' r hd hj hs
    have hd' : buf.drop i = 0x5C :: c :: (d ++ 0x22 :: r) := by simpa using hd
    rw [scanString_esc2 hd' h1] at hs
    obtain ⟨k, hk, he⟩ := ih (i + 2) (e + 1) j e' r (drop_succ_of_drop (drop_succ_of_drop hd'))
      (by simp only [List.length_cons] at hj; omega) hs
    exact ⟨k + 1, Scan.esc c d k h1 hk, by omega⟩
  | escU x a b c d h1 _ ih =>
    intro i e j e' r hd hj hs
    have hd' : buf.drop i = 0x5C :: 0x75 :: x :: ([a, b, c] ++ (d ++ 0x22 :: r)) := by simpa using hd
    have h6 : buf.drop (i + 6) = d ++ 0x22 :: r := by
      have := drop_add_of_drop (a := [0x5C, 0x75, x, a, b, c]) (b := d ++ 0x22 :: r) (by simpa using hd)
      simpa using this
    rw [scanString_escU hd' h1] at hs
    obtain ⟨k, hk, he⟩ := ih (i + 6) (e + 1) j e' r h6
      (by simp only [List.length_cons] at hj; omega) hs
    exact ⟨k + 1, Scan.escU x a b c d k h1 hk, by omega⟩
  | escUB a b c x f d _ ih =>
    intro i e j e' r hd hj hs
    have hd' : buf.drop i = 0x5C :: 0x75 :: 0x7B :: ([a, b, c, x, f] ++ (d ++ 0x22 :: r)) := by
      simpa using hd
    have h8 : buf.drop (i + 8) = d ++ 0x22 :: r := by
      have := drop_add_of_drop (a := [0x5C, 0x75, 0x7B, a, b, c, x, f]) (b := d ++ 0x22 :: r)
        (by simpa using hd)
      simpa using this
    rw [scanString_escUB hd'] at hs
    obtain ⟨k, hk, he⟩ := ih (i + 8) (e + 1) j e' r h8
      (by simp only [List.length_cons] at hj; omega) hs
    exact ⟨k + 1, Scan.escUB a b c x f d k hk, by omega⟩

/-! ### One escape: second pass vs specification -/

/-- agreement of a second-pass step with the specification: the crate's step on its data
returns the remaining data `d'` (again `Scan` data, at most `bound` bytes) and the output `out`
exactly when the specification, on the same data followed by `q`, returns `out` and `d' ++ q` -/
def AgreeE (bound : Nat) (q : Bytes) (x : Res (Bytes × Bytes)) (o : Option (Bytes × Bytes)) : Prop :=
  match x with
  | .ok (d', out) => (∃ k', Scan d' k') ∧ d'.length ≤ bound ∧ o = some (out, d' ++ q)
  | _ => o = none

theorem AgreeE_mono {b1 b2 : Nat} {q : Bytes} {x : Res (Bytes × Bytes)} {o : Option (Bytes × Bytes)}
    (h : AgreeE b1 q x o) (hb : b1 ≤ b2) : AgreeE b2 q x o := by
  cases x with
  | ok p =>
    obtain ⟨d', out⟩ := p
    obtain ⟨h1, h2, h3⟩ := h
    exact ⟨h1, by omega, h3⟩
  | err e => exact h
  | panic s => exact h
  | fuel => exact h

theorem uDigits_plain {x : UInt8} (a b c : UInt8) (hx : x ≠ 0x7B) (t : Bytes) :
    Relaxed.uDigits (x :: a :: b :: c :: t) =
      (Relaxed.hex4 x a b c).map (fun u => ([x, a, b, c], u, t)) := by
  have : (x == 0x7B) = false := by simpa using hx
  simp [Relaxed.uDigits, this]

theorem uDigits_brace (a b c e f : UInt8) (t : Bytes) :
    Relaxed.uDigits (0x7B :: a :: b :: c :: e :: f :: t) =
      if f == 0x7D then (Relaxed.hex4 a b c e).map (fun u => ([a, b, c, e], u, t)) else none := by
  simp [Relaxed.uDigits]

/-- the specification after a high surrogate escape that is followed by `\u` -/
def pairSpec (ds : Bytes) (u : Nat) (rest2 : Bytes) : Option (Bytes × Bytes) :=
  match Relaxed.uDigits rest2 with
  | none => none
  | some (ds2, l, rest3) =>
    if Relaxed.isLow l then
      some (Strict.encodeUtf8 (0x10000 + (u - 0xD800) * 1024 + (l - 0xDC00)), rest3)
    else some (Relaxed.litEsc ds ++ Relaxed.litEsc ds2, rest3)

/-- the specification once the second escape's digits are known -/
def lowSpec (ds ds2 : Bytes) (u : Nat) (o : Option Nat) (rest3 : Bytes) : Option (Bytes × Bytes) :=
  match o with
  | none => none
  | some l =>
    if Relaxed.isLow l then
      some (Strict.encodeUtf8 (0x10000 + (u - 0xD800) * 1024 + (l - 0xDC00)), rest3)
    else some (Relaxed.litEsc ds ++ Relaxed.litEsc ds2, rest3)

theorem pairSpec_map (ds ds2 : Bytes) (u : Nat) (o : Option Nat) (rest2 rest3 : Bytes)
    (h : Relaxed.uDigits rest2 = o.map (fun l => (ds2, l, rest3))) :
    pairSpec ds u rest2 = lowSpec ds ds2 u o rest3 := by
  unfold pairSpec lowSpec
  rw [h]
  cases o <;> rfl

/-- `pairLow` after the second escape's digits have been read -/
def lowTail (numbers lower : Bytes) (hex : Nat) (data : Bytes) : Res (Bytes × Bytes) := do
  let n2 ← decodeHexEscape lower 0
  if !(0xDC00 ≤ n2 ∧ n2 ≤ 0xDFFF) then
    pure (data, encodeInvalidUnicode numbers ++ encodeInvalidUnicode lower)
  else do
    let c ← pairCombine hex n2
    pure (data, encodeUtf8 c)

theorem pairLow_eq (numbers : Bytes) (hex : Nat) (data : Bytes) :
    pairLow numbers hex data = (do
      let (lower, data) ← readHex4 "parse_escaped_string(low surrogate):" data
      lowTail numbers lower hex data) := rfl

theorem lowTail_agree {numbers : Bytes} (hnum : encodeInvalidUnicode numbers = Relaxed.litEsc numbers)
    (a b c e : UInt8) {hex : Nat} (hh : Relaxed.isHigh hex) {d : Bytes} {k : Nat} (hd : Scan d k)
    (q : Bytes) :
    AgreeE d.length q (lowTail numbers [a, b, c, e] hex d)
      (lowSpec numbers [a, b, c, e] hex (Relaxed.hex4 a b c e) (d ++ q)) := by
  unfold lowTail lowSpec
  rw [hexdec]
  cases h4 : Relaxed.hex4 a b c e with
  | none => simp [AgreeE]
  | some l =>
    have hx := hex4_some h4
    simp only [bind_ok]
    by_cases hl : Relaxed.isLow l
    · have hl' : 0xDC00 ≤ l ∧ l ≤ 0xDFFF := hl
      have : (!decide (0xDC00 ≤ l ∧ l ≤ 0xDFFF)) = false := by simp [hl']
      simp only [this, Bool.false_eq_true, if_false, pairCombine_val hh hl', bind_ok, pure_eq, if_pos hl]
      exact ⟨⟨k, hd⟩, Nat.le_refl _, rfl⟩
    · have hl' : ¬ (0xDC00 ≤ l ∧ l ≤ 0xDFFF) := hl
      have : (!decide (0xDC00 ≤ l ∧ l ≤ 0xDFFF)) = true := by simp [hl']
      simp only [this, if_true, pure_eq, if_neg hl, hnum, encodeInvalid_hex hx]
      exact ⟨⟨k, hd⟩, Nat.le_refl _, rfl⟩

theorem pairLow_agree {numbers : Bytes} (hnum : encodeInvalidUnicode numbers = Relaxed.litEsc numbers)
    {hex : Nat} (hh : Relaxed.isHigh hex) {rest : Bytes} {k : Nat}
    (hs : Scan (0x5C :: 0x75 :: rest) k) (q : Bytes) :
    AgreeE rest.length q (pairLow numbers hex rest) (pairSpec numbers hex (rest ++ q)) := by
  rw [pairLow_eq]
  cases hs with
  | plain c d k h1 _ _ => exact absurd rfl h1
  | esc c d k h1 _ => exact absurd rfl h1
  | escU x a b c d k hx hd =>
    rw [readHex4_plain _ _ _ _ _ _ hx]
    simp only [bind_ok, List.cons_append]
    rw [pairSpec_map numbers [x, a, b, c] hex (Relaxed.hex4 x a b c) _ (d ++ q) (uDigits_plain a b c hx _)]
    exact AgreeE_mono (lowTail_agree hnum x a b c hh hd q) (by simp only [List.length_cons]; omega)
  | escUB a b c e f d k hd =>
    rw [readHex4_brace]
    simp only [List.cons_append]
    by_cases hf : f = 0x7D
    · subst hf
      simp only [bne_self_eq_false, Bool.false_eq_true, if_false, bind_ok]
      rw [pairSpec_map numbers [a, b, c, e] hex (Relaxed.hex4 a b c e) _ (d ++ q)
        (by rw [uDigits_brace]; simp)]
      exact AgreeE_mono (lowTail_agree hnum a b c e hh hd q) (by simp only [List.length_cons]; omega)
    · have hf1 : (f != 0x7D) = true := by simpa using hf
      have hf2 : (f == 0x7D) = false := by simpa using hf
      simp only [hf1, if_true, bind_err]
      show pairSpec _ _ _ = none
      unfold pairSpec
      rw [uDigits_brace, hf2]
      rfl

/-- the specification once the first escape's digits are known -/
def uSpec (ds : Bytes) (o : Option Nat) (rest : Bytes) : Option (Bytes × Bytes) :=
  match o with
  | none => none
  | some u => Relaxed.afterU ds u rest

theorem afterU_eq (ds : Bytes) (u : Nat) (rest : Bytes) :
    Relaxed.afterU ds u rest =
      if Relaxed.isLow u then some (Relaxed.litEsc ds, rest)
      else if Relaxed.isHigh u then
        (match Relaxed.afterBsU rest with
         | none => some (Relaxed.litEsc ds, rest)
         | some rest2 => pairSpec ds u rest2)
      else some (Strict.encodeUtf8 u, rest) := by
  unfold Relaxed.afterU pairSpec
  rfl

theorem afterBsU_quote (t : Bytes) : Relaxed.afterBsU (0x22 :: t) = none := by
  cases t <;> simp [Relaxed.afterBsU]

theorem afterBsU_one (c : UInt8) (t : Bytes) : Relaxed.afterBsU (c :: 0x22 :: t) = none := by
  simp [Relaxed.afterBsU]

theorem afterHex_agree (w x y z : UInt8) {d : Bytes} {k : Nat} (hd : Scan d k) (q0 : Bytes) :
    AgreeE d.length (0x22 :: q0) (afterHex [w, x, y, z] d)
      (uSpec [w, x, y, z] (Relaxed.hex4 w x y z) (d ++ 0x22 :: q0)) := by
  unfold afterHex uSpec
  rw [hexdec]
  cases h4 : Relaxed.hex4 w x y z with
  | none => simp [AgreeE]
  | some u =>
    have hx := hex4_some h4
    have hlt := Hex4_lt hx
    have hnum := encodeInvalid_hex hx
    have done : AgreeE d.length (0x22 :: q0) (Res.ok (d, encodeInvalidUnicode [w, x, y, z]))
        (some (Relaxed.litEsc [w, x, y, z], d ++ 0x22 :: q0)) := by
      rw [hnum]; exact ⟨⟨k, hd⟩, Nat.le_refl _, rfl⟩
    simp only [bind_ok]
    rw [afterU_eq]
    by_cases hl : 0xDC00 ≤ u ∧ u ≤ 0xDFFF
    · rw [if_pos hl, if_pos (show Relaxed.isLow u from hl)]
      exact done
    · rw [if_neg hl, if_neg (show ¬ Relaxed.isLow u from hl)]
      by_cases hh : 0xD800 ≤ u ∧ u ≤ 0xDBFF
      · rw [if_pos hh, if_pos (show Relaxed.isHigh u from hh)]
        match d, hd, done with
        | [], _, done =>
          rw [if_pos (by simp)]
          simp only [List.nil_append, afterBsU_quote]
          exact done
        | [c], _, done =>
          rw [if_pos (by simp)]
          simp only [List.cons_append, List.nil_append, afterBsU_one]
          exact done
        | d0 :: d1 :: rest, hd, done =>
          rw [if_neg (by simp)]
          simp only [data0, bind_ok, List.cons_append]
          by_cases h0 : d0 = 0x5C
          · subst h0
            simp only [beq_self_eq_true, if_true, bufIndex, List.getElem?_cons_succ,
              List.getElem?_cons_zero, bind_ok, pure_eq]
            by_cases h1 : d1 = 0x75
            · subst h1
              simp only [beq_self_eq_true, Bool.not_true, Bool.false_eq_true, if_false, dataFrom,
                List.length_cons, List.drop_succ_cons, List.drop_zero]
              rw [if_pos (by omega)]
              simp only [bind_ok, Relaxed.afterBsU, beq_self_eq_true, Bool.and_self, if_true]
              refine AgreeE_mono (pairLow_agree hnum hh hd (0x22 :: q0)) ?_
              omega
            · have e1 : (d1 == 0x75) = false := by simpa using h1
              simp only [e1, Bool.not_false, if_true, Relaxed.afterBsU, Bool.and_false,
                Bool.false_eq_true, if_false]
              exact done
          · have e0 : (d0 == 0x5C) = false := by simpa using h0
            simp only [e0, Bool.false_eq_true, if_false, pure_eq, bind_ok, Bool.not_false, if_true,
              Relaxed.afterBsU, Bool.false_and]
            exact done
      · rw [if_neg hh, if_neg (show ¬ Relaxed.isHigh u from hh), charFromU32_ok _ _ (by omega)]
        simp only [bind_ok, pure_eq]
        exact ⟨⟨k, hd⟩, Nat.le_refl _, rfl⟩

theorem parseEscaped_bad {c : UInt8} (h : SS.simpleEsc c = none) (hu : c ≠ 0x75) (d : Bytes) :
    parseEscaped (c :: d) = .err "InvalidEscaped" := by
  have h1 : (c == 0x22) = false := by
    by_cases hc : c = 0x22
    · subst hc; simp [SS.simpleEsc] at h
    · simpa using hc
  have h2 : (c == 0x5C) = false := by
    by_cases hc : c = 0x5C
    · subst hc; simp [SS.simpleEsc] at h
    · simpa using hc
  have h3 : (c == 0x2F) = false := by
    by_cases hc : c = 0x2F
    · subst hc; simp [SS.simpleEsc] at h
    · simpa using hc
  have h4 : (c == 0x62) = false := by
    by_cases hc : c = 0x62
    · subst hc; simp [SS.simpleEsc] at h
    · simpa using hc
  have h5 : (c == 0x66) = false := by
    by_cases hc : c = 0x66
    · subst hc; simp [SS.simpleEsc] at h
    · simpa using hc
  have h6 : (c == 0x6E) = false := by
    by_cases hc : c = 0x6E
    · subst hc; simp [SS.simpleEsc] at h
    · simpa using hc
  have h7 : (c == 0x72) = false := by
    by_cases hc : c = 0x72
    · subst hc; simp [SS.simpleEsc] at h
    · simpa using hc
  have h8 : (c == 0x74) = false := by
    by_cases hc : c = 0x74
    · subst hc; simp [SS.simpleEsc] at h
    · simpa using hc
  have h9 : (c == 0x75) = false := by simpa using hu
  simp only [parseEscaped, data0, dataFrom, bind_ok, List.length_cons, List.drop_succ_cons,
    List.drop_zero]
  rw [if_pos (by omega)]
  simp only [bind_ok, h1, h2, h3, h4, h5, h6, h7, h8, h9, Bool.false_eq_true, if_false]

theorem escape_u (t : Bytes) :
    Relaxed.escape (0x75 :: t) = match Relaxed.uDigits t with
      | none => none
      | some (ds, u, rest1) => Relaxed.afterU ds u rest1 := by
  simp [Relaxed.escape, Relaxed.simpleEsc]
  rfl

theorem escape_u_map (ds : Bytes) (o : Option Nat) (t rest1 : Bytes)
    (h : Relaxed.uDigits t = o.map (fun u => (ds, u, rest1))) :
    Relaxed.escape (0x75 :: t) = uSpec ds o rest1 := by
  rw [escape_u, h]
  cases o <;> rfl

/-- **one escape**: on first-pass data, `parse_escaped_string` and the specification's `escape`
agree: same output, same remaining input, or both fail -/
theorem parseEscaped_agree {rest : Bytes} {k : Nat} (hs : Scan (0x5C :: rest) k) (q0 : Bytes) :
    AgreeE (rest.length - 1) (0x22 :: q0) (parseEscaped rest)
      (Relaxed.escape (rest ++ 0x22 :: q0)) := by
  cases hs with
  | plain c d k h1 _ _ => exact absurd rfl h1
  | esc c d k hc hd =>
    cases hse : SS.simpleEsc c with
    | some x =>
      rw [parseEscaped_simple hse]
      simp only [List.cons_append, Relaxed.escape, simpleEsc_eq, hse]
      exact ⟨⟨k, hd⟩, by simp, rfl⟩
    | none =>
      rw [parseEscaped_bad hse hc]
      have e1 : (c == 0x75) = false := by simpa using hc
      simp only [List.cons_append, Relaxed.escape, simpleEsc_eq, hse, e1, Bool.false_eq_true, if_false]
      rfl
  | escU x a b c d k hx hd =>
    rw [parseEscaped_u, readHex4_plain _ _ _ _ _ _ hx]
    simp only [bind_ok, List.cons_append]
    rw [escape_u_map [x, a, b, c] (Relaxed.hex4 x a b c) _ (d ++ 0x22 :: q0) (uDigits_plain a b c hx _)]
    exact AgreeE_mono (afterHex_agree x a b c hd q0) (by simp only [List.length_cons]; omega)
  | escUB a b c e f d k hd =>
    rw [parseEscaped_u, readHex4_brace]
    simp only [List.cons_append]
    by_cases hf : f = 0x7D
    · subst hf
      simp only [bne_self_eq_false, Bool.false_eq_true, if_false, bind_ok]
      rw [escape_u_map [a, b, c, e] (Relaxed.hex4 a b c e) _ (d ++ 0x22 :: q0)
        (by rw [uDigits_brace]; simp)]
      exact AgreeE_mono (afterHex_agree a b c e hd q0) (by simp only [List.length_cons]; omega)
    · have hf1 : (f != 0x7D) = true := by simpa using hf
      have hf2 : (f == 0x7D) = false := by simpa using hf
      simp only [hf1, if_true, bind_err]
      show Relaxed.escape _ = none
      rw [escape_u, uDigits_brace, hf2]
      rfl

/-! ### Whole string bodies: second pass vs specification -/

theorem strBody_quote (f : Nat) (t : Bytes) : Relaxed.strBody (f + 1) (0x22 :: t) = some ([], t) := by
  simp [Relaxed.strBody]

theorem strBody_bs (f : Nat) (t : Bytes) :
    Relaxed.strBody (f + 1) (0x5C :: t) = match Relaxed.escape t with
      | none => none
      | some (out, rest) => (Relaxed.strBody f rest).map (fun (s, r) => (out ++ s, r)) := by
  simp only [Relaxed.strBody]
  rw [if_neg (by decide), if_pos (by decide)]
  rfl

theorem strBody_plain (f : Nat) {c : UInt8} (h1 : c ≠ 0x5C) (h2 : c ≠ 0x22) (t : Bytes) :
    Relaxed.strBody (f + 1) (c :: t) = (Relaxed.strBody f t).map (fun (s, r) => (c :: s, r)) := by
  have e1 : (c == 0x5C) = false := by simpa using h1
  have e2 : (c == 0x22) = false := by simpa using h2
  simp only [Relaxed.strBody, e1, e2, Bool.false_eq_true, if_false]

/-- agreement of the decoding loop (accumulator `acc`) with the specification on the data
followed by the closing quote and `sfx` -/
def AgreeL (acc sfx : Bytes) (x : Res Bytes) (o : Option (Bytes × Bytes)) : Prop :=
  match x with
  | .ok out => ∃ s, o = some (s, sfx) ∧ out = acc ++ s
  | _ => o = none

theorem AgreeL_map {acc sfx out : Bytes} {x : Res Bytes} {o : Option (Bytes × Bytes)}
    (h : AgreeL (acc ++ out) sfx x o) : AgreeL acc sfx x (o.map (fun (s, r) => (out ++ s, r))) := by
  cases x with
  | ok res =>
    obtain ⟨s, h1, h2⟩ := h
    exact ⟨out ++ s, by rw [h1]; rfl, by rw [h2, List.append_assoc]⟩
  | err e => have : o = none := h; subst this; rfl
  | panic e => have : o = none := h; subst this; rfl
  | fuel => have : o = none := h; subst this; rfl

/-- **string bodies**: on first-pass data `d` the decoding loop of `parse_string` returns `s`
exactly when the specification reads `s` from `d` followed by the closing quote -/
theorem loop_agree (q0 : Bytes) : ∀ (n : Nat) (d : Bytes) (k : Nat), d.length ≤ n → Scan d k →
    ∀ (f1 f2 : Nat) (acc : Bytes), d.length < f1 → d.length < f2 →
      AgreeL acc q0 (parseStringLoop f1 d acc) (Relaxed.strBody f2 (d ++ 0x22 :: q0)) := by
  intro n
  induction n with
  | zero =>
    intro d k hn hs f1 f2 acc h1 h2
    have : d = [] := List.eq_nil_of_length_eq_zero (by omega)
    subst this
    obtain ⟨g1, rfl⟩ : ∃ g, f1 = g + 1 := ⟨f1 - 1, by omega⟩
    obtain ⟨g2, rfl⟩ : ∃ g, f2 = g + 1 := ⟨f2 - 1, by omega⟩
    simp only [parseStringLoop, List.isEmpty_nil, if_true, List.nil_append, strBody_quote]
    exact ⟨[], rfl, by simp⟩
  | succ n ih =>
    intro d k hn hs f1 f2 acc h1 h2
    obtain ⟨g1, rfl⟩ : ∃ g, f1 = g + 1 := ⟨f1 - 1, by omega⟩
    obtain ⟨g2, rfl⟩ : ∃ g, f2 = g + 1 := ⟨f2 - 1, by omega⟩
    cases d with
    | nil =>
      simp only [parseStringLoop, List.isEmpty_nil, if_true, List.nil_append, strBody_quote]
      exact ⟨[], rfl, by simp⟩
    | cons c rest =>
      simp only [List.length_cons] at hn h1 h2
      have hl1 : 1 ≤ rest.length + 1 := by omega
      simp only [parseStringLoop, List.isEmpty_cons, Bool.false_eq_true, if_false, data0, bind_ok,
        dataFrom, List.length_cons, List.drop_succ_cons, List.drop_zero, hl1, if_true,
        List.cons_append]
      by_cases hc : c = 0x5C
      · subst hc
        simp only [beq_self_eq_true, if_true]
        have hpe := parseEscaped_agree hs q0
        rw [strBody_bs]
        cases hp : parseEscaped rest with
        | ok p =>
          obtain ⟨d', out⟩ := p
          rw [hp] at hpe
          obtain ⟨⟨k', hk'⟩, hlen, hesc⟩ := hpe
          simp only [bind_ok]
          rw [hesc]
          exact AgreeL_map (ih d' k' (by omega) hk' g1 g2 (acc ++ out) (by omega) (by omega))
        | err e =>
          rw [hp] at hpe
          have : Relaxed.escape (rest ++ 0x22 :: q0) = none := hpe
          rw [this]; rfl
        | panic e =>
          rw [hp] at hpe
          have : Relaxed.escape (rest ++ 0x22 :: q0) = none := hpe
          rw [this]; rfl
        | fuel =>
          rw [hp] at hpe
          have : Relaxed.escape (rest ++ 0x22 :: q0) = none := hpe
          rw [this]; rfl
      · have hcb : (c == 0x5C) = false := by simpa using hc
        simp only [hcb, Bool.false_eq_true, if_false]
        cases hs with
        | plain _ _ _ _ hq hd =>
          rw [strBody_plain g2 hc hq]
          exact AgreeL_map (out := [c]) (ih rest k (by omega) hd g1 g2 (acc ++ [c]) (by omega) (by omega))
        | esc _ _ _ _ _ => exact absurd rfl hc
        | escU _ _ _ _ _ _ _ _ => exact absurd rfl hc
        | escUB _ _ _ _ _ _ _ _ => exact absurd rfl hc

/-! ### What the specification accepts has the shape the first pass expects -/

theorem uDigits_shape {t ds : Bytes} {u : Nat} {rest1 : Bytes}
    (h : Relaxed.uDigits t = some (ds, u, rest1)) :
    ∃ tk, t = tk ++ rest1 ∧ ∀ d' k', Scan d' k' → Scan (0x5C :: 0x75 :: (tk ++ d')) (k' + 1) := by
  unfold Relaxed.uDigits at h
  split at h
  · exact absurd h (by simp)
  · rename_i x t'
    split at h
    · rename_i hx
      have hx' : x = 0x7B := by simpa using hx
      subst hx'
      split at h
      · rename_i a b c d y rest
        split at h
        · rename_i hy
          have hy' : y = 0x7D := by simpa using hy
          subst hy'
          obtain ⟨u', -, hu'⟩ := Option.map_eq_some_iff.mp h
          simp only [Prod.mk.injEq] at hu'
          obtain ⟨-, -, rfl⟩ := hu'
          exact ⟨[0x7B, a, b, c, d, 0x7D], rfl, fun d' k' hd' => Scan.escUB a b c d 0x7D d' k' hd'⟩
        · exact absurd h (by simp)
      · exact absurd h (by simp)
    · rename_i hx
      have hx' : x ≠ 0x7B := by simpa using hx
      split at h
      · rename_i b c d rest
        obtain ⟨u', -, hu'⟩ := Option.map_eq_some_iff.mp h
        simp only [Prod.mk.injEq] at hu'
        obtain ⟨-, -, rfl⟩ := hu'
        exact ⟨[x, b, c, d], rfl, fun d' k' hd' => Scan.escU x b c d d' k' hx' hd'⟩
      · exact absurd h (by simp)

theorem afterBsU_some {r r2 : Bytes} (h : Relaxed.afterBsU r = some r2) : r = 0x5C :: 0x75 :: r2 := by
  unfold Relaxed.afterBsU at h
  split at h
  · rename_i x y rest
    split at h
    · rename_i hxy
      simp only [Bool.and_eq_true, beq_iff_eq] at hxy
      simp only [Option.some.injEq] at h
      rw [hxy.1, hxy.2, h]
    · exact absurd h (by simp)
  · exact absurd h (by simp)

theorem escape_shape {bs out rest : Bytes} (h : Relaxed.escape bs = some (out, rest)) :
    ∃ tok, bs = tok ++ rest ∧ ∀ d' k', Scan d' k' → ∃ k, Scan (0x5C :: (tok ++ d')) k := by
  cases bs with
  | nil => simp [Relaxed.escape] at h
  | cons e r =>
    by_cases he : e = 0x75
    · subst he
      rw [escape_u] at h
      split at h
      · exact absurd h (by simp)
      · rename_i ds u rest1 hud
        obtain ⟨tk, htk, hsc⟩ := uDigits_shape hud
        have base : ∀ {out' : Bytes}, some (out', rest1) = some (out, rest) →
            ∃ tok, 0x75 :: r = tok ++ rest ∧ ∀ d' k', Scan d' k' → ∃ k, Scan (0x5C :: (tok ++ d')) k := by
          intro out' hh
          simp only [Option.some.injEq, Prod.mk.injEq] at hh
          obtain ⟨-, rfl⟩ := hh
          exact ⟨0x75 :: tk, by rw [htk]; rfl, fun d' k' hd' => ⟨k' + 1, hsc d' k' hd'⟩⟩
        rw [afterU_eq] at h
        split at h
        · exact base h
        · split at h
          · split at h
            · exact base h
            · rename_i rest2 hab
              have hr1 := afterBsU_some hab
              unfold pairSpec at h
              split at h
              · exact absurd h (by simp)
              · rename_i ds2 l rest3 hud2
                obtain ⟨tk2, htk2, hsc2⟩ := uDigits_shape hud2
                have fin : rest3 = rest → ∃ tok, 0x75 :: r = tok ++ rest ∧
                    ∀ d' k', Scan d' k' → ∃ k, Scan (0x5C :: (tok ++ d')) k := by
                  intro hr; subst hr
                  refine ⟨0x75 :: (tk ++ 0x5C :: 0x75 :: tk2), ?_, ?_⟩
                  · rw [htk, hr1, htk2]; simp
                  · intro d' k' hd'
                    refine ⟨k' + 1 + 1, ?_⟩
                    have := hsc (0x5C :: 0x75 :: (tk2 ++ d')) (k' + 1) (hsc2 d' k' hd')
                    simpa using this
                split at h
                · simp only [Option.some.injEq, Prod.mk.injEq] at h; exact fin h.2
                · simp only [Option.some.injEq, Prod.mk.injEq] at h; exact fin h.2
          · exact base h
    · cases hse : SS.simpleEsc e with
      | some c =>
        simp only [Relaxed.escape, simpleEsc_eq, hse, Option.some.injEq, Prod.mk.injEq] at h
        obtain ⟨-, rfl⟩ := h
        exact ⟨[e], rfl, fun d' k' hd' => ⟨k' + 1, Scan.esc e d' k' he hd'⟩⟩
      | none =>
        have e1 : (e == 0x75) = false := by simpa using he
        simp [Relaxed.escape, simpleEsc_eq, hse, e1] at h

/-- **shape**: whatever the specification reads as a string body is first-pass data followed by
the closing quote -/
theorem strBody_shape : ∀ (f : Nat) (bs s r : Bytes), Relaxed.strBody f bs = some (s, r) →
    ∃ d k, bs = d ++ 0x22 :: r ∧ Scan d k := by
  intro f
  induction f with
  | zero => intro bs s r h; simp [Relaxed.strBody] at h
  | succ f ih =>
    intro bs s r h
    cases bs with
    | nil => simp [Relaxed.strBody] at h
    | cons b bs =>
      by_cases hq : b = 0x22
      · subst hq
        rw [strBody_quote] at h
        simp only [Option.some.injEq, Prod.mk.injEq] at h
        obtain ⟨-, rfl⟩ := h
        exact ⟨[], 0, rfl, Scan.nil⟩
      · by_cases hb : b = 0x5C
        · subst hb
          rw [strBody_bs] at h
          split at h
          · exact absurd h (by simp)
          · rename_i out rest hesc
            obtain ⟨s', hs', -⟩ := map_some_inv (f := fun s => out ++ s) h
            obtain ⟨d', k', hd', hk'⟩ := ih rest s' r hs'
            obtain ⟨tok, htok, hsc⟩ := escape_shape hesc
            obtain ⟨k, hk⟩ := hsc d' k' hk'
            exact ⟨0x5C :: (tok ++ d'), k, by rw [htok, hd']; simp, hk⟩
        · rw [strBody_plain f hb hq] at h
          obtain ⟨s', hs', -⟩ := map_some_inv (f := fun s => b :: s) h
          obtain ⟨d', k', hd', hk'⟩ := ih bs s' r hs'
          exact ⟨b :: d', k', by rw [hd']; rfl, Scan.plain b d' k' hb hq hk'⟩

/-! ### The two passes together -/

/-- agreement of a cursor-based crate function with a specification function on the remaining
input: a returned value and cursor correspond to the same value and the remaining input at that
cursor; a failure corresponds to `none`; running out of the model's fuel says nothing -/
def Agree {α : Type} (buf : Bytes) (x : Res (α × Nat)) (o : Option (α × Bytes)) : Prop :=
  match x with
  | .ok (a, j) => o = some (a, buf.drop j)
  | .fuel => True
  | _ => o = none

theorem Agree_notOk {α : Type} {buf : Bytes} {x : Res (α × Nat)} {o : Option (α × Bytes)}
    (hx : NotOk x) (ho : o = none) : Agree buf x o := by
  cases x with
  | ok p => exact absurd rfl (hx p)
  | err e => exact ho
  | panic s => exact ho
  | fuel => trivial

theorem loop_plain : ∀ (d : Bytes), (∀ c ∈ d, c ≠ 0x5C) → ∀ (f : Nat) (acc : Bytes), d.length < f →
    parseStringLoop f d acc = .ok (acc ++ d) := by
  intro d
  induction d with
  | nil =>
    intro _ f acc hf
    obtain ⟨g, rfl⟩ : ∃ g, f = g + 1 := ⟨f - 1, by omega⟩
    simp [parseStringLoop]
  | cons c d ih =>
    intro hd f acc hf
    obtain ⟨g, rfl⟩ : ∃ g, f = g + 1 := ⟨f - 1, by omega⟩
    simp only [List.length_cons] at hf
    have hb : (c == 0x5C) = false := by simpa using hd c (by simp)
    simp only [parseStringLoop, List.isEmpty_cons, Bool.false_eq_true, if_false, data0, bind_ok,
      hb, dataFrom, List.length_cons, List.drop_succ_cons, List.drop_zero]
    rw [if_pos (by omega)]
    simp only [bind_ok]
    rw [ih (fun x hx => hd x (by simp [hx])) g (acc ++ [c]) (by omega)]
    simp

/-- **strings, both directions**: at an opening quote the crate's `parse_json_string` returns
`s` and a cursor exactly when the specification reads the string `s` and leaves the input at that
cursor; otherwise both fail -/
theorem string_agree {buf : Bytes} {i : Nat} {bs : Bytes} (h : buf.drop i = 0x22 :: bs) :
    Agree buf (parseJsonString buf i) ((Relaxed.string bs).map (fun (s, r) => (JV.str s, r))) := by
  have h1 := drop_succ_of_drop h
  -- if the first pass fails, the specification fails
  have hnone : NotOk (scanString buf (i + 1) 0) → Relaxed.string bs = none := by
    intro hno
    unfold Relaxed.string
    cases hsb : Relaxed.strBody (bs.length + 1) bs with
    | none => rfl
    | some p =>
      obtain ⟨s, r⟩ := p
      obtain ⟨d, k, hbs, hk⟩ := strBody_shape _ _ _ _ hsb
      exact absurd (scan_fwd hk r (i + 1) 0 (h1.trans hbs)) (hno _)
  unfold parseJsonString
  rw [mustIs_view h]
  simp only [bind_ok]
  obtain ⟨np, hsp⟩ := scanString_spec buf (i + 1) 0
  cases es : scanString buf (i + 1) 0 with
  | ok p =>
    obtain ⟨j, esc⟩ := p
    obtain ⟨d, hd, hj, hw, -, hl⟩ := hsp j esc es
    obtain ⟨k, hk, hek⟩ := scan_upgrade hw (i + 1) 0 j esc (buf.drop j) hd hj es
    have hbs : bs = d ++ 0x22 :: buf.drop j := h1.symm.trans hd
    have hlt := lt_of_drop_eq hd
    have hdata : (buf.take (j - 1)).drop (i + 1) = d := by
      have : j - 1 = i + 1 + d.length := by omega
      rw [this]; exact take_drop_of_drop_eq hd
    have s1 : subUsize "parse_json_string: self.idx - 1" j 1 = .ok (j - 1) := by
      unfold subUsize; rw [if_neg (by omega)]
    have s2 : slice "parse_json_string: buf[start_idx..idx-1]" buf (i + 1) (j - 1) = .ok d := by
      unfold slice; rw [if_neg (by omega), if_neg (by omega), hdata]
    have s3 : subUsize "parse_json_string: idx - 1 - start_idx" (j - 1) (i + 1) = .ok (j - 1 - (i + 1)) := by
      unfold subUsize; rw [if_neg (by omega)]
    have s4 : subUsize "parse_json_string: idx - 1 - start_idx - escapes" (j - 1 - (i + 1)) esc
        = .ok (j - 1 - (i + 1) - esc) := by
      unfold subUsize; rw [if_neg (by omega)]
    have hlen : bs.length = d.length + 1 + (buf.drop j).length := by rw [hbs]; simp; omega
    have hla := loop_agree (buf.drop j) d.length d k (Nat.le_refl _) hk (d.length + 1) (bs.length + 1) []
      (by omega) (by omega)
    rw [← hbs] at hla
    simp only [bind_ok, s1, s2]
    unfold Relaxed.string
    -- the common tail: the decoded bytes, then the UTF-8 check
    have tail : ∀ out, parseStringLoop (d.length + 1) d [] = .ok out →
        Agree buf (if validUtf8 out = true then (pure (JV.str out, j) : Res (JV × Nat))
            else .err "InvalidStringValue")
          ((match Relaxed.strBody (bs.length + 1) bs with
            | some (s, r) => if validUtf8 s = true then some (s, r) else none
            | none => none).map (fun (s, r) => (JV.str s, r))) := by
      intro out hout
      rw [hout] at hla
      obtain ⟨s, hs1, hs2⟩ := hla
      simp only [List.nil_append] at hs2
      subst hs2
      rw [hs1]
      by_cases hv : validUtf8 out = true
      · simp only [hv, if_true, pure_eq, Option.map_some]
        rfl
      · simp only [hv, Bool.false_eq_true, if_false, Option.map_none]
        rfl
    split
    · simp only [s3, s4, bind_ok, parseString]
      cases hpl : parseStringLoop (d.length + 1) d [] with
      | ok out =>
        simp only [bind_ok]
        have e : ((if validUtf8 out = true then (pure out : Res Bytes) else .err "InvalidStringValue") >>=
            fun s => (pure (JV.str s, j) : Res (JV × Nat))) =
            (if validUtf8 out = true then (pure (JV.str out, j) : Res (JV × Nat))
              else .err "InvalidStringValue") := by
          split <;> rfl
        rw [e]
        exact tail out hpl
      | err e =>
        rw [hpl] at hla
        have : Relaxed.strBody (bs.length + 1) bs = none := hla
        rw [this]; rfl
      | panic e =>
        rw [hpl] at hla
        have : Relaxed.strBody (bs.length + 1) bs = none := hla
        rw [this]; rfl
      | fuel => trivial
    · rename_i hesc
      have hk0 : k = 0 := by omega
      have hpl := loop_plain d (hk.plain_of_zero hk0) (d.length + 1) [] (by omega)
      simp only [List.nil_append] at hpl
      exact tail d hpl
  | err e => exact Agree_notOk (NotOk_err _) (by rw [hnone (by rw [es]; exact NotOk_err _)]; rfl)
  | panic e => exact absurd es (np e)
  | fuel => trivial

end RB
end Jsonb
