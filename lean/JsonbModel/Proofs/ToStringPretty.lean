/-
C-text, part C.7: the indented form.  The strict parser reads the walker's text in BOTH modes
(`rd fmt p ind v`, `p` = pretty) back as the same tree, and removing the insignificant
whitespace of the pretty text gives the compact text.
-/
import JsonbModel.Proofs.ToStringDoc

namespace Jsonb
open Fn Strict JV

/-! ### whitespace -/

def allWs (w : Bytes) : Prop := ∀ b ∈ w, isWs b = true

theorem allWs_nil : allWs [] := by intro b hb; simp at hb
theorem allWs_cons {b : UInt8} {w : Bytes} (hb : isWs b = true) (hw : allWs w) : allWs (b :: w) := by
  intro x hx
  simp only [List.mem_cons] at hx
  cases hx with
  | inl e => subst e; exact hb
  | inr e => exact hw x e
theorem allWs_append {a b : Bytes} (ha : allWs a) (hb : allWs b) : allWs (a ++ b) := by
  intro x hx
  rw [List.mem_append] at hx
  cases hx with
  | inl e => exact ha x e
  | inr e => exact hb x e
theorem allWs_spaces (n : Nat) : allWs (spaces n) := by
  intro b hb
  simp only [spaces, List.mem_replicate] at hb
  rw [hb.2]; decide

theorem skipWs_ws (w t : Bytes) (hw : allWs w) : skipWs (w ++ t) = skipWs t := by
  induction w with
  | nil => rfl
  | cons b w ih =>
    have hb : isWs b = true := hw b (by simp)
    simp only [List.cons_append, skipWs, hb, if_true]
    exact ih (fun x hx => hw x (by simp [hx]))

theorem skipWs_idem (bs : Bytes) : skipWs (skipWs bs) = skipWs bs := by
  induction bs with
  | nil => rfl
  | cons b t ih =>
    by_cases hb : isWs b = true
    · simp only [skipWs, hb, if_true]; exact ih
    · simp only [skipWs, hb, Bool.false_eq_true, if_false]

theorem value_skipWs (fuel : Nat) (bs : Bytes) : value fuel bs = value fuel (skipWs bs) := by
  cases fuel with
  | zero => simp [value]
  | succ f => simp only [value, skipWs_idem]

theorem value_ws (fuel : Nat) (w t : Bytes) (hw : allWs w) : value fuel (w ++ t) = value fuel t := by
  rw [value_skipWs, skipWs_ws w t hw, ← value_skipWs]

theorem elements_ws (fuel : Nat) (w t : Bytes) (hw : allWs w) : elements fuel (w ++ t) = elements fuel t := by
  cases fuel with
  | zero => simp [elements]
  | succ f => simp only [elements, value_ws f w t hw]

theorem members_ws (fuel : Nat) (w t : Bytes) (hw : allWs w) : members fuel (w ++ t) = members fuel t := by
  cases fuel with
  | zero => simp [members]
  | succ f => simp only [members, skipWs_ws w t hw]

theorem isWs_numEnd (b : UInt8) (t : Bytes) (hb : isWs b = true) : numEnd (b :: t) = true := by
  simp only [isWs, Bool.or_eq_true, beq_iff_eq] at hb
  rcases hb with ((h | h) | h) | h <;> subst h <;> simp [numEnd, isDigit]

theorem numEnd_ws_append (w t : Bytes) (hw : allWs w) (ht : numEnd t = true) : numEnd (w ++ t) = true := by
  cases w with
  | nil => exact ht
  | cons b w => exact isWs_numEnd b _ (hw b (by simp))

/-! ### the pieces of the walker's layout -/

def nlP (p : Bool) : Bytes := if p then [0x0A] else []
def spP (p : Bool) : Bytes := if p then [0x20] else []
def indP (p : Bool) (ind : Nat) : Bytes := if p then spaces ind else []
def closeP (p : Bool) (ind : Nat) : Bytes := if p then 0x0A :: spaces ind else []

theorem allWs_nlP (p : Bool) : allWs (nlP p) := by
  cases p
  · exact allWs_nil
  · exact allWs_cons (by decide) allWs_nil
theorem allWs_spP (p : Bool) : allWs (spP p) := by
  cases p
  · exact allWs_nil
  · exact allWs_cons (by decide) allWs_nil
theorem allWs_indP (p : Bool) (ind : Nat) : allWs (indP p ind) := by
  cases p
  · exact allWs_nil
  · exact allWs_spaces ind
theorem allWs_closeP (p : Bool) (ind : Nat) : allWs (closeP p ind) := by
  cases p
  · exact allWs_nil
  · exact allWs_cons (by decide) (allWs_spaces ind)

/-- elements after the first separator and indentation -/
def rdLn (fmt : Nat → Bytes) (p : Bool) (ind i : Nat) : List JV → Bytes
  | [] => []
  | v :: vs => rd fmt p ind v ++ rdL fmt p ind (i + 1) vs
def rdKn (fmt : Nat → Bytes) (p : Bool) (ind i : Nat) : List (Bytes × JV) → Bytes
  | [] => []
  | (k, v) :: kvs => quote k ++ (0x3A :: (spP p ++ (rd fmt p ind v ++ rdK fmt p ind (i + 1) kvs)))

theorem rd_arr (fmt : Nat → Bytes) (p : Bool) (ind : Nat) (vs : List JV) (rest : Bytes) :
    rd fmt p ind (.arr vs) ++ rest
      = 0x5B :: (nlP p ++ (rdL fmt p (ind + 2) 0 vs ++ (closeP p ind ++ 0x5D :: rest))) := by
  cases p <;> simp [rd, nlP, closeP]

theorem rd_obj (fmt : Nat → Bytes) (p : Bool) (ind : Nat) (kvs : List (Bytes × JV)) (rest : Bytes) :
    rd fmt p ind (.obj kvs) ++ rest
      = 0x7B :: (nlP p ++ (rdK fmt p (ind + 2) 0 kvs ++ (closeP p ind ++ 0x7D :: rest))) := by
  cases p <;> simp [rd, nlP, closeP]

theorem rdL_zero (fmt : Nat → Bytes) (p : Bool) (ind : Nat) (l : List JV) :
    rdL fmt p ind 0 l = (if l = [] then [] else indP p ind) ++ rdLn fmt p ind 0 l := by
  cases l with
  | nil => simp [rdL, rdLn]
  | cons v vs => cases p <;> simp [rdL, rdLn, indP]

theorem rdL_succ (fmt : Nat → Bytes) (p : Bool) (ind i : Nat) (l : List JV) (h : l ≠ []) :
    rdL fmt p ind (i + 1) l = 0x2C :: (nlP p ++ (indP p ind ++ rdLn fmt p ind (i + 1) l)) := by
  cases l with
  | nil => exact absurd rfl h
  | cons v vs => rw [rdL]; cases p <;> simp [rdLn, indP, nlP]

theorem rdK_zero (fmt : Nat → Bytes) (p : Bool) (ind : Nat) (l : List (Bytes × JV)) :
    rdK fmt p ind 0 l = (if l = [] then [] else indP p ind) ++ rdKn fmt p ind 0 l := by
  cases l with
  | nil => simp [rdK, rdKn]
  | cons kv kvs => obtain ⟨k, v⟩ := kv; cases p <;> simp [rdK, rdKn, indP, spP]

theorem rdK_succ (fmt : Nat → Bytes) (p : Bool) (ind i : Nat) (l : List (Bytes × JV)) (h : l ≠ []) :
    rdK fmt p ind (i + 1) l = 0x2C :: (nlP p ++ (indP p ind ++ rdKn fmt p ind (i + 1) l)) := by
  cases l with
  | nil => exact absurd rfl h
  | cons kv kvs => obtain ⟨k, v⟩ := kv; rw [rdK]; cases p <;> simp [rdKn, indP, nlP, spP]

theorem rd_head (fmt : Nat → Bytes) (p : Bool) (ind : Nat) (v : JV) (h : fmtOK fmt v) :
    ∃ b t, rd fmt p ind v = b :: t ∧ valStart b = true := by
  cases v with
  | null => exact ⟨_, _, rfl, by decide⟩
  | bool b => cases b <;> exact ⟨_, _, rfl, by decide⟩
  | num n =>
    obtain ⟨b, t, h1, h2⟩ := render_head fmt (.num n) h
    exact ⟨b, t, by simpa [rd, render] using h1, h2⟩
  | str s => exact ⟨_, _, rfl, by decide⟩
  | arr vs =>
    have := rd_arr fmt p ind vs []
    rw [List.append_nil] at this
    exact ⟨_, _, this, by decide⟩
  | obj kvs =>
    have := rd_obj fmt p ind kvs []
    rw [List.append_nil] at this
    exact ⟨_, _, this, by decide⟩

theorem rdLn_head (fmt : Nat → Bytes) (p : Bool) (ind i : Nat) (l : List JV) (hne : l ≠ [])
    (h : fmtOKL fmt l) : ∃ b t, rdLn fmt p ind i l = b :: t ∧ valStart b = true := by
  cases l with
  | nil => exact absurd rfl hne
  | cons v vs =>
    simp only [fmtOKL] at h
    obtain ⟨b, t, h1, h2⟩ := rd_head fmt p ind v h.1
    exact ⟨b, t ++ rdL fmt p ind (i + 1) vs, by simp [rdLn, h1], h2⟩

theorem rdKn_head (fmt : Nat → Bytes) (p : Bool) (ind i : Nat) (l : List (Bytes × JV)) (hne : l ≠ []) :
    ∃ t, rdKn fmt p ind i l = 0x22 :: t := by
  cases l with
  | nil => exact absurd rfl hne
  | cons kv kvs => obtain ⟨k, v⟩ := kv; exact ⟨_, by simp only [rdKn, quote, List.cons_append]; rfl⟩

/-! ### parser steps in the presence of whitespace -/

theorem value_arr_ws (fuel : Nat) (X : Bytes) (b : UInt8) (t : Bytes) (ws : List JV) (rest : Bytes)
    (hs : skipWs X = b :: t) (hb : b ≠ 0x5D) (h : elements fuel X = some (ws, rest)) :
    value (fuel + 1) (0x5B :: X) = some (.arr ws, rest) := by
  simp only [value, skipWs_cons _ (show isWs 0x5B = false by decide), hs]
  simp [hb, h]

theorem value_arr_nil_ws (fuel : Nat) (X rest : Bytes) (hs : skipWs X = 0x5D :: rest) :
    value (fuel + 1) (0x5B :: X) = some (.arr [], rest) := by
  simp only [value, skipWs_cons _ (show isWs 0x5B = false by decide), hs]
  simp

theorem value_obj_ws (fuel : Nat) (X : Bytes) (b : UInt8) (t : Bytes) (ws : List (Bytes × JV)) (rest : Bytes)
    (hs : skipWs X = b :: t) (hb : b ≠ 0x7D) (h : members fuel X = some (ws, rest)) :
    value (fuel + 1) (0x7B :: X) = some (.obj (mkObj ws), rest) := by
  simp only [value, skipWs_cons _ (show isWs 0x7B = false by decide), hs]
  simp [hb, h]

theorem value_obj_nil_ws (fuel : Nat) (X rest : Bytes) (hs : skipWs X = 0x7D :: rest) :
    value (fuel + 1) (0x7B :: X) = some (.obj [], rest) := by
  simp only [value, skipWs_cons _ (show isWs 0x7B = false by decide), hs]
  simp

theorem elements_last_ws (fuel : Nat) (bs : Bytes) (v : JV) (R rest : Bytes)
    (hv : value fuel bs = some (v, R)) (hs : skipWs R = 0x5D :: rest) :
    elements (fuel + 1) bs = some ([v], rest) := by
  simp [elements, hv, hs]

theorem elements_more_ws (fuel : Nat) (bs : Bytes) (v : JV) (R r : Bytes) (vs : List JV) (rest : Bytes)
    (hv : value fuel bs = some (v, R)) (hs : skipWs R = 0x2C :: r)
    (he : elements fuel r = some (vs, rest)) :
    elements (fuel + 1) bs = some (v :: vs, rest) := by
  simp [elements, hv, hs, he]

theorem members_last_ws (fuel : Nat) (k X r2 : Bytes) (v : JV) (R rest : Bytes) (hu : validUtf8 k = true)
    (hX : skipWs X = 0x3A :: r2) (hv : value fuel r2 = some (v, R)) (hs : skipWs R = 0x7D :: rest) :
    members (fuel + 1) (quote k ++ X) = some ([(k, v)], rest) := by
  rw [quote_append]
  have hsb := strBody_escape_len k X
  simp only [members, skipWs_cons _ (show isWs 0x22 = false by decide), hsb]
  simp [hu, hX, hv, hs]

theorem members_more_ws (fuel : Nat) (k X r2 : Bytes) (v : JV) (R r : Bytes) (kvs : List (Bytes × JV))
    (rest : Bytes) (hu : validUtf8 k = true)
    (hX : skipWs X = 0x3A :: r2) (hv : value fuel r2 = some (v, R)) (hs : skipWs R = 0x2C :: r)
    (hm : members fuel r = some (kvs, rest)) :
    members (fuel + 1) (quote k ++ X) = some ((k, v) :: kvs, rest) := by
  rw [quote_append]
  have hsb := strBody_escape_len k X
  simp only [members, skipWs_cons _ (show isWs 0x22 = false by decide), hsb]
  simp [hu, hX, hv, hs, hm]

theorem skipWs_ws_cons (w : Bytes) (b : UInt8) (t : Bytes) (hw : allWs w) (hb : isWs b = false) :
    skipWs (w ++ b :: t) = b :: t := by
  rw [skipWs_ws w _ hw, skipWs_cons _ hb]

/-! ### the strict parser reads the walker's text in both modes -/

mutual
theorem value_rd (fmt : Nat → Bytes) (p : Bool) : (v : JV) → good v = true → fmtOK fmt v → (ind fuel : Nat) →
    fv v ≤ fuel → (rest : Bytes) → numEnd rest = true →
    value fuel (rd fmt p ind v ++ rest) = some (reparse v, rest)
  | .null, hg, hok, ind, fuel, hf, rest, hr => by
    have := value_render fmt .null hg hok fuel hf rest hr
    simpa [rd, render] using this
  | .bool b, hg, hok, ind, fuel, hf, rest, hr => by
    have := value_render fmt (.bool b) hg hok fuel hf rest hr
    cases b <;> simpa [rd, render] using this
  | .num n, hg, hok, ind, fuel, hf, rest, hr => by
    have := value_render fmt (.num n) hg hok fuel hf rest hr
    simpa [rd, render] using this
  | .str s, hg, hok, ind, fuel, hf, rest, hr => by
    have := value_render fmt (.str s) hg hok fuel hf rest hr
    simpa [rd, render] using this
  | .arr vs, hg, hok, ind, fuel, hf, rest, _ => by
    cases fuel with
    | zero => simp [fv] at hf
    | succ f =>
      simp only [good, Bool.and_eq_true] at hg
      simp only [fmtOK] at hok
      simp only [fv] at hf
      rw [rd_arr, reparse]
      by_cases hvs : vs = []
      · subst hvs
        apply value_arr_nil_ws
        simp only [rdL, reparseL, List.nil_append]
        rw [← List.append_assoc]
        exact skipWs_ws_cons _ _ _ (allWs_append (allWs_nlP p) (allWs_closeP p ind)) (by decide)
      · rw [rdL_zero, if_neg hvs]
        have ih := elements_rd fmt p vs hvs hg.2 hok (ind + 2) 0 f (by omega)
          (nlP p ++ indP p (ind + 2)) (closeP p ind) rest
          (allWs_append (allWs_nlP p) (allWs_indP p _)) (allWs_closeP p ind)
        obtain ⟨b, t, h1, h2⟩ := rdLn_head fmt p (ind + 2) 0 vs hvs hok
        have e : nlP p ++ ((indP p (ind + 2) ++ rdLn fmt p (ind + 2) 0 vs) ++ (closeP p ind ++ 0x5D :: rest))
            = (nlP p ++ indP p (ind + 2)) ++ (rdLn fmt p (ind + 2) 0 vs ++ (closeP p ind ++ 0x5D :: rest)) := by
          simp
        rw [e]
        refine value_arr_ws f _ b (t ++ (closeP p ind ++ 0x5D :: rest)) _ rest ?_ (valStart_ne_close h2).1 ih
        rw [h1]
        exact skipWs_ws_cons _ _ _ (allWs_append (allWs_nlP p) (allWs_indP p _)) (valStart_notWs h2)
  | .obj kvs, hg, hok, ind, fuel, hf, rest, _ => by
    cases fuel with
    | zero => simp [fv] at hf
    | succ f =>
      simp only [good, Bool.and_eq_true] at hg
      simp only [fmtOK] at hok
      simp only [fv] at hf
      rw [rd_obj, reparse]
      by_cases hk : kvs = []
      · subst hk
        apply value_obj_nil_ws
        simp only [rdK, reparseK, List.nil_append]
        rw [← List.append_assoc]
        exact skipWs_ws_cons _ _ _ (allWs_append (allWs_nlP p) (allWs_closeP p ind)) (by decide)
      · rw [rdK_zero, if_neg hk]
        have ih := members_rd fmt p kvs hk hg.2 hok (ind + 2) 0 f (by omega)
          (nlP p ++ indP p (ind + 2)) (closeP p ind) rest
          (allWs_append (allWs_nlP p) (allWs_indP p _)) (allWs_closeP p ind)
        obtain ⟨t, h1⟩ := rdKn_head fmt p (ind + 2) 0 kvs hk
        have e : nlP p ++ ((indP p (ind + 2) ++ rdKn fmt p (ind + 2) 0 kvs) ++ (closeP p ind ++ 0x7D :: rest))
            = (nlP p ++ indP p (ind + 2)) ++ (rdKn fmt p (ind + 2) 0 kvs ++ (closeP p ind ++ 0x7D :: rest)) := by
          simp
        rw [e]
        have := value_obj_ws f _ 0x22 (t ++ (closeP p ind ++ 0x7D :: rest)) _ rest (by
          rw [h1]
          exact skipWs_ws_cons _ _ _ (allWs_append (allWs_nlP p) (allWs_indP p _)) (by decide))
          (by decide) ih
        rw [mkObj_sorted _ (by rw [keysSorted_reparseK]; exact hg.1.2)] at this
        exact this
theorem elements_rd (fmt : Nat → Bytes) (p : Bool) : (l : List JV) → l ≠ [] → goodL l = true →
    fmtOKL fmt l → (ind i fuel : Nat) → fl l ≤ fuel → (W C rest : Bytes) → allWs W → allWs C →
    elements fuel (W ++ (rdLn fmt p ind i l ++ (C ++ 0x5D :: rest))) = some (reparseL l, rest)
  | [], hne, _, _, _, _, _, _, _, _, _, _, _ => absurd rfl hne
  | v :: vs, _, hg, hok, ind, i, fuel, hf, W, C, rest, hW, hC => by
    simp only [fl] at hf
    cases fuel with
    | zero => omega
    | succ f =>
      simp only [goodL, Bool.and_eq_true] at hg
      simp only [fmtOKL] at hok
      rw [elements_ws _ W _ hW]
      simp only [rdLn, reparseL, List.append_assoc]
      by_cases hvs : vs = []
      · subst hvs
        simp only [rdL, reparseL, List.nil_append]
        have ih := value_rd fmt p v hg.1 hok.1 ind f (by omega) (C ++ 0x5D :: rest)
          (numEnd_ws_append C _ hC (numEnd_rbracket rest))
        exact elements_last_ws f _ _ _ rest ih (skipWs_ws_cons C _ _ hC (by decide))
      · rw [rdL_succ fmt p ind i vs hvs]
        simp only [List.cons_append, List.append_assoc]
        have ih1 := value_rd fmt p v hg.1 hok.1 ind f (by omega)
          (0x2C :: (nlP p ++ (indP p ind ++ (rdLn fmt p ind (i + 1) vs ++ (C ++ 0x5D :: rest)))))
          (numEnd_comma _)
        have ih2 := elements_rd fmt p vs hvs hg.2 hok.2 ind (i + 1) f (by omega)
          (nlP p ++ indP p ind) C rest (allWs_append (allWs_nlP p) (allWs_indP p ind)) hC
        rw [List.append_assoc] at ih2
        exact elements_more_ws f _ _ _ _ _ rest ih1 (skipWs_cons _ (by decide)) ih2
theorem members_rd (fmt : Nat → Bytes) (p : Bool) : (l : List (Bytes × JV)) → l ≠ [] → goodK l = true →
    fmtOKK fmt l → (ind i fuel : Nat) → fk l ≤ fuel → (W C rest : Bytes) → allWs W → allWs C →
    members fuel (W ++ (rdKn fmt p ind i l ++ (C ++ 0x7D :: rest))) = some (reparseK l, rest)
  | [], hne, _, _, _, _, _, _, _, _, _, _, _ => absurd rfl hne
  | (k, v) :: kvs, _, hg, hok, ind, i, fuel, hf, W, C, rest, hW, hC => by
    simp only [fk] at hf
    cases fuel with
    | zero => omega
    | succ f =>
      simp only [goodK, Bool.and_eq_true] at hg
      simp only [fmtOKK] at hok
      rw [members_ws _ W _ hW]
      simp only [rdKn, reparseK, List.append_assoc, List.cons_append]
      by_cases hk : kvs = []
      · subst hk
        simp only [rdK, reparseK, List.nil_append]
        have ih := value_rd fmt p v hg.1.2 hok.1 ind f (by omega) (C ++ 0x7D :: rest)
          (numEnd_ws_append C _ hC (numEnd_rbrace rest))
        rw [← value_ws f (spP p) _ (allWs_spP p)] at ih
        exact members_last_ws f k _ _ _ _ rest hg.1.1.2 (skipWs_cons _ (by decide)) ih
          (skipWs_ws_cons C _ _ hC (by decide))
      · rw [rdK_succ fmt p ind i kvs hk]
        simp only [List.cons_append, List.append_assoc]
        have ih1 := value_rd fmt p v hg.1.2 hok.1 ind f (by omega)
          (0x2C :: (nlP p ++ (indP p ind ++ (rdKn fmt p ind (i + 1) kvs ++ (C ++ 0x7D :: rest)))))
          (numEnd_comma _)
        rw [← value_ws f (spP p) _ (allWs_spP p)] at ih1
        have ih2 := members_rd fmt p kvs hk hg.2 hok.2 ind (i + 1) f (by omega)
          (nlP p ++ indP p ind) C rest (allWs_append (allWs_nlP p) (allWs_indP p ind)) hC
        rw [List.append_assoc] at ih2
        exact members_more_ws f k _ _ _ _ _ _ rest hg.1.1.2 (skipWs_cons _ (by decide)) ih1
          (skipWs_cons _ (by decide)) ih2
end

/-! ### whole texts, both modes -/

theorem value_rd_top (fmt : Nat → Bytes) (p : Bool) (v : JV) (hg : goodTop v = true) (hok : fmtOK fmt v)
    (ind fuel : Nat) (hf : fv v ≤ fuel) (rest : Bytes) (hr : numEnd rest = true) :
    value fuel (rd fmt p ind v ++ rest) = some (reparse v, rest) := by
  cases v with
  | null => exact value_rd fmt p _ (by simpa [goodTop] using hg) hok ind fuel hf rest hr
  | bool b => exact value_rd fmt p _ (by simpa [goodTop] using hg) hok ind fuel hf rest hr
  | num n => exact value_rd fmt p _ (by simpa [goodTop] using hg) hok ind fuel hf rest hr
  | str s => exact value_rd fmt p _ (by simpa [goodTop] using hg) hok ind fuel hf rest hr
  | arr vs =>
    cases fuel with
    | zero => simp [fv] at hf
    | succ f =>
      simp only [goodTop, Bool.and_eq_true] at hg
      simp only [fmtOK] at hok
      simp only [fv] at hf
      rw [rd_arr, reparse]
      by_cases hvs : vs = []
      · subst hvs
        apply value_arr_nil_ws
        simp only [rdL, reparseL, List.nil_append]
        rw [← List.append_assoc]
        exact skipWs_ws_cons _ _ _ (allWs_append (allWs_nlP p) (allWs_closeP p ind)) (by decide)
      · rw [rdL_zero, if_neg hvs]
        have ih := elements_rd fmt p vs hvs hg.2 hok (ind + 2) 0 f (by omega)
          (nlP p ++ indP p (ind + 2)) (closeP p ind) rest
          (allWs_append (allWs_nlP p) (allWs_indP p _)) (allWs_closeP p ind)
        obtain ⟨b, t, h1, h2⟩ := rdLn_head fmt p (ind + 2) 0 vs hvs hok
        have e : nlP p ++ ((indP p (ind + 2) ++ rdLn fmt p (ind + 2) 0 vs) ++ (closeP p ind ++ 0x5D :: rest))
            = (nlP p ++ indP p (ind + 2)) ++ (rdLn fmt p (ind + 2) 0 vs ++ (closeP p ind ++ 0x5D :: rest)) := by
          simp
        rw [e]
        refine value_arr_ws f _ b (t ++ (closeP p ind ++ 0x5D :: rest)) _ rest ?_ (valStart_ne_close h2).1 ih
        rw [h1]
        exact skipWs_ws_cons _ _ _ (allWs_append (allWs_nlP p) (allWs_indP p _)) (valStart_notWs h2)
  | obj kvs =>
    cases fuel with
    | zero => simp [fv] at hf
    | succ f =>
      simp only [goodTop, Bool.and_eq_true] at hg
      simp only [fmtOK] at hok
      simp only [fv] at hf
      rw [rd_obj, reparse]
      by_cases hk : kvs = []
      · subst hk
        apply value_obj_nil_ws
        simp only [rdK, reparseK, List.nil_append]
        rw [← List.append_assoc]
        exact skipWs_ws_cons _ _ _ (allWs_append (allWs_nlP p) (allWs_closeP p ind)) (by decide)
      · rw [rdK_zero, if_neg hk]
        have ih := members_rd fmt p kvs hk hg.2 hok (ind + 2) 0 f (by omega)
          (nlP p ++ indP p (ind + 2)) (closeP p ind) rest
          (allWs_append (allWs_nlP p) (allWs_indP p _)) (allWs_closeP p ind)
        obtain ⟨t, h1⟩ := rdKn_head fmt p (ind + 2) 0 kvs hk
        have e : nlP p ++ ((indP p (ind + 2) ++ rdKn fmt p (ind + 2) 0 kvs) ++ (closeP p ind ++ 0x7D :: rest))
            = (nlP p ++ indP p (ind + 2)) ++ (rdKn fmt p (ind + 2) 0 kvs ++ (closeP p ind ++ 0x7D :: rest)) := by
          simp
        rw [e]
        have := value_obj_ws f _ 0x22 (t ++ (closeP p ind ++ 0x7D :: rest)) _ rest (by
          rw [h1]
          exact skipWs_ws_cons _ _ _ (allWs_append (allWs_nlP p) (allWs_indP p _)) (by decide))
          (by decide) ih
        rw [mkObj_sorted _ (by rw [keysSorted_reparseK]; exact hg.1.2)] at this
        exact this

mutual
theorem fv_le_rd (fmt : Nat → Bytes) (p : Bool) : (v : JV) → fmtOK fmt v → (ind : Nat) →
    fv v ≤ (rd fmt p ind v).length
  | .null, _, _ => by simp [fv, rd]
  | .bool b, _, _ => by cases b <;> simp [fv, rd]
  | .num n, h, ind => by
    obtain ⟨b, t, h1, _⟩ := rd_head fmt p ind (.num n) h
    simp [fv, h1]
  | .str s, _, _ => by simp [fv, rd, quote]
  | .arr vs, h, ind => by
    simp only [fmtOK] at h
    have e := rd_arr fmt p ind vs []
    rw [List.append_nil] at e
    rw [e]
    cases vs with
    | nil => simp [fv, fl]
    | cons v vs =>
      simp only [fmtOKL] at h
      have h1 := fv_le_rd fmt p v h.1 (ind + 2)
      have h2 := fl_le_rd fmt p vs h.2 (ind + 2) 0
      simp only [fv, fl, rdL, List.length_cons, List.length_append]
      omega
  | .obj kvs, h, ind => by
    simp only [fmtOK] at h
    have e := rd_obj fmt p ind kvs []
    rw [List.append_nil] at e
    rw [e]
    cases kvs with
    | nil => simp [fv, fk]
    | cons kv kvs =>
      obtain ⟨k, v⟩ := kv
      simp only [fmtOKK] at h
      have h1 := fv_le_rd fmt p v h.1 (ind + 2)
      have h2 := fk_le_rd fmt p kvs h.2 (ind + 2) 0
      simp only [fv, fk, rdK, List.length_cons, List.length_append]
      omega
theorem fl_le_rd (fmt : Nat → Bytes) (p : Bool) : (l : List JV) → fmtOKL fmt l → (ind i : Nat) →
    fl l ≤ (rdL fmt p ind (i + 1) l).length
  | [], _, _, _ => by simp [fl]
  | v :: vs, h, ind, i => by
    simp only [fmtOKL] at h
    have h1 := fv_le_rd fmt p v h.1 ind
    have h2 := fl_le_rd fmt p vs h.2 ind (i + 1)
    rw [rdL_succ fmt p ind i (v :: vs) (by simp)]
    simp only [fl, rdLn, List.length_cons, List.length_append]
    omega
theorem fk_le_rd (fmt : Nat → Bytes) (p : Bool) : (l : List (Bytes × JV)) → fmtOKK fmt l → (ind i : Nat) →
    fk l ≤ (rdK fmt p ind (i + 1) l).length
  | [], _, _, _ => by simp [fk]
  | (k, v) :: kvs, h, ind, i => by
    simp only [fmtOKK] at h
    have h1 := fv_le_rd fmt p v h.1 ind
    have h2 := fk_le_rd fmt p kvs h.2 ind (i + 1)
    rw [rdK_succ fmt p ind i ((k, v) :: kvs) (by simp)]
    simp only [fk, rdKn, List.length_cons, List.length_append]
    omega
end

/-- the walker's text, compact or pretty, is strict JSON denoting the tree -/
theorem parse_rd (fmt : Nat → Bytes) (p : Bool) (v : JV) (hg : goodTop v = true) (hok : fmtOK fmt v) :
    Strict.parse (rd fmt p 0 v) = some (reparse v) := by
  have h := value_rd_top fmt p v hg hok 0 ((rd fmt p 0 v).length + 2)
    (by have := fv_le_rd fmt p v hok 0; omega) [] rfl
  rw [List.append_nil] at h
  simp [parse, h, skipWs]

/-- **C.7a** `to_pretty_string` (and `to_string`) output is strict RFC 8259 JSON denoting the same
document -/
theorem strict_toStringDoc (fmt : Nat → Bytes) (p : Bool) (v : JV) (hg : goodTop v = true)
    (hok : fmtOK fmt v) :
    ∃ text v', toStringDoc fmt p (encodeSpec v) = .ok text ∧ Strict.parse text = some v' ∧
      Spec.valEq v' v = true ∧ (Driver.allUnsigned v = true → v' = v) :=
  ⟨rd fmt p 0 v, reparse v, toStringDoc_rd fmt p v hg hok, parse_rd fmt p v hg hok,
    valEq_reparse v, reparse_allUnsigned v⟩

/-! ### a complete number token consists of number characters only -/

/-- neither whitespace nor a quote: copied by `stripWs false` without a mode change -/
def plainB (b : UInt8) : Prop := isWs b = false ∧ b ≠ 0x22

instance : DecidablePred plainB := fun b => by unfold plainB; infer_instance

theorem plain_digit {b : UInt8} (h : isDigit b = true) : plainB b :=
  ⟨isDigit_notWs h, by have := isDigit_toNat h; exact u8_ne_of_toNat (by simp; omega)⟩

theorem takeDigits_spec (s d r : Bytes) (h : takeDigits s = (d, r)) :
    s = d ++ r ∧ ∀ b ∈ d, isDigit b = true := by
  induction s generalizing d r with
  | nil =>
    simp only [takeDigits, Prod.mk.injEq] at h
    obtain ⟨rfl, rfl⟩ := h
    exact ⟨rfl, by intro b hb; simp at hb⟩
  | cons x xs ih =>
    rw [takeDigits_cons] at h
    by_cases hx : isDigit x = true
    · simp only [hx, if_true, Prod.mk.injEq] at h
      obtain ⟨rfl, h2⟩ := h
      obtain ⟨e, hall⟩ := ih (takeDigits xs).1 r (by rw [← h2])
      refine ⟨by rw [List.cons_append, ← e], ?_⟩
      intro b hb
      simp only [List.mem_cons] at hb
      cases hb with
      | inl e => subst e; exact hx
      | inr e => exact hall b e
    · simp only [hx, Bool.false_eq_true, if_false, Prod.mk.injEq] at h
      obtain ⟨rfl, rfl⟩ := h
      exact ⟨rfl, by intro b hb; simp at hb⟩

theorem nExpo_plain (r2 : Bytes) (ev : Int) (hasE : Bool) (h : nExpo r2 = some (ev, [], hasE)) :
    ∀ b ∈ r2, plainB b := by
  cases r2 with
  | nil => intro b hb; simp at hb
  | cons e t =>
    rw [nExpo_cons] at h
    by_cases he : (e == 0x65 || e == 0x45) = true
    · rw [if_pos he] at h
      by_cases hemp : (takeDigits (eSign t).2).1.isEmpty = true
      · rw [if_pos hemp] at h; exact absurd h (by simp)
      · rw [if_neg hemp] at h
        simp only [Option.some.injEq, Prod.mk.injEq] at h
        obtain ⟨_, h2, _⟩ := h
        obtain ⟨e1, hall⟩ := takeDigits_spec (eSign t).2 (takeDigits (eSign t).2).1 [] (by rw [← h2])
        rw [List.append_nil] at e1
        have hE : plainB e := by
          simp only [Bool.or_eq_true, beq_iff_eq] at he
          rcases he with rfl | rfl <;> exact ⟨by decide, by decide⟩
        have ht : ∀ b ∈ (eSign t).2, plainB b := by
          intro b hb; rw [e1] at hb; exact plain_digit (hall b hb)
        have hT : ∀ b ∈ t, plainB b := by
          cases t with
          | nil => intro b hb; simp at hb
          | cons c u =>
            rw [eSign_cons] at ht
            by_cases hc : c = 0x2D
            · rw [if_pos hc] at ht
              intro b hb
              simp only [List.mem_cons] at hb
              cases hb with
              | inl e => rw [e, hc]; exact ⟨by decide, by decide⟩
              | inr e => exact ht b e
            · rw [if_neg hc] at ht
              by_cases hc2 : c = 0x2B
              · rw [if_pos hc2] at ht
                intro b hb
                simp only [List.mem_cons] at hb
                cases hb with
                | inl e => rw [e, hc2]; exact ⟨by decide, by decide⟩
                | inr e => exact ht b e
              · rw [if_neg hc2] at ht; exact ht
        intro b hb
        simp only [List.mem_cons] at hb
        cases hb with
        | inl e => rw [e]; exact hE
        | inr e => exact hT b e
    · rw [if_neg he] at h
      simp at h

theorem nFrac_plain (r1 fp r2 : Bytes) (hasF : Bool) (h : nFrac r1 = (fp, r2, hasF))
    (h2 : ∀ b ∈ r2, plainB b) : ∀ b ∈ r1, plainB b := by
  cases r1 with
  | nil => intro b hb; simp at hb
  | cons c t =>
    rw [nFrac_cons] at h
    by_cases hc : c = 0x2E
    · rw [if_pos hc] at h
      simp only [Prod.mk.injEq] at h
      obtain ⟨_, hr, _⟩ := h
      obtain ⟨e1, hall⟩ := takeDigits_spec t (takeDigits t).1 r2 (by rw [← hr])
      intro b hb
      simp only [List.mem_cons] at hb
      cases hb with
      | inl e => rw [e, hc]; exact ⟨by decide, by decide⟩
      | inr e =>
        rw [e1, List.mem_append] at e
        cases e with
        | inl e => exact plain_digit (hall b e)
        | inr e => exact h2 b e
    · rw [if_neg hc] at h
      simp only [Prod.mk.injEq] at h
      obtain ⟨_, hr, _⟩ := h
      rw [hr]; exact h2

/-- every byte of a token that `Strict.number` consumes completely is a digit, sign, `.`, `e`
or `E`; in particular neither whitespace nor a quote -/
theorem number_plain (s : Bytes) (n : Num) (h : number s = some (n, [])) : ∀ b ∈ s, plainB b := by
  rcases hsg : nSign s with ⟨neg, r0⟩
  rcases htd : takeDigits r0 with ⟨ip, r1⟩
  rcases hfr : nFrac r1 with ⟨fp, r2, hasF⟩
  rw [number_stages s neg r0 ip r1 fp r2 hasF hsg htd hfr] at h
  by_cases c1 : ip.isEmpty = true
  · rw [if_pos c1] at h; exact absurd h (by simp)
  rw [if_neg c1] at h
  by_cases c2 : (decide (ip.length > 1) && ip.head? == some 0x30) = true
  · rw [if_pos c2] at h; exact absurd h (by simp)
  rw [if_neg c2] at h
  by_cases c3 : (hasF && fp.isEmpty) = true
  · rw [if_pos c3] at h; exact absurd h (by simp)
  rw [if_neg c3] at h
  cases hex : nExpo r2 with
  | none => rw [hex] at h; exact absurd h (by simp)
  | some q =>
    obtain ⟨ev, r3, hasE⟩ := q
    rw [hex] at h
    simp only [Option.some.injEq, Prod.mk.injEq] at h
    obtain ⟨_, rfl⟩ := h
    have p2 := nExpo_plain r2 ev hasE hex
    have p1 := nFrac_plain r1 fp r2 hasF hfr p2
    obtain ⟨e0, hall⟩ := takeDigits_spec r0 ip r1 htd
    have p0 : ∀ b ∈ r0, plainB b := by
      intro b hb
      rw [e0, List.mem_append] at hb
      cases hb with
      | inl e => exact plain_digit (hall b e)
      | inr e => exact p1 b e
    cases s with
    | nil => intro b hb; simp at hb
    | cons c t =>
      rw [nSign_cons] at hsg
      by_cases hc : c = 0x2D
      · rw [if_pos hc] at hsg
        simp only [Prod.mk.injEq] at hsg
        intro b hb
        simp only [List.mem_cons] at hb
        cases hb with
        | inl e => rw [e, hc]; exact ⟨by decide, by decide⟩
        | inr e => exact p0 b (by rw [← hsg.2]; exact e)
      · rw [if_neg hc] at hsg
        simp only [Prod.mk.injEq] at hsg
        rw [hsg.2]; exact p0

theorem numToString_plain (fmt : Nat → Bytes) (n : Num) (h : numOK fmt n) :
    ∀ b ∈ numToString fmt n, plainB b := by
  have hnat : ∀ m, ∀ b ∈ natDigits m, plainB b := fun m b hb => plain_digit (natDigits_all m b hb)
  cases n with
  | int i =>
    simp only [numToString, intDigits]
    split
    · intro b hb
      simp only [List.mem_cons] at hb
      cases hb with
      | inl e => rw [e]; exact ⟨by decide, by decide⟩
      | inr e => exact hnat _ b e
    · exact hnat _
  | uint m => exact hnat m
  | float b => exact number_plain _ _ h.2

/-! ### `stripWs` -/

theorem strip_ws (w t : Bytes) (hw : allWs w) : stripWs false (w ++ t) = stripWs false t := by
  induction w with
  | nil => rfl
  | cons b w ih =>
    have hb : isWs b = true := hw b (by simp)
    simp only [List.cons_append, stripWs, hb, if_true]
    exact ih (fun x hx => hw x (by simp [hx]))

theorem stripWs_false_cons (b : UInt8) (bs : Bytes) :
    stripWs false (b :: bs) = if isWs b then stripWs false bs else b :: stripWs (b == 0x22) bs := by
  rw [stripWs]
theorem stripWs_true_cons2 (b c : UInt8) (r : Bytes) :
    stripWs true (b :: c :: r) =
      if b == 0x5C then b :: c :: stripWs true r
      else b :: stripWs (b != 0x22) (c :: r) := by
  rw [stripWs]
theorem stripWs_true_cons_ne (b : UInt8) (bs : Bytes) (h : b ≠ 0x5C) :
    stripWs true (b :: bs) = b :: stripWs (b != 0x22) bs := by
  rw [stripWs.eq_def]; simp [h]

theorem strip_plain_cons (b : UInt8) (t : Bytes) (h : plainB b) :
    stripWs false (b :: t) = b :: stripWs false t := by
  rw [stripWs_false_cons]
  simp only [h.1, Bool.false_eq_true, if_false]
  rw [show (b == 0x22) = false by simp [h.2]]

theorem strip_plain (s t : Bytes) (h : ∀ b ∈ s, plainB b) : stripWs false (s ++ t) = s ++ stripWs false t := by
  induction s with
  | nil => rfl
  | cons b s ih =>
    rw [List.cons_append, strip_plain_cons b _ (h b (by simp)), ih (fun x hx => h x (by simp [hx]))]
    rfl

theorem stripT_bs (c : UInt8) (r : Bytes) : stripWs true (0x5C :: c :: r) = 0x5C :: c :: stripWs true r := by
  rw [stripWs_true_cons2]; simp

theorem stripT_plain (b : UInt8) (r : Bytes) (h1 : b ≠ 0x5C) (h2 : b ≠ 0x22) :
    stripWs true (b :: r) = b :: stripWs true r := by
  rw [stripWs_true_cons_ne b r h1, show (b != 0x22) = true by simp [h2]]

theorem stripT_escOne (b : UInt8) (X : Bytes) : stripWs true (escOne b ++ X) = escOne b ++ stripWs true X := by
  rcases escOne_cases b with h | h | h | h | h | h | h | h | h
  all_goals (try (obtain ⟨_, h⟩ := h; rw [h]; exact stripT_bs _ _))
  · obtain ⟨hlt, h⟩ := h
    have := u8_lt_toNat hlt
    rw [h]
    simp only [List.cons_append, List.nil_append]
    rw [stripT_bs, stripT_plain _ _ (by decide) (by decide),
      stripT_plain _ _ (by decide) (by decide),
      stripT_plain _ _ (hexLower_ne_bs _ (by omega)) (hexLower_ne_quote _ (by omega)),
      stripT_plain _ _ (hexLower_ne_bs _ (by omega)) (hexLower_ne_quote _ (by omega))]
  · obtain ⟨h1, h2, _, h⟩ := h
    rw [h]
    exact stripT_plain _ _ h1 h2

/-- inside a string `stripWs` copies the escaped text up to the closing quote -/
theorem stripT_escape (s t : Bytes) :
    stripWs true (escapeBytes s ++ 0x22 :: t) = escapeBytes s ++ 0x22 :: stripWs false t := by
  induction s with
  | nil =>
    simp only [escapeBytes, List.nil_append]
    rw [stripWs_true_cons_ne _ _ (by decide), show ((0x22 : UInt8) != 0x22) = false by decide]
  | cons x xs ih => rw [escapeBytes_cons, List.append_assoc, stripT_escOne, ih, List.append_assoc]

theorem strip_quote (s t : Bytes) : stripWs false (quote s ++ t) = quote s ++ stripWs false t := by
  rw [quote_append, quote_append]
  rw [stripWs_false_cons]
  simp only [show isWs 0x22 = false by decide, Bool.false_eq_true, if_false,
    show ((0x22 : UInt8) == 0x22) = true by decide, stripT_escape]

/-! ### C.7b: the pretty text minus insignificant whitespace is the compact text -/

theorem strip_b (b : UInt8) (t : Bytes) (h1 : isWs b = false) (h2 : b ≠ 0x22) :
    stripWs false (b :: t) = b :: stripWs false t := strip_plain_cons b t ⟨h1, h2⟩

mutual
theorem strip_rd (fmt : Nat → Bytes) : (v : JV) → fmtOK fmt v → (ind : Nat) → (t : Bytes) →
    stripWs false (rd fmt true ind v ++ t) = render fmt v ++ stripWs false t
  | .null, _, _, t => by
    simp only [rd, render]; exact strip_plain _ t (by decide)
  | .bool b, _, _, t => by
    cases b <;> simp only [rd, render] <;> exact strip_plain _ t (by decide)
  | .num n, h, _, t => by
    simp only [fmtOK] at h
    simp only [rd, render]; exact strip_plain _ t (numToString_plain fmt n h)
  | .str s, _, _, t => by
    simp only [rd, render]; exact strip_quote s t
  | .arr vs, h, ind, t => by
    simp only [fmtOK] at h
    rw [rd_arr, strip_b _ _ (by decide) (by decide), strip_ws _ _ (allWs_nlP true)]
    cases vs with
    | nil =>
      simp only [rdL, List.nil_append, render, renderL]
      rw [strip_ws _ _ (allWs_closeP true ind), strip_b _ _ (by decide) (by decide)]
      rfl
    | cons v vs =>
      simp only [fmtOKL] at h
      rw [rdL_zero, if_neg (by simp), List.append_assoc, strip_ws _ _ (allWs_indP true _)]
      simp only [rdLn, List.append_assoc]
      rw [strip_rd fmt v h.1, strip_rdL fmt vs h.2, strip_ws _ _ (allWs_closeP true ind),
        strip_b _ _ (by decide) (by decide)]
      simp [render, renderL_cons]
  | .obj kvs, h, ind, t => by
    simp only [fmtOK] at h
    rw [rd_obj, strip_b _ _ (by decide) (by decide), strip_ws _ _ (allWs_nlP true)]
    cases kvs with
    | nil =>
      simp only [rdK, List.nil_append, render, renderK]
      rw [strip_ws _ _ (allWs_closeP true ind), strip_b _ _ (by decide) (by decide)]
      rfl
    | cons kv kvs =>
      obtain ⟨k, v⟩ := kv
      simp only [fmtOKK] at h
      rw [rdK_zero, if_neg (by simp), List.append_assoc, strip_ws _ _ (allWs_indP true _)]
      simp only [rdKn, List.append_assoc, List.cons_append]
      rw [strip_quote, strip_b _ _ (by decide) (by decide), strip_ws _ _ (allWs_spP true),
        strip_rd fmt v h.1, strip_rdK fmt kvs h.2, strip_ws _ _ (allWs_closeP true ind),
        strip_b _ _ (by decide) (by decide)]
      simp [render, renderK_cons]
theorem strip_rdL (fmt : Nat → Bytes) : (l : List JV) → fmtOKL fmt l → (ind i : Nat) → (t : Bytes) →
    stripWs false (rdL fmt true ind (i + 1) l ++ t) = commaL fmt l ++ stripWs false t
  | [], _, _, _, t => by simp [rdL, commaL]
  | v :: vs, h, ind, i, t => by
    simp only [fmtOKL] at h
    rw [rdL_succ fmt true ind i (v :: vs) (by simp)]
    simp only [List.cons_append, List.append_assoc, rdLn]
    rw [strip_b _ _ (by decide) (by decide), strip_ws _ _ (allWs_nlP true), strip_ws _ _ (allWs_indP true _),
      strip_rd fmt v h.1, strip_rdL fmt vs h.2]
    rw [commaL, renderL_cons]
    simp
theorem strip_rdK (fmt : Nat → Bytes) : (l : List (Bytes × JV)) → fmtOKK fmt l → (ind i : Nat) → (t : Bytes) →
    stripWs false (rdK fmt true ind (i + 1) l ++ t) = commaK fmt l ++ stripWs false t
  | [], _, _, _, t => by simp [rdK, commaK]
  | (k, v) :: kvs, h, ind, i, t => by
    simp only [fmtOKK] at h
    rw [rdK_succ fmt true ind i ((k, v) :: kvs) (by simp)]
    simp only [List.cons_append, List.append_assoc, rdKn]
    rw [strip_b _ _ (by decide) (by decide), strip_ws _ _ (allWs_nlP true), strip_ws _ _ (allWs_indP true _),
      strip_quote, strip_b _ _ (by decide) (by decide), strip_ws _ _ (allWs_spP true),
      strip_rd fmt v h.1, strip_rdK fmt kvs h.2]
    rw [commaK, renderK_cons]
    simp
end

/-- **C.7b** `to_pretty_string` differs from `to_string` only by insignificant whitespace -/
theorem stripWs_pretty (fmt : Nat → Bytes) (v : JV) (hg : goodTop v = true) (hok : fmtOK fmt v) :
    ∃ tp t, toStringDoc fmt true (encodeSpec v) = .ok tp ∧ toStringDoc fmt false (encodeSpec v) = .ok t ∧
      Strict.stripWs false tp = t := by
  refine ⟨rd fmt true 0 v, render fmt v, toStringDoc_rd fmt true v hg hok, toStringDoc_render fmt v hg hok, ?_⟩
  have := strip_rd fmt v hok 0 []
  simpa [stripWs] using this

/-- everything `Driver.tostrCheck` tests, for every good document and every formatter that is
good on the floats of the document: the check can only answer `ok` -/
theorem tostr_all (fmt : Nat → Bytes) (v : JV) (hg : goodTop v = true) (hok : fmtOK fmt v) :
    ∃ t tp, toStringDoc fmt false (encodeSpec v) = .ok t ∧ toStringDoc fmt true (encodeSpec v) = .ok tp ∧
      Strict.parse t = some (reparse v) ∧ Strict.parse tp = some (reparse v) ∧
      Spec.valEq (reparse v) v = true ∧
      (Driver.allUnsigned v = true → encodeSpec (reparse v) = encodeSpec v) ∧
      Strict.stripWs false tp = t := by
  refine ⟨render fmt v, rd fmt true 0 v, toStringDoc_render fmt v hg hok, toStringDoc_rd fmt true v hg hok,
    parse_render fmt v hg hok, parse_rd fmt true v hg hok, valEq_reparse v,
    fun hu => by rw [reparse_allUnsigned v hu], ?_⟩
  have := strip_rd fmt v hok 0 []
  simpa [stripWs] using this

end Jsonb
