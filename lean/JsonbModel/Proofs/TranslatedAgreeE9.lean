/-
Agreement theorems, phase 5a, part 9: `traverse_check_string` (breadth-first over a growing queue of container
offsets, the predicate a function argument) = `Fn.traverseCheckString`; the whole functions `T.traverseCheckString`,
`T.existsAllKeys`, `T.existsAnyKeys`.
-/
import JsonbModel.Proofs.TranslatedAgreeE8

set_option linter.unusedSimpArgs false
set_option linter.unusedVariables false

namespace Jsonb.TrAgree
open Jsonb.Rs

/-! ## traverse_check_string

A breadth-first walk: a queue of container offsets (`VecDeque<usize>`) that GROWS inside its `while let` loop, so the
loop runs on the function's explicit `fuel`, which is exactly the fuel of the model's `Fn.traverseLoop`.  The
predicate `func` is a function argument.  `unreachable!("invalid jsonb value")` panics with the standard library's
wording; the model words it differently: the theorem is stated modulo the text of a panic (`panicAny`). -/

/-- the model's only error outcome is its encoding of `return true` -/
theorem traverseEntries_err (value : Bytes) (p : Bytes → Bool) : ∀ (n jo vo : Nat) (e : String),
    Fn.traverseEntries value p n jo vo = .err e → e = "found" := by
  intro n
  induction n with
  | zero => intro jo vo e h; simp [Fn.traverseEntries] at h
  | succ n ih =>
    intro jo vo e h
    rw [Fn.traverseEntries] at h
    cases hr : readU32At value jo with
    | none => simp [hr] at h
    | some w =>
      simp only [hr] at h
      by_cases h1 : jeType w = C.CONTAINER_TAG
      · simp only [h1, if_true] at h
        cases hq : Fn.traverseEntries value p n (jo + 4) (vo + jeLen w) with
        | ok o => cases o <;> simp [hq] at h
        | err e' => simp only [hq, Res.err.injEq] at h; subst h; exact ih _ _ _ hq
        | panic s => simp [hq] at h
        | fuel => simp [hq] at h
      · simp only [h1, if_false] at h
        by_cases h2 : jeType w = C.STRING_TAG
        · simp only [h2, if_true] at h
          cases hs : Jsonb.slice value vo (vo + jeLen w) with
          | ok s =>
            simp only [hs] at h
            by_cases hp : p s = true
            · simp only [hp, if_true, Res.err.injEq] at h; exact h.symm
            · simp only [hp, Bool.false_eq_true, if_false] at h; exact ih _ _ _ h
          | err e' => exact absurd hs (slice_ne_err _ _ _ _)
          | panic s => simp [hs] at h
          | fuel => simp [hs] at h
        · simp only [h2, if_false] at h; exact ih _ _ _ h

/-- one iteration of the inner `for _ in 0..size` loop -/
theorem tcs_loop1_step (value : Bytes) (p : Bytes → Bool) (i : Int) (q : List Nat) (jo vo : Nat)
    (hjo : jo + 4 < 18446744073709551616) (hvo : vo + 268435456 < 18446744073709551616) :
    Tr.traverse_check_string.loop1 value p i (natsI q, (jo : Int), (vo : Int)) =
      match readU32At value jo with
      | none => Ctl.ret (.ok (.ret false))
      | some w =>
        if jeType w = C.CONTAINER_TAG then
          Ctl.val (.next (natsI (q ++ [vo]), ((jo + 4 : Nat) : Int), ((vo + jeLen w : Nat) : Int)))
        else if jeType w = C.STRING_TAG then
          match Jsonb.slice value vo (vo + jeLen w) with
          | .ok s =>
            if p s then Ctl.ret (.ok (.ret true))
            else Ctl.val (.next (natsI q, ((jo + 4 : Nat) : Int), ((vo + jeLen w : Nat) : Int)))
          | .err e => Ctl.ret (.err e)
          | .panic s => Ctl.ret (.panic s)
          | .fuel => Ctl.ret .fuel
        else Ctl.val (.next (natsI q, ((jo + 4 : Nat) : Int), ((vo + jeLen w : Nat) : Int))) := by
  unfold Tr.traverse_check_string.loop1
  dsimp only
  rw [read_u32_agrees value jo (Rs.le_max_of_lt hjo)]
  cases hr : readU32At value jo with
  | none => simp [Rs.resOpt, Rs.loopStep]
  | some w =>
    have hl := jeLen_lt w
    have h4 : Rs.add .usize (jo : Int) 4 = .ok ((jo + 4 : Nat) : Int) := Rs.add_usize_nat jo 4 hjo
    have h5 : Rs.add .usize (vo : Int) (jeLen w : Int) = .ok ((vo + jeLen w : Nat) : Int) :=
      Rs.add_usize_nat vo (jeLen w) (by omega)
    simp only [Rs.resOpt, Ctl.val_bind', decode_jentry_agrees, Ctl.ofRes_ok', Rs.usize_nat (jeLen w) (by omega),
      natCast_eq_iff, Ctl.pure_eq']
    by_cases h1 : jeType w = C.CONTAINER_TAG
    · simp [h1, h4, h5, Rs.loopStep, Rs.pushBack, natsI]
    · by_cases h2 : jeType w = C.STRING_TAG
      · have hne : ¬ (C.STRING_TAG = C.CONTAINER_TAG) := by decide
        simp only [h1, h2, hne, decide_false, decide_true, Bool.false_eq_true, if_false, if_true, h5, Ctl.ofRes_ok',
          Ctl.val_bind', slice_model]
        cases Jsonb.slice value vo (vo + jeLen w) with
        | ok s => by_cases hp : p s = true <;> simp [hp, hne, h4, h5, Rs.loopStep]
        | err e => simp [Ctl.ofRes, Rs.loopStep, hne]
        | panic e => simp [Ctl.ofRes, Rs.loopStep, hne]
        | fuel => simp [Ctl.ofRes, Rs.loopStep, hne]
      · simp [h1, h2, h4, h5, Rs.loopStep]

/-- the inner loop followed by `offsets` (the running offsets are dropped) -/
theorem tcs_loop1_run (value : Bytes) (p : Bytes → Bool) : ∀ (n : Nat) (i : Int) (q : List Nat) (jo vo : Nat),
    jo + n * 4 < 18446744073709551616 → vo + n * 268435456 < 18446744073709551616 →
    (Rs.forRangeAux (Tr.traverse_check_string.loop1 value p) n i (natsI q, (jo : Int), (vo : Int))
        >>= fun st => (Ctl.val st.1 : Ctl (Rs.LoopCtl Bool (List Int)) (List Int)))
      = match Fn.traverseEntries value p n jo vo with
        | .ok (some offs) => Ctl.val (natsI (q ++ offs))
        | .ok none => Ctl.ret (.ok (.ret false))
        | .err _ => Ctl.ret (.ok (.ret true))
        | .panic s => Ctl.ret (.panic s)
        | .fuel => Ctl.ret .fuel := by
  intro n
  induction n with
  | zero => intro i q jo vo _ _; simp [Rs.forRangeAux, Fn.traverseEntries]
  | succ n ih =>
    intro i q jo vo hjo hvo
    rw [Rs.forRangeAux, tcs_loop1_step value p i q jo vo (by omega) (by omega), Fn.traverseEntries]
    cases hr : readU32At value jo with
    | none => rfl
    | some w =>
      have hl := jeLen_lt w
      simp only []
      by_cases h1 : jeType w = C.CONTAINER_TAG
      · simp only [h1, if_true]
        rw [ih (i + 1) (q ++ [vo]) (jo + 4) (vo + jeLen w) (by omega) (by omega)]
        cases Fn.traverseEntries value p n (jo + 4) (vo + jeLen w) with
        | ok o => cases o <;> simp
        | err e => rfl
        | panic e => rfl
        | fuel => rfl
      · simp only [h1, if_false]
        by_cases h2 : jeType w = C.STRING_TAG
        · simp only [h2, if_true]
          cases hs : Jsonb.slice value vo (vo + jeLen w) with
          | ok s =>
            simp only []
            by_cases hp : p s = true
            · simp [hp]
            · simp only [hp, Bool.false_eq_true, if_false]
              exact ih (i + 1) q (jo + 4) (vo + jeLen w) (by omega) (by omega)
          | err e => exact absurd hs (slice_ne_err _ _ _ _)
          | panic e => rfl
          | fuel => rfl
        · simp only [h2, if_false]
          exact ih (i + 1) q (jo + 4) (vo + jeLen w) (by omega) (by omega)

/-- the offsets the inner loop enqueues are value offsets of the container just read -/
theorem traverseEntries_bound (value : Bytes) (p : Bytes → Bool) : ∀ (n jo vo : Nat) (offs : List Nat),
    Fn.traverseEntries value p n jo vo = .ok (some offs) → ∀ o ∈ offs, o ≤ vo + n * 268435456 := by
  intro n
  induction n with
  | zero => intro jo vo offs h; simp only [Fn.traverseEntries, Res.ok.injEq, Option.some.injEq] at h; subst h; simp
  | succ n ih =>
    intro jo vo offs h
    rw [Fn.traverseEntries] at h
    cases hr : readU32At value jo with
    | none => simp [hr] at h
    | some w =>
      have hl := jeLen_lt w
      simp only [hr] at h
      by_cases h1 : jeType w = C.CONTAINER_TAG
      · simp only [h1, if_true] at h
        cases hq : Fn.traverseEntries value p n (jo + 4) (vo + jeLen w) with
        | ok o =>
          cases o with
          | none => simp [hq] at h
          | some offs1 =>
            simp only [hq, Res.ok.injEq, Option.some.injEq] at h
            subst h
            intro o ho
            simp only [List.mem_cons] at ho
            cases ho with
            | inl ho => omega
            | inr ho => have := ih _ _ _ hq o ho; omega
        | err e => simp [hq] at h
        | panic s => simp [hq] at h
        | fuel => simp [hq] at h
      · simp only [h1, if_false] at h
        by_cases h2 : jeType w = C.STRING_TAG
        · simp only [h2, if_true] at h
          cases hs : Jsonb.slice value vo (vo + jeLen w) with
          | ok s =>
            simp only [hs] at h
            by_cases hp : p s = true
            · simp [hp] at h
            · simp only [hp, Bool.false_eq_true, if_false] at h
              intro o ho; have := ih _ _ _ h o ho; omega
          | err e => simp [hs] at h
          | panic s => simp [hs] at h
          | fuel => simp [hs] at h
        · simp only [h2, if_false] at h
          intro o ho; have := ih _ _ _ h o ho; omega

/-- what one container contributes: the offsets of its nested containers go to the back of the queue -/
def tcsK (value : Bytes) (p : Bytes → Bool) (off : Nat) (queue : List Nat) (size : Nat) : Ctl Bool (Rs.Step (List Int)) :=
  match Fn.traverseEntries value p size (off + 4) (off + 4 + 4 * size) with
  | .ok (some offs) => Ctl.val (.next (natsI (queue ++ offs)))
  | .ok none => Ctl.ret (.ok false)
  | .err _ => Ctl.ret (.ok true)
  | .panic s => Ctl.ret (.panic s)
  | .fuel => Ctl.ret .fuel

theorem tcs_inner (value : Bytes) (p : Bytes → Bool) (off : Nat) (queue : List Nat) (size : Nat)
    (hoff : off ≤ 5188146770730811392) (hsize : size ≤ 1073741824) :
    Rs.loopStep (Rs.forRangeAux (Tr.traverse_check_string.loop1 value p) size 0
        (natsI queue, ((off + 4 : Nat) : Int), ((off + 4 + 4 * size : Nat) : Int))
        >>= fun st => (pure st.1 : Ctl (Rs.LoopCtl Bool (List Int)) (List Int))) = tcsK value p off queue size := by
  have := tcs_loop1_run value p size 0 queue (off + 4) (off + 4 + 4 * size) (by omega) (by omega)
  simp only [Ctl.pure_eq'] at this ⊢
  rw [this]
  unfold tcsK
  cases Fn.traverseEntries value p size (off + 4) (off + 4 + 4 * size) with
  | ok o => cases o <;> rfl
  | err e => rfl
  | panic e => rfl
  | fuel => rfl

/-- the same from any spelling of the entry count and of the two start offsets -/
theorem tcs_inner_int (value : Bytes) (p : Bytes → Bool) (off : Nat) (queue : List Nat) (size : Nat) (sizeI joI voI : Int)
    (hs : sizeI = (size : Int)) (hj : joI = ((off + 4 : Nat) : Int)) (hv : voI = ((off + 4 + 4 * size : Nat) : Int))
    (hoff : off ≤ 5188146770730811392) (hsize : size ≤ 1073741824) :
    Rs.loopStep (Rs.forRange 0 sizeI (List.map (fun (n : Nat) => (n : Int)) queue, joI, voI)
        (Tr.traverse_check_string.loop1 value p)
        >>= fun st => (pure st.1 : Ctl (Rs.LoopCtl Bool (List Int)) (List Int))) = tcsK value p off queue size := by
  subst hs hj hv
  rw [Rs.forRange_zero]
  exact tcs_inner value p off queue size hoff hsize

theorem tcs_loop2_nil (value : Bytes) (p : Bytes → Bool) :
    Tr.traverse_check_string.loop2 value p [] = Ctl.val (.done []) := by
  unfold Tr.traverse_check_string.loop2; rfl

theorem tcs_loop2_step (value : Bytes) (p : Bytes → Bool) (hlen : value.length < 4611686018427387904)
    (off : Nat) (queue : List Nat) (hoff : off ≤ value.length + 576460752303423488) :
    Tr.traverse_check_string.loop2 value p (natsI (off :: queue)) =
      match readU32At value off with
      | none => Ctl.ret (.ok false)
      | some h =>
        if hdrType h = C.SCALAR_CONTAINER_TAG then tcsK value p off queue 1
        else if hdrType h = C.ARRAY_CONTAINER_TAG then tcsK value p off queue (hdrLen h)
        else if hdrType h = C.OBJECT_CONTAINER_TAG then tcsK value p off queue (hdrLen h * 2)
        else Ctl.ret (.panic "internal error: entered unreachable code: invalid jsonb value") := by
  unfold Tr.traverse_check_string.loop2
  simp only [natsI, List.map_cons, Rs.popFront]
  rw [read_u32_agrees value off (by omega)]
  cases hr : readU32At value off with
  | none => simp [Rs.resOpt, Rs.loopStep]
  | some h =>
    have hL := hdrLen_lt h
    simp only [Rs.resOpt, Ctl.val_bind', Ctl.pure_eq', hdrType_eq, hdrLen_cast]
    by_cases t1 : hdrType h = C.SCALAR_CONTAINER_TAG
    · simp (disch := omega) only [if_pos t1, decide_eq_true_eq, Ctl.val_bind', Rs.add_usize_ok', Rs.mul_usize_ok',
        Ctl.ofRes_ok']
      refine tcs_inner_int value p off queue 1 _ _ _ ?_ ?_ ?_ (by omega) (by omega) <;> omega
    · by_cases t2 : hdrType h = C.ARRAY_CONTAINER_TAG
      · simp (disch := omega) only [if_neg t1, if_pos t2, decide_eq_true_eq, Ctl.val_bind', Rs.add_usize_ok',
          Rs.mul_usize_ok', Ctl.ofRes_ok']
        refine tcs_inner_int value p off queue (hdrLen h) _ _ _ ?_ ?_ ?_ (by omega) (by omega) <;> omega
      · by_cases t3 : hdrType h = C.OBJECT_CONTAINER_TAG
        · simp (disch := omega) only [if_neg t1, if_neg t2, if_pos t3, decide_eq_true_eq, Ctl.val_bind', Rs.add_usize_ok',
            Rs.mul_usize_ok', Ctl.ofRes_ok']
          refine tcs_inner_int value p off queue (hdrLen h * 2) _ _ _ ?_ ?_ ?_ (by omega) (by omega) <;> omega
        · simp only [if_neg t1, if_neg t2, if_neg t3, decide_eq_true_eq]
          rfl

theorem panicAny_panic {α : Type} (s t : String) : panicAny (.panic s : Res α) = panicAny (.panic t) := rfl

/-- the `while let Some(offset) = offsets.pop_front()` loop followed by `false`, on `fuel` iterations: the model's
`Fn.traverseLoop` with the same fuel, up to the text of the `unreachable!` panic -/
theorem tcs_run (value : Bytes) (p : Bytes → Bool) (hlen : value.length < 4611686018427387904) : ∀ (fuel : Nat) (queue : List Nat),
    (∀ o ∈ queue, o ≤ value.length + 576460752303423488) →
    panicAny (Ctl.run (Rs.whileFuel fuel (natsI queue) (Tr.traverse_check_string.loop2 value p)
        >>= fun _ => (Ctl.ret (Res.ok false) : Ctl Bool Bool)))
      = panicAny (Fn.traverseLoop value p fuel queue) := by
  intro fuel
  induction fuel with
  | zero => intro queue _; cases queue <;> rfl
  | succ n ih =>
    intro queue hq
    cases queue with
    | nil =>
      simp only [natsI, List.map_nil]
      rw [Rs.whileFuel, tcs_loop2_nil]
      rfl
    | cons off queue =>
      have hoff := hq off (by simp)
      rw [Rs.whileFuel, tcs_loop2_step value p hlen off queue hoff, Fn.traverseLoop]
      cases hr : readU32At value off with
      | none => rfl
      | some h =>
        have hle := readU32At_some_le _ _ _ hr
        have hL := hdrLen_lt h
        simp only []
        -- the number of entry words of this container (`none`: no such container type, `unreachable!`)
        obtain ⟨sz, hsz1, hsz2, hsz3⟩ : ∃ sz : Option Nat,
            (if hdrType h = C.SCALAR_CONTAINER_TAG then tcsK value p off queue 1
              else if hdrType h = C.ARRAY_CONTAINER_TAG then tcsK value p off queue (hdrLen h)
              else if hdrType h = C.OBJECT_CONTAINER_TAG then tcsK value p off queue (hdrLen h * 2)
              else Ctl.ret (.panic "internal error: entered unreachable code: invalid jsonb value"))
              = (match sz with
                 | some size => tcsK value p off queue size
                 | none => Ctl.ret (.panic "internal error: entered unreachable code: invalid jsonb value")) ∧
            (if hdrType h = C.SCALAR_CONTAINER_TAG then (Res.ok 1 : Res Nat)
              else if hdrType h = C.ARRAY_CONTAINER_TAG then .ok (hdrLen h)
              else if hdrType h = C.OBJECT_CONTAINER_TAG then .ok (hdrLen h * 2)
              else .panic "unreachable: invalid jsonb value")
              = (match sz with
                 | some size => .ok size
                 | none => .panic "unreachable: invalid jsonb value") ∧
            (∀ size, sz = some size → size ≤ 1073741824) := by
          by_cases t1 : hdrType h = C.SCALAR_CONTAINER_TAG
          · exact ⟨some 1, by simp only [if_pos t1], by simp only [if_pos t1], fun s hs => by cases hs; omega⟩
          · by_cases t2 : hdrType h = C.ARRAY_CONTAINER_TAG
            · exact ⟨some (hdrLen h), by simp only [if_neg t1, if_pos t2], by simp only [if_neg t1, if_pos t2],
                fun s hs => by cases hs; omega⟩
            · by_cases t3 : hdrType h = C.OBJECT_CONTAINER_TAG
              · exact ⟨some (hdrLen h * 2), by simp only [if_neg t1, if_neg t2, if_pos t3],
                  by simp only [if_neg t1, if_neg t2, if_pos t3], fun s hs => by cases hs; omega⟩
              · exact ⟨none, by simp only [if_neg t1, if_neg t2, if_neg t3], by simp only [if_neg t1, if_neg t2, if_neg t3],
                  fun s hs => by cases hs⟩
        rw [hsz1, hsz2]
        cases sz with
        | none => rfl
        | some size =>
          have hs := hsz3 size rfl
          simp only []
          unfold tcsK
          cases hq2 : Fn.traverseEntries value p size (off + 4) (off + 4 + 4 * size) with
          | ok o =>
            cases o with
            | none => rfl
            | some offs =>
              simp only []
              apply ih
              intro o ho
              simp only [List.mem_append] at ho
              cases ho with
              | inl ho => exact hq o (by simp [ho])
              | inr ho => have := traverseEntries_bound value p _ _ _ _ hq2 o ho; omega
          | err e =>
            have := traverseEntries_err value p _ _ _ _ hq2
            subst this; rfl
          | panic e => rfl
          | fuel => rfl

/-- `traverse_check_string(value, func)` for every buffer below 2^62 bytes, every predicate and every fuel: the
model's loop with that fuel -/
theorem traverse_check_string_loop (value : Bytes) (p : Bytes → Bool) (hlen : value.length < 4611686018427387904)
    (fuel : Nat) (text : Res Bool) :
    panicAny (Tr.traverse_check_string fuel value p text) =
      panicAny (if isJsonb value then Fn.traverseLoop value p fuel [0] else text) := by
  unfold Tr.traverse_check_string
  rw [is_jsonb_agrees]
  cases hj : isJsonb value
  · simp [Ctl.ofRes, Ctl.run]
  · simp only [Ctl.ofRes_ok', Ctl.val_bind', Ctl.pure_eq', Bool.not_true, Bool.false_eq_true, if_false, if_true]
    have := tcs_run value p hlen fuel [0] (by intro o ho; simp at ho; omega)
    simpa [natsI, Rs.pushBack] using this

/-- with the fuel the model runs on (`value.len() + 2`): the model function -/
theorem traverse_check_string_agrees (value : Bytes) (p : Bytes → Bool) (hlen : value.length < 4611686018427387904)
    (text : Res Bool) :
    panicAny (Tr.traverse_check_string (value.length + 2) value p text) =
      panicAny (if isJsonb value then Fn.traverseCheckString value p else text) :=
  traverse_check_string_loop value p hlen _ text

/-- equality wherever the model's answer is not a panic -/
theorem traverse_check_string_agrees_eq (value : Bytes) (p : Bytes → Bool) (hlen : value.length < 4611686018427387904)
    (text : Res Bool) (h : (if isJsonb value then Fn.traverseCheckString value p else text).isPanic = false) :
    Tr.traverse_check_string (value.length + 2) value p text =
      if isJsonb value then Fn.traverseCheckString value p else text :=
  panicAny_eq _ _ (traverse_check_string_agrees value p hlen text) h

/-! ## the whole functions of the model -/

theorem traverse_check_string_whole (value : Bytes) (p : Bytes → Bool) (hlen : value.length < 4611686018427387904) :
    panicAny (Tr.traverse_check_string (value.length + 2) value p (T.traverseCheckString value p)) =
      panicAny (T.traverseCheckString value p) := by
  rw [traverse_check_string_agrees value p hlen]
  cases hj : isJsonb value <;> simp [T.traverseCheckString, hj]

theorem exists_all_keys_whole (value : Bytes) (keys : List Bytes) (fuel : Nat) (hf : 536870912 < fuel) (b : Bool)
    (h : T.existsAllKeys value keys = .ok b) :
    Tr.exists_all_keys fuel value keys (T.existsAllKeys value keys) = .ok b := by
  rw [exists_all_keys_agrees value keys fuel hf]
  cases hj : isJsonb value
  · simpa using h
  · simp only [if_true]
    have : Fn.existsAllKeys value keys = .ok b := by simpa [T.existsAllKeys, hj] using h
    exact existsAllLazy_of_model value _ keys b this

theorem exists_any_keys_whole (value : Bytes) (keys : List Bytes) (fuel : Nat) (hf : 536870912 < fuel) (b : Bool)
    (h : T.existsAnyKeys value keys = .ok b) :
    Tr.exists_any_keys fuel value keys (T.existsAnyKeys value keys) = .ok b := by
  rw [exists_any_keys_agrees value keys fuel hf]
  cases hj : isJsonb value
  · simpa using h
  · simp only [if_true]
    have : Fn.existsAnyKeys value keys = .ok b := by simpa [T.existsAnyKeys, hj] using h
    exact existsAnyLazy_of_model value _ keys b this

end Jsonb.TrAgree
