/-
Phase 6c, renderer.  I6: the precondition `StringsOK` holds on the encoding of every good document; hence on
`encodeSpec v` the translated `to_string` / `to_pretty_string` compute the model's `toStringDoc`, i.e. the tree
rendering (C03).
-/
import JsonbModel.Proofs.TranslatedAgreeI5

set_option linter.unusedSimpArgs false
set_option linter.unusedVariables false

namespace Jsonb.TrAgree
open Jsonb.Rs
open Jsonb.Fn Jsonb.JV

theorem strOK_of_slice (value : Bytes) (a b : Nat) (p : Bytes) (h : Jsonb.slice value a b = .ok p)
    (hu : validUtf8 p = true) : strOK value a b = true := by
  unfold Jsonb.slice at h
  split at h
  · rename_i hc
    simp only [Res.ok.injEq] at h
    subst h
    simp [strOK, hc.2, hu]
  · cases h

/-- the keys of an encoded object are inside the buffer and well-formed -/
theorem ruKeys_spec : (kvs : List (Bytes × JV)) → goodK kvs = true → (pre post : Bytes) → (ko : Nat) → ko = pre.length →
    ruKeys (pre ++ (keyBytes kvs ++ post)) (kvs.map (fun kv => kv.1.length)) ko = true
  | [], _, pre, post, ko, _ => by simp [ruKeys]
  | (k, v) :: kvs, hg, pre, post, ko, hko => by
    simp only [goodK, Bool.and_eq_true, decide_eq_true_eq] at hg
    simp only [List.map_cons, ruKeys, Bool.and_eq_true]
    have e1 : pre ++ (keyBytes ((k, v) :: kvs) ++ post) = pre ++ (k ++ (keyBytes kvs ++ post)) := by simp [keyBytes]
    have e2 : pre ++ (k ++ (keyBytes kvs ++ post)) = (pre ++ k) ++ (keyBytes kvs ++ post) := by simp
    refine ⟨?_, ?_⟩
    · rw [e1]
      exact strOK_of_slice _ _ _ k (slice_mid' pre k _ ko (ko + k.length) hko (by omega)) hg.1.1.2
    · rw [e1, e2]
      exact ruKeys_spec kvs hg.2 (pre ++ k) post (ko + k.length) (by simp; omega)

mutual
theorem ruScalar_spec : (v : JV) → good v = true → (fuel : Nat) → szS v ≤ fuel → (pre mid post : Bytes) → (jo vo : Nat) →
    jo = pre.length → vo = pre.length + 4 + mid.length →
    ruScalar fuel (pre ++ (u32be (entry v).1 ++ (mid ++ ((entry v).2 ++ post)))) jo vo = true
  | .null, hg, fuel, hf, pre, mid, post, jo, vo, hjo, _ => by
    cases fuel with
    | zero => simp [szS] at hf
    | succ f =>
      have hl := elen_lt_of_good _ hg
      simp only [ruScalar, scalar_read _ hl pre mid post jo hjo, jeType_entry _ hl, jeLen_entry _ hl]
      simp [ety, C.NULL_TAG, C.STRING_TAG, C.CONTAINER_TAG]
  | .bool b, hg, fuel, hf, pre, mid, post, jo, vo, hjo, _ => by
    cases fuel with
    | zero => simp [szS] at hf
    | succ f =>
      have hl := elen_lt_of_good _ hg
      simp only [ruScalar, scalar_read _ hl pre mid post jo hjo, jeType_entry _ hl, jeLen_entry _ hl]
      cases b <;> simp [ety, C.TRUE_TAG, C.FALSE_TAG, C.STRING_TAG, C.CONTAINER_TAG]
  | .num n, hg, fuel, hf, pre, mid, post, jo, vo, hjo, _ => by
    cases fuel with
    | zero => simp [szS] at hf
    | succ f =>
      have hl := elen_lt_of_good _ hg
      simp only [ruScalar, scalar_read _ hl pre mid post jo hjo, jeType_entry _ hl, jeLen_entry _ hl]
      simp [ety, C.NUMBER_TAG, C.STRING_TAG, C.CONTAINER_TAG]
  | .str s, hg, fuel, hf, pre, mid, post, jo, vo, hjo, hvo => by
    cases fuel with
    | zero => simp [szS] at hf
    | succ f =>
      have hl := elen_lt_of_good _ hg
      simp only [ruScalar, scalar_read _ hl pre mid post jo hjo, jeType_entry _ hl, jeLen_entry _ hl]
      simp only [ety, if_true]
      simp only [good, Bool.and_eq_true, decide_eq_true_eq] at hg
      exact strOK_of_slice _ _ _ _ (scalar_slice (.str s) pre mid post vo hvo) (by simpa [entry] using hg.2)
  | .arr vs, hg, fuel, hf, pre, mid, post, jo, vo, hjo, hvo => by
    simp only [szS] at hf
    have hp := szL_pos vs
    match fuel, hf with
    | 0, hf => omega
    | 1, hf => omega
    | f + 2, hf =>
      have hl := elen_lt_of_good _ hg
      have c5 : ¬ C.CONTAINER_TAG = C.STRING_TAG := by decide
      simp only [ruScalar, scalar_read _ hl pre mid post jo hjo, jeType_entry _ hl, jeLen_entry _ hl]
      simp only [ety, c5, if_false, if_true]
      simp only [good, Bool.and_eq_true, decide_eq_true_eq] at hg
      obtain ⟨⟨hn, _⟩, hgl⟩ := hg
      have e1 : pre ++ (u32be (entry (arr vs)).1 ++ (mid ++ ((entry (arr vs)).2 ++ post)))
          = (pre ++ (u32be (entry (arr vs)).1 ++ mid)) ++
              (u32be (C.ARRAY_CONTAINER_TAG + vs.length) ++ (wordsL vs ++ (paysL vs ++ post))) := by
        simp [entry]
      have e2 : (pre ++ (u32be (entry (arr vs)).1 ++ mid)) ++
              (u32be (C.ARRAY_CONTAINER_TAG + vs.length) ++ (wordsL vs ++ (paysL vs ++ post)))
          = ((pre ++ (u32be (entry (arr vs)).1 ++ mid)) ++ u32be (C.ARRAY_CONTAINER_TAG + vs.length)) ++
              (wordsL vs ++ ([] ++ (paysL vs ++ post))) := by simp
      have hvo' : vo = (pre ++ (u32be (entry (arr vs)).1 ++ mid)).length := by simp; omega
      have ih := ruItems_spec vs hgl f (by omega)
        ((pre ++ (u32be (entry (arr vs)).1 ++ mid)) ++ u32be (C.ARRAY_CONTAINER_TAG + vs.length)) [] post
        (4 + vo) (4 + vo + 4 * vs.length) (by simp; omega) (by simp; omega)
      rw [← e2] at ih
      rw [e1]
      simp only [ruContainer, readU32At_mid _ _ _ vo hvo' (arr_header_lt _ hn), hdrType_arr _ hn, hdrLen_arr _ hn,
        if_neg ne_arr_sca, if_true, ih]
  | .obj kvs, hg, fuel, hf, pre, mid, post, jo, vo, hjo, hvo => by
    simp only [szS] at hf
    have hp := szK_pos kvs
    match fuel, hf with
    | 0, hf => omega
    | 1, hf => omega
    | f + 2, hf =>
      have hl := elen_lt_of_good _ hg
      have c5 : ¬ C.CONTAINER_TAG = C.STRING_TAG := by decide
      simp only [ruScalar, scalar_read _ hl pre mid post jo hjo, jeType_entry _ hl, jeLen_entry _ hl]
      simp only [ety, c5, if_false, if_true]
      simp only [good, Bool.and_eq_true, decide_eq_true_eq] at hg
      obtain ⟨⟨⟨hn, _⟩, _⟩, hgk⟩ := hg
      have hvo' : vo = (pre ++ (u32be (entry (obj kvs)).1 ++ mid)).length := by simp; omega
      have e1 : pre ++ (u32be (entry (obj kvs)).1 ++ (mid ++ ((entry (obj kvs)).2 ++ post)))
          = (pre ++ (u32be (entry (obj kvs)).1 ++ mid)) ++
              (u32be (C.OBJECT_CONTAINER_TAG + kvs.length) ++
                (keyWords kvs ++ (wordsK kvs ++ (keyBytes kvs ++ (paysK kvs ++ post))))) := by
        simp [entry]
      generalize hA : pre ++ (u32be (entry (obj kvs)).1 ++ mid) = A at e1 hvo'
      have e2 : A ++ (u32be (C.OBJECT_CONTAINER_TAG + kvs.length) ++
                (keyWords kvs ++ (wordsK kvs ++ (keyBytes kvs ++ (paysK kvs ++ post)))))
          = (A ++ u32be (C.OBJECT_CONTAINER_TAG + kvs.length)) ++
              (keyWords kvs ++ (wordsK kvs ++ (keyBytes kvs ++ (paysK kvs ++ post)))) := by simp
      have e3 : A ++ (u32be (C.OBJECT_CONTAINER_TAG + kvs.length) ++
                (keyWords kvs ++ (wordsK kvs ++ (keyBytes kvs ++ (paysK kvs ++ post)))))
          = ((A ++ u32be (C.OBJECT_CONTAINER_TAG + kvs.length)) ++ keyWords kvs) ++
              (wordsK kvs ++ (keyBytes kvs ++ (paysK kvs ++ post))) := by simp
      have e4 : A ++ (u32be (C.OBJECT_CONTAINER_TAG + kvs.length) ++
                (keyWords kvs ++ (wordsK kvs ++ (keyBytes kvs ++ (paysK kvs ++ post)))))
          = (((A ++ u32be (C.OBJECT_CONTAINER_TAG + kvs.length)) ++ keyWords kvs) ++ wordsK kvs) ++
              (keyBytes kvs ++ (paysK kvs ++ post)) := by simp
      have hf1 := fillKeys_spec kvs hgk (A ++ u32be (C.OBJECT_CONTAINER_TAG + kvs.length))
        (wordsK kvs ++ (keyBytes kvs ++ (paysK kvs ++ post))) (4 + vo) (4 + vo + 8 * kvs.length) (by simp; omega)
      have hk := ruKeys_spec kvs hgk (((A ++ u32be (C.OBJECT_CONTAINER_TAG + kvs.length)) ++ keyWords kvs) ++ wordsK kvs)
        (paysK kvs ++ post) (4 + vo + 8 * kvs.length) (by simp [keyWords_length', wordsK_length']; omega)
      have ih := ruItemsK_spec kvs hgk f (by omega)
        ((A ++ u32be (C.OBJECT_CONTAINER_TAG + kvs.length)) ++ keyWords kvs) (keyBytes kvs) post
        (4 + vo + 4 * kvs.length) (4 + vo + 8 * kvs.length + (keyBytes kvs).length)
        (by simp [keyWords_length']; omega) (by simp [keyWords_length']; omega)
      rw [← e3] at ih
      rw [← e4] at hk
      rw [← e2] at hf1
      rw [e1]
      simp only [ruContainer, readU32At_mid _ _ _ vo hvo' (obj_header_lt _ hn), hdrType_obj _ hn, hdrLen_obj _ hn,
        if_neg ne_obj_sca, if_neg ne_obj_arr, if_true, hf1, hk, List.length_map, ih, Bool.and_self]
theorem ruItems_spec : (vs : List JV) → goodL vs = true → (fuel : Nat) → szL vs ≤ fuel → (pre mid post : Bytes) →
    (jo vo : Nat) → jo = pre.length → vo = pre.length + 4 * vs.length + mid.length →
    ruItems fuel (pre ++ (wordsL vs ++ (mid ++ (paysL vs ++ post)))) vs.length jo vo = true
  | [], _, fuel, hf, pre, mid, post, jo, vo, _, _ => by
    cases fuel with
    | zero => simp [szL] at hf
    | succ f => simp [ruItems]
  | v :: vs, hg, fuel, hf, pre, mid, post, jo, vo, hjo, hvo => by
    simp only [szL] at hf
    cases fuel with
    | zero => omega
    | succ f =>
      simp only [goodL, Bool.and_eq_true] at hg
      have hl := elen_lt_of_good v hg.1
      simp only [List.length_cons] at hvo
      have e1 : pre ++ (wordsL (v :: vs) ++ (mid ++ (paysL (v :: vs) ++ post)))
          = pre ++ (u32be (entry v).1 ++ ((wordsL vs ++ mid) ++ ((entry v).2 ++ (paysL vs ++ post)))) := by
        simp [wordsL, paysL]
      have e2 : pre ++ (u32be (entry v).1 ++ ((wordsL vs ++ mid) ++ ((entry v).2 ++ (paysL vs ++ post))))
          = (pre ++ u32be (entry v).1) ++ (wordsL vs ++ ((mid ++ (entry v).2) ++ (paysL vs ++ post))) := by
        simp
      have ih1 := ruScalar_spec v hg.1 f (by omega) pre (wordsL vs ++ mid) (paysL vs ++ post)
        jo vo hjo (by simp [wordsL_length']; omega)
      have ih2 := ruItems_spec vs hg.2 f (by omega) (pre ++ u32be (entry v).1) (mid ++ (entry v).2)
        post (jo + 4) (vo + elen v) (by simp; omega) (by simp [elen]; omega)
      rw [← e2] at ih2
      rw [e1]
      simp only [List.length_cons, ruItems, ih1, scalar_read _ hl pre _ _ jo hjo, jeLen_entry _ hl, ih2, Bool.and_self]
theorem ruItemsK_spec : (kvs : List (Bytes × JV)) → goodK kvs = true → (fuel : Nat) → szK kvs ≤ fuel →
    (pre mid post : Bytes) → (jo vo : Nat) → jo = pre.length → vo = pre.length + 4 * kvs.length + mid.length →
    ruItems fuel (pre ++ (wordsK kvs ++ (mid ++ (paysK kvs ++ post)))) kvs.length jo vo = true
  | [], _, fuel, hf, pre, mid, post, jo, vo, _, _ => by
    cases fuel with
    | zero => simp [szK] at hf
    | succ f => simp [ruItems]
  | (k, v) :: kvs, hg, fuel, hf, pre, mid, post, jo, vo, hjo, hvo => by
    simp only [szK] at hf
    cases fuel with
    | zero => omega
    | succ f =>
      simp only [goodK, Bool.and_eq_true, decide_eq_true_eq] at hg
      have hl := elen_lt_of_good v hg.1.2
      simp only [List.length_cons] at hvo
      have e1 : pre ++ (wordsK ((k, v) :: kvs) ++ (mid ++ (paysK ((k, v) :: kvs) ++ post)))
          = pre ++ (u32be (entry v).1 ++ ((wordsK kvs ++ mid) ++ ((entry v).2 ++ (paysK kvs ++ post)))) := by
        simp [wordsK, paysK]
      have e2 : pre ++ (u32be (entry v).1 ++ ((wordsK kvs ++ mid) ++ ((entry v).2 ++ (paysK kvs ++ post))))
          = (pre ++ u32be (entry v).1) ++ (wordsK kvs ++ ((mid ++ (entry v).2) ++ (paysK kvs ++ post))) := by
        simp
      have ih1 := ruScalar_spec v hg.1.2 f (by omega) pre (wordsK kvs ++ mid) (paysK kvs ++ post)
        jo vo hjo (by simp [wordsK_length']; omega)
      have ih2 := ruItemsK_spec kvs hg.2 f (by omega) (pre ++ u32be (entry v).1) (mid ++ (entry v).2)
        post (jo + 4) (vo + elen v) (by simp; omega) (by simp [elen]; omega)
      rw [← e2] at ih2
      rw [e1]
      simp only [List.length_cons, ruItems, ih1, scalar_read _ hl pre _ _ jo hjo, jeLen_entry _ hl, ih2, Bool.and_self]
end

/-- an encoded good document is far below `2^60` bytes -/
theorem encodeSpec_length_lt60 (v : JV) (hg : goodTop v = true) : (encodeSpec v).length < 1152921504606846976 := by
  cases hs : Spec.isScalarJ v
  · rcases Fn.container_cases v hs with ⟨vs, rfl⟩ | ⟨kvs, rfl⟩
    · have ⟨hn, hgl⟩ := Fn.goodTop_arr hg
      have := paysL_length_le vs hgl
      simp only [Fn.encodeSpec_arr, List.length_append, u32be_length, wordsL_length]
      omega
    · have ⟨hn, hgk⟩ := Fn.goodTop_obj hg
      have := paysK_length_le kvs hgk
      simp only [Fn.encodeSpec_obj, List.length_append, u32be_length, wordsK_length, keyWords_length]
      omega
  · have hgv := Fn.goodTop_scalar v hs hg
    have := elen_lt_of_good v hgv
    simp only [Fn.encodeSpec_scalar v hs, List.length_append, u32be_length]
    simp only [elen] at this
    omega

/-- **the precondition holds on the encoding of every good document** -/
theorem stringsOK_encodeSpec (v : JV) (hg : goodTop v = true) : StringsOK (encodeSpec v) = true := by
  unfold StringsOK
  cases hs : Spec.isScalarJ v
  · rcases Fn.container_cases v hs with ⟨vs, rfl⟩ | ⟨kvs, rfl⟩
    · have ⟨hn, hgl⟩ := Fn.goodTop_arr hg
      have hsz := szL_le vs
      have hlen : (encodeSpec (arr vs)).length = 4 + 4 * vs.length + (paysL vs).length := by
        simp [encodeSpec, entry, wordsL_length]; omega
      rw [hlen, show 2 * (4 + 4 * vs.length + (paysL vs).length) + 8
        = (2 * (4 + 4 * vs.length + (paysL vs).length) + 7) + 1 by omega]
      have ih := ruItems_spec vs hgl (2 * (4 + 4 * vs.length + (paysL vs).length) + 7) (by omega)
        (u32be (C.ARRAY_CONTAINER_TAG + vs.length)) [] [] (4 + 0) (4 + 0 + 4 * vs.length) (by simp) (by simp)
      have e : u32be (C.ARRAY_CONTAINER_TAG + vs.length) ++ (wordsL vs ++ ([] ++ (paysL vs ++ [])))
          = [] ++ (u32be (C.ARRAY_CONTAINER_TAG + vs.length) ++ (wordsL vs ++ paysL vs)) := by simp
      rw [e] at ih
      rw [Fn.encodeSpec_arr]
      have hr := readU32At_mid [] (C.ARRAY_CONTAINER_TAG + vs.length) (wordsL vs ++ paysL vs) 0 rfl (arr_header_lt _ hn)
      simp only [List.nil_append] at hr ih
      simp only [ruContainer, hr, hdrType_arr _ hn, hdrLen_arr _ hn, if_neg ne_arr_sca, if_true, ih]
    · have ⟨hn, hgk⟩ := Fn.goodTop_obj hg
      have hsz := szK_le kvs
      have hlen : (encodeSpec (obj kvs)).length
          = 4 + 8 * kvs.length + (keyBytes kvs).length + (paysK kvs).length := by
        simp [encodeSpec, entry, wordsK_length, keyWords_length]; omega
      rw [hlen, show 2 * (4 + 8 * kvs.length + (keyBytes kvs).length + (paysK kvs).length) + 8
        = (2 * (4 + 8 * kvs.length + (keyBytes kvs).length + (paysK kvs).length) + 7) + 1 by omega]
      rw [Fn.encodeSpec_obj]
      have e2 : u32be (C.OBJECT_CONTAINER_TAG + kvs.length) ++
                (keyWords kvs ++ (wordsK kvs ++ (keyBytes kvs ++ paysK kvs)))
          = (u32be (C.OBJECT_CONTAINER_TAG + kvs.length)) ++
              (keyWords kvs ++ (wordsK kvs ++ (keyBytes kvs ++ (paysK kvs ++ [])))) := by simp
      have e3 : u32be (C.OBJECT_CONTAINER_TAG + kvs.length) ++
                (keyWords kvs ++ (wordsK kvs ++ (keyBytes kvs ++ paysK kvs)))
          = (u32be (C.OBJECT_CONTAINER_TAG + kvs.length) ++ keyWords kvs) ++
              (wordsK kvs ++ (keyBytes kvs ++ (paysK kvs ++ []))) := by simp
      have e4 : u32be (C.OBJECT_CONTAINER_TAG + kvs.length) ++
                (keyWords kvs ++ (wordsK kvs ++ (keyBytes kvs ++ paysK kvs)))
          = ((u32be (C.OBJECT_CONTAINER_TAG + kvs.length) ++ keyWords kvs) ++ wordsK kvs) ++
              (keyBytes kvs ++ (paysK kvs ++ [])) := by simp
      have hf1 := fillKeys_spec kvs hgk (u32be (C.OBJECT_CONTAINER_TAG + kvs.length))
        (wordsK kvs ++ (keyBytes kvs ++ (paysK kvs ++ []))) (4 + 0) (4 + 0 + 8 * kvs.length) (by simp)
      have hk := ruKeys_spec kvs hgk ((u32be (C.OBJECT_CONTAINER_TAG + kvs.length) ++ keyWords kvs) ++ wordsK kvs)
        (paysK kvs ++ []) (4 + 0 + 8 * kvs.length) (by simp [keyWords_length', wordsK_length']; omega)
      have ih := ruItemsK_spec kvs hgk (2 * (4 + 8 * kvs.length + (keyBytes kvs).length + (paysK kvs).length) + 7) (by omega)
        (u32be (C.OBJECT_CONTAINER_TAG + kvs.length) ++ keyWords kvs) (keyBytes kvs) []
        (4 + 0 + 4 * kvs.length) (4 + 0 + 8 * kvs.length + (keyBytes kvs).length)
        (by simp [keyWords_length']; omega) (by simp [keyWords_length']; omega)
      rw [← e3] at ih
      rw [← e4] at hk
      rw [← e2] at hf1
      have hr := readU32At_mid [] (C.OBJECT_CONTAINER_TAG + kvs.length)
        (keyWords kvs ++ (wordsK kvs ++ (keyBytes kvs ++ paysK kvs))) 0 rfl (obj_header_lt _ hn)
      simp only [List.nil_append] at hr
      simp only [ruContainer, hr, hdrType_obj _ hn, hdrLen_obj _ hn, if_neg ne_obj_sca, if_neg ne_obj_arr, if_true, hf1, hk,
        List.length_map, ih, Bool.and_self]
  · have hgv := Fn.goodTop_scalar v hs hg
    have hl := elen_lt_of_good v hgv
    rw [Fn.encodeSpec_scalar v hs]
    obtain ⟨F, hF⟩ : ∃ m, 2 * (u32be C.SCALAR_CONTAINER_TAG ++ (u32be (entry v).1 ++ (entry v).2)).length + 8 = m + 1 :=
      ⟨_, rfl⟩
    rw [hF]
    have hc : szS v = 1 := by cases v <;> first | rfl | simp [Spec.isScalarJ] at hs
    have ih := ruScalar_spec v hgv F (by simp at hF; omega) (u32be C.SCALAR_CONTAINER_TAG) [] [] 4 8 (by simp) (by simp)
    simp only [List.nil_append, List.append_nil] at ih
    simp only [ruContainer, readU32At_zero _ _ (by decide : C.SCALAR_CONTAINER_TAG < 4294967296), hdrType_sca, if_true,
      Nat.add_zero, ih]

/-- **C03, source-level corollary**: on the encoding of a good document (that `is_jsonb` recognises) the translated
`to_string` IS the model's `toStringDoc fmt false`, for every adequate fuel -/
theorem to_string_encodeSpec_agrees (fmt : Nat → Bytes) (v : JV) (hg : goodTop v = true) (hok : fmtOK fmt v)
    (hj : isJsonb (encodeSpec v) = true) (fuel : Nat) (hf : 2 * (encodeSpec v).length + 8 < fuel) :
    Tr.to_string fuel fmt (encodeSpec v) = Fn.toStringDoc fmt false (encodeSpec v) :=
  to_string_jsonb_agrees fmt fuel _ hj (encodeSpec_length_lt60 v hg) hf (stringsOK_encodeSpec v hg)
    (by rw [toStringDoc_rd fmt false v hg hok]; exact fun c => by cases c)

/-- the same, with the canonical compact rendering of the tree on the right -/
theorem to_string_encodeSpec_spec (fmt : Nat → Bytes) (v : JV) (hg : goodTop v = true) (hok : fmtOK fmt v)
    (hj : isJsonb (encodeSpec v) = true) (fuel : Nat) (hf : 2 * (encodeSpec v).length + 8 < fuel) :
    Tr.to_string fuel fmt (encodeSpec v) = .ok (render fmt v) := by
  rw [to_string_encodeSpec_agrees fmt v hg hok hj fuel hf, toStringDoc_render fmt v hg hok]

/-- `to_pretty_string` on the encoding of a good document -/
theorem to_pretty_string_encodeSpec_agrees (fmt : Nat → Bytes) (v : JV) (hg : goodTop v = true) (hok : fmtOK fmt v)
    (hj : isJsonb (encodeSpec v) = true) (fuel : Nat) (hf : 2 * (encodeSpec v).length + 8 < fuel) :
    Tr.to_pretty_string fuel fmt (encodeSpec v) = Fn.toStringDoc fmt true (encodeSpec v) :=
  to_pretty_string_jsonb_agrees fmt fuel _ hj (encodeSpec_length_lt60 v hg) hf (stringsOK_encodeSpec v hg)
    (by rw [toStringDoc_rd fmt true v hg hok]; exact fun c => by cases c)

/-- the same, with the indented rendering of the tree on the right -/
theorem to_pretty_string_encodeSpec_spec (fmt : Nat → Bytes) (v : JV) (hg : goodTop v = true) (hok : fmtOK fmt v)
    (hj : isJsonb (encodeSpec v) = true) (fuel : Nat) (hf : 2 * (encodeSpec v).length + 8 < fuel) :
    Tr.to_pretty_string fuel fmt (encodeSpec v) = .ok (rd fmt true 0 v) := by
  rw [to_pretty_string_encodeSpec_agrees fmt v hg hok hj fuel hf, toStringDoc_rd fmt true v hg hok]

/-! ## outside the precondition: the two recorded differences (forged buffers only) -/

/-- an array `[null, ""]` whose `null` entry carries the forged length 5 and that has no payload bytes: the empty
string starts at offset 17 of a 12-byte buffer -/
def emptyStrDoc : Bytes := [0x80, 0, 0, 2, 0, 0, 0, 5, 0x10, 0, 0, 0]

/-- the source never slices an empty string (`escape_scalar_string` pushes `""`), the model slices first -/
theorem to_string_empty_string_witness :
    StringsOK emptyStrDoc = false ∧
      Fn.toStringDoc (fun _ => []) false emptyStrDoc = .panic "slice index out of range" ∧
      Tr.to_string 40 (fun _ => []) emptyStrDoc = .ok (Fn.lit "[null,\"\"]") := by
  refine ⟨?_, ?_, ?_⟩ <;> decide +kernel

/-- a scalar document holding the one-byte string `FF` (not UTF-8) -/
def badUtf8Doc : Bytes := [0x20, 0, 0, 0, 0x10, 0, 0, 1, 0xFF]

/-- the source renders ill-formed bytes through `from_utf8_lossy` (U+FFFD), the model escapes them as they are -/
theorem to_string_lossy_witness :
    StringsOK badUtf8Doc = false ∧
      Fn.toStringDoc (fun _ => []) false badUtf8Doc = .ok [0x22, 0xFF, 0x22] ∧
      Tr.to_string 40 (fun _ => []) badUtf8Doc = .ok [0x22, 0xEF, 0xBF, 0xBD, 0x22] := by
  refine ⟨?_, ?_, ?_⟩ <;> decide +kernel

end Jsonb.TrAgree
