/-
C17 — functions that write into a caller's buffer only append to it: the remaining writers.

Shape of every statement (a *frame* theorem):

    f args buf = (f args []).map (buf ++ ·)

i.e. for EVERY outcome: when the call succeeds the prior content of `buf` is a prefix of the
result and what follows it is what the same call writes into an empty buffer; when the call
answers `Err` (or panics) it does so whatever the buffer holds, with the same error.

**Errors append nothing.**  The model's result type is `Res Bytes`: `ok newBuffer | err e | panic s
| fuel`.  An `err` carries no buffer at all, so there is nothing an error could have appended; in
the Rust code the caller's `&mut Vec<u8>` is only touched by the final `build_into` /
`extend_from_slice`, which the model reaches only on the `ok` path (`Fn.*` in Functions/Edit.lean:
`buf` occurs only in the last `buildArrayInto buf …`, `buildObjectInto buf …` or `.ok (buf ++ value)`
of each editor).  The unconditional frame theorems below make this precise for every editor and
EVERY input (valid encoding or not): the error does not depend on `buf`.
-/
import JsonbModel.Proofs.SelectModes
import JsonbModel.Proofs.BuilderLayout
import JsonbModel.Proofs.TextEquiv3

namespace Jsonb
open JV

theorem Res.map_map' {α β γ} (f : α → β) (g : β → γ) (r : Res α) : (r.map f).map g = r.map (g ∘ f) := by
  cases r <;> rfl

theorem Res.map_congr' {α β} (f g : α → β) (r : Res α) (h : ∀ a, f a = g a) : r.map f = r.map g := by
  cases r <;> simp [Res.map, Res.bind, h]

/-! ### (a) `convert_to_comparable` -/

/-- **`convert_to_comparable` only appends**, for every `value` (valid or not): the key is
computed from `value` alone and appended to `buf` at the end -/
theorem convertToComparable_frame (value buf : Bytes) :
    Fn.convertToComparable value buf = (Fn.convertToComparable value []).map (buf ++ ·) := by
  unfold Fn.convertToComparable
  simp only []
  cases readU32At value 0 with
  | none => simp [Res.map, Res.bind]
  | some h =>
    simp only []
    split
    · cases readU32At value 4 with
      | none => simp [Res.map, Res.bind]
      | some w =>
        simp only []
        cases sliceFrom value 8 with
        | ok v =>
          simp only [Res.map_map']
          exact Res.map_congr' _ _ _ (fun a => by simp)
        | err e => rfl
        | panic s => rfl
        | fuel => rfl
    · split
      · cases sliceFrom value 4 with
        | ok v =>
          simp only [Res.map_map']
          exact Res.map_congr' _ _ _ (fun a => by simp)
        | err e => rfl
        | panic s => rfl
        | fuel => rfl
      · split
        · cases sliceFrom value 4 with
          | ok v =>
            simp only [Res.map_map']
            exact Res.map_congr' _ _ _ (fun a => by simp)
          | err e => rfl
          | panic s => rfl
          | fuel => rfl
        · simp [Res.map, Res.bind]

/-- the whole public function (text or JSONB input): a text that does not parse writes
`[0, INVALID_LEVEL] ++ text` after the prior content -/
theorem T_convertToComparable_bin_frame (value buf : Bytes) (hb : isJsonb value = true) :
    T.convertToComparable value buf = (T.convertToComparable value []).map (buf ++ ·) := by
  simp only [T.convertToComparable, hb, Bool.not_true, Bool.false_eq_true, if_false]
  exact convertToComparable_frame value buf

theorem T_convertToComparable_frame (value buf : Bytes) :
    T.convertToComparable value buf = (T.convertToComparable value []).map (buf ++ ·) := by
  unfold T.convertToComparable
  split
  · cases parseValue value with
    | ok v =>
      simp only []
      cases T.enc v with
      | ok b => simp only [Res.bind]; exact convertToComparable_frame b buf
      | err e => rfl
      | panic s => rfl
      | fuel => rfl
    | err e => simp [Res.map, Res.bind]
    | panic s => rfl
    | fuel => rfl
  · exact convertToComparable_frame value buf

/-! ### (b) the selector's writers, every mode, predicate paths included -/

namespace Sel

/-- **frame property of `build_scalar_array`**: the header word, the entry words and the payloads
all land after the prior data; one offset — the new end of the data — is pushed.  (The Rust code
reserves the entry area after the header and patches each word at `jentry_index ≥ data.len() + 4`;
the model `Sel.buildArrayOf` writes the final words directly into that area, so the patching is
not visible in it — the positions written are all at or after `data.length` by construction.) -/
theorem buildArrayOf_frame (root : Bytes) (ps : List Pos) (data : Bytes) (offs : List Nat) :
    buildArrayOf root ps data offs
      = (buildArrayOf root ps [] []).map (fun r => (data ++ r.1, offs ++ r.2.map (· + data.length))) := by
  unfold buildArrayOf
  cases arrayParts root ps with
  | ok r =>
    obtain ⟨ws, pays⟩ := r
    simp [Res.map, Res.bind]
    omega
  | err e => rfl
  | panic s => rfl
  | fuel => rfl

/-- **selection writers only append, in every mode and for every path** (predicate paths too):
for every root (valid or not), path, fuel and prior buffers, the prior data is a prefix of the new
data, the prior offsets a prefix of the new offsets, and what is appended is what the same call
writes into empty buffers, the offsets shifted by the prior data length -/
theorem select_frame (jp : JsonPath) (mode : Mode) (root data : Bytes) (offs : List Nat) (fuel : Nat) :
    select jp mode root data offs fuel
      = (select jp mode root [] [] fuel).map (fun r => (data ++ r.1, offs ++ r.2.map (· + data.length))) := by
  unfold select
  cases findPositions fuel root none jp with
  | ok ps =>
    simp only []
    split
    · simp [Res.map, Res.bind]
    · cases mode with
      | all => exact buildValues_frame root ps data offs
      | first => exact buildValues_frame root (ps.take 1) data offs
      | array => exact buildArrayOf_frame root ps data offs
      | mixed =>
        simp only []
        split
        · exact buildArrayOf_frame root ps data offs
        · exact buildValues_frame root ps data offs
  | err e => rfl
  | panic s => rfl
  | fuel => rfl

/-- in particular: on success the prior data and offsets are prefixes of the result -/
theorem select_prefix (jp : JsonPath) (mode : Mode) (root data : Bytes) (offs : List Nat) (fuel : Nat)
    (d : Bytes) (o : List Nat) (h : select jp mode root data offs fuel = .ok (d, o)) :
    ∃ d' o', d = data ++ d' ∧ o = offs ++ o' ∧ (∀ x ∈ o', data.length ≤ x) := by
  rw [select_frame] at h
  cases hr : select jp mode root [] [] fuel with
  | ok r =>
    simp only [hr, Res.map, Res.bind, Res.ok.injEq, Prod.mk.injEq] at h
    refine ⟨r.1, r.2.map (· + data.length), h.1.symm, h.2.symm, ?_⟩
    intro x hx
    simp only [List.mem_map] at hx
    obtain ⟨y, _, rfl⟩ := hx
    omega
  | err e => simp [hr, Res.map, Res.bind] at h
  | panic s => simp [hr, Res.map, Res.bind] at h
  | fuel => simp [hr, Res.map, Res.bind] at h

end Sel

/-- the public `get_by_path*` functions (text or JSONB input, any mode) only append to `data` -/
theorem T_getByPathMode_frame (mode : Sel.Mode) (value : Bytes) (jp : JsonPath) (data : Bytes) :
    T.getByPathMode mode value jp data
      = (T.getByPathMode mode value jp []).map (fun r => (data ++ r.1, r.2.map (· + data.length))) := by
  have key : ∀ b : Bytes, Sel.select jp mode b data [] (Sel.selFuel b jp)
      = (Sel.select jp mode b [] [] (Sel.selFuel b jp)).map
          (fun r => (data ++ r.1, r.2.map (· + data.length))) := by
    intro b
    rw [Sel.select_frame]
    exact Res.map_congr' _ _ _ (fun a => by simp)
  unfold T.getByPathMode
  split
  · cases parseValue value with
    | ok v =>
      simp only []
      cases T.enc v with
      | ok b => simp only [Res.bind]; exact key b
      | err e => rfl
      | panic s => rfl
      | fuel => rfl
    | err e => simp [Res.map, Res.bind]
    | panic s => rfl
    | fuel => rfl
  · exact key value

/-! ### (c) the editors: unconditional frame theorems (every input, every outcome)

`buf` reaches only the final builder call of each editor, and both builders only append
(`buildArrayInto_spec`, `buildObjectInto_spec`: nested builders patch entry words at absolute
positions at or after `buf.length`). -/

theorem buildArrayInto_frame (buf : Bytes) (es : List BEntry) :
    buildArrayInto buf es = (buildArrayInto [] es).map (buf ++ ·) := by
  rw [buildArrayInto_spec, buildArrayInto_spec]; simp [Res.map, Res.bind]
theorem buildObjectInto_frame (buf : Bytes) (kvs : List (Bytes × BEntry)) :
    buildObjectInto buf kvs = (buildObjectInto [] kvs).map (buf ++ ·) := by
  rw [buildObjectInto_spec, buildObjectInto_spec]; simp [Res.map, Res.bind]

/-- close a frame goal: split every `match` / `if` of the editor; error branches are closed by
`rfl`, builder branches by the builder frame lemmas, pass-through branches by `simp` -/
macro "frame_cases" : tactic => `(tactic| (
  repeat' (first
    | rfl
    | exact buildArrayInto_frame _ _
    | exact buildObjectInto_frame _ _
    | (simp only [Res.map, Res.bind, List.nil_append]; done)
    | split
    | (dsimp only; split))))

namespace Fn

theorem concat_frame (left right buf : Bytes) :
    Fn.concat left right buf = (Fn.concat left right []).map (buf ++ ·) := by
  unfold Fn.concat; frame_cases

theorem deleteByName_frame (value name buf : Bytes) :
    Fn.deleteByName value name buf = (Fn.deleteByName value name []).map (buf ++ ·) := by
  unfold Fn.deleteByName; frame_cases

theorem deleteByIndex_frame (value : Bytes) (i : Int) (buf : Bytes) :
    Fn.deleteByIndex value i buf = (Fn.deleteByIndex value i []).map (buf ++ ·) := by
  unfold Fn.deleteByIndex; frame_cases

theorem arrayInsert_frame (value : Bytes) (pos : Int) (new buf : Bytes) :
    Fn.arrayInsert value pos new buf = (Fn.arrayInsert value pos new []).map (buf ++ ·) := by
  unfold Fn.arrayInsert; frame_cases

theorem arrayDistinct_frame (value buf : Bytes) :
    Fn.arrayDistinct value buf = (Fn.arrayDistinct value []).map (buf ++ ·) := by
  unfold Fn.arrayDistinct; frame_cases

theorem arraySetOp_frame (keep : Bool) (v1 v2 buf : Bytes) :
    Fn.arraySetOp keep v1 v2 buf = (Fn.arraySetOp keep v1 v2 []).map (buf ++ ·) := by
  unfold Fn.arraySetOp; frame_cases

theorem objectInsert_frame (value key new : Bytes) (update : Bool) (buf : Bytes) :
    Fn.objectInsert value key new update buf = (Fn.objectInsert value key new update []).map (buf ++ ·) := by
  unfold Fn.objectInsert; frame_cases

theorem objectFilter_frame (pick : Bool) (value : Bytes) (keys : List Bytes) (buf : Bytes) :
    Fn.objectFilter pick value keys buf = (Fn.objectFilter pick value keys []).map (buf ++ ·) := by
  unfold Fn.objectFilter; frame_cases

theorem stripNulls_frame (value buf : Bytes) :
    Fn.stripNulls value buf = (Fn.stripNulls value []).map (buf ++ ·) := by
  unfold Fn.stripNulls; frame_cases

theorem deleteByKeypath_frame (value : Bytes) (kp : List KeyPath) (buf : Bytes) :
    Fn.deleteByKeypath value kp buf = (Fn.deleteByKeypath value kp []).map (buf ++ ·) := by
  unfold Fn.deleteByKeypath; frame_cases

theorem buildArray_frame (items : List Bytes) (buf : Bytes) :
    Fn.buildArray items buf = (Fn.buildArray items []).map (buf ++ ·) := by
  unfold Fn.buildArray; frame_cases

theorem buildObject_frame (items : List (Bytes × Bytes)) (buf : Bytes) :
    Fn.buildObject items buf = (Fn.buildObject items []).map (buf ++ ·) := by
  unfold Fn.buildObject; frame_cases

/-- **errors append nothing** (reading of the frame theorems, one instance spelled out): an `Err`
of an editor is the same `Err` whatever the buffer holds — and being an `err` of `Res Bytes` it
carries no buffer.  E.g. `delete_by_index` on a non-array. -/
theorem deleteByIndex_err_any_buf (value : Bytes) (i : Int) (e : String)
    (h : Fn.deleteByIndex value i [] = .err e) (buf : Bytes) : Fn.deleteByIndex value i buf = .err e := by
  rw [deleteByIndex_frame, h]; rfl

/-- generic form: any function with the frame property errs independently of the buffer -/
theorem err_any_buf (f : Bytes → Res Bytes) (hf : ∀ buf, f buf = (f []).map (buf ++ ·)) (e : String)
    (h : f [] = .err e) (buf : Bytes) : f buf = .err e := by
  rw [hf, h]; rfl

/-- and a success keeps the prior content as a prefix -/
theorem ok_prefix (f : Bytes → Res Bytes) (hf : ∀ buf, f buf = (f []).map (buf ++ ·)) (buf out : Bytes)
    (h : f buf = .ok out) : ∃ tail, f [] = .ok tail ∧ out = buf ++ tail := by
  rw [hf] at h
  cases hr : f [] with
  | ok t => simp only [hr, Res.map, Res.bind, Res.ok.injEq] at h; exact ⟨t, rfl, h.symm⟩
  | err e => simp [hr, Res.map, Res.bind] at h
  | panic s => simp [hr, Res.map, Res.bind] at h
  | fuel => simp [hr, Res.map, Res.bind] at h

end Fn

/-! ### (d) the whole public functions on text input -/

/-- a JSONB-sniffed argument: the public function is the JSONB editor, which only appends
(every input; no validity needed) -/
theorem T_stripNulls_bin_frame (b buf : Bytes) (hb : isJsonb b = true) :
    T.stripNulls b buf = (T.stripNulls b []).map (buf ++ ·) := by
  simp only [T.stripNulls, hb, Bool.not_true, Bool.false_eq_true, if_false]
  exact Fn.stripNulls_frame b buf
theorem T_deleteByName_bin_frame (b name buf : Bytes) (hb : isJsonb b = true) :
    T.deleteByName b name buf = (T.deleteByName b name []).map (buf ++ ·) := by
  simp only [T.deleteByName, hb, Bool.not_true, Bool.false_eq_true, if_false]
  exact Fn.deleteByName_frame b name buf
theorem T_deleteByIndex_bin_frame (b : Bytes) (i : Int) (buf : Bytes) (hb : isJsonb b = true) :
    T.deleteByIndex b i buf = (T.deleteByIndex b i []).map (buf ++ ·) := by
  simp only [T.deleteByIndex, hb, Bool.not_true, Bool.false_eq_true, if_false]
  exact Fn.deleteByIndex_frame b i buf
theorem T_concat_bin_frame (l r buf : Bytes) (hl : isJsonb l = true) (hr : isJsonb r = true) :
    T.concat l r buf = (T.concat l r []).map (buf ++ ·) := by
  simp only [T.concat, hl, hr, Bool.not_true, Bool.or_self, Bool.false_eq_true, if_false]
  exact Fn.concat_frame l r buf

/-- **`strip_nulls` on text only appends** -/
theorem T_stripNulls_text_frame {t : Bytes} {v : JV} (h : TextOf t v) (buf : Bytes) :
    T.stripNulls t buf = (T.stripNulls t []).map (buf ++ ·) := by
  rw [stripNulls_text h buf, stripNulls_text h []]
  exact T_stripNulls_bin_frame _ buf (isJsonb_encodeSpec v h.small)

/-- **`delete_by_name` on text only appends** (the `InvalidJsonType` error of a scalar document is
the same for every buffer) -/
theorem T_deleteByName_text_frame {t : Bytes} {v : JV} (h : TextOf t v) (name buf : Bytes) :
    T.deleteByName t name buf = (T.deleteByName t name []).map (buf ++ ·) := by
  rw [deleteByName_text h name buf, deleteByName_text h name []]
  exact T_deleteByName_bin_frame _ name buf (isJsonb_encodeSpec v h.small)

/-- **`delete_by_index` on a text array only appends** -/
theorem T_deleteByIndex_text_frame {t : Bytes} {vs : List JV} (h : TextOf t (arr vs))
    (i : Int) (hi : -2147483648 ≤ i ∧ i ≤ 2147483647) (buf : Bytes) :
    T.deleteByIndex t i buf = (T.deleteByIndex t i []).map (buf ++ ·) := by
  rw [deleteByIndex_text h i hi buf, deleteByIndex_text h i hi []]
  exact T_deleteByIndex_bin_frame _ i buf (isJsonb_encodeSpec _ h.small)

/-- **`concat` of two texts only appends** -/
theorem T_concat_text_frame {t1 t2 : Bytes} {v1 v2 : JV} (h1 : TextOfFS t1 v1) (h2 : TextOfFS t2 v2)
    (hres : goodTop (Spec.concat v1 v2) = true) (buf : Bytes) :
    T.concat t1 t2 buf = (T.concat t1 t2 []).map (buf ++ ·) := by
  rw [concat_text_text h1 h2 hres buf, concat_text_text h1 h2 hres []]
  exact T_concat_bin_frame _ _ buf (isJsonb_encodeSpec v1 h1.small) (isJsonb_encodeSpec v2 h2.small)

/-- the "parse, encode, run the JSONB function" wrappers inherit the frame property of the JSONB
function for EVERY input, text or not, parsable or not -/
theorem viaJsonb1_frame (f : Bytes → Bytes → Res Bytes) (hf : ∀ a buf, f a buf = (f a []).map (buf ++ ·))
    (value buf : Bytes) :
    T.viaJsonb1 (fun a => f a buf) value = (T.viaJsonb1 (fun a => f a []) value).map (buf ++ ·) := by
  unfold T.viaJsonb1
  split
  · cases T.textToJsonb value with
    | ok a => exact hf a buf
    | err e => rfl
    | panic s => rfl
    | fuel => rfl
  · exact hf value buf

theorem viaJsonb2_frame (f : Bytes → Bytes → Bytes → Res Bytes)
    (hf : ∀ a b buf, f a b buf = (f a b []).map (buf ++ ·)) (x y buf : Bytes) :
    T.viaJsonb2 (fun a b => f a b buf) x y = (T.viaJsonb2 (fun a b => f a b []) x y).map (buf ++ ·) := by
  unfold T.viaJsonb2
  split
  · cases T.textToJsonb x with
    | ok a =>
      simp only [Res.bind]
      split
      · cases T.textToJsonb y with
        | ok b => exact hf a b buf
        | err e => rfl
        | panic s => rfl
        | fuel => rfl
      · exact hf a y buf
    | err e => rfl
    | panic s => rfl
    | fuel => rfl
  · split
    · cases T.textToJsonb y with
      | ok b => exact hf x b buf
      | err e => rfl
      | panic s => rfl
      | fuel => rfl
    · exact hf x y buf

/-- instances: `array_insert`, `object_insert`, `array_distinct`, `array_intersection`,
`array_except`, `object_delete`, `object_pick` on ANY input (text, JSONB, garbage) only append -/
theorem T_arrayInsert_frame (value : Bytes) (pos : Int) (new buf : Bytes) :
    T.arrayInsert value pos new buf = (T.arrayInsert value pos new []).map (buf ++ ·) :=
  viaJsonb2_frame (fun a b buf => Fn.arrayInsert a pos b buf) (fun a b buf => Fn.arrayInsert_frame a pos b buf) value new buf
theorem T_objectInsert_frame (value key new : Bytes) (update : Bool) (buf : Bytes) :
    T.objectInsert value key new update buf = (T.objectInsert value key new update []).map (buf ++ ·) :=
  viaJsonb2_frame (fun a b buf => Fn.objectInsert a key b update buf)
    (fun a b buf => Fn.objectInsert_frame a key b update buf) value new buf
theorem T_arrayDistinct_frame (value buf : Bytes) :
    T.arrayDistinct value buf = (T.arrayDistinct value []).map (buf ++ ·) :=
  viaJsonb1_frame (fun a buf => Fn.arrayDistinct a buf) Fn.arrayDistinct_frame value buf
theorem T_arrayIntersection_frame (a b buf : Bytes) :
    T.arrayIntersection a b buf = (T.arrayIntersection a b []).map (buf ++ ·) :=
  viaJsonb2_frame (fun x y buf => Fn.arraySetOp true x y buf) (Fn.arraySetOp_frame true) a b buf
theorem T_arrayExcept_frame (a b buf : Bytes) :
    T.arrayExcept a b buf = (T.arrayExcept a b []).map (buf ++ ·) :=
  viaJsonb2_frame (fun x y buf => Fn.arraySetOp false x y buf) (Fn.arraySetOp_frame false) a b buf
theorem T_objectDelete_frame (value : Bytes) (keys : List Bytes) (buf : Bytes) :
    T.objectDelete value keys buf = (T.objectDelete value keys []).map (buf ++ ·) :=
  viaJsonb1_frame (fun a buf => Fn.objectFilter false a keys buf) (fun a buf => Fn.objectFilter_frame false a keys buf) value buf
theorem T_objectPick_frame (value : Bytes) (keys : List Bytes) (buf : Bytes) :
    T.objectPick value keys buf = (T.objectPick value keys []).map (buf ++ ·) :=
  viaJsonb1_frame (fun a buf => Fn.objectFilter true a keys buf) (fun a buf => Fn.objectFilter_frame true a keys buf) value buf

end Jsonb
