/-
Agreement theorems, phase 5a, part 5: the number views and the casts of functions.rs.  `as_i64` / `as_u64` / `as_f64`,
the `is_*` wrappers, `to_bool` / `to_i64` / `to_u64` / `to_f64` / `to_str` call the WHOLE functions `as_number`,
`as_bool`, `as_str` (each sniffs its argument): the translated functions take the outcome of each callee's text
branch as a parameter (`<callee>_text__`).  The theorems state them as the model's cascades over the callees'
answers, for every value of those parameters; on JSONB input they are `Fn.toBool`, `Fn.toI64`, `Fn.toU64`.
`str::parse`, `to_lowercase`, `format!("{}", number)`, `1_f64` are MAPPED primitives (RustPrelude5a.lean).
-/
import JsonbModel.Proofs.TranslatedAgreeE4
import JsonbModel.Proofs.TranslatedAgree3

set_option linter.unusedSimpArgs false
set_option linter.unusedVariables false

namespace Jsonb.TrAgree
open Jsonb.Rs

/-- what `Number::decode` returns is a value of its Rust type -/
theorem num_dec_WF (bs : Bytes) (n : Num) (h : Num.dec bs = .ok n) : n.WF := by
  unfold Num.dec at h
  cases bs with
  | nil => cases h
  | cons t rest =>
    dsimp only at h
    have hb := ofBe_lt rest
    split at h
    · split at h
      · cases h
      · split at h
        · cases h; simp [Num.WF]
        · split at h
          · cases h; simp [Num.WF, F64.canonNaN]
          · split at h
            · cases h; simp [Num.WF, F64.posInf]
            · cases h; simp [Num.WF, F64.negInf]
    · split at h
      · split at h
        · cases h
          rename_i hl
          simp only [Num.WF, Num.ofBeI]
          rcases hl with hl | hl | hl | hl <;> rw [hl] at hb ⊢ <;> simp only [Nat.reducePow] at hb ⊢ <;> split <;> omega
        · cases h
      · split at h
        · split at h
          · cases h
            rename_i hl
            simp only [Num.WF]
            rcases hl with hl | hl | hl | hl <;> rw [hl] at hb <;> simp only [Nat.reducePow] at hb <;> omega
          · cases h
        · split at h
          · split at h
            · cases h
              rename_i hl
              simp only [Num.WF]
              rw [hl] at hb; simp only [Nat.reducePow] at hb; omega
            · cases h
          · cases h


/-! ## the scalar views: what the whole `as_*` functions answer, given the outcome of their text branches -/

/-- the whole `as_null` / `as_bool` / `as_number` / `as_str`, given the outcome `t` of the text branch -/
def asNullOf (value : Bytes) (t : Res (Option Unit)) : Res (Option Unit) := if isJsonb value then Fn.asNull value else t
def asBoolOf (value : Bytes) (t : Res (Option Bool)) : Res (Option Bool) := if isJsonb value then Fn.asBool value else t
def asNumberOf (value : Bytes) (t : Res (Option Num)) : Res (Option Num) := if isJsonb value then Fn.asNumber value else t
def asStrOf (value : Bytes) (t : Res (Option Bytes)) : Res (Option Bytes) := if isJsonb value then Fn.asStr value else t

/-- a number result as the translated functions see it -/
def ofNumR (t : Res (Option Num)) : Res (Option Tr.Number) := t.map (Option.map ofNum)

/-- every number answered is a value of its Rust type -/
def NumWF (t : Res (Option Num)) : Prop := ∀ n, t = .ok (some n) → n.WF

theorem asNumber_WF (value : Bytes) : NumWF (Fn.asNumber value) := by
  intro n h
  unfold Fn.asNumber at h
  split at h
  · split at h
    · split at h
      · split at h
        · cases h; rename_i hd; exact num_dec_WF _ _ hd
        · cases h
      · cases h
      · cases h
      · cases h
    · cases h
  · cases h

theorem asNumberOf_WF (value : Bytes) (t : Res (Option Num)) (ht : NumWF t) : NumWF (asNumberOf value t) := by
  unfold asNumberOf
  split
  · exact asNumber_WF value
  · exact ht

theorem as_number_of (value : Bytes) (t : Res (Option Num)) :
    Tr.as_number value (ofNumR t) = ofNumR (asNumberOf value t) := by
  rw [as_number_agrees]
  unfold asNumberOf ofNumR
  split <;> rfl

/-! ## as_i64 / as_u64 / as_f64 -/

theorem as_i64_fn_agrees (value : Bytes) (t : Res (Option Num)) (ht : NumWF t) :
    Tr.as_i64 value (ofNumR t) = (asNumberOf value t).map (fun o => o.bind Num.asI64) := by
  unfold Tr.as_i64
  rw [as_number_of]
  have hwf := asNumberOf_WF value t ht
  cases hr : asNumberOf value t with
  | ok o =>
    cases o with
    | none => rfl
    | some n =>
      simp only [ofNumR, Res.map, Res.bind, Option.map_some, Ctl.ofRes_ok', Ctl.val_bind', as_i64_agrees n (hwf n hr)]
      rfl
  | err e => rfl
  | panic e => rfl
  | fuel => rfl

theorem as_u64_fn_agrees (value : Bytes) (t : Res (Option Num)) (ht : NumWF t) :
    Tr.as_u64 value (ofNumR t) = (asNumberOf value t).map (fun o => (o.bind Num.asU64).map Int.ofNat) := by
  unfold Tr.as_u64
  rw [as_number_of]
  have hwf := asNumberOf_WF value t ht
  cases hr : asNumberOf value t with
  | ok o =>
    cases o with
    | none => rfl
    | some n =>
      simp only [ofNumR, Res.map, Res.bind, Option.map_some, Ctl.ofRes_ok', Ctl.val_bind', as_u64_agrees n (hwf n hr)]
      rfl
  | err e => rfl
  | panic e => rfl
  | fuel => rfl

theorem as_f64_fn_agrees (value : Bytes) (t : Res (Option Num)) :
    Tr.as_f64 value (ofNumR t) = (asNumberOf value t).map (fun o => o.map Num.asF64) := by
  unfold Tr.as_f64
  rw [as_number_of]
  cases hr : asNumberOf value t with
  | ok o =>
    cases o with
    | none => rfl
    | some n =>
      simp only [ofNumR, Res.map, Res.bind, Option.map_some, Ctl.ofRes_ok', Ctl.val_bind', as_f64_agrees n]
      rfl
  | err e => rfl
  | panic e => rfl
  | fuel => rfl

/-! ## is_null / is_boolean / is_number / is_string / is_i64 / is_u64 / is_f64 -/

theorem run_isSome {α : Type} (r : Res (Option α)) :
    Ctl.run (Ctl.ofRes r >>= fun o => (Ctl.ret (Res.ok (Option.isSome o)) : Ctl Bool Bool)) = r.map Option.isSome := by
  cases r <;> rfl

theorem is_null_agrees (value : Bytes) (t : Res (Option Unit)) :
    Tr.is_null value t = (asNullOf value t).map Option.isSome := by
  unfold Tr.is_null; rw [as_null_agrees]; exact run_isSome _
theorem is_boolean_agrees (value : Bytes) (t : Res (Option Bool)) :
    Tr.is_boolean value t = (asBoolOf value t).map Option.isSome := by
  unfold Tr.is_boolean; rw [as_bool_agrees]; exact run_isSome _
theorem is_string_agrees (value : Bytes) (t : Res (Option Bytes)) :
    Tr.is_string value t = (asStrOf value t).map Option.isSome := by
  unfold Tr.is_string; rw [as_str_agrees]; exact run_isSome _

theorem map_isSome_map {α β : Type} (f : α → β) (r : Res (Option α)) :
    (r.map (Option.map f)).map Option.isSome = r.map Option.isSome := by
  cases r with
  | ok o => cases o <;> rfl
  | err e => rfl
  | panic e => rfl
  | fuel => rfl

theorem is_number_agrees (value : Bytes) (t : Res (Option Num)) :
    Tr.is_number value (ofNumR t) = (asNumberOf value t).map Option.isSome := by
  unfold Tr.is_number; rw [as_number_of, run_isSome, ofNumR, map_isSome_map]
theorem is_i64_agrees (value : Bytes) (t : Res (Option Num)) (ht : NumWF t) :
    Tr.is_i64 value (ofNumR t) = ((asNumberOf value t).map (fun o => o.bind Num.asI64)).map Option.isSome := by
  unfold Tr.is_i64; rw [as_i64_fn_agrees value t ht, run_isSome]
theorem is_u64_agrees (value : Bytes) (t : Res (Option Num)) (ht : NumWF t) :
    Tr.is_u64 value (ofNumR t) = ((asNumberOf value t).map (fun o => o.bind Num.asU64)).map Option.isSome := by
  unfold Tr.is_u64; rw [as_u64_fn_agrees value t ht, run_isSome]
  cases asNumberOf value t with
  | ok o => cases o with
    | none => rfl
    | some n => simp only [Res.map, Res.bind, Option.bind_some]; cases Num.asU64 n <;> rfl
  | err e => rfl
  | panic e => rfl
  | fuel => rfl
theorem is_f64_agrees (value : Bytes) (t : Res (Option Num)) :
    Tr.is_f64 value (ofNumR t) = ((asNumberOf value t).map (fun o => o.map Num.asF64)).map Option.isSome := by
  unfold Tr.is_f64; rw [as_f64_fn_agrees value t, run_isSome]

/-! ## to_bool / to_i64 / to_u64 / to_f64 / to_str

The casts call the WHOLE functions `as_bool`, `as_str`, `as_i64`, … (each sniffs and, on text, parses again); the
translated casts take the outcome of each callee's text branch.  `toBoolOf` … are the casts as functions of the
callees' answers - literally the `match` cascades of `Fn.toBool` / `T.toBool` …. -/

def toBoolOf (b : Res (Option Bool)) (s : Res (Option Bytes)) : Res Bool :=
  match b with
  | .ok (some v) => .ok v
  | .ok none =>
    (match s with
     | .ok (some s) => if Fn.lowerEq s "true" then .ok true else if Fn.lowerEq s "false" then .ok false else .err "InvalidCast"
     | .ok none => .err "InvalidCast"
     | .err e => .err e
     | .panic s => .panic s
     | .fuel => .fuel)
  | .err e => .err e
  | .panic s => .panic s
  | .fuel => .fuel

/-- the common tail of `to_i64` / `to_u64` / `to_f64` (`T.castTail` on the callees' answers) -/
def castTailOf {α : Type} (b : Res (Option Bool)) (s : Res (Option Bytes)) (one zero : α) (parse : Bytes → Option α) : Res α :=
  match b with
  | .ok (some v) => .ok (if v then one else zero)
  | .ok none =>
    (match s with
     | .ok (some s) => (match parse s with | some v => .ok v | none => .err "InvalidCast")
     | .ok none => .err "InvalidCast"
     | .err e => .err e
     | .panic s => .panic s
     | .fuel => .fuel)
  | .err e => .err e
  | .panic s => .panic s
  | .fuel => .fuel

def castOf {α : Type} (n : Res (Option α)) (b : Res (Option Bool)) (s : Res (Option Bytes)) (one zero : α)
    (parse : Bytes → Option α) : Res α :=
  match n with
  | .ok (some v) => .ok v
  | .ok none => castTailOf b s one zero parse
  | .err e => .err e
  | .panic s => .panic s
  | .fuel => .fuel

theorem to_bool_agrees (value : Bytes) (tb : Res (Option Bool)) (ts : Res (Option Bytes)) :
    Tr.to_bool value tb ts = toBoolOf (asBoolOf value tb) (asStrOf value ts) := by
  unfold Tr.to_bool toBoolOf
  rw [as_bool_agrees, as_str_agrees]
  unfold asBoolOf asStrOf
  cases (if isJsonb value = true then Fn.asBool value else tb) with
  | ok o =>
    cases o with
    | some v => rfl
    | none =>
      simp only [Ctl.ofRes_ok', Ctl.val_bind']
      cases (if isJsonb value = true then Fn.asStr value else ts) with
      | ok o2 =>
        cases o2 with
        | none => rfl
        | some s =>
          simp only [Ctl.ofRes_ok', Ctl.val_bind', Rs.lowercaseEq]
          by_cases h1 : Fn.lowerEq s "true" = true
          · simp [h1, Ctl.run]
          · by_cases h2 : Fn.lowerEq s "false" = true
            · simp [h1, h2, Ctl.run]
            · simp [h1, h2, Ctl.run]
      | err e => rfl
      | panic e => rfl
      | fuel => rfl
  | err e => rfl
  | panic e => rfl
  | fuel => rfl


theorem to_i64_agrees (value : Bytes) (t : Res (Option Num)) (ht : NumWF t) (tb : Res (Option Bool)) (ts : Res (Option Bytes)) :
    Tr.to_i64 value (ofNumR t) tb ts =
      castOf ((asNumberOf value t).map (fun o => o.bind Num.asI64)) (asBoolOf value tb) (asStrOf value ts) (1 : Int) (0 : Int) Fn.parseI64 := by
  unfold Tr.to_i64 castOf castTailOf
  rw [as_i64_fn_agrees value t ht, as_bool_agrees, as_str_agrees]
  unfold asBoolOf asStrOf
  cases ((asNumberOf value t).map (fun o => o.bind Num.asI64)) with
  | ok o =>
    cases o with
    | some v => rfl
    | none =>
      simp only [Ctl.ofRes_ok', Ctl.val_bind']
      cases (if isJsonb value = true then Fn.asBool value else tb) with
      | ok o1 =>
        cases o1 with
        | some b => cases b <;> simp [Ctl.run]
        | none =>
          simp only [Ctl.ofRes_ok', Ctl.val_bind']
          cases (if isJsonb value = true then Fn.asStr value else ts) with
          | ok o2 =>
            cases o2 with
            | none => rfl
            | some s =>
              simp only [Ctl.ofRes_ok', Ctl.val_bind', Rs.parseI64]
              cases Fn.parseI64 s <;> rfl
          | err e => rfl
          | panic e => rfl
          | fuel => rfl
      | err e => rfl
      | panic e => rfl
      | fuel => rfl
  | err e => rfl
  | panic e => rfl
  | fuel => rfl

theorem to_u64_agrees (value : Bytes) (t : Res (Option Num)) (ht : NumWF t) (tb : Res (Option Bool)) (ts : Res (Option Bytes)) :
    Tr.to_u64 value (ofNumR t) tb ts =
      castOf ((asNumberOf value t).map (fun o => (o.bind Num.asU64).map Int.ofNat)) (asBoolOf value tb) (asStrOf value ts) (1 : Int) (0 : Int) (fun s => (Fn.parseU64 s).map Int.ofNat) := by
  unfold Tr.to_u64 castOf castTailOf
  rw [as_u64_fn_agrees value t ht, as_bool_agrees, as_str_agrees]
  unfold asBoolOf asStrOf
  cases ((asNumberOf value t).map (fun o => (o.bind Num.asU64).map Int.ofNat)) with
  | ok o =>
    cases o with
    | some v => rfl
    | none =>
      simp only [Ctl.ofRes_ok', Ctl.val_bind']
      cases (if isJsonb value = true then Fn.asBool value else tb) with
      | ok o1 =>
        cases o1 with
        | some b => cases b <;> simp [Ctl.run]
        | none =>
          simp only [Ctl.ofRes_ok', Ctl.val_bind']
          cases (if isJsonb value = true then Fn.asStr value else ts) with
          | ok o2 =>
            cases o2 with
            | none => rfl
            | some s =>
              simp only [Ctl.ofRes_ok', Ctl.val_bind', Rs.parseU64]
              cases Fn.parseU64 s <;> rfl
          | err e => rfl
          | panic e => rfl
          | fuel => rfl
      | err e => rfl
      | panic e => rfl
      | fuel => rfl
  | err e => rfl
  | panic e => rfl
  | fuel => rfl

theorem to_f64_agrees (value : Bytes) (t : Res (Option Num)) (tb : Res (Option Bool)) (ts : Res (Option Bytes)) :
    Tr.to_f64 value (ofNumR t) tb ts =
      castOf ((asNumberOf value t).map (fun o => o.map Num.asF64)) (asBoolOf value tb) (asStrOf value ts) (Rs.intAsF64 1) (Rs.intAsF64 0) Fn.parseF64 := by
  unfold Tr.to_f64 castOf castTailOf
  rw [as_f64_fn_agrees value t, as_bool_agrees, as_str_agrees]
  unfold asBoolOf asStrOf
  cases ((asNumberOf value t).map (fun o => o.map Num.asF64)) with
  | ok o =>
    cases o with
    | some v => rfl
    | none =>
      simp only [Ctl.ofRes_ok', Ctl.val_bind']
      cases (if isJsonb value = true then Fn.asBool value else tb) with
      | ok o1 =>
        cases o1 with
        | some b => cases b <;> simp [Ctl.run]
        | none =>
          simp only [Ctl.ofRes_ok', Ctl.val_bind']
          cases (if isJsonb value = true then Fn.asStr value else ts) with
          | ok o2 =>
            cases o2 with
            | none => rfl
            | some s =>
              simp only [Ctl.ofRes_ok', Ctl.val_bind', Rs.parseF64]
              cases Fn.parseF64 s <;> rfl
          | err e => rfl
          | panic e => rfl
          | fuel => rfl
      | err e => rfl
      | panic e => rfl
      | fuel => rfl
  | err e => rfl
  | panic e => rfl
  | fuel => rfl


def toStrOf (fmt : Nat → Bytes) (s : Res (Option Bytes)) (b : Res (Option Bool)) (n : Res (Option Num)) : Res Bytes :=
  match s with
  | .ok (some s) => .ok s
  | .ok none =>
    (match b with
     | .ok (some b) => .ok (if b then Fn.lit "true" else Fn.lit "false")
     | .ok none =>
       (match n with
        | .ok (some n) => .ok (Fn.numToString fmt n)
        | .ok none => .err "InvalidCast"
        | .err e => .err e
        | .panic s => .panic s
        | .fuel => .fuel)
     | .err e => .err e
     | .panic s => .panic s
     | .fuel => .fuel)
  | .err e => .err e
  | .panic s => .panic s
  | .fuel => .fuel

theorem numberToNum_ofNum (n : Num) : Rs.numberToNum (ofNum n) = n := by
  cases n <;> simp [ofNum, Rs.numberToNum]

theorem to_str_agrees (fmt : Nat → Bytes) (value : Bytes) (ts : Res (Option Bytes)) (tb : Res (Option Bool)) (t : Res (Option Num)) :
    Tr.to_str fmt value ts tb (ofNumR t) = toStrOf fmt (asStrOf value ts) (asBoolOf value tb) (asNumberOf value t) := by
  unfold Tr.to_str toStrOf
  rw [as_number_of, as_bool_agrees, as_str_agrees]
  unfold asBoolOf asStrOf
  cases (if isJsonb value = true then Fn.asStr value else ts) with
  | ok o =>
    cases o with
    | some v => rfl
    | none =>
      simp only [Ctl.ofRes_ok', Ctl.val_bind']
      cases (if isJsonb value = true then Fn.asBool value else tb) with
      | ok o1 =>
        cases o1 with
        | some b => cases b <;> simp [Ctl.run, Rs.strLit, Fn.lit]
        | none =>
          simp only [Ctl.ofRes_ok', Ctl.val_bind']
          cases asNumberOf value t with
          | ok o2 =>
            cases o2 with
            | none => rfl
            | some n => simp [ofNumR, Res.map, Res.bind, Ctl.ofRes, Ctl.run, Rs.displayNumber, numberToNum_ofNum]
          | err e => rfl
          | panic e => rfl
          | fuel => rfl
      | err e => rfl
      | panic e => rfl
      | fuel => rfl
  | err e => rfl
  | panic e => rfl
  | fuel => rfl

/-! ## on JSONB input: the byte-level models of Functions/Access.lean -/

theorem intAsF64_one : Rs.intAsF64 1 = 0x3FF0000000000000 := by decide
theorem intAsF64_zero : Rs.intAsF64 0 = 0 := by decide

theorem to_bool_jsonb (value : Bytes) (hj : isJsonb value = true) (tb : Res (Option Bool)) (ts : Res (Option Bytes)) :
    Tr.to_bool value tb ts = Fn.toBool value := by
  rw [to_bool_agrees]; simp only [asBoolOf, asStrOf, hj, if_true]; rfl

theorem to_i64_jsonb (value : Bytes) (hj : isJsonb value = true) (t : Res (Option Num)) (ht : NumWF t)
    (tb : Res (Option Bool)) (ts : Res (Option Bytes)) :
    Tr.to_i64 value (ofNumR t) tb ts = Fn.toI64 value := by
  rw [to_i64_agrees value t ht]; simp only [asBoolOf, asStrOf, asNumberOf, hj, if_true]
  unfold Fn.toI64 Fn.asI64 castOf castTailOf
  cases (Fn.asNumber value).map (fun o => o.bind Num.asI64) with
  | ok o => cases o with
    | some v => rfl
    | none =>
      simp only []
      cases Fn.asBool value with
      | ok o1 => cases o1 with
        | some b => cases b <;> rfl
        | none =>
          simp only []
          cases Fn.asStr value with
          | ok o2 => cases o2 with
            | some s => simp only []; cases Fn.parseI64 s <;> rfl
            | none => rfl
          | err e => rfl
          | panic e => rfl
          | fuel => rfl
      | err e => rfl
      | panic e => rfl
      | fuel => rfl
  | err e => rfl
  | panic e => rfl
  | fuel => rfl

theorem to_u64_jsonb (value : Bytes) (hj : isJsonb value = true) (t : Res (Option Num)) (ht : NumWF t)
    (tb : Res (Option Bool)) (ts : Res (Option Bytes)) :
    Tr.to_u64 value (ofNumR t) tb ts = (Fn.toU64 value).map Int.ofNat := by
  rw [to_u64_agrees value t ht]; simp only [asBoolOf, asStrOf, asNumberOf, hj, if_true]
  unfold Fn.toU64 Fn.asU64 castOf castTailOf
  cases Fn.asNumber value with
  | ok o => cases o with
    | some n =>
      simp only [Res.map, Res.bind, Option.bind_some]
      cases Num.asU64 n with
      | some v => rfl
      | none =>
        simp only [Option.map_none]
        cases Fn.asBool value with
        | ok o1 => cases o1 with
          | some b => cases b <;> rfl
          | none =>
            simp only []
            cases Fn.asStr value with
            | ok o2 => cases o2 with
              | some s => simp only []; cases Fn.parseU64 s <;> rfl
              | none => rfl
            | err e => rfl
            | panic e => rfl
            | fuel => rfl
        | err e => rfl
        | panic e => rfl
        | fuel => rfl
    | none =>
      simp only [Res.map, Res.bind, Option.bind_none, Option.map_none]
      cases Fn.asBool value with
      | ok o1 => cases o1 with
        | some b => cases b <;> rfl
        | none =>
          simp only []
          cases Fn.asStr value with
          | ok o2 => cases o2 with
            | some s => simp only []; cases Fn.parseU64 s <;> rfl
            | none => rfl
          | err e => rfl
          | panic e => rfl
          | fuel => rfl
      | err e => rfl
      | panic e => rfl
      | fuel => rfl
  | err e => rfl
  | panic e => rfl
  | fuel => rfl

end Jsonb.TrAgree
