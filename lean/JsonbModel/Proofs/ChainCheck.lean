/-
C07 (chains of operations), part 6: a Bool-valued, kernel-evaluable checker for the side
conditions, sound for `OpOK` / `ChainOK` (`chainOK_of_b`).  Used for the non-vacuity example:
`ChainOK` of a concrete chain is established by `decide +kernel` on `chainOKb`.
No Mathlib.
-/
import JsonbModel.Proofs.ChainRun
import JsonbModel.Proofs.ChainSizes

namespace Jsonb
open JV

def i32b (i : Int) : Bool := decide (-2147483648 ≤ i) && decide (i ≤ 2147483647)

def kpOKb : List KeyPath → Bool
  | [] => true
  | .index i :: kp => i32b i && kpOKb kp
  | .name _ :: kp => kpOKb kp
  | .quoted _ :: kp => kpOKb kp

def argTopb : Arg JV → Bool
  | .lit w => goodTop w
  | .self => true
  | .sub _ => true

def argEmbb (v : JV) : Arg JV → Bool
  | .lit w => good w
  | .self => good v
  | .sub kp => !kp.isEmpty || good v

def argSetb : Arg JV → Bool
  | .lit w => goodTop w && goodL (Spec.elems w)
  | .self => true
  | .sub _ => true

def headOKb : JsonPath → Bool
  | .current :: _ => false
  | _ => true

def pathOKb (v : JV) (jp : JsonPath) : Bool :=
  suppPaths jp && headOKb jp &&
  ((Spec.evalPaths (Spec.chainSelFuel v jp) v none jp).isSome ||
    (match Sel.findPositions (Spec.chainSelFuel v jp) (encodeSpec v) none jp with
     | .err _ => true
     | _ => false))

def opOKb (v : JV) : ChainOp JV → Bool
  | .concat a l => argTopb a &&
      (match Spec.argOf v a with
       | some w => goodTop (if l then Spec.concat w v else Spec.concat v w)
       | none => true)
  | .delName _ => true
  | .delIdx i => i32b i
  | .delKp kp => kpOKb kp
  | .arrIns p a => i32b p && argEmbb v a &&
      (match Spec.argOf v a with
       | some w => goodTop (Spec.arrayInsert v p w)
       | none => true)
  | .objIns k a u => decide (k.length < 268435456) && validUtf8 k && argEmbb v a &&
      (match Spec.argOf v a with
       | some w => (match Spec.objectInsert v k w u with
                    | .ok r => goodTop r
                    | .error _ => true)
       | none => true)
  | .objDel _ => true
  | .objPick _ => true
  | .strip => true
  | .getIdx _ => true
  | .getName _ _ => true
  | .getKp _ => true
  | .keys => true
  | .distinct => goodL (Spec.elems v)
  | .inter a => goodL (Spec.elems v) && argSetb a
  | .except a => goodL (Spec.elems v) && argSetb a
  | .wrapArr as => as.all (argEmbb v) && decide (as.length < 536870912)
  | .wrapObj kas =>
      kas.all (fun ka => decide (ka.1.length < 268435456) && validUtf8 ka.1 && argEmbb v ka.2) &&
      (match Spec.kargsOf v kas with
       | some ws => decide ((mkObj ws).length < 536870912)
       | none => true)
  | .selFirst jp => pathOKb v jp
  | .selArr jp => pathOKb v jp &&
      (Sel.isPredicate jp ||
        (match Spec.evalPaths (Spec.chainSelFuel v jp) v none jp with
         | some items => goodTop (arr items)
         | none => true))

def chainOKb (v : JV) : List (ChainOp JV) → Bool
  | [] => true
  | op :: ops => opOKb v op && chainOKb ((Spec.chainStep v op).getD v) ops

/-! ### soundness -/

theorem i32_of_b {i : Int} (h : i32b i = true) : I32 i := by
  simpa [i32b, I32] using h

theorem kpOK_of_b : ∀ {kp : List KeyPath}, kpOKb kp = true → kpOK kp
  | [], _ => trivial
  | .index i :: kp, h => by
    simp only [kpOKb, Bool.and_eq_true] at h
    exact ⟨i32_of_b h.1, kpOK_of_b h.2⟩
  | .name _ :: kp, h => by simp only [kpOKb] at h; exact kpOK_of_b (kp := kp) h
  | .quoted _ :: kp, h => by simp only [kpOKb] at h; exact kpOK_of_b (kp := kp) h

theorem argTop_of_b {a : Arg JV} (h : argTopb a = true) : ArgTop a := by
  cases a with
  | lit w => exact h
  | self => trivial
  | sub kp => trivial

theorem argEmb_of_b {v : JV} {a : Arg JV} (h : argEmbb v a = true) : ArgEmb v a := by
  cases a with
  | lit w => exact h
  | self => exact h
  | sub kp =>
    intro hk; subst hk
    simpa [argEmbb] using h

theorem argSet_of_b {a : Arg JV} (h : argSetb a = true) : ArgSet a := by
  cases a with
  | lit w => simpa [argSetb, ArgSet] using h
  | self => trivial
  | sub kp => trivial

theorem pathOK_of_b {v : JV} {jp : JsonPath} (h : pathOKb v jp = true) : PathOK v jp := by
  simp only [pathOKb, Bool.and_eq_true, Bool.or_eq_true] at h
  refine ⟨h.1.1, ?_, ?_⟩
  · intro hh
    cases jp with
    | nil => simp at hh
    | cons p ps =>
      simp only [List.head?_cons, Option.some.injEq] at hh; subst hh
      simp [headOKb] at h
  · rcases h.2 with h2 | h2
    · exact Or.inl h2
    · right
      cases hf : Sel.findPositions (Spec.chainSelFuel v jp) (encodeSpec v) none jp with
      | err e => exact ⟨e, rfl⟩
      | ok ps => rw [hf] at h2; simp at h2
      | panic s => rw [hf] at h2; simp at h2
      | fuel => rw [hf] at h2; simp at h2

theorem opOK_of_b (v : JV) (op : ChainOp JV) (h : opOKb v op = true) : OpOK v op := by
  cases op with
  | concat a l =>
    simp only [opOKb, Bool.and_eq_true] at h
    refine ⟨argTop_of_b h.1, fun w hw => ?_⟩
    have h2 := h.2; rw [hw] at h2; exact h2
  | delName n => trivial
  | delIdx i => exact i32_of_b h
  | delKp kp => exact kpOK_of_b h
  | arrIns p a =>
    simp only [opOKb, Bool.and_eq_true] at h
    refine ⟨i32_of_b h.1.1, argEmb_of_b h.1.2, fun w hw => ?_⟩
    have h2 := h.2; rw [hw] at h2; exact h2
  | objIns k a u =>
    simp only [opOKb, Bool.and_eq_true, decide_eq_true_eq] at h
    refine ⟨h.1.1.1, h.1.1.2, argEmb_of_b h.1.2, fun w r hw hr => ?_⟩
    have h2 := h.2; rw [hw] at h2; simp only [hr] at h2; exact h2
  | objDel ks => trivial
  | objPick ks => trivial
  | strip => trivial
  | getIdx i => trivial
  | getName n ic => trivial
  | getKp kp => trivial
  | keys => trivial
  | distinct => exact h
  | inter a =>
    simp only [opOKb, Bool.and_eq_true] at h
    exact ⟨h.1, argSet_of_b h.2⟩
  | except a =>
    simp only [opOKb, Bool.and_eq_true] at h
    exact ⟨h.1, argSet_of_b h.2⟩
  | wrapArr as =>
    simp only [opOKb, Bool.and_eq_true, decide_eq_true_eq, List.all_eq_true] at h
    exact ⟨fun a ha => argEmb_of_b (h.1 a ha), h.2⟩
  | wrapObj kas =>
    simp only [opOKb, Bool.and_eq_true, decide_eq_true_eq, List.all_eq_true] at h
    refine ⟨fun ka hka => ?_, fun ws hws => ?_⟩
    · have := h.1 ka hka
      exact ⟨this.1.1, this.1.2, argEmb_of_b this.2⟩
    · have h2 := h.2; rw [hws] at h2; simpa using h2
  | selFirst jp => exact pathOK_of_b h
  | selArr jp =>
    simp only [opOKb, Bool.and_eq_true, Bool.or_eq_true] at h
    refine ⟨pathOK_of_b h.1, fun hnp items hE => ?_⟩
    rcases h.2 with h2 | h2
    · rw [hnp] at h2; simp at h2
    · rw [hE] at h2; exact h2

/-- the Bool checker is sound for `ChainOK` -/
theorem chainOK_of_b : ∀ (ops : List (ChainOp JV)) (v : JV), chainOKb v ops = true → ChainOK v ops
  | [], _, _ => trivial
  | op :: ops, v, h => by
    simp only [chainOKb, Bool.and_eq_true] at h
    exact ⟨opOK_of_b v op h.1, chainOK_of_b ops _ h.2⟩

end Jsonb
