/-
Agreement theorems, phase 6a, part 8: the frontier step (`Sel.stepAll`: the inner `for _ in 0..len` loops of
`find_positions` and `convert_expr_val`), the operand steps (`Sel.operandSteps`), the scalar values of a frontier
(`Sel.valuesOf`) and `convert_expr_val` = `Sel.exprVal`.
-/
import JsonbModel.Proofs.TranslatedAgreeG7

set_option linter.unusedSimpArgs false
set_option linter.unusedVariables false

namespace Jsonb.TrAgree
open Jsonb.Rs

theorem AgC.map_model {ρ α β γ : Type} {f : γ → α} {g : β → γ} {c : Ctl ρ α} {m : Res β} (h : AgC (fun b => f (g b)) c m) :
    AgC f c (m.map g) := by
  rcases h with h | h
  · exact Or.inl h
  · right
    cases m with
    | ok b => exact h
    | err e => exact h
    | panic s => exact h
    | fuel => exact h

theorem AgC.map_fun {ρ α β : Type} {f g : β → α} {c : Ctl ρ α} {m : Res β} (h : AgC f c m) (e : ∀ b, m = .ok b → f b = g b) :
    AgC g c m := by
  rcases h with h | h
  · exact Or.inl h
  · right
    cases m with
    | ok b => rw [h, e b rfl]
    | err e => exact h
    | panic s => exact h
    | fuel => exact h

/-! ## one position of the frontier -/

def isBW (p : Path) : Bool := match p with | .bracketWildcard => true | _ => false

/-- what one position contributes to the next frontier -/
def stepOne (root : Bytes) (p : Path) : Sel.Pos → Res (List Sel.Pos)
  | .container off len => Sel.selectPath root off len p
  | .scalar ty off len => .ok (if isBW p then [.scalar ty off len] else [])

theorem stepAll_cons (root : Bytes) (p : Path) (pos : Sel.Pos) (rest : List Sel.Pos) :
    Sel.stepAll root p (pos :: rest) = (stepOne root p pos).bind (fun ps => (Sel.stepAll root p rest).map (ps ++ ·)) := by
  cases pos with
  | container off len => simp only [Sel.stepAll, stepOne]; cases Sel.selectPath root off len p <;> rfl
  | scalar ty off len =>
    simp only [Sel.stepAll, stepOne, Res.bind, isBW]
    cases p <;> cases Sel.stepAll root _ rest <;> rfl

theorem isBW_ofPath (p : Path) : (match ofPath p with | .BracketWildcard => true | _ => false) = isBW p := by
  cases p <;> rfl

/-- the body of the inner loop of `find_positions` -/
theorem fp_loop2_step (self : Tr.Selector) (root : Bytes) (p : Path) (hp : PathOK p) (hlen : root.length < 9223372036854775808)
    (i : Int) (pos : Sel.Pos) (q : List Sel.Pos) :
    AgC (fun ps => Step.next ((q ++ ps).map ofPos))
      (Tr.Selector.find_positions.loop2 self root (ofPath p) i ((pos :: q).map ofPos)) (stepOne root p pos) := by
  unfold Tr.Selector.find_positions.loop2
  simp only [List.map_cons, Rs.popFront, Rs.unwrap_some, Ctl.ofRes_ok', Ctl.val_bind']
  cases pos with
  | container off len =>
    simp only [ofPos, stepOne]
    have h := select_path_agrees self root off len p hp q hlen
    rcases h with h | h
    · left; rw [h]; rfl
    · right
      cases hm : Sel.selectPath root off len p with
      | ok ps => rw [hm] at h; rw [h]; rfl
      | err e => rw [hm] at h; rw [h]; rfl
      | panic s => rw [hm] at h; obtain ⟨t, ht⟩ := h; exact ⟨t, by rw [ht]; rfl⟩
      | fuel => rw [hm] at h; rw [h]; rfl
  | scalar ty off len =>
    right
    simp only [ofPos, stepOne]
    cases p <;> simp [Rs.pushBack, Rs.loopStep, ofPos, ofPath, isBW]

/-- the body of the inner loop of `convert_expr_val` (the same text) -/
theorem cev_loop1_step (self : Tr.Selector) (root : Bytes) (x : Tr.Position) (p : Path) (hp : PathOK p)
    (hlen : root.length < 9223372036854775808) (i : Int) (pos : Sel.Pos) (q : List Sel.Pos) :
    AgC (fun ps => Step.next ((q ++ ps).map ofPos))
      (Tr.Selector.convert_expr_val.loop1 self root x (ofPath p) i ((pos :: q).map ofPos)) (stepOne root p pos) := by
  unfold Tr.Selector.convert_expr_val.loop1
  simp only [List.map_cons, Rs.popFront, Rs.unwrap_some, Ctl.ofRes_ok', Ctl.val_bind']
  cases pos with
  | container off len =>
    simp only [ofPos, stepOne]
    have h := select_path_agrees self root off len p hp q hlen
    rcases h with h | h
    · left; rw [h]; rfl
    · right
      cases hm : Sel.selectPath root off len p with
      | ok ps => rw [hm] at h; rw [h]; rfl
      | err e => rw [hm] at h; rw [h]; rfl
      | panic s => rw [hm] at h; obtain ⟨t, ht⟩ := h; exact ⟨t, by rw [ht]; rfl⟩
      | fuel => rw [hm] at h; rw [h]; rfl
  | scalar ty off len =>
    right
    simp only [ofPos, stepOne]
    cases p <;> simp [Rs.pushBack, Rs.loopStep, ofPos, ofPath, isBW]

/-- `for _ in 0..len { let pos = poses.pop_front().unwrap(); … }`: the frontier is consumed from the front, the next
frontier grows at the back -/
theorem stepAll_run {ρ : Type} (root : Bytes) (p : Path) (body : Int → List Tr.Position → Ctl ρ (Step (List Tr.Position)))
    (hbody : ∀ i pos q, AgC (fun ps => Step.next ((q ++ ps).map ofPos)) (body i ((pos :: q).map ofPos)) (stepOne root p pos)) :
    ∀ (rem acc : List Sel.Pos) (i : Int),
      AgC (fun r => (acc ++ r).map ofPos) (Rs.forRangeAux body rem.length i ((rem ++ acc).map ofPos)) (Sel.stepAll root p rem) := by
  intro rem
  induction rem with
  | nil => intro acc i; right; simp [Rs.forRangeAux, Sel.stepAll]
  | cons pos rem ih =>
    intro acc i
    rw [stepAll_cons]
    have hb := hbody i pos (rem ++ acc)
    simp only [List.length_cons, List.cons_append]
    rcases hb with hb | hb
    · left; rw [Rs.forRangeAux_ret _ _ _ _ _ hb]
    · cases hm : stepOne root p pos with
      | ok ps =>
        rw [hm] at hb
        simp only [] at hb
        rw [Rs.forRangeAux_next _ _ _ _ _ hb]
        have := ih (acc ++ ps) (i + 1)
        simp only [List.append_assoc] at this ⊢
        simp only [Res.bind]
        exact AgC.map_model (f := fun r => List.map ofPos (acc ++ r)) (g := fun r => ps ++ r) this
      | err e =>
        rw [hm] at hb; simp only [] at hb
        right; rw [Rs.forRangeAux_ret _ _ _ _ _ hb]; rfl
      | panic s =>
        rw [hm] at hb; simp only [] at hb
        obtain ⟨t, ht⟩ := hb
        right; exact ⟨t, by rw [Rs.forRangeAux_ret _ _ _ _ _ ht]⟩
      | fuel =>
        rw [hm] at hb; simp only [] at hb
        right; rw [Rs.forRangeAux_ret _ _ _ _ _ hb]; rfl

/-- `let len = poses.len(); for _ in 0..len { … }` on a whole frontier -/
theorem stepAll_loop {ρ : Type} (root : Bytes) (p : Path) (body : Int → List Tr.Position → Ctl ρ (Step (List Tr.Position)))
    (hbody : ∀ i pos q, AgC (fun ps => Step.next ((q ++ ps).map ofPos)) (body i ((pos :: q).map ofPos)) (stepOne root p pos))
    (ps : List Sel.Pos) :
    AgC (fun r => r.map ofPos) (Rs.forRange (0 : Int) (Rs.len (ps.map ofPos)) (ps.map ofPos) body) (Sel.stepAll root p ps) := by
  have hl : Rs.len (ps.map ofPos) = ((ps.length : Nat) : Int) := by simp [Rs.len]
  rw [hl, Rs.forRange_zero]
  have := stepAll_run root p body hbody ps [] 0
  simpa using this

/-! ## the operand steps of a comparison -/

/-- one path element of an operand -/
def opStep (root : Bytes) (p : Path) (ps : List Sel.Pos) : Res (List Sel.Pos) :=
  match p with
  | .root | .current | .filterExpr _ | .predicate _ => .panic "unreachable"
  | _ => Sel.stepAll root p ps

theorem operandSteps_cons (root : Bytes) (p : Path) (rest : List Path) (ps : List Sel.Pos) :
    Sel.operandSteps root (p :: rest) ps = (opStep root p ps).bind (fun ps' => Sel.operandSteps root rest ps') := by
  cases p <;> simp only [Sel.operandSteps, opStep, Res.bind] <;> cases Sel.stepAll root _ ps <;> rfl

theorem cev_loop2_step (self : Tr.Selector) (root : Bytes) (x : Tr.Position) (p : Path) (hp : PathOK p)
    (hlen : root.length < 9223372036854775808) (ps : List Sel.Pos) :
    AgC (fun r => Step.next (r.map ofPos)) (Tr.Selector.convert_expr_val.loop2 self root x (ofPath p) (ps.map ofPos))
      (opStep root p ps) := by
  have key : ∀ (q : Path), PathOK q →
      AgC (fun r => Step.next (r.map ofPos))
        (Rs.loopStep (ρ := Tr.ExprValue) (do
          let poses ← (do
            let len := Rs.len (ps.map ofPos)
            let poses ← Rs.forRange (0 : Int) len (ps.map ofPos) (Tr.Selector.convert_expr_val.loop1 self root x (ofPath q))
            pure poses)
          pure poses)) (Sel.stepAll root q ps) := by
    intro q hq
    have h := stepAll_loop root q (Tr.Selector.convert_expr_val.loop1 self root x (ofPath q))
      (fun i pos acc => cev_loop1_step self root x q hq hlen i pos acc) ps
    rcases h with h | h
    · left; simp only [h]; rfl
    · right
      cases hm : Sel.stepAll root q ps with
      | ok r => rw [hm] at h; simp only [] at h; simp only [h]; rfl
      | err e => rw [hm] at h; simp only [] at h; simp only [h]; rfl
      | panic s => rw [hm] at h; obtain ⟨t, ht⟩ := h; exact ⟨t, by simp only [ht]; rfl⟩
      | fuel => rw [hm] at h; simp only [] at h; simp only [h]; rfl
  unfold Tr.Selector.convert_expr_val.loop2
  cases p with
  | root => right; exact ⟨_, rfl⟩
  | current => right; exact ⟨_, rfl⟩
  | filterExpr e => right; exact ⟨_, rfl⟩
  | predicate e => right; exact ⟨_, rfl⟩
  | dotWildcard => exact key _ hp
  | bracketWildcard => exact key _ hp
  | dotField s => exact key _ hp
  | colonField s => exact key _ hp
  | objectField s => exact key _ hp
  | arrayIndices is => exact key _ hp
  | arithmeticExpr e => exact key _ hp

theorem operandSteps_run (self : Tr.Selector) (root : Bytes) (x : Tr.Position) (hlen : root.length < 9223372036854775808) :
    ∀ (paths : List Path), PathsOK paths → ∀ (ps : List Sel.Pos),
      AgC (fun r => r.map ofPos)
        (Rs.forIn (ofPaths paths) (ps.map ofPos) (Tr.Selector.convert_expr_val.loop2 self root x) : Ctl Tr.ExprValue _)
        (Sel.operandSteps root paths ps) := by
  intro paths
  induction paths with
  | nil => intro _ ps; right; simp [ofPaths, Rs.forIn, Sel.operandSteps]
  | cons p rest ih =>
    intro hok ps
    simp only [PathsOK] at hok
    rw [operandSteps_cons]
    simp only [ofPaths]
    have hb := cev_loop2_step self root x p hok.1 hlen ps
    rcases hb with hb | hb
    · left; rw [Rs.forIn_ret _ _ _ _ _ hb]
    · cases hm : opStep root p ps with
      | ok r =>
        rw [hm] at hb; simp only [] at hb
        rw [Rs.forIn_next _ _ _ _ _ hb]
        exact ih hok.2 r
      | err e =>
        rw [hm] at hb; simp only [] at hb
        right; rw [Rs.forIn_ret _ _ _ _ _ hb]; rfl
      | panic s =>
        rw [hm] at hb; obtain ⟨t, ht⟩ := hb
        right; exact ⟨t, by rw [Rs.forIn_ret _ _ _ _ _ ht]⟩
      | fuel =>
        rw [hm] at hb; simp only [] at hb
        right; rw [Rs.forIn_ret _ _ _ _ _ hb]; rfl

end Jsonb.TrAgree
