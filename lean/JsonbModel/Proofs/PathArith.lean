/-
C09 — arithmetic atoms of the JSONPath filter grammar (`expr_atom` of jsonpath/parser.rs:
`operand arith operand` with `+ - * / %`, and a unary `+` / `-` in front of an operand).

* `arith_render` : the first alternative of the ordered choice reads `l op r` as
  `ArithBinary(op, l, r)` for ANY two operands (`PathEsc.XOperand`: `$`/`@` path with plain steps,
  or a literal) and any white space.
* `unary_render` : a sign, optional white space and a `$`/`@` PATH: the two operand-first
  alternatives (arithmetic, comparison) fail on the sign, the third gives `ArithUnary(sign, path)`.
  A sign in front of a LITERAL is not in the relation: `-1` is read as the literal first (see the
  examples at the end for what happens).
* `XArith`, `RA = RX XLeaf` : arithmetic atoms wherever the grammar has an atom (alone, in
  parentheses, under `&&` / `||`, in filters, in filters nested in `exists`), together with all
  of `PathEsc.RE`; an atom must be followed by the end of input, `)`, `&&` or `||`.
* headline: `parseJsonPath_rendering_rooted_arith`, `parseJsonPath_rendering_predicate_arith`,
  `parseJsonPath_arith_predicate` (`$.a + 3`, `-$.a`), `parseJsonPath_arith_filter` (`$?(@.a + 1)`),
  `parseJsonPath_printJsonPath_arith` (print → parse on `goodJsonPathA`).
-/
import JsonbModel.Proofs.PathEscapes

namespace Jsonb
open Nom PathParser PathPrint PathRT PathRT2 PathEsc
namespace PathArith

/-! ## 1. the operators -/

/-- the byte of a binary arithmetic operator: `+ - * / %` -/
def aopByte : ArithOp → UInt8
  | .add => 43 | .sub => 45 | .mul => 42 | .div => 47 | .mod => 37

/-- the byte of a unary sign: `+ -` -/
def uopByte : UnOp → UInt8
  | .add => 43 | .sub => 45

theorem printArithOp_eq (o : ArithOp) : printArithOp o = [aopByte o] := by cases o <;> rfl
theorem printUnOp_eq (o : UnOp) : printUnOp o = [uopByte o] := by cases o <;> rfl

theorem aopByte_props (o : ArithOp) : xFollow (aopByte o) = true ∧ isSpace (aopByte o) = false := by
  cases o <;> exact ⟨by decide, by decide⟩

theorem binaryArithOp_render (o : ArithOp) (X : Bytes) : binaryArithOp (aopByte o :: X) = .ok o X := by
  cases o <;> simp [binaryArithOp, aopByte, alt, value, char, PR.bind]

theorem unaryArithOp_render (o : UnOp) (X : Bytes) : unaryArithOp (uopByte o :: X) = .ok o X := by
  cases o <;> simp [unaryArithOp, uopByte, alt, value, char, PR.bind]

/-! ## 2. binary arithmetic atoms -/

/-- `expr_atom` reads `l op r` (first alternative of the ordered choice) as
`ArithBinary(op, l, r)`, for arbitrary operands and white space -/
theorem arith_render (R : Bool → Parser Expr) {rp : Bool} (o : ArithOp) {l r : Expr}
    {sl sr : Bytes} (w1 : Bytes) (hl : XOperand rp l sl) (hw1 : Ws w1)
    (hr : XOperand rp r sr) (rest : Bytes) (hrest : HeadOk opFollow (dropSpaces rest)) (i : Bytes)
    (hi : dropSpaces i = dropSpaces (sl ++ (aopByte o :: (w1 ++ (sr ++ rest))))) :
    exprAtom R rp i = .ok (.arithBinary o l r) (dropSpaces rest) := by
  obtain ⟨hxf, hns⟩ := aopByte_props o
  have hd1 : dropSpaces (aopByte o :: (w1 ++ (sr ++ rest))) = aopByte o :: (w1 ++ (sr ++ rest)) :=
    dropSpaces_nonspace _ _ hns
  have hL1 : delimited ws (innerExpr rp) ws i = .ok l (aopByte o :: (w1 ++ (sr ++ rest))) := by
    have := operand_xrender hl (aopByte o :: (w1 ++ (sr ++ rest)))
      (by rw [hd1]; exact HeadOk.cons hxf) i hi
    rw [this, hd1]
  have hop := binaryArithOp_render o (w1 ++ (sr ++ rest))
  have hL2 : delimited ws (innerExpr rp) ws (w1 ++ (sr ++ rest)) = .ok r (dropSpaces rest) :=
    operand_xrender hr rest (hrest.mono opFollow_xFollow) _ (dropSpaces_ws _ _ hw1)
  have hB1 : eaB1 rp i = .ok (.arithBinary o l r) (dropSpaces rest) :=
    map_ok (tuple3_ok hL1 hop hL2)
  rw [exprAtom_eq]
  exact alt_ok hB1

/-! ## 3. a sign in front of a path operand -/

/-- `inner_expr` fails (recoverably) on a sign that is followed by something that is neither a
digit nor `.`: no path starts with a sign, and none of the literal parsers accepts it -/
theorem innerExpr_sign_error (rp : Bool) (s : UInt8) (hs : s = 43 ∨ s = 45) (b : UInt8) (Y : Bytes)
    (hb1 : isDigit b = false) (hb2 : b ≠ 46) : innerExpr rp (s :: b :: Y) = .error := by
  have hs1 : s ≠ 36 ∧ s ≠ 64 ∧ s ≠ 110 ∧ s ≠ 116 ∧ s ≠ 102 ∧ s ≠ 34 ∧ isDigit s = false := by
    rcases hs with rfl | rfl <;> decide
  obtain ⟨s36, s64, s110, s116, s102, s34, sdig⟩ := hs1
  have h123 := pvA123_error s (b :: Y) ⟨s110, s116, s102⟩
  have h4 : pvA4 (s :: b :: Y) = .error := map_error (terminated_error (u64_nondigit _ _ sdig))
  have hi64 : i64 (s :: b :: Y) = .error := by
    rcases hs with rfl | rfl <;>
      simp [i64, signedInt, splitSign, intLoop_nondigit_first _ _ _ b Y hb1]
  have h5 : pvA5 (s :: b :: Y) = .error := map_error (terminated_error hi64)
  have hd : digit1 (b :: Y) = .error := digit1_miss _ (HeadOk.cons (by simp [notDigit, hb1]))
  have hm : mantP (b :: Y) = .error := by
    simp [mantP, alt, hd, char_miss _ _ _ hb2, PR.bind]
  have hrf : recognizeFloat (s :: b :: Y) = .error := by
    rw [recognizeFloat_eq]
    rcases hs with rfl | rfl <;> simp [optSign, PR.bind, hm]
  have hdbl : double (s :: b :: Y) = .error := by
    rcases hs with rfl | rfl <;>
      simp [double, alt, map, hrf, value, tagNoCase, isPrefixNoCase, lowerByte, PR.bind]
  have h6 : pvA6 (s :: b :: Y) = .error := map_error hdbl
  have h7 : pvA7 (s :: b :: Y) = .error :=
    map_error (string_error _ (by intro t e; simp at e; exact s34 e.1))
  unfold innerExpr
  rw [alt_error (map_error (exprPaths_error rp s _ s36 s64)), pathValue_eq]
  apply map_error
  rw [alt_error h123.1, alt_error h123.2.1, alt_error h123.2.2, alt_error h4, alt_error h5,
    alt_error h6]
  exact h7

theorem pair_ok {α β} {p : Parser α} {q : Parser β} {i r1 r2 : Bytes} {a : α} {b : β}
    (h1 : p i = .ok a r1) (h2 : q r1 = .ok b r2) : pair p q i = .ok (a, b) r2 := by
  simp [pair, h1, h2, PR.bind]

/-- `expr_atom` reads a sign, optional white space and a `$`/`@` path as `ArithUnary`: the two
operand-first alternatives fail on the sign, the third one succeeds -/
theorem unary_render (R : Bool → Parser Expr) {rp : Bool} (o : UnOp) {hd : Path} {ps : List Path}
    {c : UInt8} {t w : Bytes} (w1 : Bytes) (hw1 : Ws w1) (hh : RHead rp hd c)
    (ht : XPlainSteps ps t) (hw : Ws w) (rest : Bytes) (hrest : HeadOk opFollow (dropSpaces rest))
    (i : Bytes) (hi : i = uopByte o :: (w1 ++ (c :: (t ++ w) ++ rest))) :
    exprAtom R rp i = .ok (.arithUnary o (.paths (hd :: ps))) (dropSpaces rest) := by
  subst hi
  have hx : XOperand rp (.paths (hd :: ps)) (c :: (t ++ w)) := .paths hd ps c t w hh ht hw
  have hsign : uopByte o = 43 ∨ uopByte o = 45 := by cases o <;> simp [uopByte]
  have hns : isSpace (uopByte o) = false := by cases o <;> decide
  have hc : isDigit c = false ∧ c ≠ 46 ∧ isSpace c = false := by cases hh <;> decide
  have hie : innerExpr rp (uopByte o :: (w1 ++ (c :: (t ++ w) ++ rest))) = .error := by
    cases w1 with
    | nil => exact innerExpr_sign_error rp _ hsign c _ hc.1 hc.2.1
    | cons b w1' =>
      have hb := hw1.cons.1
      have : ∀ b, isSpace b = true → isDigit b = false ∧ b ≠ 46 := by bytes_decide
      exact innerExpr_sign_error rp _ hsign b _ (this b hb).1 (this b hb).2
  have hL : delimited ws (innerExpr rp) ws (uopByte o :: (w1 ++ (c :: (t ++ w) ++ rest))) = .error :=
    delimited_ws_error _ _ _ (dropSpaces_nonspace _ _ hns) hie
  have hB1 : eaB1 rp (uopByte o :: (w1 ++ (c :: (t ++ w) ++ rest))) = .error :=
    map_error (tuple3_error1 hL)
  have hB2 : eaB2 rp (uopByte o :: (w1 ++ (c :: (t ++ w) ++ rest))) = .error :=
    map_error (tuple3_error1 hL)
  have hop := unaryArithOp_render o (w1 ++ (c :: (t ++ w) ++ rest))
  have hL2 : delimited ws (innerExpr rp) ws (w1 ++ (c :: (t ++ w) ++ rest))
      = .ok (.paths (hd :: ps)) (dropSpaces rest) :=
    operand_xrender hx rest (hrest.mono opFollow_xFollow) _ (dropSpaces_ws _ _ hw1)
  have hB3 : eaB3 rp (uopByte o :: (w1 ++ (c :: (t ++ w) ++ rest)))
      = .ok (.arithUnary o (.paths (hd :: ps))) (dropSpaces rest) :=
    map_ok (pair_ok hop hL2)
  rw [exprAtom_eq, alt_error hB1, alt_error hB2]
  exact alt_ok hB3

/-! ## 4. arithmetic atoms as leaves of the expression grammar -/

/-- **Arithmetic atoms.**
* `binary`: `ws l op ws r` with `op` one of `+ - * / %` and `l`, `r` ANY operands (`XOperand`:
  a `$`/`@` path with plain steps, or a literal — `null`, `true`, `false`, unsigned / negative /
  `+`-signed integers, floats, string literals in any escaped spelling), each with optional
  trailing white space;
* `unary`: `ws sign ws path` with `sign` one of `+ -` and `path` a `$`/`@` path with plain steps
  (with optional trailing white space).
`@` is allowed only outside a top-level predicate (`rp = false`), as everywhere. -/
inductive XArith : Bool → Expr → Bytes → Prop
  | binary (rp : Bool) (o : ArithOp) (l r : Expr) (w0 sl w1 sr : Bytes) : Ws w0 → XOperand rp l sl →
      Ws w1 → XOperand rp r sr →
      XArith rp (.arithBinary o l r) (w0 ++ (sl ++ (aopByte o :: (w1 ++ sr))))
  | unary (rp : Bool) (o : UnOp) (hd : Path) (ps : List Path) (c : UInt8) (w0 w1 t w : Bytes) :
      Ws w0 → Ws w1 → RHead rp hd c → XPlainSteps ps t → Ws w →
      XArith rp (.arithUnary o (.paths (hd :: ps))) (w0 ++ (uopByte o :: (w1 ++ c :: (t ++ w))))

theorem XArith.sound : LeafSound XArith := by
  intro rp e s h Rr rest hrest
  cases h with
  | binary o l r w0 sl w1 sr hw0 hl hw1 hr =>
    refine ⟨dropSpaces rest, ?_, dropSpaces_idem _⟩
    apply arith_render _ o w1 hl hw1 hr rest hrest.opFollow
    rw [dropSpaces_idem]
    simp only [List.append_assoc, List.cons_append]
    rw [dropSpaces_ws _ _ hw0]
  | unary o hd ps c w0 w1 t w hw0 hw1 hh ht hw =>
    refine ⟨dropSpaces rest, ?_, dropSpaces_idem _⟩
    apply unary_render _ o w1 hw1 hh ht hw rest hrest.opFollow
    simp only [List.append_assoc, List.cons_append]
    rw [dropSpaces_ws _ _ hw0]
    exact dropSpaces_nonspace _ _ (by cases o <;> decide)

/-- the leaf atoms of this file: comparisons and arithmetic atoms -/
inductive XLeaf : Bool → Expr → Bytes → Prop
  | cmp (rp : Bool) (e : Expr) (s : Bytes) : XCmp rp e s → XLeaf rp e s
  | arith (rp : Bool) (e : Expr) (s : Bytes) : XArith rp e s → XLeaf rp e s

theorem XLeaf.sound : LeafSound XLeaf := by
  intro rp e s h
  cases h with
  | cmp h => exact XCmp.sound rp e s h
  | arith h => exact XArith.sound rp e s h

/-- the rendering relation of this file: `PathEsc.RE` plus arithmetic atoms wherever an atom may
stand (alone, in parentheses, as an operand of `&&` / `||`, in filters, in filters nested in
`exists(…)`) -/
abbrev RA := RX XLeaf


/-- the relation is monotone in the leaf family -/
theorem RX_mono {L1 L2 : Bool → Expr → Bytes → Prop} (hL : ∀ rp e s, L1 rp e s → L2 rp e s)
    {k : Kind} {rp : Bool} {e : Expr} {s : Bytes} (h : RX L1 k rp e s) : RX L2 k rp e s := by
  induction h with
  | leaf rp e s hl => exact .leaf rp e s (hL rp e s hl)
  | paren rp e w1 s w2 hw1 _ hw2 ih => exact .paren rp e w1 s w2 hw1 ih hw2
  | exists_ rp hd ps c w1 w2 t w3 hw1 hw2 hh _ hw3 ih => exact .exists_ rp hd ps c w1 w2 t w3 hw1 hw2 hh ih hw3
  | andTailNil rp acc => exact .andTailNil rp acc
  | andTailCons rp acc x e w1 w2 s t hw1 hw2 _ _ ihx iht => exact .andTailCons rp acc x e w1 w2 s t hw1 hw2 ihx iht
  | andL rp a e s t _ _ ihs iht => exact .andL rp a e s t ihs iht
  | orTailNil rp acc => exact .orTailNil rp acc
  | orTailCons rp acc x e w1 w2 s t hw1 hw2 _ _ ihx iht => exact .orTailCons rp acc x e w1 w2 s t hw1 hw2 ihx iht
  | orL rp a e s t _ _ ihs iht => exact .orL rp a e s t ihs iht
  | stepsNil => exact .stepsNil
  | stepsPlain p ps w s w' t hw hs hw' _ ih => exact .stepsPlain p ps w s w' t hw hs hw' ih
  | stepsFilter e ps w0 w1 w2 s w3 w4 t hw0 hw1 hw2 _ hw3 hw4 _ ihe iht =>
    exact .stepsFilter e ps w0 w1 w2 s w3 w4 t hw0 hw1 hw2 ihe hw3 hw4 iht

/-- every rendering without arithmetic (`PathEsc.RE`, hence also `PathRT2.R`) is a rendering here -/
theorem RA.of_re {k : Kind} {rp : Bool} {e : Expr} {s : Bytes} (h : RE k rp e s) : RA k rp e s :=
  RX_mono (fun rp e s h => .cmp rp e s h) h

theorem RA.of_r {k : Kind} {rp : Bool} {e : Expr} {s : Bytes} (h : R k rp e s) : RA k rp e s :=
  RA.of_re (RE.of_r h)

/-- an arithmetic atom as a whole expression -/
theorem RA.of_arith {rp : Bool} {e : Expr} {s : Bytes} (h : XArith rp e s) : RA .orL rp e s := by
  have hat : RA .atom rp e s := .leaf rp e s (.arith rp e s h)
  have := RX.orL rp e e (s ++ []) [] (RX.andL rp e e s [] hat (.andTailNil rp e)) (.orTailNil rp e)
  simpa using this

end PathArith

open PathArith PathEsc PathRT2 in
/-- **Every rendering, rooted paths, with arithmetic atoms.**  As
`parseJsonPath_rendering_rooted_esc`; in addition an atom of a filter expression may be an
arithmetic atom (`PathArith.XArith`). -/
theorem parseJsonPath_rendering_rooted_arith {ps : List Path} {t : Bytes}
    (h : RA .steps false (.paths ps) t) (w0 w1 : Bytes) (hw0 : Ws w0) (hw1 : Ws w1) :
    parseJsonPath (w0 ++ 36 :: (t ++ w1)) = .ok (.root :: ps) :=
  parse_xrooted XLeaf.sound h w0 w1 hw0 hw1

open PathArith PathEsc PathRT2 in
/-- **Every rendering, top-level predicates, with arithmetic atoms.** -/
theorem parseJsonPath_rendering_predicate_arith {e : Expr} {s : Bytes} (h : RA .orL true e s)
    (w0 w1 : Bytes) (hw0 : Ws w0) (hw1 : Ws w1) :
    parseJsonPath (w0 ++ (s ++ w1)) = .ok [.predicate e] :=
  parse_xpredicate XLeaf.sound h w0 w1 hw0 hw1

open PathArith PathEsc PathRT2 in
/-- **A single arithmetic atom as a top-level predicate** (`$.a + 3`, `$.a * $.b`, `-$.a`): every
rendering parses to `[Predicate(e)]` with `e = ArithBinary(op, l, r)` resp. `ArithUnary(sign, path)`. -/
theorem parseJsonPath_arith_predicate {e : Expr} {s : Bytes} (h : XArith true e s)
    (w0 w1 : Bytes) (hw0 : Ws w0) (hw1 : Ws w1) :
    parseJsonPath (w0 ++ (s ++ w1)) = .ok [.predicate e] :=
  parseJsonPath_rendering_predicate_arith (RA.of_arith h) w0 w1 hw0 hw1

open PathArith PathEsc PathRT2 in
/-- **A single arithmetic atom as a filter** (`$?(@.a + 1)`; after any rendered steps `t0`, with
any white space): every rendering parses to `… FilterExpr(e)`. -/
theorem parseJsonPath_arith_filter {e : Expr} {s : Bytes} (h : XArith false e s)
    (w0 w1 wa wb wc wd we : Bytes) (hw0 : Ws w0) (hw1 : Ws w1) (hwa : Ws wa) (hwb : Ws wb)
    (hwc : Ws wc) (hwd : Ws wd) (hwe : Ws we) :
    parseJsonPath (w0 ++ 36 :: ((wa ++ 63 :: (wb ++ 40 :: (wc ++ (s ++ (wd ++ 41 :: (we ++ []))))))
      ++ w1)) = .ok [.root, .filterExpr e] :=
  parseJsonPath_rendering_rooted_arith
    (.stepsFilter e [] wa wb wc s wd we [] hwa hwb hwc (RA.of_arith h) hwd hwe .stepsNil)
    w0 w1 hw0 hw1


/-! ## 5. print → parse -/
namespace PathArith

def isPathsExpr : Expr → Bool
  | .paths _ => true
  | _ => false

mutual
/-- `PathRT2.goodExpr` plus arithmetic atoms: `l op r` over good operands (`goodOperand`: a
`$`/`@` path with plain steps, or a literal that prints readably), and a sign in front of a good
PATH operand -/
def goodExprA (f : Nat → Bytes) (rp : Bool) : Expr → Bool
  | .binaryOp o l r =>
    match o with
    | .and => goodExprA f rp l && goodExprA f rp r
    | .or => goodExprA f rp l && goodExprA f rp r
    | _ => goodOperand f rp l && goodOperand f rp r
  | .existsFn ps => goodExistsA f ps
  | .arithBinary _ l r => goodOperand f rp l && goodOperand f rp r
  | .arithUnary _ x => goodOperand f rp x && isPathsExpr x
  | _ => false
def goodExistsA (f : Nat → Bytes) : List Path → Bool
  | .root :: ps => goodStepsA f ps
  | .current :: ps => goodStepsA f ps
  | _ => false
def goodStepsA (f : Nat → Bytes) : List Path → Bool
  | [] => true
  | p :: ps => goodStepFA f p && goodStepsA f ps
def goodStepFA (f : Nat → Bytes) : Path → Bool
  | .filterExpr e => goodExprA f false e
  | .dotWildcard => true
  | .bracketWildcard => true
  | .dotField s => goodField s
  | .colonField s => goodField s
  | .objectField s => goodQuoted s
  | .arrayIndices is => !is.isEmpty && is.all goodArrayIndex
  | _ => false
end

/-- `PathRT2.goodJsonPath` plus arithmetic atoms -/
def goodJsonPathA (f : Nat → Bytes) : JsonPath → Bool
  | .root :: ps => goodStepsA f ps
  | [.predicate e] => goodExprA f true e
  | _ => false

theorem arithBinary_print_rend (f : Nat → Bytes) (rp : Bool) (o : ArithOp) (l r : Expr)
    (hl : goodOperand f rp l = true) (hr : goodOperand f rp r = true) :
    XArith rp (.arithBinary o l r) (printExpr f (.arithBinary o l r)) := by
  obtain ⟨rl, _⟩ := operand_print_rend f rp l hl [32] Ws.one
  obtain ⟨rr, _⟩ := operand_print_rend f rp r hr [] Ws.nil
  have := XArith.binary rp o l r [] _ [32] _ Ws.nil (.of_r rl) Ws.one (.of_r rr)
  have e : printExpr f (.arithBinary o l r)
      = [] ++ (printExpr f l ++ [32] ++ (aopByte o :: ([32] ++ (printExpr f r ++ [])))) := by
    simp [printExpr, printArithOp_eq]
  rw [e]
  exact this

theorem arithUnary_print_rend (f : Nat → Bytes) (rp : Bool) (o : UnOp) (x : Expr)
    (hx : goodOperand f rp x = true) (hp : isPathsExpr x = true) :
    XArith rp (.arithUnary o x) (printExpr f (.arithUnary o x)) := by
  cases x with
  | paths ps =>
    cases ps with
    | nil => simp [goodOperand] at hx
    | cons hd ps =>
      cases hd with
      | root =>
        have h : ps.all goodPlainStep = true := by simpa [goodOperand] using hx
        have := XArith.unary rp o .root ps 36 [] [] _ [] Ws.nil Ws.nil (.root rp)
          (.of_r (plainSteps_print_rend f ps h)) Ws.nil
        simpa [printExpr, printPaths, printPath, printUnOp_eq] using this
      | current =>
        have h : rp = false ∧ ps.all goodPlainStep = true := by simpa [goodOperand] using hx
        obtain ⟨rfl, h⟩ := h
        have := XArith.unary false o .current ps 64 [] [] _ [] Ws.nil Ws.nil .current
          (.of_r (plainSteps_print_rend f ps h)) Ws.nil
        simpa [printExpr, printPaths, printPath, printUnOp_eq] using this
      | _ => simp [goodOperand] at hx
  | _ => simp [isPathsExpr] at hp

theorem orL_of_atomA {rp : Bool} {e : Expr} {s : Bytes} (h : RA .atom rp e s) : RA .orL rp e s := by
  have := RX.orL rp e e (s ++ []) [] (RX.andL rp e e s [] h (.andTailNil rp e)) (.orTailNil rp e)
  simpa using this

theorem paren_of_orLA {rp : Bool} {e : Expr} {s : Bytes} (h : RA .orL rp e s) :
    RA .atom rp e ([40] ++ s ++ [41]) := by
  have := RX.paren rp e [] s [] Ws.nil h Ws.nil
  simpa using this

theorem atomA_of (f : Nat → Bytes) {rp : Bool} {e : Expr} (hn : needsParens e = false)
    (h : RA .atom rp e (printExpr f e)) :
    RA .atom rp e (atomText f e) ∧ RA .orL rp e (printExpr f e) :=
  ⟨by simpa [atomText, hn] using h, orL_of_atomA h⟩

mutual
theorem expr_print_rendA (f : Nat → Bytes) (rp : Bool) :
    (e : Expr) → goodExprA f rp e = true →
      RA .atom rp e (atomText f e) ∧ RA .orL rp e (printExpr f e)
  | .binaryOp o l r, h => by
    cases o with
    | and =>
      have hg : goodExprA f rp l = true ∧ goodExprA f rp r = true := by simpa [goodExprA] using h
      have il := (expr_print_rendA f rp l hg.1).1
      have ir := (expr_print_rendA f rp r hg.2).1
      have hand := RX.andL rp l _ _ _ il
        (.andTailCons rp l r _ [32] [32] _ [] Ws.one Ws.one ir (.andTailNil rp _))
      have hor := RX.orL rp _ _ _ [] hand (.orTailNil rp _)
      have e1 : atomText f l ++ ([32] ++ 38 :: 38 :: ([32] ++ (atomText f r ++ []))) ++ []
          = printExpr f (.binaryOp .and l r) := by
        rw [printExpr_binaryOp]; simp [printBinOp]
      rw [e1] at hor
      refine ⟨?_, hor⟩
      have : atomText f (.binaryOp .and l r) = [40] ++ printExpr f (.binaryOp .and l r) ++ [41] := by
        simp [atomText, needsParens]
      rw [this]
      exact paren_of_orLA hor
    | or =>
      have hg : goodExprA f rp l = true ∧ goodExprA f rp r = true := by simpa [goodExprA] using h
      have il := (expr_print_rendA f rp l hg.1).1
      have ir := (expr_print_rendA f rp r hg.2).1
      have hl := RX.andL rp l _ _ [] il (.andTailNil rp _)
      have hr := RX.andL rp r _ _ [] ir (.andTailNil rp _)
      have hor := RX.orL rp l _ _ _ hl
        (.orTailCons rp l r _ [32] [32] _ [] Ws.one Ws.one hr (.orTailNil rp _))
      have e1 : atomText f l ++ [] ++ ([32] ++ 124 :: 124 :: ([32] ++ (atomText f r ++ [] ++ [])))
          = printExpr f (.binaryOp .or l r) := by
        rw [printExpr_binaryOp]; simp [printBinOp]
      rw [e1] at hor
      refine ⟨?_, hor⟩
      have : atomText f (.binaryOp .or l r) = [40] ++ printExpr f (.binaryOp .or l r) ++ [41] := by
        simp [atomText, needsParens]
      rw [this]
      exact paren_of_orLA hor
    | eq =>
      have hg : goodOperand f rp l = true ∧ goodOperand f rp r = true := by simpa [goodExprA] using h
      exact atomA_of f rfl (RA.of_r (cmp_print_rend f rp .eq l r (by decide) (by decide) hg.1 hg.2))
    | ne =>
      have hg : goodOperand f rp l = true ∧ goodOperand f rp r = true := by simpa [goodExprA] using h
      exact atomA_of f rfl (RA.of_r (cmp_print_rend f rp .ne l r (by decide) (by decide) hg.1 hg.2))
    | lt =>
      have hg : goodOperand f rp l = true ∧ goodOperand f rp r = true := by simpa [goodExprA] using h
      exact atomA_of f rfl (RA.of_r (cmp_print_rend f rp .lt l r (by decide) (by decide) hg.1 hg.2))
    | le =>
      have hg : goodOperand f rp l = true ∧ goodOperand f rp r = true := by simpa [goodExprA] using h
      exact atomA_of f rfl (RA.of_r (cmp_print_rend f rp .le l r (by decide) (by decide) hg.1 hg.2))
    | gt =>
      have hg : goodOperand f rp l = true ∧ goodOperand f rp r = true := by simpa [goodExprA] using h
      exact atomA_of f rfl (RA.of_r (cmp_print_rend f rp .gt l r (by decide) (by decide) hg.1 hg.2))
    | ge =>
      have hg : goodOperand f rp l = true ∧ goodOperand f rp r = true := by simpa [goodExprA] using h
      exact atomA_of f rfl (RA.of_r (cmp_print_rend f rp .ge l r (by decide) (by decide) hg.1 hg.2))
  | .existsFn ps, h => by
    have hg : goodExistsA f ps = true := by simpa [goodExprA] using h
    exact atomA_of f rfl (exists_print_rendA f rp ps hg)
  | .arithBinary o l r, h => by
    have hg : goodOperand f rp l = true ∧ goodOperand f rp r = true := by simpa [goodExprA] using h
    exact atomA_of f rfl (.leaf _ _ _ (.arith _ _ _ (arithBinary_print_rend f rp o l r hg.1 hg.2)))
  | .arithUnary o x, h => by
    have hg : goodOperand f rp x = true ∧ isPathsExpr x = true := by simpa [goodExprA] using h
    exact atomA_of f rfl (.leaf _ _ _ (.arith _ _ _ (arithUnary_print_rend f rp o x hg.1 hg.2)))
  | .paths _, h => by simp [goodExprA] at h
  | .value _, h => by simp [goodExprA] at h
theorem exists_print_rendA (f : Nat → Bytes) (rp : Bool) :
    (ps : List Path) → goodExistsA f ps = true →
      RA .atom rp (.existsFn ps) (printExpr f (.existsFn ps))
  | [], h => by simp [goodExistsA] at h
  | hd :: ps, h => by
    cases hd with
    | root =>
      have hg : goodStepsA f ps = true := by simpa [goodExistsA] using h
      have := RX.exists_ (Leaf := XLeaf) rp .root ps 36 [] [] _ [] Ws.nil Ws.nil (.root false)
        (steps_print_rendA f ps hg) Ws.nil
      simpa [printExpr, printPaths, printPath, kwExists] using this
    | current =>
      have hg : goodStepsA f ps = true := by simpa [goodExistsA] using h
      have := RX.exists_ (Leaf := XLeaf) rp .current ps 64 [] [] _ [] Ws.nil Ws.nil .current
        (steps_print_rendA f ps hg) Ws.nil
      simpa [printExpr, printPaths, printPath, kwExists] using this
    | _ => simp [goodExistsA] at h
theorem steps_print_rendA (f : Nat → Bytes) :
    (ps : List Path) → goodStepsA f ps = true → RA .steps false (.paths ps) (printPaths f ps)
  | [], _ => by simp [printPaths]; exact .stepsNil
  | p :: ps, h => by
    have hg : goodStepFA f p = true ∧ goodStepsA f ps = true := by simpa [goodStepsA] using h
    have hrest := steps_print_rendA f ps hg.2
    have plain : goodPlainStep p = true → RA .steps false (.paths (p :: ps)) (printPaths f (p :: ps)) := by
      intro hp
      have := RX.stepsPlain (Leaf := XLeaf) p ps [] _ [] _ Ws.nil
        (.plain _ _ (plainStep_print_rend f p hp)) Ws.nil hrest
      simpa [printPaths] using this
    cases p with
    | filterExpr e =>
      have he : goodExprA f false e = true := by simpa [goodStepFA] using hg.1
      have := RX.stepsFilter (Leaf := XLeaf) e ps [] [] [] _ [] [] _ Ws.nil Ws.nil Ws.nil
        (expr_print_rendA f false e he).2 Ws.nil Ws.nil hrest
      simpa [printPaths, printPath] using this
    | dotWildcard => exact plain rfl
    | bracketWildcard => exact plain rfl
    | dotField s => exact plain (by simpa [goodStepFA, goodPlainStep] using hg.1)
    | colonField s => exact plain (by simpa [goodStepFA, goodPlainStep] using hg.1)
    | objectField s => exact plain (by simpa [goodStepFA, goodPlainStep] using hg.1)
    | arrayIndices is => exact plain (by simpa [goodStepFA, goodPlainStep] using hg.1)
    | root => simp [goodStepFA] at hg
    | current => simp [goodStepFA] at hg
    | arithmeticExpr e => simp [goodStepFA] at hg
    | predicate e => simp [goodStepFA] at hg
end

end PathArith

open PathArith PathEsc PathRT2 PathPrint in
/-- **Print → parse with arithmetic atoms.**  For every `jp` with `goodJsonPathA fmtF64 jp`:
`parse_json_path(format!("{jp}")) = Ok(jp)`. -/
theorem parseJsonPath_printJsonPath_arith (fmtF64 : Nat → Bytes) (jp : JsonPath)
    (h : goodJsonPathA fmtF64 jp = true) : parseJsonPath (printJsonPath fmtF64 jp) = .ok jp := by
  cases jp with
  | nil => simp [goodJsonPathA] at h
  | cons p ps =>
    cases p with
    | root =>
      have hg : goodStepsA fmtF64 ps = true := by simpa [goodJsonPathA] using h
      have := parseJsonPath_rendering_rooted_arith (steps_print_rendA fmtF64 ps hg) [] [] Ws.nil Ws.nil
      simpa [printJsonPath, PathPrint.printJsonPath, printPaths, printPath] using this
    | predicate e =>
      cases ps with
      | nil =>
        have hg : goodExprA fmtF64 true e = true := by simpa [goodJsonPathA] using h
        have := parseJsonPath_rendering_predicate_arith (expr_print_rendA fmtF64 true e hg).2 [] []
          Ws.nil Ws.nil
        simpa [printJsonPath, PathPrint.printJsonPath, printPaths, printPath] using this
      | cons q qs => simp [goodJsonPathA] at h
    | _ => simp [goodJsonPathA] at h


/-! ## 6. property-shaped statements (same form as `C09_every_rendering_*`, `C09_print_parse`) -/
namespace Props
open PathArith PathEsc PathRT2

/-- **C09, every rendering of a rooted path, with escapes and arithmetic atoms.** -/
theorem C09_every_rendering_rooted_arith {ps : List Path} {t : Bytes}
    (h : RA .steps false (.paths ps) t) (w0 w1 : Bytes) (hw0 : Ws w0) (hw1 : Ws w1) :
    parseJsonPath (w0 ++ 36 :: (t ++ w1)) = .ok (.root :: ps) :=
  parseJsonPath_rendering_rooted_arith h w0 w1 hw0 hw1

/-- **C09, every rendering of a top-level predicate, with escapes and arithmetic atoms.** -/
theorem C09_every_rendering_predicate_arith {e : Expr} {s : Bytes} (h : RA .orL true e s)
    (w0 w1 : Bytes) (hw0 : Ws w0) (hw1 : Ws w1) :
    parseJsonPath (w0 ++ (s ++ w1)) = .ok [.predicate e] :=
  parseJsonPath_rendering_predicate_arith h w0 w1 hw0 hw1

/-- the relation with arithmetic contains the one with escapes, which contains `PathRT2.R` -/
theorem C09_arith_contains_esc {k : Kind} {rp : Bool} {e : Expr} {s : Bytes} (h : RE k rp e s) :
    RA k rp e s := RA.of_re h

/-- **C09, binary arithmetic atom**: `ws l op ws r` (operands with optional trailing white space)
as a top-level predicate parses to `ArithBinary(op, l, r)` -/
theorem C09_arith_binary_predicate (o : ArithOp) {l r : Expr} {sl sr : Bytes}
    (hl : XOperand true l sl) (hr : XOperand true r sr) (w0 wa w1 w2 : Bytes) (hw0 : Ws w0)
    (hwa : Ws wa) (hw1 : Ws w1) (hw2 : Ws w2) :
    parseJsonPath (w0 ++ ((wa ++ (sl ++ (aopByte o :: (w1 ++ sr)))) ++ w2))
      = .ok [.predicate (.arithBinary o l r)] :=
  parseJsonPath_arith_predicate (.binary true o l r wa sl w1 sr hwa hl hw1 hr) w0 w2 hw0 hw2

/-- **C09, sign in front of a path**: `sign ws $ steps` as a top-level predicate parses to
`ArithUnary(sign, path)` -/
theorem C09_arith_unary_predicate (o : UnOp) {ps : List Path} {t : Bytes} (ht : XPlainSteps ps t)
    (w0 wa w1 w w2 : Bytes) (hw0 : Ws w0) (hwa : Ws wa) (hw1 : Ws w1) (hw : Ws w) (hw2 : Ws w2) :
    parseJsonPath (w0 ++ ((wa ++ (uopByte o :: (w1 ++ 36 :: (t ++ w)))) ++ w2))
      = .ok [.predicate (.arithUnary o (.paths (.root :: ps)))] :=
  parseJsonPath_arith_predicate (.unary true o .root ps 36 wa w1 t w hwa hw1 (.root true) ht hw)
    w0 w2 hw0 hw2

/-- **C09, print → parse with arithmetic atoms** -/
theorem C09_print_parse_arith (fmtF64 : Nat → Bytes) (jp : JsonPath)
    (h : goodJsonPathA fmtF64 jp = true) : parseJsonPath (printJsonPath fmtF64 jp) = .ok jp :=
  parseJsonPath_printJsonPath_arith fmtF64 jp h

end Props

/-! ## examples (kernel-checked) -/
namespace PathArith.Examples
open PathRT2 PathEsc

theorem stepA : XPlainSteps [.dotField [97]] [46, 97] :=
  .cons (.dotField [97]) [] [] [46, 97] [] [] Ws.nil (.plain _ _ (.dotField [97] [97] (.raw [97] (by decide))))
    Ws.nil .nil
theorem stepB : XPlainSteps [.dotField [98]] [46, 98] :=
  .cons (.dotField [98]) [] [] [46, 98] [] [] Ws.nil (.plain _ _ (.dotField [98] [98] (.raw [98] (by decide))))
    Ws.nil .nil

/-- `$?(@.a + 1)` -/
example : parseJsonPath [36, 63, 40, 64, 46, 97, 32, 43, 32, 49, 41]
    = .ok [.root, .filterExpr (.arithBinary .add (.paths [.current, .dotField [97]])
        (.value (.num (.uint 1))))] := by rfl

/-- the same text through the theorem -/
example : parseJsonPath [36, 63, 40, 64, 46, 97, 32, 43, 32, 49, 41]
    = .ok [.root, .filterExpr (.arithBinary .add (.paths [.current, .dotField [97]])
        (.value (.num (.uint 1))))] := by
  have hl : XOperand false (.paths [.current, .dotField [97]]) (64 :: ([46, 97] ++ [32])) :=
    .paths .current _ 64 _ [32] .current stepA (by decide)
  have hr : XOperand false (.value (.num (.uint 1))) _ :=
    .value _ _ [] (.plain _ _ (.uint 1 (by decide))) Ws.nil
  have := parseJsonPath_arith_filter (.binary false .add _ _ [] _ [32] _ Ws.nil hl (by decide) hr)
    [] [] [] [] [] [] [] Ws.nil Ws.nil Ws.nil Ws.nil Ws.nil Ws.nil Ws.nil
  refine Eq.trans (congrArg parseJsonPath ?_) this
  decide +kernel

/-- `$.a * $.b` -/
example : parseJsonPath [36, 46, 97, 32, 42, 32, 36, 46, 98]
    = .ok [.predicate (.arithBinary .mul (.paths [.root, .dotField [97]])
        (.paths [.root, .dotField [98]]))] := by rfl

example : parseJsonPath [36, 46, 97, 32, 42, 32, 36, 46, 98]
    = .ok [.predicate (.arithBinary .mul (.paths [.root, .dotField [97]])
        (.paths [.root, .dotField [98]]))] := by
  have hl : XOperand true (.paths [.root, .dotField [97]]) (36 :: ([46, 97] ++ [32])) :=
    .paths .root _ 36 _ [32] (.root true) stepA (by decide)
  have hr : XOperand true (.paths [.root, .dotField [98]]) (36 :: ([46, 98] ++ [])) :=
    .paths .root _ 36 _ [] (.root true) stepB Ws.nil
  have := Props.C09_arith_binary_predicate .mul hl hr [] [] [32] [] Ws.nil Ws.nil (by decide) Ws.nil
  refine Eq.trans (congrArg parseJsonPath ?_) this
  decide +kernel

/-- `-$.a` -/
example : parseJsonPath [45, 36, 46, 97]
    = .ok [.predicate (.arithUnary .sub (.paths [.root, .dotField [97]]))] := by rfl

example : parseJsonPath [45, 36, 46, 97]
    = .ok [.predicate (.arithUnary .sub (.paths [.root, .dotField [97]]))] := by
  have := Props.C09_arith_unary_predicate .sub stepA [] [] [] [] [] Ws.nil Ws.nil Ws.nil Ws.nil Ws.nil
  refine Eq.trans (congrArg parseJsonPath ?_) this
  decide +kernel

/-- print → parse on a filter mixing arithmetic atoms with `&&` / `||` -/
def sampleA : JsonPath :=
  [.root, .dotField [120],
   .filterExpr (.binaryOp .or
     (.binaryOp .and
       (.arithBinary .add (.paths [.current, .dotField [97]]) (.value (.num (.uint 1))))
       (.arithUnary .sub (.paths [.current, .dotField [98]])))
     (.arithBinary .mod (.paths [.root, .dotField [99]]) (.value (.str [120]))))]

example : goodJsonPathA PathRT2.Examples.fmtDemo sampleA = true := by decide +kernel
/-- printed: `$.x?((@.a + 1 && -@.b) || $.c % "x")` -/
example : printJsonPath PathRT2.Examples.fmtDemo sampleA
    = [36, 46, 120, 63, 40, 40, 64, 46, 97, 32, 43, 32, 49, 32, 38, 38, 32, 45, 64, 46, 98, 41, 32, 124,
       124, 32, 36, 46, 99, 32, 37, 32, 34, 120, 34, 41] := by decide +kernel
example : parseJsonPath (printJsonPath PathRT2.Examples.fmtDemo sampleA) = .ok sampleA :=
  parseJsonPath_printJsonPath_arith _ _ (by decide +kernel)

/-! the ordered choice on signs and literals (outside `XArith.unary`, which takes a PATH):
`-1` alone is `ArithUnary(Sub, 1)` (the literal alternative reads `-1`, finds no operator, and
the sign alternative wins), but in `-1+2` the `-1` is the literal `Int64(-1)`;
a signed path cannot be an operand: `-$.a + 1` and `$.a + -$.b` are rejected; arithmetic does not
nest and cannot be compared: `$.a + 1 + 2`, `$.a + 1 == 2` are rejected. -/
example : parseJsonPath [45, 49] = .ok [.predicate (.arithUnary .sub (.value (.num (.uint 1))))] := by rfl
example : parseJsonPath [45, 49, 43, 50]
    = .ok [.predicate (.arithBinary .add (.value (.num (.int (-1)))) (.value (.num (.uint 2))))] := by rfl
example : parseJsonPath [45, 36, 46, 97, 32, 43, 32, 49] = .err "InvalidJsonPath" := by rfl
example : parseJsonPath [36, 46, 97, 32, 43, 32, 45, 36, 46, 98] = .err "InvalidJsonPath" := by rfl
example : parseJsonPath [36, 46, 97, 32, 43, 32, 49, 32, 43, 32, 50] = .err "InvalidJsonPath" := by rfl
example : parseJsonPath [36, 46, 97, 32, 43, 32, 49, 32, 61, 61, 32, 50] = .err "InvalidJsonPath" := by rfl

end PathArith.Examples
end Jsonb

#print axioms Jsonb.PathArith.arith_render
#print axioms Jsonb.PathArith.unary_render
#print axioms Jsonb.PathArith.XArith.sound
#print axioms Jsonb.PathArith.XLeaf.sound
#print axioms Jsonb.PathArith.RA.of_re
#print axioms Jsonb.parseJsonPath_rendering_rooted_arith
#print axioms Jsonb.parseJsonPath_rendering_predicate_arith
#print axioms Jsonb.parseJsonPath_arith_predicate
#print axioms Jsonb.parseJsonPath_arith_filter
#print axioms Jsonb.parseJsonPath_printJsonPath_arith
#print axioms Jsonb.Props.C09_every_rendering_rooted_arith
#print axioms Jsonb.Props.C09_every_rendering_predicate_arith
#print axioms Jsonb.Props.C09_arith_binary_predicate
#print axioms Jsonb.Props.C09_arith_unary_predicate
#print axioms Jsonb.Props.C09_print_parse_arith
