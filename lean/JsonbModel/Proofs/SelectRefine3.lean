/-
C08 refinement, part 3: the evaluator returns exactly the items the path denotes.

For `root = encodeSpec v₀` (`goodTop v₀`), whenever the implementation model (`Sel.walk`,
`Sel.filterAll`, `Sel.filterExpr`, `Sel.exprVal`, `Sel.findPositions`) returns `.ok` on a
frontier of positions that represent the items `ws`, the spec evaluator of
`Spec/PathEval.lean` returns (for every sufficiently large spec fuel) items that the resulting
positions represent pointwise, in the same order.

Spec fuel: the model's `exprVal` evaluates operand paths without consuming fuel whereas the
spec's `operandValues` goes through `evalPaths`, so the two fuels do not line up one-to-one;
the statements are "for all spec fuel ≥ some bound" (`Ev`).

Side condition `okPaths`: every comparison operand `Expr.paths ps` starts with `$` or `@` (or is
empty).  The parser (`expr_paths`) only produces such operands; the model skips the first
operand path whatever it is (`paths.iter().skip(1)`) while the spec interprets it, so they
differ on un-parseable ASTs like `?( .a == 1 )`.
-/
import JsonbModel.Proofs.SelectRefine2

namespace Jsonb
open JV Sel

/-! ### "for all sufficiently large fuel" -/

def Ev {α : Type} (g : Nat → Option α) (r : α) : Prop := ∃ F, ∀ f, F ≤ f → g f = some r

theorem Ev_succ {α β : Type} {g : Nat → Option α} {h : Nat → Option β} {r : α} {s : β}
    (hs : ∀ f, h f = some s → g (f + 1) = some r) (hh : Ev h s) : Ev g r := by
  obtain ⟨F, hF⟩ := hh
  refine ⟨F + 1, fun f hf => ?_⟩
  obtain ⟨f', rfl⟩ : ∃ f', f = f' + 1 := ⟨f - 1, by omega⟩
  exact hs f' (hF f' (by omega))

theorem Ev_succ2 {α β γ : Type} {g : Nat → Option α} {h1 : Nat → Option β} {h2 : Nat → Option γ}
    {r : α} {s1 : β} {s2 : γ}
    (hs : ∀ f, h1 f = some s1 → h2 f = some s2 → g (f + 1) = some r) (hh1 : Ev h1 s1) (hh2 : Ev h2 s2) :
    Ev g r := by
  obtain ⟨F1, hF1⟩ := hh1
  obtain ⟨F2, hF2⟩ := hh2
  refine ⟨F1 + F2 + 1, fun f hf => ?_⟩
  obtain ⟨f', rfl⟩ : ∃ f', f = f' + 1 := ⟨f - 1, by omega⟩
  exact hs f' (hF1 f' (by omega)) (hF2 f' (by omega))

theorem Ev_const_succ {α : Type} {g : Nat → Option α} {r : α} (hs : ∀ f, g (f + 1) = some r) : Ev g r :=
  ⟨1, fun f hf => by obtain ⟨f', rfl⟩ : ∃ f', f = f' + 1 := ⟨f - 1, by omega⟩; exact hs f'⟩

theorem Ev_unique {α : Type} {g : Nat → Option α} {r r' : α} (h : Ev g r) (h' : Ev g r') : r = r' := by
  obtain ⟨F, hF⟩ := h
  obtain ⟨F', hF'⟩ := h'
  have h1 := hF (F + F') (by omega)
  have h2 := hF' (F + F') (by omega)
  rw [h1] at h2
  exact Option.some.inj h2

/-! ### side condition on the path AST -/

/-- an operand path list starts with `$` or `@` (as `expr_paths` always produces), or is empty -/
def headOK : List Path → Bool
  | [] => true
  | .root :: _ => true
  | .current :: _ => true
  | _ => false

/-- an expression in operand position -/
def okOperand : Expr → Bool
  | .paths ps => headOK ps
  | _ => true

def isLogic : BinOp → Bool
  | .and | .or => true
  | _ => false

mutual
def okPath : Path → Bool
  | .filterExpr e | .predicate e => okExpr e
  | _ => true
/-- an expression in filter position -/
def okExpr : Expr → Bool
  | .binaryOp op l r => if isLogic op then okExpr l && okExpr r else okOperand l && okOperand r
  | .existsFn ps => okPaths ps
  | _ => true
def okPaths : List Path → Bool
  | [] => true
  | p :: ps => okPath p && okPaths ps
end

/-! ### start positions -/

def RepO (root : Bytes) : Option Pos → Option JV → Prop
  | none, none => True
  | some c, some w => Sel.Rep root c w
  | _, _ => False

/-- start position of `find_positions` -/
def startOf (root : Bytes) (cur : Option Pos) (paths : List Path) : Res Pos :=
  match paths.head? with
  | some .current => (match cur with
                      | some c => .ok c
                      | none => .panic "missing current position")
  | _ => .ok (rootPosition root)

/-- start item of `Spec.evalPaths` -/
def sstartOf (v : JV) (cur : Option JV) (paths : List Path) : JV :=
  match paths.head?, cur with
  | some .current, some c => c
  | _, _ => v

theorem findPositions_succ (fuel : Nat) (root : Bytes) (cur : Option Pos) (paths : List Path) :
    findPositions (fuel + 1) root cur paths
      = match startOf root cur paths with
        | .ok start => walk fuel root paths [start]
        | .err e => .err e
        | .panic s => .panic s
        | .fuel => .fuel := by
  simp only [findPositions, startOf] <;> rfl

theorem evalPaths_succ (f : Nat) (v : JV) (cur : Option JV) (paths : List Path) :
    Spec.evalPaths (f + 1) v cur paths = Spec.evalSteps f v paths [sstartOf v cur paths] := by
  simp only [Spec.evalPaths, sstartOf] <;> rfl

theorem startOf_rep (v₀ : JV) (hg : goodTop v₀ = true) (cur : Option Pos) (scur : Option JV)
    (paths : List Path) (start : Pos) (h : startOf (encodeSpec v₀) cur paths = .ok start)
    (hc : RepO (encodeSpec v₀) cur scur) :
    Sel.Rep (encodeSpec v₀) start (sstartOf v₀ scur paths) := by
  have hroot := rootPosition_rep v₀ hg
  cases paths with
  | nil =>
    simp only [startOf, List.head?_nil, Res.ok.injEq] at h
    subst h
    simpa [sstartOf] using hroot
  | cons p rest =>
    by_cases hp : p = .current
    · subst hp
      cases cur with
      | none => simp [startOf] at h
      | some c =>
        cases scur with
        | none => exact hc.elim
        | some w =>
          simp only [startOf, List.head?_cons, Res.ok.injEq] at h
          subst h
          simpa [sstartOf, RepO] using hc
    · have h1 : startOf (encodeSpec v₀) cur (p :: rest) = .ok (rootPosition (encodeSpec v₀)) := by
        cases p <;> first | rfl | exact absurd rfl hp
      have h2 : sstartOf v₀ scur (p :: rest) = v₀ := by
        cases p <;> first | (cases scur <;> rfl) | exact absurd rfl hp
      rw [h1] at h
      simp only [Res.ok.injEq] at h
      subst h
      rw [h2]; exact hroot

/-! ### plain steps (everything that is not `$`, `@` or a filter) -/

def isPlain : Path → Bool
  | .root | .current | .filterExpr _ | .predicate _ => false
  | _ => true

theorem stepAll_arith (root : Bytes) (e : Expr) : ∀ (ps ps' : List Pos),
    stepAll root (.arithmeticExpr e) ps = .ok ps' → ps' = []
  | [], ps', h => by simp only [stepAll, Res.ok.injEq] at h; exact h.symm
  | .container off len :: ps, ps', h => by simp [stepAll, selectPath] at h
  | .scalar ty off len :: ps, ps', h => by
    rw [stepAll_scalar] at h
    cases hr : stepAll root (.arithmeticExpr e) ps with
    | ok r =>
      rw [hr] at h
      simp only [Res.map, Res.bind, isBW, Bool.false_eq_true, if_false, Res.ok.injEq] at h
      rw [← h]; exact stepAll_arith root e ps r hr
    | err e => rw [hr] at h; simp [Res.map, Res.bind] at h
    | panic s => rw [hr] at h; simp [Res.map, Res.bind] at h
    | fuel => rw [hr] at h; simp [Res.map, Res.bind] at h

theorem flatMap_arith (e : Expr) (ws : List JV) : ws.flatMap (Spec.stepItem (.arithmeticExpr e)) = [] := by
  induction ws with
  | nil => rfl
  | cons w ws ih => simp only [List.flatMap_cons, ih]; cases w <;> rfl

theorem isPlain_cases (p : Path) (hp : isPlain p = true) : isStep p = true ∨ ∃ e, p = .arithmeticExpr e := by
  cases p <;> simp_all [isPlain, isStep]

/-- one plain step: when the model's step succeeds, the new frontier represents the spec's -/
theorem stepAll_ok_rep (root : Bytes) (p : Path) (hp : isPlain p = true) (ps : List Pos) (ws : List JV)
    (ps' : List Pos) (h : Sel.RepL root ps ws) (hs : stepAll root p ps = .ok ps') :
    Sel.RepL root ps' (ws.flatMap (Spec.stepItem p)) := by
  rcases isPlain_cases p hp with hstep | ⟨e, rfl⟩
  · obtain ⟨qs, h1, h2⟩ := stepAll_rep root p hstep ps ws h
    rw [h1] at hs
    simp only [Res.ok.injEq] at hs
    subst hs; exact h2
  · rw [stepAll_arith root e ps ps' hs, flatMap_arith]
    exact trivial

theorem walk_plain (fuel : Nat) (root : Bytes) (p : Path) (hp : isPlain p = true) (rest : List Path)
    (ps : List Pos) :
    walk (fuel + 1) root (p :: rest) ps
      = match stepAll root p ps with
        | .ok ps' => walk fuel root rest ps'
        | .err er => .err er
        | .panic s => .panic s
        | .fuel => .fuel := by
  cases p <;> first | (simp [isPlain] at hp; done) | (simp only [walk] <;> rfl)

theorem evalSteps_plain (f : Nat) (v : JV) (p : Path) (hp : isPlain p = true) (rest : List Path)
    (items : List JV) :
    Spec.evalSteps (f + 1) v (p :: rest) items = Spec.evalSteps f v rest (items.flatMap (Spec.stepItem p)) := by
  cases p <;> first | (simp [isPlain] at hp; done) | (simp only [Spec.evalSteps] <;> rfl)

theorem operandSteps_plain (root : Bytes) (p : Path) (hp : isPlain p = true) (rest : List Path)
    (ps : List Pos) :
    operandSteps root (p :: rest) ps
      = match stepAll root p ps with
        | .ok ps' => operandSteps root rest ps'
        | .err e => .err e
        | .panic s => .panic s
        | .fuel => .fuel := by
  cases p <;> first | (simp [isPlain] at hp; done) | (simp only [operandSteps] <;> rfl)

theorem operandSteps_notPlain (root : Bytes) (p : Path) (hp : isPlain p = false) (rest : List Path)
    (ps : List Pos) : operandSteps root (p :: rest) ps = .panic "unreachable" := by
  cases p <;> first | (simp [isPlain] at hp; done) | (simp only [operandSteps] <;> rfl)

/-- operand paths (`paths.iter().skip(1)` of a comparison operand): plain steps only -/
theorem operandSteps_rep (v₀ : JV) (root : Bytes) : ∀ (rest : List Path) (ps : List Pos) (ws : List JV)
    (ps' : List Pos), operandSteps root rest ps = .ok ps' → Sel.RepL root ps ws →
    ∃ ws', Sel.RepL root ps' ws' ∧ Ev (fun f => Spec.evalSteps f v₀ rest ws) ws'
  | [], ps, ws, ps', h, hr => by
    simp only [operandSteps, Res.ok.injEq] at h
    subst h
    exact ⟨ws, hr, Ev_const_succ (fun f => by simp only [Spec.evalSteps])⟩
  | p :: rest, ps, ws, ps', h, hr => by
    by_cases hp : isPlain p = true
    · rw [operandSteps_plain root p hp] at h
      cases hs : stepAll root p ps with
      | ok ps1 =>
        rw [hs] at h
        simp only [] at h
        have hr1 := stepAll_ok_rep root p hp ps ws ps1 hr hs
        obtain ⟨ws', h1, h2⟩ := operandSteps_rep v₀ root rest ps1 _ ps' h hr1
        refine ⟨ws', h1, Ev_succ (fun f hf => ?_) h2⟩
        rw [evalSteps_plain f v₀ p hp]; exact hf
      | err e => rw [hs] at h; simp at h
      | panic s => rw [hs] at h; simp at h
      | fuel => rw [hs] at h; simp at h
    · rw [operandSteps_notPlain root p (by simpa using hp)] at h
      simp at h

/-! ### comparison operands: `convert_expr_val` -/

/-- start position of a comparison operand -/
def exprStart (root : Bytes) (pos : Pos) (paths : List Path) : Pos :=
  match paths.head? with
  | some .current => pos
  | _ => rootPosition root

theorem startOf_exprStart (root : Bytes) (pos : Pos) (paths : List Path) :
    startOf root (some pos) paths = .ok (exprStart root pos paths) := by
  cases paths with
  | nil => rfl
  | cons p rest => cases p <;> rfl

theorem exprVal_paths (fuel : Nat) (root : Bytes) (pos : Pos) (paths : List Path) :
    exprVal (fuel + 1) root pos (.paths paths)
      = match operandSteps root (paths.drop 1) [exprStart root pos paths] with
        | .ok ps => valuesOf root ps
        | .err er => .err er
        | .panic s => .panic s
        | .fuel => .fuel := by
  simp only [exprVal, exprStart] <;> rfl

theorem exprVal_rep (v₀ : JV) (hg : goodTop v₀ = true) (fuel : Nat) (pos : Pos) (w : JV) (e : Expr)
    (vals : List PathValue) (h : exprVal fuel (encodeSpec v₀) pos e = .ok vals) (hok : okOperand e = true)
    (hr : Sel.Rep (encodeSpec v₀) pos w) :
    ∃ svals, PVL vals svals ∧ Ev (fun f => Spec.operandValues f v₀ w e) svals := by
  cases fuel with
  | zero => simp [exprVal] at h
  | succ fuel =>
    cases e with
    | value v =>
      simp only [exprVal, Res.ok.injEq] at h
      subst h
      exact ⟨[v], PVL_refl _, Ev_const_succ (fun f => by simp only [Spec.operandValues])⟩
    | paths paths =>
      simp only [okOperand] at hok
      rw [exprVal_paths] at h
      have hst1 := startOf_exprStart (encodeSpec v₀) pos paths
      generalize exprStart (encodeSpec v₀) pos paths = start at h hst1
      have hrs := startOf_rep v₀ hg (some pos) (some w) paths start hst1 hr
      cases hos : operandSteps (encodeSpec v₀) (paths.drop 1) [start] with
      | ok ps1 =>
        rw [hos] at h
        simp only [] at h
        obtain ⟨ws1, h1, h2⟩ := operandSteps_rep v₀ (encodeSpec v₀) (paths.drop 1) [start]
          [sstartOf v₀ (some w) paths] ps1 hos ⟨hrs, trivial⟩
        obtain ⟨vals', h3, h4⟩ := valuesOf_rep (encodeSpec v₀) ps1 ws1 h1
        rw [h3] at h
        simp only [Res.ok.injEq] at h
        subst h
        refine ⟨ws1.filterMap Spec.toPathValue, h4, ?_⟩
        -- the spec walks the whole list, whose head `$`/`@` is skipped
        have hev : Ev (fun f => Spec.evalPaths f v₀ (some w) paths) ws1 := by
          cases paths with
          | nil =>
            refine Ev_succ (fun f hf => ?_) h2
            rw [evalPaths_succ]; exact hf
          | cons p rest =>
            have hp : p = .root ∨ p = .current := by
              cases p <;> simp_all [headOK]
            have h2' : Ev (fun f => Spec.evalSteps f v₀ (p :: rest) [sstartOf v₀ (some w) (p :: rest)]) ws1 := by
              refine Ev_succ (fun f hf => ?_) h2
              rcases hp with rfl | rfl <;> (simp only [Spec.evalSteps]; exact hf)
            refine Ev_succ (fun f hf => ?_) h2'
            rw [evalPaths_succ]; exact hf
        refine Ev_succ (fun f hf => ?_) hev
        simp only [Spec.operandValues, hf, Option.map_some]
      | err e => rw [hos] at h; simp at h
      | panic s => rw [hos] at h; simp at h
      | fuel => rw [hos] at h; simp at h
    | binaryOp op l r => simp [exprVal] at h
    | arithUnary op e => simp [exprVal] at h
    | arithBinary op l r => simp [exprVal] at h
    | existsFn ps => simp [exprVal] at h

/-! ### the four fuel-indexed statements -/

def FindOK (v₀ : JV) (fuel : Nat) : Prop :=
  ∀ (cur : Option Pos) (scur : Option JV) (paths : List Path) (ps' : List Pos),
    findPositions fuel (encodeSpec v₀) cur paths = .ok ps' → okPaths paths = true →
    RepO (encodeSpec v₀) cur scur →
    ∃ ws', Sel.RepL (encodeSpec v₀) ps' ws' ∧ Ev (fun f => Spec.evalPaths f v₀ scur paths) ws'

def WalkOK (v₀ : JV) (fuel : Nat) : Prop :=
  ∀ (paths : List Path) (ps : List Pos) (ws : List JV) (ps' : List Pos),
    walk fuel (encodeSpec v₀) paths ps = .ok ps' → okPaths paths = true →
    Sel.RepL (encodeSpec v₀) ps ws →
    ∃ ws', Sel.RepL (encodeSpec v₀) ps' ws' ∧ Ev (fun f => Spec.evalSteps f v₀ paths ws) ws'

def FilterAllOK (v₀ : JV) (fuel : Nat) : Prop :=
  ∀ (e : Expr) (ps : List Pos) (ws : List JV) (ps' : List Pos),
    filterAll fuel (encodeSpec v₀) e ps = .ok ps' → okExpr e = true →
    Sel.RepL (encodeSpec v₀) ps ws →
    ∃ ws', Sel.RepL (encodeSpec v₀) ps' ws' ∧ Ev (fun f => Spec.filterItems f v₀ e ws) ws'

def FilterExprOK (v₀ : JV) (fuel : Nat) : Prop :=
  ∀ (e : Expr) (pos : Pos) (w : JV) (b : Bool),
    filterExpr fuel (encodeSpec v₀) pos e = .ok b → okExpr e = true →
    Sel.Rep (encodeSpec v₀) pos w →
    Ev (fun f => Spec.evalFilter f v₀ w e) b

theorem find_succ (v₀ : JV) (hg : goodTop v₀ = true) (fuel : Nat) (hw : WalkOK v₀ fuel) :
    FindOK v₀ (fuel + 1) := by
  intro cur scur paths ps' h hok hc
  rw [findPositions_succ] at h
  cases hs : startOf (encodeSpec v₀) cur paths with
  | ok start =>
    rw [hs] at h
    simp only [] at h
    have hrs := startOf_rep v₀ hg cur scur paths start hs hc
    obtain ⟨ws', h1, h2⟩ := hw paths [start] [sstartOf v₀ scur paths] ps' h hok ⟨hrs, trivial⟩
    refine ⟨ws', h1, Ev_succ (fun f hf => ?_) h2⟩
    rw [evalPaths_succ]; exact hf
  | err e => rw [hs] at h; simp at h
  | panic s => rw [hs] at h; simp at h
  | fuel => rw [hs] at h; simp at h

theorem walk_filter (fuel : Nat) (root : Bytes) (p : Path) (e : Expr)
    (hp : p = .filterExpr e ∨ p = .predicate e) (rest : List Path) (ps : List Pos) :
    walk (fuel + 1) root (p :: rest) ps
      = match filterAll fuel root e ps with
        | .ok ps' => walk fuel root rest ps'
        | .err er => .err er
        | .panic s => .panic s
        | .fuel => .fuel := by
  rcases hp with rfl | rfl <;> simp only [walk] <;> rfl

theorem evalSteps_filter (f : Nat) (v : JV) (p : Path) (e : Expr)
    (hp : p = .filterExpr e ∨ p = .predicate e) (rest : List Path) (items : List JV) :
    Spec.evalSteps (f + 1) v (p :: rest) items
      = match Spec.filterItems f v e items with
        | some items' => Spec.evalSteps f v rest items'
        | none => none := by
  rcases hp with rfl | rfl <;> simp only [Spec.evalSteps] <;> rfl

theorem walk_succ (v₀ : JV) (fuel : Nat) (hw : WalkOK v₀ fuel) (hfa : FilterAllOK v₀ fuel) :
    WalkOK v₀ (fuel + 1) := by
  intro paths ps ws ps' h hok hr
  cases paths with
  | nil =>
    simp only [walk, Res.ok.injEq] at h
    subst h
    exact ⟨ws, hr, Ev_const_succ (fun f => by simp only [Spec.evalSteps])⟩
  | cons p rest =>
    simp only [okPaths, Bool.and_eq_true] at hok
    by_cases hp : isPlain p = true
    · rw [walk_plain fuel _ p hp] at h
      cases hs : stepAll (encodeSpec v₀) p ps with
      | ok ps1 =>
        rw [hs] at h
        simp only [] at h
        have hr1 := stepAll_ok_rep _ p hp ps ws ps1 hr hs
        obtain ⟨ws', h1, h2⟩ := hw rest ps1 _ ps' h hok.2 hr1
        refine ⟨ws', h1, Ev_succ (fun f hf => ?_) h2⟩
        rw [evalSteps_plain f v₀ p hp]; exact hf
      | err e => rw [hs] at h; simp at h
      | panic s => rw [hs] at h; simp at h
      | fuel => rw [hs] at h; simp at h
    · have hcases : p = .root ∨ p = .current ∨ ∃ e, (p = .filterExpr e ∨ p = .predicate e) := by
        cases p <;> simp_all [isPlain]
      rcases hcases with rfl | rfl | ⟨e, hpe⟩
      · simp only [walk] at h
        obtain ⟨ws', h1, h2⟩ := hw rest ps ws ps' h hok.2 hr
        exact ⟨ws', h1, Ev_succ (fun f hf => by simp only [Spec.evalSteps]; exact hf) h2⟩
      · simp only [walk] at h
        obtain ⟨ws', h1, h2⟩ := hw rest ps ws ps' h hok.2 hr
        exact ⟨ws', h1, Ev_succ (fun f hf => by simp only [Spec.evalSteps]; exact hf) h2⟩
      · have hoke : okExpr e = true := by
          rcases hpe with rfl | rfl <;> simpa [okPath] using hok.1
        rw [walk_filter fuel _ p e hpe] at h
        cases hs : filterAll fuel (encodeSpec v₀) e ps with
        | ok ps1 =>
          rw [hs] at h
          simp only [] at h
          obtain ⟨ws1, hr1, hev1⟩ := hfa e ps ws ps1 hs hoke hr
          obtain ⟨ws', h1, h2⟩ := hw rest ps1 ws1 ps' h hok.2 hr1
          refine ⟨ws', h1, Ev_succ2 (fun f hf1 hf2 => ?_) hev1 h2⟩
          rw [evalSteps_filter f v₀ p e hpe, hf1]; exact hf2
        | err e => rw [hs] at h; simp at h
        | panic s => rw [hs] at h; simp at h
        | fuel => rw [hs] at h; simp at h

theorem filterAll_succ (v₀ : JV) (fuel : Nat) (hfe : FilterExprOK v₀ fuel) (hfa : FilterAllOK v₀ fuel) :
    FilterAllOK v₀ (fuel + 1) := by
  intro e ps ws ps' h hok hr
  cases ps with
  | nil =>
    have := RepL_nil_left hr
    subst this
    simp only [filterAll, Res.ok.injEq] at h
    subst h
    exact ⟨[], trivial, Ev_const_succ (fun f => by simp only [Spec.filterItems])⟩
  | cons pos rest =>
    cases ws with
    | nil => exact hr.elim
    | cons w ws =>
      simp only [filterAll] at h
      cases hk : filterExpr fuel (encodeSpec v₀) pos e with
      | ok keep =>
        rw [hk] at h
        simp only [] at h
        cases hrest : filterAll fuel (encodeSpec v₀) e rest with
        | ok r =>
          rw [hrest] at h
          simp only [Res.ok.injEq] at h
          subst h
          have hev1 := hfe e pos w keep hk hok hr.1
          obtain ⟨ws1, hr1, hev2⟩ := hfa e rest ws r hrest hok hr.2
          refine ⟨if keep then w :: ws1 else ws1, ?_, Ev_succ2 (fun f hf1 hf2 => ?_) hev1 hev2⟩
          · cases keep
            · simpa using hr1
            · exact (⟨hr.1, hr1⟩ : Sel.RepL _ (pos :: r) (w :: ws1))
          · simp only [Spec.filterItems, hf1, hf2]
        | err e => rw [hrest] at h; simp at h
        | panic s => rw [hrest] at h; simp at h
        | fuel => rw [hrest] at h; simp at h
      | err e => rw [hk] at h; simp at h
      | panic s => rw [hk] at h; simp at h
      | fuel => rw [hk] at h; simp at h

theorem filterExpr_cmp (fuel : Nat) (root : Bytes) (pos : Pos) (op : BinOp) (hand : op ≠ .and) (hor : op ≠ .or)
    (l r : Expr) :
    filterExpr (fuel + 1) root pos (.binaryOp op l r)
      = match exprVal fuel root pos l with
        | .ok lv =>
          (match exprVal fuel root pos r with
           | .ok rv => anyPair op lv rv
           | .err er => .err er
           | .panic s => .panic s
           | .fuel => .fuel)
        | .err er => .err er
        | .panic s => .panic s
        | .fuel => .fuel := by
  cases op <;> first | (exact absurd rfl hand) | (exact absurd rfl hor) | (simp only [filterExpr] <;> rfl)

theorem evalFilter_cmp (f : Nat) (v item : JV) (op : BinOp) (hand : op ≠ .and) (hor : op ≠ .or) (l r : Expr) :
    Spec.evalFilter (f + 1) v item (.binaryOp op l r)
      = match Spec.operandValues f v item l, Spec.operandValues f v item r with
        | some ls, some rs =>
          some (ls.any (fun x => rs.any (fun y => match Sel.cmpOp op x y with | .ok b => b | _ => false)))
        | _, _ => none := by
  cases op <;> first | (exact absurd rfl hand) | (exact absurd rfl hor) | (simp only [Spec.evalFilter] <;> rfl)

theorem filterExpr_succ (v₀ : JV) (hg : goodTop v₀ = true) (fuel : Nat) (hfe : FilterExprOK v₀ fuel)
    (hfp : FindOK v₀ fuel) : FilterExprOK v₀ (fuel + 1) := by
  intro e pos w b h hok hr
  cases e with
  | binaryOp op l r =>
    simp only [okExpr] at hok
    by_cases hor : op = .or
    · subst hor
      simp only [isLogic, if_true, Bool.and_eq_true] at hok
      simp only [filterExpr] at h
      cases hl : filterExpr fuel (encodeSpec v₀) pos l <;> cases hrr : filterExpr fuel (encodeSpec v₀) pos r <;>
        rw [hl, hrr] at h <;> simp only [] at h <;> first | (simp at h; done) | skip
      rename_i a c
      simp only [Res.ok.injEq] at h
      subst h
      refine Ev_succ2 (fun f hf1 hf2 => ?_) (hfe l pos w a hl hok.1 hr) (hfe r pos w c hrr hok.2 hr)
      simp only [Spec.evalFilter, hf1, hf2]
    · by_cases hand : op = .and
      · subst hand
        simp only [isLogic, if_true, Bool.and_eq_true] at hok
        simp only [filterExpr] at h
        cases hl : filterExpr fuel (encodeSpec v₀) pos l <;> cases hrr : filterExpr fuel (encodeSpec v₀) pos r <;>
          rw [hl, hrr] at h <;> simp only [] at h <;> first | (simp at h; done) | skip
        rename_i a c
        simp only [Res.ok.injEq] at h
        subst h
        refine Ev_succ2 (fun f hf1 hf2 => ?_) (hfe l pos w a hl hok.1 hr) (hfe r pos w c hrr hok.2 hr)
        simp only [Spec.evalFilter, hf1, hf2]
      · have hlg : isLogic op = false := by cases op <;> simp_all [isLogic]
        simp only [hlg, Bool.false_eq_true, if_false, Bool.and_eq_true] at hok
        rw [filterExpr_cmp fuel _ pos op hand hor] at h
        cases hl : exprVal fuel (encodeSpec v₀) pos l with
        | ok lv =>
          rw [hl] at h
          simp only [] at h
          cases hrr : exprVal fuel (encodeSpec v₀) pos r with
          | ok rv =>
            rw [hrr] at h
            simp only [] at h
            obtain ⟨sl, hpl, hel⟩ := exprVal_rep v₀ hg fuel pos w l lv hl hok.1 hr
            obtain ⟨sr, hpr, her⟩ := exprVal_rep v₀ hg fuel pos w r rv hrr hok.2 hr
            have hb := anyPair_spec op hpl hpr b h
            refine Ev_succ2 (fun f hf1 hf2 => ?_) hel her
            rw [evalFilter_cmp f v₀ w op hand hor, hf1, hf2]
            exact congrArg some hb.symm
          | err e => rw [hrr] at h; simp at h
          | panic s => rw [hrr] at h; simp at h
          | fuel => rw [hrr] at h; simp at h
        | err e => rw [hl] at h; simp at h
        | panic s => rw [hl] at h; simp at h
        | fuel => rw [hl] at h; simp at h
  | existsFn paths =>
    simp only [okExpr] at hok
    simp only [filterExpr] at h
    cases hf : findPositions fuel (encodeSpec v₀) (some pos) paths with
    | ok ps =>
      rw [hf] at h
      simp only [Res.map, Res.bind, Res.ok.injEq] at h
      subst h
      obtain ⟨ws', h1, h2⟩ := hfp (some pos) (some w) paths ps hf hok hr
      refine Ev_succ (fun f hf' => ?_) h2
      simp only [Spec.evalFilter, hf', Option.map_some, RepL_isEmpty h1]
    | err e => rw [hf] at h; simp [Res.map, Res.bind] at h
    | panic s => rw [hf] at h; simp [Res.map, Res.bind] at h
    | fuel => rw [hf] at h; simp [Res.map, Res.bind] at h
  | paths ps => simp [filterExpr] at h
  | value v => simp [filterExpr] at h
  | arithUnary op e => simp [filterExpr] at h
  | arithBinary op l r => simp [filterExpr] at h

/-- **4. the main theorem** (all four statements, by induction on the model's fuel) -/
theorem select_main (v₀ : JV) (hg : goodTop v₀ = true) : ∀ fuel,
    FindOK v₀ fuel ∧ WalkOK v₀ fuel ∧ FilterAllOK v₀ fuel ∧ FilterExprOK v₀ fuel
  | 0 => by
    refine ⟨?_, ?_, ?_, ?_⟩
    · intro cur scur paths ps' h; simp [findPositions] at h
    · intro paths ps ws ps' h; simp [walk] at h
    · intro e ps ws ps' h; simp [filterAll] at h
    · intro e pos w b h; simp [filterExpr] at h
  | fuel + 1 => by
    obtain ⟨h1, h2, h3, h4⟩ := select_main v₀ hg fuel
    exact ⟨find_succ v₀ hg fuel h2, walk_succ v₀ fuel h2 h3, filterAll_succ v₀ fuel h4 h3,
      filterExpr_succ v₀ hg fuel h4 h1⟩

/-- `find_positions` from the document root: the positions found represent, in order, the items
the path denotes -/
theorem findPositions_refines (v₀ : JV) (hg : goodTop v₀ = true) (jp : JsonPath) (hok : okPaths jp = true)
    (fuel : Nat) (ps : List Pos) (h : findPositions fuel (encodeSpec v₀) none jp = .ok ps) :
    ∃ items, Sel.RepL (encodeSpec v₀) ps items ∧ Ev (fun f => Spec.evalPaths f v₀ none jp) items :=
  (select_main v₀ hg fuel).1 none none jp ps h hok trivial

/-- the frontier loop alone: same statement for `walk` on any representing frontier -/
theorem walk_refines (v₀ : JV) (hg : goodTop v₀ = true) (paths : List Path) (hok : okPaths paths = true)
    (fuel : Nat) (ps : List Pos) (ws : List JV) (ps' : List Pos)
    (hr : Sel.RepL (encodeSpec v₀) ps ws) (h : walk fuel (encodeSpec v₀) paths ps = .ok ps') :
    ∃ ws', Sel.RepL (encodeSpec v₀) ps' ws' ∧ Ev (fun f => Spec.evalSteps f v₀ paths ws) ws' :=
  (select_main v₀ hg fuel).2.1 paths ps ws ps' h hok hr

end Jsonb
