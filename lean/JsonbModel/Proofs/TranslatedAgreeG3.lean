/-
Agreement theorems, phase 6a, part 3: `select_by_name` = `Sel.selectByName` (the key loop is `Sel.findKey`: it
goes on over the remaining keys once the name is found, adding up their lengths; the value loop picks the value
with the index found).
-/
import JsonbModel.Proofs.TranslatedAgreeG2

set_option linter.unusedSimpArgs false
set_option linter.unusedVariables false

namespace Jsonb.TrAgree
open Jsonb.Rs

theorem len_decide_ne_g (name : Bytes) (klen : Nat) :
    decide (Rs.len name ≠ (klen : Int)) = decide (name.length ≠ klen) := by
  unfold Rs.len
  by_cases h : name.length = klen
  · simp [h]
  · have : ¬ ((name.length : Int) = (klen : Int)) := by omega
    simp [h, this]

/-- an iteration of the key loop once the name has been found: only the offset moves -/
theorem sbn_loop1_found (root name : Bytes) (poses : List Tr.Position) (i : Int) (ty klen off : Nat) (idx : Int)
    (h : off + klen < 18446744073709551616) :
    Tr.Selector.select_by_name.loop1 root name poses (i, (ty : Int), (klen : Int)) ((off : Int), true, idx) =
      Ctl.val (.next (((off + klen : Nat) : Int), true, idx)) := by
  unfold Tr.Selector.select_by_name.loop1
  simp only [Bool.or_true, if_true, Rs.add_usize_nat off klen h, Ctl.ofRes_ok', Ctl.val_bind', Ctl.ret_bind', Rs.loopStep_cont']

theorem sbn_loop1_found_run (root name : Bytes) (poses : List Tr.Position) (idx : Int) :
    ∀ (ks : List (Nat × Nat)) (k off : Nat), off + Sel.sumLens ks < 18446744073709551616 →
    Rs.forIn (Rs.enumerateFrom k (ks.map ofPairI)) ((off : Int), true, idx) (Tr.Selector.select_by_name.loop1 root name poses) =
      Ctl.val (((off + Sel.sumLens ks : Nat) : Int), true, idx) := by
  intro ks
  induction ks with
  | nil => intro k off _; simp [Rs.enumerateFrom, Rs.forIn, Sel.sumLens]
  | cons e ks ih =>
    intro k off h
    obtain ⟨ty, klen⟩ := e
    rw [sumLens_cons_g] at h
    simp only [List.map_cons, ofPairI, Rs.enumerateFrom]
    rw [Rs.forIn_next _ _ _ _ _ (sbn_loop1_found root name poses _ ty klen off idx (by omega)), ih _ _ (by omega)]
    simp only [sumLens_cons_g, Nat.add_assoc]

/-- an iteration of the key loop while the name has not been found -/
theorem sbn_loop1_step (root name : Bytes) (poses : List Tr.Position) (k ty klen off : Nat) (idx : Int)
    (h : off + klen < 18446744073709551616) :
    Tr.Selector.select_by_name.loop1 root name poses ((k : Int), (ty : Int), (klen : Int)) ((off : Int), false, idx) =
      if name.length ≠ klen then Ctl.val (.next (((off + klen : Nat) : Int), false, idx))
      else if off > root.length then Ctl.ret (.panic "range start index out of range for slice")
      else if off + klen > root.length then Ctl.ret (.err "InvalidJsonb")
      else if (root.drop off).take klen == name then Ctl.val (.next (((off + klen : Nat) : Int), true, (k : Int)))
      else Ctl.val (.next (((off + klen : Nat) : Int), false, idx)) := by
  unfold Tr.Selector.select_by_name.loop1
  simp only [Bool.or_false, len_decide_ne_g]
  by_cases h1 : name.length ≠ klen
  · simp only [h1, decide_true, if_true, ne_eq, not_false_eq_true, Rs.add_usize_nat off klen h, Ctl.ofRes_ok', Ctl.val_bind',
      Ctl.ret_bind', Rs.loopStep_cont']
  · have h1' : name.length = klen := by omega
    simp only [h1, decide_false, Bool.false_eq_true, if_false, Ctl.pure_eq', Ctl.val_bind', sliceFrom_nat_if]
    by_cases h2 : off > root.length
    · have : ¬ off ≤ root.length := by omega
      simp only [this, h2, if_false, if_true, Ctl.ofRes_panic', Ctl.ret_bind', Rs.loopStep_panic']
    · have h2' : off ≤ root.length := by omega
      simp only [h2', h2, if_true, if_false, Ctl.ofRes_ok', Ctl.val_bind', decode_string_at root off klen h2']
      by_cases h3 : off + klen > root.length
      · have : ¬ off + klen ≤ root.length := by omega
        simp only [this, h3, if_false, if_true, Ctl.ofRes_err', Ctl.ret_bind', Rs.loopStep_err']
      · have h3' : off + klen ≤ root.length := by omega
        simp only [h3', h3, if_true, if_false, Ctl.ofRes_ok', Ctl.val_bind']
        by_cases h4 : (root.drop off).take klen = name
        · have h4' : name = (root.drop off).take klen := h4.symm
          simp [h4, Rs.add_usize_nat off klen h, Ctl.ofRes_ok', Ctl.val_bind', Ctl.pure_eq', Rs.loopStep_val']
        · have h4' : ¬ name = (root.drop off).take klen := fun hh => h4 hh.symm
          have h4b : ((root.drop off).take klen == name) = false := by simp [h4]
          simp [h4', h4b, Rs.add_usize_nat off klen h, Ctl.ofRes_ok', Ctl.val_bind', Ctl.pure_eq', Rs.loopStep_val']

/-- the key loop = `Sel.findKey` (the text of the slice panic is that of `&root[offset..]`) -/
theorem sbn_loop1_run (root name : Bytes) (poses : List Tr.Position) (idx0 : Int) :
    ∀ (ks : List (Nat × Nat)) (k off : Nat), off + Sel.sumLens ks < 18446744073709551616 →
    Rs.forIn (Rs.enumerateFrom k (ks.map ofPairI)) ((off : Int), false, idx0) (Tr.Selector.select_by_name.loop1 root name poses) =
      match Sel.findKey root name ks off k with
      | .ok (some i) => Ctl.val (((off + Sel.sumLens ks : Nat) : Int), true, (i : Int))
      | .ok none => Ctl.val (((off + Sel.sumLens ks : Nat) : Int), false, idx0)
      | .err e => Ctl.ret (.err e)
      | .panic _ => Ctl.ret (.panic "range start index out of range for slice")
      | .fuel => Ctl.ret .fuel := by
  intro ks
  induction ks with
  | nil => intro k off _; simp [Rs.enumerateFrom, Rs.forIn, Sel.sumLens, Sel.findKey]
  | cons e ks ih =>
    intro k off h
    obtain ⟨ty, klen⟩ := e
    rw [sumLens_cons_g] at h
    simp only [List.map_cons, ofPairI, Rs.enumerateFrom, Sel.findKey]
    have hs := sbn_loop1_step root name poses k ty klen off idx0 (by omega)
    by_cases h1 : name.length ≠ klen
    · rw [if_pos h1] at hs
      rw [Rs.forIn_next _ _ _ _ _ hs, ih _ _ (by omega), if_pos h1]
      simp only [sumLens_cons_g, Nat.add_assoc]
    · rw [if_neg h1] at hs
      rw [if_neg h1]
      by_cases h2 : off > root.length
      · rw [if_pos h2] at hs
        rw [Rs.forIn_ret _ _ _ _ _ hs, if_pos h2]
      · rw [if_neg h2] at hs
        rw [if_neg h2]
        by_cases h3 : off + klen > root.length
        · rw [if_pos h3] at hs
          rw [Rs.forIn_ret _ _ _ _ _ hs, if_pos h3]
        · rw [if_neg h3] at hs
          rw [if_neg h3]
          by_cases h4 : ((root.drop off).take klen == name) = true
          · rw [if_pos h4] at hs
            rw [Rs.forIn_next _ _ _ _ _ hs, if_pos h4, sbn_loop1_found_run root name poses _ ks _ _ (by omega)]
            simp only [sumLens_cons_g, Nat.add_assoc]
          · rw [if_neg h4] at hs
            rw [Rs.forIn_next _ _ _ _ _ hs, ih _ _ (by omega), if_neg h4]
            simp only [sumLens_cons_g, Nat.add_assoc]

/-- the value loop: the value with index `idx` is pushed, then the loop is left -/
theorem sbn_loop2_run (idx : Nat) : ∀ (vs : List (Nat × Nat)) (k off : Nat) (poses : List Sel.Pos), k ≤ idx →
    off + Sel.sumLens vs < 18446744073709551616 →
    ∃ o' : Int, Rs.forIn (Rs.enumerateFrom k (vs.map ofPairI)) ((off : Int), poses.map ofPos) (Tr.Selector.select_by_name.loop2 (idx : Int)) =
      (Ctl.val (o', (poses ++ ((Sel.layPos vs off)[idx - k]?).toList).map ofPos) : Ctl (List Tr.Position) _) := by
  intro vs
  induction vs with
  | nil => intro k off poses _ _; exact ⟨(off : Int), by simp [Rs.enumerateFrom, Rs.forIn, Sel.layPos]⟩
  | cons e vs ih =>
    intro k off poses hk h
    obtain ⟨ty, len⟩ := e
    rw [sumLens_cons_g] at h
    simp only [List.map_cons, ofPairI, Rs.enumerateFrom]
    by_cases hki : k = idx
    · subst hki
      refine ⟨(k : Int) * 0 + (off : Int), ?_⟩
      have hs : Tr.Selector.select_by_name.loop2 (k : Int) ((k : Int), (ty : Int), (len : Int)) ((off : Int), poses.map ofPos) =
          Ctl.val (.done ((off : Int), (poses ++ [Sel.mkPos ty off len]).map ofPos)) := by
        unfold Tr.Selector.select_by_name.loop2
        simp only [ne_eq, not_true_eq_false, decide_false, Bool.false_eq_true, if_false, Ctl.pure_eq', Ctl.val_bind', pos_term_g,
          Rs.pushBack, Rs.loopStep_brk', List.map_append, List.map_cons, List.map_nil]
      rw [Rs.forIn_done _ _ _ _ _ hs]
      simp [Sel.layPos]
    · have hlt : k < idx := by omega
      have hs : Tr.Selector.select_by_name.loop2 (idx : Int) ((k : Int), (ty : Int), (len : Int)) ((off : Int), poses.map ofPos) =
          Ctl.val (.next (((off + len : Nat) : Int), poses.map ofPos)) := by
        unfold Tr.Selector.select_by_name.loop2
        have hne : ((k : Int) ≠ (idx : Int)) := by omega
        simp only [hne, ne_eq, not_false_eq_true, decide_true, if_true, Rs.add_usize_nat off len (by omega), Ctl.ofRes_ok',
          Ctl.val_bind', Ctl.ret_bind', Rs.loopStep_cont']
      rw [Rs.forIn_next _ _ _ _ _ hs]
      obtain ⟨o', ho⟩ := ih (k + 1) (off + len) poses (by omega) (by omega)
      refine ⟨o', ?_⟩
      rw [ho]
      have : idx - k = (idx - (k + 1)) + 1 := by omega
      rw [this]
      simp [Sel.layPos]

/-! ## select_by_name -/

/-- `select_by_name` against the model, the text of the model's slice panic aside -/
theorem select_by_name_agrees (self : Tr.Selector) (root : Bytes) (off : Nat) (name : Bytes) (poses : List Sel.Pos)
    (hlen : root.length < 9223372036854775808) :
    panicAny (Tr.Selector.select_by_name self root (off : Int) name (poses.map ofPos)) =
      panicAny ((Sel.selectByName root off name).map (fun ps => (poses ++ ps).map ofPos)) := by
  unfold Tr.Selector.select_by_name Sel.selectByName Sel.headerAt
  rw [sliceFrom_nat_if]
  by_cases hoff : off ≤ root.length
  · have hno : ¬ off > root.length := by omega
    rw [if_pos hoff, if_neg hno]
    simp only [Ctl.ofRes_ok', Ctl.val_bind', decode_header_drop root off hoff]
    cases hr : readU32At root off with
    | none => rfl
    | some w =>
      have h4 := readU32At_some_le_g root off w hr
      have hL := hdrLen_lt w
      simp only [mapErr_ok_g, Ctl.ofRes_ok', Ctl.val_bind', tag_decide_ne_g, zero_decide_g]
      by_cases hc : hdrType w ≠ C.OBJECT_CONTAINER_TAG ∨ hdrLen w = 0
      · have hb : (decide (hdrType w ≠ C.OBJECT_CONTAINER_TAG) || decide (hdrLen w = 0)) = true := by
          rcases hc with h | h <;> simp [h]
        simp [hb, hc, Ctl.run, Res.map, Res.bind]
      · have hb : (decide (hdrType w ≠ C.OBJECT_CONTAINER_TAG) || decide (hdrLen w = 0)) = false := by
          simp only [not_or, Decidable.not_not] at hc
          simp [hc.1, hc.2]
        have hn : hdrLen w ≠ 0 := fun h => hc (Or.inr h)
        simp only [hb, hc, Bool.false_eq_true, if_false, Ctl.pure_eq', Ctl.val_bind']
        rw [decode_jentries_at root (hdrLen w) (off + 4) h4]
        rcases entriesAt_cases_g root (hdrLen w) (off + 4) with ⟨ks, hk⟩ | hk
        · obtain ⟨hk1, hk2, hk3⟩ := entriesAt_ok_g root _ _ _ hk
          have hk2 := hk2 hn
          rw [hk]
          simp only [Res.map, Res.bind, Ctl.ofRes_ok', Ctl.val_bind']
          rw [decode_jentries_at root (hdrLen w) (off + 4 + 4 * hdrLen w) (by omega)]
          rcases entriesAt_cases_g root (hdrLen w) (off + 4 + 4 * hdrLen w) with ⟨vs, hv⟩ | hv
          · obtain ⟨hv1, hv2, hv3⟩ := entriesAt_ok_g root _ _ _ hv
            have hv2 := hv2 hn
            rw [hv]
            simp only [Res.map, Res.bind, Ctl.ofRes_ok', Ctl.val_bind']
            simp (disch := omega) only [Rs.add_usize_ok', Rs.mul_usize_ok', Ctl.ofRes_ok', Ctl.val_bind']
            have hst : ((off : Int) + 4 + (hdrLen w : Int) * 8) = ((off + 4 + hdrLen w * 8 : Nat) : Int) := by omega
            rw [hst, Rs.enumerate, sbn_loop1_run root name _ 0 ks 0 _ (by omega)]
            cases hf : Sel.findKey root name ks (off + 4 + hdrLen w * 8) 0 with
            | ok o =>
              cases o with
              | none => simp [Ctl.run]
              | some i =>
                simp only [Ctl.val_bind', Bool.not_true, Bool.false_eq_true, if_false, Ctl.pure_eq']
                obtain ⟨o', ho⟩ := sbn_loop2_run i vs 0 (off + 4 + hdrLen w * 8 + Sel.sumLens ks) poses (by omega) (by omega)
                rw [Rs.enumerate, ho]
                simp [Ctl.run]
            | err e => rfl
            | panic s => rfl
            | fuel => rfl
          · rw [hv]; rfl
        · rw [hk]
          cases Sel.entriesAt root (hdrLen w) (off + 4 + 4 * hdrLen w) <;> rfl
  · have : off > root.length := by omega
    rw [if_neg hoff, if_pos this]; rfl

/-- equality wherever the model's answer is not a panic -/
theorem select_by_name_agrees_eq (self : Tr.Selector) (root : Bytes) (off : Nat) (name : Bytes) (poses : List Sel.Pos)
    (hlen : root.length < 9223372036854775808) (hp : (Sel.selectByName root off name).isPanic = false) :
    Tr.Selector.select_by_name self root (off : Int) name (poses.map ofPos) =
      (Sel.selectByName root off name).map (fun ps => (poses ++ ps).map ofPos) := by
  apply panicAny_eq _ _ (select_by_name_agrees self root off name poses hlen)
  cases h : Sel.selectByName root off name <;> simp_all [Res.map, Res.bind, Res.isPanic]

end Jsonb.TrAgree
