/-
Agreement theorems, phase 5a, part 6: the WHOLE public functions of the model (`T.*` of Functions/Text.lean /
Text2.lean: sniffing, text branch, JSONB branch) are the translated functions applied to the model's text outcomes.
-/
import JsonbModel.Proofs.TranslatedAgreeE5

set_option linter.unusedSimpArgs false
set_option linter.unusedVariables false

namespace Jsonb.TrAgree
open Jsonb.Rs

/-! ## the whole public functions of the model (`T.*`: sniffing, text branch, JSONB branch)

Passing the model's whole function for the text outcome is passing its text branch: on JSONB input the parameter
is not used, on text input the whole function IS its text branch. -/

theorem get_by_index_whole (value : Bytes) (index : Nat) :
    Tr.get_by_index value (index : Int) (T.getByIndex value index) = T.getByIndex value index := by
  rw [get_by_index_agrees]; cases hj : isJsonb value <;> simp [T.getByIndex, hj]
theorem get_by_name_whole (value name : Bytes) (ic : Bool) :
    Tr.get_by_name value name ic (T.getByName value name ic) = T.getByName value name ic := by
  rw [get_by_name_agrees]; cases hj : isJsonb value <;> simp [T.getByName, hj]
theorem object_keys_whole (value : Bytes) : Tr.object_keys value (T.objectKeys value) = T.objectKeys value := by
  rw [object_keys_agrees]; cases hj : isJsonb value <;> simp [T.objectKeys, hj]
theorem array_values_whole (value : Bytes) : Tr.array_values value (T.arrayValues value) = T.arrayValues value := by
  rw [array_values_agrees]; cases hj : isJsonb value <;> simp [T.arrayValues, hj]
theorem object_each_whole (value : Bytes) : Tr.object_each value (T.objectEach value) = T.objectEach value := by
  rw [object_each_agrees]; cases hj : isJsonb value <;> simp [T.objectEach, hj]
theorem type_of_whole (value : Bytes) :
    Tr.type_of value ((T.typeOf value).map Rs.strLit) = (T.typeOf value).map Rs.strLit := by
  rw [type_of_agrees]; cases hj : isJsonb value <;> simp [T.typeOf, hj]

theorem asNullOf_whole (value : Bytes) : asNullOf value (T.asNull value) = T.asNull value := by
  unfold asNullOf; cases hj : isJsonb value <;> simp [T.asNull, hj]
theorem asBoolOf_whole (value : Bytes) : asBoolOf value (T.asBool value) = T.asBool value := by
  unfold asBoolOf; cases hj : isJsonb value <;> simp [T.asBool, hj]
theorem asNumberOf_whole (value : Bytes) : asNumberOf value (T.asNumber value) = T.asNumber value := by
  unfold asNumberOf; cases hj : isJsonb value <;> simp [T.asNumber, hj]
theorem asStrOf_whole (value : Bytes) : asStrOf value (T.asStr value) = T.asStr value := by
  unfold asStrOf; cases hj : isJsonb value <;> simp [T.asStr, hj]

theorem as_null_whole (value : Bytes) : Tr.as_null value (T.asNull value) = T.asNull value := by
  rw [as_null_agrees]; exact asNullOf_whole value
theorem as_bool_whole (value : Bytes) : Tr.as_bool value (T.asBool value) = T.asBool value := by
  rw [as_bool_agrees]; exact asBoolOf_whole value
theorem as_str_whole (value : Bytes) : Tr.as_str value (T.asStr value) = T.asStr value := by
  rw [as_str_agrees]; exact asStrOf_whole value
theorem as_number_whole (value : Bytes) : Tr.as_number value (ofNumR (T.asNumber value)) = ofNumR (T.asNumber value) := by
  rw [as_number_of, asNumberOf_whole]

theorem as_i64_whole (value : Bytes) (h : NumWF (T.asNumber value)) :
    Tr.as_i64 value (ofNumR (T.asNumber value)) = T.asI64 value := by
  rw [as_i64_fn_agrees _ _ h, asNumberOf_whole]; rfl
theorem as_u64_whole (value : Bytes) (h : NumWF (T.asNumber value)) :
    Tr.as_u64 value (ofNumR (T.asNumber value)) = (T.asU64 value).map (Option.map Int.ofNat) := by
  rw [as_u64_fn_agrees _ _ h, asNumberOf_whole]; unfold T.asU64
  cases T.asNumber value <;> rfl
theorem as_f64_whole (value : Bytes) : Tr.as_f64 value (ofNumR (T.asNumber value)) = T.asF64 value := by
  rw [as_f64_fn_agrees, asNumberOf_whole]; rfl

theorem is_null_whole (value : Bytes) : Tr.is_null value (T.asNull value) = T.isNull value := by
  rw [is_null_agrees, asNullOf_whole]; rfl
theorem is_boolean_whole (value : Bytes) : Tr.is_boolean value (T.asBool value) = T.isBoolean value := by
  rw [is_boolean_agrees, asBoolOf_whole]; rfl
theorem is_string_whole (value : Bytes) : Tr.is_string value (T.asStr value) = T.isString value := by
  rw [is_string_agrees, asStrOf_whole]; rfl
theorem is_number_whole (value : Bytes) : Tr.is_number value (ofNumR (T.asNumber value)) = T.isNumber value := by
  rw [is_number_agrees, asNumberOf_whole]; rfl
theorem is_i64_whole (value : Bytes) (h : NumWF (T.asNumber value)) :
    Tr.is_i64 value (ofNumR (T.asNumber value)) = T.isI64 value := by
  rw [is_i64_agrees _ _ h, asNumberOf_whole]; rfl
theorem is_u64_whole (value : Bytes) (h : NumWF (T.asNumber value)) :
    Tr.is_u64 value (ofNumR (T.asNumber value)) = T.isU64 value := by
  rw [is_u64_agrees _ _ h, asNumberOf_whole]; rfl
theorem is_f64_whole (value : Bytes) : Tr.is_f64 value (ofNumR (T.asNumber value)) = T.isF64 value := by
  rw [is_f64_agrees, asNumberOf_whole]; rfl

theorem to_bool_whole (value : Bytes) : Tr.to_bool value (T.asBool value) (T.asStr value) = T.toBool value := by
  rw [to_bool_agrees, asBoolOf_whole, asStrOf_whole]; rfl

theorem castTailOf_whole {α : Type} (value : Bytes) (one zero : α) (parse : Bytes → Option α) :
    castTailOf (T.asBool value) (T.asStr value) one zero parse = T.castTail value one zero parse := rfl

theorem castTail_u64 (value : Bytes) :
    castTailOf (T.asBool value) (T.asStr value) (1 : Int) 0 (fun s => (Fn.parseU64 s).map Int.ofNat)
      = ((T.castTail value 1 0 Fn.parseU64).bind fun a => Res.ok (Int.ofNat a)) := by
  unfold castTailOf T.castTail
  cases T.asBool value with
  | ok o1 => cases o1 with
    | some b => cases b <;> rfl
    | none =>
      simp only []
      cases T.asStr value with
      | ok o2 => cases o2 with
        | some s => simp only []; cases Fn.parseU64 s <;> rfl
        | none => rfl
      | err e => rfl
      | panic e => rfl
      | fuel => rfl
  | err e => rfl
  | panic e => rfl
  | fuel => rfl

theorem to_i64_whole (value : Bytes) (h : NumWF (T.asNumber value)) :
    Tr.to_i64 value (ofNumR (T.asNumber value)) (T.asBool value) (T.asStr value) = T.toI64 value := by
  rw [to_i64_agrees _ _ h, asNumberOf_whole, asBoolOf_whole, asStrOf_whole]
  unfold castOf T.toI64 T.asI64
  cases (T.asNumber value).map (fun o => o.bind Num.asI64) with
  | ok o => cases o <;> rfl
  | err e => rfl
  | panic e => rfl
  | fuel => rfl
theorem to_u64_whole (value : Bytes) (h : NumWF (T.asNumber value)) :
    Tr.to_u64 value (ofNumR (T.asNumber value)) (T.asBool value) (T.asStr value) = (T.toU64 value).map Int.ofNat := by
  rw [to_u64_agrees _ _ h, asNumberOf_whole, asBoolOf_whole, asStrOf_whole]
  unfold castOf T.toU64 T.asU64
  cases T.asNumber value with
  | ok o =>
    cases o with
    | some n =>
      simp only [Res.map, Res.bind, Option.bind_some]
      cases Num.asU64 n with
      | some v => rfl
      | none => simp only [Option.map_none]; exact castTail_u64 value
    | none => simp only [Res.map, Res.bind, Option.bind_none, Option.map_none]; exact castTail_u64 value
  | err e => rfl
  | panic e => rfl
  | fuel => rfl
theorem to_f64_whole (value : Bytes) :
    Tr.to_f64 value (ofNumR (T.asNumber value)) (T.asBool value) (T.asStr value) = T.toF64 value := by
  rw [to_f64_agrees, asNumberOf_whole, asBoolOf_whole, asStrOf_whole, intAsF64_one, intAsF64_zero]
  unfold castOf T.toF64 T.asF64
  cases (T.asNumber value).map (fun o => o.map Num.asF64) with
  | ok o => cases o <;> rfl
  | err e => rfl
  | panic e => rfl
  | fuel => rfl
theorem to_str_whole (fmt : Nat → Bytes) (value : Bytes) :
    Tr.to_str fmt value (T.asStr value) (T.asBool value) (ofNumR (T.asNumber value)) = T.toStr fmt value := by
  rw [to_str_agrees, asNumberOf_whole, asBoolOf_whole, asStrOf_whole]; rfl

end Jsonb.TrAgree
