import JsonbModel.Proofs.TranslatedAgreeF11

set_option linter.unusedSimpArgs false
set_option linter.unusedVariables false

namespace Jsonb.TrAgree
open Jsonb.Rs

theorem dec_ok_or_err (bs : Bytes) : (∃ n, Num.dec bs = .ok n) ∨ (∃ e, Num.dec bs = .err e) := by
  cases bs with
  | nil => exact .inr ⟨_, rfl⟩
  | cons t rest =>
    simp only [Num.dec]
    repeat' split
    all_goals first | exact .inl ⟨_, rfl⟩ | exact .inr ⟨_, rfl⟩

theorem asF64_lt (n : Num) (h : n.WF) : Num.asF64 n < 18446744073709551616 := by
  cases n with
  | int i =>
    simp only [Num.WF] at h
    simp only [Num.asF64, F64.ofIntRNE]
    split
    · have := Num.ofNatRNE_lt (-i).toNat (by omega); omega
    · have := Num.ofNatRNE_lt i.toNat (by omega); omega
  | uint n =>
    simp only [Num.WF] at h
    have := Num.ofNatRNE_lt n h
    simp only [Num.asF64]; omega
  | float b => exact h

/-- the depth byte: `buf.push(depth)` -/
theorem pushByte_nat (buf : Bytes) (d : Nat) : Rs.pushByte buf (d : Int) = buf ++ [UInt8.ofNat d] := by
  simp [Rs.pushByte, Rs.u8]

theorem scalar_key_step (g f depth : Nat) (je : JE) (value buf : Bytes)
    (hd : depth ≤ 255) (hv : value.length < 9223372036854775808) (hlen : je.len < 4294967296)
    (ha : ∀ h, je.ty = C.CONTAINER_TAG → readU32At value 0 = some h → hdrType h = C.ARRAY_CONTAINER_TAG → ∀ b : Bytes,
      panicAny (Tr.array_convert_to_comparable g ((if depth + 1 ≤ 255 then depth + 1 else 255 : Nat) : Int) ((hdrLen h : Nat) : Int) (value.drop 4) b) =
        panicAny ((Fn.keyArray f (if depth + 1 ≤ 255 then depth + 1 else 255) (hdrLen h) (value.drop 4) 0 (4 * hdrLen h)).map (b ++ ·)))
    (ho : ∀ h, je.ty = C.CONTAINER_TAG → readU32At value 0 = some h → hdrType h = C.OBJECT_CONTAINER_TAG → ∀ b : Bytes,
      panicAny (Tr.object_convert_to_comparable g ((if depth + 1 ≤ 255 then depth + 1 else 255 : Nat) : Int) ((hdrLen h : Nat) : Int) (value.drop 4) b) =
        panicAny ((Fn.keyObject f (if depth + 1 ≤ 255 then depth + 1 else 255) (hdrLen h) (value.drop 4)).map (b ++ ·))) :
    panicAny (Tr.scalar_convert_to_comparable (g + 1) (depth : Int) (ofJE je) value buf) =
      panicAny ((Fn.keyScalar (f + 1) depth je value).map (buf ++ ·)) := by
  rw [Tr.scalar_convert_to_comparable, Fn.keyScalar]
  have hcl : Rs.cast .usize ((je.len : Nat) : Int) = (je.len : Int) := Rs.usize_nat _ (by omega)
  simp only [ofJE, pushByte_nat, jentry_compare_level_agrees, Ctl.ofRes_ok', Ctl.val_bind', tag_eq, hcl, read_u32_zero]
  simp only [decide_eq_true_eq, Int.natCast_inj]
  by_cases hC : je.ty = C.CONTAINER_TAG
  · simp only [if_pos hC]
    cases hh : readU32At value 0 with
    | none => simp only [Rs.resOpt, Ctl.val_bind', Ctl.ret_bind', Ctl.run_ret', Res.map, Res.bind]
    | some h =>
      have h4l := readU32At_some_len _ _ _ hh
      have h4 : ((4 : Nat) : Int) = 4 := rfl
      have hT : h &&& C.CONTAINER_HEADER_TYPE_MASK = hdrType h := rfl
      simp only [Rs.resOpt, Ctl.val_bind', Ctl.pure_eq', Rs.bitand_natCast, Int.natCast_inj, hT, ← h4,
        sliceFrom_nat value 4 (by omega), sliceFrom_model_ok value 4 (by omega), Ctl.ofRes_ok', saturatingAdd_u8 depth hd,
        Fn.incDepth]
      have hL : Rs.cast .usize ((h &&& C.CONTAINER_HEADER_LEN_MASK : Nat) : Int) = ((hdrLen h : Nat) : Int) := by
        have := hdrLen_cast h
        rwa [Rs.bitand_natCast] at this
      rw [hL]
      by_cases h1 : hdrType h = C.ARRAY_CONTAINER_TAG
      · simp only [if_pos h1]
        have := ha h hC hh h1 (buf ++ [UInt8.ofNat depth] ++ [UInt8.ofNat C.ARRAY_LEVEL])
        cases hk : Fn.keyArray f (if depth + 1 ≤ 255 then depth + 1 else 255) (hdrLen h) (value.drop 4) 0 (4 * hdrLen h) with
        | ok k =>
          rw [hk] at this
          rw [panicAny_ok _ _ this]
          simp only [Res.map, Res.bind, Ctl.ofRes_ok', Ctl.val_bind', Ctl.run_ret', List.append_assoc, List.cons_append,
            List.nil_append]
        | err e =>
          rw [hk] at this
          rw [panicAny_err _ _ this]
          simp only [Res.map, Res.bind, Ctl.ofRes_err', Ctl.ret_bind', Ctl.run_ret']
        | panic p =>
          rw [hk] at this
          obtain ⟨p', hp'⟩ := panicAny_panic _ _ this
          rw [hp']
          simp only [Res.map, Res.bind, Ctl.ofRes_panic', Ctl.ret_bind', Ctl.run_ret']
          rfl
        | fuel =>
          rw [hk] at this
          have : Tr.array_convert_to_comparable g ((if depth + 1 ≤ 255 then depth + 1 else 255 : Nat) : Int) ((hdrLen h : Nat) : Int)
              (value.drop 4) (buf ++ [UInt8.ofNat depth] ++ [UInt8.ofNat C.ARRAY_LEVEL]) = .fuel := by
            revert this
            cases Tr.array_convert_to_comparable g ((if depth + 1 ≤ 255 then depth + 1 else 255 : Nat) : Int) ((hdrLen h : Nat) : Int)
              (value.drop 4) (buf ++ [UInt8.ofNat depth] ++ [UInt8.ofNat C.ARRAY_LEVEL]) <;> simp [panicAny, Res.map, Res.bind]
          rw [this]
          rfl
      simp only [if_neg h1]
      by_cases h2 : hdrType h = C.OBJECT_CONTAINER_TAG
      · simp only [if_pos h2]
        have := ho h hC hh h2 (buf ++ [UInt8.ofNat depth] ++ [UInt8.ofNat C.OBJECT_LEVEL])
        cases hk : Fn.keyObject f (if depth + 1 ≤ 255 then depth + 1 else 255) (hdrLen h) (value.drop 4) with
        | ok k =>
          rw [hk] at this
          rw [panicAny_ok _ _ this]
          simp only [Res.map, Res.bind, Ctl.ofRes_ok', Ctl.val_bind', Ctl.run_ret', List.append_assoc, List.cons_append,
            List.nil_append]
        | err e =>
          rw [hk] at this
          rw [panicAny_err _ _ this]
          simp only [Res.map, Res.bind, Ctl.ofRes_err', Ctl.ret_bind', Ctl.run_ret']
        | panic p =>
          rw [hk] at this
          obtain ⟨p', hp'⟩ := panicAny_panic _ _ this
          rw [hp']
          simp only [Res.map, Res.bind, Ctl.ofRes_panic', Ctl.ret_bind', Ctl.run_ret']
          rfl
        | fuel =>
          rw [hk] at this
          have : Tr.object_convert_to_comparable g ((if depth + 1 ≤ 255 then depth + 1 else 255 : Nat) : Int) ((hdrLen h : Nat) : Int)
              (value.drop 4) (buf ++ [UInt8.ofNat depth] ++ [UInt8.ofNat C.OBJECT_LEVEL]) = .fuel := by
            revert this
            cases Tr.object_convert_to_comparable g ((if depth + 1 ≤ 255 then depth + 1 else 255 : Nat) : Int) ((hdrLen h : Nat) : Int)
              (value.drop 4) (buf ++ [UInt8.ofNat depth] ++ [UInt8.ofNat C.OBJECT_LEVEL]) <;> simp [panicAny, Res.map, Res.bind]
          rw [this]
          rfl
      simp only [if_neg h2, Ctl.run_ret', Res.map, Res.bind]
  simp only [if_neg hC]
  by_cases hS : je.ty = C.STRING_TAG
  · simp only [if_pos hS, sliceTo_nat, slice_zero_model]
    by_cases hle : je.len ≤ value.length
    · simp only [if_pos hle, Ctl.ofRes_ok', Ctl.val_bind', Ctl.run_ret', Rs.extendFromSlice, Res.map, Res.bind,
        List.append_assoc]
    · simp only [if_neg hle, Ctl.ofRes_panic', Ctl.ret_bind', Ctl.run_ret', Res.map, Res.bind]
      rfl
  simp only [if_neg hS]
  by_cases hN : je.ty = C.NUMBER_TAG
  · simp only [if_pos hN, sliceTo_nat, slice_zero_model]
    by_cases hle : je.len ≤ value.length
    · simp only [if_pos hle, Ctl.ofRes_ok', Ctl.val_bind']
      rw [decode_agrees _ (by simp; omega)]
      rcases dec_ok_or_err (List.take je.len value) with ⟨n, hn⟩ | ⟨e, hn⟩
      · have hwf := dec_WF _ _ hn
        have hb := asF64_lt n hwf
        have hs : -9223372036854775808 ≤ Rs.cast .i64 (Rs.f64ToBits (Num.asF64 n)) ∧
            Rs.cast .i64 (Rs.f64ToBits (Num.asF64 n)) < 9223372036854775808 := by
          rw [cast_i64_bits _ hb]; split <;> omega
        simp only [hn, Res.map, Res.bind, Rs.resOpt, Ctl.val_bind', as_f64_agrees, Ctl.ofRes_ok', Rs.unwrap,
          shr63_i64 _ hs]
        rw [shr1_mask _ (by split <;> simp)]
        simp only [Ctl.ofRes_ok', Ctl.val_bind', key_xor_bytes _ hb, index_beN8 _ (keyPre_lt _ hb), key_image _ hb,
          Ctl.run_ret', Rs.extendFromSlice, List.append_assoc]
      · simp only [hn, Res.map, Res.bind, Rs.resOpt, Ctl.val_bind', Ctl.run_ret', List.append_assoc]
    · simp only [if_neg hle, Ctl.ofRes_panic', Ctl.ret_bind', Ctl.run_ret', Res.map, Res.bind]
      rfl
  simp only [if_neg hN, Ctl.run_ret', Res.map, Res.bind, List.append_assoc]

end Jsonb.TrAgree
