/-
C12 refinement (headline file): the byte-level `contains` of functions.rs
(`Fn.contains` / `Fn.containsJsonb` and its loops, `Fn.arrayContains`, `Fn.scalarEq`) computes,
on the README layout of good documents, exactly the PostgreSQL `@>` rule set `Spec.contains`
(`Spec.containsJV` and its loops).  Unbounded in size and depth; both fuels are adequate.

Parts 1–3 (ContainsRefine1..3.lean) hold the scalar lemmas, the one-step unfoldings and the
mutual induction against the fuel-free relation `Spec.Cont`; here the results are restated
against the fuel-indexed spec functions, and the document level is added.
-/
import JsonbModel.Proofs.ContainsRefine3

namespace Jsonb
open JV
open Classical

namespace Fn

/-! ### Bool-valued spec functions against the reference relation -/

theorem decide_eq_of_iff {P : Prop} [Decidable P] {b : Bool} (h : b = true ↔ P) : decide P = b := by
  cases b <;> simp_all

theorem containsAll_iff {sf : Nat} (ls rs : List JV) (h : 2 * (Spec.sizeL ls + Spec.sizeL rs) + 3 ≤ sf) :
    Spec.containsAll sf ls rs = true ↔ Spec.ContAll ls rs :=
  ⟨(Spec.contains_sound sf).2.1 ls rs, fun hc => (Spec.contains_complete sf).2.1 ls rs hc h⟩

theorem containsSome_iff {sf : Nat} (ls : List JV) (r : JV) (h : 2 * (Spec.sizeL ls + Spec.sizeJ r) + 1 ≤ sf) :
    Spec.containsSome sf ls r = true ↔ ∃ x ∈ ls, Spec.isScalarJ x = false ∧ Spec.Cont x r :=
  ⟨(Spec.contains_sound sf).2.2.1 ls r, fun hc => (Spec.contains_complete sf).2.2.1 ls r hc h⟩

theorem containsMembers_iff {sf : Nat} (lk rk : List (Bytes × JV))
    (h : 2 * (Spec.sizeK lk + Spec.sizeK rk) + 3 ≤ sf) :
    Spec.containsMembers sf lk rk = true ↔ Spec.ContMem lk rk :=
  ⟨(Spec.contains_sound sf).2.2.2 lk rk, fun hc => (Spec.contains_complete sf).2.2.2 lk rk hc h⟩

/-! ### The recursive walkers -/

/-- **`contains_jsonb` on two containers** (any nesting level): on the complete images of two
good containers, with fuel at least `cost l + cost r` (at most the two image lengths plus 6),
the byte walker returns the nested (`top = false`) containment of the spec, for any adequate
spec fuel.  No error, no panic, no fuel exhaustion. -/
theorem containsJsonb_refines (l r : JV) (hl : goodTop l = true) (hr : goodTop r = true)
    (hsl : Spec.isScalarJ l = false) (hsr : Spec.isScalarJ r = false)
    (fuel : Nat) (hf : cost l + cost r ≤ fuel)
    (sf : Nat) (hsf : 2 * (Spec.sizeJ l + Spec.sizeJ r) ≤ sf) :
    containsJsonb fuel (encodeSpec l) (encodeSpec r) = .ok (Spec.containsJV sf false l r) := by
  rw [(main_all fuel).1 l r hl hr hsl hsr hf]
  congr 1
  exact decide_eq_of_iff ((Spec.containsJV_iff hsf).trans (Spec.TopCont_false l r))

/-- on two containers the `top` flag is irrelevant: the scalar-in-array special case needs a
scalar on the right -/
theorem containsJV_top_irrel (sf : Nat) (l r : JV) (hsr : Spec.isScalarJ r = false) :
    Spec.containsJV sf true l r = Spec.containsJV sf false l r := by
  cases sf with
  | zero => rfl
  | succ n => cases l <;> cases r <;> simp_all [Spec.containsJV, Spec.isScalarJ]

/-- **the loop over the right array's elements** (`contains_items`): every right element is
matched — a scalar by an equal left element, a container by a left container containing it. -/
theorem containsItems_refines (left : Bytes) (lh : Nat) (ls rs : List JV)
    (hl : goodL ls = true) (hr : goodL rs = true)
    (fuel : Nat) (hf : costL ls + costL rs ≤ fuel)
    (sf : Nat) (hsf : 2 * (Spec.sizeL ls + Spec.sizeL rs) + 3 ≤ sf) :
    containsItems fuel left lh (ls.map itemOf) (rs.map itemOf) = .ok (Spec.containsAll sf ls rs) := by
  rw [(main_all fuel).2.1 left lh ls rs hl hr hf]
  congr 1
  exact decide_eq_of_iff (containsAll_iff ls rs hsf)

/-- **the search among the left array's nested containers** (`for l_nested_val in l_nested`),
called exactly as `contains_items` calls it: on the container-typed items of the left array. -/
theorem containsNested_refines (ls : List JV) (r : JV) (hl : goodL ls = true) (hr : good r = true)
    (hsr : Spec.isScalarJ r = false)
    (fuel : Nat) (hf : costL ls + cost r ≤ fuel)
    (sf : Nat) (hsf : 2 * (Spec.sizeL ls + Spec.sizeJ r) + 1 ≤ sf) :
    containsNested fuel ((ls.map itemOf).filter (fun it => it.1.ty == C.CONTAINER_TAG)) (entry r).2
      = .ok (Spec.containsSome sf ls r) := by
  rw [filter_items, encodeSpec_container r hsr,
    (main_all fuel).2.2.1 (ls.filter (fun x => !Spec.isScalarJ x)) r (goodL_filter _ ls hl)
      (by intro x hx; simpa using (List.mem_filter.1 hx).2) hr hsr
      (by have := costL_filter (fun x => !Spec.isScalarJ x) ls; omega)]
  congr 1
  refine decide_eq_of_iff ((containsSome_iff ls r hsf).trans ?_)
  simp [List.mem_filter, and_assoc]

/-- **the loop over the right object's members** (`contains_members`): every right member is
found under its key in the left object document (binary layout lookup `get_jentry_by_name`),
with the same kind, scalars equal and containers contained. -/
theorem containsMembers_refines (lk rk : List (Bytes × JV)) (hn : lk.length < 536870912)
    (hl : goodK lk = true) (hr : goodK rk = true)
    (fuel : Nat) (hf : cost (obj lk) + costK rk ≤ fuel)
    (sf : Nat) (hsf : 2 * (Spec.sizeK lk + Spec.sizeK rk) + 3 ≤ sf) :
    containsMembers fuel (encodeSpec (obj lk)) (C.OBJECT_CONTAINER_TAG + lk.length) (rk.map memberOf)
      = .ok (Spec.containsMembers sf lk rk) := by
  rw [(main_all fuel).2.2.2 lk rk hn hl hr hf]
  congr 1
  exact decide_eq_of_iff (containsMembers_iff lk rk hsf)

/-- **`array_contains`**: a good array document holds a good scalar iff some element is equal to
it as a JSON value (type codes equal and `scalar_eq`). -/
theorem arrayContains_refines (ls : List JV) (r : JV) (hn : ls.length < 536870912)
    (hl : goodL ls = true) (hr : good r = true) (hsr : Spec.isScalarJ r = true) :
    arrayContains (encodeSpec (arr ls)) (C.ARRAY_CONTAINER_TAG + ls.length) (entry r).2 (ety r)
      = .ok (ls.any (fun x => Spec.valEq x r)) := by
  simp only [arrayContains, iterArray_doc ls hn hl, Res.map, Res.bind, any_items ls hl r hr hsr]

/-! ### The document level -/

/-- the fuel `contains` starts with is adequate for two container documents -/
theorem cost_le_doc (v : JV) (hs : Spec.isScalarJ v = false) : cost v ≤ (encodeSpec v).length + 3 := by
  have := cost_le v
  rw [← encodeSpec_container v hs]
  exact this

theorem readJe_scalar (v : JV) (hg : good v = true) (hs : Spec.isScalarJ v = true) :
    readJe (encodeSpec v) 4 = .ok ⟨ety v, elen v, (entry v).1⟩ := by
  have hl := elen_lt_of_good v hg
  rw [readJe_eq (encodeSpec v) (u32be C.SCALAR_CONTAINER_TAG) (entry v).1 (entry v).2 4
    (encodeSpec_scalar v hs) (by simp) (entry_lt v hl), JE_ofWord_entry v hl]

theorem sliceFrom_scalar (v : JV) (hs : Spec.isScalarJ v = true) :
    sliceFrom (encodeSpec v) 8 = .ok (entry v).2 :=
  sliceFrom_eq (encodeSpec v) (u32be C.SCALAR_CONTAINER_TAG ++ u32be (entry v).1) (entry v).2 8
    (by rw [encodeSpec_scalar v hs]; simp) (by simp)

theorem hdr_scalarJ (v : JV) (hs : Spec.isScalarJ v = true) :
    readU32At (encodeSpec v) 0 = some C.SCALAR_CONTAINER_TAG := by
  rw [encodeSpec_scalar v hs]; exact readU32At_zero _ _ sca_lt

/-- header word of any good document: its kind -/
theorem hdr_container (v : JV) (hg : goodTop v = true) (hs : Spec.isScalarJ v = false) :
    ∃ h, readU32At (encodeSpec v) 0 = some h ∧
      (hdrType h = C.ARRAY_CONTAINER_TAG ∨ hdrType h = C.OBJECT_CONTAINER_TAG) := by
  rcases container_cases v hs with ⟨vs, rfl⟩ | ⟨kvs, rfl⟩
  · have ⟨hn, _⟩ := goodTop_arr hg
    exact ⟨_, hdr_arr vs hn, .inl (hdrType_arr _ hn)⟩
  · have ⟨hn, _⟩ := goodTop_obj hg
    exact ⟨_, hdr_obj kvs hn, .inr (hdrType_obj _ hn)⟩

/-- top-level array against a bare scalar: `array_contains` -/
theorem containsJsonb_arr_scalar (f : Nat) (ls : List JV) (r : JV) (hn : ls.length < 536870912)
    (hr : good r = true) (hsr : Spec.isScalarJ r = true) :
    containsJsonb (f + 1) (encodeSpec (arr ls)) (encodeSpec r)
      = arrayContains (encodeSpec (arr ls)) (C.ARRAY_CONTAINER_TAG + ls.length) (entry r).2 (ety r) := by
  rw [containsJsonb, hdr_arr ls hn, hdr_scalarJ r hsr]
  simp only [hdrType_arr _ hn, hdrType_sca]
  rw [if_pos ⟨trivial, trivial⟩, readJe_scalar r hr hsr, sliceFrom_scalar r hsr]

/-- documents of different kinds (other than array ⊇ scalar): `false` -/
theorem containsJsonb_kind_ne (f : Nat) (left right : Bytes) (lh rh : Nat)
    (hl : readU32At left 0 = some lh) (hr : readU32At right 0 = some rh)
    (h1 : ¬ (hdrType lh = C.ARRAY_CONTAINER_TAG ∧ hdrType rh = C.SCALAR_CONTAINER_TAG))
    (h2 : hdrType lh ≠ hdrType rh) :
    containsJsonb (f + 1) left right = .ok false := by
  rw [containsJsonb, hl, hr]
  simp only []
  rw [if_neg h1, if_pos h2]

/-- two scalar documents: same entry type code and `scalar_eq` -/
theorem containsJsonb_scalar_scalar (f : Nat) (l r : JV) (hl : good l = true) (hr : good r = true)
    (hsl : Spec.isScalarJ l = true) (hsr : Spec.isScalarJ r = true) :
    containsJsonb (f + 1) (encodeSpec l) (encodeSpec r)
      = .ok (ety l == ety r && scalarEq (ety l) (entry l).2 (entry r).2) := by
  rw [containsJsonb, hdr_scalarJ l hsl, hdr_scalarJ r hsr]
  simp only [hdrType_sca]
  rw [if_neg (by decide), if_neg (by simp), if_neg (by decide), if_neg (by decide),
    readJe_scalar l hl hsl, readJe_scalar r hr hsr, sliceFrom_scalar l hsl, sliceFrom_scalar r hsr]

/-- **`contains_jsonb` on two complete documents** (the entry point, `top = true`): any two good
documents — scalars, arrays or objects at the root — with the fuel `contains` supplies or more. -/
theorem containsJsonb_doc_refines (a b : JV) (ha : goodTop a = true) (hb : goodTop b = true)
    (fuel : Nat) (hf : (encodeSpec a).length + (encodeSpec b).length + 6 ≤ fuel) :
    containsJsonb fuel (encodeSpec a) (encodeSpec b) = .ok (Spec.contains a b) := by
  obtain ⟨f, rfl⟩ : ∃ f, fuel = f + 1 := ⟨fuel - 1, by omega⟩
  cases hsb : Spec.isScalarJ b with
  | false =>
    cases hsa : Spec.isScalarJ a with
    | false =>
      have h1 := cost_le_doc a hsa
      have h2 := cost_le_doc b hsb
      rw [(main_all (f + 1)).1 a b ha hb hsa hsb (by omega)]
      congr 1
      exact decide_eq_of_iff (Spec.contains_iff_Cont_of_container hsb)
    | true =>
      obtain ⟨h, hh, ht⟩ := hdr_container b hb hsb
      rw [containsJsonb_kind_ne f _ _ _ _ (hdr_scalarJ a hsa) hh
        (by rw [hdrType_sca]; intro hc; exact absurd hc.1 (by decide))
        (by rw [hdrType_sca]; rcases ht with ht | ht <;> rw [ht] <;> decide)]
      congr 1
      symm
      rw [Bool.eq_false_iff]
      intro hc
      have hC := (Spec.contains_iff_Cont_of_container hsb).1 hc
      have := Spec.Cont_isScalarJ hC
      rw [hsa, hsb] at this; cases this
  | true =>
    have hgb := goodTop_scalar b hsb hb
    have hspec := Spec.contains_scalar_right a hsb
    cases hsa : Spec.isScalarJ a with
    | true =>
      have hga := goodTop_scalar a hsa ha
      rw [containsJsonb_scalar_scalar f a b hga hgb hsa hsb]
      have := itemTest_refines a b hga hgb hsb
      simp only [itemOf] at this
      rw [this]
      congr 1
      rw [Bool.eq_iff_iff, hspec]
      constructor
      · intro h; exact .inl ⟨hsa, h⟩
      · rintro (h | ⟨ls, rfl, _⟩)
        · exact h.2
        · simp [Spec.isScalarJ] at hsa
    | false =>
      rcases container_cases a hsa with ⟨ls, rfl⟩ | ⟨lk, rfl⟩
      · have ⟨hn, hgl⟩ := goodTop_arr ha
        rw [containsJsonb_arr_scalar f ls b hn hgb hsb, arrayContains_refines ls b hn hgl hgb hsb]
        congr 1
        rw [Bool.eq_iff_iff, hspec, List.any_eq_true]
        constructor
        · intro h; exact .inr ⟨ls, rfl, h⟩
        · rintro (h | ⟨ls', e, h⟩)
          · simp [Spec.isScalarJ] at h
          · cases e; exact h
      · have ⟨hn, _⟩ := goodTop_obj ha
        rw [containsJsonb_kind_ne f _ _ _ _ (hdr_obj lk hn) (hdr_scalarJ b hsb)
          (by rw [hdrType_obj _ hn]; intro hc; exact absurd hc.1 (by decide))
          (by rw [hdrType_obj _ hn, hdrType_sca]; decide)]
        congr 1
        symm
        rw [Bool.eq_false_iff]
        intro hc
        rcases hspec.1 hc with h | ⟨ls, e, _⟩
        · simp [Spec.isScalarJ] at h
        · cases e

/-- **C12, byte level — `contains` refines the PostgreSQL `@>` rule set.**  For any two good
documents `a`, `b` (arbitrary size and nesting depth; scalar, array or object roots), the
byte-level `contains` on their README encodings returns exactly `Spec.contains a b`: it never
fails, panics or exhausts its fuel `2 * (|left| + |right|) + 8`, and no error is silently
converted to `false`. -/
theorem contains_refines (a b : JV) (ha : goodTop a = true) (hb : goodTop b = true) :
    contains (encodeSpec a) (encodeSpec b) = .ok (Spec.contains a b) := by
  unfold contains
  rw [containsJsonb_doc_refines a b ha hb _ (by omega)]

/-- the underlying `contains_jsonb` never takes the error path on good documents, so the
`Err → false` conversion of `contains` is not exercised -/
theorem containsJsonb_no_error (a b : JV) (ha : goodTop a = true) (hb : goodTop b = true) :
    containsJsonb (2 * ((encodeSpec a).length + (encodeSpec b).length) + 8) (encodeSpec a) (encodeSpec b)
      = .ok (Spec.contains a b) :=
  containsJsonb_doc_refines a b ha hb _ (by omega)

/-- consequences at the byte level: reflexive on good documents … -/
theorem contains_bytes_refl (a : JV) (ha : good a = true) :
    contains (encodeSpec a) (encodeSpec a) = .ok true := by
  rw [contains_refines a a (goodTop_of_good' a ha) (goodTop_of_good' a ha),
    Spec.contains_refl_of_good a ha]

/-! ### Non-vacuity (kernel-checked) -/

/-- nested arrays / objects, mixed number encodings, order and multiplicity ignored -/
example :
    let a := arr [num (.uint 1), str [0x61], arr [num (.int 2), null],
                  obj [([0x6b], arr [JV.bool true, num (.float 0x3ff0000000000000)]), ([0x6c], null)]]
    let b := arr [obj [([0x6b], arr [num (.uint 1)])], arr [null], str [0x61], str [0x61]]
    (goodTop a && goodTop b
      && (contains (encodeSpec a) (encodeSpec b) == .ok true) && Spec.contains a b
      && (contains (encodeSpec b) (encodeSpec a) == .ok false) && !Spec.contains b a) = true := by
  decide +kernel

/-- the scalar-in-array special case is top-level only; kinds must match under a key -/
example :
    let a := arr [arr [num (.uint 1)]]
    let o := obj [([0x6b], arr [num (.uint 1)])]
    ((contains (encodeSpec a) (encodeSpec (num (.uint 1))) == .ok false)
      && !Spec.contains a (num (.uint 1))
      && (contains (encodeSpec (arr [num (.uint 1)])) (encodeSpec (num (.int 1))) == .ok true)
      && Spec.contains (arr [num (.uint 1)]) (num (.int 1))
      && (contains (encodeSpec o) (encodeSpec (obj [([0x6b], num (.uint 1))])) == .ok false)
      && !Spec.contains o (obj [([0x6b], num (.uint 1))])
      && (contains (encodeSpec o) (encodeSpec (obj [])) == .ok true) && Spec.contains o (obj [])) = true := by
  decide +kernel

end Fn
end Jsonb
