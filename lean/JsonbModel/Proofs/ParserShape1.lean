/-
The shape of the ASTs built by `parse_json_path` (model: `parseJsonPath`), part 1:
* `Out P p` : every successful result of the nom parser `p` satisfies `P`, with one lemma per
  combinator of `Nom.lean`;
* `parserShape : JsonPath → Bool` (with `shapeExpr`, `shapeStep`, … mutual over `Path`/`Expr`):
  a decidable description of what the grammar of `jsonpath/parser.rs` can build;
* `parseJsonPath_shape : parseJsonPath bs = .ok jp → parserShape jp = true`.
The recursion knot of the grammar is `expr_or`; the proof is an induction on its fuel.
No Mathlib.
-/
import JsonbModel.PathParser

namespace Jsonb
set_option autoImplicit false
namespace PShape
open Nom PathParser

/-! ### `Out P p`: a postcondition on the value returned by a parser -/

/-- every successful result of `p` satisfies `P` -/
def Out {α} (P : α → Prop) (p : Parser α) : Prop := ∀ i a t, p i = .ok a t → P a

theorem bind_ok {α β} {r : PR α} {f : α → Bytes → PR β} {b : β} {t : Bytes}
    (h : r.bind f = .ok b t) : ∃ a u, r = .ok a u ∧ f a u = .ok b t := by
  cases r with
  | ok a u => exact ⟨a, u, rfl, h⟩
  | error => simp [PR.bind] at h
  | failure => simp [PR.bind] at h
  | panic s => simp [PR.bind] at h
  | fuel => simp [PR.bind] at h

theorem out_true {α} (p : Parser α) : Out (fun _ => True) p := fun _ _ _ _ => trivial

theorem out_mono {α} {P Q : α → Prop} {p : Parser α} (hp : Out P p) (h : ∀ a, P a → Q a) :
    Out Q p := fun i a t e => h a (hp i a t e)

theorem out_map {α β} {P : α → Prop} {Q : β → Prop} {p : Parser α} {f : α → β}
    (hp : Out P p) (hf : ∀ a, P a → Q (f a)) : Out Q (map p f) := by
  intro i b t h
  unfold map at h
  obtain ⟨a, u, h1, h2⟩ := bind_ok h
  simp only [PR.ok.injEq] at h2
  rw [← h2.1]; exact hf a (hp i a u h1)

theorem out_value {α β} {Q : β → Prop} {p : Parser α} {v : β} (hv : Q v) : Out Q (value v p) := by
  intro i b t h
  unfold value at h
  obtain ⟨a, u, _, h2⟩ := bind_ok h
  simp only [PR.ok.injEq] at h2
  rw [← h2.1]; exact hv

theorem out_pair {α β} {P : α → Prop} {Q : β → Prop} {p : Parser α} {q : Parser β}
    (hp : Out P p) (hq : Out Q q) : Out (fun x => P x.1 ∧ Q x.2) (pair p q) := by
  intro i x t h
  unfold pair at h
  obtain ⟨a, u, h1, h2⟩ := bind_ok h
  obtain ⟨b, w, h3, h4⟩ := bind_ok h2
  simp only [PR.ok.injEq] at h4
  rw [← h4.1]; exact ⟨hp i a u h1, hq u b w h3⟩

theorem out_preceded {α β} {Q : β → Prop} {p : Parser α} {q : Parser β} (hq : Out Q q) :
    Out Q (preceded p q) := by
  intro i b t h
  unfold preceded at h
  obtain ⟨a, u, _, h2⟩ := bind_ok h
  exact hq u b t h2

theorem out_terminated {α β} {P : α → Prop} {p : Parser α} {q : Parser β} (hp : Out P p) :
    Out P (terminated p q) := by
  intro i a t h
  unfold terminated at h
  obtain ⟨a', u, h1, h2⟩ := bind_ok h
  obtain ⟨b, w, _, h4⟩ := bind_ok h2
  simp only [PR.ok.injEq] at h4
  rw [← h4.1]; exact hp i a' u h1

theorem out_delimited {α β γ} {Q : β → Prop} {p : Parser α} {q : Parser β} {s : Parser γ}
    (hq : Out Q q) : Out Q (delimited p q s) := by
  intro i b t h
  unfold delimited at h
  obtain ⟨a, u, _, h2⟩ := bind_ok h
  obtain ⟨b', w, h3, h4⟩ := bind_ok h2
  obtain ⟨c, x, _, h6⟩ := bind_ok h4
  simp only [PR.ok.injEq] at h6
  rw [← h6.1]; exact hq u b' w h3

theorem out_tuple3 {α β γ} {P : α → Prop} {Q : β → Prop} {R : γ → Prop}
    {p : Parser α} {q : Parser β} {s : Parser γ} (hp : Out P p) (hq : Out Q q) (hs : Out R s) :
    Out (fun x => P x.1 ∧ Q x.2.1 ∧ R x.2.2) (tuple3 p q s) := by
  intro i x t h
  unfold tuple3 at h
  obtain ⟨a, u, h1, h2⟩ := bind_ok h
  obtain ⟨b, w, h3, h4⟩ := bind_ok h2
  obtain ⟨c, y, h5, h6⟩ := bind_ok h4
  simp only [PR.ok.injEq] at h6
  rw [← h6.1]; exact ⟨hp i a u h1, hq u b w h3, hs w c y h5⟩

theorem out_alt {α} {P : α → Prop} {p q : Parser α} (hp : Out P p) (hq : Out P q) :
    Out P (alt p q) := by
  intro i a t h
  unfold alt at h
  split at h
  · exact hq i a t h
  · exact hp i a t h

theorem out_opt {α} {P : α → Prop} {p : Parser α} (hp : Out P p) :
    Out (fun o => ∀ a, o = some a → P a) (opt p) := by
  intro i o t h
  unfold opt at h
  split at h
  · rename_i a r e
    simp only [PR.ok.injEq] at h
    intro a' ha'; rw [← h.1] at ha'; cases ha'; exact hp i a r e
  · simp only [PR.ok.injEq] at h
    intro a' ha'; rw [← h.1] at ha'; cases ha'
  · cases h
  · cases h
  · cases h

theorem out_cond {α} {P : α → Prop} {p : Parser α} {b : Bool} (hp : Out P p) :
    Out (fun o => ∀ a, o = some a → b = true ∧ P a) (Nom.cond b p) := by
  intro i o t h
  unfold Nom.cond at h
  split at h
  · rename_i hb
    obtain ⟨a, u, h1, h2⟩ := bind_ok h
    simp only [PR.ok.injEq] at h2
    intro a' ha'; rw [← h2.1] at ha'; cases ha'; exact ⟨hb, hp i a u h1⟩
  · simp only [PR.ok.injEq] at h
    intro a' ha'; rw [← h.1] at ha'; cases ha'

theorem out_mapRes {α β} {P : α → Prop} {Q : β → Prop} {p : Parser α} {f : α → Option β}
    (hp : Out P p) (hf : ∀ a b, P a → f a = some b → Q b) : Out Q (mapRes p f) := by
  intro i b t h
  unfold mapRes at h
  obtain ⟨a, u, h1, h2⟩ := bind_ok h
  split at h2
  · rename_i b' hb'
    simp only [PR.ok.injEq] at h2
    rw [← h2.1]; exact hf a b' (hp i a u h1) hb'
  · cases h2

theorem many0Loop_out {α} {P : α → Prop} {p : Parser α} (hp : Out P p) (n : Nat) :
    ∀ (i : Bytes) (acc l : List α) (t : Bytes), (∀ x ∈ acc, P x) →
      many0Loop p n i acc = .ok l t → ∀ x ∈ l, P x := by
  induction n with
  | zero => intro i acc l t _ h; simp [many0Loop] at h
  | succ n ih =>
    intro i acc l t hacc h
    unfold many0Loop at h
    split at h
    · simp only [PR.ok.injEq] at h
      intro x hx; rw [← h.1] at hx; exact hacc x (List.mem_reverse.mp hx)
    · rename_i o i1 e
      split at h
      · cases h
      · refine ih i1 (o :: acc) l t ?_ h
        intro x hx
        rcases List.mem_cons.mp hx with rfl | hx
        · exact hp i x i1 e
        · exact hacc x hx
    · cases h
    · cases h
    · cases h

theorem out_many0 {α} {P : α → Prop} {p : Parser α} (hp : Out P p) :
    Out (fun l => ∀ x ∈ l, P x) (many0 p) := by
  intro i l t h
  unfold many0 at h
  exact many0Loop_out hp _ i [] l t (by simp) h

theorem sepList1Loop_out {α β} {P : α → Prop} {sep : Parser β} {p : Parser α} (hp : Out P p)
    (n : Nat) : ∀ (i : Bytes) (acc l : List α) (t : Bytes), (∀ x ∈ acc, P x) → acc ≠ [] →
      sepList1Loop sep p n i acc = .ok l t → (∀ x ∈ l, P x) ∧ l ≠ [] := by
  induction n with
  | zero => intro i acc l t _ _ h; simp [sepList1Loop] at h
  | succ n ih =>
    intro i acc l t hacc hne h
    have hrev : ∀ l' t', PR.ok acc.reverse i = PR.ok l' t' → (∀ x ∈ l', P x) ∧ l' ≠ [] := by
      intro l' t' h'
      simp only [PR.ok.injEq] at h'
      rw [← h'.1]
      exact ⟨fun x hx => hacc x (List.mem_reverse.mp hx), by simpa using hne⟩
    unfold sepList1Loop at h
    split at h
    · exact hrev l t h
    · rename_i x i1 e
      split at h
      · cases h
      · split at h
        · exact hrev l t h
        · rename_i o i2 e2
          refine ih i2 (o :: acc) l t ?_ (by simp) h
          intro y hy
          rcases List.mem_cons.mp hy with rfl | hy
          · exact hp i1 y i2 e2
          · exact hacc y hy
        · cases h
        · cases h
        · cases h
    · cases h
    · cases h
    · cases h

theorem out_separatedList1 {α β} {P : α → Prop} {sep : Parser β} {p : Parser α} (hp : Out P p) :
    Out (fun l => (∀ x ∈ l, P x) ∧ l ≠ []) (separatedList1 sep p) := by
  intro i l t h
  unfold separatedList1 at h
  obtain ⟨o, i1, h1, h2⟩ := bind_ok h
  refine sepList1Loop_out hp _ i1 [o] l t ?_ (by simp) h2
  intro x hx
  rw [List.mem_singleton] at hx
  rw [hx]; exact hp i o i1 h1

/-! ### the shape predicates -/

/-- what `inner_path` builds: a wildcard, a name step, or a non-empty index list -/
def isInner : Path → Bool
  | .dotWildcard | .bracketWildcard | .dotField _ | .colonField _ | .objectField _ => true
  | .arrayIndices is => !is.isEmpty
  | _ => false

/-- `$` or `@` -/
def isHead : Path → Bool
  | .root | .current => true
  | _ => false

/-- what `expr_paths(root_predicate)` builds: `$` (or `@`, unless in a root predicate), then
`inner_path`s only — no filter inside a comparison operand -/
def shapeOperandPaths (rp : Bool) : List Path → Bool
  | .root :: ps => ps.all isInner
  | .current :: ps => !rp && ps.all isInner
  | _ => false

/-- what `inner_expr(root_predicate)` builds: a literal or an operand path -/
def shapeOperand (rp : Bool) : Expr → Bool
  | .value _ => true
  | .paths ps => shapeOperandPaths rp ps
  | _ => false

mutual
/-- what `expr_or(root_predicate)` builds: `&&`/`||` trees (parentheses leave no trace) whose
leaves are a comparison of two operands, a binary or unary arithmetic expression of operands,
or `exists(…)`.  Never a bare operand, never arithmetic inside a comparison or inside
arithmetic, never a comparison inside arithmetic. -/
def shapeExpr (rp : Bool) : Expr → Bool
  | .binaryOp op l r =>
    match op with
    | .and | .or => shapeExpr rp l && shapeExpr rp r
    | _ => shapeOperand rp l && shapeOperand rp r
  | .arithBinary _ l r => shapeOperand rp l && shapeOperand rp r
  | .arithUnary _ e => shapeOperand rp e
  | .existsFn ps => shapeExists ps
  | _ => false
/-- what `exists_paths` builds: `$` or `@` (also in a root predicate), then `path`s -/
def shapeExists : List Path → Bool
  | [] => false
  | p :: ps => isHead p && shapeSteps ps
/-- what `many0(path)` builds -/
def shapeSteps : List Path → Bool
  | [] => true
  | p :: ps => shapeStep p && shapeSteps ps
/-- what `path` builds: an `inner_path` or a filter `?(expr_or(false))` -/
def shapeStep : Path → Bool
  | .filterExpr e => shapeExpr false e
  | p => isInner p
end

/-- **what `json_path` builds**: a single root predicate `[Predicate(expr_or(true))]`, or an
optional `$` / leading bare name followed by steps and filters.  `Path::Current`,
`Path::Predicate` and `Path::ArithmeticExpr` never occur as a step. -/
def parserShape (jp : JsonPath) : Bool :=
  match jp with
  | [.predicate e] => shapeExpr true e
  | .root :: ps => shapeSteps ps
  | ps => shapeSteps ps

theorem shapeSteps_of_forall : ∀ (ps : List Path), (∀ p ∈ ps, shapeStep p = true) → shapeSteps ps = true
  | [], _ => by simp [shapeSteps]
  | p :: ps, h => by
    simp only [shapeSteps, Bool.and_eq_true]
    exact ⟨h p (by simp), shapeSteps_of_forall ps (fun q hq => h q (by simp [hq]))⟩

/-! ### the parsers -/

theorem out_arrayIndices : Out (fun l => l ≠ []) arrayIndices := by
  unfold arrayIndices
  exact out_delimited (out_mono (out_separatedList1 (out_true _)) (fun _ h => h.2))

theorem out_innerPath : Out (fun p => isInner p = true) innerPath := by
  unfold innerPath
  refine out_alt (out_value rfl) (out_alt (out_value rfl) (out_alt (out_map (out_true _) (fun _ _ => rfl))
    (out_alt (out_map (out_true _) (fun _ _ => rfl)) (out_alt (out_map out_arrayIndices ?_)
      (out_map (out_true _) (fun _ _ => rfl))))))
  intro l hl
  cases l with
  | nil => exact absurd rfl hl
  | cons a l => rfl

theorem out_exprPaths (rp : Bool) : Out (fun ps => shapeOperandPaths rp ps = true) (exprPaths rp) := by
  have hcur : Out (fun p => p = Path.current ∧ rp = false)
      (mapRes (Nom.cond (!rp) (value Path.current (char 64))) id) := by
    refine out_mapRes (out_cond (out_value (Q := fun p => p = Path.current) rfl)) ?_
    intro o b ho hb
    have := ho b hb
    exact ⟨this.2, by simpa using this.1⟩
  have hhead : Out (fun p => p = Path.root ∨ (p = Path.current ∧ rp = false))
      (alt (value Path.root (char 36)) (mapRes (Nom.cond (!rp) (value Path.current (char 64))) id)) :=
    out_alt (out_value (Or.inl rfl)) (out_mono hcur (fun _ => Or.inr))
  show Out _ (map (pair (alt (value Path.root (char 36))
      (mapRes (Nom.cond (!rp) (value Path.current (char 64))) id))
    (many0 (delimited ws innerPath ws))) (fun pp => pp.1 :: pp.2))
  refine out_map (out_pair hhead (out_many0 (out_delimited out_innerPath))) ?_
  intro pp h
  obtain ⟨h1, h2⟩ := h
  have hall : pp.2.all isInner = true := List.all_eq_true.mpr h2
  rcases h1 with h1 | ⟨h1, hrp⟩
  · rw [h1]; simp only [shapeOperandPaths]; exact hall
  · rw [h1, hrp]; simp only [shapeOperandPaths]; simpa using hall

theorem out_innerExpr (rp : Bool) : Out (fun e => shapeOperand rp e = true) (innerExpr rp) := by
  unfold innerExpr
  exact out_alt (out_map (out_exprPaths rp) (fun ps h => by simpa only [shapeOperand] using h))
    (out_map (out_true _) (fun _ _ => rfl))

theorem out_op : Out (fun o => o ≠ BinOp.and ∧ o ≠ BinOp.or) op := by
  unfold op
  exact out_alt (out_value (by decide)) (out_alt (out_value (by decide)) (out_alt (out_value (by decide))
    (out_alt (out_value (by decide)) (out_alt (out_value (by decide))
      (out_alt (out_value (by decide)) (out_value (by decide)))))))

theorem foldl_shape (rp : Bool) (o : BinOp) (ho : o = .and ∨ o = .or) :
    ∀ (es : List Expr) (e : Expr), shapeExpr rp e = true → (∀ x ∈ es, shapeExpr rp x = true) →
      shapeExpr rp (es.foldl (fun acc r => Expr.binaryOp o acc r) e) = true
  | [], e, he, _ => he
  | x :: es, e, he, hes => by
    simp only [List.foldl_cons]
    refine foldl_shape rp o ho es _ ?_ (fun y hy => hes y (by simp [hy]))
    have hx := hes x (by simp)
    rcases ho with rfl | rfl <;> simp only [shapeExpr, Bool.and_eq_true] <;> exact ⟨he, hx⟩

theorem foldBin_shape (rp : Bool) (o : BinOp) (ho : o = .and ∨ o = .or) (l : List Expr)
    (hl : ∀ x ∈ l, shapeExpr rp x = true) (u : Bytes) (e : Expr) (t : Bytes)
    (h : foldBin o l u = .ok e t) : shapeExpr rp e = true := by
  cases l with
  | nil => simp [foldBin] at h
  | cons a es =>
    simp only [foldBin, PR.ok.injEq] at h
    rw [← h.1]
    exact foldl_shape rp o ho es a
      (hl a (by simp)) (fun x hx => hl x (by simp [hx]))

section knot
variable {eo : Bool → Parser Expr} (heo : ∀ rp, Out (fun e => shapeExpr rp e = true) (eo rp))
include heo

theorem out_filterExpr : Out (fun e => shapeExpr false e = true) (filterExpr eo) := by
  unfold filterExpr
  exact out_delimited (out_delimited (heo false))

theorem out_path : Out (fun p => shapeStep p = true) (path eo) := by
  unfold path
  refine out_alt (out_delimited (out_mono out_innerPath ?_))
    (out_map (out_delimited (out_filterExpr heo)) (fun e h => by simpa only [shapeStep] using h))
  intro p hp
  cases p <;> first | exact hp | (simp [isInner] at hp)

theorem out_manyPath : Out (fun ps => shapeSteps ps = true) (many0 (path eo)) :=
  out_mono (out_many0 (out_path heo)) shapeSteps_of_forall

theorem out_existsPaths : Out (fun ps => shapeExists ps = true) (existsPaths eo) := by
  unfold existsPaths
  refine out_map (out_pair (P := fun p => isHead p = true)
    (out_alt (out_value rfl) (out_value rfl)) (out_manyPath heo)) ?_
  intro pp h
  simp only [shapeExists, Bool.and_eq_true]
  exact h

theorem out_existsFn : Out (fun ps => shapeExists ps = true) (existsFn eo) := by
  unfold existsFn
  exact out_preceded (out_preceded (out_delimited (out_existsPaths heo)))

theorem out_exprAtom (rp : Bool) : Out (fun e => shapeExpr rp e = true) (exprAtom eo rp) := by
  unfold exprAtom
  refine out_alt ?_ (out_alt ?_ (out_alt ?_ (out_alt (out_delimited (heo rp)) ?_)))
  · refine out_map (out_tuple3 (out_delimited (out_innerExpr rp)) (out_true _)
      (out_delimited (out_innerExpr rp))) ?_
    intro t h
    simp only [shapeExpr, Bool.and_eq_true]
    exact ⟨h.1, h.2.2⟩
  · refine out_map (out_tuple3 (out_delimited (out_innerExpr rp)) out_op
      (out_delimited (out_innerExpr rp))) ?_
    intro t h
    obtain ⟨h1, ⟨hna, hno⟩, h3⟩ := h
    generalize t.2.1 = o at hna hno
    cases o <;> first
      | exact absurd rfl hna
      | exact absurd rfl hno
      | (simp only [shapeExpr, Bool.and_eq_true]; exact ⟨h1, h3⟩)
  · refine out_map (out_pair (out_true _) (out_delimited (out_innerExpr rp))) ?_
    intro t h
    simp only [shapeExpr]
    exact h.2
  · exact out_map (out_existsFn heo) (fun ps h => by simpa only [shapeExpr] using h)

theorem out_exprAnd (rp : Bool) : Out (fun e => shapeExpr rp e = true) (exprAnd eo rp) := by
  intro i e t h
  unfold exprAnd at h
  obtain ⟨l, u, h1, h2⟩ := bind_ok h
  have hl := out_separatedList1 (sep := delimited ws (tag [38, 38]) ws) (out_exprAtom heo rp) i l u h1
  exact foldBin_shape rp _ (Or.inl rfl) l hl.1 u e t h2

theorem out_exprOrStep (rp : Bool) : Out (fun e => shapeExpr rp e = true) (exprOrStep eo rp) := by
  intro i e t h
  unfold exprOrStep at h
  obtain ⟨l, u, h1, h2⟩ := bind_ok h
  have hl := out_separatedList1 (sep := delimited ws (tag [124, 124]) ws) (out_exprAnd heo rp) i l u h1
  exact foldBin_shape rp _ (Or.inr rfl) l hl.1 u e t h2

end knot

/-- `expr_or(root_predicate)` only builds `shapeExpr root_predicate` expressions, at every fuel -/
theorem out_exprOr : ∀ (n : Nat) (rp : Bool), Out (fun e => shapeExpr rp e = true) (exprOr n rp)
  | 0, _ => by intro i e t h; simp [exprOr] at h
  | n + 1, rp => by
    show Out _ (exprOrStep (exprOr n) rp)
    exact out_exprOrStep (out_exprOr n) rp

theorem out_predicate (n : Nat) : Out (fun jp => parserShape jp = true) (predicate n) := by
  unfold predicate
  refine out_map (out_delimited (out_exprOr n true)) ?_
  intro e h
  simpa only [parserShape] using h

theorem parserShape_of_steps (ps : List Path) (h : shapeSteps ps = true) : parserShape ps = true := by
  unfold parserShape
  split
  · rename_i e
    simp [shapeSteps, shapeStep, isInner] at h
  · rename_i ps'
    simp [shapeSteps, shapeStep, isInner] at h
  · exact h

theorem out_prePath : Out (fun p => p = Path.root ∨ ∃ s, p = Path.dotField s) prePath := by
  unfold prePath
  exact out_alt (out_value (Or.inl rfl)) (out_map (out_true _) (fun s _ => Or.inr ⟨s, rfl⟩))

theorem out_paths (n : Nat) : Out (fun jp => parserShape jp = true) (paths n) := by
  unfold paths
  refine out_map (out_pair (out_opt out_prePath) (out_manyPath (out_exprOr n))) ?_
  intro pp h
  obtain ⟨h1, h2⟩ := h
  cases ho : pp.1 with
  | none => exact parserShape_of_steps _ h2
  | some p =>
    rcases h1 p ho with rfl | ⟨s, rfl⟩
    · simp only [parserShape]; exact h2
    · apply parserShape_of_steps
      simp only [shapeSteps, shapeStep, isInner, Bool.true_and]; exact h2

theorem out_jsonPath (n : Nat) : Out (fun jp => parserShape jp = true) (jsonPath n) := by
  unfold jsonPath predicateOrPaths
  exact out_delimited (out_alt (out_predicate n) (out_paths n))

end PShape

open PShape in
/-- **Every AST accepted by `parse_json_path` has the parser shape** — for every byte string. -/
theorem parseJsonPath_shape (bs : Bytes) (jp : JsonPath) (h : parseJsonPath bs = .ok jp) :
    parserShape jp = true := by
  unfold parseJsonPath PathParser.finish at h
  split at h
  · rename_i a e
    simp only [Res.ok.injEq] at h
    rw [← h]
    exact out_jsonPath _ bs a [] e
  all_goals cases h

end Jsonb
