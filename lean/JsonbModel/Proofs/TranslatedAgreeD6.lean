/-
Phase 4: what the editors share — pushing the items of an iteration into a builder (`push_raw` in a loop =
the model's `++ map rawOf` / `pushAll … (map memberRaw)`), object builders that hold raw entries only, the
"whole document as one entry" fragment (`docEntry` / `scalarEntry` / `containerEntry`), and agreement
modulo the text of a panic message.
-/
import JsonbModel.Proofs.TranslatedAgreeD4
import JsonbModel.Proofs.TranslatedAgreeD5

set_option linter.unusedSimpArgs false
set_option linter.unusedVariables false

namespace Jsonb.TrAgree
open Jsonb.Rs

/-! ## agreement modulo the text of a panic message -/

/-- forget the text of a panic message.  `ObjectEntryIterator::next` panics at
`self.keys.as_mut().unwrap()` after a failed `fill_keys` with the message of `Option::unwrap`; the model
(Walk.lean, `iterObjEntries`) words that panic differently.  The editors that iterate over an object are
stated modulo this; when the model's answer is not a panic the agreement is an equality (`panicAny_eq`). -/
def panicAny {α : Type} : Res α → Res α
  | .panic _ => .panic ""
  | r => r

theorem panicAny_eq {α : Type} (a b : Res α) (h : panicAny a = panicAny b) (hb : b.isPanic = false) : a = b := by
  cases a <;> cases b <;> simp_all [panicAny, Res.isPanic]

/-! ## pushes in a loop -/

/-- the effect of `builder.push_raw(jentry, item)` on an `ArrayBuilder` -/
def pushArr (x : Tr.JEntry × Bytes) (b : Tr.ArrayBuilder) : Tr.ArrayBuilder := ⟨b.entries ++ [.Raw x.1 x.2]⟩

/-- the effect of `builder.push_raw(key, jentry, item)` on an `ObjectBuilder` -/
def pushObj (x : Bytes × Tr.JEntry × Bytes) (b : Tr.ObjectBuilder) : Tr.ObjectBuilder :=
  ⟨Rs.btreeInsert b.entries x.1 (.Raw x.2.1 x.2.2)⟩

theorem object_push_raw_any (b : Tr.ObjectBuilder) (k : Bytes) (je : Tr.JEntry) (d : Bytes) :
    Tr.ObjectBuilder.push_raw b k je d = .ok ⟨Rs.btreeInsert b.entries k (.Raw je d)⟩ := by
  unfold Tr.ObjectBuilder.push_raw
  simp only [Ctl.run_ret']

theorem fold_pushArr : ∀ (items : List (JE × Bytes)) (acc : List BEntry),
    (items.map ofItem).foldl (fun s x => pushArr x s) ⟨ofBEs acc⟩ = ⟨ofBEs (acc ++ items.map Fn.rawOf)⟩
  | [], acc => by simp
  | x :: xs, acc => by
    have := fold_pushArr xs (acc ++ [Fn.rawOf x])
    simp only [List.map_cons, List.foldl_cons, pushArr, ofBEs_append, ofBEs, ofBE_rawOf, List.append_assoc,
      List.cons_append, List.nil_append] at this ⊢
    exact this

theorem ofBE_memberRaw (m : Bytes × JE × Bytes) :
    ofBE (Fn.memberRaw m).2 = .Raw (ofMember m).2.1 (ofMember m).2.2 := rfl

theorem fold_pushObj : ∀ (ms : List (Bytes × JE × Bytes)) (acc : List (Bytes × BEntry)),
    (ms.map ofMember).foldl (fun s x => pushObj x s) ⟨ofBKVs acc⟩ = ⟨ofBKVs (Fn.pushAll acc (ms.map Fn.memberRaw))⟩
  | [], acc => by simp [Fn.pushAll]
  | m :: ms, acc => by
    have := fold_pushObj ms (bInsert (Fn.memberRaw m).1 (Fn.memberRaw m).2 acc)
    simp only [List.map_cons, List.foldl_cons, pushObj, Fn.pushAll] at this ⊢
    rw [← this, ← btreeInsert_bInsert, ofBE_memberRaw]
    rfl

/-! ## object builders that hold raw entries only -/

def RawFitsK : List (Bytes × BEntry) → Prop
  | [] => True
  | (_, .raw ty len _) :: kvs => (ty < 4294967296 ∧ len < 4294967296) ∧ RawFitsK kvs
  | _ :: _ => False

theorem rawFitsK_facts : ∀ (kvs : List (Bytes × BEntry)), RawFitsK kvs →
    fitsBK kvs ∧ bdepthK kvs = 0 ∧ bsizeK kvs ≤ kvs.length * 4294967296
  | [], _ => by simp [fitsBK, bdepthK, bsizeK]
  | (k, .raw ty len d) :: kvs, h => by
    simp only [RawFitsK] at h
    obtain ⟨h1, h2, h3⟩ := rawFitsK_facts kvs h.2
    refine ⟨by simp only [fitsBK, fitsB]; exact ⟨h.1, h1⟩, by simp [bdepthK, bdepth, h2], ?_⟩
    simp only [bsizeK, bspec_raw, List.length_cons]
    have := Nat.mod_lt len (show 0 < 4294967296 by decide)
    omega
  | (_, .arr _) :: _, h => by simp [RawFitsK] at h
  | (_, .obj _) :: _, h => by simp [RawFitsK] at h

/-- **`ObjectBuilder::build_into` on raw entries** (what every object editor ends with) -/
theorem object_build_raw (kvs : List (Bytes × BEntry)) (hraw : RawFitsK kvs) (b : Bytes) (g : Nat) (hg : 1 < g)
    (hn : kvs.length < 1073741824) (hk : (bkeyBytes kvs).length < 4611686018427387904)
    (hsz : b.length + 4 + kvs.length * 8 + (bkeyBytes kvs).length + (bpaysK kvs).length < 18446744073709551616) :
    ∃ n : Int, Tr.ObjectBuilder.build_into g ⟨ofBKVs kvs⟩ b = .ok (n, b ++ bpay (.obj kvs)) ∧
      buildObjectInto b kvs = .ok (b ++ bpay (.obj kvs)) := by
  obtain ⟨h1, h2, h3⟩ := rawFitsK_facts kvs hraw
  have := object_build_into_agrees kvs b g (by omega) (by simp only [fitsB]; exact ⟨h1, by omega⟩)
    (by rw [bpay_obj_length]; omega)
  rw [buildObjectInto_spec] at this
  exact ⟨_, this, buildObjectInto_spec b kvs⟩

/-- key bytes and payload bytes of a list of members -/
def keySum : List (Bytes × BEntry) → Nat
  | [] => 0
  | (k, _) :: kvs => k.length + keySum kvs
def paySum : List (Bytes × BEntry) → Nat
  | [] => 0
  | (_, e) :: kvs => (bpay e).length + paySum kvs

theorem bkeyBytes_length (kvs : List (Bytes × BEntry)) : (bkeyBytes kvs).length = keySum kvs := by
  induction kvs with
  | nil => rfl
  | cons kv kvs ih => obtain ⟨k, v⟩ := kv; simp [bkeyBytes, keySum, ih]

theorem bpaysK_length (kvs : List (Bytes × BEntry)) : (bpaysK kvs).length = paySum kvs := by
  induction kvs with
  | nil => rfl
  | cons kv kvs ih => obtain ⟨k, v⟩ := kv; simp [bpaysK, paySum, bpay, ih]

/-- `insert` keeps raw entries raw and grows the three measures by at most the inserted member -/
theorem bInsert_bounds (k : Bytes) (ty len : Nat) (d : Bytes) (hf : ty < 4294967296 ∧ len < 4294967296) :
    ∀ (m : List (Bytes × BEntry)), RawFitsK m →
    RawFitsK (bInsert k (.raw ty len d) m) ∧ (bInsert k (.raw ty len d) m).length ≤ m.length + 1 ∧
      keySum (bInsert k (.raw ty len d) m) ≤ keySum m + k.length ∧
      paySum (bInsert k (.raw ty len d) m) ≤ paySum m + d.length
  | [], _ => by simp [bInsert, RawFitsK, hf, keySum, paySum, bpay, bspec_raw]
  | (k', .raw ty' len' d') :: rest, h => by
    simp only [RawFitsK] at h
    obtain ⟨i1, i2, i3, i4⟩ := bInsert_bounds k ty len d hf rest h.2
    simp only [bInsert]
    cases lexCmp k k' with
    | lt => simp [RawFitsK, hf, h, keySum, paySum, bpay, bspec_raw]; omega
    | eq => simp [RawFitsK, hf, h, keySum, paySum, bpay, bspec_raw]; omega
    | gt =>
      simp only [RawFitsK, keySum, paySum, List.length_cons, bpay, bspec_raw] at i1 i2 i3 i4 ⊢
      exact ⟨⟨h.1, i1⟩, by omega, by omega, by omega⟩
  | (_, .arr _) :: _, h => by simp [RawFitsK] at h
  | (_, .obj _) :: _, h => by simp [RawFitsK] at h

/-- total key / payload length of a list of members as the iterator yields them -/
def mKeySum : List (Bytes × JE × Bytes) → Nat
  | [] => 0
  | m :: ms => m.1.length + mKeySum ms
def mPaySum : List (Bytes × JE × Bytes) → Nat
  | [] => 0
  | m :: ms => m.2.2.length + mPaySum ms

theorem pushAll_bounds : ∀ (ms : List (Bytes × JE × Bytes)) (acc : List (Bytes × BEntry)),
    (∀ m ∈ ms, JEFits m.2.1) → RawFitsK acc →
    RawFitsK (Fn.pushAll acc (ms.map Fn.memberRaw)) ∧
      (Fn.pushAll acc (ms.map Fn.memberRaw)).length ≤ acc.length + ms.length ∧
      keySum (Fn.pushAll acc (ms.map Fn.memberRaw)) ≤ keySum acc + mKeySum ms ∧
      paySum (Fn.pushAll acc (ms.map Fn.memberRaw)) ≤ paySum acc + mPaySum ms
  | [], acc, _, h => by simp [Fn.pushAll, h, mKeySum, mPaySum]
  | m :: ms, acc, hms, h => by
    obtain ⟨i1, i2, i3, i4⟩ := bInsert_bounds m.1 m.2.1.ty m.2.1.len m.2.2 (hms m (by simp)) acc h
    obtain ⟨j1, j2, j3, j4⟩ := pushAll_bounds ms (bInsert m.1 (.raw m.2.1.ty m.2.1.len m.2.2) acc)
      (fun x hx => hms x (by simp [hx])) i1
    simp only [List.map_cons, Fn.pushAll, List.foldl_cons, Fn.memberRaw, List.length_cons, mKeySum, mPaySum] at j1 j2 j3 j4 ⊢
    exact ⟨j1, by omega, by omega, by omega⟩

/-- the members `iterObjLoop` collects: keys and items are consecutive slices of `value` -/
theorem iterObjLoop_bounds (value : Bytes) : ∀ (ks : List Nat) (ko jo vo : Nat) (ms : List (Bytes × JE × Bytes)),
    iterObjLoop value ks ko jo vo = .ok ms →
    ms.length ≤ ks.length ∧ (∀ m ∈ ms, JEFits m.2.1) ∧
      (ms ≠ [] → ko + mKeySum ms ≤ value.length ∧ vo + mPaySum ms ≤ value.length) := by
  intro ks
  induction ks with
  | nil =>
    intro ko jo vo ms h
    simp only [iterObjLoop, Res.ok.injEq] at h
    subst h
    exact ⟨by simp, by simp, by simp⟩
  | cons k ks ih =>
    intro ko jo vo ms h
    simp only [iterObjLoop] at h
    cases hk : Jsonb.slice value ko (ko + k) with
    | ok key =>
      rw [hk] at h
      simp only [] at h
      have hkey : ko + k ≤ value.length ∧ key.length = k := by
        unfold Jsonb.slice at hk
        split at hk
        · next hc =>
          simp only [Res.ok.injEq] at hk
          subst hk
          exact ⟨hc.2, by simp; omega⟩
        · cases hk
      cases hr : readU32At value jo with
      | none =>
        rw [hr] at h
        simp only [Res.ok.injEq] at h
        subst h
        exact ⟨by simp, by simp, by simp⟩
      | some w =>
        rw [hr] at h
        simp only [] at h
        have hw := readU32At_lt value jo w hr
        cases hs : Jsonb.slice value vo (vo + jeLen w) with
        | ok item =>
          rw [hs] at h
          simp only [] at h
          have hitem : vo + jeLen w ≤ value.length ∧ item.length = jeLen w := by
            unfold Jsonb.slice at hs
            split at hs
            · next hc =>
              simp only [Res.ok.injEq] at hs
              subst hs
              exact ⟨hc.2, by simp; omega⟩
            · cases hs
          cases hrest : iterObjLoop value ks (ko + k) (jo + 4) (vo + jeLen w) with
          | ok rest =>
            rw [hrest] at h
            simp only [Res.ok.injEq] at h
            subst h
            obtain ⟨h1, h2, h3⟩ := ih _ _ _ rest hrest
            refine ⟨by simp; omega, ?_, ?_⟩
            · intro x hx
              simp only [List.mem_cons] at hx
              cases hx with
              | inl hx => subst hx; exact jeFits_ofWord w hw
              | inr hx => exact h2 x hx
            · intro _
              simp only [mKeySum, mPaySum]
              by_cases hre : rest = []
              · subst hre; simp [mKeySum, mPaySum]; omega
              · have := h3 hre; omega
          | err e => rw [hrest] at h; cases h
          | panic s => rw [hrest] at h; cases h
          | fuel => rw [hrest] at h; cases h
        | err e => rw [hs] at h; cases h
        | panic s => rw [hs] at h; cases h
        | fuel => rw [hs] at h; cases h
    | err e => rw [hk] at h; cases h
    | panic s => rw [hk] at h; cases h
    | fuel => rw [hk] at h; cases h

end Jsonb.TrAgree
