/-
C18: the f64 view of a NEGATIVE signed integer is the nearest double.  `i as f64` sets the sign
bit on the rounding of the magnitude (`F64.ofIntRNE`), so everything follows from the unsigned
results (`ofNatRNE_isInt`, `rval_half_ulp`, `rval_exact`, `ofNatRNE_mono`) and `val_neg_isInt`.
`irval i` is the integer that `i as f64` denotes.
-/
import JsonbModel.Proofs.NumOrd

namespace Jsonb
namespace F64

/-- the integer that `i as f64` denotes: round the magnitude, keep the sign -/
def irval (i : Int) : Int := if i < 0 then -((rval (-i).toNat : Nat) : Int) else ((rval i.toNat : Nat) : Int)

/-- sign symmetry of the rounding -/
theorem irval_neg (i : Int) : irval (-i) = -irval i := by
  unfold irval
  by_cases h1 : i < 0
  · have h2 : ¬ (-i < 0) := by omega
    simp only [h1, h2, if_true, if_false, Int.neg_neg]
  · by_cases h3 : i = 0
    · subst h3
      have : rval 0 = 0 := by decide
      simp [this]
    · have h2 : -i < 0 := by omega
      simp only [h1, h2, if_true, if_false, Int.neg_neg]

theorem irval_ofNat (n : Nat) : irval (n : Int) = (rval n : Nat) := by
  unfold irval
  have : ¬ ((n : Int) < 0) := by omega
  simp only [this, if_false, Int.toNat_natCast]

/-- sign symmetry of the bit pattern: for `i > 0`, `(-i) as f64` is `i as f64` with the sign bit set -/
theorem ofIntRNE_neg (i : Int) (h : 0 < i) : ofIntRNE (-i) = 9223372036854775808 + ofIntRNE i := by
  unfold ofIntRNE
  have h1 : -i < 0 := by omega
  have h2 : ¬ (i < 0) := by omega
  simp only [h1, h2, if_true, if_false, Int.neg_neg]

/-- the rounding of a magnitude below 2^64 leaves the sign bit clear -/
theorem ofNatRNE_lt_sign (n : Nat) (hn : n < 18446744073709551616) : ofNatRNE n < 9223372036854775808 := by
  by_cases h0 : n = 0
  · subst h0; decide
  · rw [ofNatRNE_eq n h0]
    have := rsig_bounds n h0
    have := log2_lt_64 n h0 hn
    omega

/-- exact up to and including 2^53 -/
theorem rval_exact_le (n : Nat) (h : n ≤ 9007199254740992) : rval n = n := by
  by_cases h1 : n < 9007199254740992
  · exact rval_exact n h1
  · have : n = 9007199254740992 := by omega
    subst this; decide

/-- ties go to the even significand: when the dropped bits are exactly one half, the rounded
53-bit significand is even -/
theorem rsig_tie_even (n : Nat) (hl : 52 < Nat.log2 n)
    (ht : n % 2 ^ (Nat.log2 n - 52) = 2 ^ (Nat.log2 n - 52 - 1)) : rsig n % 2 = 0 := by
  unfold rsig
  have hl' : ¬ Nat.log2 n ≤ 52 := by omega
  simp only [hl', if_false, ht, Nat.lt_irrefl, false_or, true_and]
  split <;> omega

/-- order key of `i as f64` for a negative `i` -/
theorem key_ofIntRNE_neg (i : Int) (hneg : i < 0) (hlo : -9223372036854775808 ≤ i) :
    key (ofIntRNE i) = -((ofNatRNE (-i).toNat : Nat) : Int) := by
  unfold ofIntRNE key
  simp only [hneg, if_true]
  have hb := ofNatRNE_lt_sign (-i).toNat (by omega)
  have hs : signBit (9223372036854775808 + ofNatRNE (-i).toNat) = true := by
    unfold signBit
    have : (9223372036854775808 + ofNatRNE (-i).toNat) / 9223372036854775808 % 2 = 1 := by omega
    rw [this]; rfl
  have hm : (9223372036854775808 + ofNatRNE (-i).toNat) % 9223372036854775808 = ofNatRNE (-i).toNat := by omega
  simp only [hs, if_true, hm]

theorem key_ofIntRNE_nonneg (i : Int) (h0 : 0 ≤ i) (hhi : i ≤ 9223372036854775807) :
    key (ofIntRNE i) = ((ofNatRNE i.toNat : Nat) : Int) := by
  unfold ofIntRNE key
  have hneg : ¬ (i < 0) := by omega
  simp only [hneg, if_false]
  have hb := ofNatRNE_lt_sign i.toNat (by omega)
  have hs : signBit (ofNatRNE i.toNat) = false := by
    unfold signBit
    have : ofNatRNE i.toNat / 9223372036854775808 % 2 = 0 := by omega
    rw [this]; rfl
  have hm : ofNatRNE i.toNat % 9223372036854775808 = ofNatRNE i.toNat := by omega
  simp only [hs, Bool.false_eq_true, if_false, hm]

/-- `as f64` is monotone on negative integers: a smaller integer has the larger magnitude, hence
the larger bit pattern (negative doubles are ordered opposite to their bits) -/
theorem ofIntRNE_neg_antitone_bits (i j : Int) (hij : i ≤ j) (hj : j < 0) :
    ofIntRNE j ≤ ofIntRNE i := by
  unfold ofIntRNE
  have hi : i < 0 := by omega
  simp only [hi, hj, if_true]
  have := ofNatRNE_mono (-j).toNat (-i).toNat (by omega)
  omega

/-- `as f64` is monotone on all of i64, in the IEEE order of the results (`F64.key`) -/
theorem ofIntRNE_mono_key (i j : Int) (hij : i ≤ j)
    (hlo : -9223372036854775808 ≤ i) (hhi : j ≤ 9223372036854775807) :
    key (ofIntRNE i) ≤ key (ofIntRNE j) := by
  by_cases hi : i < 0
  · rw [key_ofIntRNE_neg i hi hlo]
    by_cases hj : j < 0
    · rw [key_ofIntRNE_neg j hj (by omega)]
      have := ofNatRNE_mono (-j).toNat (-i).toNat (by omega)
      omega
    · rw [key_ofIntRNE_nonneg j (by omega) hhi]; omega
  · rw [key_ofIntRNE_nonneg i (by omega) (by omega), key_ofIntRNE_nonneg j (by omega) hhi]
    have := ofNatRNE_mono i.toNat j.toNat (by omega)
    omega

end F64

namespace Num
open F64

/-- the f64 view of a negative signed integer `i` (`i64::MIN ≤ i < 0`) is the nearest double:
it denotes the integer `irval i = -(rval |i|)`, which is within half an ulp `2^(log2 |i| - 52)` of
`i` on either side, and is `i` itself from `-2^53` upwards -/
theorem asF64_int_neg (i : Int) (hneg : i < 0) (hlo : -9223372036854775808 ≤ i) :
    (F64.val (asF64 (.int i))).isInt (irval i) ∧
    irval i = -((rval i.natAbs : Nat) : Int) ∧
    2 * (irval i - i) ≤ ((2 ^ (Nat.log2 i.natAbs - 52) : Nat) : Int) ∧
    2 * (i - irval i) ≤ ((2 ^ (Nat.log2 i.natAbs - 52) : Nat) : Int) ∧
    (-9007199254740992 ≤ i → irval i = i) := by
  have hm : (-i).toNat = i.natAbs := by omega
  have hr : irval i = -((rval i.natAbs : Nat) : Int) := by
    unfold irval; simp only [hneg, if_true, hm]
  have hI := ofIntRNE_isInt i hlo (by omega)
  simp only [hneg, if_true, hm] at hI
  have hu := rval_half_ulp i.natAbs
  refine ⟨?_, hr, ?_, ?_, ?_⟩
  · rw [hr]; exact hI
  · rw [hr]; have := hu.2; omega
  · rw [hr]; have := hu.1; omega
  · intro h53
    rw [hr, rval_exact_le i.natAbs (by omega)]; omega

/-- both signs at once: for every i64 `i`, `as_f64` denotes `irval i`, within half an ulp of `i`,
exact for |i| ≤ 2^53 -/
theorem asF64_int (i : Int) (hlo : -9223372036854775808 ≤ i) (hhi : i ≤ 9223372036854775807) :
    (F64.val (asF64 (.int i))).isInt (irval i) ∧
    2 * (irval i - i) ≤ ((2 ^ (Nat.log2 i.natAbs - 52) : Nat) : Int) ∧
    2 * (i - irval i) ≤ ((2 ^ (Nat.log2 i.natAbs - 52) : Nat) : Int) ∧
    (i.natAbs ≤ 9007199254740992 → irval i = i) := by
  by_cases hneg : i < 0
  · obtain ⟨a, _, b, c, d⟩ := asF64_int_neg i hneg hlo
    exact ⟨a, b, c, fun h => d (by omega)⟩
  · have hm : i.toNat = i.natAbs := by omega
    have hr : irval i = ((rval i.natAbs : Nat) : Int) := by
      unfold irval; simp only [hneg, if_false, hm]
    have hI := ofIntRNE_isInt i hlo hhi
    simp only [hneg, if_false, hm] at hI
    have hu := rval_half_ulp i.natAbs
    refine ⟨?_, ?_, ?_, ?_⟩
    · rw [hr]; exact hI
    · rw [hr]; have := hu.1; omega
    · rw [hr]; have := hu.2; omega
    · intro h53; rw [hr, rval_exact_le i.natAbs h53]; omega

/-- ties to even for negative integers too: the significand is that of the magnitude -/
theorem asF64_int_neg_bits (i : Int) (hneg : i < 0) :
    asF64 (.int i) = 9223372036854775808 + ofNatRNE i.natAbs ∧
    ofNatRNE i.natAbs = (Nat.log2 i.natAbs + 1022) * 4503599627370496 + rsig i.natAbs := by
  have hm : (-i).toNat = i.natAbs := by omega
  refine ⟨?_, ofNatRNE_eq _ (by omega)⟩
  show ofIntRNE i = _
  unfold ofIntRNE; simp only [hneg, if_true, hm]

/-- monotone: the primitive f64 `>=` holds between the views of `j ≥ i` -/
theorem asF64_int_mono (i j : Int) (hij : i ≤ j)
    (hlo : -9223372036854775808 ≤ i) (hhi : j ≤ 9223372036854775807) :
    F64.ge (asF64 (.int j)) (asF64 (.int i)) = true := by
  have hk := ofIntRNE_mono_key i j hij hlo hhi
  have nn : ∀ (b : Nat) (v : Int), (F64.val b).isInt v → isNaN b = false := by
    intro b v h
    cases hn : isNaN b
    · rfl
    · rw [val_nan b hn] at h; simp [ExtVal.isInt] at h
  have hni := nn _ _ (ofIntRNE_isInt i hlo (by omega))
  have hnj := nn _ _ (ofIntRNE_isInt j (by omega) hhi)
  show F64.ge (ofIntRNE j) (ofIntRNE i) = true
  unfold F64.ge
  simp [hni, hnj, hk]

end Num
end Jsonb

