import JsonbModel.Num
namespace Jsonb
namespace Num

theorem ofBeI_beI (w : Nat) (i : Int) (_hw : 0 < w)
    (hlo : -((256 ^ w : Nat) : Int) ≤ 2 * i) (hhi : 2 * i < ((256 ^ w : Nat) : Int)) :
    ofBeI (beI w i) = i := by
  unfold ofBeI beI
  simp only [ofBe_beN, beN_length]
  have hp : (0 : Int) < ((256 ^ w : Nat) : Int) := by
    have : 0 < 256 ^ w := Nat.pow_pos (by decide)
    omega
  generalize hP : ((256 ^ w : Nat) : Int) = P at *
  have hPn : (256 ^ w : Nat) = P.toNat := by omega
  have hm0 : 0 ≤ i % P := Int.emod_nonneg _ (by omega)
  have hm1 : i % P < P := Int.emod_lt_of_pos _ hp
  have hmod : (i % P).toNat % 256 ^ w = (i % P).toNat := by
    apply Nat.mod_eq_of_lt; omega
  rw [hmod]
  by_cases hi : 0 ≤ i
  · have : i % P = i := Int.emod_eq_of_lt hi (by omega)
    rw [this]
    have h2 : ¬ (2 * i.toNat ≥ 256 ^ w) := by omega
    simp only [h2, if_false]
    omega
  · have : i % P = i + P := by
      have := Int.emod_emod_of_dvd i (Int.dvd_refl P)
      rw [← Int.add_emod_right]
      exact Int.emod_eq_of_lt (by omega) (by omega)
    rw [this]
    have h2 : 2 * (i + P).toNat ≥ 256 ^ w := by omega
    simp only [h2, if_true]
    omega

theorem dec_enc (n : Num) (h : n.WF) : dec (enc n) = .ok (norm n) := by
  cases n with
  | int i =>
    simp only [WF] at h
    simp only [enc, norm]
    by_cases h0 : i = 0
    · simp [h0, dec, C.NUMBER_ZERO]
    · simp only [h0, if_false]
      by_cases h1 : -128 ≤ i ∧ i ≤ 127
      · simp only [h1, and_self, if_true]
        have := ofBeI_beI 1 i (by decide) (by simp; omega) (by simp; omega)
        simp [dec, C.NUMBER_INT, C.NUMBER_ZERO, C.NUMBER_NAN, C.NUMBER_INF, C.NUMBER_NEG_INF, beI, this]
        simpa [beI] using this
      · simp only [h1, if_false]
        by_cases h2 : -32768 ≤ i ∧ i ≤ 32767
        · simp only [h2, and_self, if_true]
          have := ofBeI_beI 2 i (by decide) (by simp; omega) (by simp; omega)
          simp [dec, C.NUMBER_INT, C.NUMBER_ZERO, C.NUMBER_NAN, C.NUMBER_INF, C.NUMBER_NEG_INF, beI]
          simpa [beI] using this
        · simp only [h2, if_false]
          by_cases h3 : -2147483648 ≤ i ∧ i ≤ 2147483647
          · simp only [h3, and_self, if_true]
            have := ofBeI_beI 4 i (by decide) (by simp; omega) (by simp; omega)
            simp [dec, C.NUMBER_INT, C.NUMBER_ZERO, C.NUMBER_NAN, C.NUMBER_INF, C.NUMBER_NEG_INF, beI]
            simpa [beI] using this
          · simp only [h3, if_false]
            have := ofBeI_beI 8 i (by decide) (by simp; omega) (by simp; omega)
            simp [dec, C.NUMBER_INT, C.NUMBER_ZERO, C.NUMBER_NAN, C.NUMBER_INF, C.NUMBER_NEG_INF, beI]
            simpa [beI] using this
  | uint n =>
    simp only [WF] at h
    simp only [enc, norm]
    by_cases h0 : n = 0
    · simp [h0, dec, C.NUMBER_ZERO]
    · simp only [h0, if_false]
      by_cases h1 : n ≤ 255
      · simp [h1, dec, C.NUMBER_UINT, C.NUMBER_INT, C.NUMBER_ZERO, C.NUMBER_NAN, C.NUMBER_INF, C.NUMBER_NEG_INF, ofBe_beN]
        omega
      · by_cases h2 : n ≤ 65535
        · simp [h1, h2, dec, C.NUMBER_UINT, C.NUMBER_INT, C.NUMBER_ZERO, C.NUMBER_NAN, C.NUMBER_INF, C.NUMBER_NEG_INF, ofBe_beN]
          omega
        · by_cases h3 : n ≤ 4294967295
          · simp [h1, h2, h3, dec, C.NUMBER_UINT, C.NUMBER_INT, C.NUMBER_ZERO, C.NUMBER_NAN, C.NUMBER_INF, C.NUMBER_NEG_INF, ofBe_beN]
            omega
          · simp [h1, h2, h3, dec, C.NUMBER_UINT, C.NUMBER_INT, C.NUMBER_ZERO, C.NUMBER_NAN, C.NUMBER_INF, C.NUMBER_NEG_INF, ofBe_beN]
            omega
  | float b =>
    simp only [WF] at h
    simp only [enc, norm]
    by_cases hn : F64.isNaN b = true
    · simp [hn, dec, C.NUMBER_NAN, C.NUMBER_ZERO]
    · simp only [hn, if_false]
      by_cases hp : b = F64.posInf
      · simp [hp, dec, C.NUMBER_NAN, C.NUMBER_ZERO, C.NUMBER_INF]
      · by_cases hq : b = F64.negInf
        · simp [hp, hq, dec, C.NUMBER_NAN, C.NUMBER_ZERO, C.NUMBER_INF, C.NUMBER_NEG_INF]
          decide
        · simp [hp, hq, dec, C.NUMBER_UINT, C.NUMBER_INT, C.NUMBER_ZERO, C.NUMBER_NAN, C.NUMBER_INF, C.NUMBER_NEG_INF, C.NUMBER_FLOAT, ofBe_beN]
          omega

theorem enc_length (n : Num) : (enc n).length = minWidth n := by
  cases n with
  | int i => simp only [enc, minWidth]; split <;> (try split) <;> (try split) <;> (try split) <;> simp [beI]
  | uint n => simp only [enc, minWidth]; split <;> (try split) <;> (try split) <;> (try split) <;> simp
  | float b =>
    simp only [enc, minWidth]
    split
    · simp [*]
    · split
      · simp [*]
      · split
        · simp [*]
        · simp [*]

end Num
end Jsonb
