/-
C07 (chains of operations), part 4b: the `goodTop`-of-the-result hypotheses that `OpOK` carries
for the growing operations follow from PURE count / size bounds — the structural part of
canonicity (keys strictly sorted, valid UTF-8, numbers in range, nested entries inside their
fields) is preserved automatically by every operation.

`OpSizeOK v op` is `OpOK v op` with each `goodTop (result)` replaced by such bounds;
`opOK_of_sizeOK` shows it implies `OpOK`.
No Mathlib.
-/
import JsonbModel.Proofs.ChainStep

namespace Jsonb
open JV

/-- a canonical document whose image is below 2^28 bytes can be embedded -/
theorem good_of_goodTop_elen (v : JV) (hg : goodTop v = true) (hl : elen v < 268435456) :
    good v = true := by
  cases v with
  | arr vs =>
    have hp := goodTop_arr_parts hg
    simp only [good, Bool.and_eq_true, decide_eq_true_eq]
    exact ⟨⟨hp.1, hl⟩, hp.2⟩
  | obj kvs =>
    have hp := goodTop_obj_parts hg
    have hks : keysSorted kvs = true := by
      simp only [goodTop, Bool.and_eq_true] at hg; exact hg.1.2
    simp only [good, Bool.and_eq_true, decide_eq_true_eq]
    exact ⟨⟨⟨hp.1, hl⟩, hks⟩, hp.2⟩
  | null => exact hg
  | bool b => exact hg
  | num n => exact hg
  | str s => exact hg

/-- the document can be viewed as an element list: an array always, anything else when its
image is below 2^28 bytes (it becomes ONE element) -/
def ElemFits : JV → Prop
  | arr _ => True
  | w => elen w < 268435456

theorem goodL_elems_of_fits (v : JV) (hg : goodTop v = true) (h : ElemFits v) :
    goodL (Spec.elems v) = true := by
  cases v with
  | arr vs => exact (goodTop_arr_parts hg).2
  | obj kvs => simp only [Spec.elems, goodL, Bool.and_true]; exact good_of_goodTop_elen _ hg h
  | null => rfl
  | bool b => rfl
  | num n => simp only [Spec.elems, goodL, Bool.and_true]; exact hg
  | str s => simp only [Spec.elems, goodL, Bool.and_true]; exact hg

/-! ### concat -/

/-- size condition of `concat`: two objects — the merged member count; otherwise both operands
are viewed as element lists and the counts add up -/
def ConcatFits : JV → JV → Prop
  | obj a, obj b => (mergeKV a b).length < 536870912
  | l, r => ElemFits l ∧ ElemFits r ∧ (Spec.elems l).length + (Spec.elems r).length < 536870912

theorem concat_eq_elems (l r : JV) (hno : ¬ ∃ a b, l = obj a ∧ r = obj b) :
    Spec.concat l r = arr (Spec.elems l ++ Spec.elems r) := by
  cases l <;> cases r <;> first | rfl | exact absurd ⟨_, _, rfl, rfl⟩ hno

theorem concat_goodTop (l r : JV) (hl : goodTop l = true) (hr : goodTop r = true)
    (h : ConcatFits l r) : goodTop (Spec.concat l r) = true := by
  by_cases hoo : ∃ a b, l = obj a ∧ r = obj b
  · obtain ⟨a, b, rfl, rfl⟩ := hoo
    have ha := goodTop_obj_parts hl
    have hb := goodTop_obj_parts hr
    have hsa : keysSorted a = true := by
      simp only [goodTop, Bool.and_eq_true] at hl; exact hl.1.2
    have e : Spec.concat (obj a) (obj b) = obj (mergeKV a b) := rfl
    rw [e]
    simp only [goodTop, Bool.and_eq_true, decide_eq_true_eq]
    exact ⟨⟨h, mergeKV_sorted a b hsa⟩, mergeKV_good a b ha.2 hb.2⟩
  · have h' : ElemFits l ∧ ElemFits r ∧ (Spec.elems l).length + (Spec.elems r).length < 536870912 := by
      cases l <;> cases r <;> first | exact h | exact absurd ⟨_, _, rfl, rfl⟩ hoo
    rw [concat_eq_elems l r hoo]
    simp only [goodTop, Bool.and_eq_true, decide_eq_true_eq, List.length_append, goodL_append]
    exact ⟨h'.2.2, goodL_elems_of_fits l hl h'.1, goodL_elems_of_fits r hr h'.2.1⟩

/-! ### array_insert -/

theorem goodTop_insert (L : List JV) (w : JV) (idx : Nat) (hL : goodL L = true) (hw : good w = true)
    (hn : L.length + 1 < 536870912) : goodTop (arr (L.take idx ++ w :: L.drop idx)) = true := by
  have htd := goodL_take_drop L idx
  rw [hL, Bool.and_eq_true] at htd
  simp only [goodTop, Bool.and_eq_true, decide_eq_true_eq, List.length_append, List.length_cons,
    List.length_take, List.length_drop, goodL_append, goodL]
  exact ⟨by omega, htd.1, hw, htd.2⟩

theorem arrayInsert_goodTop (v w : JV) (hg : goodTop v = true) (hw : good w = true)
    (hf : ElemFits v) (hn : (Spec.elems v).length + 1 < 536870912) (p : Int) :
    goodTop (Spec.arrayInsert v p w) = true := by
  rw [spec_arrayInsert_eq]
  exact goodTop_insert _ w _ (goodL_elems_of_fits v hg hf) hw hn

/-! ### object_insert -/

theorem objectInsert_goodTop (v : JV) (hg : goodTop v = true) (k : Bytes) (w : JV) (u : Bool)
    (hw : good w = true) (hk : k.length < 268435456) (hu : validUtf8 k = true)
    (hn : ∀ kvs, v = obj kvs → (insertKV k w kvs).length < 536870912)
    (r : JV) (h : Spec.objectInsert v k w u = .ok r) : goodTop r = true := by
  cases v with
  | obj kvs =>
    have hp := goodTop_obj_parts hg
    have hks : keysSorted kvs = true := by
      simp only [goodTop, Bool.and_eq_true] at hg; exact hg.1.2
    simp only [Spec.objectInsert] at h
    split at h
    · simp at h
    · simp only [Except.ok.injEq] at h; subst h
      simp only [goodTop, Bool.and_eq_true, decide_eq_true_eq]
      exact ⟨⟨hn kvs rfl, insertKV_sorted k w kvs hks⟩, insertKV_good k w kvs hk hu hw hp.2⟩
  | arr vs => simp [Spec.objectInsert] at h
  | null => simp [Spec.objectInsert] at h
  | bool b => simp [Spec.objectInsert] at h
  | num n => simp [Spec.objectInsert] at h
  | str s => simp [Spec.objectInsert] at h

/-! ### `OpOK` from pure count / size bounds -/

/-- `OpOK` with every "`goodTop` of the result" replaced by a count / size bound:
* `concat`: `ConcatFits` (merged member count, or element counts adding up below 2^29 with
  non-array operands below 2^28 bytes);
* `array_insert`: the target as an element list (`ElemFits`) has room for one more element;
* `object_insert`: the member count after the insert stays below 2^29;
* set functions: a non-array operand is below 2^28 bytes (`ElemFits`);
* `build_array`, `build_object`: argument / distinct-key count below 2^29;
* `get_by_path_array` (non-predicate path): the document is below 2^28 bytes and fewer than
  2^29 items are selected. -/
def OpSizeOK (v : JV) : ChainOp JV → Prop
  | .concat a l => ArgTop a ∧
      ∀ w, Spec.argOf v a = some w → if l then ConcatFits w v else ConcatFits v w
  | .delName _ => True
  | .delIdx i => I32 i
  | .delKp kp => kpOK kp
  | .arrIns p a => I32 p ∧ ArgEmb v a ∧ ElemFits v ∧ (Spec.elems v).length + 1 < 536870912
  | .objIns k a _ => k.length < 268435456 ∧ validUtf8 k = true ∧ ArgEmb v a ∧
      ∀ kvs w, v = obj kvs → Spec.argOf v a = some w → (insertKV k w kvs).length < 536870912
  | .objDel _ => True
  | .objPick _ => True
  | .strip => True
  | .getIdx _ => True
  | .getName _ _ => True
  | .getKp _ => True
  | .keys => True
  | .distinct => ElemFits v
  | .inter a => ElemFits v ∧ ArgSet a
  | .except a => ElemFits v ∧ ArgSet a
  | .wrapArr as => (∀ a ∈ as, ArgEmb v a) ∧ as.length < 536870912
  | .wrapObj kas =>
      (∀ ka ∈ kas, ka.1.length < 268435456 ∧ validUtf8 ka.1 = true ∧ ArgEmb v ka.2) ∧
      ∀ ws, Spec.kargsOf v kas = some ws → (mkObj ws).length < 536870912
  | .selFirst jp => PathOK v jp
  | .selArr jp => PathOK v jp ∧
      (Sel.isPredicate jp = false → (encodeSpec v).length < 268435456 ∧ ∀ items,
        Spec.evalPaths (Spec.chainSelFuel v jp) v none jp = some items → items.length < 536870912)

/-- the structural part of canonicity is preserved automatically: pure size bounds suffice -/
theorem opOK_of_sizeOK (v : JV) (hg : goodTop v = true) (op : ChainOp JV) (h : OpSizeOK v op) :
    OpOK v op := by
  cases op with
  | concat a l =>
    refine ⟨h.1, fun w hw => ?_⟩
    have hgw := argOf_goodTop hg h.1 hw
    have hf := h.2 w hw
    cases l with
    | true => exact concat_goodTop w v hgw hg hf
    | false => exact concat_goodTop v w hg hgw hf
  | delName n => trivial
  | delIdx i => exact h
  | delKp kp => exact h
  | arrIns p a =>
    exact ⟨h.1, h.2.1, fun w hw => arrayInsert_goodTop v w hg (argOf_good hg h.2.1 hw) h.2.2.1 h.2.2.2 p⟩
  | objIns k a u =>
    exact ⟨h.1, h.2.1, h.2.2.1, fun w r hw hr =>
      objectInsert_goodTop v hg k w u (argOf_good hg h.2.2.1 hw) h.1 h.2.1
        (fun kvs hv => h.2.2.2 kvs w hv hw) r hr⟩
  | objDel ks => trivial
  | objPick ks => trivial
  | strip => trivial
  | getIdx i => trivial
  | getName n ic => trivial
  | getKp kp => trivial
  | keys => trivial
  | distinct => exact goodL_elems_of_fits v hg h
  | inter a => exact ⟨goodL_elems_of_fits v hg h.1, h.2⟩
  | except a => exact ⟨goodL_elems_of_fits v hg h.1, h.2⟩
  | wrapArr as => exact h
  | wrapObj kas => exact h
  | selFirst jp => exact h
  | selArr jp =>
    refine ⟨h.1, fun hnp items hE => ?_⟩
    have h2 := h.2 hnp
    exact selArr_hres_of_small v hg jp h.1.1 h.1.2.1 h2.1 items hE (h2.2 items hE)

end Jsonb
