import JsonbModel.Proofs.TranslatedAgreeF16

set_option linter.unusedSimpArgs false
set_option linter.unusedVariables false

namespace Jsonb.TrAgree
open Jsonb.Rs
open JV

/-! ## the public `convert_to_comparable` -/

/-- the text branch: `convert_to_comparable` returns what the branch leaves in `buf` -/
theorem convert_to_comparable_text_agrees (fuel : Nat) (value buf : Bytes) (text : Res Bytes)
    (h : isJsonb value = false) : Tr.convert_to_comparable fuel value buf text = text := by
  unfold Tr.convert_to_comparable
  simp only [is_jsonb_agrees, h, Ctl.ofRes_ok', Ctl.val_bind', Bool.not_false, if_true, Ctl.ret_bind', Ctl.run_ret']

theorem add_u8_one : Rs.add .u8 (0 : Int) 1 = .ok 1 := by decide

theorem pushByte_zero (buf : Bytes) : Rs.pushByte buf (0 : Int) = buf ++ [UInt8.ofNat 0] := by
  simp [Rs.pushByte, Rs.u8]

/-- **`convert_to_comparable` on a JSONB buffer** whose key entries are string-typed: the model's
`convertToComparable`, up to the text of a panic message -/
theorem convert_to_comparable_jsonb_agrees (fuel : Nat) (value buf : Bytes) (text : Res Bytes)
    (hj : isJsonb value = true) (hfuel : 2 * value.length + 8 < fuel)
    (hv : value.length < 9223372036854775808) (hk : KeysAreStrings value = true)
    (hne : Fn.convertToComparable value buf ≠ .fuel) :
    panicAny (Tr.convert_to_comparable fuel value buf text) = panicAny (Fn.convertToComparable value buf) := by
  unfold Tr.convert_to_comparable
  unfold Fn.convertToComparable at hne ⊢
  simp only [is_jsonb_agrees, hj, Ctl.ofRes_ok', Ctl.val_bind', Bool.not_true, Bool.false_eq_true, if_false,
    Ctl.pure_eq', read_u32_zero]
  obtain ⟨g, rfl⟩ : ∃ m, fuel = m + 1 := ⟨fuel - 1, by omega⟩
  have h0 : ((0 : Nat) : Int) = 0 := rfl
  have h1' : ((1 : Nat) : Int) = 1 := rfl
  cases hh : readU32At value 0 with
  | none =>
    have e0 : Rs.bitand (0 : Int) (C.CONTAINER_HEADER_TYPE_MASK : Int) = ((0 : Nat) : Int) := by decide
    simp only [Rs.resUnwrapOr, Ctl.ofRes_ok', Ctl.val_bind', e0, tag_eq]
    rw [if_neg (by decide), if_neg (by decide), if_neg (by decide)]
    rfl
  | some h =>
    rw [hh] at hne
    have h4l := readU32At_some_len _ _ _ hh
    have h4 : ((4 : Nat) : Int) = 4 := rfl
    have h8 : ((8 : Nat) : Int) = 8 := rfl
    have hT : h &&& C.CONTAINER_HEADER_TYPE_MASK = hdrType h := rfl
    simp only [Rs.resUnwrapOr, Ctl.ofRes_ok', Ctl.val_bind', Rs.bitand_natCast, tag_eq, hT]
    simp only [decide_eq_true_eq, Int.natCast_inj]
    dsimp only at hne ⊢
    by_cases c1 : hdrType h = C.SCALAR_CONTAINER_TAG
    · simp only [if_pos c1, read_u32_four] at hne ⊢
      cases hw : readU32At value 4 with
      | none => simp only [Rs.resOpt, Ctl.val_bind', Ctl.ret_bind', Ctl.run_ret']
      | some w =>
        rw [hw] at hne
        have h8l := readU32At_some_len _ _ _ hw
        simp only [sliceFrom_model_ok value 8 (by omega)] at hne
        simp only [Rs.resOpt, Ctl.val_bind', Ctl.pure_eq', decode_jentry_agrees, Ctl.ofRes_ok', ← h8,
          sliceFrom_nat value 8 (by omega), sliceFrom_model_ok value 8 (by omega)]
        have := scalar_convert_to_comparable_agrees (2 * value.length + 8) (g + 1) 0 (JE.ofWord w) (value.drop 8) buf
          (value.length + 8) hfuel (by omega) (by simp; omega) (by have := jeLen_lt w; simp only [JE.ofWord]; omega)
          (keysAreStrings_scalar value h w hk hh c1 hw) (map_ne_fuel _ _ hne)
        simp only [ofJE, JE.ofWord] at this ⊢
        rw [← h0]
        generalize Tr.scalar_convert_to_comparable (g + 1) ((0 : Nat) : Int) ⟨(jeType w : Nat), (jeLen w : Nat)⟩ (value.drop 8) buf = r at this ⊢
        rw [← this]
        cases r <;> rfl
    simp only [if_neg c1] at hne ⊢
    have hkc := keysAreStrings_container value h hk hh c1
    have hL : Rs.cast .usize ((h &&& C.CONTAINER_HEADER_LEN_MASK : Nat) : Int) = ((hdrLen h : Nat) : Int) := by
      have := hdrLen_cast h
      rwa [Rs.bitand_natCast] at this
    by_cases c2 : hdrType h = C.ARRAY_CONTAINER_TAG
    · simp only [if_pos c2, sliceFrom_model_ok value 4 (by omega)] at hne
      simp only [if_pos c2, pushByte_zero, pushByte_nat, hL, add_u8_one, Ctl.ofRes_ok', Ctl.val_bind', ← h4,
        sliceFrom_nat value 4 (by omega), sliceFrom_model_ok value 4 (by omega)]
      obtain ⟨k2, hk2⟩ := kasContainer_arr _ value h hkc hh c2
      have := array_key_step g (2 * value.length + 8) 1 (hdrLen h) (value.drop 4) (buf ++ [UInt8.ofNat 0] ++ [UInt8.ofNat C.ARRAY_LEVEL])
        k2 (by omega) (hdrLen_lt h) (by simp; omega)
        (keyRecOK_of_IH _ g (fun f' _ => keyAgree_all f') (by omega)) hk2 (map_ne_fuel _ _ hne)
      rw [← h1']
      generalize Tr.array_convert_to_comparable (g + 1) ((1 : Nat) : Int) ((hdrLen h : Nat) : Int) (value.drop 4)
        (buf ++ [UInt8.ofNat 0] ++ [UInt8.ofNat C.ARRAY_LEVEL]) = r at this ⊢
      rw [show (fun k => buf ++ ([0, UInt8.ofNat C.ARRAY_LEVEL] ++ k)) = (fun k => buf ++ [UInt8.ofNat 0] ++ [UInt8.ofNat C.ARRAY_LEVEL] ++ k) from by
        funext k; simp]
      rw [← this]
      cases r <;> rfl
    simp only [if_neg c2] at hne ⊢
    by_cases c3 : hdrType h = C.OBJECT_CONTAINER_TAG
    · simp only [if_pos c3, sliceFrom_model_ok value 4 (by omega)] at hne
      simp only [if_pos c3, pushByte_zero, pushByte_nat, hL, add_u8_one, Ctl.ofRes_ok', Ctl.val_bind', ← h4,
        sliceFrom_nat value 4 (by omega), sliceFrom_model_ok value 4 (by omega)]
      obtain ⟨k2, hk2⟩ := kasContainer_obj _ value h hkc hh c3
      obtain ⟨F, hF⟩ : ∃ m, 2 * value.length + 8 = m + 1 := ⟨2 * value.length + 7, by omega⟩
      rw [hF] at hne ⊢
      have := object_key_step g F 1 (hdrLen h) (value.drop 4) (buf ++ [UInt8.ofNat 0] ++ [UInt8.ofNat C.OBJECT_LEVEL])
        k2 (by omega) (hdrLen_lt h) (by simp; omega)
        (keyRecOK_of_IH _ g (fun f' _ => keyAgree_all f') (by omega)) hk2 (map_ne_fuel _ _ hne)
      rw [← h1']
      generalize Tr.object_convert_to_comparable (g + 1) ((1 : Nat) : Int) ((hdrLen h : Nat) : Int) (value.drop 4)
        (buf ++ [UInt8.ofNat 0] ++ [UInt8.ofNat C.OBJECT_LEVEL]) = r at this ⊢
      rw [show (fun k => buf ++ ([0, UInt8.ofNat C.OBJECT_LEVEL] ++ k)) = (fun k => buf ++ [UInt8.ofNat 0] ++ [UInt8.ofNat C.OBJECT_LEVEL] ++ k) from by
        funext k; simp]
      rw [← this]
      cases r <;> rfl
    simp only [if_neg c3, Ctl.run_ret']

/-- **C14, source-level corollary**: on the encoding of a good document (that `is_jsonb` recognises) whose nesting depth
fits the `u8` depth counter, the translated `convert_to_comparable` IS the model's `convertToComparable` (and appends
the tree-level key `Spec.keyOf 0 v`), for every adequate fuel and whatever the text branch holds -/
theorem convert_to_comparable_encodeSpec_agrees (v : JV) (hg : goodTop v = true) (hd : Spec.cdepth v ≤ 255)
    (hj : isJsonb (encodeSpec v) = true) (buf : Bytes) (fuel : Nat) (hfuel : 2 * (encodeSpec v).length + 8 < fuel)
    (text : Res Bytes) :
    Tr.convert_to_comparable fuel (encodeSpec v) buf text = Fn.convertToComparable (encodeSpec v) buf := by
  have hr := Fn.convertToComparable_refines v hg hd buf
  refine panicAny_eq _ _ (convert_to_comparable_jsonb_agrees fuel _ buf text hj hfuel (encodeSpec_length_lt v hg)
    (keysAreStrings_encodeSpec v hg) ?_) ?_
  · rw [hr]; exact fun c => by cases c
  · rw [hr]; rfl

theorem convert_to_comparable_encodeSpec_spec (v : JV) (hg : goodTop v = true) (hd : Spec.cdepth v ≤ 255)
    (hj : isJsonb (encodeSpec v) = true) (buf : Bytes) (fuel : Nat) (hfuel : 2 * (encodeSpec v).length + 8 < fuel)
    (text : Res Bytes) :
    Tr.convert_to_comparable fuel (encodeSpec v) buf text = .ok (buf ++ Spec.keyOf 0 v) := by
  rw [convert_to_comparable_encodeSpec_agrees v hg hd hj buf fuel hfuel, Fn.convertToComparable_refines v hg hd buf]

end Jsonb.TrAgree
