/-
Phase 6c, renderer.  I3: the object arm of `container_to_string` — the loop that collects the key offsets
(= `Walk.fillKeys`) and the member loop (= `Fn.objectItems`).
-/
import JsonbModel.Proofs.TranslatedAgreeI2

set_option linter.unusedSimpArgs false
set_option linter.unusedVariables false

namespace Jsonb.TrAgree
open Jsonb.Rs

/-- the queue `keys` of `container_to_string`: (start, end) of every key, from the key lengths -/
def keyPairs : Nat → List Nat → List (Int × Int)
  | _, [] => []
  | ko, k :: ks => ((ko : Int), ((ko + k : Nat) : Int)) :: keyPairs (ko + k) ks

theorem cts_loop2_step (value : Bytes) (offset : Int) (json : Bytes) (i : Int) (keys : List (Int × Int)) (jo ko : Nat)
    (hjo : jo + 4 < 18446744073709551616) (hko : ko + 268435456 < 18446744073709551616) :
    Tr.container_to_string.loop2 value offset json i (keys, (jo : Int), (ko : Int)) =
      match readU32At value jo with
      | none => Ctl.ret (.err "InvalidEOF")
      | some w => Ctl.val (.next (keys ++ [((ko : Int), ((ko + jeLen w : Nat) : Int))], ((jo + 4 : Nat) : Int),
          ((ko + jeLen w : Nat) : Int))) := by
  unfold Tr.container_to_string.loop2
  dsimp only
  rw [read_u32_agrees value jo (Rs.le_max_of_lt hjo)]
  cases hr : readU32At value jo with
  | none => simp only [Ctl.ofRes_err', Ctl.ret_bind', Rs.loopStep_err']
  | some w =>
    have hl := jeLen_lt w
    have h4 : ((4 : Nat) : Int) = 4 := rfl
    simp only [Ctl.val_bind', Ctl.pure_eq', decode_jentry_agrees, Ctl.ofRes_ok', ← h4,
      Rs.add_usize_nat jo 4 hjo, Rs.usize_nat (jeLen w) (by omega), Rs.add_usize_nat ko (jeLen w) (by omega),
      Rs.pushBack, Rs.loopStep_val']

/-- the first loop of the object arm collects `fillKeys` -/
theorem cts_loop2_run (value : Bytes) (offset : Int) (json : Bytes) :
    ∀ (n : Nat) (i : Int) (keys : List (Int × Int)) (jo ko : Nat),
      jo + 4 * n < 9223372036854775808 → ko + n * 268435456 < 9223372036854775808 →
      Rs.forRangeAux (Tr.container_to_string.loop2 value offset json) n i (keys, (jo : Int), (ko : Int)) =
        match fillKeys value n jo ko with
        | none => Ctl.ret (.err "InvalidEOF")
        | some (ks, jo', vo') => Ctl.val (keys ++ keyPairs ko ks, (jo' : Int), (vo' : Int)) := by
  intro n
  induction n with
  | zero =>
    intro i keys jo ko _ _
    simp only [fillKeys, Rs.forRangeAux_zero, keyPairs, List.append_nil]
  | succ n ih =>
    intro i keys jo ko hjo hko
    have hs := cts_loop2_step value offset json i keys jo ko (by omega) (by omega)
    simp only [fillKeys]
    cases hr : readU32At value jo with
    | none =>
      rw [hr] at hs
      exact Rs.forRangeAux_ret _ _ _ _ _ hs
    | some w =>
      rw [hr] at hs
      have hl := jeLen_lt w
      rw [Rs.forRangeAux_next _ _ _ _ _ hs, ih (i + 1) _ (jo + 4) (ko + jeLen w) (by omega) (by omega)]
      dsimp only
      cases hf : fillKeys value n (jo + 4) (ko + jeLen w) with
      | none => rfl
      | some q =>
        obtain ⟨ks, jo', vo'⟩ := q
        simp only [keyPairs, List.append_assoc, List.singleton_append]

/-! ## the object members -/

theorem cts_loop3_step (rec : RenderFn) (value : Bytes) (offset : Int) (pretty : Bool) (ind0 : Int) (indent : Nat)
    (i : Int) (k : Nat) (hi : i = (k : Int)) (json : Bytes) (ko klen : Nat) (keys : List (Int × Int)) (jo vo : Int)
    (hind : indent < 9223372036854775808) (hlen : value.length < 4611686018427387904)
    (hkey : strOK value ko (ko + klen) = true) (kt : Bytes) (hk : Fn.escapeString value ko (ko + klen) = .ok kt) :
    Tr.container_to_string.loop3 rec value offset ⟨pretty, ind0⟩ ⟨pretty, (indent : Int)⟩ i
        (json, ((ko : Int), ((ko + klen : Nat) : Int)) :: keys, jo, vo) =
      match rec value jo vo (json ++ itemPre pretty k indent ++ kt ++ (if pretty then Fn.lit ": " else Fn.lit ":"))
          ⟨pretty, (indent : Int)⟩ with
      | .ok r => Ctl.val (.next (r.2.2, keys, r.1, r.2.1))
      | .err e => Ctl.ret (.err e)
      | .panic s => Ctl.ret (.panic s)
      | .fuel => Ctl.ret .fuel := by
  subst hi
  obtain ⟨hin, hutf⟩ := strOK_spec hkey
  have hesc : ∀ j : Bytes, Tr.escape_scalar_string value (ko : Int) ((ko + klen : Nat) : Int) j = .ok (j ++ kt) := by
    intro j
    rw [escape_scalar_string_agrees value ko (ko + klen) j (by omega) hin (by omega) hutf, hk]
    rfl
  unfold Tr.container_to_string.loop3 itemPre
  dsimp only
  have hkd : decide (((k : Nat) : Int) > 0) = decide (k > 0) := by
    by_cases h : k > 0
    · have : ((k : Nat) : Int) > 0 := by omega
      simp [h, this]
    · have : ¬ ((k : Nat) : Int) > 0 := by omega
      simp [h, this]
  rw [hkd]
  cases pretty
  · by_cases h : k > 0
    · simp only [h, decide_true, if_true, Bool.false_eq_true, if_false, Ctl.pure_eq', Ctl.val_bind', pushChar_eq,
        encodeChar_comma, encodeChar_colon, List.append_nil, Rs.popFront, Rs.unwrap, Ctl.ofRes_ok', hesc,
        List.append_assoc]
      cases rec value jo vo (json ++ (Fn.lit "," ++ (kt ++ Fn.lit ":"))) ⟨false, (indent : Int)⟩ with
      | ok r => simp only [Ctl.ofRes_ok', Ctl.val_bind', Rs.loopStep_val']
      | err e => simp only [Ctl.ofRes_err', Ctl.ret_bind', Rs.loopStep_err']
      | panic s => simp only [Ctl.ofRes_panic', Ctl.ret_bind', Rs.loopStep_panic']
      | fuel => rfl
    · simp only [h, decide_false, Bool.false_eq_true, if_false, Ctl.pure_eq', Ctl.val_bind', pushChar_eq,
        encodeChar_colon, List.append_nil, Rs.popFront, Rs.unwrap, Ctl.ofRes_ok', hesc, List.append_assoc,
        List.nil_append]
      cases rec value jo vo (json ++ (kt ++ Fn.lit ":")) ⟨false, (indent : Int)⟩ with
      | ok r => simp only [Ctl.ofRes_ok', Ctl.val_bind', Rs.loopStep_val']
      | err e => simp only [Ctl.ofRes_err', Ctl.ret_bind', Rs.loopStep_err']
      | panic s => simp only [Ctl.ofRes_panic', Ctl.ret_bind', Rs.loopStep_panic']
      | fuel => rfl
  · by_cases h : k > 0
    · simp only [h, decide_true, if_true, Ctl.pure_eq', Ctl.val_bind', pushStr_eq, strLit_eq_lit,
        generate_indent_agrees true indent hind, Ctl.ofRes_ok', List.append_assoc, Rs.popFront, Rs.unwrap, hesc]
      cases rec value jo vo (json ++ (Fn.lit ",\n" ++ (Fn.spaces indent ++ (kt ++ Fn.lit ": ")))) ⟨true, (indent : Int)⟩ with
      | ok r => simp only [Ctl.ofRes_ok', Ctl.val_bind', Rs.loopStep_val']
      | err e => simp only [Ctl.ofRes_err', Ctl.ret_bind', Rs.loopStep_err']
      | panic s => simp only [Ctl.ofRes_panic', Ctl.ret_bind', Rs.loopStep_panic']
      | fuel => rfl
    · simp only [h, decide_false, Bool.false_eq_true, if_false, if_true, Ctl.pure_eq', Ctl.val_bind', pushStr_eq,
        strLit_eq_lit, generate_indent_agrees true indent hind, Ctl.ofRes_ok', List.nil_append, Rs.popFront, Rs.unwrap,
        hesc, List.append_assoc]
      cases rec value jo vo (json ++ (Fn.spaces indent ++ (kt ++ Fn.lit ": "))) ⟨true, (indent : Int)⟩ with
      | ok r => simp only [Ctl.ofRes_ok', Ctl.val_bind', Rs.loopStep_val']
      | err e => simp only [Ctl.ofRes_err', Ctl.ret_bind', Rs.loopStep_err']
      | panic s => simp only [Ctl.ofRes_panic', Ctl.ret_bind', Rs.loopStep_panic']
      | fuel => rfl

/-- under `strOK` the model's `escapeString` answers -/
theorem escapeString_ok (value : Bytes) (s e : Nat) (hse : s ≤ e) (h : strOK value s e = true) :
    ∃ kt, Fn.escapeString value s e = .ok kt := by
  obtain ⟨hin, _⟩ := strOK_spec h
  unfold Fn.escapeString Jsonb.slice
  rw [if_pos ⟨hse, hin⟩]
  exact ⟨_, rfl⟩

/-- the member loop of the object arm is the model's `objectItems` -/
theorem cts_obj_run (fmt : Nat → Bytes) (rec : RenderFn) (value : Bytes) (offset : Int) (pretty : Bool) (ind0 : Int)
    (indent : Nat) (hlen : value.length < 4611686018427387904) :
    ∀ (ks : List Nat) (f : Nat) (i : Int) (k ko jo vo : Nat) (json : Bytes), i = (k : Int) → RenderRecOK fmt f value rec →
      jo + 4 * ks.length < 9223372036854775808 → vo + ks.length * 268435456 < 9223372036854775808 →
      indent + 2 * f < 9223372036854775808 → ruKeys value ks ko = true → ruItems f value ks.length jo vo = true →
      LoopRes (Rs.forRangeAux (Tr.container_to_string.loop3 rec value offset ⟨pretty, ind0⟩ ⟨pretty, (indent : Int)⟩)
          ks.length i (json, keyPairs ko ks, (jo : Int), (vo : Int))) (fun s => s.1) json
        (Fn.objectItems fmt f value ks k ko jo vo pretty indent) := by
  intro ks
  induction ks with
  | nil =>
    intro f i k ko jo vo json hi hrec hjo hvo hind hrk hru
    cases f with
    | zero => simp only [Fn.objectItems, LoopRes]
    | succ f =>
      simp only [Fn.objectItems, LoopRes, List.length_nil, Rs.forRangeAux_zero]
      exact ⟨_, rfl, by simp⟩
  | cons klen ks ih =>
    intro f i k ko jo vo json hi hrec hjo hvo hind hrk hru
    cases f with
    | zero => simp only [Fn.objectItems, LoopRes]
    | succ f =>
      simp only [List.length_cons] at hjo hvo hru ⊢
      simp only [ruKeys, Bool.and_eq_true] at hrk
      obtain ⟨hru1, hru2⟩ := ruItems_succ f value ks.length jo vo hru
      obtain ⟨kt, hkt⟩ := escapeString_ok value ko (ko + klen) (by omega) hrk.1
      have hstep := cts_loop3_step rec value offset pretty ind0 indent i k hi json ko klen (keyPairs (ko + klen) ks)
        (jo : Int) (vo : Int) (by omega) hlen hrk.1 kt hkt
      rw [Fn.objectItems, hkt]
      dsimp only
      simp only [keyPairs]
      generalize hj1 : json ++ itemPre pretty k indent ++ kt ++ (if pretty then Fn.lit ": " else Fn.lit ":") = json1 at hstep
      cases hm : Fn.scalarToString fmt f value jo vo pretty indent with
      | fuel => simp only [LoopRes]
      | err e =>
        have hcall := hrec f (by omega) jo vo json1 pretty indent (by omega) (by omega) (by omega)
          hru1 (by rw [hm]; exact fun c => by cases c)
        rw [hm] at hcall
        simp only [scalarOut, Res.map, Res.bind] at hcall
        rw [hcall] at hstep
        simp only [LoopRes]
        exact Rs.forRangeAux_ret _ _ _ _ _ hstep
      | panic s =>
        have hcall := hrec f (by omega) jo vo json1 pretty indent (by omega) (by omega) (by omega)
          hru1 (by rw [hm]; exact fun c => by cases c)
        rw [hm] at hcall
        simp only [scalarOut, Res.map, Res.bind] at hcall
        rw [hcall] at hstep
        simp only [LoopRes]
        exact Rs.forRangeAux_ret _ _ _ _ _ hstep
      | ok r =>
        obtain ⟨t, len⟩ := r
        obtain ⟨w, hw, hlenw⟩ := scalarToString_len fmt f value jo vo pretty indent t len hm
        have hll := jeLen_lt w
        have hcall := hrec f (by omega) jo vo json1 pretty indent (by omega) (by omega) (by omega)
          hru1 (by rw [hm]; exact fun c => by cases c)
        rw [hm] at hcall
        simp only [scalarOut, Res.map, Res.bind] at hcall
        rw [hcall] at hstep
        dsimp only at hstep
        rw [Rs.forRangeAux_next _ _ _ _ _ hstep]
        have hnext := ih f (i + 1) (k + 1) (ko + klen) (jo + 4) (vo + len) (json1 ++ t)
          (by omega) (hrec.mono (by omega)) (by omega) (by subst hlenw; omega) (by omega) hrk.2
          (by subst hlenw; exact hru2 w hw)
        dsimp only
        cases hrest : Fn.objectItems fmt f value ks (k + 1) (ko + klen) (jo + 4) (vo + len) pretty indent with
        | fuel => simp only [LoopRes]
        | err e => rw [hrest] at hnext; simpa only [LoopRes] using hnext
        | panic s => rw [hrest] at hnext; simpa only [LoopRes] using hnext
        | ok rest =>
          rw [hrest] at hnext
          simp only [LoopRes] at hnext ⊢
          obtain ⟨s, hs1, hs2⟩ := hnext
          refine ⟨s, hs1, ?_⟩
          rw [hs2, ← hj1]
          simp only [itemPre, List.append_assoc]

end Jsonb.TrAgree
