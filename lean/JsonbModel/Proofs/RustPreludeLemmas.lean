/-
Lemmas about the primitives of `RustPrelude.lean` (ranges as numerals, casts inside the range,
checked arithmetic that does not overflow, big-endian bytes).  Proof support for the agreement
theorems of `Proofs/TranslatedAgree*.lean`; nothing here is a property statement.
-/
import JsonbModel.RustPrelude

namespace Jsonb.Rs

open IntTy

/-! ### `MIN` / `MAX` as numerals -/

@[simp] theorem minVal_i8 : IntTy.i8.minVal = -128 := by decide
@[simp] theorem maxVal_i8 : IntTy.i8.maxVal = 127 := by decide
@[simp] theorem minVal_i16 : IntTy.i16.minVal = -32768 := by decide
@[simp] theorem maxVal_i16 : IntTy.i16.maxVal = 32767 := by decide
@[simp] theorem minVal_i32 : IntTy.i32.minVal = -2147483648 := by decide
@[simp] theorem maxVal_i32 : IntTy.i32.maxVal = 2147483647 := by decide
@[simp] theorem minVal_i64 : IntTy.i64.minVal = -9223372036854775808 := by decide
@[simp] theorem maxVal_i64 : IntTy.i64.maxVal = 9223372036854775807 := by decide
@[simp] theorem minVal_isize : IntTy.isize.minVal = -9223372036854775808 := by decide
@[simp] theorem maxVal_isize : IntTy.isize.maxVal = 9223372036854775807 := by decide
@[simp] theorem minVal_i128 : IntTy.i128.minVal = -170141183460469231731687303715884105728 := by decide
@[simp] theorem maxVal_i128 : IntTy.i128.maxVal = 170141183460469231731687303715884105727 := by decide
@[simp] theorem minVal_u8 : IntTy.u8.minVal = 0 := by decide
@[simp] theorem maxVal_u8 : IntTy.u8.maxVal = 255 := by decide
@[simp] theorem minVal_u16 : IntTy.u16.minVal = 0 := by decide
@[simp] theorem maxVal_u16 : IntTy.u16.maxVal = 65535 := by decide
@[simp] theorem minVal_u32 : IntTy.u32.minVal = 0 := by decide
@[simp] theorem maxVal_u32 : IntTy.u32.maxVal = 4294967295 := by decide
@[simp] theorem minVal_u64 : IntTy.u64.minVal = 0 := by decide
@[simp] theorem maxVal_u64 : IntTy.u64.maxVal = 18446744073709551615 := by decide
@[simp] theorem minVal_usize : IntTy.usize.minVal = 0 := by decide
@[simp] theorem maxVal_usize : IntTy.usize.maxVal = 18446744073709551615 := by decide
@[simp] theorem minVal_u128 : IntTy.u128.minVal = 0 := by decide
@[simp] theorem maxVal_u128 : IntTy.u128.maxVal = 340282366920938463463374607431768211455 := by decide

theorem inRange_iff (t : IntTy) (x : Int) : t.InRange x ↔ t.minVal ≤ x ∧ x ≤ t.maxVal := Iff.rfl

/-! ### casts and checked arithmetic inside the range -/

theorem wrap_of_inRange (t : IntTy) (x : Int) (h : t.InRange x) : wrap t x = x := by
  rw [inRange_iff] at h
  cases t <;> simp [wrap, IntTy.bits, IntTy.signed] at h ⊢ <;> omega

theorem cast_of_inRange (t : IntTy) (x : Int) (h : t.InRange x) : cast t x = x :=
  wrap_of_inRange t x h

theorem wrap_inRange (t : IntTy) (x : Int) : t.InRange (wrap t x) := by
  rw [inRange_iff]
  cases t <;> simp [wrap, IntTy.bits, IntTy.signed] <;> omega

theorem checked_ok (t : IntTy) (s : String) (x : Int) (h : t.InRange x) : checked t s x = .ok x := by
  simp [checked, h]

theorem checked_panic (t : IntTy) (s : String) (x : Int) (h : ¬ t.InRange x) :
    checked t s x = .panic s := by
  simp [checked, h]

theorem add_ok (t : IntTy) (a b : Int) (h : t.InRange (a + b)) : add t a b = .ok (a + b) :=
  checked_ok _ _ _ h
theorem sub_ok (t : IntTy) (a b : Int) (h : t.InRange (a - b)) : sub t a b = .ok (a - b) :=
  checked_ok _ _ _ h
theorem neg_ok (t : IntTy) (a : Int) (h : t.InRange (-a)) : neg t a = .ok (-a) :=
  checked_ok _ _ _ h

/-! ### big-endian bytes -/

theorem toBeBytes_wrap (t : IntTy) (x : Int) : toBeBytes t (wrap t x) = toBeBytes t x := by
  have key : wrap t x % ((2 ^ t.bits : Nat) : Int) = x % ((2 ^ t.bits : Nat) : Int) := by
    cases t <;> simp [wrap, IntTy.bits, IntTy.signed] <;> omega
  unfold toBeBytes
  rw [key]

theorem toBeBytes_cast (t : IntTy) (x : Int) : toBeBytes t (cast t x) = toBeBytes t x :=
  toBeBytes_wrap t x

@[simp] theorem unwrap_some {α : Type} (a : α) : unwrap (some a) = .ok a := rfl
@[simp] theorem tryIntoArray_self (s : Bytes) : tryIntoArray s.length s = some s := by
  simp [tryIntoArray]
theorem tryIntoArray_of_length (n : Nat) (s : Bytes) (h : s.length = n) : tryIntoArray n s = some s := by
  simp [tryIntoArray, h]

@[simp] theorem bitand_natCast (a b : Nat) : bitand (a : Int) (b : Int) = ((a &&& b : Nat) : Int) := by
  simp [bitand]
@[simp] theorem bitor_natCast (a b : Nat) : bitor (a : Int) (b : Int) = ((a ||| b : Nat) : Int) := by
  simp [bitor]

@[simp] theorem u8_natCast (n : Nat) : u8 (n : Int) = UInt8.ofNat n := by simp [u8]

@[simp] theorem writeAll_eq (w bs : Bytes) : writeAll w bs = .ok (w ++ bs) := rfl

end Jsonb.Rs
