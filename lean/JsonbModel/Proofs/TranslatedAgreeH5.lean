/-
Agreement theorems, phase 6b, part 5: `parse_string` (util.rs; `while !data.is_empty()` on
`Rs.whileFuel (data.len() + 1)`) against the model's `JP.parseString` for EVERY byte string, modulo the panic texts
and the name of the `io::Error` (`RSim`).  The bound of the loop is the model's own fuel: both count one unit per
iteration, and every iteration consumes at least one byte (`parseEscaped_len`).
-/
import JsonbModel.Proofs.TranslatedAgreeH4

set_option linter.unusedSimpArgs false
set_option linter.unusedVariables false

namespace Jsonb.TrAgree
open Jsonb.Rs

/-! ## the model's escape reader never returns more data than it was given -/

theorem pairLow_len {numbers : Bytes} {hex : Nat} {data d' out : Bytes}
    (h : JP.pairLow numbers hex data = .ok (d', out)) : d'.length ≤ data.length := by
  unfold JP.pairLow at h
  cases hr : JP.readHex4 "parse_escaped_string(low surrogate):" data with
  | ok c =>
    obtain ⟨-, hl⟩ := readHex4_ok hr
    rw [hr] at h
    simp only [rb_ok] at h
    cases hd : JP.decodeHexEscape c.1 0 with
    | ok n2 =>
      rw [hd] at h
      simp only [rb_ok] at h
      split at h
      · simp only [rb_pure] at h; cases h; omega
      · cases hp : JP.pairCombine hex n2 with
        | ok ch => rw [hp] at h; simp only [rb_ok, rb_pure] at h; cases h; omega
        | err e => rw [hp] at h; cases h
        | panic s => rw [hp] at h; cases h
        | fuel => rw [hp] at h; cases h
    | err e => rw [hd] at h; cases h
    | panic s => rw [hd] at h; cases h
    | fuel => rw [hd] at h; cases h
  | err e => rw [hr] at h; cases h
  | panic s => rw [hr] at h; cases h
  | fuel => rw [hr] at h; cases h

theorem afterHex_len {numbers data d' out : Bytes}
    (h : JP.afterHex numbers data = .ok (d', out)) : d'.length ≤ data.length := by
  unfold JP.afterHex at h
  cases hd : JP.decodeHexEscape numbers 0 with
  | ok hex =>
    rw [hd] at h
    simp only [rb_ok] at h
    split at h
    · simp only [rb_pure] at h; cases h; omega
    · split at h
      · split at h
        · simp only [rb_pure] at h; cases h; omega
        · cases h0 : JP.data0 "parse_escaped_string(surrogate): data[0]" data with
          | ok d0 =>
            rw [h0] at h
            simp only [rb_ok] at h
            generalize hb : (if (d0 == 92) = true then do
                let d1 ← JP.bufIndex "parse_escaped_string(surrogate): data[1]" data 1
                pure (d1 == 117)
              else pure false : Res Bool) = rb at h
            cases rb with
            | ok isBsU =>
              simp only [rb_ok] at h
              split at h
              · simp only [rb_pure] at h; cases h; omega
              · cases hdf : JP.dataFrom "parse_escaped_string(surrogate): &data[2..]" data 2 with
                | ok dd =>
                  obtain ⟨hdde, hdle⟩ := dataFrom_ok hdf
                  rw [hdf] at h
                  simp only [rb_ok] at h
                  have := pairLow_len h
                  have hddl : dd.length = data.length - 2 := by rw [hdde, List.length_drop]
                  omega
                | err e => rw [hdf] at h; cases h
                | panic s => rw [hdf] at h; cases h
                | fuel => rw [hdf] at h; cases h
            | err e => cases h
            | panic s => cases h
            | fuel => cases h
          | err e => rw [h0] at h; cases h
          | panic s => rw [h0] at h; cases h
          | fuel => rw [h0] at h; cases h
      · cases hc : JP.charFromU32 "parse_escaped_string(bmp)" hex with
        | ok ch => rw [hc] at h; simp only [rb_ok, rb_pure] at h; cases h; omega
        | err e => rw [hc] at h; cases h
        | panic s => rw [hc] at h; cases h
        | fuel => rw [hc] at h; cases h
  | err e => rw [hd] at h; cases h
  | panic s => rw [hd] at h; cases h
  | fuel => rw [hd] at h; cases h

theorem parseEscaped_len {data d' out : Bytes} (h : JP.parseEscaped data = .ok (d', out)) :
    d'.length < data.length := by
  unfold JP.parseEscaped at h
  cases data with
  | nil => cases h
  | cons byte d1 =>
    simp only [JP.data0, JP.dataFrom, rb_ok, List.length_cons, List.drop_succ_cons, List.drop_zero] at h
    rw [if_pos (by omega)] at h
    simp only [rb_ok] at h
    repeat' split at h
    all_goals first
      | (simp only [rb_pure] at h; cases h; simp only [List.length_cons]; omega)
      | (cases h)
      | skip
    cases hr : JP.readHex4 "parse_escaped_string(u):" d1 with
    | ok c =>
      obtain ⟨-, hl⟩ := readHex4_ok hr
      rw [hr] at h
      simp only [rb_ok] at h
      have := afterHex_len h
      simp only [List.length_cons]; omega
    | err e => rw [hr] at h; cases h
    | panic s => rw [hr] at h; cases h
    | fuel => rw [hr] at h; cases h

/-! ## parse_string -/

theorem tp_isEmpty_nil : Rs.isEmpty ([] : Bytes) = true := rfl
theorem tp_isEmpty_cons (b : UInt8) (r : Bytes) : Rs.isEmpty (b :: r) = false := rfl

/-- the loop of `parse_string` at the end of the data -/
theorem ps_loop1_nil (acc : Bytes) (i : Int) :
    Tr.parse_string.loop1 (i, [], [], acc) = Ctl.val (.done (i, [], [], acc)) := by
  unfold Tr.parse_string.loop1
  simp only [tp_isEmpty_nil, Bool.not_true, Bool.not_false, if_true, Ctl.ret_bind', Rs.loopStep_brk']

/-- … on a byte that is copied -/
theorem ps_loop1_plain (byte : UInt8) (rest acc : Bytes) (idx : Nat) (h : idx + 1 < 18446744073709551600)
    (hb : (byte == 0x5C) = false) :
    Tr.parse_string.loop1 ((idx : Int), byte :: rest, [], acc) =
      Ctl.val (.next (((idx + 1 : Nat) : Int), rest, [], acc ++ [byte])) := by
  unfold Tr.parse_string.loop1
  have hi : Rs.index (byte :: rest) (0 : Int) = .ok (byte.toNat : Int) := rfl
  have hs : Rs.sliceFrom (byte :: rest) (1 : Int) = .ok rest := by
    have := sliceFrom_nat (byte :: rest) 1 (by simp)
    simpa using this
  simp only [tp_isEmpty_cons, Bool.not_false, Bool.not_true, Bool.false_eq_true, if_false, Ctl.pure_eq', Ctl.val_bind',
    tp_add_usize idx 1 (idx + 1) (by omega) (by omega), Ctl.ofRes_ok', hi, hs, tp_beq_lit _ 0x5C 92 rfl, hb,
    Rs.pushByte, tp_u8_toNat, Rs.loopStep_val']

/-- … on an escape: one call of `parse_escaped_string` on the rest -/
theorem ps_loop1_esc (rest acc : Bytes) (idx : Nat) (h : idx + 1 + rest.length < 18446744073709551600) :
    CSim (Tr.parse_string.loop1 ((idx : Int), (0x5C : UInt8) :: rest, [], acc)) (JP.parseEscaped rest)
      (fun p => Rs.Step.next (((idx + 1 + rest.length - p.1.length : Nat) : Int), p.1, ([] : Bytes), acc ++ p.2)) := by
  unfold Tr.parse_string.loop1
  have hi : Rs.index ((0x5C : UInt8) :: rest) (0 : Int) = .ok ((0x5C : UInt8).toNat : Int) := rfl
  have hs : Rs.sliceFrom ((0x5C : UInt8) :: rest) (1 : Int) = .ok rest := by
    have := sliceFrom_nat ((0x5C : UInt8) :: rest) 1 (by simp)
    simpa using this
  have hsim := parse_escaped_string_sim rest [] (idx + 1) (by omega)
  simp only [tp_isEmpty_cons, Bool.not_false, Bool.not_true, Bool.false_eq_true, if_false, Ctl.pure_eq', Ctl.val_bind',
    tp_add_usize idx 1 (idx + 1) (by omega) (by omega), Ctl.ofRes_ok', hi, hs, tp_beq_lit _ 0x5C 92 rfl,
    beq_self_eq_true, if_true]
  cases hm : JP.parseEscaped rest with
  | ok p =>
    rw [hm] at hsim
    have : Tr.parse_escaped_string rest ((idx + 1 : Nat) : Int) [] = .ok (escRes (idx + 1) rest.length [] p) := hsim
    rw [this]
    simp only [Ctl.ofRes_ok', Ctl.val_bind', escRes, Rs.extendFromSlice, List.nil_append, Rs.loopStep_val']
    exact (rfl : (Ctl.val _ : Ctl (Bytes × Int) _) = _)
  | err e =>
    rw [hm] at hsim
    have : Tr.parse_escaped_string rest ((idx + 1 : Nat) : Int) [] = .err (normE e) := hsim
    rw [this]
    simp only [Ctl.ofRes_err', Ctl.ret_bind', Rs.loopStep_err']
    exact (rfl : (Ctl.ret _ : Ctl (Bytes × Int) _) = _)
  | panic s =>
    rw [hm] at hsim
    obtain ⟨s', hs'⟩ := (hsim : ∃ s, Tr.parse_escaped_string rest ((idx + 1 : Nat) : Int) [] = .panic s)
    rw [hs']
    simp only [Ctl.ofRes_panic', Ctl.ret_bind', Rs.loopStep_panic']
    exact ⟨s', rfl⟩
  | fuel =>
    rw [hm] at hsim
    have : Tr.parse_escaped_string rest ((idx + 1 : Nat) : Int) [] = .fuel := hsim
    rw [this]
    exact (rfl : (Ctl.ret _ : Ctl (Bytes × Int) _) = _)

/-- the loop of `parse_string` is the model's `parseStringLoop` — with the SAME fuel: one unit per iteration -/
theorem ps_run : ∀ (n : Nat) (data acc : Bytes) (idx : Nat), idx + data.length < 18446744073709551600 →
    CSim (Rs.whileFuel n ((idx : Int), data, ([] : Bytes), acc) Tr.parse_string.loop1)
      (JP.parseStringLoop n data acc)
      (fun out => (((idx + data.length : Nat) : Int), ([] : Bytes), ([] : Bytes), out)) := by
  intro n
  induction n with
  | zero => intro data acc idx h; exact (rfl : (Ctl.ret .fuel : Ctl (Bytes × Int) _) = _)
  | succ n ih =>
    intro data acc idx h
    rw [JP.parseStringLoop]
    cases data with
    | nil =>
      rw [Rs.whileFuel_done _ _ _ _ (ps_loop1_nil acc _)]
      exact (rfl : (Ctl.val _ : Ctl (Bytes × Int) _) = _)
    | cons byte rest =>
      simp only [List.length_cons] at h
      simp only [List.isEmpty_cons, Bool.false_eq_true, if_false, JP.data0, rb_ok, JP.dataFrom, List.length_cons,
        List.drop_succ_cons, List.drop_zero]
      have h1 : 1 ≤ rest.length + 1 := by omega
      simp only [if_pos h1]
      cases hb : (byte == 0x5C) with
      | false =>
        simp only [Bool.false_eq_true, if_false, rb_ok]
        rw [Rs.whileFuel_next _ _ _ _ (ps_loop1_plain byte rest acc idx (by omega) hb)]
        have := ih rest (acc ++ [byte]) (idx + 1) (by omega)
        have e : idx + 1 + rest.length = idx + (rest.length + 1) := by omega
        rw [e] at this
        exact this
      | true =>
        have hbe : byte = 0x5C := by simpa using hb
        subst hbe
        simp only [if_true, rb_ok]
        have hstep := ps_loop1_esc rest acc idx (by omega)
        cases hm : JP.parseEscaped rest with
        | ok p =>
          rw [hm] at hstep
          have hs : Tr.parse_string.loop1 ((idx : Int), (0x5C : UInt8) :: rest, [], acc) = Ctl.val _ := hstep
          rw [Rs.whileFuel_next _ _ _ _ hs]
          obtain ⟨d', out⟩ := p
          have hl := parseEscaped_len hm
          simp only [rb_ok]
          have := ih d' (acc ++ out) (idx + 1 + rest.length - d'.length) (by omega)
          have e : idx + 1 + rest.length - d'.length + d'.length = idx + (rest.length + 1) := by omega
          rw [e] at this
          exact this
        | err e =>
          rw [hm] at hstep
          have hs : Tr.parse_string.loop1 ((idx : Int), (0x5C : UInt8) :: rest, [], acc) = Ctl.ret _ := hstep
          rw [Rs.whileFuel_ret _ _ _ _ hs]
          exact (rfl : (Ctl.ret _ : Ctl (Bytes × Int) _) = _)
        | panic s =>
          rw [hm] at hstep
          obtain ⟨s', hs⟩ := (hstep : ∃ s, Tr.parse_string.loop1 ((idx : Int), (0x5C : UInt8) :: rest, [], acc) = Ctl.ret (.panic s))
          rw [Rs.whileFuel_ret _ _ _ _ hs]
          exact ⟨s', rfl⟩
        | fuel =>
          rw [hm] at hstep
          have hs : Tr.parse_string.loop1 ((idx : Int), (0x5C : UInt8) :: rest, [], acc) = Ctl.ret _ := hstep
          rw [Rs.whileFuel_ret _ _ _ _ hs]
          exact (rfl : (Ctl.ret _ : Ctl (Bytes × Int) _) = _)

theorem tp_vecWithCapacity_u8 (n : Nat) (h : n < 9223372036854775808) :
    Rs.vecWithCapacity UInt8 1 (n : Int) = .ok [] := by
  unfold Rs.vecWithCapacity
  rw [if_pos (by simp; omega)]

/-- **`parse_string(data, len, idx)`** for every byte string: the model's `JP.parseString` (modulo the panic texts
and the `io::Error` name), and the error position has advanced by the length of the data -/
theorem parse_string_sim (data : Bytes) (len idx : Nat) (hlen : len < 9223372036854775808)
    (h : idx + data.length < 18446744073709551600) :
    RSim (Tr.parse_string data (len : Int) (idx : Int)) (JP.parseString data)
      (fun out => (out, ((idx + data.length : Nat) : Int))) := by
  unfold Tr.parse_string JP.parseString
  have h4 : Rs.vecWithCapacity UInt8 1 (4 : Int) = .ok [] := tp_vecWithCapacity_u8 4 (by omega)
  simp only [tp_vecWithCapacity_u8 len hlen, h4, Ctl.ofRes_ok', Ctl.val_bind', tp_len, Int.toNat_natCast]
  show FSim _ _ _
  refine FSim_bind (ps_run (data.length + 1) data [] idx h) ?_
  intro out hout
  simp only [Rs.strFromUtf8]
  cases hv : validUtf8 out with
  | true =>
    simp only [if_true, Rs.mapErr, rm_ok, rb_pure]
    exact FSim_ret _ _ _ rfl
  | false =>
    simp only [Bool.false_eq_true, if_false, Rs.mapErr, rm_err]
    exact FSim_err _ _ _ rfl

end Jsonb.TrAgree
