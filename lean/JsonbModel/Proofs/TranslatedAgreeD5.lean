/-
Phase 4: `iterate_object_entries` / `ObjectEntryIterator::{fill_keys, next}` of iterator.rs, translated
from source (an `Option<VecDeque<JEntry>>` field filled on the first call), against `fillKeys` /
`iterObjLoop` / `iterObjEntries` of Walk.lean; `for (key, jentry, item) in iterate_object_entries(..)`.
-/
import JsonbModel.Proofs.TranslatedAgreeD3

set_option linter.unusedSimpArgs false
set_option linter.unusedVariables false

namespace Jsonb.TrAgree
open Jsonb.Rs

/-- an `ObjectEntryIterator` with natural-number fields -/
def objIt (value : Bytes) (jo ko vo length : Nat) (keys : Option (List Tr.JEntry)) : Tr.ObjectEntryIterator :=
  ⟨value, (jo : Int), (ko : Int), (vo : Int), (length : Int), keys⟩

/-- a key entry of the queue, with natural-number fields -/
def keyJE (ty len : Nat) : Tr.JEntry := ⟨(ty : Nat), (len : Nat)⟩

/-- the queue `fill_keys` builds: one decoded entry per key length of the model (the model keeps the
lengths only, the type codes are never read) -/
def KeysOf : List Tr.JEntry → List Nat → Prop
  | [], [] => True
  | kj :: kjs, k :: ks => (∃ ty : Nat, kj = keyJE ty k) ∧ KeysOf kjs ks
  | _, _ => False

theorem keysOf_append : ∀ (a : List Tr.JEntry) (b : List Nat) (ty k : Nat), KeysOf a b →
    KeysOf (a ++ [keyJE ty k]) (b ++ [k])
  | [], [], ty, k, _ => by simp only [List.nil_append, KeysOf, and_true]; exact ⟨ty, rfl⟩
  | kj :: kjs, k' :: ks, ty, k, h => by
    simp only [KeysOf, List.cons_append] at h ⊢
    exact ⟨h.1, keysOf_append kjs ks ty k h.2⟩
  | [], _ :: _, _, _, h => by simp [KeysOf] at h
  | _ :: _, [], _, _, h => by simp [KeysOf] at h

theorem iterate_object_entries_agrees (value : Bytes) (header : Nat) :
    Tr.iterate_object_entries value (header : Int) =
      .ok (objIt value 4 (4 + hdrLen header * 8) (4 + hdrLen header * 8) (hdrLen header) none) := by
  have hL := hdrLen_lt header
  unfold Tr.iterate_object_entries objIt
  simp (disch := omega) only [hdrLen_cast, Rs.mul_usize_ok', Rs.add_usize_ok', Ctl.ofRes_ok', Ctl.val_bind', Ctl.run_ret']
  congr 3 <;> omega

/-! ## `fill_keys` -/

/-- `fillKeys` with the lengths accumulated after `acc` -/
theorem fk_loop1_step (value : Bytes) (i : Int) (jo ko vo length : Nat) (k0 : Option (List Tr.JEntry))
    (acc : List Tr.JEntry) (hjo : jo + 4 < 18446744073709551616) (hvo : vo + 268435456 < 18446744073709551616) :
    Tr.ObjectEntryIterator.fill_keys.loop1 i (objIt value jo ko vo length k0, acc) =
      match readU32At value jo with
      | none => Ctl.ret (.ok (objIt value jo ko vo length none))
      | some w => Ctl.val (.next (objIt value (jo + 4) ko (vo + jeLen w) length k0, acc ++ [keyJE (jeType w) (jeLen w)])) := by
  unfold Tr.ObjectEntryIterator.fill_keys.loop1 objIt
  dsimp only
  rw [iterator_read_u32_agrees value jo (Rs.le_max_of_lt hjo)]
  cases hr : readU32At value jo with
  | none => simp only [Rs.resOpt, Ctl.val_bind', Ctl.ret_bind', Rs.loopStep_ret']
  | some w =>
    have hl := jeLen_lt w
    have h4 : ((4 : Nat) : Int) = 4 := rfl
    simp only [Rs.resOpt, Ctl.val_bind', Ctl.pure_eq', decode_jentry_agrees, Ctl.ofRes_ok', ← h4,
      Rs.add_usize_nat jo 4 hjo, Rs.usize_nat (jeLen w) (by omega), Rs.add_usize_nat vo (jeLen w) (by omega),
      Rs.pushBack, Rs.loopStep_val', keyJE]

theorem fk_run (value : Bytes) (ko length : Nat) (k0 : Option (List Tr.JEntry)) : ∀ (n : Nat) (i : Int) (jo vo : Nat)
    (acc : List Tr.JEntry) (accN : List Nat), KeysOf acc accN →
    jo + n * 4 + 4 < 18446744073709551616 → vo + n * 268435456 + 268435456 < 18446744073709551616 →
    match fillKeys value n jo vo with
    | none => ∃ it' : Tr.ObjectEntryIterator, it'.keys = none ∧
        Rs.forRangeAux Tr.ObjectEntryIterator.fill_keys.loop1 n i (objIt value jo ko vo length k0, acc) =
          (Ctl.ret (.ok it') : Ctl Tr.ObjectEntryIterator (Tr.ObjectEntryIterator × List Tr.JEntry))
    | some (ks, jo', vo') => ∃ kjs, KeysOf kjs (accN ++ ks) ∧
        Rs.forRangeAux Tr.ObjectEntryIterator.fill_keys.loop1 n i (objIt value jo ko vo length k0, acc) =
          Ctl.val (objIt value jo' ko vo' length k0, kjs) := by
  intro n
  induction n with
  | zero =>
    intro i jo vo acc accN hk _ _
    simp only [fillKeys]
    exact ⟨acc, by simpa using hk, by rw [Rs.forRangeAux_zero]⟩
  | succ n ih =>
    intro i jo vo acc accN hk hjo hvo
    have hs := fk_loop1_step value i jo ko vo length k0 acc (by omega) (by omega)
    simp only [fillKeys]
    cases hr : readU32At value jo with
    | none =>
      rw [hr] at hs
      exact ⟨_, rfl, Rs.forRangeAux_ret _ _ _ _ _ hs⟩
    | some w =>
      rw [hr] at hs
      have hl := jeLen_lt w
      simp only []
      have := ih (i + 1) (jo + 4) (vo + jeLen w) (acc ++ [keyJE (jeType w) (jeLen w)]) (accN ++ [jeLen w])
        (keysOf_append acc accN _ _ hk) (by omega) (by omega)
      cases hf : fillKeys value n (jo + 4) (vo + jeLen w) with
      | none =>
        rw [hf] at this
        obtain ⟨it', h1, h2⟩ := this
        exact ⟨it', h1, by rw [Rs.forRangeAux_next _ _ _ _ _ hs, h2]⟩
      | some q =>
        obtain ⟨ks, jo', vo'⟩ := q
        rw [hf] at this
        obtain ⟨kjs, h1, h2⟩ := this
        refine ⟨kjs, ?_, by rw [Rs.forRangeAux_next _ _ _ _ _ hs, h2]⟩
        simpa [List.append_assoc] using h1

/-- `fill_keys` on a fresh iterator: the model's `fillKeys` (`None` stays in `keys` after a short read) -/
theorem fill_keys_agrees (value : Bytes) (jo ko vo length : Nat) (k0 : Option (List Tr.JEntry))
    (hL : length < 536870912) (hjo : jo + length * 4 + 4 < 18446744073709551616)
    (hvo : vo + length * 268435456 + 268435456 < 18446744073709551616) :
    match fillKeys value length jo vo with
    | none => ∃ it' : Tr.ObjectEntryIterator, it'.keys = none ∧
        Tr.ObjectEntryIterator.fill_keys (objIt value jo ko vo length k0) = .ok it'
    | some (ks, jo', vo') => ∃ kjs, KeysOf kjs ks ∧
        Tr.ObjectEntryIterator.fill_keys (objIt value jo ko vo length k0) = .ok (objIt value jo' ko vo' length (some kjs)) := by
  have hrun := fk_run value ko length k0 length 0 jo vo [] [] (by simp [KeysOf]) hjo hvo
  have hcap : Rs.vecWithCapacity Tr.JEntry 8 ((length : Nat) : Int) = .ok [] := vecWithCapacity_ok _ _ _ (by omega)
  have hlenf : (objIt value jo ko vo length k0).length = ((length : Nat) : Int) := rfl
  cases hf : fillKeys value length jo vo with
  | none =>
    rw [hf] at hrun
    obtain ⟨it', h1, h2⟩ := hrun
    refine ⟨it', h1, ?_⟩
    unfold Tr.ObjectEntryIterator.fill_keys
    simp only [hlenf, hcap, Ctl.ofRes_ok', Ctl.val_bind', Rs.forRange_zero, h2, Ctl.ret_bind', Ctl.run_ret']
  | some q =>
    obtain ⟨ks, jo', vo'⟩ := q
    rw [hf] at hrun
    obtain ⟨kjs, h1, h2⟩ := hrun
    refine ⟨kjs, by simpa using h1, ?_⟩
    unfold Tr.ObjectEntryIterator.fill_keys
    simp only [hlenf, hcap, Ctl.ofRes_ok', Ctl.val_bind', Rs.forRange_zero, h2, Ctl.run_ret']
    rfl

/-! ## `next` on a filled iterator -/

def ofMember (m : Bytes × JE × Bytes) : Bytes × Tr.JEntry × Bytes := (m.1, ofJE m.2.1, m.2.2)

theorem obj_next_empty (value : Bytes) (jo ko vo length : Nat) :
    Tr.ObjectEntryIterator.next (objIt value jo ko vo length (some [])) =
      .ok (none, objIt value jo ko vo length (some [])) := by
  unfold Tr.ObjectEntryIterator.next objIt
  simp only [Option.isNone, Bool.false_eq_true, if_false, Ctl.pure_eq', Ctl.val_bind', Rs.unwrap, Ctl.ofRes_ok',
    Rs.popFrontOpt, Ctl.run_ret']

/-- one call of `next` with a key entry in the queue: the step of the model's `iterObjLoop` -/
theorem obj_next_cons (value : Bytes) (jo ko vo length : Nat) (ty klen : Nat) (rest : List Tr.JEntry)
    (hjo : jo + 4 < 18446744073709551616) (hko : ko + klen < 18446744073709551616) (hklen : klen < 18446744073709551616)
    (hvo : vo + 268435456 < 18446744073709551616) :
    Tr.ObjectEntryIterator.next (objIt value jo ko vo length (some (keyJE ty klen :: rest))) =
      match Jsonb.slice value ko (ko + klen) with
      | .ok key =>
        (match readU32At value jo with
         | none => .ok (none, objIt value jo (ko + klen) vo length (some rest))
         | some w =>
           match Jsonb.slice value vo (vo + jeLen w) with
           | .ok item => .ok (some (key, ofJE (JE.ofWord w), item), objIt value (jo + 4) (ko + klen) (vo + jeLen w) length (some rest))
           | .err e => .err e
           | .panic s => .panic s
           | .fuel => .fuel)
      | .err e => .err e
      | .panic s => .panic s
      | .fuel => .fuel := by
  unfold Tr.ObjectEntryIterator.next objIt keyJE
  simp only [Option.isNone, Bool.false_eq_true, if_false, Ctl.pure_eq', Ctl.val_bind', Rs.unwrap, Ctl.ofRes_ok',
    Rs.popFrontOpt, Rs.usize_nat klen hklen, Rs.add_usize_nat ko klen hko, slice_model]
  cases hk : Jsonb.slice value ko (ko + klen) with
  | err e => simp only [Ctl.ofRes_err', Ctl.ret_bind', Ctl.run_ret']
  | panic p => simp only [Ctl.ofRes_panic', Ctl.ret_bind', Ctl.run_ret']
  | fuel => rfl
  | ok key =>
    simp only [Ctl.ofRes_ok', Ctl.val_bind']
    rw [iterator_read_u32_agrees value jo (Rs.le_max_of_lt hjo)]
    cases hr : readU32At value jo with
    | none => simp only [Rs.okQ_err', Ctl.ret_bind', Ctl.run_ret']
    | some w =>
      have hl := jeLen_lt w
      have h4 : ((4 : Nat) : Int) = 4 := rfl
      simp only [Rs.okQ_ok', Ctl.val_bind', decode_jentry_agrees, Ctl.ofRes_ok', Rs.usize_nat (jeLen w) (by omega),
        Rs.add_usize_nat vo (jeLen w) (by omega), slice_model]
      cases hs : Jsonb.slice value vo (vo + jeLen w) with
      | err e => simp only [Ctl.ofRes_err', Ctl.ret_bind', Ctl.run_ret']
      | panic p => simp only [Ctl.ofRes_panic', Ctl.ret_bind', Ctl.run_ret']
      | fuel => rfl
      | ok item =>
        simp only [Ctl.ofRes_ok', Ctl.val_bind', ← h4, Rs.add_usize_nat jo 4 hjo,
          Rs.add_usize_nat vo (jeLen w) (by omega), Ctl.run_ret', ofJE, JE.ofWord]

/-- draining a filled iterator gives the list the model's `iterObjLoop` collects -/
theorem obj_drain_filled (value : Bytes) (length : Nat) : ∀ (ks : List Nat) (kjs : List Tr.JEntry) (jo ko vo : Nat),
    KeysOf kjs ks → (∀ k ∈ ks, k < 268435456) →
    jo + ks.length * 4 + 4 < 18446744073709551616 → ko + ks.length * 268435456 < 18446744073709551616 →
    vo + ks.length * 268435456 + 268435456 < 18446744073709551616 →
    drainIter Tr.ObjectEntryIterator.next (ks.length + 1) (objIt value jo ko vo length (some kjs)) =
      (iterObjLoop value ks ko jo vo).map (List.map ofMember)
  | [], [], jo, ko, vo, _, _, _, _, _ => by
    simp [drainIter, obj_next_empty, iterObjLoop, Res.map, Res.bind]
  | k :: ks, kj :: kjs, jo, ko, vo, hk, hks, hjo, hko, hvo => by
    simp only [KeysOf] at hk
    obtain ⟨⟨ty, rfl⟩, hk2⟩ := hk
    have hkl := hks k (by simp)
    simp only [List.length_cons] at hjo hko hvo ⊢
    rw [drainIter, obj_next_cons value jo ko vo length ty k kjs (by omega) (by omega) (by omega) (by omega), iterObjLoop]
    cases hsk : Jsonb.slice value ko (ko + k) with
    | err e => simp [Res.map, Res.bind]
    | panic p => simp [Res.map, Res.bind]
    | fuel => simp [Res.map, Res.bind]
    | ok key =>
      simp only []
      cases hr : readU32At value jo with
      | none => simp [Res.map, Res.bind]
      | some w =>
        have hl := jeLen_lt w
        simp only []
        cases hs : Jsonb.slice value vo (vo + jeLen w) with
        | err e => simp [Res.map, Res.bind]
        | panic p => simp [Res.map, Res.bind]
        | fuel => simp [Res.map, Res.bind]
        | ok item =>
          simp only []
          rw [obj_drain_filled value length ks kjs (jo + 4) (ko + k) (vo + jeLen w) hk2
            (fun k' hk' => hks k' (by simp [hk'])) (by omega) (by omega) (by omega)]
          cases iterObjLoop value ks (ko + k) (jo + 4) (vo + jeLen w) <;> simp [Res.map, Res.bind, ofMember]
  | [], _ :: _, _, _, _, hk, _, _, _, _ => by simp [KeysOf] at hk
  | _ :: _, [], _, _, _, hk, _, _, _, _ => by simp [KeysOf] at hk

/-! ## the whole iteration -/

theorem fillKeys_facts (value : Bytes) : ∀ (n jo vo : Nat) (ks : List Nat) (jo' vo' : Nat),
    fillKeys value n jo vo = some (ks, jo', vo') →
    ks.length = n ∧ (∀ k ∈ ks, k < 268435456) ∧ jo' = jo + n * 4 ∧ vo' ≤ vo + n * 268435456 := by
  intro n
  induction n with
  | zero =>
    intro jo vo ks jo' vo' h
    simp only [fillKeys, Option.some.injEq, Prod.mk.injEq] at h
    obtain ⟨rfl, rfl, rfl⟩ := h
    simp
  | succ n ih =>
    intro jo vo ks jo' vo' h
    simp only [fillKeys] at h
    cases hr : readU32At value jo with
    | none => rw [hr] at h; cases h
    | some w =>
      rw [hr] at h
      simp only [] at h
      have hl := jeLen_lt w
      cases hf : fillKeys value n (jo + 4) (vo + jeLen w) with
      | none => rw [hf] at h; cases h
      | some q =>
        obtain ⟨ks1, jo1, vo1⟩ := q
        rw [hf] at h
        simp only [Option.some.injEq, Prod.mk.injEq] at h
        obtain ⟨rfl, rfl, rfl⟩ := h
        obtain ⟨h1, h2, h3, h4⟩ := ih _ _ _ _ _ hf
        refine ⟨by simp [h1], ?_, by omega, by omega⟩
        intro k hk
        simp only [List.mem_cons] at hk
        cases hk with
        | inl hk => omega
        | inr hk => exact h2 k hk

theorem iterObjLoop_ne_fuel (value : Bytes) : ∀ (ks : List Nat) (ko jo vo : Nat), iterObjLoop value ks ko jo vo ≠ .fuel := by
  intro ks
  induction ks with
  | nil => intro ko jo vo; simp [iterObjLoop]
  | cons k ks ih =>
    intro ko jo vo
    simp only [iterObjLoop]
    have hs := slice_ne_fuel value ko (ko + k)
    cases h1 : Jsonb.slice value ko (ko + k) with
    | ok key =>
      simp only []
      cases readU32At value jo with
      | none => simp
      | some w =>
        simp only []
        have hs2 := slice_ne_fuel value vo (vo + jeLen w)
        cases h2 : Jsonb.slice value vo (vo + jeLen w) with
        | ok item =>
          simp only []
          have := ih (ko + k) (jo + 4) (vo + jeLen w)
          cases h : iterObjLoop value ks (ko + k) (jo + 4) (vo + jeLen w) <;> simp_all
        | err e => simp
        | panic s => simp
        | fuel => exact absurd h2 hs2
    | err e => simp
    | panic s => simp
    | fuel => exact absurd h1 hs

theorem iterObjLoop_ne_err (value : Bytes) : ∀ (ks : List Nat) (ko jo vo : Nat) (e : String),
    iterObjLoop value ks ko jo vo ≠ .err e := by
  intro ks
  induction ks with
  | nil => intro ko jo vo e; simp [iterObjLoop]
  | cons k ks ih =>
    intro ko jo vo e
    simp only [iterObjLoop]
    cases h1 : Jsonb.slice value ko (ko + k) with
    | ok key =>
      simp only []
      cases readU32At value jo with
      | none => simp
      | some w =>
        simp only []
        cases h2 : Jsonb.slice value vo (vo + jeLen w) with
        | ok item =>
          simp only []
          cases h : iterObjLoop value ks (ko + k) (jo + 4) (vo + jeLen w) with
          | err e' => exact absurd h (ih _ _ _ _)
          | _ => simp
        | err e' => exact absurd h2 (slice_ne_err _ _ _ _)
        | panic s => simp
        | fuel => simp
    | err e' => exact absurd h1 (slice_ne_err _ _ _ _)
    | panic s => simp
    | fuel => simp

/-- the first call of `next` fills the queue: afterwards it is `next` on the filled iterator; when a key
entry word is missing, `keys` stays `None` and `self.keys.as_mut().unwrap()` panics -/
theorem obj_next_first (value : Bytes) (jo ko vo length : Nat)
    (hL : length < 536870912) (hjo : jo + length * 4 + 4 < 18446744073709551616)
    (hvo : vo + length * 268435456 + 268435456 < 18446744073709551616) :
    match fillKeys value length jo vo with
    | none => Tr.ObjectEntryIterator.next (objIt value jo ko vo length none) =
        .panic "called `unwrap()` on a `None`/`Err` value"
    | some (ks, jo', vo') => ∃ kjs, KeysOf kjs ks ∧
        Tr.ObjectEntryIterator.next (objIt value jo ko vo length none) =
          Tr.ObjectEntryIterator.next (objIt value jo' ko vo' length (some kjs)) := by
  have hfill := fill_keys_agrees value jo ko vo length none hL hjo hvo
  cases hf : fillKeys value length jo vo with
  | none =>
    rw [hf] at hfill
    obtain ⟨it', h1, h2⟩ := hfill
    simp only []
    unfold Tr.ObjectEntryIterator.next
    have hn : (objIt value jo ko vo length none).keys = none := rfl
    simp only [hn, Option.isNone, if_true, h2, Ctl.ofRes_ok', Ctl.val_bind', Ctl.pure_eq', h1, Rs.unwrap,
      Ctl.ofRes_panic', Ctl.ret_bind', Ctl.run_ret']
  | some q =>
    obtain ⟨ks, jo', vo'⟩ := q
    rw [hf] at hfill
    obtain ⟨kjs, h1, h2⟩ := hfill
    refine ⟨kjs, h1, ?_⟩
    unfold Tr.ObjectEntryIterator.next
    have hn : (objIt value jo ko vo length none).keys = none := rfl
    have hs : (objIt value jo' ko vo' length (some kjs)).keys = some kjs := rfl
    simp only [hn, hs, Option.isNone, if_true, Bool.false_eq_true, if_false, h2, Ctl.ofRes_ok', Ctl.val_bind', Ctl.pure_eq']

/-- **`iterate_object_entries(value, header)` drained** with any fuel above the header's count + 1: the
model's `iterObjEntries` — its two stages spelled out: when a key entry word is missing the Rust code
panics at `self.keys.as_mut().unwrap()` (the model's `iterObjEntries` panics there too, with its own message) -/
theorem iterate_object_entries_drain (value : Bytes) (header fuel : Nat) (hf : hdrLen header + 1 < fuel) :
    drainIter Tr.ObjectEntryIterator.next fuel
        (objIt value 4 (4 + hdrLen header * 8) (4 + hdrLen header * 8) (hdrLen header) none) =
      match fillKeys value (hdrLen header) 4 (4 + hdrLen header * 8) with
      | none => .panic "called `unwrap()` on a `None`/`Err` value"
      | some (ks, jo, vo) => (iterObjLoop value ks (4 + hdrLen header * 8) jo vo).map (List.map ofMember) := by
  have hL := hdrLen_lt header
  obtain ⟨m, rfl⟩ : ∃ m, fuel = m + 1 := ⟨fuel - 1, by omega⟩
  have hfirst := obj_next_first value 4 (4 + hdrLen header * 8) (4 + hdrLen header * 8) (hdrLen header) hL (by omega) (by omega)
  cases hfk : fillKeys value (hdrLen header) 4 (4 + hdrLen header * 8) with
  | none =>
    rw [hfk] at hfirst
    simp only [] at hfirst ⊢
    rw [drainIter, hfirst]
  | some q =>
    obtain ⟨ks, jo', vo'⟩ := q
    rw [hfk] at hfirst
    obtain ⟨kjs, hk, hnext⟩ := hfirst
    obtain ⟨h1, h2, h3, h4⟩ := fillKeys_facts value _ _ _ _ _ _ hfk
    simp only []
    have hstep : drainIter Tr.ObjectEntryIterator.next (m + 1)
          (objIt value 4 (4 + hdrLen header * 8) (4 + hdrLen header * 8) (hdrLen header) none) =
        drainIter Tr.ObjectEntryIterator.next (m + 1) (objIt value jo' (4 + hdrLen header * 8) vo' (hdrLen header) (some kjs)) := by
      rw [drainIter, drainIter, hnext]
    have hfilled := obj_drain_filled value (hdrLen header) ks kjs jo' (4 + hdrLen header * 8) vo' hk h2
      (by omega) (by omega) (by omega)
    rw [hstep, drainIter_mono _ (ks.length + 1) (m + 1) _ (by omega), hfilled]
    rw [hfilled]
    have := iterObjLoop_ne_fuel value ks (4 + hdrLen header * 8) jo' vo'
    cases h : iterObjLoop value ks (4 + hdrLen header * 8) jo' vo' <;> simp_all [Res.map, Res.bind]

/-- `for (key, jentry, item) in iterate_object_entries(value, header) { body }` with a body that only
updates its state -/
theorem forIter_object (value : Bytes) (header fuel : Nat) (hf : hdrLen header + 1 < fuel) {ρ σ : Type}
    (f : (Bytes × Tr.JEntry × Bytes) → σ → σ) (body : (Bytes × Tr.JEntry × Bytes) → σ → Ctl ρ (Step σ))
    (hbody : ∀ x s, body x s = .val (.next (f x s))) (s : σ) :
    Rs.forIter fuel Tr.ObjectEntryIterator.next
        (objIt value 4 (4 + hdrLen header * 8) (4 + hdrLen header * 8) (hdrLen header) none) s body =
      match fillKeys value (hdrLen header) 4 (4 + hdrLen header * 8) with
      | none => .ret (.panic "called `unwrap()` on a `None`/`Err` value")
      | some (ks, jo, vo) =>
        match iterObjLoop value ks (4 + hdrLen header * 8) jo vo with
        | .ok ms => .val ((ms.map ofMember).foldl (fun s x => f x s) s)
        | .err e => .ret (.err e)
        | .panic p => .ret (.panic p)
        | .fuel => .ret .fuel := by
  rw [forIter_total _ f body hbody, iterate_object_entries_drain value header fuel hf]
  cases fillKeys value (hdrLen header) 4 (4 + hdrLen header * 8) with
  | none => rfl
  | some q =>
    obtain ⟨ks, jo, vo⟩ := q
    simp only []
    cases iterObjLoop value ks (4 + hdrLen header * 8) jo vo <;> rfl

end Jsonb.TrAgree
