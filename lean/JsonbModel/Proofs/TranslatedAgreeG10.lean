/-
Agreement theorems, phase 6a, part 10: the value loop of `convert_expr_val` (`Sel.valuesOf`), `convert_expr_val` =
`Sel.exprVal`, the derived `PartialOrd` of `PathValue` = `Sel.pvCmp`, `compare_value` = `Sel.cmpOp`, `compare` =
`Sel.anyPair`.
-/
import JsonbModel.Proofs.TranslatedAgreeG9

set_option linter.unusedSimpArgs false
set_option linter.unusedVariables false

namespace Jsonb.TrAgree
open Jsonb.Rs

theorem cev_loop3_nil (root : Bytes) (x : Tr.Position) (vals : List Tr.PathValue) :
    Tr.Selector.convert_expr_val.loop3 root x ([], vals) = Ctl.val (.done ([], vals)) := by
  unfold Tr.Selector.convert_expr_val.loop3
  simp [Rs.popFront, Rs.loopStep]

/-- the value loop = `Sel.valuesOf`; the queue is empty afterwards -/
theorem valuesOf_run (root : Bytes) (x : Tr.Position) (hlen : root.length < 9223372036854775808) :
    ∀ (ps : List Sel.Pos) (vals : List PathValue),
      AgC (fun vs => (([] : List Tr.Position), (vals ++ vs).map ofPV))
        (Rs.whileFuel (ps.length + 1) (ps.map ofPos, vals.map ofPV) (Tr.Selector.convert_expr_val.loop3 root x) : Ctl Tr.ExprValue _)
        (Sel.valuesOf root ps) := by
  intro ps
  induction ps with
  | nil =>
    intro vals
    right
    simp only [List.length_nil, List.map_nil, Sel.valuesOf]
    rw [Rs.whileFuel_done _ _ _ _ (cev_loop3_nil root x _)]
    simp
  | cons pos ps ih =>
    intro vals
    have hs := cev_loop3_cons root x hlen pos ps vals
    simp only [List.length_cons]
    cases pos with
    | container off len =>
      simp only [] at hs
      rw [Rs.whileFuel_next _ _ _ _ hs]
      simp only [Sel.valuesOf]
      exact ih vals
    | scalar ty off len =>
      simp only [] at hs
      rw [valuesOf_scalar]
      rcases hs with hs | hs
      · left; rw [Rs.whileFuel_ret _ _ _ _ hs]
      · cases hm : scalarVal root ty off len with
        | ok v =>
          rw [hm] at hs; simp only [] at hs
          rw [Rs.whileFuel_next _ _ _ _ hs]
          simp only [Res.bind]
          have := ih (vals ++ [v])
          apply AgC.map_model (f := fun vs => (([] : List Tr.Position), (vals ++ vs).map ofPV)) (g := fun vs => v :: vs)
          simpa using this
        | err e =>
          rw [hm] at hs; simp only [] at hs
          right; rw [Rs.whileFuel_ret _ _ _ _ hs]; rfl
        | panic s =>
          rw [hm] at hs; obtain ⟨t, ht⟩ := hs
          right; exact ⟨t, by rw [Rs.whileFuel_ret _ _ _ _ ht]⟩
        | fuel =>
          rw [hm] at hs; simp only [] at hs
          right; rw [Rs.whileFuel_ret _ _ _ _ hs]; rfl

theorem valuesOf_ok (root : Bytes) : ∀ (ps : List Sel.Pos) (vs : List PathValue), Sel.valuesOf root ps = .ok vs →
    ∀ v ∈ vs, PVOK v := by
  intro ps
  induction ps with
  | nil => intro vs h; simp only [Sel.valuesOf, Res.ok.injEq] at h; subst h; simp
  | cons pos ps ih =>
    intro vs h
    cases pos with
    | container off len => simp only [Sel.valuesOf] at h; exact ih vs h
    | scalar ty off len =>
      rw [valuesOf_scalar] at h
      cases hm : scalarVal root ty off len with
      | ok v =>
        rw [hm] at h
        cases hr : Sel.valuesOf root ps with
        | ok r =>
          simp only [hr, Res.bind, Res.map, Res.ok.injEq] at h
          subst h
          intro w hw
          simp only [List.mem_cons] at hw
          rcases hw with rfl | hw
          · exact scalarVal_ok root ty off len _ hm
          · exact ih r hr w hw
        | err e => simp [hr, Res.bind, Res.map] at h
        | panic s => simp [hr, Res.bind, Res.map] at h
        | fuel => simp [hr, Res.bind, Res.map] at h
      | err e => simp [hm, Res.bind] at h
      | panic s => simp [hm, Res.bind] at h
      | fuel => simp [hm, Res.bind] at h

/-! ## convert_expr_val -/

theorem convert_expr_val_value (self : Tr.Selector) (root : Bytes) (pos : Tr.Position) (v : PathValue) :
    Tr.Selector.convert_expr_val self root pos (ofExpr (.value v)) = .ok (.Value (ofPV v)) := by
  unfold Tr.Selector.convert_expr_val
  simp [ofExpr, Ctl.run]

/-- the start position of an operand path -/
def startOf (root : Bytes) (pos : Sel.Pos) (paths : List Path) : Sel.Pos :=
  match paths.head? with
  | some .current => pos
  | _ => Sel.rootPosition root

theorem exprVal_paths (f : Nat) (root : Bytes) (pos : Sel.Pos) (paths : List Path) :
    Sel.exprVal (f + 1) root pos (.paths paths) =
      (Sel.operandSteps root (paths.drop 1) [startOf root pos paths]).bind (fun ps => Sel.valuesOf root ps) := by
  simp only [Sel.exprVal, startOf]
  cases Sel.operandSteps root (paths.drop 1) [match paths.head? with | some .current => pos | _ => Sel.rootPosition root] <;> rfl

theorem firstOf_current (paths : List Path) :
    Rs.firstOf (ofPaths paths) = some Tr.Path.Current ↔ paths.head? = some Path.current := by
  cases paths with
  | nil => simp [ofPaths, Rs.firstOf]
  | cons p rest => cases p <;> simp [ofPaths, ofPath, Rs.firstOf]

/-- `convert_expr_val` after the start position has been pushed -/
theorem cev_tail (self : Tr.Selector) (root : Bytes) (x : Tr.Position) (start : Sel.Pos) (paths : List Path) (hok : PathsOK paths)
    (hlen : root.length < 9223372036854775808) :
    AgR (fun vs => Tr.ExprValue.Values (vs.map ofPV))
      (Ctl.run (do
        let poses ← Rs.forIn (Rs.skip (ofPaths paths) (1 : Int)) (Rs.pushBack ([] : List Tr.Position) (ofPos start))
          (Tr.Selector.convert_expr_val.loop2 self root x)
        let tmp3 ← Ctl.ofRes (Rs.vecWithCapacity Tr.PathValue 24 (Rs.len poses))
        let __x ← Rs.whileFuel ((Rs.len poses).toNat + 1) (poses, tmp3) (Tr.Selector.convert_expr_val.loop3 root x)
        Ctl.ret (Res.ok (Tr.ExprValue.Values __x.2))))
      ((Sel.operandSteps root (paths.drop 1) [start]).bind (fun ps => Sel.valuesOf root ps)) := by
  have hskip : Rs.skip (ofPaths paths) (1 : Int) = ofPaths (paths.drop 1) := by
    cases paths with
    | nil => simp [Rs.skip, ofPaths]
    | cons p rest => simp [Rs.skip, ofPaths]
  rw [hskip]
  have hpush : Rs.pushBack ([] : List Tr.Position) (ofPos start) = [start].map ofPos := rfl
  rw [hpush]
  have hop := operandSteps_run self root x hlen (paths.drop 1) (pathsOK_drop paths 1 hok) [start]
  rcases hop with hop | hop
  · left; rw [hop]; rfl
  · cases hm : Sel.operandSteps root (paths.drop 1) [start] with
    | ok ps =>
      rw [hm] at hop; simp only [] at hop
      rw [hop]
      simp only [Ctl.val_bind', Res.bind]
      have hl : Rs.len (ps.map ofPos) = ((ps.length : Nat) : Int) := by simp [Rs.len]
      by_cases hcap : ps.length * 24 ≤ 9223372036854775807
      · rw [hl, vecWithCapacity_ok Tr.PathValue 24 ps.length hcap]
        simp only [Ctl.ofRes_ok', Ctl.val_bind', Int.toNat_natCast]
        have hv := valuesOf_run root x hlen ps []
        simp only [List.map_nil, List.nil_append] at hv
        rcases hv with hv | hv
        · left; rw [hv]; rfl
        · right
          cases hm2 : Sel.valuesOf root ps with
          | ok vs => rw [hm2] at hv; simp only [] at hv; rw [hv]; rfl
          | err e => rw [hm2] at hv; simp only [] at hv; rw [hv]; rfl
          | panic s => rw [hm2] at hv; obtain ⟨t, ht⟩ := hv; exact ⟨t, by rw [ht]; rfl⟩
          | fuel => rw [hm2] at hv; simp only [] at hv; rw [hv]; rfl
      · left
        have : Rs.vecWithCapacity Tr.PathValue 24 ((ps.length : Nat) : Int) = .panic "capacity overflow" := by
          unfold Rs.vecWithCapacity
          rw [if_neg (by simp; omega)]
        rw [hl, this]; rfl
    | err e => rw [hm] at hop; simp only [] at hop; right; rw [hop]; rfl
    | panic s => rw [hm] at hop; obtain ⟨t, ht⟩ := hop; right; exact ⟨t, by rw [ht]; rfl⟩
    | fuel => rw [hm] at hop; simp only [] at hop; right; rw [hop]; rfl

theorem convert_expr_val_paths (self : Tr.Selector) (root : Bytes) (pos : Sel.Pos) (paths : List Path) (hok : PathsOK paths)
    (hlen : root.length < 9223372036854775808) (f : Nat) :
    AgR (fun vs => Tr.ExprValue.Values (vs.map ofPV))
      (Tr.Selector.convert_expr_val self root (ofPos pos) (ofExpr (.paths paths)))
      (Sel.exprVal (f + 1) root pos (.paths paths)) := by
  rw [exprVal_paths]
  unfold Tr.Selector.convert_expr_val
  simp only [ofExpr]
  split
  · rename_i h
    have hs : startOf root pos paths = pos := by
      have := (firstOf_current paths).mp h
      simp [startOf, this]
    rw [hs]
    simp only [Ctl.pure_eq', Ctl.val_bind']
    exact cev_tail self root (ofPos pos) pos paths hok hlen
  · rename_i h
    have hs : startOf root pos paths = Sel.rootPosition root := by
      have hn : ¬ paths.head? = some Path.current := fun hh => h ((firstOf_current paths).mpr hh)
      unfold startOf
      split
      · rename_i h2; exact absurd h2 hn
      · rfl
    rw [hs, root_position_agrees]
    simp only [Ctl.ofRes_ok', Ctl.pure_eq', Ctl.val_bind']
    exact cev_tail self root (ofPos pos) (Sel.rootPosition root) paths hok hlen

theorem exprVal_ok (f : Nat) (root : Bytes) (pos : Sel.Pos) (e : Expr) (he : ExprOK e) (vs : List PathValue)
    (h : Sel.exprVal (f + 1) root pos e = .ok vs) : ∀ v ∈ vs, PVOK v := by
  cases e with
  | value v =>
    simp only [Sel.exprVal, Res.ok.injEq] at h; subst h
    simp only [ExprOK] at he
    intro w hw; simp only [List.mem_singleton] at hw; subst hw; exact he
  | paths paths =>
    rw [exprVal_paths] at h
    cases ho : Sel.operandSteps root (paths.drop 1) [startOf root pos paths] with
    | ok ps => rw [ho] at h; exact valuesOf_ok root ps vs h
    | err e => rw [ho] at h; simp [Res.bind] at h
    | panic s => rw [ho] at h; simp [Res.bind] at h
    | fuel => rw [ho] at h; simp [Res.bind] at h
  | binaryOp op l r => simp [Sel.exprVal] at h
  | arithUnary op e => simp [Sel.exprVal] at h
  | arithBinary op l r => simp [Sel.exprVal] at h
  | existsFn ps => simp [Sel.exprVal] at h

/-! ## the derived `PartialOrd` of `PathValue`, `compare_value` -/

theorem partial_cmp_agrees (a b : PathValue) (ha : PVOK a) (hb : PVOK b) :
    Tr.PathValue.partial_cmp (ofPV a) (ofPV b) = .ok (some (Sel.pvCmp a b)) := by
  cases a <;> cases b <;> simp only [ofPV, Tr.PathValue.partial_cmp, Sel.pvCmp, Tr.PathValue.variantIdx, Sel.pvRank]
  · rename_i x y
    simp only [PVOK] at ha hb
    unfold Tr.Number.partial_cmp
    rw [cmp_agrees x y ha hb]; rfl
  · rw [cmpBytes_eq_lexCmp]

def isCmpOp : BinOp → Bool
  | .and => false
  | .or => false
  | _ => true

theorem compare_value_agrees (self : Tr.Selector) (op : BinOp) (hop : isCmpOp op = true) (a b : PathValue)
    (ha : PVOK a) (hb : PVOK b) :
    Tr.Selector.compare_value self (ofBinOp op) (ofPV a) (ofPV b) = Sel.cmpOp op a b := by
  unfold Tr.Selector.compare_value Sel.cmpOp
  rw [partial_cmp_agrees a b ha hb]
  cases op <;> simp only [isCmpOp, Bool.false_eq_true] at hop <;>
    cases Sel.pvCmp a b <;> simp [ofBinOp, Ctl.ofRes, Ctl.run]

theorem cmpOp_ok (op : BinOp) (hop : isCmpOp op = true) (a b : PathValue) : ∃ r, Sel.cmpOp op a b = .ok r := by
  cases op <;> simp only [isCmpOp, Bool.false_eq_true] at hop <;> exact ⟨_, rfl⟩

/-! ## compare -/

/-- an `ExprValue` and the model's value list: a literal is the one-element list -/
inductive EVRep : Tr.ExprValue → List PathValue → Prop
  | value (v : PathValue) : EVRep (.Value (ofPV v)) [v]
  | values (vs : List PathValue) : EVRep (.Values (vs.map ofPV)) vs

/-- `for rhs in rhses { if compare_value(op, lhs, rhs) { return true; } }` -/
theorem anyInner_eq (op : BinOp) (l : PathValue) (rs : List PathValue) :
    Sel.anyPair.inner op l rs = Sel.anyPair op [l] rs := by
  simp only [Sel.anyPair]
  cases Sel.anyPair.inner op l rs with
  | ok b => cases b <;> rfl
  | err e => rfl
  | panic s => rfl
  | fuel => rfl

theorem cmp_loop2_run (self : Tr.Selector) (op : BinOp) (hop : isCmpOp op = true) (l : PathValue) (hl : PVOK l) (x : Tr.ExprValue) :
    ∀ (rs : List PathValue), (∀ r ∈ rs, PVOK r) →
    Rs.forIn (rs.map ofPV) () (Tr.Selector.compare.loop2 self (ofBinOp op) (ofPV l) x) =
      match Sel.anyPair.inner op l rs with
      | .ok true => Ctl.ret (.ok true)
      | .ok false => Ctl.val ()
      | .err e => Ctl.ret (.err e)
      | .panic s => Ctl.ret (.panic s)
      | .fuel => Ctl.ret .fuel := by
  intro rs
  induction rs with
  | nil => intro _; simp [Rs.forIn, Sel.anyPair.inner]
  | cons r rs ih =>
    intro hr
    obtain ⟨b, hb⟩ := cmpOp_ok op hop l r
    have hstep : Tr.Selector.compare.loop2 self (ofBinOp op) (ofPV l) x (ofPV r) () =
        if b then Ctl.ret (.ok true) else Ctl.val (.next ()) := by
      unfold Tr.Selector.compare.loop2
      rw [compare_value_agrees self op hop l r hl (hr r (by simp)), hb]
      cases b <;> simp [Ctl.ofRes, Rs.loopStep]
    simp only [List.map_cons, Sel.anyPair.inner, hb]
    cases b with
    | true =>
      simp only [if_true] at hstep
      rw [Rs.forIn_ret _ _ _ _ _ hstep]
    | false =>
      simp only [Bool.false_eq_true, if_false] at hstep
      rw [Rs.forIn_next _ _ _ _ _ hstep]
      exact ih (fun q hq => hr q (by simp [hq]))

/-- the inner loop of the `(Values, Values)` case (one more enclosing loop) -/
theorem cmp_loop3_run (self : Tr.Selector) (op : BinOp) (hop : isCmpOp op = true) (l : PathValue) (hl : PVOK l) (x : Tr.ExprValue) :
    ∀ (rs : List PathValue), (∀ r ∈ rs, PVOK r) →
    Rs.forIn (rs.map ofPV) () (Tr.Selector.compare.loop3 self (ofBinOp op) (ofPV l) x) =
      match Sel.anyPair.inner op l rs with
      | .ok true => Ctl.ret (.ok (Rs.LoopCtl.ret true))
      | .ok false => Ctl.val ()
      | .err e => Ctl.ret (.err e)
      | .panic s => Ctl.ret (.panic s)
      | .fuel => Ctl.ret .fuel := by
  intro rs
  induction rs with
  | nil => intro _; simp [Rs.forIn, Sel.anyPair.inner]
  | cons r rs ih =>
    intro hr
    obtain ⟨b, hb⟩ := cmpOp_ok op hop l r
    have hstep : Tr.Selector.compare.loop3 self (ofBinOp op) (ofPV l) x (ofPV r) () =
        if b then Ctl.ret (.ok (Rs.LoopCtl.ret true)) else Ctl.val (.next ()) := by
      unfold Tr.Selector.compare.loop3
      rw [compare_value_agrees self op hop l r hl (hr r (by simp)), hb]
      cases b <;> simp [Ctl.ofRes, Rs.loopStep]
    simp only [List.map_cons, Sel.anyPair.inner, hb]
    cases b with
    | true =>
      simp only [if_true] at hstep
      rw [Rs.forIn_ret _ _ _ _ _ hstep]
    | false =>
      simp only [Bool.false_eq_true, if_false] at hstep
      rw [Rs.forIn_next _ _ _ _ _ hstep]
      exact ih (fun q hq => hr q (by simp [hq]))

theorem anyPair_cons_g (op : BinOp) (l : PathValue) (ls rs : List PathValue) :
    Sel.anyPair op (l :: ls) rs =
      match Sel.anyPair.inner op l rs with
      | .ok true => .ok true
      | .ok false => Sel.anyPair op ls rs
      | .err e => .err e
      | .panic s => .panic s
      | .fuel => .fuel := by
  simp only [Sel.anyPair]
  cases Sel.anyPair.inner op l rs with
  | ok b => cases b <;> rfl
  | err e => rfl
  | panic s => rfl
  | fuel => rfl

/-- the outer loop of the `(Values, Values)` case = `Sel.anyPair` -/
theorem cmp_loop4_run (self : Tr.Selector) (op : BinOp) (hop : isCmpOp op = true) (x y : Tr.ExprValue)
    (rs : List PathValue) (hrs : ∀ r ∈ rs, PVOK r) :
    ∀ (ls : List PathValue), (∀ l ∈ ls, PVOK l) →
    Rs.forIn (ls.map ofPV) () (Tr.Selector.compare.loop4 self (ofBinOp op) x y (rs.map ofPV)) =
      match Sel.anyPair op ls rs with
      | .ok true => Ctl.ret (.ok true)
      | .ok false => Ctl.val ()
      | .err e => Ctl.ret (.err e)
      | .panic s => Ctl.ret (.panic s)
      | .fuel => Ctl.ret .fuel := by
  intro ls
  induction ls with
  | nil => intro _; simp [Rs.forIn, Sel.anyPair]
  | cons l ls ih =>
    intro hl
    have hstep : Tr.Selector.compare.loop4 self (ofBinOp op) x y (rs.map ofPV) (ofPV l) () =
        match Sel.anyPair.inner op l rs with
        | .ok true => Ctl.ret (.ok true)
        | .ok false => Ctl.val (.next ())
        | .err e => Ctl.ret (.err e)
        | .panic s => Ctl.ret (.panic s)
        | .fuel => Ctl.ret .fuel := by
      unfold Tr.Selector.compare.loop4
      rw [cmp_loop3_run self op hop l (hl l (by simp)) y rs hrs]
      cases Sel.anyPair.inner op l rs with
      | ok b => cases b <;> rfl
      | err e => rfl
      | panic s => rfl
      | fuel => rfl
    rw [anyPair_cons_g]
    simp only [List.map_cons]
    cases hi : Sel.anyPair.inner op l rs with
    | ok b =>
      rw [hi] at hstep
      cases b with
      | true => simp only [] at hstep ⊢; rw [Rs.forIn_ret _ _ _ _ _ hstep]
      | false =>
        simp only [] at hstep ⊢
        rw [Rs.forIn_next _ _ _ _ _ hstep]
        exact ih (fun q hq => hl q (by simp [hq]))
    | err e => rw [hi] at hstep; simp only [] at hstep ⊢; rw [Rs.forIn_ret _ _ _ _ _ hstep]
    | panic s => rw [hi] at hstep; simp only [] at hstep ⊢; rw [Rs.forIn_ret _ _ _ _ _ hstep]
    | fuel => rw [hi] at hstep; simp only [] at hstep ⊢; rw [Rs.forIn_ret _ _ _ _ _ hstep]

/-- the loop of the `(Values, Value)` case -/
theorem cmp_loop1_run (self : Tr.Selector) (op : BinOp) (hop : isCmpOp op = true) (x : Tr.ExprValue) (r : PathValue) (hr : PVOK r) :
    ∀ (ls : List PathValue), (∀ l ∈ ls, PVOK l) →
    Rs.forIn (ls.map ofPV) () (Tr.Selector.compare.loop1 self (ofBinOp op) x (ofPV r)) =
      match Sel.anyPair op ls [r] with
      | .ok true => Ctl.ret (.ok true)
      | .ok false => Ctl.val ()
      | .err e => Ctl.ret (.err e)
      | .panic s => Ctl.ret (.panic s)
      | .fuel => Ctl.ret .fuel := by
  intro ls
  induction ls with
  | nil => intro _; simp [Rs.forIn, Sel.anyPair]
  | cons l ls ih =>
    intro hl
    obtain ⟨b, hb⟩ := cmpOp_ok op hop l r
    have hstep : Tr.Selector.compare.loop1 self (ofBinOp op) x (ofPV r) (ofPV l) () =
        if b then Ctl.ret (.ok true) else Ctl.val (.next ()) := by
      unfold Tr.Selector.compare.loop1
      rw [compare_value_agrees self op hop l r (hl l (by simp)) hr, hb]
      cases b <;> simp [Ctl.ofRes, Rs.loopStep]
    rw [anyPair_cons_g]
    simp only [List.map_cons, Sel.anyPair.inner, hb]
    cases b with
    | true =>
      simp only [if_true] at hstep
      rw [Rs.forIn_ret _ _ _ _ _ hstep]
    | false =>
      simp only [Bool.false_eq_true, if_false] at hstep
      rw [Rs.forIn_next _ _ _ _ _ hstep]
      exact ih (fun q hq => hl q (by simp [hq]))

theorem EVRep.inv {a : Tr.ExprValue} {la : List PathValue} (h : EVRep a la) :
    (∃ v, a = .Value (ofPV v) ∧ la = [v]) ∨ a = .Values (la.map ofPV) := by
  cases h
  · exact Or.inl ⟨_, rfl, rfl⟩
  · exact Or.inr rfl

/-- `compare(op, lhs, rhs)` = `Sel.anyPair` on the value lists -/
theorem compare_agrees (self : Tr.Selector) (op : BinOp) (hop : isCmpOp op = true) (a b : Tr.ExprValue) (la lb : List PathValue)
    (ha : EVRep a la) (hb : EVRep b lb) (hla : ∀ v ∈ la, PVOK v) (hlb : ∀ v ∈ lb, PVOK v) :
    Tr.Selector.compare self (ofBinOp op) a b = Sel.anyPair op la lb := by
  unfold Tr.Selector.compare
  rcases ha.inv with ⟨l, rfl, rfl⟩ | rfl
  · rcases hb.inv with ⟨r, rfl, rfl⟩ | rfl
    · simp only []
      rw [compare_value_agrees self op hop l r (hla l (by simp)) (hlb r (by simp)), anyPair_cons_g]
      obtain ⟨c, hc⟩ := cmpOp_ok op hop l r
      simp only [Sel.anyPair.inner, hc]
      cases c <;> simp [Ctl.ofRes, Ctl.run, Sel.anyPair]
    · simp only []
      rw [cmp_loop2_run self op hop l (hla l (by simp)) _ lb hlb, anyInner_eq]
      cases Sel.anyPair op [l] lb with
      | ok c => cases c <;> rfl
      | err e => rfl
      | panic s => rfl
      | fuel => rfl
  · rcases hb.inv with ⟨r, rfl, rfl⟩ | rfl
    · simp only []
      rw [cmp_loop1_run self op hop _ r (hlb r (by simp)) la hla]
      cases Sel.anyPair op la [r] with
      | ok c => cases c <;> rfl
      | err e => rfl
      | panic s => rfl
      | fuel => rfl
    · simp only []
      rw [cmp_loop4_run self op hop _ _ lb hlb la hla]
      cases Sel.anyPair op la lb with
      | ok c => cases c <;> rfl
      | err e => rfl
      | panic s => rfl
      | fuel => rfl

end Jsonb.TrAgree
