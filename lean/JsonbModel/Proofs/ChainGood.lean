/-
C07 (chains of operations), part 2: the single-operation facts a chain needs and that were not
yet available — the two refinement cases that were only proved for array documents
(`delete_by_index`, `array_distinct`), and *goodness preservation*: the result of every
shrinking / extracting operation on a canonical document is again canonical (`goodTop`), proved
from `goodTop` of the input, no assumption on the result.
No Mathlib.
-/
import JsonbModel.Proofs.ChainArgs

namespace Jsonb
open JV

/-! ### refinement cases completed -/

/-- **delete_by_index** on every document: arrays as in `deleteByIndex_arr`, anything else is
the documented error -/
theorem deleteByIndex_refines (v : JV) (hg : goodTop v = true) (i : Int)
    (hi : -2147483648 ≤ i ∧ i ≤ 2147483647) (buf : Bytes) :
    Fn.deleteByIndex (encodeSpec v) i buf
      = match Spec.deleteByIndex v i with
        | some r => .ok (buf ++ encodeSpec r)
        | none => .err "InvalidJsonType" := by
  by_cases hva : ∃ vs, v = arr vs
  · obtain ⟨vs, rfl⟩ := hva
    have hp := goodTop_arr_parts hg
    rw [deleteByIndex_arr vs hp.1 hp.2 i hi buf]
    cases h : Spec.deleteByIndex (arr vs) i with
    | some r => rfl
    | none =>
      exfalso
      simp only [Spec.deleteByIndex] at h
      split at h <;> split at h <;> simp at h
  · have hna : ∀ vs, v ≠ arr vs := fun vs h => hva ⟨vs, h⟩
    have hsp : Spec.deleteByIndex v i = none := by
      cases v <;> first | rfl | exact absurd rfl (hna _)
    simp only [Fn.deleteByIndex, readHdr v hg, hdrType_hdrOf v hg, hsp]
    rw [if_neg (kindOf_ne_arr v hna)]

/-- **array_distinct** on every document: a non-array is taken as a one-element list -/
theorem arrayDistinct_refines (v : JV) (hg : goodTop v = true) (he : goodL (Spec.elems v) = true)
    (buf : Bytes) :
    Fn.arrayDistinct (encodeSpec v) buf = .ok (buf ++ encodeSpec (Spec.arrayDistinct v)) := by
  by_cases hva : ∃ vs, v = arr vs
  · obtain ⟨vs, rfl⟩ := hva
    have hp := goodTop_arr_parts hg
    exact arrayDistinct_arr vs hp.1 hp.2 buf
  · have hna : ∀ vs, v ≠ arr vs := fun vs h => hva ⟨vs, h⟩
    have hsp : Spec.arrayDistinct v = arr [v] := by
      cases v <;> first | rfl | exact absurd rfl (hna _)
    have hop := setOperand_spec v hg he
    rw [elems_nonarr v hna] at hop he
    simp only [Fn.arrayDistinct, readHdr v hg, hdrType_hdrOf v hg, hsp]
    rw [if_neg (kindOf_ne_arr v hna), hop]
    simp only []
    rw [map_rawOf_itemOf]
    exact buildArrayInto_raw buf [v] (by simp) he

/-! ### goodness preservation of the shrinking / extracting operations -/

theorem deleteByIndex_good (v : JV) (hg : goodTop v = true) (i : Int) (r : JV)
    (h : Spec.deleteByIndex v i = some r) : goodTop r = true := by
  cases v with
  | arr vs =>
    have hp := goodTop_arr_parts hg
    simp only [Spec.deleteByIndex] at h
    have hr : r = arr vs ∨ ∃ k, r = arr (Fn.removeAt vs k) := by
      split at h <;> split at h <;> simp only [Option.some.injEq] at h <;> subst h <;>
        first | exact Or.inl rfl | exact Or.inr ⟨_, rfl⟩
    rcases hr with rfl | ⟨k, rfl⟩
    · exact hg
    · simp only [goodTop, Bool.and_eq_true, decide_eq_true_eq]
      exact ⟨Nat.lt_of_le_of_lt (removeAt_length_le _ _) hp.1, goodL_removeAt vs hp.2 _⟩
  | obj kvs => simp [Spec.deleteByIndex] at h
  | null => simp [Spec.deleteByIndex] at h
  | bool b => simp [Spec.deleteByIndex] at h
  | num n => simp [Spec.deleteByIndex] at h
  | str s => simp [Spec.deleteByIndex] at h

/-- nested deletion keeps every nested length inside its field: the replaced sub-container only
shrinks (extracted from the simulation invariant of `delKp_master`) -/
theorem deleteByKeypath_good (v : JV) (hg : goodTop v = true) (kp : List KeyPath) (hk : kpOK kp)
    (r : JV) (h : Spec.deleteByKeypath v kp = some r) : goodTop r = true := by
  have ⟨hA, hO⟩ := delKp_master kp hk
  cases v with
  | arr vs =>
    have hp := goodTop_arr_parts hg
    obtain ⟨R, _, hout⟩ := hA vs hp.2 hp.1 (elen (arr vs) + 2 * kp.length) (Nat.le_refl _)
    simp only [Spec.deleteByKeypath, Option.some.injEq] at h
    cases hd : Spec.delKp (arr vs) kp with
    | none => rw [hd] at h; simp only [Option.getD_none] at h; subst h; exact hg
    | some r' =>
      rw [hd] at h hout; simp only [Option.getD_some] at h; subst h
      simp only [ArrOut] at hout
      obtain ⟨es, vs', hr, _, _, hgv', hl1, _⟩ := hout
      subst hr
      simp only [goodTop, Bool.and_eq_true, decide_eq_true_eq]
      exact ⟨by omega, hgv'⟩
  | obj kvs =>
    have hp := goodTop_obj_parts hg
    have hks : keysSorted kvs = true := by
      simp only [goodTop, Bool.and_eq_true] at hg; exact hg.1.2
    obtain ⟨R, _, hout⟩ := hO kvs hp.2 hks hp.1 (elen (obj kvs) + 2 * kp.length) (Nat.le_refl _)
    simp only [Spec.deleteByKeypath, Option.some.injEq] at h
    cases hd : Spec.delKp (obj kvs) kp with
    | none => rw [hd] at h; simp only [Option.getD_none] at h; subst h; exact hg
    | some r' =>
      rw [hd] at h hout; simp only [Option.getD_some] at h; subst h
      simp only [ObjOut] at hout
      obtain ⟨m, kvs', hr, _, _, hgk', hs', hl1, _⟩ := hout
      subst hr
      simp only [goodTop, Bool.and_eq_true, decide_eq_true_eq]
      exact ⟨⟨by omega, hs'⟩, hgk'⟩
  | null => simp [Spec.deleteByKeypath] at h
  | bool b => simp [Spec.deleteByKeypath] at h
  | num n => simp [Spec.deleteByKeypath] at h
  | str s => simp [Spec.deleteByKeypath] at h

theorem goodTop_obj_filter (kvs : List (Bytes × JV)) (hg : goodTop (obj kvs) = true)
    (p : Bytes × JV → Bool) : goodTop (obj (kvs.filter p)) = true := by
  simp only [goodTop, Bool.and_eq_true, decide_eq_true_eq] at hg ⊢
  have hsub : (kvs.filter p).Sublist kvs := List.filter_sublist
  exact ⟨⟨Nat.lt_of_le_of_lt hsub.length_le hg.1.1, keysSorted_sublist hsub hg.1.2⟩,
    goodK_sublist hsub hg.2⟩

theorem objectDelete_good (v : JV) (hg : goodTop v = true) (keys : List Bytes) (r : JV)
    (h : Spec.objectDelete v keys = some r) : goodTop r = true := by
  cases v with
  | obj kvs =>
    simp only [Spec.objectDelete, Option.some.injEq] at h; subst h
    exact goodTop_obj_filter kvs hg _
  | arr vs => simp [Spec.objectDelete] at h
  | null => simp [Spec.objectDelete] at h
  | bool b => simp [Spec.objectDelete] at h
  | num n => simp [Spec.objectDelete] at h
  | str s => simp [Spec.objectDelete] at h

theorem objectPick_good (v : JV) (hg : goodTop v = true) (keys : List Bytes) (r : JV)
    (h : Spec.objectPick v keys = some r) : goodTop r = true := by
  cases v with
  | obj kvs =>
    simp only [Spec.objectPick, Option.some.injEq] at h; subst h
    exact goodTop_obj_filter kvs hg _
  | arr vs => simp [Spec.objectPick] at h
  | null => simp [Spec.objectPick] at h
  | bool b => simp [Spec.objectPick] at h
  | num n => simp [Spec.objectPick] at h
  | str s => simp [Spec.objectPick] at h

theorem getByKeypath_good (v : JV) (hg : goodTop v = true) (kp : List KeyPath) (r : JV)
    (h : Spec.getByKeypath v kp = some r) : goodTop r = true := by
  rcases spec_getByKeypath_good kp v hg r h with ⟨_, rfl⟩ | h'
  · exact hg
  · exact good_goodTop r h'

theorem objectKeys_good (v : JV) (hg : goodTop v = true) (r : JV)
    (h : Spec.objectKeys v = some r) : goodTop r = true := by
  cases v with
  | obj kvs =>
    have hp := goodTop_obj_parts hg
    simp only [Spec.objectKeys, Option.some.injEq] at h; subst h
    simp only [goodTop, Bool.and_eq_true, decide_eq_true_eq, List.length_map]
    exact ⟨hp.1, goodL_strs kvs hp.2⟩
  | arr vs => simp [Spec.objectKeys] at h
  | null => simp [Spec.objectKeys] at h
  | bool b => simp [Spec.objectKeys] at h
  | num n => simp [Spec.objectKeys] at h
  | str s => simp [Spec.objectKeys] at h

/-- the element list of a canonical document has fewer than 2^29 entries -/
theorem elems_length_lt (v : JV) (hg : goodTop v = true) : (Spec.elems v).length < 536870912 := by
  cases v with
  | arr vs => exact (goodTop_arr_parts hg).1
  | _ => simp [Spec.elems]

theorem goodTop_arr_sublist {xs ys : List JV} (hsub : xs.Sublist ys) (hn : ys.length < 536870912)
    (hg : goodL ys = true) : goodTop (arr xs) = true := by
  simp only [goodTop, Bool.and_eq_true, decide_eq_true_eq]
  exact ⟨Nat.lt_of_le_of_lt hsub.length_le hn, goodL_sublist hsub hg⟩

theorem arrayDistinct_good (v : JV) (hg : goodTop v = true) (he : goodL (Spec.elems v) = true) :
    goodTop (Spec.arrayDistinct v) = true := by
  cases v with
  | arr vs =>
    exact goodTop_arr_sublist (Spec.distinct_sublist vs []) (goodTop_arr_parts hg).1 (goodTop_arr_parts hg).2
  | obj kvs => simpa [Spec.arrayDistinct, goodTop, Spec.elems] using he
  | null => rfl
  | bool b => rfl
  | num n => simpa [Spec.arrayDistinct, goodTop, Spec.elems] using he
  | str s => simpa [Spec.arrayDistinct, goodTop, Spec.elems] using he

theorem arraySetOp_good (keep : Bool) (a b : JV) (hga : goodTop a = true)
    (hea : goodL (Spec.elems a) = true) :
    goodTop (arr (Spec.interExcept keep (Spec.elems a) (Spec.elems b))) = true :=
  goodTop_arr_sublist (interExcept_sublist keep _ _) (elems_length_lt a hga) hea

theorem buildObject_good (ws : List (Bytes × JV)) (hg : goodK ws = true)
    (hn : (mkObj ws).length < 536870912) : goodTop (Spec.buildObject ws) = true := by
  simp only [Spec.buildObject, goodTop, Bool.and_eq_true, decide_eq_true_eq]
  rw [mkObj_eq_mergeKV] at hn ⊢
  exact ⟨⟨hn, mergeKV_sorted [] ws rfl⟩, mergeKV_good [] ws rfl hg⟩

end Jsonb
