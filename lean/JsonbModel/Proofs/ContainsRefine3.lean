/-
C12 refinement, part 3: the mutual induction.  For every fuel above an explicit cost, the four
mutually recursive byte walkers of `contains_jsonb` decide the fuel-free reference relation
`Spec.Cont` / `ContAll` / `ContMem` of ContainsLaws.lean on the README layout of good values.
-/
import JsonbModel.Proofs.ContainsRefine2

namespace Jsonb
open JV
open Classical

namespace Fn

/-! ### the scalar tests against the tree -/

theorem any_items (ls : List JV) (hg : goodL ls = true) (r : JV) (hr : good r = true)
    (hs : Spec.isScalarJ r = true) :
    (ls.map itemOf).any (fun it => it.1.ty == ety r && scalarEq it.1.ty it.2 (entry r).2)
      = ls.any (fun x => Spec.valEq x r) := by
  induction ls with
  | nil => rfl
  | cons x xs ih =>
    simp only [goodL, Bool.and_eq_true] at hg
    simp only [List.map_cons, List.any_cons, ih hg.2, itemTest_refines x r hg.1 hr hs]

theorem MemIn_of_lookup {lk : List (Bytes × JV)} {k : Bytes} {v : JV}
    (hl : Spec.lookup k lk = some v) (r : JV) :
    Spec.MemIn lk k r ↔ Spec.sameKind v r = true ∧
      (if Spec.isScalarJ r = true then Spec.valEq v r = true else Spec.Cont v r) := by
  simp [Spec.MemIn, hl]

theorem ety_eq_of_sameKind_container {v r : JV} (h : Spec.sameKind v r = true)
    (hr : Spec.isScalarJ r = false) : ety v = ety r := by
  have h1 := Spec.sameKind_isScalarJ h
  rw [hr] at h1
  rw [(ety_container_iff v).2 h1, (ety_container_iff r).2 hr]

theorem ety_eq_of_MemIn {lk : List (Bytes × JV)} {k : Bytes} {v r : JV}
    (hl : Spec.lookup k lk = some v) (h : Spec.MemIn lk k r) : ety v = ety r := by
  obtain ⟨hk, hc⟩ := (MemIn_of_lookup hl r).1 h
  by_cases hs : Spec.isScalarJ r = true
  · rw [if_pos hs] at hc; exact ety_eq_of_valEq hc
  · exact ety_eq_of_sameKind_container hk (by simpa using hs)

theorem ok_if (b : Bool) (Q R : Prop) (h : R ↔ b = true ∧ Q) :
    (if b = true then Res.ok (decide Q) else Res.ok false) = Res.ok (decide R) := by
  by_cases hb : b = true <;> by_cases hq : Q <;> simp [hb, hq, h]

/-! ### the induction on the fuel -/

/-- the statement proved by induction on the fuel `f` -/
def Main (f : Nat) : Prop :=
  (∀ l r, goodTop l = true → goodTop r = true → Spec.isScalarJ l = false →
      Spec.isScalarJ r = false → cost l + cost r ≤ f →
      containsJsonb f (encodeSpec l) (encodeSpec r) = .ok (decide (Spec.Cont l r))) ∧
  (∀ (left : Bytes) (lh : Nat) ls rs, goodL ls = true → goodL rs = true →
      costL ls + costL rs ≤ f →
      containsItems f left lh (ls.map itemOf) (rs.map itemOf) = .ok (decide (Spec.ContAll ls rs))) ∧
  (∀ ls r, goodL ls = true → (∀ x ∈ ls, Spec.isScalarJ x = false) → good r = true →
      Spec.isScalarJ r = false → costL ls + cost r ≤ f →
      containsNested f (ls.map itemOf) (encodeSpec r) = .ok (decide (∃ x ∈ ls, Spec.Cont x r))) ∧
  (∀ lk rk, lk.length < 536870912 → goodK lk = true → goodK rk = true →
      cost (obj lk) + costK rk ≤ f →
      containsMembers f (encodeSpec (obj lk)) (C.OBJECT_CONTAINER_TAG + lk.length) (rk.map memberOf)
        = .ok (decide (Spec.ContMem lk rk)))

theorem main_zero : Main 0 := by
  refine ⟨?_, ?_, ?_, ?_⟩
  · intro l r _ _ _ _ h; have := cost_pos l; omega
  · intro _ _ ls rs _ _ h; have := costL_pos ls; omega
  · intro ls r _ _ _ _ h; have := costL_pos ls; omega
  · intro lk rk _ _ _ h; have := costK_pos rk; omega

theorem main_succ (f : Nat) (ih : Main f) : Main (f + 1) := by
  obtain ⟨ihJ, ihI, ihN, ihM⟩ := ih
  refine ⟨?_, ?_, ?_, ?_⟩
  · -- contains_jsonb on two containers
    intro l r hgl hgr hsl hsr hf
    rcases container_cases l hsl with ⟨ls, rfl⟩ | ⟨lk, rfl⟩ <;>
      rcases container_cases r hsr with ⟨rs, rfl⟩ | ⟨rk, rfl⟩
    · have ⟨hnl, hgl'⟩ := goodTop_arr hgl
      have ⟨hnr, hgr'⟩ := goodTop_arr hgr
      rw [containsJsonb_arr_arr f ls rs hnl hnr hgl' hgr',
        ihI _ _ ls rs hgl' hgr' (by simp only [cost] at hf; omega)]
      congr 1
      simp [Spec.Cont_arr]
    · have ⟨hnl, _⟩ := goodTop_arr hgl
      have ⟨hnr, _⟩ := goodTop_obj hgr
      rw [containsJsonb_arr_obj f ls rk hnl hnr]
      congr 1
      simp [Spec.Cont_obj]
    · have ⟨hnl, _⟩ := goodTop_obj hgl
      have ⟨hnr, _⟩ := goodTop_arr hgr
      rw [containsJsonb_obj_arr f lk rs hnl hnr]
      congr 1
      simp [Spec.Cont_arr]
    · have ⟨hnl, hgl'⟩ := goodTop_obj hgl
      have ⟨hnr, hgr'⟩ := goodTop_obj hgr
      have hsort : keysSorted rk = true := by
        simp only [goodTop, Bool.and_eq_true] at hgr; exact hgr.1.2
      rw [containsJsonb_obj_obj f lk rk hnl hnr hgr']
      have hiff : Spec.Cont (obj lk) (obj rk) ↔ Spec.ContMem lk rk := by simp [Spec.Cont_obj]
      by_cases hlen : lk.length < rk.length
      · rw [if_pos hlen]
        have : ¬ Spec.Cont (obj lk) (obj rk) := fun h => by
          have := ContMem_length hsort (hiff.1 h); omega
        simp [this]
      · rw [if_neg hlen, ihM lk rk hnl hgl' hgr' (by simp only [cost] at hf ⊢; omega)]
        congr 1
        simp [hiff]
  · -- the loop over the right array
    intro left lh ls rs hgl hgr hf
    cases rs with
    | nil => rw [List.map_nil, containsItems_nil]; simp [Spec.ContAll_nil]
    | cons r rs =>
      simp only [goodL, Bool.and_eq_true] at hgr
      simp only [costL] at hf
      have hrec := ihI left lh ls rs hgl hgr.2 (by omega)
      rw [List.map_cons, show itemOf r = (⟨ety r, elen r, (entry r).1⟩, (entry r).2) from rfl]
      by_cases hs : Spec.isScalarJ r = true
      · have hne : ety r ≠ C.CONTAINER_TAG := fun h => by
          have := (ety_container_iff r).1 h; rw [hs] at this; cases this
        rw [containsItems_cons_scalar f left lh _ _ _ _ hne, any_items ls hgl r hgr.1 hs, hrec]
        have hE : Spec.ElemIn ls r ↔ ls.any (fun x => Spec.valEq x r) = true := by
          simp [Spec.ElemIn, hs]
        exact ok_if _ _ _ (by rw [Spec.ContAll_cons, hE])
      · have hs' : Spec.isScalarJ r = false := by simpa using hs
        have hty := (ety_container_iff r).2 hs'
        rw [containsItems_cons_container f left lh _ _ _ _ hty, filter_items,
          encodeSpec_container r hs',
          ihN (ls.filter (fun x => !Spec.isScalarJ x)) r (goodL_filter _ ls hgl)
            (by intro x hx; simpa using (List.mem_filter.1 hx).2) hgr.1 hs'
            (by have := costL_filter (fun x => !Spec.isScalarJ x) ls; omega),
          hrec, andThen_ok]
        have hE : Spec.ElemIn ls r ↔
            ∃ x ∈ ls.filter (fun x => !Spec.isScalarJ x), Spec.Cont x r := by
          simp [Spec.ElemIn, hs', List.mem_filter, and_assoc]
        exact ok_if _ _ _ (by rw [Spec.ContAll_cons, hE, decide_eq_true_iff])
  · -- the search among the left array's containers
    intro ls r hgl hcl hgr hsr hf
    cases ls with
    | nil => rw [List.map_nil, containsNested_nil]; simp
    | cons l ls =>
      simp only [goodL, Bool.and_eq_true] at hgl
      simp only [costL] at hf
      have hsl := hcl l (by simp)
      have hrec := ihN ls r hgl.2 (fun x hx => hcl x (by simp [hx])) hgr hsr (by omega)
      rw [List.map_cons, show itemOf l = (⟨ety l, elen l, (entry l).1⟩, (entry l).2) from rfl,
        containsNested_cons, encodeSpec_container l hsl,
        ihJ l r (goodTop_of_good' l hgl.1) (goodTop_of_good' r hgr) hsl hsr (by omega),
        hrec, orElse_ok]
      by_cases ha : Spec.Cont l r
      · simp [ha]
      · simp [ha]
  · -- the loop over the right object's members
    intro lk rk hnl hgl hgr hf
    cases rk with
    | nil => rw [List.map_nil, containsMembers_nil]; simp [Spec.ContMem_nil]
    | cons kr rk =>
      obtain ⟨k, r⟩ := kr
      simp only [goodK, Bool.and_eq_true] at hgr
      simp only [costK] at hf
      have hgr1 : good r = true := hgr.1.2
      have hrec := ihM lk rk hnl hgl hgr.2 (by omega)
      have hget := getJentryByName_doc lk hnl hgl k
      rw [List.map_cons,
        show memberOf (k, r) = (k, ⟨ety r, elen r, (entry r).1⟩, (entry r).2) from rfl]
      cases hlp : lookupPos k lk (4 + 8 * lk.length + (keyBytes lk).length) with
      | none =>
        rw [hlp] at hget
        rw [containsMembers_miss f _ _ _ _ _ _ hget]
        have := lookupPos_none lk k _ hlp
        congr 1
        simp [Spec.ContMem_cons, Spec.MemIn, this]
      | some vp =>
        obtain ⟨v, p⟩ := vp
        rw [hlp] at hget
        simp only [Option.map_some] at hget
        obtain ⟨hgv, hlook, hslice⟩ := lookupPos_slice lk hgl k v p hlp
        have hM := MemIn_of_lookup hlook r
        by_cases hty : ety v = ety r
        · by_cases hs : Spec.isScalarJ r = true
          · have hne : ety r ≠ C.CONTAINER_TAG := fun h => by
              have := (ety_container_iff r).1 h; rw [hs] at this; cases this
            have hsv : Spec.isScalarJ v = true := by
              cases h : Spec.isScalarJ v with
              | true => rfl
              | false => exact absurd (hty ▸ (ety_container_iff v).2 h) hne
            rw [containsMembers_scalar f _ _ k ⟨ety r, elen r, (entry r).1⟩ _ _ (jeOf v) p (entry v).2
              hget hty hslice hne, hrec]
            simp only []
            rw [← hty, scalarEq_refines v r hgv hgr1 hsv hs hty]
            have hM' : Spec.MemIn lk k r ↔ Spec.valEq v r = true := by
              rw [hM, if_pos hs]
              exact ⟨fun h => h.2, fun h => ⟨Spec.valEq_sameKind h, h⟩⟩
            exact ok_if _ _ _ (by rw [Spec.ContMem_cons, hM'])
          · have hs' : Spec.isScalarJ r = false := by simpa using hs
            have htyr := (ety_container_iff r).2 hs'
            have hsv : Spec.isScalarJ v = false := (ety_container_iff v).1 (hty.trans htyr)
            have hcv := cost_lookup hlook
            rw [containsMembers_container f _ _ k ⟨ety r, elen r, (entry r).1⟩ _ _ (jeOf v) p (entry v).2
                hget hty hslice htyr,
              encodeSpec_container v hsv, encodeSpec_container r hs',
              ihJ v r (goodTop_of_good' v hgv) (goodTop_of_good' r hgr1) hsv hs'
                (by simp only [cost] at hf; omega),
              hrec, andThen_ok]
            have hM' : Spec.MemIn lk k r ↔ Spec.Cont v r := by
              rw [hM, if_neg hs]
              exact ⟨fun h => h.2, fun h => ⟨Spec.Cont_sameKind h, h⟩⟩
            exact ok_if _ _ _ (by rw [Spec.ContMem_cons, hM', decide_eq_true_iff])
        · rw [containsMembers_ty_ne f _ _ k ⟨ety r, elen r, (entry r).1⟩ _ _ (jeOf v) p hget hty]
          have : ¬ Spec.MemIn lk k r := fun h => hty (ety_eq_of_MemIn hlook h)
          congr 1
          simp [Spec.ContMem_cons, this]

theorem main_all (f : Nat) : Main f := by
  induction f with
  | zero => exact main_zero
  | succ f ih => exact main_succ f ih

end Fn
end Jsonb
