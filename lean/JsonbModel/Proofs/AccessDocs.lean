/-
Corollaries of the accessor refinements: every sub-value an accessor hands back is itself a
complete canonical document, i.e. `encodeSpec w` of a well-formed `w`.
-/
import JsonbModel.Proofs.AccessRefine5

namespace Jsonb
open JV

theorem lookup_good (name : Bytes) (kvs : List (Bytes × JV)) (hg : goodK kvs = true) (w : JV)
    (h : Spec.lookup name kvs = some w) : good w = true := by
  induction kvs with
  | nil => simp [Spec.lookup] at h
  | cons kv kvs ih =>
    obtain ⟨k, v⟩ := kv
    simp only [goodK, Bool.and_eq_true] at hg
    simp only [Spec.lookup] at h
    split at h
    · simp only [Option.some.injEq] at h; subst h; exact hg.1.2
    · exact ih hg.2 h

theorem lookupIgnoreCase_good (name : Bytes) (kvs : List (Bytes × JV)) (hg : goodK kvs = true) (w : JV)
    (h : Spec.lookupIgnoreCase name kvs = some w) : good w = true := by
  induction kvs with
  | nil => simp [Spec.lookupIgnoreCase] at h
  | cons kv kvs ih =>
    obtain ⟨k, v⟩ := kv
    simp only [goodK, Bool.and_eq_true] at hg
    simp only [Spec.lookupIgnoreCase] at h
    split at h
    · simp only [Option.some.injEq] at h; subst h; exact hg.1.2
    · exact ih hg.2 h

theorem spec_getByIndex_good (v : JV) (hg : goodTop v = true) (i : Nat) (w : JV)
    (h : Spec.getByIndex v i = some w) : good w = true := by
  cases v with
  | arr vs =>
    simp only [goodTop, Bool.and_eq_true, decide_eq_true_eq] at hg
    exact goodL_get vs hg.2 i w h
  | _ => simp [Spec.getByIndex] at h

theorem spec_getByName_good (v : JV) (hg : goodTop v = true) (name : Bytes) (ic : Bool) (w : JV)
    (h : Spec.getByName v name ic = some w) : good w = true := by
  cases v with
  | obj kvs =>
    simp only [goodTop, Bool.and_eq_true, decide_eq_true_eq] at hg
    simp only [Spec.getByName] at h
    cases hl : Spec.lookup name kvs with
    | some x =>
      rw [hl] at h; simp only [Option.some.injEq] at h; subst h
      exact lookup_good name kvs hg.2 x hl
    | none =>
      rw [hl] at h
      cases ic with
      | false => simp at h
      | true => exact lookupIgnoreCase_good name kvs hg.2 w (by simpa using h)
  | _ => simp [Spec.getByName] at h

theorem childOf_good (v : JV) (hg : goodTop v = true) (p : KeyPath) (c : JV) (h : childOf v p = some c) :
    good c = true := by
  cases v with
  | arr vs =>
    simp only [goodTop, Bool.and_eq_true, decide_eq_true_eq] at hg
    cases p with
    | index i =>
      simp only [childOf] at h
      split at h
      · simp at h
      · exact goodL_get vs hg.2 _ c h
    | name nm => simp [childOf] at h
    | quoted nm => simp [childOf] at h
  | obj kvs =>
    simp only [goodTop, Bool.and_eq_true, decide_eq_true_eq] at hg
    cases p with
    | index i => simp [childOf] at h
    | name nm => exact lookup_good nm kvs hg.2 c h
    | quoted nm => exact lookup_good nm kvs hg.2 c h
  | null => simp [childOf] at h
  | bool b => simp [childOf] at h
  | num n => simp [childOf] at h
  | str s => simp [childOf] at h

theorem spec_getByKeypath_good (path : List KeyPath) :
    ∀ (v : JV), goodTop v = true → ∀ w, Spec.getByKeypath v path = some w →
      (path = [] ∧ w = v) ∨ good w = true := by
  induction path with
  | nil =>
    intro v _ w h
    simp only [Spec.getByKeypath, Option.some.injEq] at h
    exact Or.inl ⟨rfl, h.symm⟩
  | cons p ps ih =>
    intro v hg w h
    rw [getByKeypath_cons] at h
    cases hc : childOf v p with
    | none => rw [hc] at h; simp at h
    | some c =>
      rw [hc] at h
      simp only [Option.bind_some] at h
      have hgc := childOf_good v hg p c hc
      rcases ih c (good_goodTop c hgc) w h with ⟨_, rfl⟩ | hw
      · exact Or.inr hgc
      · exact Or.inr hw

/-! ### the corollaries -/

theorem getByIndex_doc (v : JV) (hg : goodTop v = true) (i : Nat) (bs : Bytes)
    (h : Fn.getByIndex (encodeSpec v) i = .ok (some bs)) : ∃ w, good w = true ∧ bs = encodeSpec w := by
  rw [getByIndex_refines v hg i] at h
  cases hs : Spec.getByIndex v i with
  | none => rw [hs] at h; simp at h
  | some w =>
    rw [hs] at h
    simp only [Option.map_some, Res.ok.injEq, Option.some.injEq] at h
    exact ⟨w, spec_getByIndex_good v hg i w hs, h.symm⟩

theorem getByName_doc (v : JV) (hg : goodTop v = true) (name : Bytes) (ic : Bool) (bs : Bytes)
    (h : Fn.getByName (encodeSpec v) name ic = .ok (some bs)) : ∃ w, good w = true ∧ bs = encodeSpec w := by
  rw [getByName_refines v hg name ic] at h
  cases hs : Spec.getByName v name ic with
  | none => rw [hs] at h; simp at h
  | some w =>
    rw [hs] at h
    simp only [Option.map_some, Res.ok.injEq, Option.some.injEq] at h
    exact ⟨w, spec_getByName_good v hg name ic w hs, h.symm⟩

/-- `get_by_keypath` returns a canonical document; for a non-empty path it is the image of a
value stored inside the document (so within all field widths) -/
theorem getByKeypath_doc (v : JV) (hg : goodTop v = true) (path : List KeyPath) (bs : Bytes)
    (h : Fn.getByKeypath (encodeSpec v) path = .ok (some bs)) :
    ∃ w, goodTop w = true ∧ bs = encodeSpec w ∧ (path ≠ [] → good w = true) := by
  rw [getByKeypath_refines v hg path] at h
  cases hs : Spec.getByKeypath v path with
  | none => rw [hs] at h; simp at h
  | some w =>
    rw [hs] at h
    simp only [Option.map_some, Res.ok.injEq, Option.some.injEq] at h
    rcases spec_getByKeypath_good path v hg w hs with ⟨hp, rfl⟩ | hw
    · exact ⟨w, hg, h.symm, fun hne => absurd hp hne⟩
    · exact ⟨w, good_goodTop w hw, h.symm, fun _ => hw⟩

theorem arrayValues_doc (v : JV) (hg : goodTop v = true) (l : List Bytes)
    (h : Fn.arrayValues (encodeSpec v) = .ok (some l)) :
    ∀ bs ∈ l, ∃ w, good w = true ∧ bs = encodeSpec w := by
  rw [arrayValues_refines v hg] at h
  cases v with
  | arr vs =>
    simp only [goodTop, Bool.and_eq_true, decide_eq_true_eq] at hg
    simp only [Spec.arrayValues, Option.map_some, Res.ok.injEq, Option.some.injEq] at h
    subst h
    intro bs hbs
    obtain ⟨w, hw, rfl⟩ := List.mem_map.mp hbs
    obtain ⟨i, hi, rfl⟩ := List.getElem_of_mem hw
    exact ⟨vs[i], goodL_get vs hg.2 i _ (by simp [hi]), rfl⟩
  | _ => simp [Spec.arrayValues] at h

theorem goodK_mem (kvs : List (Bytes × JV)) (hg : goodK kvs = true) (kv : Bytes × JV) (h : kv ∈ kvs) :
    good kv.2 = true ∧ validUtf8 kv.1 = true := by
  induction kvs with
  | nil => simp at h
  | cons x xs ih =>
    obtain ⟨k, v⟩ := x
    simp only [goodK, Bool.and_eq_true] at hg
    simp only [List.mem_cons] at h
    rcases h with rfl | h
    · exact ⟨hg.1.2, hg.1.1.2⟩
    · exact ih hg.2 h

theorem objectEach_doc (v : JV) (hg : goodTop v = true) (l : List (Bytes × Bytes))
    (h : Fn.objectEach (encodeSpec v) = .ok (some l)) :
    ∀ kb ∈ l, validUtf8 kb.1 = true ∧ ∃ w, good w = true ∧ kb.2 = encodeSpec w := by
  rw [objectEach_refines v hg] at h
  cases v with
  | obj kvs =>
    simp only [goodTop, Bool.and_eq_true, decide_eq_true_eq] at hg
    simp only [Spec.objectEach, Option.map_some, Res.ok.injEq, Option.some.injEq] at h
    subst h
    intro kb hkb
    obtain ⟨kv, hkv, rfl⟩ := List.mem_map.mp hkb
    have := goodK_mem kvs hg.2 kv hkv
    exact ⟨this.2, kv.2, this.1, rfl⟩
  | _ => simp [Spec.objectEach] at h

/-- the key array is a canonical top-level document (its own image length is not an entry
payload, so it is `goodTop`, like any document root) -/
theorem objectKeys_doc (v : JV) (hg : goodTop v = true) (bs : Bytes)
    (h : Fn.objectKeys (encodeSpec v) = .ok (some bs)) : ∃ w, goodTop w = true ∧ bs = encodeSpec w := by
  rw [objectKeys_refines v hg] at h
  cases v with
  | obj kvs =>
    simp only [goodTop, Bool.and_eq_true, decide_eq_true_eq] at hg
    simp only [Spec.objectKeys, Option.map_some, Res.ok.injEq, Option.some.injEq] at h
    subst h
    refine ⟨arr (kvs.map (fun kv => str kv.1)), ?_, ?_⟩
    · simp only [goodTop, List.length_map, Bool.and_eq_true, decide_eq_true_eq]
      exact ⟨hg.1.1, goodL_strs kvs hg.2⟩
    · rfl
  | arr vs => simp [Spec.objectKeys] at h
  | null => simp [Spec.objectKeys] at h
  | bool b => simp [Spec.objectKeys] at h
  | num n => simp [Spec.objectKeys] at h
  | str s => simp [Spec.objectKeys] at h

end Jsonb
